From PF Require Import Base.Bytes Base.BytesProofs Formats.Stl.
From Coq Require Import ZifyN ZifyNat ZifyBool.
Open Scope N_scope.
Ltac Zify.zify_post_hook ::= Z.div_mod_to_equations.

Lemma vec12_length v : length (vec12 v) = 12%nat.
Proof. destruct v as [[x y] z]. reflexivity. Qed.

Lemma rec50_length t : length (rec50 t) = 50%nat.
Proof. unfold rec50. rewrite !app_length, !vec12_length, le16_length. reflexivity. Qed.

Lemma flat_rec50_length ts : length (flat_map rec50 ts) = (50 * length ts)%nat.
Proof. induction ts as [|t ts IH]; simpl; [reflexivity|]. rewrite app_length, rec50_length, IH. lia. Qed.

Lemma write_length hdr ts : length (write hdr ts) = (length hdr + 4 + 50 * length ts)%nat.
Proof. unfold write. rewrite !app_length, le32_length, flat_rec50_length. lia. Qed.

(* ---------- forward direction: read after write ---------- *)
Lemma get32_le32 w r : word32 w -> get32 (le32 w ++ r) = Some (w, r).
Proof.
  intros H. unfold get32. change 4%nat with (length (le32 w)). rewrite take_app. cbn [bind].
  rewrite de_le32_le32 by assumption. reflexivity.
Qed.

Lemma get16_le16 w r : word16 w -> get16 (le16 w ++ r) = Some (w, r).
Proof.
  intros H. unfold get16. change 2%nat with (length (le16 w)). rewrite take_app. cbn [bind].
  rewrite de_le16_le16 by assumption. reflexivity.
Qed.

Lemma getvec_vec12 v r : vec_ok v -> getvec (vec12 v ++ r) = Some (v, r).
Proof.
  destruct v as [[x y] z]. intros (Hx & Hy & Hz). unfold getvec, vec12.
  rewrite <- !app_assoc. rewrite get32_le32 by assumption. cbn [bind].
  rewrite get32_le32 by assumption. cbn [bind]. rewrite get32_le32 by assumption. reflexivity.
Qed.

Lemma gettri_rec50 t r : tri_ok t -> gettri (rec50 t ++ r) = Some (t, r).
Proof.
  intros (Hn & Ha & Hb & Hc & Hat). unfold gettri, rec50. rewrite <- !app_assoc.
  rewrite getvec_vec12 by assumption. cbn [bind].
  rewrite getvec_vec12 by assumption. cbn [bind].
  rewrite getvec_vec12 by assumption. cbn [bind].
  rewrite getvec_vec12 by assumption. cbn [bind].
  rewrite get16_le16 by assumption. cbn [bind]. destruct t; reflexivity.
Qed.

Lemma read_tris_flat ts : forall fuel r, Forall tri_ok ts -> (length ts <= fuel)%nat ->
  read_tris fuel (N.of_nat (length ts)) (flat_map rec50 ts ++ r) = Some ts.
Proof.
  induction ts as [|t ts IH]; intros fuel r Hok Hf.
  - destruct fuel; reflexivity.
  - destruct fuel as [|f]; [simpl in Hf; lia|].
    cbn [read_tris]. replace (N.of_nat (length (t :: ts)) =? 0) with false by (simpl length; lia).
    cbn [flat_map]. rewrite <- app_assoc. inversion Hok as [|? ? Ht Hts]; subst.
    rewrite gettri_rec50 by assumption. cbn [bind].
    replace (N.of_nat (length (t :: ts)) - 1) with (N.of_nat (length ts)) by (simpl length; lia).
    rewrite IH by (try assumption; simpl in Hf; lia). reflexivity.
Qed.

(* trailing bytes are ignored (as by the Go reader) *)
Theorem read_write_trailing hdr ts extra :
  length hdr = 80%nat -> Forall tri_ok ts -> N.of_nat (length ts) < 4294967296 ->
  read (write hdr ts ++ extra) = Some (hdr, ts).
Proof.
  intros Hh Hok Hn. unfold read, write. rewrite <- !app_assoc. rewrite <- Hh, take_app. cbn [bind].
  rewrite get32_le32 by exact Hn. cbn [bind].
  rewrite read_tris_flat; [reflexivity|assumption|].
  rewrite app_length, flat_rec50_length. lia.
Qed.

Theorem read_write hdr ts :
  length hdr = 80%nat -> Forall tri_ok ts -> N.of_nat (length ts) < 4294967296 ->
  read (write hdr ts) = Some (hdr, ts).
Proof. intros. rewrite <- (app_nil_r (write hdr ts)). apply read_write_trailing; assumption. Qed.

(* ---------- backward direction: write after read ---------- *)
Lemma get32_inv l w r : bytes_ok l -> get32 l = Some (w, r) -> l = le32 w ++ r /\ word32 w /\ bytes_ok r.
Proof.
  unfold get32. intros Hb. destruct (take 4 l) as [[a r']|] eqn:E; cbn [bind]; [|discriminate].
  destruct (de_le32 a) as [w'|] eqn:E2; cbn [bind]; [|discriminate].
  intros H. assert (w' = w /\ r' = r) as [-> ->] by (split; congruence).
  apply take_spec in E. destruct E as [-> _]. apply bytes_ok_app in Hb. destruct Hb as [Ha Hr].
  split; [|split; [apply (de_le32_word32 a); assumption|assumption]].
  f_equal. symmetry. apply le32_of_de_le32; assumption.
Qed.

Lemma le16_of_de_le16 l w : bytes_ok l -> de_le16 l = Some w -> le16 w = l /\ word16 w.
Proof.
  unfold de_le16. destruct l as [|a [|b [|? ?]]]; try discriminate.
  intros H E. apply some_inj in E. subst w. unfold bytes_ok in H.
  repeat rewrite Forall_cons_iff in H. unfold is_byte, le16, word16 in *.
  split; [repeat f_equal; lia | lia].
Qed.

Lemma get16_inv l w r : bytes_ok l -> get16 l = Some (w, r) -> l = le16 w ++ r /\ word16 w /\ bytes_ok r.
Proof.
  unfold get16. intros Hb. destruct (take 2 l) as [[a r']|] eqn:E; cbn [bind]; [|discriminate].
  destruct (de_le16 a) as [w'|] eqn:E2; cbn [bind]; [|discriminate].
  intros H. assert (w' = w /\ r' = r) as [-> ->] by (split; congruence).
  apply take_spec in E. destruct E as [-> _]. apply bytes_ok_app in Hb. destruct Hb as [Ha Hr].
  destruct (le16_of_de_le16 _ _ Ha E2) as [<- Hw]. auto.
Qed.

Lemma getvec_inv l v r : bytes_ok l -> getvec l = Some (v, r) -> l = vec12 v ++ r /\ vec_ok v /\ bytes_ok r.
Proof.
  unfold getvec. intros Hb.
  destruct (get32 l) as [[x r1]|] eqn:E1; cbn [bind]; [|discriminate].
  destruct (get32 r1) as [[y r2]|] eqn:E2; cbn [bind]; [|discriminate].
  destruct (get32 r2) as [[z r3]|] eqn:E3; cbn [bind]; [|discriminate].
  intros H. assert (v = (x, y, z) /\ r3 = r) as [-> ->] by (split; congruence).
  apply get32_inv in E1; [|assumption]. destruct E1 as (-> & Hx & Hb1).
  apply get32_inv in E2; [|assumption]. destruct E2 as (-> & Hy & Hb2).
  apply get32_inv in E3; [|assumption]. destruct E3 as (-> & Hz & Hb3).
  unfold vec12, vec_ok. rewrite <- !app_assoc. auto.
Qed.

Lemma gettri_inv l t r : bytes_ok l -> gettri l = Some (t, r) -> l = rec50 t ++ r /\ tri_ok t /\ bytes_ok r.
Proof.
  unfold gettri. intros Hb.
  destruct (getvec l) as [[n r1]|] eqn:E1; cbn [bind]; [|discriminate].
  destruct (getvec r1) as [[a r2]|] eqn:E2; cbn [bind]; [|discriminate].
  destruct (getvec r2) as [[b r3]|] eqn:E3; cbn [bind]; [|discriminate].
  destruct (getvec r3) as [[c r4]|] eqn:E4; cbn [bind]; [|discriminate].
  destruct (get16 r4) as [[at_ r5]|] eqn:E5; cbn [bind]; [|discriminate].
  intros H. assert (t = {| tn := n; ta := a; tb := b; tc := c; tattr := at_ |} /\ r5 = r) as [-> ->]
    by (split; congruence).
  apply getvec_inv in E1; [|assumption]. destruct E1 as (-> & Hn & Hb1).
  apply getvec_inv in E2; [|assumption]. destruct E2 as (-> & Ha & Hb2).
  apply getvec_inv in E3; [|assumption]. destruct E3 as (-> & Hbb & Hb3).
  apply getvec_inv in E4; [|assumption]. destruct E4 as (-> & Hc & Hb4).
  apply get16_inv in E5; [|assumption]. destruct E5 as (-> & Hat & Hb5).
  unfold rec50, tri_ok. cbn [tn ta tb tc tattr]. rewrite <- !app_assoc. auto 10.
Qed.

Lemma read_tris_inv fuel : forall count l ts, bytes_ok l -> read_tris fuel count l = Some ts ->
  exists rest, l = flat_map rec50 ts ++ rest /\ N.of_nat (length ts) = count /\ Forall tri_ok ts.
Proof.
  induction fuel as [|f IH]; intros count l ts Hb; cbn [read_tris].
  - destruct (count =? 0) eqn:Ec; [|discriminate]. intros E. apply some_inj in E. subst ts.
    exists l. simpl. split; [reflexivity|]. split; [lia|constructor].
  - destruct (count =? 0) eqn:Ec.
    + intros E. apply some_inj in E. subst ts. exists l. simpl. split; [reflexivity|]. split; [lia|constructor].
    + destruct (gettri l) as [[t r]|] eqn:Et; cbn [bind]; [|discriminate].
      destruct (read_tris f (count - 1) r) as [ts'|] eqn:Er; cbn [bind]; [|discriminate].
      intros E. apply some_inj in E. subst ts.
      apply gettri_inv in Et; [|assumption]. destruct Et as (-> & Hok & Hbr).
      apply IH in Er; [|assumption]. destruct Er as (rest & -> & Hlen & Hoks).
      exists rest. cbn [flat_map length]. rewrite <- app_assoc. split; [reflexivity|].
      split; [lia|]. constructor; assumption.
Qed.

Theorem read_inv bytes hdr ts : bytes_ok bytes -> read bytes = Some (hdr, ts) ->
  exists rest, bytes = write hdr ts ++ rest /\ length hdr = 80%nat /\ Forall tri_ok ts
               /\ N.of_nat (length ts) < 4294967296.
Proof.
  unfold read. intros Hb.
  destruct (take 80 bytes) as [[h r]|] eqn:E1; cbn [bind]; [|discriminate].
  destruct (get32 r) as [[count r2]|] eqn:E2; cbn [bind]; [|discriminate].
  destruct (read_tris (length r2) count r2) as [ts'|] eqn:E3; cbn [bind]; [|discriminate].
  intros H. assert (h = hdr /\ ts' = ts) as [-> ->] by (split; congruence).
  apply take_spec in E1. destruct E1 as [-> Hl]. apply bytes_ok_app in Hb. destruct Hb as [_ Hb].
  apply get32_inv in E2; [|assumption]. destruct E2 as (-> & Hw & Hb2).
  apply read_tris_inv in E3; [|assumption]. destruct E3 as (rest & -> & Hlen & Hoks).
  exists rest. unfold write. rewrite <- !app_assoc. subst count. unfold word32 in Hw. auto.
Qed.

Theorem write_read bytes hdr ts :
  bytes_ok bytes -> read bytes = Some (hdr, ts) -> length bytes = (84 + 50 * length ts)%nat ->
  write hdr ts = bytes.
Proof.
  intros Hb Hr Hlen. destruct (read_inv _ _ _ Hb Hr) as (rest & -> & Hh & _ & _).
  rewrite app_length, write_length in Hlen. destruct rest; [rewrite app_nil_r; reflexivity|].
  simpl in Hlen. lia.
Qed.

(* a strict prefix of a written file is rejected (used by C14) *)
Lemma vec12_bytes v : bytes_ok (vec12 v).
Proof. destruct v as [[x y] z]. unfold vec12. repeat (apply bytes_ok_app; split); apply le32_bytes. Qed.

Lemma rec50_bytes t : bytes_ok (rec50 t).
Proof. unfold rec50. repeat (apply bytes_ok_app; split); try apply vec12_bytes. apply le16_bytes. Qed.

Lemma write_bytes_ok hdr ts : bytes_ok hdr -> bytes_ok (write hdr ts).
Proof.
  intros Hh. unfold write. apply bytes_ok_app. split; [assumption|]. apply bytes_ok_app. split; [apply le32_bytes|].
  induction ts as [|t ts IH]; [constructor|]. cbn [flat_map]. apply bytes_ok_app. split; [apply rec50_bytes|exact IH].
Qed.

Lemma bytes_ok_firstn k l : bytes_ok l -> bytes_ok (firstn k l).
Proof. intros H. rewrite <- (firstn_skipn k l) in H. apply bytes_ok_app in H. tauto. Qed.

Lemma app_eq_len {A} (a b c d : list A) : length a = length c -> a ++ b = c ++ d -> a = c /\ b = d.
Proof.
  revert c. induction a as [|x a IH]; intros [|y c] Hl H; simpl in *; try discriminate; [auto|].
  injection H as -> H. apply IH in H; [|lia]. destruct H as [-> ->]. auto.
Qed.

Theorem read_prefix_rejected hdr ts k :
  length hdr = 80%nat -> bytes_ok hdr -> N.of_nat (length ts) < 4294967296 ->
  (k < length (write hdr ts))%nat -> read (firstn k (write hdr ts)) = None.
Proof.
  intros Hh Hbh Hn Hk. destruct (read (firstn k (write hdr ts))) as [[h' ts']|] eqn:E; [exfalso|reflexivity].
  apply read_inv in E; [|apply bytes_ok_firstn, write_bytes_ok; assumption].
  destruct E as (rest & E & Hh' & _ & Hn').
  assert (Hlen : (length (write h' ts') <= k)%nat).
  { apply (f_equal (@length N)) in E. rewrite firstn_length, app_length in E. lia. }
  rewrite write_length in Hlen, Hk.
  apply (f_equal (firstn 84)) in E. rewrite firstn_firstn in E. replace (Nat.min 84 k) with 84%nat in E by lia.
  unfold write in E. rewrite !app_assoc in E.
  rewrite firstn_app in E. rewrite (firstn_all2 (hdr ++ _)) in E by (rewrite app_length, le32_length; lia).
  replace (84 - length (hdr ++ le32 (N.of_nat (length ts))))%nat with 0%nat in E by (rewrite app_length, le32_length; lia).
  rewrite firstn_O, app_nil_r in E. rewrite <- !app_assoc in E. rewrite (app_assoc h') in E.
  rewrite firstn_app in E. rewrite (firstn_all2 (h' ++ _)) in E by (rewrite app_length, le32_length; lia).
  replace (84 - length (h' ++ le32 (N.of_nat (length ts'))))%nat with 0%nat in E by (rewrite app_length, le32_length; lia).
  rewrite firstn_O, app_nil_r in E.
  apply app_eq_len in E; [|lia]. destruct E as [_ E].
  apply (f_equal de_le32) in E. rewrite !de_le32_le32 in E by assumption. apply some_inj in E. lia.
Qed.

(* ---------- mesh level ---------- *)
Definition corner_positions (idx : list nat) (pos : list vec) : list vec := map (fun i => nth i pos vzero) idx.

Lemma gather_tris_spec fns : forall idx pos,
  length idx = (3 * length fns)%nat -> Forall (fun i => (i < length pos)%nat) idx ->
  exists ts, gather_tris idx pos fns = Some ts /\ length ts = length fns /\ map tn ts = fns
    /\ flat_map (fun t => [ta t; tb t; tc t]) ts = corner_positions idx pos
    /\ Forall (fun t => tattr t = 0) ts.
Proof.
  induction fns as [|f fns IH]; intros idx pos Hl Hr.
  - destruct idx; [|discriminate]. exists []. simpl. auto.
  - destruct idx as [|i [|j [|k idx]]]; try (simpl in Hl; lia).
    repeat rewrite Forall_cons_iff in Hr. destruct Hr as (Hi & Hj & Hk & Hr).
    destruct (IH idx pos) as (ts & E & Hlen & Hn & Hp & Hat); [simpl in Hl; lia|assumption|].
    cbn [gather_tris].
    destruct (nth_error pos i) as [a|] eqn:Ea; [|apply nth_error_None in Ea; lia].
    destruct (nth_error pos j) as [b|] eqn:Eb; [|apply nth_error_None in Eb; lia].
    destruct (nth_error pos k) as [c|] eqn:Ec; [|apply nth_error_None in Ec; lia].
    cbn [bind]. rewrite E. cbn [bind]. eexists. split; [reflexivity|].
    cbn [length map flat_map tn ta tb tc tattr app]. unfold corner_positions in *. cbn [map].
    rewrite (nth_error_nth _ _ _ Ea), (nth_error_nth _ _ _ Eb), (nth_error_nth _ _ _ Ec).
    rewrite Hlen, Hn, Hp. repeat split; auto.
Qed.

Lemma Forall_nth_ok (pos : list vec) i : Forall vec_ok pos -> vec_ok (nth i pos vzero).
Proof.
  intros H. destruct (Nat.lt_ge_cases i (length pos)) as [Hi|Hi].
  - rewrite Forall_forall in H. apply H, nth_In, Hi.
  - rewrite nth_overflow by assumption. unfold vec_ok, vzero, word32. lia.
Qed.

Theorem mesh_roundtrip idx pos fns :
  length idx = (3 * length fns)%nat -> Forall (fun i => (i < length pos)%nat) idx ->
  Forall vec_ok pos -> Forall vec_ok fns -> N.of_nat (length fns) < 4294967296 ->
  exists bytes m,
    write_mesh idx (Some pos) fns = Some bytes /\
    length bytes = (84 + 50 * length fns)%nat /\
    read_mesh bytes = Some m /\
    r_nverts m = length idx /\ r_idx m = seq 0 (length idx) /\
    r_pos m = corner_positions idx pos /\
    r_nrm m = (if existsb (fun f => negb (vec_zero f)) fns
               then Some (flat_map (fun f => let x := vec_nrm f in [x; x; x]) fns) else None).
Proof.
  intros Hl Hr Hp Hf Hn.
  destruct (gather_tris_spec fns idx pos Hl Hr) as (ts & E & Hlen & Htn & Hpos & Hat).
  assert (Hok : Forall tri_ok ts).
  { clear E Hn Hl Hr. revert fns idx Hlen Htn Hpos Hat Hf. induction ts as [|t ts IH]; intros fns idx Hlen Htn Hpos Hat Hf; [constructor|].
    destruct fns as [|f fns]; [discriminate|]. cbn [map] in Htn.
    assert (tn t = f /\ map tn ts = fns) as [Ht Hts] by (split; congruence).
    rewrite Forall_cons_iff in Hat, Hf. destruct Hat as [Ha0 Hat]. destruct Hf as [Hf0 Hf].
    cbn [flat_map app] in Hpos. unfold corner_positions in Hpos.
    destruct idx as [|i [|j [|k idx]]]; try discriminate. cbn [map] in Hpos.
    assert (ta t = nth i pos vzero /\ tb t = nth j pos vzero /\ tc t = nth k pos vzero /\
            flat_map (fun t => [ta t; tb t; tc t]) ts = map (fun i => nth i pos vzero) idx) as (Ea & Eb & Ec & Er)
      by (repeat split; congruence).
    constructor.
    - unfold tri_ok. rewrite Ht, Ea, Eb, Ec, Ha0.
      split; [assumption|]. repeat (split; [apply Forall_nth_ok; assumption|]). unfold word16; lia.
    - eapply IH; try eassumption. simpl in Hlen. lia. }
  exists (write zero_hdr ts). eexists. unfold write_mesh. rewrite E. cbn [bind].
  split; [reflexivity|]. split; [rewrite write_length, Hlen; reflexivity|].
  unfold read_mesh. rewrite read_write; [|reflexivity|assumption|rewrite Hlen; assumption]. cbn [bind].
  split; [reflexivity|]. cbn [r_nverts r_idx r_pos r_nrm]. rewrite Hlen, <- Hl.
  split; [reflexivity|]. split; [reflexivity|]. split; [assumption|].
  rewrite <- Htn. clear. induction ts as [|t ts IH]; [reflexivity|].
  cbn [map existsb flat_map]. unfold tri_nrm at 1.
  destruct (negb (vec_zero (tn t))); cbn [orb]; [|].
  - f_equal. f_equal. clear IH. induction ts as [|t' ts IH]; [reflexivity|]. cbn [map flat_map]. unfold tri_nrm at 1. rewrite IH. reflexivity.
  - destruct (existsb _ ts), (existsb _ (map tn ts)); try discriminate; [|reflexivity].
    apply some_inj in IH. cbn [app]. rewrite IH. reflexivity.
Qed.

(* ---------- reading then writing a byte string that has trailing bytes ---------- *)
(* stl.Read ignores whatever follows the announced records; stl.Write reproduces header, count and records,
   i.e. the first 84 + 50 n bytes of the input *)
Theorem write_read_prefix bytes hdr ts :
  bytes_ok bytes -> read bytes = Some (hdr, ts) ->
  write hdr ts = firstn (84 + 50 * length ts) bytes /\ (84 + 50 * length ts <= length bytes)%nat.
Proof.
  intros Hb Hr. destruct (read_inv _ _ _ Hb Hr) as (rest & -> & Hh & _ & _).
  assert (Hl : length (write hdr ts) = (84 + 50 * length ts)%nat) by (rewrite write_length, Hh; reflexivity).
  rewrite <- Hl. split.
  - rewrite firstn_app, firstn_all, Nat.sub_diag, firstn_O, app_nil_r. reflexivity.
  - rewrite app_length. lia.
Qed.

(* ---------- the chunked reader (stl.Read reads min(remaining, 4096) records per binary.Read) ---------- *)
Lemma take_length {A} n (l a r : list A) : take n l = Some (a, r) -> length l = (n + length r)%nat.
Proof. intros H. apply take_spec in H. destruct H as [-> <-]. apply app_length. Qed.

Lemma get32_length l w r : get32 l = Some (w, r) -> length l = (4 + length r)%nat.
Proof.
  unfold get32. destruct (take 4 l) as [[a r']|] eqn:E; cbn [bind]; [|discriminate].
  destruct (de_le32 a); cbn [bind]; [|discriminate]. intros H.
  assert (r' = r) by congruence. subst. eapply take_length; eassumption.
Qed.

Lemma get16_length l w r : get16 l = Some (w, r) -> length l = (2 + length r)%nat.
Proof.
  unfold get16. destruct (take 2 l) as [[a r']|] eqn:E; cbn [bind]; [|discriminate].
  destruct (de_le16 a); cbn [bind]; [|discriminate]. intros H.
  assert (r' = r) by congruence. subst. eapply take_length; eassumption.
Qed.

Lemma getvec_length l v r : getvec l = Some (v, r) -> length l = (12 + length r)%nat.
Proof.
  unfold getvec.
  destruct (get32 l) as [[x r1]|] eqn:E1; cbn [bind]; [|discriminate].
  destruct (get32 r1) as [[y r2]|] eqn:E2; cbn [bind]; [|discriminate].
  destruct (get32 r2) as [[z r3]|] eqn:E3; cbn [bind]; [|discriminate].
  intros H. assert (r3 = r) by congruence. subst.
  apply get32_length in E1, E2, E3. lia.
Qed.

Lemma gettri_length l t r : gettri l = Some (t, r) -> length l = (50 + length r)%nat.
Proof.
  unfold gettri.
  destruct (getvec l) as [[n r1]|] eqn:E1; cbn [bind]; [|discriminate].
  destruct (getvec r1) as [[a r2]|] eqn:E2; cbn [bind]; [|discriminate].
  destruct (getvec r2) as [[b r3]|] eqn:E3; cbn [bind]; [|discriminate].
  destruct (getvec r3) as [[c r4]|] eqn:E4; cbn [bind]; [|discriminate].
  destruct (get16 r4) as [[at_ r5]|] eqn:E5; cbn [bind]; [|discriminate].
  intros H. assert (r5 = r) by congruence. subst.
  apply getvec_length in E1, E2, E3, E4. apply get16_length in E5. lia.
Qed.

Lemma read_tris_rest_0 fuel l : read_tris_rest fuel 0 l = Some ([], l).
Proof. destruct fuel; reflexivity. Qed.

Lemma read_tris_rest_nil fuel c : c <> 0 -> read_tris_rest fuel c [] = None.
Proof. intros H. destruct fuel; cbn [read_tris_rest]; destruct (c =? 0) eqn:E; try reflexivity; lia. Qed.

Lemma read_tris_rest_S f c l : c <> 0 ->
  read_tris_rest (S f) c l =
  (do '(t, r) <- gettri l; do '(ts, r') <- read_tris_rest f (c - 1) r; Some (t :: ts, r')).
Proof. intros H. cbn [read_tris_rest]. replace (c =? 0) with false by lia. reflexivity. Qed.

(* [read_tris] is [read_tris_rest] without the rest *)
Lemma read_tris_fst fuel : forall c l, read_tris fuel c l = option_map fst (read_tris_rest fuel c l).
Proof.
  induction fuel as [|f IH]; intros c l; cbn [read_tris read_tris_rest]; destruct (c =? 0); try reflexivity.
  destruct (gettri l) as [[t r]|]; cbn [bind]; [|reflexivity]. rewrite IH.
  destruct (read_tris_rest f (c - 1) r) as [[ts r']|]; reflexivity.
Qed.

(* any fuel that covers the bytes present gives the same answer *)
Lemma read_tris_rest_fuel f : forall f' c l, (length l <= f)%nat -> (length l <= f')%nat ->
  read_tris_rest f c l = read_tris_rest f' c l.
Proof.
  induction f as [|f IH]; intros f' c l Hf Hf'; (destruct (N.eq_dec c 0) as [->|Hc]; [rewrite !read_tris_rest_0; reflexivity|]).
  - destruct l; [|simpl in Hf; lia]. rewrite !read_tris_rest_nil by assumption. reflexivity.
  - destruct f' as [|f'].
    + destruct l; [|simpl in Hf'; lia]. rewrite !read_tris_rest_nil by assumption. reflexivity.
    + cbn [read_tris_rest]. destruct (c =? 0); [reflexivity|].
      destruct (gettri l) as [[t r]|] eqn:Et; cbn [bind]; [|reflexivity].
      apply gettri_length in Et. rewrite (IH f' (c - 1) r) by lia. reflexivity.
Qed.

Lemma read_tris_rest_length fuel : forall c l ts r, read_tris_rest fuel c l = Some (ts, r) ->
  N.of_nat (length ts) = c /\ length l = (50 * length ts + length r)%nat.
Proof.
  induction fuel as [|f IH]; intros c l ts r; cbn [read_tris_rest]; destruct (c =? 0) eqn:Ec.
  - intros H. assert (ts = [] /\ r = l) as [-> ->] by (split; congruence). simpl. lia.
  - discriminate.
  - intros H. assert (ts = [] /\ r = l) as [-> ->] by (split; congruence). simpl. lia.
  - destruct (gettri l) as [[t r1]|] eqn:Et; cbn [bind]; [|discriminate].
    destruct (read_tris_rest f (c - 1) r1) as [[ts' r']|] eqn:Er; cbn [bind]; [|discriminate].
    intros H. assert (ts = t :: ts' /\ r = r') as [-> ->] by (split; congruence).
    apply gettri_length in Et. apply IH in Er. destruct Er as [Hc Hl]. simpl length. lia.
Qed.

(* reading a + b records = reading a records, then b records from the rest *)
Lemma read_tris_rest_split fuel : forall a b l, (length l <= fuel)%nat ->
  read_tris_rest fuel (a + b) l =
  (do '(x, r) <- read_tris_rest fuel a l; do '(y, r') <- read_tris_rest fuel b r; Some (x ++ y, r')).
Proof.
  induction fuel as [|f IH]; intros a b l Hf; (destruct (N.eq_dec a 0) as [->|Ha];
    [rewrite read_tris_rest_0; cbn [bind]; rewrite N.add_0_l;
     destruct (read_tris_rest _ b l) as [[y r']|]; reflexivity|]).
  - cbn [read_tris_rest]. replace (a + b =? 0) with false by lia. replace (a =? 0) with false by lia. reflexivity.
  - rewrite (read_tris_rest_S f (a + b)), (read_tris_rest_S f a) by lia.
    destruct (gettri l) as [[t r]|] eqn:Et; cbn [bind]; [|reflexivity].
    apply gettri_length in Et. replace (a + b - 1) with ((a - 1) + b) by lia.
    rewrite IH by lia.
    destruct (read_tris_rest f (a - 1) r) as [[x r1]|] eqn:E1; cbn [bind]; [|reflexivity].
    apply read_tris_rest_length in E1. destruct E1 as [_ Hl].
    rewrite (read_tris_rest_fuel f (S f) b r1) by lia.
    destruct (read_tris_rest (S f) b r1) as [[y r']|]; reflexivity.
Qed.

(* the chunk loop returns what one pass over all announced records returns: for EVERY chunk size k >= 1 *)
Lemma read_chunks_eq fuel : forall k rem l fuel', 1 <= k -> (length l <= fuel)%nat -> (length l <= fuel')%nat ->
  read_chunks fuel k rem l = read_tris_rest fuel' rem l.
Proof.
  induction fuel as [|f IH]; intros k rem l fuel' Hk Hf Hf';
    (destruct (N.eq_dec rem 0) as [->|Hr]; [rewrite read_tris_rest_0; reflexivity|]).
  - destruct l; [|simpl in Hf; lia]. rewrite read_tris_rest_nil by assumption.
    cbn [read_chunks]. replace (rem =? 0) with false by lia. reflexivity.
  - cbn [read_chunks]. replace (rem =? 0) with false by lia.
    remember (N.min rem k) as c eqn:Ec.
    assert (Hc : 1 <= c /\ c <= rem) by lia.
    pose proof (read_tris_rest_split fuel' c (rem - c) l Hf') as Hs.
    replace (c + (rem - c)) with rem in Hs by lia. rewrite Hs.
    rewrite (read_tris_rest_fuel (length l) fuel' c l) by lia.
    destruct (read_tris_rest fuel' c l) as [[buf r]|] eqn:E; cbn [bind]; [|reflexivity].
    apply read_tris_rest_length in E. destruct E as [Hlen Hl].
    rewrite (IH k (rem - c) r fuel') by lia.
    destruct (read_tris_rest fuel' (rem - c) r) as [[y r']|]; reflexivity.
Qed.

Theorem read_chunked_eq_read k bytes : 1 <= k -> read_chunked k bytes = read bytes.
Proof.
  intros Hk. unfold read_chunked, read.
  destruct (take 80 bytes) as [[hdr r]|]; cbn [bind]; [|reflexivity].
  destruct (get32 r) as [[count r2]|]; cbn [bind]; [|reflexivity].
  rewrite (read_chunks_eq (length r2) k count r2 (length r2)) by lia.
  rewrite read_tris_fst. destruct (read_tris_rest (length r2) count r2) as [[ts r']|]; reflexivity.
Qed.

(* ---------- which word is stored where ---------- *)
(* record t of a written file occupies bytes 84 + 50 t ... 84 + 50 t + 49 *)
Theorem write_record_at hdr ts t d : length hdr = 80%nat -> (t < length ts)%nat ->
  exists pre post, write hdr ts = pre ++ rec50 (nth t ts d) ++ post /\ length pre = (84 + 50 * t)%nat.
Proof.
  intros Hh Ht. destruct (nth_split ts d Ht) as (l1 & l2 & E & Hl).
  remember (nth t ts d) as x eqn:Hx. clear Hx. subst ts.
  exists (hdr ++ le32 (N.of_nat (length (l1 ++ x :: l2))) ++ flat_map rec50 l1), (flat_map rec50 l2).
  split.
  - unfold write. rewrite flat_map_app. cbn [flat_map]. rewrite <- !app_assoc. reflexivity.
  - rewrite !app_length, le32_length, flat_rec50_length. lia.
Qed.

(* the records stl.WriteMesh builds: facet normal word triple t, then the three corners through the index *)
Lemma gather_tris_nth fns : forall idx pos ts, gather_tris idx pos fns = Some ts ->
  length idx = (3 * length fns)%nat ->
  length ts = length fns /\
  forall t d, (t < length fns)%nat ->
    nth t ts d = {| tn := nth t fns vzero;
                    ta := nth (nth (3 * t) idx O) pos vzero;
                    tb := nth (nth (3 * t + 1) idx O) pos vzero;
                    tc := nth (nth (3 * t + 2) idx O) pos vzero; tattr := 0 |}.
Proof.
  induction fns as [|f fns IH]; intros idx pos ts H Hl.
  - destruct idx; cbn [gather_tris] in H; apply some_inj in H; subst ts; (split; [reflexivity|]); intros t d Ht; simpl in Ht; lia.
  - destruct idx as [|i [|j [|k idx]]]; try (simpl in Hl; lia).
    cbn [gather_tris] in H.
    destruct (nth_error pos i) as [a|] eqn:Ea; cbn [bind] in H; [|discriminate].
    destruct (nth_error pos j) as [b|] eqn:Eb; cbn [bind] in H; [|discriminate].
    destruct (nth_error pos k) as [c|] eqn:Ec; cbn [bind] in H; [|discriminate].
    destruct (gather_tris idx pos fns) as [ts'|] eqn:E; cbn [bind] in H; [|discriminate].
    apply some_inj in H. subst ts.
    destruct (IH idx pos ts' E) as [Hlen Hn]; [simpl in Hl; lia|].
    split; [simpl; lia|]. intros t d Ht. destruct t as [|t].
    + cbn [nth Nat.mul Nat.add]. rewrite (nth_error_nth _ _ _ Ea), (nth_error_nth _ _ _ Eb), (nth_error_nth _ _ _ Ec).
      reflexivity.
    + replace (3 * S t)%nat with (S (S (S (3 * t)))) by lia.
      replace (S (S (S (3 * t))) + 1)%nat with (S (S (S (3 * t + 1)))) by lia.
      replace (S (S (S (3 * t))) + 2)%nat with (S (S (S (3 * t + 2)))) by lia.
      cbn [nth]. apply Hn. simpl in Ht. lia.
Qed.

(* byte-exact placement in what stl.WriteMesh writes: 80 zero bytes, the count, and for triangle t at offset
   84 + 50 t the facet normal words, the corners idx[3t], idx[3t+1], idx[3t+2] and a zero attribute word *)
Theorem mesh_record_at idx pos fns bytes t :
  write_mesh idx (Some pos) fns = Some bytes -> length idx = (3 * length fns)%nat -> (t < length fns)%nat ->
  let corner j := nth (nth j idx O) pos vzero in
  exists pre post,
    bytes = pre ++ vec12 (nth t fns vzero) ++ vec12 (corner (3 * t)%nat) ++ vec12 (corner (3 * t + 1)%nat)
                ++ vec12 (corner (3 * t + 2)%nat) ++ [0; 0] ++ post
    /\ length pre = (84 + 50 * t)%nat.
Proof.
  intros H Hl Ht corner. unfold write_mesh in H.
  destruct (gather_tris idx pos fns) as [ts|] eqn:E; cbn [bind] in H; [|discriminate].
  apply some_inj in H. subst bytes.
  destruct (gather_tris_nth fns idx pos ts E Hl) as [Hlen Hn].
  destruct (write_record_at zero_hdr ts t {| tn := vzero; ta := vzero; tb := vzero; tc := vzero; tattr := 0 |})
    as (pre & post & Ew & Hp); [reflexivity|lia|].
  exists pre, post. split; [|exact Hp]. rewrite Ew, (Hn t _ Ht). unfold rec50. cbn [tn ta tb tc tattr].
  rewrite <- !app_assoc. reflexivity.
Qed.

Theorem mesh_header idx pos fns bytes :
  write_mesh idx (Some pos) fns = Some bytes -> length idx = (3 * length fns)%nat ->
  exists recs, bytes = repeat 0 80 ++ le32 (N.of_nat (length fns)) ++ recs /\ length recs = (50 * length fns)%nat.
Proof.
  intros H Hl. unfold write_mesh in H.
  destruct (gather_tris idx pos fns) as [ts|] eqn:E; cbn [bind] in H; [|discriminate].
  apply some_inj in H. subst bytes. destruct (gather_tris_nth fns idx pos ts E Hl) as [Hlen _].
  exists (flat_map rec50 ts). unfold write, zero_hdr. rewrite Hlen, flat_rec50_length, Hlen. split; reflexivity.
Qed.

(* corner j of the mesh read back carries the facet normal stored for triangle j / 3 (Flat: stored normal is
   zero and stl.ReadMesh substitutes the geometric normal, float arithmetic outside the model) *)
Lemma nth_flat_triple {A B} (g : A -> B) (l : list A) : forall j dA dB, (j < 3 * length l)%nat ->
  nth j (flat_map (fun f => [g f; g f; g f]) l) dB = g (nth (j / 3) l dA).
Proof.
  induction l as [|a l IH]; intros j dA dB Hj; [simpl in Hj; lia|].
  cbn [flat_map]. destruct j as [|[|[|j]]]; try reflexivity.
  cbn [app nth]. rewrite (IH j dA dB) by (simpl in Hj; lia).
  replace (S (S (S j)) / 3)%nat with (S (j / 3)) by lia. reflexivity.
Qed.

Lemma flat_map_length3 {A B} (F : A -> list B) l :
  (forall a, length (F a) = 3%nat) -> length (flat_map F l) = (3 * length l)%nat.
Proof. intros H. induction l as [|a l IH]; [reflexivity|]. cbn [flat_map]. rewrite app_length, H, IH. simpl. lia. Qed.

Theorem mesh_normals_read_back idx pos fns :
  length idx = (3 * length fns)%nat -> Forall (fun i => (i < length pos)%nat) idx ->
  Forall vec_ok pos -> Forall vec_ok fns -> N.of_nat (length fns) < 4294967296 ->
  existsb (fun f => negb (vec_zero f)) fns = true ->
  exists bytes m ns,
    write_mesh idx (Some pos) fns = Some bytes /\ read_mesh bytes = Some m /\ r_nrm m = Some ns /\
    length ns = length idx /\
    forall j, (j < length idx)%nat -> nth j ns Flat = vec_nrm (nth (j / 3) fns vzero).
Proof.
  intros Hl Hr Hp Hf Hn He.
  destruct (mesh_roundtrip idx pos fns Hl Hr Hp Hf Hn) as (bytes & m & Hw & _ & Hrd & _ & _ & _ & Hnr).
  rewrite He in Hnr. exists bytes, m. eexists. repeat (split; [eassumption|]). split.
  - rewrite Hl. apply flat_map_length3. intros a. reflexivity.
  - intros j Hj. apply (nth_flat_triple vec_nrm). lia.
Qed.

(* ---------- the model's answer on a large synthetic file (corr_ok beyond exec_limit) ---------- *)
Lemma vec_okb_ok v : vec_okb v = true -> vec_ok v.
Proof. destruct v as [[x y] z]. unfold vec_okb, vec_ok, word32. lia. Qed.

Lemma tri_okb_ok t : tri_okb t = true -> tri_ok t.
Proof.
  unfold tri_okb, tri_ok. rewrite !andb_true_iff. intros ((((Hn & Ha) & Hb) & Hc) & Hat).
  repeat (split; [apply vec_okb_ok; assumption|]). unfold word16. lia.
Qed.

Lemma forallb_tri_ok ts : forallb tri_okb ts = true -> Forall tri_ok ts.
Proof. rewrite forallb_forall, Forall_forall. intros H t Ht. apply tri_okb_ok, H, Ht. Qed.

(* every byte string made of a header, the count, well-formed records and ANY trailing bytes is read back as
   exactly those records by the chunked reader *)
Theorem big_file_model hdr ts extra :
  length hdr = 80%nat -> forallb tri_okb ts = true -> N.of_nat (length ts) < 4294967296 ->
  read_chunked stl_chunk (write hdr ts ++ extra) = Some (hdr, ts).
Proof.
  intros Hh Hok Hn. rewrite read_chunked_eq_read by (unfold stl_chunk; lia).
  apply read_write_trailing; [assumption|apply forallb_tri_ok; assumption|assumption].
Qed.

(* ... and cut short anywhere it is rejected *)
Theorem big_file_cut_model hdr ts k :
  length hdr = 80%nat -> bytes_ok hdr -> N.of_nat (length ts) < 4294967296 ->
  (k < length (write hdr ts))%nat -> read_chunked stl_chunk (firstn k (write hdr ts)) = None.
Proof.
  intros Hh Hb Hn Hk. rewrite read_chunked_eq_read by (unfold stl_chunk; lia).
  apply read_prefix_rejected; assumption.
Qed.

(* ---------- large meshes: index and position lists given by functions (corr_ok CBigMesh) ---------- *)
Lemma nth_error_iota k : forall a i, (i < k)%nat -> nth_error (iotaN k a) i = Some (a + N.of_nat i).
Proof.
  induction k as [|k IH]; intros a i Hi; [lia|]. destruct i as [|i]; cbn [iotaN nth_error].
  - f_equal. lia.
  - rewrite IH by lia. f_equal. lia.
Qed.

Lemma nth_error_map_iota {A} (f : N -> A) nv v : v < N.of_nat nv ->
  nth_error (map f (iotaN nv 0)) (N.to_nat v) = Some (f v).
Proof.
  intros Hv. rewrite nth_error_map, nth_error_iota by lia. cbn [option_map]. f_equal. f_equal. lia.
Qed.

Lemma iota_S3 n a : iotaN (3 * S n) a = a :: (a + 1) :: (a + 2) :: iotaN (3 * n) (a + 3).
Proof.
  replace (3 * S n)%nat with (S (S (S (3 * n)))) by lia. cbn [iotaN].
  replace (a + 1 + 1) with (a + 2) by lia. replace (a + 2 + 1) with (a + 3) by lia. reflexivity.
Qed.

Lemma gather_tris_fun_from (g : N -> N) (f fn : N -> vec) nv n : forall t0,
  (forall j, g j < N.of_nat nv) ->
  gather_tris (map (fun j => N.to_nat (g j)) (iotaN (3 * n) (3 * t0))) (map f (iotaN nv 0)) (map fn (iotaN n t0))
  = Some (tris_from n t0 fn (fun j => f (g j))).
Proof.
  induction n as [|n IH]; intros t0 Hg; [reflexivity|].
  rewrite iota_S3. cbn [iotaN map gather_tris].
  rewrite !nth_error_map_iota by apply Hg. cbn [bind].
  replace (3 * t0 + 3) with (3 * (t0 + 1)) by lia. rewrite IH by assumption. cbn [bind tris_from]. reflexivity.
Qed.

(* stl.WriteMesh on the mesh with nv vertices (vertex v at position f v), index buffer j |-> g j for j < 3 n and
   facet normals fn: the bytes are [write zero_hdr] of the records Check/C07.v builds with [tris_from]
   (further indices after the last whole triangle do not matter: PrimitiveCount rounds down) *)
Theorem big_mesh_model (g : N -> N) (f fn : N -> vec) nv n part :
  (forall j, g j < N.of_nat nv) ->
  write_mesh (map (fun j => N.to_nat (g j)) (iotaN (3 * n) 0) ++ part) (Some (map f (iotaN nv 0))) (map fn (iotaN n 0))
  = Some (write zero_hdr (tris_from n 0 fn (fun j => f (g j)))).
Proof.
  intros Hg. unfold write_mesh.
  assert (E : forall fns idx pos ts, gather_tris idx pos fns = Some ts -> length idx = (3 * length fns)%nat ->
              gather_tris (idx ++ part) pos fns = Some ts).
  { induction fns as [|x fns IH]; intros idx pos ts H Hl.
    - destruct idx; [|discriminate]. cbn [app]. destruct part as [|? [|? [|? ?]]]; exact H.
    - destruct idx as [|i [|j [|k idx]]]; try (simpl in Hl; lia). cbn [app gather_tris] in *.
      destruct (nth_error pos i); cbn [bind] in *; [|discriminate].
      destruct (nth_error pos j); cbn [bind] in *; [|discriminate].
      destruct (nth_error pos k); cbn [bind] in *; [|discriminate].
      destruct (gather_tris idx pos fns) as [ts'|] eqn:E'; cbn [bind] in *; [|discriminate].
      rewrite (IH idx pos ts' E') by (simpl in Hl; lia). exact H. }
  pose proof (gather_tris_fun_from g f fn nv n 0 Hg) as G. change (3 * 0) with 0 in G.
  rewrite (E _ _ _ _ G).
  - reflexivity.
  - rewrite !map_length. clear. generalize 0 at 1. generalize 0.
    assert (L : forall k a, length (iotaN k a) = k) by (induction k; intros; simpl; auto).
    intros. rewrite !L. reflexivity.
Qed.

(* ---------- which byte strings the reader accepts ---------- *)
Lemma take_firstn_skipn {A} n : forall l : list A, (n <= length l)%nat -> take n l = Some (firstn n l, skipn n l).
Proof.
  induction n as [|n IH]; intros l H; [reflexivity|]. destruct l as [|x l]; [simpl in H; lia|].
  cbn [take firstn skipn]. rewrite IH by (simpl in H; lia). reflexivity.
Qed.

Lemma de_le32_some a : length a = 4%nat -> exists w, de_le32 a = Some w.
Proof. destruct a as [|a [|b [|c [|d [|? ?]]]]]; try discriminate. intros _. eexists; reflexivity. Qed.

Lemma de_le16_some a : length a = 2%nat -> exists w, de_le16 a = Some w.
Proof. destruct a as [|a [|b [|? ?]]]; try discriminate. intros _. eexists; reflexivity. Qed.

Lemma get32_some l : (4 <= length l)%nat -> exists w, get32 l = Some (w, skipn 4 l).
Proof.
  intros H. unfold get32. rewrite take_firstn_skipn by assumption. cbn [bind].
  destruct (de_le32_some (firstn 4 l)) as [w E]; [rewrite firstn_length; lia|]. rewrite E. cbn [bind]. eauto.
Qed.

Lemma get16_some l : (2 <= length l)%nat -> exists w, get16 l = Some (w, skipn 2 l).
Proof.
  intros H. unfold get16. rewrite take_firstn_skipn by assumption. cbn [bind].
  destruct (de_le16_some (firstn 2 l)) as [w E]; [rewrite firstn_length; lia|]. rewrite E. cbn [bind]. eauto.
Qed.

Lemma getvec_some l : (12 <= length l)%nat -> exists v r, getvec l = Some (v, r).
Proof.
  intros H. unfold getvec.
  destruct (get32_some l) as [x E1]; [lia|]. rewrite E1. cbn [bind].
  destruct (get32_some (skipn 4 l)) as [y E2]; [rewrite skipn_length; lia|]. rewrite E2. cbn [bind].
  destruct (get32_some (skipn 4 (skipn 4 l))) as [z E3]; [rewrite !skipn_length; lia|]. rewrite E3. cbn [bind]. eauto.
Qed.

Lemma gettri_some l : (50 <= length l)%nat -> exists t r, gettri l = Some (t, r).
Proof.
  intros H. unfold gettri.
  destruct (getvec_some l) as (n & r1 & E1); [lia|]. rewrite E1. cbn [bind]. apply getvec_length in E1.
  destruct (getvec_some r1) as (a & r2 & E2); [lia|]. rewrite E2. cbn [bind]. apply getvec_length in E2.
  destruct (getvec_some r2) as (b & r3 & E3); [lia|]. rewrite E3. cbn [bind]. apply getvec_length in E3.
  destruct (getvec_some r3) as (c & r4 & E4); [lia|]. rewrite E4. cbn [bind]. apply getvec_length in E4.
  destruct (get16_some r4) as (w & E5); [lia|]. rewrite E5. cbn [bind]. eauto.
Qed.

Lemma read_tris_rest_some fuel : forall c l, 50 * c <= N.of_nat (length l) -> (length l <= fuel)%nat ->
  exists ts r, read_tris_rest fuel c l = Some (ts, r).
Proof.
  induction fuel as [|f IH]; intros c l Hc Hf;
    (destruct (N.eq_dec c 0) as [->|Hn]; [rewrite read_tris_rest_0; eauto|]).
  - lia.
  - rewrite read_tris_rest_S by assumption.
    destruct (gettri_some l) as (t & r & Et); [lia|]. rewrite Et. cbn [bind]. apply gettri_length in Et.
    destruct (IH (c - 1) r) as (ts & r' & E); [lia|lia|]. rewrite E. cbn [bind]. eauto.
Qed.

Lemma skipn_skipn' {A} a : forall b (l : list A), skipn a (skipn b l) = skipn (b + a) l.
Proof. intros b. induction b as [|b IH]; intros l; [reflexivity|]. destruct l; [destruct a; reflexivity|]. apply IH. Qed.

(* stl.Read accepts a byte string exactly when it holds the 84-byte preamble and at least 50 bytes for each of
   the n records its count field announces — whatever follows is ignored, anything shorter is rejected *)
Theorem read_accepts_iff bytes : (84 <= length bytes)%nat ->
  exists n, get32 (skipn 80 bytes) = Some (n, skipn 84 bytes) /\
    ((exists hdr ts, read bytes = Some (hdr, ts)) <-> 84 + 50 * n <= N.of_nat (length bytes)).
Proof.
  intros H. destruct (get32_some (skipn 80 bytes)) as [n E]; [rewrite skipn_length; lia|].
  rewrite skipn_skipn' in E. change (80 + 4)%nat with 84%nat in E. exists n. split; [exact E|].
  unfold read. rewrite take_firstn_skipn by lia. cbn [bind]. rewrite E. cbn [bind].
  rewrite read_tris_fst. split.
  - intros (hdr & ts & Hr).
    destruct (read_tris_rest (length (skipn 84 bytes)) n (skipn 84 bytes)) as [[ts' r']|] eqn:Er; [|discriminate].
    apply read_tris_rest_length in Er. destruct Er as [Hn Hl]. rewrite skipn_length in Hl. lia.
  - intros Hlen.
    destruct (read_tris_rest_some (length (skipn 84 bytes)) n (skipn 84 bytes)) as (ts & r & Er);
      [rewrite skipn_length; lia|lia|].
    rewrite Er. cbn [option_map fst bind]. eauto.
Qed.

Theorem read_short_header bytes : (length bytes < 84)%nat -> read bytes = None.
Proof.
  intros H. unfold read. destruct (take 80 bytes) as [[hdr r]|] eqn:E; cbn [bind]; [|reflexivity].
  apply take_length in E. destruct (get32 r) as [[n r2]|] eqn:E2; cbn [bind]; [|reflexivity].
  apply get32_length in E2. lia.
Qed.
