From PF Require Import Base.Bytes Base.BytesProofs Formats.Stl.
From Coq Require Import ZifyN ZifyNat ZifyBool.
Open Scope N_scope.
Ltac Zify.zify_post_hook ::= Z.div_mod_to_equations.

Lemma vec12_length v : length (vec12 v) = 12%nat.
Proof. destruct v as [[x y] z]. reflexivity. Qed.

Lemma rec50_length t : length (rec50 t) = 50%nat.
Proof. unfold rec50. rewrite !app_length, !vec12_length, le16_length. reflexivity. Qed.

Lemma flat_rec50_length ts : length (flat_map rec50 ts) = (50 * length ts)%nat.
Proof. induction ts as [|t ts IH]; simpl; [reflexivity|]. rewrite app_length, rec50_length, IH. lia. Qed.

Lemma write_length hdr ts : length (write hdr ts) = (length hdr + 4 + 50 * length ts)%nat.
Proof. unfold write. rewrite !app_length, le32_length, flat_rec50_length. lia. Qed.

(* ---------- forward direction: read after write ---------- *)
Lemma get32_le32 w r : word32 w -> get32 (le32 w ++ r) = Some (w, r).
Proof.
  intros H. unfold get32. change 4%nat with (length (le32 w)). rewrite take_app. cbn [bind].
  rewrite de_le32_le32 by assumption. reflexivity.
Qed.

Lemma get16_le16 w r : word16 w -> get16 (le16 w ++ r) = Some (w, r).
Proof.
  intros H. unfold get16. change 2%nat with (length (le16 w)). rewrite take_app. cbn [bind].
  rewrite de_le16_le16 by assumption. reflexivity.
Qed.

Lemma getvec_vec12 v r : vec_ok v -> getvec (vec12 v ++ r) = Some (v, r).
Proof.
  destruct v as [[x y] z]. intros (Hx & Hy & Hz). unfold getvec, vec12.
  rewrite <- !app_assoc. rewrite get32_le32 by assumption. cbn [bind].
  rewrite get32_le32 by assumption. cbn [bind]. rewrite get32_le32 by assumption. reflexivity.
Qed.

Lemma gettri_rec50 t r : tri_ok t -> gettri (rec50 t ++ r) = Some (t, r).
Proof.
  intros (Hn & Ha & Hb & Hc & Hat). unfold gettri, rec50. rewrite <- !app_assoc.
  rewrite getvec_vec12 by assumption. cbn [bind].
  rewrite getvec_vec12 by assumption. cbn [bind].
  rewrite getvec_vec12 by assumption. cbn [bind].
  rewrite getvec_vec12 by assumption. cbn [bind].
  rewrite get16_le16 by assumption. cbn [bind]. destruct t; reflexivity.
Qed.

Lemma read_tris_flat ts : forall fuel r, Forall tri_ok ts -> (length ts <= fuel)%nat ->
  read_tris fuel (N.of_nat (length ts)) (flat_map rec50 ts ++ r) = Some ts.
Proof.
  induction ts as [|t ts IH]; intros fuel r Hok Hf.
  - destruct fuel; reflexivity.
  - destruct fuel as [|f]; [simpl in Hf; lia|].
    cbn [read_tris]. replace (N.of_nat (length (t :: ts)) =? 0) with false by (simpl length; lia).
    cbn [flat_map]. rewrite <- app_assoc. inversion Hok as [|? ? Ht Hts]; subst.
    rewrite gettri_rec50 by assumption. cbn [bind].
    replace (N.of_nat (length (t :: ts)) - 1) with (N.of_nat (length ts)) by (simpl length; lia).
    rewrite IH by (try assumption; simpl in Hf; lia). reflexivity.
Qed.

(* trailing bytes are ignored (as by the Go reader) *)
Theorem read_write_trailing hdr ts extra :
  length hdr = 80%nat -> Forall tri_ok ts -> N.of_nat (length ts) < 4294967296 ->
  read (write hdr ts ++ extra) = Some (hdr, ts).
Proof.
  intros Hh Hok Hn. unfold read, write. rewrite <- !app_assoc. rewrite <- Hh, take_app. cbn [bind].
  rewrite get32_le32 by exact Hn. cbn [bind].
  rewrite read_tris_flat; [reflexivity|assumption|].
  rewrite app_length, flat_rec50_length. lia.
Qed.

Theorem read_write hdr ts :
  length hdr = 80%nat -> Forall tri_ok ts -> N.of_nat (length ts) < 4294967296 ->
  read (write hdr ts) = Some (hdr, ts).
Proof. intros. rewrite <- (app_nil_r (write hdr ts)). apply read_write_trailing; assumption. Qed.

(* ---------- backward direction: write after read ---------- *)
Lemma get32_inv l w r : bytes_ok l -> get32 l = Some (w, r) -> l = le32 w ++ r /\ word32 w /\ bytes_ok r.
Proof.
  unfold get32. intros Hb. destruct (take 4 l) as [[a r']|] eqn:E; cbn [bind]; [|discriminate].
  destruct (de_le32 a) as [w'|] eqn:E2; cbn [bind]; [|discriminate].
  intros H. assert (w' = w /\ r' = r) as [-> ->] by (split; congruence).
  apply take_spec in E. destruct E as [-> _]. apply bytes_ok_app in Hb. destruct Hb as [Ha Hr].
  split; [|split; [apply (de_le32_word32 a); assumption|assumption]].
  f_equal. symmetry. apply le32_of_de_le32; assumption.
Qed.

Lemma le16_of_de_le16 l w : bytes_ok l -> de_le16 l = Some w -> le16 w = l /\ word16 w.
Proof.
  unfold de_le16. destruct l as [|a [|b [|? ?]]]; try discriminate.
  intros H E. apply some_inj in E. subst w. unfold bytes_ok in H.
  repeat rewrite Forall_cons_iff in H. unfold is_byte, le16, word16 in *.
  split; [repeat f_equal; lia | lia].
Qed.

Lemma get16_inv l w r : bytes_ok l -> get16 l = Some (w, r) -> l = le16 w ++ r /\ word16 w /\ bytes_ok r.
Proof.
  unfold get16. intros Hb. destruct (take 2 l) as [[a r']|] eqn:E; cbn [bind]; [|discriminate].
  destruct (de_le16 a) as [w'|] eqn:E2; cbn [bind]; [|discriminate].
  intros H. assert (w' = w /\ r' = r) as [-> ->] by (split; congruence).
  apply take_spec in E. destruct E as [-> _]. apply bytes_ok_app in Hb. destruct Hb as [Ha Hr].
  destruct (le16_of_de_le16 _ _ Ha E2) as [<- Hw]. auto.
Qed.

Lemma getvec_inv l v r : bytes_ok l -> getvec l = Some (v, r) -> l = vec12 v ++ r /\ vec_ok v /\ bytes_ok r.
Proof.
  unfold getvec. intros Hb.
  destruct (get32 l) as [[x r1]|] eqn:E1; cbn [bind]; [|discriminate].
  destruct (get32 r1) as [[y r2]|] eqn:E2; cbn [bind]; [|discriminate].
  destruct (get32 r2) as [[z r3]|] eqn:E3; cbn [bind]; [|discriminate].
  intros H. assert (v = (x, y, z) /\ r3 = r) as [-> ->] by (split; congruence).
  apply get32_inv in E1; [|assumption]. destruct E1 as (-> & Hx & Hb1).
  apply get32_inv in E2; [|assumption]. destruct E2 as (-> & Hy & Hb2).
  apply get32_inv in E3; [|assumption]. destruct E3 as (-> & Hz & Hb3).
  unfold vec12, vec_ok. rewrite <- !app_assoc. auto.
Qed.

Lemma gettri_inv l t r : bytes_ok l -> gettri l = Some (t, r) -> l = rec50 t ++ r /\ tri_ok t /\ bytes_ok r.
Proof.
  unfold gettri. intros Hb.
  destruct (getvec l) as [[n r1]|] eqn:E1; cbn [bind]; [|discriminate].
  destruct (getvec r1) as [[a r2]|] eqn:E2; cbn [bind]; [|discriminate].
  destruct (getvec r2) as [[b r3]|] eqn:E3; cbn [bind]; [|discriminate].
  destruct (getvec r3) as [[c r4]|] eqn:E4; cbn [bind]; [|discriminate].
  destruct (get16 r4) as [[at_ r5]|] eqn:E5; cbn [bind]; [|discriminate].
  intros H. assert (t = {| tn := n; ta := a; tb := b; tc := c; tattr := at_ |} /\ r5 = r) as [-> ->]
    by (split; congruence).
  apply getvec_inv in E1; [|assumption]. destruct E1 as (-> & Hn & Hb1).
  apply getvec_inv in E2; [|assumption]. destruct E2 as (-> & Ha & Hb2).
  apply getvec_inv in E3; [|assumption]. destruct E3 as (-> & Hbb & Hb3).
  apply getvec_inv in E4; [|assumption]. destruct E4 as (-> & Hc & Hb4).
  apply get16_inv in E5; [|assumption]. destruct E5 as (-> & Hat & Hb5).
  unfold rec50, tri_ok. cbn [tn ta tb tc tattr]. rewrite <- !app_assoc. auto 10.
Qed.

Lemma read_tris_inv fuel : forall count l ts, bytes_ok l -> read_tris fuel count l = Some ts ->
  exists rest, l = flat_map rec50 ts ++ rest /\ N.of_nat (length ts) = count /\ Forall tri_ok ts.
Proof.
  induction fuel as [|f IH]; intros count l ts Hb; cbn [read_tris].
  - destruct (count =? 0) eqn:Ec; [|discriminate]. intros E. apply some_inj in E. subst ts.
    exists l. simpl. split; [reflexivity|]. split; [lia|constructor].
  - destruct (count =? 0) eqn:Ec.
    + intros E. apply some_inj in E. subst ts. exists l. simpl. split; [reflexivity|]. split; [lia|constructor].
    + destruct (gettri l) as [[t r]|] eqn:Et; cbn [bind]; [|discriminate].
      destruct (read_tris f (count - 1) r) as [ts'|] eqn:Er; cbn [bind]; [|discriminate].
      intros E. apply some_inj in E. subst ts.
      apply gettri_inv in Et; [|assumption]. destruct Et as (-> & Hok & Hbr).
      apply IH in Er; [|assumption]. destruct Er as (rest & -> & Hlen & Hoks).
      exists rest. cbn [flat_map length]. rewrite <- app_assoc. split; [reflexivity|].
      split; [lia|]. constructor; assumption.
Qed.

Theorem read_inv bytes hdr ts : bytes_ok bytes -> read bytes = Some (hdr, ts) ->
  exists rest, bytes = write hdr ts ++ rest /\ length hdr = 80%nat /\ Forall tri_ok ts
               /\ N.of_nat (length ts) < 4294967296.
Proof.
  unfold read. intros Hb.
  destruct (take 80 bytes) as [[h r]|] eqn:E1; cbn [bind]; [|discriminate].
  destruct (get32 r) as [[count r2]|] eqn:E2; cbn [bind]; [|discriminate].
  destruct (read_tris (length r2) count r2) as [ts'|] eqn:E3; cbn [bind]; [|discriminate].
  intros H. assert (h = hdr /\ ts' = ts) as [-> ->] by (split; congruence).
  apply take_spec in E1. destruct E1 as [-> Hl]. apply bytes_ok_app in Hb. destruct Hb as [_ Hb].
  apply get32_inv in E2; [|assumption]. destruct E2 as (-> & Hw & Hb2).
  apply read_tris_inv in E3; [|assumption]. destruct E3 as (rest & -> & Hlen & Hoks).
  exists rest. unfold write. rewrite <- !app_assoc. subst count. unfold word32 in Hw. auto.
Qed.

Theorem write_read bytes hdr ts :
  bytes_ok bytes -> read bytes = Some (hdr, ts) -> length bytes = (84 + 50 * length ts)%nat ->
  write hdr ts = bytes.
Proof.
  intros Hb Hr Hlen. destruct (read_inv _ _ _ Hb Hr) as (rest & -> & Hh & _ & _).
  rewrite app_length, write_length in Hlen. destruct rest; [rewrite app_nil_r; reflexivity|].
  simpl in Hlen. lia.
Qed.

(* a strict prefix of a written file is rejected (used by C14) *)
Lemma vec12_bytes v : bytes_ok (vec12 v).
Proof. destruct v as [[x y] z]. unfold vec12. repeat (apply bytes_ok_app; split); apply le32_bytes. Qed.

Lemma rec50_bytes t : bytes_ok (rec50 t).
Proof. unfold rec50. repeat (apply bytes_ok_app; split); try apply vec12_bytes. apply le16_bytes. Qed.

Lemma write_bytes_ok hdr ts : bytes_ok hdr -> bytes_ok (write hdr ts).
Proof.
  intros Hh. unfold write. apply bytes_ok_app. split; [assumption|]. apply bytes_ok_app. split; [apply le32_bytes|].
  induction ts as [|t ts IH]; [constructor|]. cbn [flat_map]. apply bytes_ok_app. split; [apply rec50_bytes|exact IH].
Qed.

Lemma bytes_ok_firstn k l : bytes_ok l -> bytes_ok (firstn k l).
Proof. intros H. rewrite <- (firstn_skipn k l) in H. apply bytes_ok_app in H. tauto. Qed.

Lemma app_eq_len {A} (a b c d : list A) : length a = length c -> a ++ b = c ++ d -> a = c /\ b = d.
Proof.
  revert c. induction a as [|x a IH]; intros [|y c] Hl H; simpl in *; try discriminate; [auto|].
  injection H as -> H. apply IH in H; [|lia]. destruct H as [-> ->]. auto.
Qed.

Theorem read_prefix_rejected hdr ts k :
  length hdr = 80%nat -> bytes_ok hdr -> N.of_nat (length ts) < 4294967296 ->
  (k < length (write hdr ts))%nat -> read (firstn k (write hdr ts)) = None.
Proof.
  intros Hh Hbh Hn Hk. destruct (read (firstn k (write hdr ts))) as [[h' ts']|] eqn:E; [exfalso|reflexivity].
  apply read_inv in E; [|apply bytes_ok_firstn, write_bytes_ok; assumption].
  destruct E as (rest & E & Hh' & _ & Hn').
  assert (Hlen : (length (write h' ts') <= k)%nat).
  { apply (f_equal (@length N)) in E. rewrite firstn_length, app_length in E. lia. }
  rewrite write_length in Hlen, Hk.
  apply (f_equal (firstn 84)) in E. rewrite firstn_firstn in E. replace (Nat.min 84 k) with 84%nat in E by lia.
  unfold write in E. rewrite !app_assoc in E.
  rewrite firstn_app in E. rewrite (firstn_all2 (hdr ++ _)) in E by (rewrite app_length, le32_length; lia).
  replace (84 - length (hdr ++ le32 (N.of_nat (length ts))))%nat with 0%nat in E by (rewrite app_length, le32_length; lia).
  rewrite firstn_O, app_nil_r in E. rewrite <- !app_assoc in E. rewrite (app_assoc h') in E.
  rewrite firstn_app in E. rewrite (firstn_all2 (h' ++ _)) in E by (rewrite app_length, le32_length; lia).
  replace (84 - length (h' ++ le32 (N.of_nat (length ts'))))%nat with 0%nat in E by (rewrite app_length, le32_length; lia).
  rewrite firstn_O, app_nil_r in E.
  apply app_eq_len in E; [|lia]. destruct E as [_ E].
  apply (f_equal de_le32) in E. rewrite !de_le32_le32 in E by assumption. apply some_inj in E. lia.
Qed.

(* ---------- mesh level ---------- *)
Definition corner_positions (idx : list nat) (pos : list vec) : list vec := map (fun i => nth i pos vzero) idx.

Lemma gather_tris_spec fns : forall idx pos,
  length idx = (3 * length fns)%nat -> Forall (fun i => (i < length pos)%nat) idx ->
  exists ts, gather_tris idx pos fns = Some ts /\ length ts = length fns /\ map tn ts = fns
    /\ flat_map (fun t => [ta t; tb t; tc t]) ts = corner_positions idx pos
    /\ Forall (fun t => tattr t = 0) ts.
Proof.
  induction fns as [|f fns IH]; intros idx pos Hl Hr.
  - destruct idx; [|discriminate]. exists []. simpl. auto.
  - destruct idx as [|i [|j [|k idx]]]; try (simpl in Hl; lia).
    repeat rewrite Forall_cons_iff in Hr. destruct Hr as (Hi & Hj & Hk & Hr).
    destruct (IH idx pos) as (ts & E & Hlen & Hn & Hp & Hat); [simpl in Hl; lia|assumption|].
    cbn [gather_tris].
    destruct (nth_error pos i) as [a|] eqn:Ea; [|apply nth_error_None in Ea; lia].
    destruct (nth_error pos j) as [b|] eqn:Eb; [|apply nth_error_None in Eb; lia].
    destruct (nth_error pos k) as [c|] eqn:Ec; [|apply nth_error_None in Ec; lia].
    cbn [bind]. rewrite E. cbn [bind]. eexists. split; [reflexivity|].
    cbn [length map flat_map tn ta tb tc tattr app]. unfold corner_positions in *. cbn [map].
    rewrite (nth_error_nth _ _ _ Ea), (nth_error_nth _ _ _ Eb), (nth_error_nth _ _ _ Ec).
    rewrite Hlen, Hn, Hp. repeat split; auto.
Qed.

Lemma Forall_nth_ok (pos : list vec) i : Forall vec_ok pos -> vec_ok (nth i pos vzero).
Proof.
  intros H. destruct (Nat.lt_ge_cases i (length pos)) as [Hi|Hi].
  - rewrite Forall_forall in H. apply H, nth_In, Hi.
  - rewrite nth_overflow by assumption. unfold vec_ok, vzero, word32. lia.
Qed.

Theorem mesh_roundtrip idx pos fns :
  length idx = (3 * length fns)%nat -> Forall (fun i => (i < length pos)%nat) idx ->
  Forall vec_ok pos -> Forall vec_ok fns -> N.of_nat (length fns) < 4294967296 ->
  exists bytes m,
    write_mesh idx (Some pos) fns = Some bytes /\
    length bytes = (84 + 50 * length fns)%nat /\
    read_mesh bytes = Some m /\
    r_nverts m = length idx /\ r_idx m = seq 0 (length idx) /\
    r_pos m = corner_positions idx pos /\
    r_nrm m = (if existsb (fun f => negb (vec_zero f)) fns
               then Some (flat_map (fun f => let x := vec_nrm f in [x; x; x]) fns) else None).
Proof.
  intros Hl Hr Hp Hf Hn.
  destruct (gather_tris_spec fns idx pos Hl Hr) as (ts & E & Hlen & Htn & Hpos & Hat).
  assert (Hok : Forall tri_ok ts).
  { clear E Hn Hl Hr. revert fns idx Hlen Htn Hpos Hat Hf. induction ts as [|t ts IH]; intros fns idx Hlen Htn Hpos Hat Hf; [constructor|].
    destruct fns as [|f fns]; [discriminate|]. cbn [map] in Htn.
    assert (tn t = f /\ map tn ts = fns) as [Ht Hts] by (split; congruence).
    rewrite Forall_cons_iff in Hat, Hf. destruct Hat as [Ha0 Hat]. destruct Hf as [Hf0 Hf].
    cbn [flat_map app] in Hpos. unfold corner_positions in Hpos.
    destruct idx as [|i [|j [|k idx]]]; try discriminate. cbn [map] in Hpos.
    assert (ta t = nth i pos vzero /\ tb t = nth j pos vzero /\ tc t = nth k pos vzero /\
            flat_map (fun t => [ta t; tb t; tc t]) ts = map (fun i => nth i pos vzero) idx) as (Ea & Eb & Ec & Er)
      by (repeat split; congruence).
    constructor.
    - unfold tri_ok. rewrite Ht, Ea, Eb, Ec, Ha0.
      split; [assumption|]. repeat (split; [apply Forall_nth_ok; assumption|]). unfold word16; lia.
    - eapply IH; try eassumption. simpl in Hlen. lia. }
  exists (write zero_hdr ts). eexists. unfold write_mesh. rewrite E. cbn [bind].
  split; [reflexivity|]. split; [rewrite write_length, Hlen; reflexivity|].
  unfold read_mesh. rewrite read_write; [|reflexivity|assumption|rewrite Hlen; assumption]. cbn [bind].
  split; [reflexivity|]. cbn [r_nverts r_idx r_pos r_nrm]. rewrite Hlen, <- Hl.
  split; [reflexivity|]. split; [reflexivity|]. split; [assumption|].
  rewrite <- Htn. clear. induction ts as [|t ts IH]; [reflexivity|].
  cbn [map existsb flat_map]. unfold tri_nrm at 1.
  destruct (negb (vec_zero (tn t))); cbn [orb]; [|].
  - f_equal. f_equal. clear IH. induction ts as [|t' ts IH]; [reflexivity|]. cbn [map flat_map]. unfold tri_nrm at 1. rewrite IH. reflexivity.
  - destruct (existsb _ ts), (existsb _ (map tn ts)); try discriminate; [|reflexivity].
    apply some_inj in IH. cbn [app]. rewrite IH. reflexivity.
Qed.
