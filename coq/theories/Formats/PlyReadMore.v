(* C08, round 4: what follows the face element is ignored (elements declared after it, their records), the quad-fan
   theorems for both kinds of face element in one statement, and witnesses for the behaviours the property excludes. *)
From PF Require Import Base.Bytes Base.BytesProofs Base.BytesMore Formats.PlyRead Formats.PlyReadSpec Formats.PlyReadProofs Formats.PlyReadMesh.
From Coq Require Import String Ascii Lia ZifyN ZifyNat ZifyBool.
Open Scope list_scope.
Open Scope N_scope.
Local Notation length := List.length.

(* ================= a successful read does not depend on what follows ================= *)
Lemma take_more {A} n (l a r x : list A) : take n l = Some (a, r) -> take n (l ++ x) = Some (a, r ++ x).
Proof. intros H. apply take_spec in H. destruct H as [-> <-]. rewrite <- app_assoc. apply take_app. Qed.

Lemma ok_inj {A} (a b : A) : @Ok A a = Ok b -> a = b.
Proof. intros H. injection H as H. exact H. Qed.

Lemma read_count_more e ct bytes v r x :
  read_count e ct bytes = Ok (v, r) -> read_count e ct (bytes ++ x) = Ok (v, r ++ x).
Proof.
  unfold read_count. destruct ct; try discriminate.
  all: match goal with |- context [take ?n ?b] => destruct (take n b) as [[a r0]|] eqn:T end; cbn [of_opt rbind]; [|discriminate].
  all: rewrite (take_more _ _ _ _ x T); cbn [of_opt rbind].
  all: match goal with |- context [dec_word ?e0 ?t ?a0] => destruct (dec_word e0 t a0) as [w|] end; cbn [of_opt rbind]; [|discriminate].
  all: intros H; apply ok_inj in H; injection H as <- <-; reflexivity.
Qed.

Lemma face_bin_more e x : forall rs k ip tp bytes st st' r,
  face_bin e rs k ip tp bytes st = Ok (st', r) -> face_bin e rs k ip tp (bytes ++ x) st = Ok (st', r ++ x).
Proof.
  induction rs as [|[ct lt] rs IH]; intros k ip tp bytes st st' r H.
  - cbn [face_bin] in *. apply ok_inj in H. injection H as <- <-. reflexivity.
  - cbn [face_bin] in *.
    destruct (read_count e ct bytes) as [[v r0]|] eqn:RC; cbn [rbind] in H; [|discriminate].
    rewrite (read_count_more _ _ _ _ _ x RC). cbn [rbind].
    destruct (v <? 0)%Z; [discriminate|].
    destruct (take (Z.to_nat v * sty_size lt) r0) as [[payload r']|] eqn:T; cbn [of_opt rbind] in H; [|discriminate].
    rewrite (take_more _ _ _ _ x T). cbn [of_opt rbind].
    match type of H with rbind ?S1 _ = _ => destruct S1 as [st1|] end; cbn [rbind] in *; [|discriminate].
    match type of H with rbind ?S2 _ = _ => destruct S2 as [st2|] end; cbn [rbind] in *; [|discriminate].
    apply IH, H.
Qed.

Lemma faces_bin_more e rs ip tp x : forall n bytes st res,
  faces_bin e rs ip tp bytes n st = Ok res -> faces_bin e rs ip tp (bytes ++ x) n st = Ok res.
Proof.
  induction n as [|n IH]; intros bytes st res H; [exact H|].
  cbn [faces_bin] in *.
  destruct (face_bin e rs 0 ip tp bytes st) as [[st' rest]|] eqn:FB; cbn [rbind] in H; [|discriminate].
  rewrite (face_bin_more _ x _ _ _ _ _ _ _ _ FB). cbn [rbind].
  destruct (face_out _ st') as [[ix uv]|]; cbn [rbind] in *; [|discriminate].
  destruct (faces_bin e rs ip tp rest n st') as [[ixs uvs]|] eqn:R; cbn [rbind] in H; [|discriminate].
  rewrite (IH _ _ _ R). cbn [rbind]. exact H.
Qed.

Lemma read_vertices_bin_more e bs size x : forall n bytes rows rest,
  read_vertices_bin e bs size n bytes = Ok (rows, rest) -> read_vertices_bin e bs size n (bytes ++ x) = Ok (rows, rest ++ x).
Proof.
  induction n as [|n IH]; intros bytes rows rest H.
  - cbn [read_vertices_bin] in *. apply ok_inj in H. injection H as <- <-. reflexivity.
  - cbn [read_vertices_bin] in *.
    destruct (take size bytes) as [[buf r]|] eqn:T; cbn [of_opt rbind] in H; [|discriminate].
    rewrite (take_more _ _ _ _ x T). cbn [of_opt rbind].
    destruct (mapR _ bs) as [row|]; cbn [rbind] in *; [|discriminate].
    destruct (read_vertices_bin e bs size n r) as [[rows' rest']|] eqn:R; cbn [rbind] in H; [|discriminate].
    rewrite (IH _ _ _ R). cbn [rbind]. apply ok_inj in H. injection H as <- <-. reflexivity.
Qed.

Lemma read_vertices_ascii_more bs np x : forall lines n rows rest,
  read_vertices_ascii bs np lines n = Ok (rows, rest) -> read_vertices_ascii bs np (lines ++ x) n = Ok (rows, rest ++ x).
Proof.
  induction lines as [|l ls IH]; intros n rows rest H.
  - cbn [read_vertices_ascii app] in *. destruct n; [|discriminate]. apply ok_inj in H. injection H as <- <-.
    destruct x; reflexivity.
  - cbn [read_vertices_ascii app] in *. destruct n as [|n].
    + apply ok_inj in H. injection H as <- <-. reflexivity.
    + destruct l as [|t l]; [apply IH, H|].
      destruct (length (t :: l) <? np)%nat; [discriminate|].
      destruct (mapR _ bs) as [row|]; cbn [rbind] in *; [|discriminate].
      destruct (read_vertices_ascii bs np ls n) as [[rows' rest']|] eqn:R; cbn [rbind] in H; [|discriminate].
      rewrite (IH _ _ _ R). cbn [rbind]. apply ok_inj in H. injection H as <- <-. reflexivity.
Qed.

Lemma faces_ascii_more rs ip tp x : forall lines n st res,
  faces_ascii rs ip tp lines n st = Ok res -> faces_ascii rs ip tp (lines ++ x) n st = Ok res.
Proof.
  induction lines as [|l ls IH]; intros n st res H.
  - cbn [faces_ascii app] in *. destruct n; [|discriminate]. destruct x; exact H.
  - cbn [faces_ascii app] in *. destruct n as [|n]; [exact H|].
    destruct l as [|t l]; [apply IH, H|].
    destruct (face_ascii rs 0 ip tp (t :: l) st) as [st'|]; cbn [rbind] in *; [|discriminate].
    destruct (face_out _ st') as [[ix uv]|]; cbn [rbind] in *; [|discriminate].
    destruct (faces_ascii rs ip tp ls n st') as [[ixs uvs]|] eqn:R; cbn [rbind] in H; [|discriminate].
    rewrite (IH _ _ _ R). cbn [rbind]. exact H.
Qed.

Lemma find_last_elem_others name others : Forall (fun e => seqb (e_name e) name = false) others ->
  forall acc, find_last_elem name others acc = acc.
Proof.
  induction 1 as [|e others He _ IH]; intros acc; [reflexivity|]. cbn [find_last_elem]. rewrite He. apply IH.
Qed.
Lemma find_last_elem_app name others : Forall (fun e => seqb (e_name e) name = false) others ->
  forall es acc, find_last_elem name (es ++ others) acc = find_last_elem name es acc.
Proof.
  intros F. induction es as [|e es IH]; intros acc; cbn [app find_last_elem]; [apply find_last_elem_others, F|apply IH].
Qed.

(* the body with more data after it, the header with more elements after those it declares *)
Definition body_app (b x : body) : body :=
  match b, x with
  | BodyBin a, BodyBin c => BodyBin (a ++ c)
  | BodyAscii a, BodyAscii c => BodyAscii (a ++ c)
  | _, _ => b
  end.
Definition with_more_elems (h : header) (others : list element) : header :=
  {| h_fmt := h_fmt h; h_elems := h_elems h ++ others; h_comments := h_comments h |}.
Definition other_elem (e : element) : Prop := seqb (e_name e) "vertex" = false /\ seqb (e_name e) "face" = false.

(* MeshReader.Read, any reader configuration, any header: when a file loads, the same file with further elements
   declared after the ones it has (none called vertex or face) and any data after its body loads to the same mesh *)
Theorem trailing_ignored_proof : forall gs u h others b x m,
  Forall other_elem others ->
  read_body gs u h b = Ok m -> read_body gs u (with_more_elems h others) (body_app b x) = Ok m.
Proof.
  intros gs u h others b x m Fo H. unfold read_body in *. cbn [with_more_elems h_elems h_fmt].
  assert (Fv : Forall (fun e => seqb (e_name e) "vertex" = false) others) by (eapply Forall_impl; [|exact Fo]; intros e [A _]; exact A).
  assert (Ff : Forall (fun e => seqb (e_name e) "face" = false) others) by (eapply Forall_impl; [|exact Fo]; intros e [_ A]; exact A).
  rewrite (find_last_elem_app _ _ Fv), (find_last_elem_app _ _ Ff).
  destruct (find_last_elem "vertex" (h_elems h) None) as [ve|]; cbn [of_opt rbind] in *; [|discriminate].
  destruct (negb (all_scalar (e_props ve))); [discriminate|].
  destruct (e_count ve <? 0)%Z; [discriminate|].
  destruct (h_fmt h), b as [bytes|lines], x as [xb|xl]; cbn [body_app]; try exact H.
  - (* ascii *)
    destruct (build_readers false gs u (e_props ve)) as [bs|]; cbn [rbind] in *; [|discriminate].
    destruct (read_vertices_ascii bs (length (e_props ve)) lines (Z.to_nat (e_count ve))) as [[rows rest]|] eqn:RV;
      cbn [rbind] in H; [|discriminate].
    rewrite (read_vertices_ascii_more _ _ xl _ _ _ _ RV). cbn [rbind].
    destruct (find_last_elem "face" (h_elems h) None) as [f|]; [|exact H].
    destruct (face_setup f) as [[[rs ip] tp]|]; cbn [rbind] in *; [|discriminate].
    destruct (faces_ascii rs ip tp rest (Z.to_nat (e_count f)) fstate0) as [[ix uv]|] eqn:FA; cbn [rbind] in H; [|discriminate].
    rewrite (faces_ascii_more _ _ _ xl _ _ _ _ FA). cbn [rbind]. exact H.
  - (* little endian *)
    destruct (build_readers true gs u (e_props ve)) as [bs|]; cbn [rbind] in *; [|discriminate].
    destruct (read_vertices_bin LEnd bs (record_size (e_props ve)) (Z.to_nat (e_count ve)) bytes) as [[rows rest]|] eqn:RV;
      cbn [rbind] in H; [|discriminate].
    rewrite (read_vertices_bin_more _ _ _ xb _ _ _ _ RV). cbn [rbind].
    destruct (find_last_elem "face" (h_elems h) None) as [f|]; [|exact H].
    destruct (face_setup f) as [[[rs ip] tp]|]; cbn [rbind] in *; [|discriminate].
    destruct (faces_bin LEnd rs ip tp rest (Z.to_nat (e_count f)) fstate0) as [[ix uv]|] eqn:FA; cbn [rbind] in H; [|discriminate].
    rewrite (faces_bin_more _ _ _ _ xb _ _ _ _ FA). cbn [rbind]. exact H.
  - (* big endian *)
    destruct (build_readers true gs u (e_props ve)) as [bs|]; cbn [rbind] in *; [|discriminate].
    destruct (read_vertices_bin BEnd bs (record_size (e_props ve)) (Z.to_nat (e_count ve)) bytes) as [[rows rest]|] eqn:RV;
      cbn [rbind] in H; [|discriminate].
    rewrite (read_vertices_bin_more _ _ _ xb _ _ _ _ RV). cbn [rbind].
    destruct (find_last_elem "face" (h_elems h) None) as [f|]; [|exact H].
    destruct (face_setup f) as [[[rs ip] tp]|]; cbn [rbind] in *; [|discriminate].
    destruct (faces_bin BEnd rs ip tp rest (Z.to_nat (e_count f)) fstate0) as [[ix uv]|] eqn:FA; cbn [rbind] in H; [|discriminate].
    rewrite (faces_bin_more _ _ _ _ xb _ _ _ _ FA). cbn [rbind]. exact H.
Qed.

(* ================= the property with elements after the face element ================= *)
Lemma alias_refl ls : Forall2 alias_line ls ls.
Proof. induction ls; constructor; [apply al_same|assumption]. Qed.
Lemma with_noise_refl ls : with_noise ls ls.
Proof. induction ls; constructor; assumption. Qed.
Lemma header_variant_canonical h : header_variant h (render_header h).
Proof.
  exists (header_body h), (header_body h). split; [apply alias_refl|]. split; [apply with_noise_refl|]. reflexivity.
Qed.

Lemma header_of_good a : face_element_ok a -> Forall elem_good (h_elems (header_of a)).
Proof.
  intros [[Hn _]|[[fps [ip [ct [lt [Hp [Low _]]]]]]|[fps [ip [tk [ct [lt [ctt [ltt [Hp [Low _]]]]]]]]]]].
  - apply header_of_points_good, Hn.
  - eapply header_of_tris_good; eassumption.
  - eapply header_of_tris_good; eassumption.
Qed.

(* THE PROPERTY for files that declare further elements (edge, material, camera ... with any scalar and list
   properties) after the vertex and face elements and carry their records after the face records: any header variant of
   the extended header, any body variant of the extended body, loads to the mesh the vertex and face elements describe. *)
Theorem property_with_trailing_elements_proof : forall a others x hl b',
  vertex_element_ok a -> face_element_ok a -> known_finding_excluded a ->
  Forall elem_good others -> Forall other_elem others ->
  header_variant (with_more_elems (header_of a) others) hl -> body_variant (body_app (enc_body a) x) b' ->
  exists m, describe a = Ok m /\ read_mesh {| pf_header := hl; pf_body := b' |} = Ok m.
Proof.
  intros a others x hl b' Hv Hf Hk Go Oo Hh Hb.
  destruct (property_proof a (render_header (header_of a)) (enc_body a) Hv Hf Hk (header_variant_canonical _) (or_introl eq_refl))
    as [m [Hd Hr]].
  exists m. split; [exact Hd|].
  (* the canonical file, unfolded to read_body *)
  unfold read_mesh in Hr. cbn [pf_header pf_body] in Hr.
  rewrite parse_render_header_proof in Hr; [|apply header_of_good, Hf|reflexivity]. cbn [rbind] in Hr.
  pose proof (trailing_ignored_proof _ _ _ others _ x _ Oo Hr) as Ht.
  set (h' := with_more_elems (header_of a) others) in *.
  assert (Hp : parse_header (render_header h') = Ok h').
  { apply parse_render_header_proof; [|reflexivity]. unfold h'. cbn [with_more_elems h_elems].
    apply Forall_app. split; [apply header_of_good, Hf|exact Go]. }
  rewrite (read_mesh_variant hl (render_header h') b' (body_app (enc_body a) x)).
  - unfold read_mesh. cbn [pf_header pf_body]. rewrite Hp. cbn [rbind]. exact Ht.
  - apply header_variant_parse, Hh.
  - intros h. destruct Hb as [->|[lines [lines' [E1 [-> D]]]]]; [reflexivity|].
    rewrite E1, <- D. apply body_blanks_ignored_proof.
Qed.

(* ================= quad fans: one statement for both kinds of face element ================= *)
(* the faces the readers accept: 3 or 4 corners; when the element has a texcoord list (property number tk, float or
   double items) twice as many coordinates as corners *)
Definition faces_ok (rs : list (sty * sty)) (ip : nat) (tp : option nat) (fs : list (list (list N))) : Prop :=
  match tp with
  | None => Forall (face_ok rs ip) fs
  | Some tk => (exists ctt ltt, nth_error rs tk = Some (ctt, ltt) /\ (ltt = Float \/ ltt = Double)) /\
               Forall (tex_face_ok rs ip tk) fs
  end.
Definition item_ty (rs : list (sty * sty)) (k : nat) : sty := match nth_error rs k with Some (_, lt) => lt | None => Float end.
(* per-corner texture coordinates of the fan triangles, in face order *)
Definition uv_fans (rs : list (sty * sty)) (tp : option nat) (fs : list (list (list N))) : list (list N) :=
  match tp with
  | None => []
  | Some tk => flat_map (fun f => fan (pairs (map (tex_value (item_ty rs tk)) (nth tk f []))) []) fs
  end.
Definition idx_fans (ip : nat) (fs : list (list (list N))) : list Z :=
  flat_map (fun f => fan_tris (map signed32 (nth ip f []))) fs.

Theorem quad_fan_proof : forall e rs ip tp ct lt fs rest,
  nth_error rs ip = Some (ct, lt) -> index_ty_ok lt = true -> faces_ok rs ip tp fs ->
  faces_bin e rs ip tp (flat_map (enc_face_bin e rs) fs ++ rest) (length fs) fstate0 = Ok (idx_fans ip fs, uv_fans rs tp fs).
Proof.
  intros e rs ip tp ct lt fs rest Nip Ity Fo. destruct tp as [tk|]; cbn [faces_ok uv_fans] in *.
  - destruct Fo as [[ctt [ltt [Ntk Flt]]] Fo]. unfold item_ty. rewrite Ntk.
    apply (quad_fan_tex_bin_proof e rs ip tk ct lt ctt ltt fs rest fstate0 Nip Ity Ntk Flt eq_refl eq_refl Fo).
  - apply (quad_fan_bin_proof e rs ip ct lt fs rest fstate0 Nip Ity Fo).
Qed.

Theorem quad_fan_ascii_full_proof : forall rs ip tp ct lt fs rest,
  nth_error rs ip = Some (ct, lt) -> index_ty_ok lt = true -> faces_ok rs ip tp fs ->
  Forall (fun f => Forall (fun w => w < 2 ^ 31) (nth ip f [])) fs ->
  faces_ascii rs ip tp (map (enc_face_ascii rs) fs ++ rest) (length fs) fstate0 = Ok (idx_fans ip fs, uv_fans rs tp fs).
Proof.
  intros rs ip tp ct lt fs rest Nip Ity Fo Small. apply faces_ascii_more.
  assert (NE : rs <> []) by (intros E; rewrite E in Nip; destruct ip; discriminate).
  destruct tp as [tk|]; cbn [faces_ok uv_fans] in *.
  - destruct Fo as [[ctt [ltt [Ntk Flt]]] Fo]. unfold item_ty. rewrite Ntk.
    apply (quad_fan_tex_ascii_proof rs ip tk ct lt ctt ltt fs fstate0 NE Nip Ity Ntk Flt eq_refl eq_refl).
    rewrite Forall_forall in *. intros f If. destruct (Fo f If) as [F2 L]. split; [eapply Forall2_length'; exact F2|].
    split; [exact L|apply Small, If].
  - rewrite (quad_fan_ascii_proof rs ip ct lt fs fstate0 NE Nip Ity).
    + f_equal. f_equal. unfold idx_fans. apply flat_map_ext_in'. intros f If. rewrite Forall_forall in Small.
      rewrite (idx_ascii_small lt _ (Small f If)). reflexivity.
    + rewrite Forall_forall in *. intros f If. destruct (Fo f If) as [F2 L]. split; [eapply Forall2_length'; exact F2|exact L].
Qed.

(* ================= what the property excludes: witnesses ================= *)
(* the known finding ply:ascii-uchar-scalar-raw: an ascii file inside the quantifier (x y z and an unrecognised uchar
   property) loads, but NOT to the mesh the file describes - the same file in binary does *)
Definition raw_uchar_file (f : fmt) : absfile :=
  {| a_fmt := f; a_vprops := [(Float, "x"); (Float, "y"); (Float, "z"); (UChar, "quality")]%string;
     a_verts := [[1065353216; 1073741824; 1077936128; 128]]; a_fprops := None; a_faces := [] |}.
Theorem ascii_uchar_scalar_refuted_proof :
  (exists m m', read_mesh (encode (raw_uchar_file ASCII)) = Ok m /\ describe (raw_uchar_file ASCII) = Ok m' /\ mesh_eqb m m' = false) /\
  (exists m, read_mesh (encode (raw_uchar_file BinLE)) = Ok m /\ describe (raw_uchar_file BinLE) = Ok m) /\
  ~ known_finding_excluded (raw_uchar_file ASCII).
Proof.
  split; [|split].
  - eexists _, _. split; [vm_compute; reflexivity|]. split; [vm_compute; reflexivity|]. vm_compute. reflexivity.
  - eexists. split; vm_compute; reflexivity.
  - unfold known_finding_excluded. intros H. vm_compute spec_entries in H.
    repeat match goal with H : Forall _ (_ :: _) |- _ => inversion H; clear H; subst end.
    repeat match goal with H : raw_free _ _ |- _ => specialize (H eq_refl); try (apply H; reflexivity); clear H end.
Qed.

(* elements are not read in header order: a conformant file with the records of another element before the vertex
   records is outside the quantifier (only vertex and face elements are quantified over) - the reader takes the edge
   record for the first vertex *)
Definition misplaced_file : plyfile :=
  {| pf_header := [["ply"]; ["format"; "ascii"; "1.0"]; ["element"; "edge"; "1"]; ["property"; "int"; "a"];
                   ["property"; "int"; "b"]; ["property"; "int"; "c"];
                   ["element"; "vertex"; "1"]; ["property"; "float"; "x"]; ["property"; "float"; "y"];
                   ["property"; "float"; "z"]; ["end_header"]]%string;
     pf_body := BodyAscii [[TI 7 4619567317775286272; TI 8 4620693217682128896; TI 9 4621256167635550208];
                           [TI 1 4607182418800017408; TI 2 4611686018427387904; TI 3 4613937818241073152]] |}.
Theorem misplaced_element_refuted_proof :
  exists m, read_mesh misplaced_file = Ok m /\
            get_attr 3 "Position" (m_attrs m) = Some [[4619567317775286272; 4620693217682128896; 4621256167635550208]].
Proof. eexists. split; vm_compute; reflexivity. Qed.

(* ================= per-corner texture coordinates: every corner carries the vertex it references ================= *)
(* meshops.Unweld as MeshReader.Read uses it: in the unwelded mesh, corner k (position k of the old index buffer) holds,
   for every attribute, the row of the vertex that corner referenced - whatever the order of the faces, and also when
   the number of corners happens to equal the number of vertices *)
Lemma gather_spec {A} (data : list A) idx g : gather data idx = Ok g ->
  forall k i, nth_error idx k = Some i ->
    (0 <= i)%Z /\ nth_error g k = nth_error data (Z.to_nat i) /\ nth_error g k <> None.
Proof.
  unfold gather. intros H k i Hk.
  destruct (mapR_nth _ _ _ _ _ H Hk) as [y [Hy Hf]].
  destruct (i <? 0)%Z eqn:Neg; [discriminate|].
  destruct (nth_error data (Z.to_nat i)) as [v|] eqn:D; cbn [of_opt] in Hf; [|discriminate].
  apply ok_inj in Hf. subst y. split; [apply Z.ltb_ge in Neg; exact Neg|]. split; [exact Hy|]. rewrite Hy. discriminate.
Qed.

Theorem corner_carries_vertex_proof : forall (l : list attr) idx ua,
  unweld_attrs l idx = Ok ua ->
  forall j d n data, nth_error l j = Some (d, n, data) ->
    exists g, nth_error ua j = Some (d, n, g) /\ length g = length idx /\
              forall k i, nth_error idx k = Some i -> nth_error g k = nth_error data (Z.to_nat i) /\ nth_error g k <> None.
Proof.
  unfold unweld_attrs. intros l idx ua H j d n data Hj.
  destruct (mapR_nth _ _ _ _ _ H Hj) as [y [Hy Hf]]. cbn beta iota in Hf.
  destruct (gather data idx) as [g|] eqn:G; cbn [rbind] in Hf; [|discriminate].
  apply ok_inj in Hf. subst y. exists g. split; [exact Hy|]. split.
  - unfold gather in G. apply mapR_length in G. exact G.
  - intros k i Hk. destruct (gather_spec data idx g G k i Hk) as [_ R]. exact R.
Qed.

(* CRLF at file level: a file whose header text has CRLF line ends loads like the file with LF line ends *)
From PF Require Import Formats.PlyText Formats.PlyTextProofs.
Theorem crlf_file_loads_alike_proof : forall text b,
  read_mesh {| pf_header := header_lines (crlf text); pf_body := b |} = read_mesh {| pf_header := header_lines text; pf_body := b |}.
Proof. intros. rewrite crlf_ignored_proof. reflexivity. Qed.
