(* C06 proofs, round 4: three clauses of [gltf_check_models] in the checker's boolean form, on the
   model's document [to_summary (run sc)]:
     "dedup-inconsistent"            [dedup_pairs_run]
     "dangling-index" (primitives)   [prims_ok_run]
     "dangling-index" (nodes)        [nodes_valid_run]
   Besides the table invariant [tinv] of GltfNodeProofs two more facts about the writer state are
   carried through the run ([xtra]): no two rows of the written-geometry table have the same index
   accessor, and every material index in a key of the mesh table is below the number of materials. *)
From PF Require Import Base.Bytes Base.BytesProofs Formats.Gltf Formats.GltfProofs Formats.GltfDedupProofs
  Formats.GltfNodeProofs Formats.GltfFinalProofs.
From Coq Require Import ZifyN ZifyNat ZifyBool.
From Coq Require String.
Import String.StringSyntax.
Delimit Scope string_scope with string.
Ltac Zify.zify_post_hook ::= Z.div_mod_to_equations.
Open Scope list_scope.
Open Scope N_scope.

(* ------------------------------------------------------------------ lists *)
Lemma zip_combine {A B} (a : list A) (b : list B) : zip a b = combine a b.
Proof.
  revert b. induction a as [|x a IH]; intros [|y b]; cbn [zip combine]; try reflexivity.
  rewrite IH. reflexivity.
Qed.
Lemma combine_app_tail {A B} (l : list A) (l' t : list B) : length l = length l' -> combine l (l' ++ t) = combine l l'.
Proof.
  revert l'. induction l as [|x l IH]; intros [|y l'] H; cbn [length] in H; try discriminate; cbn [combine app]; [reflexivity|].
  rewrite IH by congruence. reflexivity.
Qed.
Lemma Forall2_In_r {A B} (R : A -> B -> Prop) l l' b : Forall2 R l l' -> In b l' -> exists a, In a l /\ R a b.
Proof.
  induction 1 as [|x y l l' Hxy _ IH]; cbn [In]; [tauto|]. intros [<-|H]; [exists x; auto|].
  destruct (IH H) as (a & Ha & Hr). exists a. auto.
Qed.
Lemma pairs_ok_all {A} (p : A -> A -> bool) l : (forall x y, In x l -> In y l -> p x y = true) -> pairs_ok p l = true.
Proof.
  induction l as [|x l IH]; intros H; cbn [pairs_ok]; [reflexivity|]. apply andb_true_iff. split.
  - apply forallb_forall. intros y Hy. apply H; [left; reflexivity|right; exact Hy].
  - apply IH. intros a b Ha Hb. apply H; right; assumption.
Qed.

(* ------------------------------------------------------------------ attribute maps have distinct keys *)
Lemma amap_set_keys key v l k : In k (map fst (amap_set key v l)) -> k = key \/ In k (map fst l).
Proof.
  intros H. apply in_map_iff in H. destruct H as (x & <- & Hx). apply amap_set_In in Hx.
  destruct Hx as [->|Hx]; [left; reflexivity|right; apply in_map, Hx].
Qed.
Lemma amap_set_NoDup key v l : NoDup (map fst l) -> NoDup (map fst (amap_set key v l)).
Proof.
  induction l as [|[k' v'] l IH]; cbn [amap_set map fst]; intros H.
  - constructor; [intros []|constructor].
  - inversion H as [|? ? Hx Hn]; subst. destruct (String.eqb key k') eqn:E.
    + apply String.eqb_eq in E. subst k'. cbn [map fst]. constructor; assumption.
    + cbn [map fst]. constructor; [|apply IH, Hn]. intros Hin. apply amap_set_keys in Hin.
      destruct Hin as [->|Hin]; [rewrite String.eqb_refl in E; discriminate|contradiction].
Qed.
Lemma attrs_from_NoDup i attrs a : NoDup (map fst a) -> NoDup (map fst (attrs_from i attrs a)).
Proof.
  revert i a. induction attrs as [|nv r IH]; intros i a H; cbn [attrs_from]; [exact H|].
  apply IH, amap_set_NoDup, H.
Qed.
Lemma mesh_attrs_NoDup i m : NoDup (map fst (mesh_attrs i m)).
Proof. unfold mesh_attrs. repeat apply attrs_from_NoDup. constructor. Qed.

Lemma amap_get_In a k v : NoDup (map fst a) -> In (k, v) a -> amap_get k a = Some v.
Proof.
  induction a as [|[k' v'] a IH]; cbn [map fst In amap_get]; [tauto|]. intros Hn [E|Hin].
  - apply pair_equal_spec in E. destruct E as (-> & ->). rewrite String.eqb_refl. reflexivity.
  - inversion Hn as [|? ? Hx Hn']; subst. destruct (String.eqb k k') eqn:E.
    + apply String.eqb_eq in E. subst k'. exfalso. apply Hx. apply (in_map fst) in Hin. exact Hin.
    + apply IH; assumption.
Qed.
Lemma amap_eqb_refl a : NoDup (map fst a) -> amap_eqb a a = true.
Proof.
  intros H. unfold amap_eqb. rewrite Nat.eqb_refl. rewrite (proj2 (nodup_str_NoDup _) H). cbn [andb].
  apply forallb_forall. intros [k v] Hin. cbn [fst snd]. rewrite (amap_get_In _ _ _ H Hin). apply optN_eqb_refl.
Qed.

Lemma entry_idx_lt cks m a ii : entry cks m (a, ii) -> ii < len cks.
Proof.
  intros H. apply entry_idx in H.
  assert (N.to_nat ii < length cks)%nat by (apply nth_error_Some; congruence). unfold len. lia.
Qed.
Lemma entry_attrs_NoDup cks m a ii : entry cks m (a, ii) -> NoDup (map fst a).
Proof.
  intros (pre & post & _ & E). apply (f_equal fst) in E. cbn [fst] in E. rewrite E. apply mesh_attrs_NoDup.
Qed.

(* ------------------------------------------------------------------ two more invariants of the tables *)
Definition idxpos (r : N * (list (string * N) * N)) : N := snd (snd r).
Definition mat_lt (mats : list gmat) (o : option N) : Prop :=
  match o with Some i => i < len mats | None => True end.
Definition xtra (s : state) : Prop :=
  NoDup (map idxpos (st_wr_tab s)) /\
  Forall (fun row : N * option N * N => mat_lt (st_mats s) (snd (fst row))) (st_mesh_tab s).

Lemma mat_lt_valid mats o : mat_lt mats o -> valid_opt o mats = true.
Proof. unfold mat_lt, valid_opt, valid_idx. destruct o; [|reflexivity]. intros H. apply N.ltb_lt, H. Qed.

Lemma xtra_same s s' : st_wr_tab s' = st_wr_tab s -> st_mesh_tab s' = st_mesh_tab s -> st_mats s' = st_mats s ->
  xtra s -> xtra s'.
Proof. intros E1 E2 E3 H. unfold xtra. rewrite E1, E2, E3. exact H. Qed.

Section Extra.
Variable M : pmesh -> Prop.
Hypothesis M_ptr : forall m1 m2, M m1 -> M m2 -> me_ptr m1 = me_ptr m2 -> m1 = m2.

Lemma add_material_xtra m s : tinv M s -> xtra s ->
  xtra (snd (add_material m s)) /\ fst (add_material m s) < len (st_mats (snd (add_material m s))).
Proof.
  intros Ht (Hn & Hf). unfold add_material. destruct (find_mat m (st_mat_tab s)) as [i|] eqn:Ef.
  - cbn [fst snd]. split; [split; assumption|].
    destruct Ht as (_ & _ & _ & _ & _ & (_ & Hv)).
    apply find_mat_In in Ef. destruct Ef as (e & Hin & _).
    apply (in_map snd) in Hin. cbn [snd] in Hin. rewrite Hv in Hin.
    change (In i (seqN (length (st_mats s)))) in Hin. apply seqN_In in Hin. unfold len. lia.
  - destruct (build_material m (st_x s)) as [gm x]. unfold xtra. cbn [fst snd st_mats st_wr_tab st_mesh_tab].
    split; [split; [exact Hn|]|rewrite len_snoc; lia].
    eapply Forall_impl; [|exact Hf]. intros row. unfold mat_lt. destruct (snd (fst row)); [rewrite len_snoc; lia|auto].
Qed.

Lemma resolve_material_xtra mo s : tinv M s -> xtra s ->
  xtra (snd (resolve_material mo s)) /\ mat_lt (st_mats (snd (resolve_material mo s))) (fst (resolve_material mo s)).
Proof.
  intros Ht Hx. unfold resolve_material. destruct (mo_mat mo) as [pm|]; [|split; [exact Hx|exact I]].
  pose proof (add_material_xtra pm s Ht Hx) as (H1 & H2). destruct (add_material pm s) as [i s1].
  cbn [fst snd] in *. split; assumption.
Qed.

Lemma place_mesh_xtra mo mati s : tinv M s -> xtra s -> mat_lt (st_mats s) mati -> xtra (snd (place_mesh mo mati s)).
Proof.
  intros Ht (Hn & Hf) Hm. unfold place_mesh. destruct (find_mesh _ _); [split; assumption|].
  destruct Ht as (Hc & Hw & _). unfold mesh_data.
  destruct (lookupN (me_ptr (mo_mesh mo)) (st_wr_tab s)) as [ai|] eqn:El.
  - unfold xtra. cbn [snd st_wr_tab st_mesh_tab st_mats]. split; [exact Hn|].
    apply Forall_app. split; [exact Hf|]. constructor; [exact Hm|constructor].
  - rewrite (canon_of_chunks _ Hc) at 1. rewrite write_mesh_data_of. unfold xtra.
    cbn [snd fst st_wr_tab st_mesh_tab st_mats map]. split.
    + constructor; [|exact Hn]. intros Hin. apply in_map_iff in Hin. destruct Hin as ([ptr [a ii]] & E & Hin).
      rewrite Forall_forall in Hw. destruct (Hw _ Hin) as (m' & _ & _ & He). cbn [snd] in He. apply entry_idx_lt in He.
      unfold idxpos in E. cbn [snd] in E. unfold mesh_idx_pos in E. lia.
    + apply Forall_app. split; [exact Hf|]. constructor; [exact Hm|constructor].
Qed.

Definition J (s : state) : Prop := tinv M s /\ xtra s.

Lemma add_model_J s mo : M (mo_mesh mo) -> J s -> J (add_model s mo).
Proof.
  intros HM (Ht & Hx). unfold add_model, add_mesh. destruct (prim_count (mo_mesh mo) =? 0); [split; assumption|].
  pose proof (resolve_material_tinv M mo s Ht) as Ht1.
  pose proof (resolve_material_xtra mo s Ht Hx) as (Hx1 & Hm1).
  destruct (resolve_material mo s) as [mati s1]. cbn [fst snd] in *.
  pose proof (place_mesh_tinv M M_ptr mo mati s1 HM Ht1) as Ht2.
  pose proof (place_mesh_xtra mo mati s1 Ht1 Hx1 Hm1) as Hx2.
  destruct (place_mesh mo mati s1) as [[mi|] s2]; cbn [snd] in *; [|split; assumption].
  split; [apply add_node_tinv, Ht2|].
  apply (xtra_same s2); try exact Hx2; unfold add_node; destruct (node_inst mo s2) as [[inst b] x]; reflexivity.
Qed.
Lemma fold_models_J ms s : Forall (fun mo => M (mo_mesh mo)) ms -> J s -> J (fold_left add_model ms s).
Proof.
  revert s. induction ms as [|mo r IH]; intros s HM Hs; cbn [fold_left]; [exact Hs|].
  inversion HM; subst. apply IH; [assumption|]. apply add_model_J; assumption.
Qed.
Lemma add_light_J s l : J s -> J (add_light s l).
Proof. intros (Ht & Hx). split; [apply add_light_tinv, Ht|]. apply (xtra_same s); auto. Qed.
Lemma fold_lights_J ls s : J s -> J (fold_left add_light ls s).
Proof. revert s. induction ls as [|l r IH]; intros s Hs; cbn [fold_left]; [exact Hs|]. apply IH, add_light_J, Hs. Qed.
End Extra.

Lemma J_init M : J M init.
Proof. split; [apply tinv_init|]. split; cbn; constructor. Qed.

Theorem run_J sc : scene_ptr_ok sc -> J (scene_mesh sc) (run sc).
Proof.
  intros Hp. unfold run, add_scene. apply fold_lights_J. apply fold_models_J; [exact Hp| |apply J_init].
  apply Forall_forall. intros mo Hin. exists mo. auto.
Qed.

(* ------------------------------------------------------------------ "dedup-inconsistent" *)
(* material pointer identity is consistent with values: what a Go pointer guarantees *)
Definition scene_mat_ptr_ok (sc : scene) : Prop :=
  forall mo1 mo2 pm1 pm2, In mo1 (sc_models sc) -> In mo2 (sc_models sc) ->
    mo_mat mo1 = Some pm1 -> mo_mat mo2 = Some pm2 -> pm_ptr pm1 = pm_ptr pm2 -> mat_equal pm1 pm2 = true.

Lemma dedup_pair_docs (M : pmesh -> Prop) st mo1 nd1 mi1 p1 ii1 mo2 nd2 mi2 p2 ii2 :
  tinv M st -> NoDup (map idxpos (st_wr_tab st)) ->
  node_doc st mo1 nd1 mi1 p1 ii1 -> node_doc st mo2 nd2 mi2 p2 ii2 ->
  (forall pm1 pm2, mo_mat mo1 = Some pm1 -> mo_mat mo2 = Some pm2 -> pm_ptr pm1 = pm_ptr pm2 -> mat_equal pm1 pm2 = true) ->
  dedup_pair_ok (mo1, (mi1, p1)) (mo2, (mi2, p2)) = true.
Proof.
  intros Ht Hnd D1 D2 Hptr.
  destruct (dedup_nodes M st _ _ _ _ _ _ _ _ _ _ Ht D1 D2) as (Hsame & Hmi & Hmat & _).
  assert (Hidx : gp_idx p1 = gp_idx p2 -> me_ptr (mo_mesh mo1) = me_ptr (mo_mesh mo2)).
  { destruct D1 as [_ _ _ _ (I1 & _) (_ & L1) _ _]. destruct D2 as [_ _ _ _ (I2 & _) (_ & L2) _ _].
    rewrite I1, I2. intros E. apply some_inj in E. subst ii2.
    apply lookupN_In in L1, L2.
    assert (E : (me_ptr (mo_mesh mo1), (gp_attrs p1, ii1)) = (me_ptr (mo_mesh mo2), (gp_attrs p2, ii1))).
    { apply (NoDup_map_inj idxpos (st_wr_tab st)); auto. }
    apply (f_equal fst) in E. exact E. }
  assert (Hnd1 : NoDup (map fst (gp_attrs p1))).
  { destruct D1 as [_ _ _ _ (_ & _ & He) _ _ _]. eapply entry_attrs_NoDup, He. }
  unfold dedup_pair_ok.
  apply andb_true_iff; split; [apply andb_true_iff; split|].
  - destruct (me_ptr (mo_mesh mo1) =? me_ptr (mo_mesh mo2)) eqn:Ep; [|reflexivity]. cbn [negb orb].
    apply N.eqb_eq in Ep. destruct (Hsame Ep) as (Ea & Ei).
    rewrite <- Ea, <- Ei, (amap_eqb_refl _ Hnd1), optN_eqb_refl. cbn [andb].
    destruct (optN_eqb (gp_mat p1) (gp_mat p2)) eqn:Em; [|reflexivity]. cbn [negb orb].
    apply keyed_optN in Em. cbv beta in Em. apply N.eqb_eq. apply Hmi. auto.
  - destruct (me_ptr (mo_mesh mo1) =? me_ptr (mo_mesh mo2)) eqn:Ep; [reflexivity|]. cbn [orb].
    destruct (optN_eqb (gp_idx p1) (gp_idx p2)) eqn:Ei; [|reflexivity].
    apply keyed_optN in Ei. cbv beta in Ei. apply Hidx in Ei. apply N.eqb_neq in Ep. contradiction.
  - destruct (mo_mat mo1) as [x|] eqn:E1; [|reflexivity]. destruct (mo_mat mo2) as [y|] eqn:E2; [|reflexivity].
    specialize (Hmat x y eq_refl eq_refl). specialize (Hptr x y eq_refl eq_refl).
    destruct (mat_equal x y) eqn:Eq.
    + rewrite orb_true_r. rewrite (proj2 (keyed_optN (gp_mat p1) (gp_mat p2)) (proj2 Hmat eq_refl)). reflexivity.
    + rewrite orb_false_r. destruct (pm_ptr x =? pm_ptr y) eqn:Ep.
      * apply N.eqb_eq in Ep. apply Hptr in Ep. discriminate.
      * destruct (optN_eqb (gp_mat p1) (gp_mat p2)) eqn:Em; [|reflexivity].
        apply keyed_optN in Em. cbv beta in Em. apply Hmat in Em. discriminate.
Qed.

(* every placement the checker extracts is (model, mesh index, primitive) of a [node_doc] *)
Lemma placements_run sc : scene_ptr_ok sc -> forall x, In x (placements (to_summary (run sc)) sc) ->
  exists nd ii, In (fst x) (sc_models sc) /\ node_doc (run sc) (fst x) nd (fst (snd x)) (snd (snd x)) ii.
Proof.
  intros Hp x Hx. destruct (model_nodes_spec sc Hp) as (En & Hn).
  unfold placements, to_summary in Hx. cbn [s_nodes s_meshes] in Hx.
  rewrite En, zip_combine, combine_app_tail in Hx by (eapply Forall2_len; exact Hn).
  apply in_flat_map in Hx. destruct Hx as ([mo nd] & Hin & Hx). cbn [fst snd] in Hx.
  destruct (Forall2_combine_In _ _ _ _ _ Hn Hin) as (mi & p & ii & D).
  pose proof D as [_ _ (_ & Hm) (gm & Hg & Hpr) _ _ _ _].
  unfold nthN in Hx. rewrite Hm in Hx. cbv beta iota in Hx. rewrite Hg in Hx. cbv beta iota in Hx.
  rewrite Hpr in Hx. cbv beta iota in Hx. destruct Hx as [<-|[]]. cbn [fst snd].
  exists nd, ii. split; [|exact D]. apply in_combine_l in Hin. apply filter_In in Hin. tauto.
Qed.

Theorem dedup_pairs_run : forall sc, scene_ptr_ok sc -> scene_mat_ptr_ok sc ->
  pairs_ok dedup_pair_ok (placements (to_summary (run sc)) sc) = true.
Proof.
  intros sc Hp Hm. destruct (run_J sc Hp) as (Ht & Hnd & _).
  apply pairs_ok_all. intros [mo1 [mi1 p1]] [mo2 [mi2 p2]] H1 H2.
  apply (placements_run sc Hp) in H1. apply (placements_run sc Hp) in H2. cbn [fst snd] in H1, H2.
  destruct H1 as (nd1 & ii1 & In1 & D1). destruct H2 as (nd2 & ii2 & In2 & D2).
  apply (dedup_pair_docs (scene_mesh sc) (run sc) _ _ _ _ _ _ _ _ _ _ Ht Hnd D1 D2).
  intros pm1 pm2 E1 E2. apply (Hm mo1 mo2); assumption.
Qed.

(* ------------------------------------------------------------------ "dangling-index": primitives *)
Lemma prim_ok_entry st cks m p ii : st_b st = of_chunks cks -> entry cks m (gp_attrs p, ii) ->
  gp_idx p = Some ii -> gp_mode p = mode_of m -> valid_opt (gp_mat p) (st_mats st) = true ->
  prim_ok (to_summary st) p = true.
Proof.
  intros Hb He Hi Hmode Hmat. unfold prim_ok, to_summary. cbn [s_accs s_mats]. rewrite Hb. cbn [b_accs of_chunks].
  assert (Hlen : len (accs_of 0 cks) = len cks) by (unfold len; rewrite accs_of_length; reflexivity).
  pose proof (entry_idx _ _ _ _ He) as Hn.
  repeat (apply andb_true_iff; split).
  - apply nodup_str_NoDup. eapply entry_attrs_NoDup, He.
  - apply forallb_forall. intros [name ai] Hin. cbn [snd].
    destruct (entry_attr _ _ _ _ _ _ He Hin) as (k & nv & _ & _ & Hnth).
    unfold valid_idx. rewrite Hlen. assert (N.to_nat ai < length cks)%nat by (apply nth_error_Some; congruence).
    apply N.ltb_lt. unfold len. lia.
  - rewrite Hi. unfold valid_opt, valid_idx. rewrite Hlen. apply entry_idx_lt in He. apply N.ltb_lt. exact He.
  - exact Hmat.
  - rewrite Hmode. unfold mode_of. destruct (me_point m); reflexivity.
  - rewrite Hi. cbv beta iota. unfold nthN. destruct (acc_view_of cks _ _ Hn) as (Ha & _). rewrite Ha. cbv beta iota.
    rewrite index_width_rule. unfold acc_of, idx_chunk. cbn [a_k ck_k].
    destruct (attr_len m <=? 65535); reflexivity.
Qed.

Theorem prims_ok_run : forall sc, scene_ptr_ok sc ->
  let s := to_summary (run sc) in
  forallb (fun m => forallb (prim_ok s) (gm_prims m)) (s_meshes s) = true.
Proof.
  intros sc Hp. cbv zeta. destruct (run_J sc Hp) as (Ht & _ & Hf).
  destruct Ht as (Hc & _ & Hrows & _ & Hv & _).
  apply forallb_forall. intros gm Hin. unfold to_summary in Hin. cbn [s_meshes] in Hin.
  apply In_nth_error in Hin. destruct Hin as (j & Hj).
  assert (Hlt : (j < length (st_meshes (run sc)))%nat) by (apply nth_error_Some; congruence).
  assert (Hrow : In (N.of_nat j) (map snd (st_mesh_tab (run sc)))).
  { rewrite Hv. apply in_map. apply in_seq. lia. }
  apply in_map_iff in Hrow. destruct Hrow as (row & Er & Hrow).
  rewrite Forall_forall in Hrows, Hf. specialize (Hf _ Hrow).
  destruct (Hrows _ Hrow) as (gm' & p & ii & m & R1 & R2 & R3 & R4 & _ & _ & _ & R8 & R9).
  rewrite Er, Nat2N.id, Hj in R1. apply some_inj in R1. subst gm'.
  rewrite R2. cbn [forallb]. rewrite andb_true_r.
  apply (prim_ok_entry (run sc) (b_chunks (st_b (run sc))) m p ii); auto.
  - apply canon_of_chunks, Hc.
  - rewrite R3. apply mat_lt_valid, Hf.
Qed.

(* ------------------------------------------------------------------ "dangling-index": nodes *)
Lemma light_nodes_In j ls nd : In nd (light_nodes j ls) ->
  gn_mesh nd = None /\ gn_inst nd = None /\ exists i, gn_light nd = Some i /\ i < j + len ls.
Proof.
  revert j. induction ls as [|l r IH]; intros j; cbn [light_nodes In]; [tauto|]. intros [<-|H].
  - unfold light_node. cbn [gn_mesh gn_inst gn_light]. split; [reflexivity|]. split; [reflexivity|].
    exists j. split; [reflexivity|]. unfold len. cbn [length]. lia.
  - destruct (IH _ H) as (H1 & H2 & i & H3 & H4). split; [exact H1|]. split; [exact H2|].
    exists i. split; [exact H3|]. unfold len in *. cbn [length]. lia.
Qed.

Theorem nodes_valid_run : forall sc, scene_ptr_ok sc ->
  let s := to_summary (run sc) in
  forallb (fun nd => valid_opt (gn_mesh nd) (s_meshes s) && valid_opt (gn_light nd) (s_lights s)
                     && match gn_inst nd with
                        | Some a => forallb (fun kv => valid_idx (snd kv) (s_accs s)) a
                        | None => true end) (s_nodes s) = true.
Proof.
  intros sc Hp. cbv zeta. destruct (model_nodes_spec sc Hp) as (En & Hn).
  pose proof (nodes_of_run sc Hp) as H. cbv zeta in H. destruct H as (mn & _ & _ & _ & Hl).
  pose proof (canon_run sc) as (_ & Ha & _).
  unfold to_summary. cbn [s_nodes s_meshes s_lights s_accs]. rewrite En, forallb_app.
  apply andb_true_iff; split; apply forallb_forall; intros nd Hin.
  - destruct (Forall2_In_r _ _ _ _ Hn Hin) as (mo & _ & mi & p & ii & D).
    destruct D as [_ _ (Hli & Hm) (gm & Hg & _) _ _ _ Hi].
    rewrite Hm, Hli. cbn [valid_opt].
    apply andb_true_iff; split; [apply andb_true_iff; split; [|reflexivity]|].
    + unfold valid_idx. assert (N.to_nat mi < length (st_meshes (run sc)))%nat by (apply nth_error_Some; congruence).
      apply N.ltb_lt. unfold len. lia.
    + unfold inst_for in Hi. destruct (mo_inst mo) as [|i0 ins].
      * destruct Hi as (-> & _). reflexivity.
      * destruct Hi as (pre & post & Ec & -> & _). cbn [forallb snd]. unfold valid_idx, len.
        rewrite Ha, accs_of_length, Ec, !app_length. unfold inst_chunks. cbn [length].
        rewrite !andb_true_iff. repeat split; first [reflexivity | apply N.ltb_lt; lia].
  - apply light_nodes_In in Hin. destruct Hin as (Hm & Hi & i & Hli & Hlt). rewrite Hm, Hi, Hli, Hl.
    apply andb_true_iff; split; [apply andb_true_iff; split; [reflexivity|]|reflexivity].
    unfold valid_opt, valid_idx, len. rewrite map_length. apply N.ltb_lt. unfold len in Hlt. lia.
Qed.

(* ------------------------------------------------------------------ non-vacuity *)
Example two_triangles_mat_ptr_ok : scene_mat_ptr_ok two_triangles.
Proof.
  intros mo1 mo2 pm1 pm2 H1 _ E1. cbn [sc_models two_triangles In] in H1.
  destruct H1 as [<-|[<-|[]]]; cbn in E1; discriminate E1.
Qed.
(* ... and a scene with two materials (different pointers, different values) *)
Example tex_ext_scene_mat_ptr_ok : scene_ptr_ok tex_ext_scene /\ scene_mat_ptr_ok tex_ext_scene.
Proof.
  split; [apply material_content_refuted_witness|].
  intros mo1 mo2 pm1 pm2 H1 H2 E1 E2 Ep. cbn [sc_models tex_ext_scene In] in H1, H2.
  destruct H1 as [<-|[<-|[]]], H2 as [<-|[<-|[]]]; cbn [mo_mat] in E1, E2;
    apply some_inj in E1; apply some_inj in E2; subst pm1 pm2; try apply mat_equal_refl;
    cbn in Ep; discriminate Ep.
Qed.
