(* C08: specification-side vocabulary for the theorems about the PLY reader model (Formats/PlyRead.v).
   Definitions only, NO PROOFS.  Kept apart from PlyRead.v so that file (imported read-only by the C04 and
   C14 developments) does not change. *)
From PF Require Import Base.Bytes Formats.PlyRead.
From Coq Require Import String.
Open Scope list_scope.
Open Scope N_scope.

(* ---------- one vertex record of a file written by some other tool ---------- *)
Definition vprops := list (sty * string).          (* declared type and name, in header order *)
Definition scalars (ps : vprops) : list prop := map (fun '(t, n) => PScalar t n) ps.
Definition names (ps : vprops) : list string := map snd ps.

Definition endian_of (f : fmt) : endian := match f with BinBE => BEnd | _ => LEnd end.
Definition is_bin (f : fmt) : bool := match f with ASCII => false | _ => true end.

(* an encoded record: bytes (binary_little_endian / binary_big_endian) or the tokens of one line (ascii) *)
Inductive enc_rec := RBin (bytes : list N) | RAsc (toks : list tok).
Definition encode_record (f : fmt) (ps : vprops) (vals : list N) : enc_rec :=
  match f with
  | ASCII => RAsc (enc_record_ascii (map fst ps) vals)
  | _ => RBin (enc_record_bin (endian_of f) (map fst ps) vals)
  end.

(* the layout function: byte offset (binary) / column (ascii) and declared type of property [name];
   [advance] is the step the Go builders take per property (totalSize += scalar.Size() / i++) *)
Fixpoint offsets_from (bin : bool) (ps : vprops) (name : string) (cur : nat) : option (nat * sty) :=
  match ps with
  | [] => None
  | (t, n) :: r => if seqb n name then Some (cur, t) else offsets_from bin r name (advance bin cur t)
  end.
Definition offsets (bin : bool) (ps : vprops) (name : string) : option (nat * sty) := offsets_from bin ps name 0.

(* what is stored in a field: a word (binary) or a token (ascii) *)
Inductive field := FWord (w : N) | FTok (t : tok).
Definition read_field (f : fmt) (off : nat) (t : sty) (r : enc_rec) : option field :=
  match r with
  | RBin bytes => option_map FWord (get_word (endian_of f) t off bytes)
  | RAsc toks => option_map FTok (nth_error toks off)
  end.

(* the word record [vals] assigns to property [name] (with its declared type) *)
Fixpoint field_word (ps : vprops) (vals : list N) (name : string) : option (sty * N) :=
  match ps, vals with
  | (t, n) :: r, w :: ws => if seqb n name then Some (t, w) else field_word r ws name
  | _, _ => None
  end.
Definition value_of (f : fmt) (ps : vprops) (vals : list N) (name : string) : option field :=
  match field_word ps vals name with
  | Some (t, w) => Some (match f with ASCII => FTok (tok_of_word t w) | _ => FWord w end)
  | None => None
  end.

(* every value fits the declared type of its column *)
Definition record_ok (ps : vprops) (vals : list N) : Prop := Forall2 (fun p w => word_fits (fst p) w) ps vals.
Definition supported (ps : vprops) : Prop := Forall (fun p => vertex_ty_ok (fst p) = true) ps.

(* the float64 (bit pattern) a mesh attribute gets for a word of declared type t: the specification side
   ([describe] uses the same function): uchar -> w/255, int -> float64(int32), float -> widened, double -> as is *)
Definition mesh_value (t : sty) (w : N) : result N := conv t w.

(* ---------- the vertex block of a body ---------- *)
Definition encode_vertices_bin (e : endian) (ps : vprops) (recs : list (list N)) : list N :=
  flat_map (enc_record_bin e (map fst ps)) recs.
Definition encode_vertices_ascii (ps : vprops) (recs : list (list N)) : list (list tok) :=
  map (enc_record_ascii (map fst ps)) recs.

(* ---------- header noise ---------- *)
(* lines another tool may put anywhere between the format line and end_header *)
Definition noise_line (l : list string) : Prop :=
  match l with
  | [] => True
  | k :: _ => k = "comment"%string \/ k = "obj_info"%string
  end.
(* [with_noise clean noisy]: noisy is clean with noise lines inserted at arbitrary positions *)
Inductive with_noise : list (list string) -> list (list string) -> Prop :=
| wn_nil : with_noise [] []
| wn_keep l a b : with_noise a b -> with_noise (l :: a) (l :: b)
| wn_ins l a b : noise_line l -> with_noise a b -> with_noise a (l :: b).
(* a header modulo its comment list *)
Definition strip_comments (r : result header) : result (fmt * list element) :=
  match r with Ok h => Ok (h_fmt h, h_elems h) | Err e => Err e end.

(* type-name aliases of the specification *)
Definition alias_pairs : list (string * string) :=
  [("char", "int8"); ("uchar", "uint8"); ("short", "int16"); ("ushort", "uint16");
   ("int", "int32"); ("uint", "uint32"); ("float", "float32"); ("double", "float64")]%string.
(* replace a type name by any spelling that denotes the same type *)
Definition same_type (a b : string) : Prop := exists t, parse_sty a = Ok t /\ parse_sty b = Ok t.

(* ---------- faces ---------- *)
Definition count_ty_ok (t : sty) : bool := match t with UChar | Int | UInt => true | _ => false end.
Definition index_ty_ok (t : sty) : bool := match t with Int | UInt => true | _ => false end.
(* the triangles a face with corner list l contributes: a triangle itself, a quad its fan (0,1,2),(0,2,3) *)
Definition fan_tris (l : list Z) : list Z := fan l 0%Z.

(* one face of the face element: one word list per list property (count type, item type) *)
Definition enc_face_bin (e : endian) (rs : list (sty * sty)) (f : list (list N)) : list N :=
  flat_map (fun '((ct, lt), ws) => enc_list_bin e ct lt ws) (combine rs f).
Definition enc_face_ascii (rs : list (sty * sty)) (f : list (list N)) : list tok :=
  flat_map (fun '((_, lt), ws) => enc_list_ascii lt ws) (combine rs f).
(* a list the reader can take: supported count type, the count fits it, every item fits the item type *)
Definition list_ok (r : sty * sty) (ws : list N) : Prop :=
  count_ty_ok (fst r) = true /\ word_fits (fst r) (N.of_nat (List.length ws)) /\
  N.of_nat (List.length ws) < 2 ^ 31 /\ Forall (word_fits (snd r)) ws.
(* a face whose index list (property number ip) names three or four vertices *)
Definition face_ok (rs : list (sty * sty)) (ip : nat) (f : list (list N)) : Prop :=
  Forall2 list_ok rs f /\ (List.length (nth ip f []) = 3%nat \/ List.length (nth ip f []) = 4%nat).
(* the state change one list property causes in readBinaryFaceElement (with the list already decoded) *)
Definition face_step (k ip : nat) (tp : option nat) (lt : sty) (ws : list N) (st : fstate) : fstate :=
  let v := Z.of_nat (List.length ws) in
  let st1 :=
    if Nat.eqb k ip then
      let st' := {| fs_ibuf := fs_ibuf st; fs_tbuf := fs_tbuf st; fs_points := v |} in
      if (4 <? v)%Z then st'
      else match lt with
           | UInt | Int => {| fs_ibuf := overwrite (map signed32 ws) (fs_ibuf st); fs_tbuf := fs_tbuf st; fs_points := v |}
           | _ => st'
           end
    else st in
  if nat_eqb_opt tp k then
    if (8 <? v)%Z then st1
    else match lt with
         | Float => {| fs_ibuf := fs_ibuf st1; fs_tbuf := overwrite (map cvF ws) (fs_tbuf st1); fs_points := fs_points st1 |}
         | Double => {| fs_ibuf := fs_ibuf st1; fs_tbuf := overwrite ws (fs_tbuf st1); fs_points := fs_points st1 |}
         | _ => st1
         end
  else st1.
Fixpoint face_fold (rs : list (sty * sty)) (f : list (list N)) (k ip : nat) (tp : option nat) (st : fstate) : fstate :=
  match rs, f with
  | (_, lt) :: rs', ws :: f' => face_fold rs' f' (S k) ip tp (face_step k ip tp lt ws st)
  | _, _ => st
  end.

(* ---------- recognised groups ---------- *)
(* the declared type of the first property, in header order, that is a member of the group *)
Fixpoint first_ty (ms : list string) (ps : vprops) : option sty :=
  match ps with [] => None | (t, n) :: r => if existsb (seqb n) ms then Some t else first_ty ms r end.
(* the layout offset of member m if it is declared with type t *)
Definition member_off (bin : bool) (ps : vprops) (t : sty) (m : string) : option nat :=
  match offsets bin ps m with
  | Some (c, t') => if sty_eqb t t' then Some c else None
  | None => None
  end.
(* the reader a vector group gets: built exactly when every member is declared with the type of the first declared
   member; offsets = the members' layout offsets *)
Definition vec_reader (bin : bool) (attr : string) (ms : list string) (ps : vprops) : option built :=
  match first_ty ms ps with
  | Some t => option_map (fun os => {| b_attr := attr; b_names := ms; b_offs := os; b_ty := t; b_v1 := false |})
                         (all_some (map (member_off bin ps t) ms))
  | None => None
  end.

(* ---------- unclaimed properties ---------- *)
(* the scalar reader of property n: attribute named n, one offset *)
Definition scalar_reader (bin : bool) (all : vprops) (n : string) : option built :=
  option_map (fun '(off, t) => {| b_attr := n; b_names := [n]; b_offs := [off]; b_ty := t; b_v1 := true |})
             (offsets bin all n).
(* one scalar reader per property of todo that none of the readers bs claims, in header order *)
Definition unclaimed_readers (bin : bool) (all : vprops) (bs : list built) (todo : vprops) : list built :=
  flat_map (fun p => if existsb (fun b => claims b (snd p)) bs then []
                     else match scalar_reader bin all (snd p) with Some x => [x] | None => [] end) todo.

(* the integer an ascii index token of item type lt denotes (int: signed, uint: unsigned) *)
Definition idx_ascii (lt : sty) (w : N) : Z := match lt with Int => signed32 w | _ => Z.of_N w end.

(* the value the specification assigns to member m of a group whose common type is t, for record vals *)
Definition member_value (ps : vprops) (vals : list N) (t : sty) (m : string) : result N :=
  match field_word ps vals m with Some (_, w) => mesh_value t w | None => Err ECrash end.

(* a face of a face element with texture coordinates: 3 or 4 corners and twice as many coordinates *)
Definition tex_face_ok (rs : list (sty * sty)) (ip tk : nat) (f : list (list N)) : Prop :=
  Forall2 list_ok rs f /\
  ((List.length (nth ip f []) = 3%nat /\ List.length (nth tk f []) = 6%nat) \/
   (List.length (nth ip f []) = 4%nat /\ List.length (nth tk f []) = 8%nat)).
