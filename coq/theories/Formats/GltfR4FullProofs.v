(* C06 proofs, round 4: assembly of the models half of the checker ([gltf_check_models]) and of the whole
   boolean statement [gltf_validb sc (document of run sc) = true] from the clause-by-clause theorems. *)
From PF Require Import Base.Bytes Base.BytesProofs Formats.Gltf Formats.GltfProofs Formats.GltfDedupProofs
  Formats.GltfNodeProofs Formats.GltfFinalProofs Formats.GltfGeomProofs Formats.GltfR4DedupProofs Formats.GltfR4NodeProofs
  Formats.GltfR4TexProofs Formats.GltfR4ExtraProofs Formats.GltfGlbProofs.
From Coq Require Import ZifyN ZifyNat ZifyBool.
Ltac Zify.zify_post_hook ::= Z.div_mod_to_equations.
From Coq Require String.
Import String.StringSyntax.
Open Scope list_scope.
Open Scope N_scope.

Lemma flat_map_nil {A B} (f : A -> list B) l : (forall x, In x l -> f x = []) -> flat_map f l = [].
Proof.
  induction l as [|x l IH]; intros H; cbn [flat_map]; [reflexivity|].
  rewrite (H x (or_introl eq_refl)), IH; [reflexivity|]. intros y Hy. apply H. right. exact Hy.
Qed.

(* glTF attribute names of every mesh of the scene are distinct (the writer's map insert replaces otherwise) *)
Definition scene_names_ok (sc : scene) : Prop := forall mo, In mo (sc_models sc) -> names_ok (mo_mesh mo).

(* the node-by-node clauses: [model_node_check] is empty for every (live model, node) pair the checker zips *)
Lemma node_checks_run sc : scene_ok sc -> scene_ptr_ok sc -> scene_names_ok sc ->
  let s := to_summary (run sc) in
  (forall mo nd, In (mo, nd) (combine (filter live (sc_models sc)) (model_nodes sc)) -> node_mat_check s mo nd = []) ->
  flat_map (fun mn => model_node_check s (Some (buf (run sc))) (fst mn) (snd mn))
           (zip (filter live (sc_models sc)) (s_nodes s)) = [].
Proof.
  intros Hok Hp Hnames. cbv zeta. intros Hmat.
  destruct (model_nodes_spec sc Hp) as (En & Hn).
  rewrite zip_combine. unfold to_summary at 2. cbn [s_nodes]. rewrite En.
  rewrite combine_app_tail by (eapply Forall2_len; exact Hn).
  apply flat_map_nil. intros [mo nd] Hin. cbn [fst snd]. unfold model_node_check.
  rewrite (node_geom_check_run sc Hok Hp Hnames mo nd Hin), (Hmat mo nd Hin). reflexivity.
Qed.

(* the models half of the checker, given the four clauses that are proved in their own files
   (material-content, texture-pointer-stored-twice, dangling-index of texture slots, unreferenced-entry) *)
Theorem check_models_assemble sc : scene_ok sc -> scene_ptr_ok sc -> scene_names_ok sc -> scene_mat_ptr_ok sc ->
  let s := to_summary (run sc) in
  (forall mo nd, In (mo, nd) (combine (filter live (sc_models sc)) (model_nodes sc)) -> node_mat_check s mo nd = []) ->
  functional (all_tex_refs s (placements s sc)) = true ->
  forallb (fun m => forallb (fun sl => valid_idx (ti_index (fst (snd sl))) (s_texs s)) (gmt_texs m)) (s_mats s) = true ->
  nothing_extra s = true ->
  gltf_check_models sc (obs_text sc) = [].
Proof.
  intros Hok Hp Hnames Hmp. cbv zeta. intros Hmat Hfun Hslots Hextra.
  unfold gltf_check_models, obs_text. cbn [o_sum o_payload o_glb].
  destruct (prim_clauses_run sc Hok) as (C2 & C3). cbv zeta in C2, C3.
  pose proof (prims_ok_run sc Hp) as C1. pose proof (nodes_valid_run sc Hp) as C4. cbv zeta in C1, C4.
  pose proof (dedup_pairs_run sc Hp Hmp) as C6.
  pose proof (node_checks_run sc Hok Hp Hnames Hmat) as C5. cbv zeta in C5.
  rewrite C1, C2, C3, C4, C5, C6, Hfun, Hslots, Hextra. reflexivity.
Qed.

(* ------------------------------------------------------------------ the whole checker *)
(* What Go guarantees about a scene, beyond [scene_ok] (structure of a modeling.Mesh):
   pointer identity is consistent with values for meshes, materials and textures; material extension values
   in one equality class of Go's == are the same value; names that become JSON object keys are distinct within
   their object (glTF attribute names of a mesh, texture slot names of a material, extension ids of a material /
   of a texture). *)
Record scene_wf (sc : scene) : Prop := {
  wf_ok : scene_ok sc;
  wf_ptr : scene_ptr_ok sc;
  wf_names : scene_names_ok sc;
  wf_mat_ptr : scene_mat_ptr_ok sc;
  wf_tex_ptr : scene_tex_ptr_ok sc;
  wf_ext_cls : scene_ext_cls_ok sc;
  wf_slots : scene_mat_ok sc;
  wf_ext_ids : scene_ext_ids_ok sc }.

Theorem check_models_run sc : scene_wf sc -> gltf_check_models sc (obs_text sc) = [].
Proof.
  intros [Hok Hp Hn Hmp Htp Hec Hsl Hid].
  apply check_models_assemble; try assumption.
  - apply node_mat_check_run; assumption.
  - apply tex_refs_functional_run; assumption.
  - apply mat_slots_valid_run.
  - apply nothing_extra_run, Hn.
Qed.

(* THE PROPERTY SENTENCE in the checker's own boolean form: the document of the model (text container:
   summary, payload, declared length) passes every clause of [gltf_check] against the scene it was written from *)
Theorem gltf_valid_model_run sc : scene_wf sc -> gltf_validb sc (obs_text sc) = true.
Proof.
  intros H. unfold gltf_validb, gltf_check.
  rewrite (check_struct_run sc (wf_ok sc H) (wf_ptr sc H)), (check_models_run sc H). reflexivity.
Qed.

(* the GLB container clauses ([glb_check]: header, total length, chunk lengths, trailing bytes, chunk table
   vs buffers, padding) on what the model predicts the independent reader reports ([glb_info_of]), for every
   JSON length and every buffer length *)
Theorem glb_check_model jl n : glb_check (glb_info_of jl n) (if 0 <? n then [n] else []) = [].
Proof.
  unfold glb_check, glb_info_of. cbn [g_magic g_version g_total g_actual g_chunks g_json_len g_pad_ok].
  pose proof (pad4_aligned jl) as A1. pose proof (pad4_aligned n) as A2.
  pose proof (pad4_lt jl) as L1. pose proof (pad4_lt n) as L2.
  rewrite !N.eqb_refl. cbn [andb key_if app].
  destruct (n + pad4 n =? 0) eqn:Eb.
  - assert (n = 0) by lia. unfold glb_total. rewrite Eb. subst n. replace (0 <? 0) with false by reflexivity.
    cbn [forallb fold_right app].
    repeat (apply app_nil2; [apply key_if_true|]); try apply key_if_true; try reflexivity. all: try lia.
  - assert (0 < n) by lia. replace (0 <? n) with true by lia.
    cbn [forallb fold_right app]. unfold glb_total. rewrite Eb.
    repeat (apply app_nil2; [apply key_if_true|]); try apply key_if_true; try reflexivity. all: try lia.
Qed.

(* non-vacuity: the witness scene of the texture-extension finding (two models, two materials that differ in a
   texture's extension list, one shared mesh) satisfies every hypothesis *)
Example tex_ext_scene_wf : scene_wf tex_ext_scene.
Proof.
  destruct tex_ext_scene_hyps as (H1 & H2 & H3 & H4 & H5).
  destruct material_content_refuted_witness as (_ & _ & _ & Hok & _).
  constructor; try assumption.
  - intros mo Hin. cbn [sc_models tex_ext_scene In] in Hin.
    destruct Hin as [<-|[<-|[]]]; unfold names_ok; cbn; repeat constructor; cbn; intuition discriminate.
  - apply tex_ext_scene_mat_ptr_ok.
Qed.
