(* C06 proofs, round 4: assembly of the models half of the checker ([gltf_check_models]) and of the whole
   boolean statement [gltf_validb sc (document of run sc) = true] from the clause-by-clause theorems. *)
From PF Require Import Base.Bytes Base.BytesProofs Formats.Gltf Formats.GltfProofs Formats.GltfDedupProofs
  Formats.GltfNodeProofs Formats.GltfFinalProofs Formats.GltfGeomProofs Formats.GltfR4DedupProofs Formats.GltfR4NodeProofs.
From Coq Require String.
Import String.StringSyntax.
Open Scope list_scope.
Open Scope N_scope.

Lemma flat_map_nil {A B} (f : A -> list B) l : (forall x, In x l -> f x = []) -> flat_map f l = [].
Proof.
  induction l as [|x l IH]; intros H; cbn [flat_map]; [reflexivity|].
  rewrite (H x (or_introl eq_refl)), IH; [reflexivity|]. intros y Hy. apply H. right. exact Hy.
Qed.

(* glTF attribute names of every mesh of the scene are distinct (the writer's map insert replaces otherwise) *)
Definition scene_names_ok (sc : scene) : Prop := forall mo, In mo (sc_models sc) -> names_ok (mo_mesh mo).

(* the node-by-node clauses: [model_node_check] is empty for every (live model, node) pair the checker zips *)
Lemma node_checks_run sc : scene_ok sc -> scene_ptr_ok sc -> scene_names_ok sc ->
  let s := to_summary (run sc) in
  (forall mo nd, In (mo, nd) (combine (filter live (sc_models sc)) (model_nodes sc)) -> node_mat_check s mo nd = []) ->
  flat_map (fun mn => model_node_check s (Some (buf (run sc))) (fst mn) (snd mn))
           (zip (filter live (sc_models sc)) (s_nodes s)) = [].
Proof.
  intros Hok Hp Hnames. cbv zeta. intros Hmat.
  destruct (model_nodes_spec sc Hp) as (En & Hn).
  rewrite zip_combine. unfold to_summary at 2. cbn [s_nodes]. rewrite En.
  rewrite combine_app_tail by (eapply Forall2_len; exact Hn).
  apply flat_map_nil. intros [mo nd] Hin. cbn [fst snd]. unfold model_node_check.
  rewrite (node_geom_check_run sc Hok Hp Hnames mo nd Hin), (Hmat mo nd Hin). reflexivity.
Qed.

(* the models half of the checker, given the four clauses that are proved in their own files
   (material-content, texture-pointer-stored-twice, dangling-index of texture slots, unreferenced-entry) *)
Theorem check_models_assemble sc : scene_ok sc -> scene_ptr_ok sc -> scene_names_ok sc -> scene_mat_ptr_ok sc ->
  let s := to_summary (run sc) in
  (forall mo nd, In (mo, nd) (combine (filter live (sc_models sc)) (model_nodes sc)) -> node_mat_check s mo nd = []) ->
  functional (all_tex_refs s (placements s sc)) = true ->
  forallb (fun m => forallb (fun sl => valid_idx (ti_index (fst (snd sl))) (s_texs s)) (gmt_texs m)) (s_mats s) = true ->
  nothing_extra s = true ->
  gltf_check_models sc (obs_text sc) = [].
Proof.
  intros Hok Hp Hnames Hmp. cbv zeta. intros Hmat Hfun Hslots Hextra.
  unfold gltf_check_models, obs_text. cbn [o_sum o_payload o_glb].
  destruct (prim_clauses_run sc Hok) as (C2 & C3). cbv zeta in C2, C3.
  pose proof (prims_ok_run sc Hp) as C1. pose proof (nodes_valid_run sc Hp) as C4. cbv zeta in C1, C4.
  pose proof (dedup_pairs_run sc Hp Hmp) as C6.
  pose proof (node_checks_run sc Hok Hp Hnames Hmat) as C5. cbv zeta in C5.
  rewrite C1, C2, C3, C4, C5, C6, Hfun, Hslots, Hextra. reflexivity.
Qed.
