(* C14, cost: instrumented step / allocation counters for the decoders, all bounded by the input PRESENT for ANY
   announced count -- except the faithful allocation model of ply.ReadMesh, for which the bound is refuted
   (known finding c14:alloc-by-declared-count).  A counter is the recursion skeleton of the model function it
   instruments, returning the number of record reads (steps) or of allocated elements (alloc) instead of the data. *)
From PF Require Import Base.Bytes Base.BytesProofs.
From PF Require Formats.Splat Formats.Spz Formats.Stl Formats.StlProofs Formats.Pts.
From PF Require Import Formats.PlyRead Formats.PrefixProofs.
From Coq Require Import ZifyN ZifyNat ZifyBool.
Open Scope list_scope.
Ltac Zify.zify_post_hook ::= Z.div_mod_to_equations.

(* ================================================================== STL, chunked reader (stl.Read since 6d82ee8) *)
Section StlChunks.
Import Stl.
Open Scope N_scope.
(* records allocated: every iteration allocates min(remaining, k) records, then reads them *)
Fixpoint read_chunks_alloc (fuel : nat) (k remaining : N) (l : list N) : N :=
  if remaining =? 0 then 0 else
  match fuel with
  | O => 0
  | S f =>
      let c := N.min remaining k in
      match read_tris_rest (length l) c l with
      | None => c
      | Some (_, r) => c + read_chunks_alloc f k (remaining - c) r
      end
  end.

(* the counter follows [read_chunks]: a successful read allocated exactly the records it returns *)
Lemma read_chunks_alloc_ok fuel : forall k rem l ts r,
  read_chunks fuel k rem l = Some (ts, r) -> read_chunks_alloc fuel k rem l = N.of_nat (length ts).
Proof.
  induction fuel as [|f IH]; intros k rem l ts r; cbn [read_chunks read_chunks_alloc]; destruct (rem =? 0) eqn:E0.
  - intros H. assert (ts = []) as -> by congruence. reflexivity.
  - discriminate.
  - intros H. assert (ts = []) as -> by congruence. reflexivity.
  - cbv zeta. destruct (read_tris_rest (length l) (N.min rem k) l) as [[buf r1]|] eqn:E1; cbn [bind]; [|discriminate].
    destruct (read_chunks f k (rem - N.min rem k) r1) as [[ts' r']|] eqn:E2; cbn [bind]; [|discriminate].
    intros H. assert (ts = buf ++ ts') as -> by congruence.
    rewrite (IH _ _ _ _ _ E2). apply StlProofs.read_tris_rest_length in E1. rewrite app_length. lia.
Qed.

(* for ANY announced count: the records allocated are bounded by the records present plus one chunk *)
Theorem stl_chunked_alloc_cost fuel : forall k rem l,
  50 * read_chunks_alloc fuel k rem l <= N.of_nat (length l) + 50 * k.
Proof.
  induction fuel as [|f IH]; intros k rem l; cbn [read_chunks_alloc]; destruct (rem =? 0); try lia.
  cbv zeta. destruct (read_tris_rest (length l) (N.min rem k) l) as [[buf r1]|] eqn:E1; [|lia].
  apply StlProofs.read_tris_rest_length in E1. specialize (IH k (rem - N.min rem k) r1). lia.
Qed.
End StlChunks.

(* ================================================================== PTS *)
Section PtsCost.
Import Pts.
(* iterations of the line loop of pts.ReadPointCloud ([for scanner.Scan() && curLine < parsedCount]): [n] points still
   expected, [w] the field count of the first line; the loop ends at the first bad line *)
Fixpoint pts_scan (n : nat) (ls : list line) (w : option nat) : nat :=
  match n, ls with
  | O, _ => 0
  | _, [] => 0
  | S n', l :: r =>
      let w' := match w with Some x => x | None => length l end in
      if line_okb w' l then S (pts_scan n' r (Some w')) else 1
  end.
Definition pts_steps (count : option Z) (ls : list line) : nat :=
  match count with
  | None => 0
  | Some c => if (c <? 0)%Z then 0 else pts_scan (Z.to_nat c) ls None
  end.
(* elements appended to the three arrays (after 6d82ee8: one append per array and line read), plus the capacity hint *)
Definition pts_alloc (count : option Z) (ls : list line) : nat := 3 * pts_steps count ls.
Definition pts_cap_hint : nat := 3 * (256 * 256).     (* min(count, 1 << 16) per array *)
(* before 6d82ee8: make([]T, parsedCount) three times *)
Definition pts_alloc_pinned (count : option Z) (ls : list line) : nat :=
  match count with Some c => 3 * Z.to_nat c | None => 0 end.

Lemma pts_scan_le n : forall ls w, (pts_scan n ls w <= length ls)%nat.
Proof.
  induction n as [|n IH]; intros ls w; [simpl; lia|].
  destruct ls as [|l r]; cbn [pts_scan]; [lia|]. cbv zeta.
  destruct (line_okb _ l); [|simpl; lia]. specialize (IH r (Some match w with Some x => x | None => length l end)). simpl length. lia.
Qed.

(* for ANY announced count: loop iterations and appended elements are bounded by the lines present *)
Theorem pts_cost count ls : (pts_steps count ls <= length ls)%nat /\ (pts_alloc count ls <= 3 * length ls)%nat.
Proof.
  assert (H : (pts_steps count ls <= length ls)%nat).
  { unfold pts_steps. destruct count as [c|]; [|lia]. destruct (c <? 0)%Z; [lia|]. apply pts_scan_le. }
  split; [exact H|unfold pts_alloc; lia].
Qed.

(* the counter follows [pts_read]: an accepted file took exactly one iteration per point *)
Lemma forallb_scan w : forall n used rest, forallb (line_okb w) used = true -> length used = n ->
  pts_scan n (used ++ rest) (Some w) = n.
Proof.
  induction n as [|n IH]; intros used rest Hf Hl; [reflexivity|].
  destruct used as [|l used]; [discriminate|]. cbn [forallb] in Hf. apply andb_prop in Hf. destruct Hf as [Hl0 Hf].
  cbn [app pts_scan]. cbv zeta. rewrite Hl0. f_equal. apply IH; [assumption|simpl in Hl; lia].
Qed.
Theorem pts_steps_ok c ls r : pts_read c ls = Some r -> pts_steps c ls = p_n r.
Proof.
  unfold pts_read, pts_steps. destruct c as [c|]; [|discriminate]. destruct (c <? 0)%Z; [discriminate|]. cbv zeta.
  destruct (length ls <? Z.to_nat c)%nat eqn:El; [discriminate|].
  destruct (firstn (Z.to_nat c) ls) as [|l0 used] eqn:Eu.
  - intros H. apply some_inj in H. subst r. cbn [p_n].
    destruct (Z.to_nat c) as [|n]; [reflexivity|]. destruct ls; [simpl in El; lia|discriminate].
  - destruct (forallb (line_okb (length l0)) (l0 :: used)) eqn:Ef; [|discriminate].
    intros H. apply some_inj in H. subst r. cbn [p_n].
    rewrite <- (firstn_skipn (Z.to_nat c) ls), Eu.
    assert (Hn : length (l0 :: used) = Z.to_nat c) by (rewrite <- Eu, firstn_length; lia).
    destruct (Z.to_nat c) as [|n] eqn:En; [discriminate|].
    cbn [app pts_scan]. cbv zeta. cbn [forallb] in Ef. apply andb_prop in Ef. destruct Ef as [E0 Ef]. rewrite E0.
    f_equal. apply forallb_scan; [assumption|simpl in Hn; lia].
Qed.

(* the allocation discipline before 6d82ee8 is NOT bounded by the input: no c, c0 work for every announced count *)
Theorem pts_alloc_pinned_refuted : forall c c0 : nat, exists count ls,
  (pts_alloc_pinned count ls > c * length ls + c0)%nat.
Proof.
  intros c c0. exists (Some (Z.of_nat (S c0))), []. unfold pts_alloc_pinned. rewrite Nat2Z.id. simpl length. lia.
Qed.
End PtsCost.

(* ================================================================== PLY, binary body *)
Section PlyBinCost.
(* record reads of the vertex loop ([for i < Count { io.ReadFull(reader, vertexBuf) ... }]) *)
Fixpoint rvb_steps (e : endian) (bs : list built) (size n : nat) (bytes : list N) : nat :=
  match n with
  | O => 0
  | S n' =>
      match take size bytes with
      | None => 1
      | Some (buf, rest) =>
          match mapR (fun b => read_bin_row e b buf) bs with
          | Err _ => 1
          | Ok _ => S (rvb_steps e bs size n' rest)
          end
      end
  end.

Theorem ply_bin_vertex_steps e bs size n : forall bytes,
  (size * rvb_steps e bs size n bytes <= length bytes + size)%nat.
Proof.
  induction n as [|n IH]; intros bytes; cbn [rvb_steps]; [lia|].
  destruct (take size bytes) as [[buf rest]|] eqn:E; [|lia].
  destruct (mapR _ bs); [|lia]. apply take_spec in E. destruct E as [-> E]. rewrite app_length.
  specialize (IH rest). lia.
Qed.
Lemma rvb_steps_ok e bs size n : forall bytes rows rest,
  read_vertices_bin e bs size n bytes = Ok (rows, rest) -> rvb_steps e bs size n bytes = n.
Proof.
  induction n as [|n IH]; intros bytes rows rest H; [reflexivity|].
  cbn [read_vertices_bin rvb_steps] in *. destruct (take size bytes) as [[buf r1]|]; cbn [of_opt rbind] in H; [|discriminate].
  destruct (mapR _ bs) as [row|]; cbn [rbind] in H; [|discriminate].
  destruct (read_vertices_bin e bs size n r1) as [[rows' r2]|] eqn:E2; cbn [rbind] in H; [|discriminate].
  f_equal. apply (IH _ _ _ E2).
Qed.

(* face records read by readBinaryFaceElement *)
Fixpoint faces_bin_steps (e : endian) (rs : list (sty * sty)) (ip : nat) (tp : option nat)
         (bytes : list N) (n : nat) (st : fstate) : nat :=
  match n with
  | O => 0
  | S n' =>
      match face_bin e rs 0 ip tp bytes st with
      | Err _ => 1
      | Ok (st', rest) =>
          match face_out (match tp with Some _ => true | None => false end) st' with
          | Err _ => 1
          | Ok _ => S (faces_bin_steps e rs ip tp rest n' st')
          end
      end
  end.

Lemma read_count_consumes e ct bytes v r : read_count e ct bytes = Ok (v, r) -> (length r < length bytes)%nat.
Proof.
  unfold read_count. destruct ct; try discriminate;
    (destruct (take _ bytes) as [[a r']|] eqn:E; cbn [of_opt rbind]; [|discriminate];
     destruct (dec_word e _ a); cbn [of_opt rbind]; [|discriminate];
     intros H; assert (r' = r) as -> by congruence;
     apply take_spec in E; destruct E as [-> E]; rewrite app_length; lia).
Qed.
Lemma face_bin_rest_le e rs k ip tp bytes st st' rest :
  face_bin e rs k ip tp bytes st = Ok (st', rest) -> (length rest <= length bytes)%nat.
Proof.
  intros H. destruct (sp_face_bin e rs k ip tp st bytes st' rest H) as (c & Hc & -> & _).
  rewrite skipn_length. lia.
Qed.
(* a face with at least one list property consumes at least its first count byte *)
Lemma face_bin_consumes e rs k ip tp bytes st st' rest : rs <> [] ->
  face_bin e rs k ip tp bytes st = Ok (st', rest) -> (length rest < length bytes)%nat.
Proof.
  destruct rs as [|[ct lt] rs]; [congruence|]. intros _. cbn [face_bin].
  destruct (read_count e ct bytes) as [[v r]|] eqn:Ec; cbn [rbind]; [|discriminate].
  apply read_count_consumes in Ec. destruct (v <? 0)%Z; [discriminate|].
  destruct (take _ r) as [[payload r']|] eqn:Et; cbn [of_opt rbind]; [|discriminate].
  apply take_spec in Et. destruct Et as [-> Et]. rewrite app_length in Ec.
  destruct (if (k =? ip)%nat then _ else Ok st) as [st1|]; cbn [rbind]; [|discriminate].
  destruct (if nat_eqb_opt tp k then _ else Ok st1) as [st2|]; cbn [rbind]; [|discriminate].
  intros H. apply face_bin_rest_le in H. lia.
Qed.
Theorem ply_bin_face_steps e rs ip tp n : rs <> [] -> forall bytes st,
  (faces_bin_steps e rs ip tp bytes n st <= length bytes + 1)%nat.
Proof.
  intros Hrs. induction n as [|n IH]; intros bytes st; cbn [faces_bin_steps]; [lia|].
  destruct (face_bin e rs 0 ip tp bytes st) as [[st' rest]|] eqn:E; [|lia].
  destruct (face_out _ st'); [|lia]. apply face_bin_consumes in E; [|assumption]. specialize (IH rest st'). lia.
Qed.

(* ---- allocation ----
   Faithful model of ply.ReadMesh (reader.go:395-404, reader_vector1-4.go, the build functions): every built property reader does
   make([]T, element.Count) BEFORE the first record is read; the vertex loop then reads records until the input ends.
   Elements allocated = announced count x number of readers. *)
Definition ply_bin_alloc_faithful (bs : list built) (n : nat) (bytes : list N) : nat := n * length bs.
(* repaired discipline (what 6d82ee8 did for STL/PTS): the arrays grow with the records actually read *)
Definition ply_bin_alloc_repaired (e : endian) (bs : list built) (size n : nat) (bytes : list N) : nat :=
  length bs * rvb_steps e bs size n bytes.

Theorem ply_bin_alloc_repaired_cost e bs size n bytes :
  (size * ply_bin_alloc_repaired e bs size n bytes <= length bs * (length bytes + size))%nat.
Proof.
  unfold ply_bin_alloc_repaired. pose proof (ply_bin_vertex_steps e bs size n bytes). nia.
Qed.

(* known finding c14:alloc-by-declared-count: with at least one reader (every file with a vertex property has one)
   NO constants c, c0 bound the faithful allocation by the input present *)
Theorem ply_bin_alloc_faithful_refuted bs : bs <> [] -> forall c c0 : nat, exists n bytes,
  (ply_bin_alloc_faithful bs n bytes > c * length bytes + c0)%nat.
Proof.
  intros Hbs c c0. exists (S c0), []. unfold ply_bin_alloc_faithful. destruct bs; [congruence|]. simpl length. nia.
Qed.
End PlyBinCost.

(* ================================================================== PLY, ASCII body *)
Section PlyAsciiCost.
(* lines examined by the vertex loop (blank lines are read and skipped) *)
Fixpoint rva_steps (bs : list built) (np : nat) (lines : list (list tok)) (n : nat) : nat :=
  match lines with
  | [] => 0
  | l :: ls =>
      match n with
      | O => 0
      | S n' =>
          match l with
          | [] => S (rva_steps bs np ls n)
          | _ => if (length l <? np)%nat then 1 else
                 match mapR (fun b => read_ascii_row b l) bs with
                 | Err _ => 1
                 | Ok _ => S (rva_steps bs np ls n')
                 end
          end
      end
  end.
(* vertex records stored (non-blank accepted lines) *)
Fixpoint rva_records (bs : list built) (np : nat) (lines : list (list tok)) (n : nat) : nat :=
  match lines with
  | [] => 0
  | l :: ls =>
      match n with
      | O => 0
      | S n' =>
          match l with
          | [] => rva_records bs np ls n
          | _ => if (length l <? np)%nat then 0 else
                 match mapR (fun b => read_ascii_row b l) bs with
                 | Err _ => 0
                 | Ok _ => S (rva_records bs np ls n')
                 end
          end
      end
  end.
Theorem ply_ascii_vertex_steps bs np : forall lines n,
  (rva_records bs np lines n <= rva_steps bs np lines n <= length lines)%nat.
Proof.
  induction lines as [|l ls IH]; intros n; cbn [rva_steps rva_records]; [simpl; lia|].
  destruct n as [|n]; [simpl; lia|]. destruct l as [|t ts]; [specialize (IH (S n)); simpl length; lia|].
  destruct (length (t :: ts) <? np)%nat; [simpl length; lia|].
  destruct (mapR _ bs); [specialize (IH n); simpl length; lia|simpl length; lia].
Qed.
Lemma rva_records_ok bs np : forall lines n rows rest,
  read_vertices_ascii bs np lines n = Ok (rows, rest) -> rva_records bs np lines n = n /\ length rows = n.
Proof.
  induction lines as [|l ls IH]; intros n rows rest H.
  - destruct n; cbn [read_vertices_ascii] in H; [|discriminate]. assert (rows = []) as -> by congruence. split; reflexivity.
  - destruct n as [|n]; cbn [read_vertices_ascii rva_records] in *.
    + assert (rows = []) as -> by congruence. split; reflexivity.
    + destruct l as [|t ts]; [apply (IH _ _ _ H)|].
      destruct (length (t :: ts) <? np)%nat; [discriminate|].
      destruct (mapR _ bs) as [row|]; cbn [rbind] in H; [|discriminate].
      destruct (read_vertices_ascii bs np ls n) as [[rows' r2]|] eqn:E2; cbn [rbind] in H; [|discriminate].
      assert (rows = row :: rows') as -> by congruence. destruct (IH _ _ _ E2) as [-> Hr]. simpl length. lia.
Qed.

Fixpoint faces_ascii_steps (rs : list (sty * sty)) (ip : nat) (tp : option nat)
         (lines : list (list tok)) (n : nat) (st : fstate) : nat :=
  match lines with
  | [] => 0
  | l :: ls =>
      match n with
      | O => 0
      | S n' =>
          match l with
          | [] => S (faces_ascii_steps rs ip tp ls n st)
          | _ => match face_ascii rs 0 ip tp l st with
                 | Err _ => 1
                 | Ok st' =>
                     match face_out (match tp with Some _ => true | None => false end) st' with
                     | Err _ => 1
                     | Ok _ => S (faces_ascii_steps rs ip tp ls n' st')
                     end
                 end
          end
      end
  end.
Theorem ply_ascii_face_steps rs ip tp : forall lines n st, (faces_ascii_steps rs ip tp lines n st <= length lines)%nat.
Proof.
  induction lines as [|l ls IH]; intros n st; cbn [faces_ascii_steps]; [simpl; lia|].
  destruct n as [|n]; [simpl; lia|]. destruct l as [|t ts]; [specialize (IH (S n) st); simpl length; lia|].
  destruct (face_ascii rs 0 ip tp (t :: ts) st) as [st'|]; [|simpl length; lia].
  destruct (face_out _ st'); [specialize (IH n st'); simpl length; lia|simpl length; lia].
Qed.

(* allocation: faithful (make([]T, element.Count) per built reader before the first line is scanned) vs repaired *)
Definition ply_ascii_alloc_faithful (bs : list built) (n : nat) (lines : list (list tok)) : nat := n * length bs.
Definition ply_ascii_alloc_repaired (bs : list built) (np : nat) (lines : list (list tok)) (n : nat) : nat :=
  length bs * rva_records bs np lines n.
Theorem ply_ascii_alloc_repaired_cost bs np lines n :
  (ply_ascii_alloc_repaired bs np lines n <= length bs * length lines)%nat.
Proof. unfold ply_ascii_alloc_repaired. pose proof (ply_ascii_vertex_steps bs np lines n). nia. Qed.
Theorem ply_ascii_alloc_faithful_refuted bs : bs <> [] -> forall c c0 : nat, exists n lines,
  (ply_ascii_alloc_faithful bs n lines > c * length lines + c0)%nat.
Proof.
  intros Hbs c c0. exists (S c0), []. unfold ply_ascii_alloc_faithful. destruct bs; [congruence|]. simpl length. nia.
Qed.
End PlyAsciiCost.

(* ================================================================== SPZ *)
Section SpzCost.
Import Spz.
Open Scope N_scope.
(* header.go readPositions .. readSh: each array is allocated at its announced size, then filled with io.ReadFull /
   binary.Read; a short stream ends the decode at that array.  [avail] = decompressed bytes after the header. *)
Fixpoint seq_alloc (sizes : list N) (avail : N) : N :=
  match sizes with
  | [] => 0
  | s :: ss => s + (if avail <? s then 0 else seq_alloc ss (avail - s))
  end.
Definition spz_sizes (h : header) : list N :=
  let n := h_npoints h in
  [n * N.of_nat (pos_size h); n; 3 * n; 3 * n; 3 * n; 3 * N.of_nat (sh_dim (h_shdeg h)) * n].
Definition spz_alloc (l : list N) : N :=
  match get_header l with
  | None => 0
  | Some (h, r) => if negb (validate h) then 0 else seq_alloc (spz_sizes h) (N.of_nat (length r))
  end.
Definition spz_max_array : N := 450000000.      (* 45 bytes of SH data x the reader's own limit of 10^7 points *)

Lemma seq_alloc_le M sizes : Forall (fun s => s <= M) sizes -> forall avail, seq_alloc sizes avail <= avail + M.
Proof.
  induction 1 as [|s ss Hs Hss IH]; intros avail; cbn [seq_alloc]; [lia|].
  destruct (avail <? s) eqn:E; [lia|]. specialize (IH (avail - s)). lia.
Qed.
Lemma spz_sizes_total h : fold_right N.add 0 (spz_sizes h) = total_size h.
Proof. unfold spz_sizes, total_size. cbn [fold_right]. lia. Qed.
Lemma spz_sizes_bounded h : validate h = true -> Forall (fun s => s <= spz_max_array) (spz_sizes h).
Proof.
  unfold validate, spz_max_array, spz_sizes. intros H.
  assert (Hn : h_npoints h <= 10000000) by lia.
  assert (Hp : N.of_nat (pos_size h) <= 9) by (unfold pos_size; destruct (float16_positions h); lia).
  assert (Hd : N.of_nat (sh_dim (h_shdeg h)) <= 15).
  { unfold sh_dim. destruct (h_shdeg h) as [|[[p|p|]|[p|p|]|]]; simpl; lia. }
  repeat constructor; nia.
Qed.

(* for ANY announced point count: bytes allocated <= bytes present + one array of the reader's own maximum *)
Theorem spz_alloc_cost l : spz_alloc l <= N.of_nat (length l) + spz_max_array.
Proof.
  unfold spz_alloc. destruct (get_header l) as [[h r]|] eqn:E; [|lia].
  destruct (validate h) eqn:Ev; cbn [negb]; [|lia].
  apply get_header_length in E. pose proof (seq_alloc_le _ _ (spz_sizes_bounded h Ev) (N.of_nat (length r))). lia.
Qed.
End SpzCost.
