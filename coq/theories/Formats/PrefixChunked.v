(* C14: reader independence.  A decoder only ever asks its io.Reader for "exactly n bytes or fail" (io.ReadFull,
   binary.Read); how the reader delivers the bytes -- all at once (bytes.Reader), one byte at a time, in halves, with
   the error attached to the last data -- is a CHUNKING of the same byte sequence.  Decoders are written here as
   programs over the two read primitives ([prog], a free monad); [run] interprets a program on a byte list (what the
   models of PlyRead / Stl / Splat do), [run_chunked] on an arbitrary list of chunks.
   [run_chunked_eq_run]: the result depends only on the concatenation.  The PLY binary readers, stl.Read and splat.Read
   are shown to be [run] of such programs. *)
From PF Require Import Base.Bytes Base.BytesProofs.
From PF Require Formats.Stl Formats.Splat.
From PF Require Import Formats.PlyRead Formats.PrefixProofs.
From Coq Require Import ZifyN ZifyNat ZifyBool.
Open Scope list_scope.

Section Prog.
Context {T : Type}.

Inductive prog (A : Type) :=
| Ret (a : A)
| Fail (e : err)
| Take (n : nat) (k : list T -> prog A)                    (* io.ReadFull of n elements; short input: EEof *)
| TakeOrEof (n : nat) (keof kshort : prog A) (k : list T -> prog A).
    (* the same with the two failures told apart, as io.ReadFull does: nothing left at all (io.EOF): [keof];
       some but fewer than n elements (io.ErrUnexpectedEOF, the input is consumed): [kshort] *)
Arguments Ret {A} a.
Arguments Fail {A} e.
Arguments Take {A} n k.
Arguments TakeOrEof {A} n keof kshort k.

Fixpoint run {A} (p : prog A) (l : list T) : result (A * list T) :=
  match p with
  | Ret a => Ok (a, l)
  | Fail e => Err e
  | Take n k => match take n l with None => Err EEof | Some (x, r) => run (k x) r end
  | TakeOrEof n keof kshort k =>
      match take n l with
      | Some (x, r) => run (k x) r
      | None => match l with [] => run keof [] | _ => run kshort [] end
      end
  end.

(* io.ReadFull over a reader that delivers the chunks [cs] one Read call at a time (empty chunks allowed) *)
Fixpoint take_chunked (cs : list (list T)) (n : nat) : option (list T * list (list T)) :=
  match cs with
  | [] => match n with O => Some ([], []) | S _ => None end
  | c :: cs' =>
      if (n <=? length c)%nat then Some (firstn n c, skipn n c :: cs')
      else match take_chunked cs' (n - length c) with
           | Some (x, r) => Some (c ++ x, r)
           | None => None
           end
  end.

Fixpoint run_chunked {A} (p : prog A) (cs : list (list T)) : result (A * list (list T)) :=
  match p with
  | Ret a => Ok (a, cs)
  | Fail e => Err e
  | Take n k => match take_chunked cs n with None => Err EEof | Some (x, r) => run_chunked (k x) r end
  | TakeOrEof n keof kshort k =>
      match take_chunked cs n with
      | Some (x, r) => run_chunked (k x) r
      | None => match concat cs with [] => run_chunked keof [] | _ => run_chunked kshort [] end
      end
  end.

Definition flat {A} (r : result (A * list (list T))) : result (A * list T) :=
  match r with Ok (a, cs) => Ok (a, concat cs) | Err e => Err e end.

Lemma take_app_short (c R : list T) n : (n <= length c)%nat -> take n (c ++ R) = Some (firstn n c, skipn n c ++ R).
Proof.
  intros H. rewrite take_firstn by (rewrite app_length; lia).
  rewrite firstn_app_lt by assumption. rewrite skipn_app. replace (n - length c)%nat with 0%nat by lia. reflexivity.
Qed.
Lemma take_app_long (c : list T) : forall R n, (length c <= n)%nat ->
  take n (c ++ R) = match take (n - length c) R with Some (x, r) => Some (c ++ x, r) | None => None end.
Proof.
  induction c as [|y c IH]; intros R n H.
  - cbn [app length]. rewrite Nat.sub_0_r. destruct (take n R) as [[x r]|]; reflexivity.
  - destruct n as [|n]; [simpl in H; lia|]. cbn [app take length Nat.sub]. rewrite IH by (simpl in H; lia).
    destruct (take (n - length c) R) as [[x r]|]; reflexivity.
Qed.

Lemma take_chunked_spec : forall cs n,
  match take_chunked cs n with Some (x, r) => Some (x, concat r) | None => None end = take n (concat cs).
Proof.
  induction cs as [|c cs IH]; intros n.
  - destruct n; reflexivity.
  - cbn [take_chunked concat]. destruct (n <=? length c)%nat eqn:E.
    + cbn [concat]. rewrite take_app_short by lia. reflexivity.
    + rewrite take_app_long by lia. rewrite <- IH. destruct (take_chunked cs (n - length c)) as [[x r]|]; reflexivity.
Qed.

(* the result of a decoder program depends only on the byte sequence, not on how the reader chunks it *)
Theorem run_chunked_eq_run {A} (p : prog A) : forall cs, flat (run_chunked p cs) = run p (concat cs).
Proof.
  induction p as [a|e|n k IH|n keof IHe kshort IHs k IH]; intros cs; cbn [run run_chunked flat].
  - reflexivity.
  - reflexivity.
  - rewrite <- take_chunked_spec. destruct (take_chunked cs n) as [[x r]|]; [apply IH|reflexivity].
  - rewrite <- take_chunked_spec. destruct (take_chunked cs n) as [[x r]|]; [apply IH|].
    destruct (concat cs); [apply (IHe [])|apply (IHs [])].
Qed.

(* two chunkings of the same bytes give the same value and the same unread bytes *)
Corollary run_chunked_independent {A} (p : prog A) cs cs' :
  concat cs = concat cs' -> flat (run_chunked p cs) = flat (run_chunked p cs').
Proof. intros H. rewrite !run_chunked_eq_run, H. reflexivity. Qed.

(* ---- monad structure ---- *)
Fixpoint bindp {A B} (p : prog A) (f : A -> prog B) : prog B :=
  match p with
  | Ret a => f a
  | Fail e => Fail e
  | Take n k => Take n (fun x => bindp (k x) f)
  | TakeOrEof n keof kshort k => TakeOrEof n (bindp keof f) (bindp kshort f) (fun x => bindp (k x) f)
  end.
Definition lift {A} (r : result A) : prog A := match r with Ok a => Ret a | Err e => Fail e end.

Lemma run_bind {A B} (p : prog A) (f : A -> prog B) : forall l,
  run (bindp p f) l = rbind (run p l) (fun x => run (f (fst x)) (snd x)).
Proof.
  induction p as [a|e|n k IH|n keof IHe kshort IHs k IH]; intros l; cbn [bindp run rbind fst snd]; try reflexivity.
  - destruct (take n l) as [[x r]|]; [apply IH|reflexivity].
  - destruct (take n l) as [[x r]|]; [apply IH|]. destruct l; [apply IHe|apply IHs].
Qed.
Lemma run_lift {A B} (x : result A) (f : A -> prog B) l :
  run (bindp (lift x) f) l = rbind x (fun a => run (f a) l).
Proof. destruct x; reflexivity. Qed.
End Prog.
Arguments Ret {T A} a.
Arguments Fail {T A} e.
Arguments Take {T A} n k.
Arguments TakeOrEof {T A} n keof kshort k.

(* ================================================================== the binary PLY readers as programs *)
Section PlyProgs.
Notation progN := (@prog N).

Fixpoint vertices_prog (e : endian) (bs : list built) (size n : nat) : progN (list (list (list N))) :=
  match n with
  | O => Ret []
  | S n' => Take size (fun buf =>
              bindp (lift (mapR (fun b => read_bin_row e b buf) bs)) (fun row =>
              bindp (vertices_prog e bs size n') (fun rows => Ret (row :: rows))))
  end.
Lemma run_vertices_prog e bs size n : forall l, run (vertices_prog e bs size n) l = read_vertices_bin e bs size n l.
Proof.
  induction n as [|n IH]; intros l; [reflexivity|]. cbn [vertices_prog run read_vertices_bin].
  destruct (take size l) as [[buf r]|]; cbn [of_opt rbind]; [|reflexivity].
  rewrite run_lift. destruct (mapR _ bs) as [row|]; cbn [rbind]; [|reflexivity].
  rewrite run_bind, IH. destruct (read_vertices_bin e bs size n r) as [[rows r']|]; reflexivity.
Qed.

Definition count_prog (e : endian) (ct : sty) : progN Z :=
  match ct with
  | UChar => Take 1 (fun a => bindp (lift (of_opt ECrash (dec_word e UChar a))) (fun w => Ret (Z.of_N w)))
  | UInt | Int => Take 4 (fun a => bindp (lift (of_opt ECrash (dec_word e Int a))) (fun w => Ret (signed32 w)))
  | _ => Fail EDeclared
  end.
Lemma run_count_prog e ct l : run (count_prog e ct) l = read_count e ct l.
Proof.
  destruct ct; cbn [count_prog run read_count]; try reflexivity;
    (destruct (take _ l) as [[a r]|]; cbn [of_opt rbind]; [|reflexivity];
     rewrite run_lift; destruct (dec_word e _ a); reflexivity).
Qed.

(* one face: the list properties in order (state threading as in [face_bin]) *)
Definition face_step (e : endian) (k ip : nat) (tp : option nat) (lt : sty) (v : Z) (payload : list N) (st : fstate)
  : result fstate :=
  dor st1 <- (if Nat.eqb k ip then
                let st' := {| fs_ibuf := fs_ibuf st; fs_tbuf := fs_tbuf st; fs_points := v |} in
                if (4 <? v)%Z then Ok st'
                else match lt with
                     | UInt | Int => dor ws <- words_of e lt payload;
                                     Ok {| fs_ibuf := overwrite (map signed32 ws) (fs_ibuf st); fs_tbuf := fs_tbuf st; fs_points := v |}
                     | _ => Ok st'
                     end
              else Ok st);
  (if nat_eqb_opt tp k then
     if (8 <? v)%Z then Ok st1
     else match lt with
          | Float => dor ws <- words_of e lt payload;
                     Ok {| fs_ibuf := fs_ibuf st1; fs_tbuf := overwrite (map cvF ws) (fs_tbuf st1); fs_points := fs_points st1 |}
          | Double => dor ws <- words_of e lt payload;
                      Ok {| fs_ibuf := fs_ibuf st1; fs_tbuf := overwrite ws (fs_tbuf st1); fs_points := fs_points st1 |}
          | _ => Ok st1
          end
   else Ok st1).

Fixpoint face_prog (e : endian) (rs : list (sty * sty)) (k ip : nat) (tp : option nat) (st : fstate) : progN fstate :=
  match rs with
  | [] => Ret st
  | (ct, lt) :: rs' =>
      bindp (count_prog e ct) (fun v =>
        if (v <? 0)%Z then Fail ECrash else
        Take (Z.to_nat v * sty_size lt) (fun payload =>
          bindp (lift (face_step e k ip tp lt v payload st)) (fun st2 => face_prog e rs' (S k) ip tp st2)))
  end.
Lemma run_face_prog e rs : forall k ip tp st l, run (face_prog e rs k ip tp st) l = face_bin e rs k ip tp l st.
Proof.
  induction rs as [|[ct lt] rs IH]; intros k ip tp st l; [reflexivity|].
  cbn [face_prog face_bin]. rewrite run_bind, run_count_prog.
  destruct (read_count e ct l) as [[v r]|]; cbn [rbind fst snd]; [|reflexivity].
  destruct (v <? 0)%Z; [reflexivity|]. cbn [run].
  destruct (take (Z.to_nat v * sty_size lt) r) as [[payload r']|]; cbn [of_opt rbind]; [|reflexivity].
  rewrite run_lift. unfold face_step.
  destruct (if Nat.eqb k ip then _ else Ok st) as [st1|]; cbn [rbind]; [|reflexivity].
  destruct (if nat_eqb_opt tp k then _ else Ok st1) as [st2|]; cbn [rbind]; [|reflexivity].
  apply IH.
Qed.

Fixpoint faces_prog (e : endian) (rs : list (sty * sty)) (ip : nat) (tp : option nat) (n : nat) (st : fstate)
  : progN (list Z * list (list N)) :=
  match n with
  | O => Ret ([], [])
  | S n' =>
      bindp (face_prog e rs 0 ip tp st) (fun st' =>
      bindp (lift (face_out (match tp with Some _ => true | None => false end) st')) (fun o =>
      bindp (faces_prog e rs ip tp n' st') (fun os => Ret (fst o ++ fst os, snd o ++ snd os))))
  end.
Lemma run_faces_prog e rs ip tp n : forall st l,
  rbind (run (faces_prog e rs ip tp n st) l) (fun x => Ok (fst x)) = faces_bin e rs ip tp l n st.
Proof.
  induction n as [|n IH]; intros st l; [reflexivity|].
  cbn [faces_prog faces_bin]. rewrite run_bind, run_face_prog.
  destruct (face_bin e rs 0 ip tp l st) as [[st' r]|]; cbn [rbind fst snd]; [|reflexivity].
  rewrite run_lift. destruct (face_out _ st') as [[ix uv]|]; cbn [rbind]; [|reflexivity].
  rewrite run_bind. rewrite <- (IH st' r).
  destruct (run (faces_prog e rs ip tp n st') r) as [[[ixs uvs] r']|]; reflexivity.
Qed.
End PlyProgs.

Section PlyBody.
Import String.
Notation progN := (@prog N).

(* the stream-independent tail of MeshReader.Read *)
Definition finish_mesh (bs : list built) (rows : list (list (list N))) (idx : list Z) (uvs : list (list N)) (tp : topo)
  : result mesh :=
  let attrs := update_mesh bs 0 rows [] in
  if negb (Nat.eqb (List.length uvs) 0) && Nat.eqb (List.length uvs) (List.length idx) then
    dor ua <- unweld_attrs attrs idx;
    Ok {| m_topo := tp; m_idx := iota (List.length idx); m_attrs := set_attr 2 "TexCoord" uvs ua |}
  else Ok {| m_topo := tp; m_idx := idx; m_attrs := attrs |}.

(* MeshReader.Read on a binary body, as a program over the read primitives *)
Definition body_prog (gs : list group) (u : bool) (h : header) : progN mesh :=
  bindp (lift (of_opt EDeclared (find_last_elem "vertex" (h_elems h) None))) (fun ve =>
    let fe := find_last_elem "face" (h_elems h) None in
    if negb (all_scalar (e_props ve)) then Fail EDeclared else
    if (e_count ve <? 0)%Z then Fail EUnsupported else
    let n := Z.to_nat (e_count ve) in
    let props := e_props ve in
    match h_fmt h with
    | ASCII => Fail EUnsupported
    | _ =>
        let e := match h_fmt h with BinBE => BEnd | _ => LEnd end in
        bindp (lift (build_readers true gs u props)) (fun bs =>
        bindp (vertices_prog e bs (record_size props) n) (fun rows =>
          match fe with
          | None => lift (finish_mesh bs rows (iota n) [] TPoint)
          | Some f =>
              bindp (lift (face_setup f)) (fun s =>
              bindp (faces_prog e (fst (fst s)) (snd (fst s)) (snd s) (Z.to_nat (e_count f)) fstate0) (fun o =>
                lift (finish_mesh bs rows (fst o) (snd o) TTriangle)))
          end))
    end).

Theorem run_body_prog gs u h l :
  rbind (run (body_prog gs u h) l) (fun x => Ok (fst x)) = read_body gs u h (BodyBin l).
Proof.
  unfold body_prog, read_body. rewrite run_lift.
  destruct (find_last_elem "vertex" (h_elems h) None) as [ve|]; cbn [of_opt rbind]; [|reflexivity]. cbv zeta.
  destruct (negb (all_scalar (e_props ve))); [reflexivity|].
  destruct (e_count ve <? 0)%Z; [reflexivity|].
  destruct (h_fmt h); cbv beta iota; [reflexivity| |].
  - rewrite run_lift. destruct (build_readers true gs u (e_props ve)) as [bs|]; cbn [rbind]; [|reflexivity].
    rewrite run_bind, run_vertices_prog.
    destruct (read_vertices_bin LEnd bs (record_size (e_props ve)) (Z.to_nat (e_count ve)) l) as [[rows r]|]; cbn [rbind fst snd]; [|reflexivity].
    destruct (find_last_elem "face" (h_elems h) None) as [f|].
    + rewrite run_lift. destruct (face_setup f) as [[[rs ip] tp]|]; cbn [rbind fst snd]; [|reflexivity].
      rewrite run_bind. rewrite <- (run_faces_prog LEnd rs ip tp (Z.to_nat (e_count f)) fstate0 r).
      destruct (run (faces_prog LEnd rs ip tp (Z.to_nat (e_count f)) fstate0) r) as [[[ix uv] r']|]; cbn [rbind fst snd]; [|reflexivity].
      unfold finish_mesh. destruct (negb _ && _); [|reflexivity]. destruct (unweld_attrs _ ix); reflexivity.
    + unfold finish_mesh. cbn [List.length Nat.eqb negb andb lift run rbind fst]. reflexivity.
  - rewrite run_lift. destruct (build_readers true gs u (e_props ve)) as [bs|]; cbn [rbind]; [|reflexivity].
    rewrite run_bind, run_vertices_prog.
    destruct (read_vertices_bin BEnd bs (record_size (e_props ve)) (Z.to_nat (e_count ve)) l) as [[rows r]|]; cbn [rbind fst snd]; [|reflexivity].
    destruct (find_last_elem "face" (h_elems h) None) as [f|].
    + rewrite run_lift. destruct (face_setup f) as [[[rs ip] tp]|]; cbn [rbind fst snd]; [|reflexivity].
      rewrite run_bind. rewrite <- (run_faces_prog BEnd rs ip tp (Z.to_nat (e_count f)) fstate0 r).
      destruct (run (faces_prog BEnd rs ip tp (Z.to_nat (e_count f)) fstate0) r) as [[[ix uv] r']|]; cbn [rbind fst snd]; [|reflexivity].
      unfold finish_mesh. destruct (negb _ && _); [|reflexivity]. destruct (unweld_attrs _ ix); reflexivity.
    + unfold finish_mesh. cbn [List.length Nat.eqb negb andb lift run rbind fst]. reflexivity.
Qed.

(* ply.ReadMesh's body reader fed by ANY chunking of the body bytes returns what the model returns on the
   concatenation: the mesh (or the error) depends only on the byte sequence, not on the kind of io.Reader *)
Definition read_body_chunked (gs : list group) (u : bool) (h : header) (cs : list (list N)) : result mesh :=
  rbind (run_chunked (body_prog gs u h) cs) (fun x => Ok (fst x)).
Theorem ply_bin_reader_independent gs u h cs :
  read_body_chunked gs u h cs = read_body gs u h (BodyBin (List.concat cs)).
Proof.
  unfold read_body_chunked. rewrite <- run_body_prog, <- run_chunked_eq_run.
  destruct (run_chunked (body_prog gs u h) cs) as [[m r]|]; reflexivity.
Qed.
End PlyBody.

(* ================================================================== splat.Read as a program *)
Section SplatProg.
Import Splat.
Notation progN := (@prog N).
(* the io.ReadFull loop: clean end -> no error; a partial record -> the splats so far AND an error (false) *)
Fixpoint splat_prog (fuel : nat) : progN (list raw * bool) :=
  match fuel with
  | O => TakeOrEof 1 (Ret ([], true)) (Ret ([], false)) (fun _ => Ret ([], false))
  | S f => TakeOrEof 32 (Ret ([], true)) (Ret ([], false)) (fun buf =>
             match get_raw buf with
             | None => Ret ([], false)
             | Some (r, _) => bindp (splat_prog f) (fun x => Ret (r :: fst x, snd x))
             end)
  end.

Lemma get_raw_buf (buf rest : list N) : length buf = 32%nat ->
  get_raw (buf ++ rest) = match get_raw buf with Some (r, _) => Some (r, rest) | None => None end.
Proof.
  intros H. do 32 (destruct buf as [|? buf]; [discriminate H|]). destruct buf; [|discriminate H]. reflexivity.
Qed.

Theorem run_splat_prog fuel : forall l,
  rbind (run (splat_prog fuel) l) (fun x => Ok (fst x)) = Ok (read_raw fuel l).
Proof.
  induction fuel as [|f IH]; intros l.
  - destruct l as [|y l]; reflexivity.
  - cbn [splat_prog run]. destruct (take 32 l) as [[buf r]|] eqn:E.
    + pose proof (take_spec _ _ _ _ E) as [-> Hlen]. destruct buf as [|b0 buf]; [discriminate Hlen|].
      cbn [app read_raw]. change (b0 :: buf ++ r) with ((b0 :: buf) ++ r). rewrite get_raw_buf by exact Hlen.
      destruct (get_raw (b0 :: buf)) as [[x x0]|]; [|reflexivity].
      rewrite run_bind. specialize (IH r).
      destruct (run (splat_prog f) r) as [[[rs ok] r']|]; cbn [rbind fst snd] in *; [|discriminate].
      apply (f_equal (fun o => match o with Ok v => v | Err _ => ([], false) end)) in IH. cbn in IH. rewrite <- IH. reflexivity.
    + apply take_none in E. destruct l as [|y l]; [reflexivity|].
      cbn [run rbind fst read_raw]. rewrite sget_raw_short by exact E. reflexivity.
Qed.

(* splat.Read fed by any chunking of the bytes: the same splats and the same error flag *)
Theorem splat_reader_independent fuel cs :
  rbind (run_chunked (splat_prog fuel) cs) (fun x => Ok (fst x)) = Ok (read_raw fuel (concat cs)).
Proof.
  rewrite <- run_splat_prog, <- run_chunked_eq_run. destruct (run_chunked (splat_prog fuel) cs) as [[v r]|]; reflexivity.
Qed.
End SplatProg.

(* ================================================================== stl.Read as a program *)
Section StlProg.
Import Stl.
Open Scope N_scope.
Notation progN := (@prog N).
Definition lift_opt {A} (o : option A) : progN A := match o with Some a => Ret a | None => Fail EEof end.
Definition of_optE {A} (o : option A) : result A := of_opt EEof o.

Definition get32_prog : progN N := Take 4 (fun a => lift_opt (de_le32 a)).
Definition get16_prog : progN N := Take 2 (fun a => lift_opt (de_le16 a)).
Lemma run_get32_prog l : run get32_prog l = of_optE (get32 l).
Proof. unfold get32_prog, get32. cbn [run]. destruct (take 4 l) as [[a r]|]; cbn [bind]; [|reflexivity]. destruct (de_le32 a); reflexivity. Qed.
Lemma run_get16_prog l : run get16_prog l = of_optE (get16 l).
Proof. unfold get16_prog, get16. cbn [run]. destruct (take 2 l) as [[a r]|]; cbn [bind]; [|reflexivity]. destruct (de_le16 a); reflexivity. Qed.

Definition vec_prog : progN vec :=
  bindp get32_prog (fun x => bindp get32_prog (fun y => bindp get32_prog (fun z => Ret (x, y, z)))).
Lemma run_vec_prog l : run vec_prog l = of_optE (getvec l).
Proof.
  unfold vec_prog, getvec. rewrite run_bind, run_get32_prog. destruct (get32 l) as [[x r]|]; cbn [of_optE of_opt rbind bind fst snd]; [|reflexivity].
  rewrite run_bind, run_get32_prog. destruct (get32 r) as [[y r1]|]; cbn [of_optE of_opt rbind bind fst snd]; [|reflexivity].
  rewrite run_bind, run_get32_prog. destruct (get32 r1) as [[z r2]|]; reflexivity.
Qed.
Definition tri_prog : progN tri :=
  bindp vec_prog (fun n => bindp vec_prog (fun a => bindp vec_prog (fun b => bindp vec_prog (fun c =>
  bindp get16_prog (fun at_ => Ret {| tn := n; ta := a; tb := b; tc := c; tattr := at_ |}))))).
Lemma run_tri_prog l : run tri_prog l = of_optE (gettri l).
Proof.
  unfold tri_prog, gettri. rewrite run_bind, run_vec_prog. destruct (getvec l) as [[n r]|]; cbn [of_optE of_opt rbind bind fst snd]; [|reflexivity].
  rewrite run_bind, run_vec_prog. destruct (getvec r) as [[a r1]|]; cbn [of_optE of_opt rbind bind fst snd]; [|reflexivity].
  rewrite run_bind, run_vec_prog. destruct (getvec r1) as [[b r2]|]; cbn [of_optE of_opt rbind bind fst snd]; [|reflexivity].
  rewrite run_bind, run_vec_prog. destruct (getvec r2) as [[c r3]|]; cbn [of_optE of_opt rbind bind fst snd]; [|reflexivity].
  rewrite run_bind, run_get16_prog. destruct (get16 r3) as [[at_ r4]|]; reflexivity.
Qed.

Fixpoint tris_prog (fuel : nat) (count : N) : progN (list tri) :=
  if count =? 0 then Ret [] else
  match fuel with
  | O => Fail EEof
  | S f => bindp tri_prog (fun t => bindp (tris_prog f (count - 1)) (fun ts => Ret (t :: ts)))
  end.
Lemma run_tris_prog fuel : forall count l,
  run (tris_prog fuel count) l = of_optE (read_tris_rest fuel count l).
Proof.
  induction fuel as [|f IH]; intros count l; cbn [tris_prog read_tris_rest]; destruct (count =? 0); try reflexivity.
  rewrite run_bind, run_tri_prog. destruct (gettri l) as [[t r]|]; cbn [of_optE of_opt rbind bind fst snd]; [|reflexivity].
  rewrite run_bind, IH. destruct (read_tris_rest f (count - 1) r) as [[ts r']|]; reflexivity.
Qed.

(* stl.Read: header, count, records ([fuel] bounds the record loop of the model: any value >= the bytes present) *)
Definition stl_prog (fuel : nat) : progN (list N * list tri) :=
  Take 80 (fun hdr => bindp get32_prog (fun count => bindp (tris_prog fuel count) (fun ts => Ret (hdr, ts)))).

Theorem run_stl_prog fuel l : (length l <= fuel)%nat ->
  rbind (run (stl_prog fuel) l) (fun x => Ok (fst x)) = of_optE (read l).
Proof.
  intros Hf. unfold stl_prog, read. cbn [run]. destruct (take 80 l) as [[hdr r]|] eqn:E; cbn [bind]; [|reflexivity].
  apply take_spec in E. destruct E as [-> E]. rewrite app_length in Hf.
  rewrite run_bind, run_get32_prog. destruct (get32 r) as [[count r1]|] eqn:E1; cbn [of_optE of_opt rbind bind fst snd]; [|reflexivity].
  apply StlProofs.get32_length in E1.
  rewrite run_bind, run_tris_prog. rewrite StlProofs.read_tris_fst.
  rewrite (StlProofs.read_tris_rest_fuel fuel (length r1) count r1) by lia.
  destruct (read_tris_rest (length r1) count r1) as [[ts r2]|]; reflexivity.
Qed.

(* stl.Read fed by any chunking of the bytes *)
Theorem stl_reader_independent cs fuel : (length (concat cs) <= fuel)%nat ->
  rbind (run_chunked (stl_prog fuel) cs) (fun x => Ok (fst x)) = of_optE (read (concat cs)).
Proof.
  intros Hf. rewrite <- (run_stl_prog fuel) by exact Hf. rewrite <- run_chunked_eq_run.
  destruct (run_chunked (stl_prog fuel) cs) as [[v r]|]; reflexivity.
Qed.
End StlProg.
