(* C06 proofs, part C: extension bookkeeping — every extension key emitted on a node, a material, a
   texture reference or at the root is listed in extensionsUsed; extensionsRequired is a subset of it. *)
From PF Require Import Base.Bytes Base.BytesProofs Formats.Gltf.
From Coq Require String.
Import String.StringSyntax.
Delimit Scope string_scope with string.
Open Scope list_scope.
Open Scope N_scope.

Lemma add_str_spec s l k : In k (add_str s l) <-> k = s \/ In k l.
Proof.
  unfold add_str. destruct (existsb (String.eqb s) l) eqn:E.
  - apply existsb_exists in E. destruct E as (y & Hy & Ey). apply String.eqb_eq in Ey. subst y.
    split; [right; assumption|]. intros [->|H]; assumption.
  - rewrite in_app_iff. cbn [In]. split; [intros [H|[<-|[]]]; auto|intros [->|H]; auto].
Qed.

Lemma fold_add_str_spec {A} (f : A -> string) es u k :
  In k (fold_left (fun u e => add_str (f e) u) es u) <-> In k u \/ In k (map f es).
Proof.
  revert u. induction es as [|e es IH]; intros u; cbn [fold_left map In]; [tauto|].
  rewrite IH, add_str_spec. intuition.
Qed.

Lemma use_exts_used es x k : In k (x_used (use_exts es x)) <-> In k (x_used x) \/ In k (map fst es).
Proof. unfold use_exts. cbn [x_used]. apply (fold_add_str_spec fst). Qed.
Lemma use_exts_req es x k : In k (x_req (use_exts es x)) -> In k (x_req x) \/ In k (map fst es).
Proof.
  unfold use_exts. cbn [x_req]. generalize (x_req x) as u.
  induction es as [|e es IH]; intros u; cbn [fold_left map In]; [tauto|].
  intros H. apply IH in H. destruct H as [H|H]; [|tauto].
  destruct (snd e); [|tauto]. apply add_str_spec in H. destruct H as [->|H]; tauto.
Qed.
Lemma use_exts_texs es x : x_texs (use_exts es x) = x_texs x.
Proof. reflexivity. Qed.

(* the bookkeeping invariant of the texture / extension state *)
Definition xinv (x : texst) : Prop :=
  incl (x_req x) (x_used x) /\ Forall (fun g => gt_exts g = []) (x_texs x).
Definition xle (x x' : texst) : Prop := incl (x_used x) (x_used x').

Lemma add_texture_spec t x0 : xinv x0 ->
  let r := add_texture t x0 in
  xinv (snd r) /\ xle x0 (snd r) /\ incl (ti_exts (fst r)) (x_used (snd r)).
Proof.
  intros (Hr & Ht). cbv zeta. unfold add_texture.
  set (x := use_exts (tx_exts t) x0).
  assert (Hx : xinv x /\ xle x0 x /\ incl (fold_left (fun u e => add_str (fst e) u) (tx_exts t) []) (x_used x)).
  { split; [split|split].
    - intros k Hk. apply use_exts_req in Hk. apply use_exts_used. destruct Hk; [left; apply Hr|right]; assumption.
    - exact Ht.
    - intros k Hk. apply use_exts_used. left. exact Hk.
    - intros k Hk. apply (fold_add_str_spec fst) in Hk. apply use_exts_used. destruct Hk as [[]|Hk]. right. exact Hk. }
  destruct Hx as ((Hr' & Ht') & Hle & Hk).
  destruct (lookupN (tx_ptr t) (x_tab x)); [cbn [fst snd ti_exts]; repeat split; assumption|].
  destruct (index_ofN (String.eqb (tx_uri t)) (x_images x));
  destruct (tx_samp t) as [sm|]; try destruct (index_ofN (samp_eqb sm) (x_samplers x));
  match goal with |- context [index_ofN (gtex_eqb ?nt) ?l] => destruct (index_ofN (gtex_eqb nt) l) end;
  cbn [fst snd ti_exts x_used x_req x_texs]; unfold xinv, xle; cbn [x_used x_req x_texs];
  (split; [split; [exact Hr'|]|split; [exact Hle|exact Hk]]);
  try exact Ht'; (apply Forall_app; split; [exact Ht'|repeat constructor]).
Qed.

Lemma xle_refl x : xle x x.
Proof. intros k H. exact H. Qed.
Lemma xle_trans a b c : xle a b -> xle b c -> xle a c.
Proof. intros H1 H2 k H. apply H2, H1, H. Qed.

Definition slots_ok (sl : list gslot) (x : texst) : Prop :=
  forall s, In s sl -> incl (ti_exts (fst (snd s))) (x_used x).
Definition accinv (acc : list gslot * texst) : Prop := xinv (snd acc) /\ slots_ok (fst acc) (snd acc).
Lemma slots_ok_mono sl x x' : xle x x' -> slots_ok sl x -> slots_ok sl x'.
Proof. intros Hle H s Hs k Hk. apply Hle. eapply H; eauto. Qed.

Lemma add_slot_spec name t extra acc : accinv acc ->
  accinv (add_slot name t extra acc) /\ xle (snd acc) (snd (add_slot name t extra acc)).
Proof.
  intros (Hx & Hs). unfold add_slot. destruct t as [tx|]; [|split; [split; assumption|apply xle_refl]].
  pose proof (add_texture_spec tx (snd acc) Hx) as H. cbv zeta in H.
  destruct (add_texture tx (snd acc)) as [ti x]. cbn [fst snd] in *. destruct H as (H1 & H2 & H3).
  split; [split; [exact H1|]|exact H2].
  intros s Hin. apply in_app_or in Hin. destruct Hin as [Hin|[<-|[]]].
  - eapply slots_ok_mono; eauto.
  - cbn [fst snd]. exact H3.
Qed.

Lemma use_ext_spec id x : xinv x -> xinv (use_ext id x) /\ xle x (use_ext id x) /\ In id (x_used (use_ext id x)).
Proof.
  intros (Hr & Ht). unfold use_ext. split; [split|split].
  - intros k Hk. apply use_exts_req in Hk. apply use_exts_used. destruct Hk; [left; apply Hr|right]; assumption.
  - exact Ht.
  - intros k Hk. apply use_exts_used. left. exact Hk.
  - apply use_exts_used. right. left. reflexivity.
Qed.

Lemma ext_slots_spec e acc : accinv acc ->
  accinv (ext_slots e acc) /\ xle (snd acc) (snd (ext_slots e acc)) /\ In (mx_id e) (x_used (snd (ext_slots e acc))).
Proof.
  intros Ha. unfold ext_slots.
  assert (H : forall l acc0, accinv acc0 ->
    let r := fold_left (fun a st => add_slot (String.append (mx_id e) (String.append "/" (fst st))) (Some (snd st)) None a) l acc0 in
    accinv r /\ xle (snd acc0) (snd r)).
  { induction l as [|st l IH]; intros acc0 H0; cbn [fold_left]; [split; [exact H0|apply xle_refl]|].
    destruct (add_slot_spec (String.append (mx_id e) (String.append "/" (fst st))) (Some (snd st)) None acc0 H0) as (H1 & H2).
    destruct (IH _ H1) as (H3 & H4). split; [exact H3|eapply xle_trans; eauto]. }
  destruct (H (mx_texs e) acc Ha) as ((Hx & Hs) & Hle). cbv zeta.
  set (r := fold_left _ (mx_texs e) acc) in *. cbn [fst snd].
  destruct (use_ext_spec (mx_id e) (snd r) Hx) as (H1 & H2 & H3).
  split; [split; [exact H1|eapply slots_ok_mono; eauto]|]. split; [eapply xle_trans; eauto|exact H3].
Qed.

Lemma build_material_spec m x : xinv x ->
  let r := build_material m x in
  xinv (snd r) /\ xle x (snd r) /\ incl (mat_ext_keys (fst r)) (x_used (snd r)).
Proof.
  intros Hx. cbv zeta. unfold build_material.
  set (a0 := (@nil gslot, x)).
  assert (H0 : accinv a0 /\ xle x (snd a0)) by (split; [split; [exact Hx|intros s []]|apply xle_refl]).
  set (a1 := match pm_pbr m with
             | None => a0
             | Some p => add_slot "metallicRoughnessTexture" (pb_mrtex p) None (add_slot "baseColorTexture" (pb_tex p) None a0)
             end).
  assert (H1 : accinv a1 /\ xle x (snd a1)).
  { unfold a1. destruct (pm_pbr m) as [p|]; [|exact H0]. destruct H0 as (Ha & Hl).
    destruct (add_slot_spec "baseColorTexture" (pb_tex p) None a0 Ha) as (Hb & Hl1).
    destruct (add_slot_spec "metallicRoughnessTexture" (pb_mrtex p) None _ Hb) as (Hc & Hl2).
    split; [exact Hc|]. eapply xle_trans; [exact Hl|]. eapply xle_trans; eauto. }
  assert (H2 : forall l acc, accinv acc ->
     let r := fold_left (fun a e => ext_slots e a) l acc in
     accinv r /\ xle (snd acc) (snd r) /\ forall e, In e l -> In (mx_id e) (x_used (snd r))).
  { induction l as [|e l IH]; intros acc Ha; cbn [fold_left]; [split; [exact Ha|split; [apply xle_refl|intros ? []]]|].
    destruct (ext_slots_spec e acc Ha) as (Hb & Hl & Hin). destruct (IH _ Hb) as (Hc & Hl2 & Hin2).
    split; [exact Hc|]. split; [eapply xle_trans; eauto|]. intros e' [<-|He']; [apply Hl2, Hin|apply Hin2, He']. }
  destruct H1 as (Ha1 & Hl1). destruct (H2 (pm_exts m) a1 Ha1) as (Ha2 & Hl2 & Hids).
  set (a2 := fold_left (fun a e => ext_slots e a) (pm_exts m) a1) in *.
  set (a3 := match pm_normal m with Some (t, s) => add_slot "normalTexture" (Some t) s a2 | None => a2 end).
  assert (H3 : accinv a3 /\ xle (snd a2) (snd a3)).
  { unfold a3. destruct (pm_normal m) as [[t s]|]; [apply add_slot_spec, Ha2|split; [exact Ha2|apply xle_refl]]. }
  destruct H3 as (Ha3 & Hl3).
  set (a4 := match pm_occ m with Some (t, s) => add_slot "occlusionTexture" (Some t) s a3 | None => a3 end).
  assert (H4 : accinv a4 /\ xle (snd a3) (snd a4)).
  { unfold a4. destruct (pm_occ m) as [[t s]|]; [apply add_slot_spec, Ha3|split; [exact Ha3|apply xle_refl]]. }
  destruct H4 as ((Hx4 & Hs4) & Hl4). cbn [fst snd].
  split; [exact Hx4|]. split; [eapply xle_trans; [exact Hl1|]; eapply xle_trans; [exact Hl2|]; eapply xle_trans; eauto|].
  unfold mat_ext_keys. cbn [gmt_exts gmt_texs]. intros k Hk. apply in_app_or in Hk. destruct Hk as [Hk|Hk].
  - apply (fold_add_str_spec mx_id) in Hk. destruct Hk as [[]|Hk]. apply in_map_iff in Hk. destruct Hk as (e & <- & He).
    apply Hl4, Hl3, Hids, He.
  - apply in_flat_map in Hk. destruct Hk as (sl & Hsl & Hk). eapply Hs4; eauto.
Qed.

(* ---- state level *)
Definition used (s : state) : list string := x_used (st_x s).
Definition einv (s : state) : Prop :=
  xinv (st_x s) /\
  (forall nd, In nd (st_nodes s) -> incl (gn_exts nd) (used s)) /\
  (forall g, In g (st_mats s) -> incl (mat_ext_keys g) (used s)) /\
  (st_lights s <> [] -> In "KHR_lights_punctual"%string (used s)).

Lemma einv_mono s s' : einv s -> xinv (st_x s') -> xle (st_x s) (st_x s') ->
  st_nodes s' = st_nodes s -> st_mats s' = st_mats s -> st_lights s' = st_lights s -> einv s'.
Proof.
  intros (_ & Hn & Hm & Hl) Hx Hle En Em El. unfold einv, used in *. rewrite En, Em, El.
  split; [exact Hx|]. split; [|split].
  - intros nd Hin k Hk. apply Hle. eapply Hn; eauto.
  - intros g Hin k Hk. apply Hle. eapply Hm; eauto.
  - intros H. apply Hle, Hl, H.
Qed.

Lemma add_material_einv m s : einv s -> einv (snd (add_material m s)).
Proof.
  intros He. unfold add_material. destruct (find_mat m (st_mat_tab s)); [exact He|].
  pose proof He as (Hx & Hn & Hm & Hl).
  pose proof (build_material_spec m (st_x s) Hx) as H. cbv zeta in H.
  destruct (build_material m (st_x s)) as [gm x]. cbn [fst snd] in *. destruct H as (H1 & H2 & H3).
  unfold einv, used in *. cbn [st_x st_nodes st_mats st_lights]. split; [exact H1|]. split; [|split].
  - intros nd Hin k Hk. apply H2. eapply Hn; eauto.
  - intros g Hin. apply in_app_or in Hin. destruct Hin as [Hin|[<-|[]]]; [|exact H3].
    intros k Hk. apply H2. eapply Hm; eauto.
  - intros H. apply H2, Hl, H.
Qed.

Lemma add_mesh_einv mo s : einv s -> einv (snd (add_mesh mo s)).
Proof.
  intros He. unfold add_mesh. destruct (prim_count (mo_mesh mo) =? 0); [exact He|].
  assert (H1 : einv (snd (resolve_material mo s))).
  { unfold resolve_material. destruct (mo_mat mo) as [pm|]; [|exact He].
    pose proof (add_material_einv pm s He) as H. destruct (add_material pm s). exact H. }
  destruct (resolve_material mo s) as [mati s1]. cbn [snd] in H1.
  unfold place_mesh. destruct (find_mesh _ _); [exact H1|].
  destruct (mesh_data (mo_mesh mo) s1) as [[ai b] wr]. cbn [snd].
  apply (einv_mono s1); try reflexivity; [exact H1|apply H1|apply xle_refl].
Qed.

Lemma add_node_einv mo mi s : einv s -> einv (add_node mo mi s).
Proof.
  intros He. pose proof He as (Hx & Hn & Hm & Hl). unfold add_node, node_inst. destruct (mo_inst mo) as [|i0 ins].
  - unfold einv, used in *. cbn [st_x st_nodes st_mats st_lights]. split; [exact Hx|]. split; [|split; assumption].
    intros nd Hin. apply in_app_or in Hin. destruct Hin as [Hin|[<-|[]]]; [apply Hn, Hin|]. intros k [].
  - destruct (write_instances (i0 :: ins) (st_b s)) as [a b].
    destruct (use_ext_spec "EXT_mesh_gpu_instancing" (st_x s) Hx) as (H1 & H2 & H3).
    unfold einv, used in *. cbn [st_x st_nodes st_mats st_lights]. split; [exact H1|]. split; [|split].
    + intros nd Hin. apply in_app_or in Hin. destruct Hin as [Hin|[<-|[]]].
      * intros k Hk. apply H2. eapply Hn; eauto.
      * cbn [gn_exts]. intros k [<-|[]]. exact H3.
    + intros g Hin k Hk. apply H2. eapply Hm; eauto.
    + intros H. apply H2, Hl, H.
Qed.

Lemma add_model_einv s mo : einv s -> einv (add_model s mo).
Proof.
  intros He. unfold add_model. pose proof (add_mesh_einv mo s He) as H1.
  destruct (add_mesh mo s) as [[mi|] s1]; cbn [snd] in H1; [apply add_node_einv, H1|exact H1].
Qed.

Lemma add_light_einv s l : einv s -> einv (add_light s l).
Proof.
  intros (Hx & Hn & Hm & Hl). destruct (use_ext_spec "KHR_lights_punctual" (st_x s) Hx) as (H1 & H2 & H3).
  unfold add_light, einv, used in *. cbn [st_x st_nodes st_mats st_lights]. split; [exact H1|]. split; [|split].
  - intros nd Hin. apply in_app_or in Hin. destruct Hin as [Hin|[<-|[]]].
    + intros k Hk. apply H2. eapply Hn; eauto.
    + cbn [gn_exts]. intros k [<-|[]]. exact H3.
  - intros g Hin k Hk. apply H2. eapply Hm; eauto.
  - intros _. exact H3.
Qed.

Lemma einv_init : einv init.
Proof.
  unfold einv, used, init. cbn. split; [split; [intros k []|constructor]|]. split; [intros ? []|]. split; [intros ? []|].
  intros H. exfalso. apply H. reflexivity.
Qed.

Lemma einv_run sc : einv (run sc).
Proof.
  unfold run, add_scene.
  assert (H1 : forall ms s, einv s -> einv (fold_left add_model ms s)).
  { induction ms as [|mo r IH]; intros s H; cbn [fold_left]; [exact H|]. apply IH, add_model_einv, H. }
  assert (H2 : forall ls s, einv s -> einv (fold_left add_light ls s)).
  { induction ls as [|l r IH]; intros s H; cbn [fold_left]; [exact H|]. apply IH, add_light_einv, H. }
  apply H2, H1, einv_init.
Qed.

(* every extension key emitted anywhere in the document is declared in extensionsUsed, and
   extensionsRequired is a subset of extensionsUsed *)
Theorem ext_declared_run sc :
  let s := to_summary (run sc) in incl (all_ext_keys s) (s_used s) /\ incl (s_req s) (s_used s).
Proof.
  cbv zeta. destruct (einv_run sc) as ((Hr & Ht) & Hn & Hm & Hl).
  unfold to_summary, all_ext_keys, used in *. cbn [s_root_exts s_nodes s_mats s_texs s_used s_req].
  split; [|exact Hr]. intros k Hk. repeat (apply in_app_or in Hk; destruct Hk as [Hk|Hk]).
  - destruct (st_lights (run sc)) eqn:E; [destruct Hk|]. destruct Hk as [<-|[]]. apply Hl. discriminate.
  - apply in_flat_map in Hk. destruct Hk as (nd & Hnd & Hk). eapply Hn; eauto.
  - apply in_flat_map in Hk. destruct Hk as (g & Hg & Hk). eapply Hm; eauto.
  - apply in_flat_map in Hk. destruct Hk as (g & Hg & Hk). rewrite Forall_forall in Ht. rewrite (Ht g Hg) in Hk. destruct Hk.
Qed.
