(* C08: files past internal block sizes (more than 64 KiB of vertex records, more than 65536 vertices, face blocks and
   ascii bodies of the same order).  Such a file is not written out as a Coq term: the harness names it by a FORMULA
   (property list, record count, a seed; word j of record i is [bword]) that is evaluated here and, independently, by
   the Go harness, whose reference encoder turns it into the bytes given to polyform.  What comes back is compared by
   position-sensitive FINGERPRINTS (a multiplicative rolling hash over the float64 bit patterns of every attribute row
   in order, over the index buffer, and over the body bytes / body tokens), so a record that lands at the wrong vertex
   index, a block that is read twice or skipped, or a stale block buffer changes the fingerprint.
   Definitions only, NO PROOFS. *)
From PF Require Import Base.Bytes Formats.PlyRead.
From Coq Require Import String Uint63.
Open Scope list_scope.
Open Scope N_scope.

(* ---------- the formula ---------- *)
Definition m32 (x : N) : N := N.land x 4294967295.
(* a 32-bit mix of (seed, i, j); the Go harness computes the same in uint32 arithmetic *)
Definition bmix (seed i j : N) : N :=
  let x := m32 (seed + i * 2654435761 + j * 2246822519 + 374761393) in
  let y := m32 (x * 3266489917 + 668265263) in
  N.lxor y (N.shiftr y 15).
(* keep a float32 / the high half of a float64 finite: an all-ones exponent gets its top bit cleared *)
Definition finite32 (h : N) : N := if N.land (N.shiftr h 23) 255 =? 255 then N.land h 3221225471 else h.
Definition finite64hi (h : N) : N := if N.land (N.shiftr h 20) 2047 =? 2047 then N.land h 3221225471 else h.
Definition bword (t : sty) (seed i j : N) : N :=
  let h := bmix seed i j in
  match t with
  (* char / short items (extra list properties only): non-negative, so that text and word denote the same number *)
  | Char => N.land h 127
  | UChar => N.land h 255
  | Short => N.land h 32767
  | UShort => N.land h 65535
  | Int | UInt => h
  | Float => finite32 h
  | Double => finite64hi h * 4294967296 + bmix (seed + 1) i j
  end.

Record bigspec := {
  bg_fmt : fmt;
  bg_vprops : list (sty * string);
  bg_nv : N;                                        (* vertex records *)
  bg_seed : N;
  bg_fprops : option (list (sty * sty * string));   (* face element: list properties *)
  bg_nf : N;                                        (* faces *)
  bg_quads : bool }.                                (* every third face (by the mix) is a quad *)

(* 0, 1, ..., n-1 (linear: N.of_nat on every element of seq would be quadratic) *)
Fixpoint nseq_from (k : N) (n : nat) : list N := match n with O => [] | S n' => k :: nseq_from (N.succ k) n' end.
Definition nseq (n : N) : list N := nseq_from 0 (N.to_nat n).
Fixpoint numbered {A} (k : N) (l : list A) : list (N * A) :=
  match l with [] => [] | x :: r => (k, x) :: numbered (N.succ k) r end.

Definition big_record (g : bigspec) (i : N) : list N :=
  map (fun '(j, (t, _)) => bword t (bg_seed g) i j) (numbered 0 (bg_vprops g)).
Definition big_corners (g : bigspec) (k : N) : N :=
  if bg_quads g && (bmix (bg_seed g) k 1000 mod 3 =? 0) then 4 else 3.
(* the word list of list property number j (count type, item type, name) of face k *)
Definition big_list (g : bigspec) (k : N) (j : N) (p : sty * sty * string) : list N :=
  let '(_, lt, name) := p in
  let c := big_corners g k in
  if (String.eqb name "vertex_indices" || String.eqb name "vertex_index")%bool then
    (* even corners anywhere, odd corners among the last 4 vertices (so that large vertex numbers occur) *)
    map (fun m => let h := bmix (bg_seed g) k (2000 + m) in
                  if N.even m then h mod bg_nv g else bg_nv g - 1 - h mod N.min (bg_nv g) 4) (nseq c)
  else if String.eqb name "texcoord" then
    map (fun m => bword lt (bg_seed g) k (3000 + m)) (nseq (2 * c))
  else
    map (fun m => bword lt (bg_seed g) k (4000 + 16 * j + m)) (nseq (bmix (bg_seed g) k (5000 + j) mod 3)).
Definition big_face (g : bigspec) (fps : list (sty * sty * string)) (k : N) : list (list N) :=
  map (fun '(j, p) => big_list g k j p) (numbered 0 fps).
Definition big_expand (g : bigspec) : absfile :=
  {| a_fmt := bg_fmt g; a_vprops := bg_vprops g;
     a_verts := map (big_record g) (nseq (bg_nv g));
     a_fprops := bg_fprops g;
     a_faces := match bg_fprops g with
                | Some fps => map (big_face g fps) (nseq (bg_nf g))
                | None => []
                end |}.

(* ---------- fingerprints ---------- *)
(* h' = h * 2654435761 + x + 1 in 63-bit machine arithmetic (Coq's primitive integers: evaluated natively by
   vm_compute; the Go harness computes the same in uint64 and masks to 63 bits) *)
Definition int_of_N (n : N) : int := match n with N0 => 0%uint63 | Npos p => Uint63.of_pos p end.
Definition fp_stepi (h x : int) : int := (h * 2654435761 + x + 1)%uint63.
Definition fp_step (h : int) (x : N) : int := fp_stepi h (int_of_N x).
(* a 64-bit value: high half, then low half *)
Definition fp_word (h : int) (v : N) : int := fp_step (fp_step h (N.shiftr v 32)) (N.land v 4294967295).
Definition fp_words (h : int) (l : list N) : int := fold_left fp_word l h.
Definition fp_rows (rows : list (list N)) : int := fold_left fp_words rows 0%uint63.
Definition fp_z (h : int) (z : Z) : int := fp_word h (Z.to_N (z mod 18446744073709551616)%Z).
Definition fp_idx (l : list Z) : int := fold_left fp_z l 0%uint63.
(* bytes of a binary body *)
Definition fp_bytes (l : list N) : int := fold_left fp_step l 0%uint63.
(* token lines of an ascii body: the float64 every token denotes, 1 between lines; blank lines do not count *)
Definition fp_tok (h : int) (t : tok) : int := match tok_f64 t with Some f => fp_word h f | None => fp_step h 7 end.
Definition fp_lines (ls : list (list tok)) : int :=
  fold_left (fun h l => match l with [] => h | _ => fp_step (fold_left fp_tok l h) 1 end) ls 0%uint63.
Definition fp_body (b : body) : int := match b with BodyBin bs => fp_bytes bs | BodyAscii ls => fp_lines ls end.
Definition fp_is (h : int) (want : N) : bool := Uint63.eqb h (int_of_N want).

(* what the harness reports about the mesh polyform returned: topology, length and fingerprint of the index buffer,
   and per attribute (dimension, name) the number of rows and the fingerprint of the rows *)
Record meshfp := { mf_topo : topo; mf_nidx : N; mf_idx : N; mf_attrs : list (nat * string * N * N) }.
Definition mesh_matches_fp (m : mesh) (f : meshfp) : bool :=
  topo_eqb (m_topo m) (mf_topo f) && (N.of_nat (List.length (m_idx m)) =? mf_nidx f) && fp_is (fp_idx (m_idx m)) (mf_idx f)
  && Nat.eqb (List.length (m_attrs m)) (List.length (mf_attrs f))
  && forallb (fun x : nat * string * N * N =>
                let '(d, n, rows, h) := x in
                match get_attr d n (m_attrs m) with
                | Some data => (N.of_nat (List.length data) =? rows) && fp_is (fp_rows data) h
                | None => false
                end) (mf_attrs f).
