(* C08: proofs about the PLY reader model (Formats/PlyRead.v) against the reference encoder of the
   specification's grammar.  Vocabulary: Formats/PlyReadSpec.v. *)
From PF Require Import Base.Bytes Base.BytesProofs Base.BytesMore Formats.PlyRead Formats.PlyReadSpec.
From Coq Require Import String ZifyN ZifyNat ZifyBool.
Open Scope list_scope.
Open Scope N_scope.
Ltac Zify.zify_post_hook ::= Z.div_mod_to_equations.
Local Notation length := List.length.
Local Notation concat := List.concat.

(* ================= words ================= *)
Lemma enc_word_length e t w : length (enc_word e t w) = sty_size t.
Proof. destruct e, t; reflexivity. Qed.

Lemma fits1 t w : sty_size t = 1%nat -> word_fits t w -> w < 256.
Proof. unfold word_fits. intros ->. change (2 ^ (8 * N.of_nat 1)) with 256. auto. Qed.
Lemma fits2 t w : sty_size t = 2%nat -> word_fits t w -> word16 w.
Proof. unfold word_fits, word16. intros ->. change (2 ^ (8 * N.of_nat 2)) with 65536. auto. Qed.
Lemma fits4 t w : sty_size t = 4%nat -> word_fits t w -> word32 w.
Proof. unfold word_fits, word32. intros ->. change (2 ^ (8 * N.of_nat 4)) with 4294967296. auto. Qed.
Lemma fits8 t w : sty_size t = 8%nat -> word_fits t w -> word64 w.
Proof. unfold word_fits, word64. intros ->. change (2 ^ (8 * N.of_nat 8)) with 18446744073709551616. auto. Qed.

(* every scalar type, both byte orders: decoding the encoded word gives the word back *)
Lemma dec_enc_word e t w : word_fits t w -> dec_word e t (enc_word e t w) = Some w.
Proof.
  intros H. unfold dec_word, enc_word.
  destruct t; cbn [sty_size]; destruct e; try reflexivity;
    try rewrite rev_involutive;
    first [ apply de_le16_le16; eapply fits2; [|exact H]; reflexivity
          | apply de_le32_le32; eapply fits4; [|exact H]; reflexivity
          | apply de_be32_be32; eapply fits4; [|exact H]; reflexivity
          | apply de_le64_le64; eapply fits8; [|exact H]; reflexivity
          | apply de_be64_be64; eapply fits8; [|exact H]; reflexivity ].
Qed.

Lemma get_word_enc e t w pre post :
  word_fits t w -> get_word e t (length pre) (pre ++ enc_word e t w ++ post) = Some w.
Proof.
  intros H. unfold get_word, slice. rewrite skipn_app_length.
  rewrite (take_app_exact (enc_word e t w) post) by (symmetry; apply enc_word_length).
  cbn [bind]. apply dec_enc_word, H.
Qed.

(* ================= layout ================= *)
Lemma enc_record_bin_cons e t ts w ws :
  enc_record_bin e (t :: ts) (w :: ws) = enc_word e t w ++ enc_record_bin e ts ws.
Proof. reflexivity. Qed.
Lemma enc_record_ascii_cons t ts w ws :
  enc_record_ascii (t :: ts) (w :: ws) = tok_of_word t w :: enc_record_ascii ts ws.
Proof. reflexivity. Qed.

Lemma enc_record_bin_length e (ps : vprops) vals :
  length vals = length ps -> length (enc_record_bin e (map fst ps) vals) = record_size (scalars ps).
Proof.
  revert vals. induction ps as [|[t n] ps IH]; intros [|w ws] L; try discriminate; [reflexivity|].
  cbn [map fst]. rewrite enc_record_bin_cons, app_length, enc_word_length.
  cbn [scalars map record_size fold_right]. f_equal. apply IH. simpl in L. lia.
Qed.
Lemma enc_record_ascii_length (ps : vprops) vals :
  length vals = length ps -> length (enc_record_ascii (map fst ps) vals) = length ps.
Proof.
  intros L. unfold enc_record_ascii. rewrite map_length, combine_length, map_length. lia.
Qed.

Lemma layout_bin_aux e name : forall (ps : vprops) vals pre off t,
  record_ok ps vals ->
  offsets_from true ps name (length pre) = Some (off, t) ->
  exists w, field_word ps vals name = Some (t, w) /\
            get_word e t off (pre ++ enc_record_bin e (map fst ps) vals) = Some w.
Proof.
  induction ps as [|[t0 n0] ps IH]; intros vals pre off t R O; [discriminate|].
  inversion R as [|p w ps' ws Hw R']; subst. cbn [fst] in Hw.
  cbn [offsets_from field_word map fst] in *. rewrite enc_record_bin_cons.
  destruct (seqb n0 name).
  - apply some_inj in O. injection O as <- <-. exists w. split; [reflexivity|].
    apply get_word_enc, Hw.
  - unfold advance in O. rewrite <- (enc_word_length e t0 w), <- app_length in O.
    destruct (IH ws (pre ++ enc_word e t0 w) off t R' O) as [w' [F G]].
    exists w'. split; [exact F|]. rewrite <- app_assoc in G. exact G.
Qed.

Lemma layout_ascii_aux name : forall (ps : vprops) vals (pre : list tok) off t,
  length vals = length ps ->
  offsets_from false ps name (length pre) = Some (off, t) ->
  exists w, field_word ps vals name = Some (t, w) /\
            nth_error (pre ++ enc_record_ascii (map fst ps) vals) off = Some (tok_of_word t w).
Proof.
  induction ps as [|[t0 n0] ps IH]; intros vals pre off t L O; [discriminate|].
  destruct vals as [|w ws]; [discriminate|].
  cbn [offsets_from field_word map fst] in *. rewrite enc_record_ascii_cons.
  destruct (seqb n0 name).
  - apply some_inj in O. injection O as <- <-. exists w. split; [reflexivity|].
    rewrite nth_error_app2 by lia. rewrite Nat.sub_diag. reflexivity.
  - unfold advance in O.
    assert (L' : length ws = length ps) by (simpl in L; lia).
    replace (S (length pre)) with (length (pre ++ [tok_of_word t0 w])) in O by (rewrite app_length; simpl; lia).
    destruct (IH ws (pre ++ [tok_of_word t0 w]) off t L' O) as [w' [F G]].
    exists w'. split; [exact F|]. rewrite <- app_assoc in G. exact G.
Qed.

Lemma record_ok_length ps vals : record_ok ps vals -> length vals = length ps.
Proof. induction 1; simpl; auto. Qed.

Lemma offsets_from_some bin name : forall (ps : vprops) cur,
  In name (names ps) -> exists off t, offsets_from bin ps name cur = Some (off, t).
Proof.
  induction ps as [|[t n] ps IH]; intros cur I; [destruct I|].
  cbn [offsets_from]. destruct (seqb n name) eqn:E; [eauto|].
  destruct I as [I|I]; [cbn in I; subst; unfold seqb in E; rewrite String.eqb_refl in E; discriminate|].
  apply IH, I.
Qed.

(* THE LAYOUT THEOREM.  For every property list, every record whose values fit their declared types, every
   format: the layout function locates every declared property, and reading a field of that type at that
   offset of the encoded record returns the value the record assigns to the property. *)
Theorem layout_reads_record_proof : forall (f : fmt) (ps : vprops) (vals : list N) (name : string),
  record_ok ps vals -> In name (names ps) ->
  exists off t, offsets (is_bin f) ps name = Some (off, t) /\
                value_of f ps vals name <> None /\
                read_field f off t (encode_record f ps vals) = value_of f ps vals name.
Proof.
  intros f ps vals name R I.
  destruct (offsets_from_some (is_bin f) name ps 0 I) as [off [t O]].
  exists off, t. split; [exact O|].
  unfold value_of, read_field, encode_record.
  destruct f; cbn [is_bin] in O.
  - destruct (layout_ascii_aux name ps vals [] off t (record_ok_length _ _ R) O) as [w [F G]].
    rewrite F. cbn [app] in G. rewrite G. split; [discriminate|reflexivity].
  - destruct (layout_bin_aux LEnd name ps vals [] off t R O) as [w [F G]].
    rewrite F. cbn [app endian_of] in *. rewrite G. split; [discriminate|reflexivity].
  - destruct (layout_bin_aux BEnd name ps vals [] off t R O) as [w [F G]].
    rewrite F. cbn [app endian_of] in *. rewrite G. split; [discriminate|reflexivity].
Qed.

(* the layout function is what the Go builders compute: Vector1PropertyReader.build{Ascii,Binary} *)
Lemma find_v1_offsets bin name : forall (ps : vprops) cur,
  find_v1 bin name (scalars ps) cur = Ok (offsets_from bin ps name cur).
Proof.
  induction ps as [|[t n] ps IH]; intros cur; [reflexivity|].
  cbn [scalars map find_v1 offsets_from]. destruct (seqb n name); [reflexivity|]. apply IH.
Qed.

(* ================= mapR ================= *)
Lemma mapR_cons {A B} (f : A -> result B) x xs :
  mapR f (x :: xs) = dor y <- f x; dor ys <- mapR f xs; Ok (y :: ys).
Proof. reflexivity. Qed.

Lemma mapR_nth {A B} (f : A -> result B) : forall l rows i x,
  mapR f l = Ok rows -> nth_error l i = Some x -> exists y, nth_error rows i = Some y /\ f x = Ok y.
Proof.
  induction l as [|a l IH]; intros rows i x M N; [destruct i; discriminate|].
  rewrite mapR_cons in M. destruct (f a) as [y|] eqn:Fa; [|discriminate].
  cbn [rbind] in M. destruct (mapR f l) as [ys|] eqn:Ml; [|discriminate].
  cbn [rbind] in M. injection M as <-.
  destruct i as [|i]; cbn [nth_error] in *.
  - injection N as <-. eauto.
  - eapply IH; eauto.
Qed.

Lemma mapR_length {A B} (f : A -> result B) : forall l rows, mapR f l = Ok rows -> length rows = length l.
Proof.
  induction l as [|a l IH]; intros rows M; [injection M as <-; reflexivity|].
  rewrite mapR_cons in M. destruct (f a) as [y|]; [|discriminate].
  cbn [rbind] in M. destruct (mapR f l) as [ys|] eqn:Ml; [|discriminate].
  cbn [rbind] in M. injection M as <-. simpl. f_equal. apply IH. reflexivity.
Qed.

Lemma mapR_map {A B C} (g : A -> B) (f : B -> result C) l : mapR f (map g l) = mapR (fun x => f (g x)) l.
Proof. induction l as [|a l IH]; [reflexivity|]. cbn [map]. rewrite !mapR_cons, IH. reflexivity. Qed.

(* ================= one reader, one record ================= *)
(* the reader LoadUnspecifiedProperties / Vector1PropertyReader builds for property [name] *)
Lemma build_v1_spec bin attr name (ps : vprops) :
  build_v1 bin attr name (scalars ps) =
  Ok (option_map (fun '(off, t) => {| b_attr := attr; b_names := [name]; b_offs := [off]; b_ty := t; b_v1 := true |})
                 (offsets bin ps name)).
Proof. unfold build_v1, offsets. rewrite find_v1_offsets. reflexivity. Qed.

(* binary: the scalar reader of a declared property returns the float64 image of the record's word *)
Lemma scalar_reader_bin e attr name (ps : vprops) vals :
  record_ok ps vals -> In name (names ps) ->
  exists b t w, build_v1 true attr name (scalars ps) = Ok (Some b) /\ b_attr b = attr /\
    field_word ps vals name = Some (t, w) /\
    read_bin_row e b (enc_record_bin e (map fst ps) vals) =
      (if vertex_ty_ok t then dor v <- mesh_value t w; Ok [v] else Err EDeclared).
Proof.
  intros R I. rewrite build_v1_spec.
  destruct (offsets_from_some true name ps 0 I) as [off [t O]].
  destruct (layout_bin_aux e name ps vals [] off t R O) as [w [F G]]. cbn [app] in G.
  unfold offsets. rewrite O. cbn [option_map].
  eexists _, t, w. split; [reflexivity|]. split; [reflexivity|]. split; [exact F|].
  unfold read_bin_row. cbn [b_ty b_offs]. destruct (vertex_ty_ok t); [|reflexivity].
  rewrite mapR_cons. rewrite G. cbn [of_opt rbind]. unfold mesh_value.
  destruct (conv t w); reflexivity.
Qed.

(* ascii: the scalar reader returns the float64 the token denotes (never divided by 255: the pinned behaviour
   behind the known finding ply:ascii-uchar-scalar-raw) *)
Lemma scalar_reader_ascii attr name (ps : vprops) vals :
  length vals = length ps -> In name (names ps) ->
  exists b t w, build_v1 false attr name (scalars ps) = Ok (Some b) /\ b_attr b = attr /\
    field_word ps vals name = Some (t, w) /\
    read_ascii_row b (enc_record_ascii (map fst ps) vals) = of_opt EDeclared (option_map (fun v => [v]) (tok_f64 (tok_of_word t w))).
Proof.
  intros L I. rewrite build_v1_spec.
  destruct (offsets_from_some false name ps 0 I) as [off [t O]].
  destruct (layout_ascii_aux name ps vals [] off t L O) as [w [F G]]. cbn [app] in G.
  unfold offsets. rewrite O. cbn [option_map].
  eexists _, t, w. split; [reflexivity|]. split; [reflexivity|]. split; [exact F|].
  unfold read_ascii_row. cbn [b_ty b_offs b_v1]. rewrite mapR_cons, G. cbn [of_opt rbind negb andb].
  destruct (tok_f64 (tok_of_word t w)); reflexivity.
Qed.

(* for int, float and double the ascii token denotes exactly the value the binary reader computes *)
Lemma tok_value_agrees t w : t = Int \/ t = Float \/ t = Double ->
  mesh_value t w = of_opt EDeclared (tok_f64 (tok_of_word t w)).
Proof. intros [->|[->| ->]]; reflexivity. Qed.

(* ================= vertex i is record i ================= *)
Definition row_bin (e : endian) (bs : list built) (buf : list N) : result (list (list N)) :=
  mapR (fun b => read_bin_row e b buf) bs.
Definition row_ascii (bs : list built) (line : list tok) : result (list (list N)) :=
  mapR (fun b => read_ascii_row b line) bs.

Lemma read_vertices_bin_records e bs size : forall (bufs : list (list N)) rows rest,
  Forall (fun buf => length buf = size) bufs ->
  mapR (row_bin e bs) bufs = Ok rows ->
  read_vertices_bin e bs size (length bufs) (concat bufs ++ rest) = Ok (rows, rest).
Proof.
  induction bufs as [|buf bufs IH]; intros rows rest F M.
  - injection M as <-. reflexivity.
  - inversion F as [|? ? L F']; subst.
    rewrite mapR_cons in M. destruct (row_bin e bs buf) as [row|] eqn:Rb; [|discriminate].
    cbn [rbind] in M. destruct (mapR (row_bin e bs) bufs) as [rows'|] eqn:Mr; [|discriminate].
    cbn [rbind] in M. injection M as <-.
    cbn [length concat read_vertices_bin]. rewrite <- app_assoc.
    rewrite (take_app_exact buf (concat bufs ++ rest)) by reflexivity.
    cbn [of_opt rbind]. fold (row_bin e bs buf). rewrite Rb. cbn [rbind].
    rewrite (IH rows' rest F' eq_refl). reflexivity.
Qed.

Lemma flat_map_concat_map {A B} (f : A -> list B) l : flat_map f l = concat (map f l).
Proof. induction l; simpl; congruence. Qed.

(* binary: reading n records from the encoded vertex block applies the readers to record i for row i, and
   leaves exactly what follows the block *)
Theorem vertex_i_is_record_i_bin_proof : forall e (ps : vprops) (recs : list (list N)) bs rest rows,
  Forall (record_ok ps) recs ->
  mapR (fun rec => row_bin e bs (enc_record_bin e (map fst ps) rec)) recs = Ok rows ->
  read_vertices_bin e bs (record_size (scalars ps)) (length recs) (encode_vertices_bin e ps recs ++ rest) = Ok (rows, rest) /\
  forall i rec, nth_error recs i = Some rec ->
    exists row, nth_error rows i = Some row /\ row_bin e bs (enc_record_bin e (map fst ps) rec) = Ok row.
Proof.
  intros e ps recs bs rest rows F M. split.
  - unfold encode_vertices_bin. rewrite flat_map_concat_map.
    rewrite <- (map_length (enc_record_bin e (map fst ps)) recs).
    apply read_vertices_bin_records.
    + apply Forall_forall. intros buf I. apply in_map_iff in I. destruct I as [rec [<- I]].
      apply enc_record_bin_length, record_ok_length. eapply Forall_forall in F; eauto.
    + rewrite mapR_map. exact M.
  - intros i rec N. eapply mapR_nth in M; eauto.
Qed.

Lemma read_vertices_ascii_records bs np : forall (lines : list (list tok)) rows rest,
  Forall (fun l => l <> [] /\ (np <= length l)%nat) lines ->
  mapR (row_ascii bs) lines = Ok rows ->
  read_vertices_ascii bs np (lines ++ rest) (length lines) = Ok (rows, rest).
Proof.
  induction lines as [|l lines IH]; intros rows rest F M.
  - injection M as <-. cbn [app length]. destruct rest; reflexivity.
  - inversion F as [|? ? [Hne Hlen] F']; subst.
    rewrite mapR_cons in M. destruct (row_ascii bs l) as [row|] eqn:Rb; [|discriminate].
    cbn [rbind] in M. destruct (mapR (row_ascii bs) lines) as [rows'|] eqn:Mr; [|discriminate].
    cbn [rbind] in M. injection M as <-.
    cbn [length app read_vertices_ascii].
    destruct l as [|tk l]; [congruence|].
    assert (E : (length (tk :: l) <? np)%nat = false) by (apply Nat.ltb_ge; exact Hlen).
    rewrite E. fold (row_ascii bs (tk :: l)). rewrite Rb. cbn [rbind].
    rewrite (IH rows' rest F' eq_refl). reflexivity.
Qed.

(* ascii: the same for lines of tokens (a record of a non-empty property list is a non-empty line) *)
Theorem vertex_i_is_record_i_ascii_proof : forall (ps : vprops) (recs : list (list N)) bs rest rows,
  ps <> [] -> Forall (fun rec => length rec = length ps) recs ->
  mapR (fun rec => row_ascii bs (enc_record_ascii (map fst ps) rec)) recs = Ok rows ->
  read_vertices_ascii bs (length ps) (encode_vertices_ascii ps recs ++ rest) (length recs) = Ok (rows, rest) /\
  forall i rec, nth_error recs i = Some rec ->
    exists row, nth_error rows i = Some row /\ row_ascii bs (enc_record_ascii (map fst ps) rec) = Ok row.
Proof.
  intros ps recs bs rest rows NE F M. split.
  - unfold encode_vertices_ascii.
    rewrite <- (map_length (enc_record_ascii (map fst ps)) recs).
    apply read_vertices_ascii_records.
    + apply Forall_forall. intros l I. apply in_map_iff in I. destruct I as [rec [<- I]].
      eapply Forall_forall in F; eauto. cbv beta in F.
      pose proof (enc_record_ascii_length ps rec F) as L. split; [|lia].
      intros E. rewrite E in L. destruct ps; [congruence|discriminate].
    + rewrite mapR_map. exact M.
  - intros i rec N. eapply mapR_nth in M; eauto.
Qed.

(* ================= header noise ================= *)
Definition res_rel (r1 r2 : result hstate) : Prop :=
  match r1, r2 with
  | Ok a, Ok b => hs_elems a = hs_elems b
  | Err e1, Err e2 => e1 = e2
  | _, _ => False
  end.

Lemma hstep_noise l st : noise_line l ->
  is_end l = false /\ exists st', hstep l st = Ok st' /\ hs_elems st' = hs_elems st.
Proof.
  destruct l as [|k rest]; intros Nz.
  - split; [reflexivity|]. exists st. split; reflexivity.
  - destruct Nz as [-> | ->].
    + split; [destruct rest; reflexivity|]. eexists. split; reflexivity.
    + split; [destruct rest; reflexivity|]. exists st. split; reflexivity.
Qed.

Lemma hstep_elems l st1 st2 : hs_elems st1 = hs_elems st2 -> res_rel (hstep l st1) (hstep l st2).
Proof.
  intros E. destruct l as [|k rest]; [exact E|]. cbn [hstep].
  destruct (seqb k "comment"); [exact E|].
  destruct (seqb k "element").
  - destruct rest as [|nm [|cnt [|? ?]]]; try reflexivity.
    destruct (parse_dec cnt); cbn [of_opt rbind res_rel hs_elems]; [rewrite E|]; reflexivity.
  - destruct (seqb k "property"); [|exact E].
    destruct (parse_property (k :: rest)); cbn [rbind]; [|reflexivity].
    unfold add_prop. rewrite E. destruct (hs_elems st2); reflexivity.
Qed.

Lemma hloop_noise a b : with_noise a b -> forall st1 st2, hs_elems st1 = hs_elems st2 ->
  res_rel (hloop a st1) (hloop b st2).
Proof.
  induction 1 as [|l a b W IH|l a b Nz W IH]; intros st1 st2 E.
  - reflexivity.
  - cbn [hloop]. destruct (is_end l); [exact E|].
    pose proof (hstep_elems l st1 st2 E) as R.
    destruct (hstep l st1), (hstep l st2); cbn [res_rel] in R; try contradiction; cbn [rbind].
    + apply IH, R.
    + exact R.
  - cbn [hloop]. destruct (hstep_noise l st2 Nz) as [En [st' [Hs He]]].
    rewrite En, Hs. cbn [rbind]. apply IH. congruence.
Qed.

(* HEADER NOISE.  Comment lines, obj_info lines and blank lines inserted anywhere between the format line and
   end_header do not change what the header declares (format and elements with their properties in order). *)
Theorem header_noise_ignored_proof : forall magic fl body noisy,
  fl <> [] -> with_noise body noisy ->
  strip_comments (parse_header (magic :: fl :: noisy)) = strip_comments (parse_header (magic :: fl :: body)).
Proof.
  intros magic fl body noisy NE W. unfold parse_header.
  destruct magic as [|m [|? ?]]; try reflexivity.
  destruct (negb (seqb m "ply")); [reflexivity|].
  destruct fl as [|f0 fr]; [congruence|]. cbn [skip_blank].
  destruct (parse_format (f0 :: fr)); cbn [rbind]; [|reflexivity].
  pose proof (hloop_noise body noisy W {| hs_elems := []; hs_comments := [] |} {| hs_elems := []; hs_comments := [] |} eq_refl) as R.
  destruct (hloop body _), (hloop noisy _); cbn [res_rel] in R; try contradiction; cbn [rbind strip_comments h_fmt h_elems].
  - rewrite R. reflexivity.
  - congruence.
Qed.

(* type-name aliases: every pair of spellings denotes one type, in any letter case of the first *)
Lemma aliases_same_type_proof : Forall (fun p => same_type (fst p) (snd p)) alias_pairs.
Proof. repeat constructor; cbn [fst snd]; eexists; split; reflexivity. Qed.

(* a property line spelled with an alias is the same declaration *)
Lemma alias_lines_agree_proof : Forall (fun p => forall name st,
    hstep ["property"; fst p; name] st = hstep ["property"; snd p; name] st /\
    (forall lt, hstep ["property"; "list"; fst p; lt; name] st = hstep ["property"; "list"; snd p; lt; name] st) /\
    (forall ct, hstep ["property"; "list"; ct; fst p; name] st = hstep ["property"; "list"; ct; snd p; name] st))%string alias_pairs.
Proof.
  unfold alias_pairs.
  repeat (apply Forall_cons;
    [cbn [fst snd]; intros name st; repeat split; intros;
     unfold hstep, parse_property, parse_sty; cbn; reflexivity|]).
  apply Forall_nil.
Qed.

(* ================= list properties (faces) ================= *)
Lemma firstn_app_exact {A} (a b : list A) : firstn (length a) (a ++ b) = a.
Proof. induction a; simpl; congruence. Qed.

Lemma chunks_fuel_concat {A} k : (0 < k)%nat -> forall (cs : list (list A)) fuel,
  Forall (fun c => length c = k) cs -> (length cs <= fuel)%nat -> chunks_fuel fuel k (concat cs) = cs.
Proof.
  intros Hk. induction cs as [|c cs IH]; intros fuel F L.
  - destruct fuel; reflexivity.
  - inversion F as [|? ? Lc F']; subst. destruct fuel as [|fuel]; [simpl in L; lia|].
    cbn [concat]. destruct c as [|x c]; [simpl in Hk; lia|].
    cbn [chunks_fuel app]. change (x :: c ++ concat cs) with ((x :: c) ++ concat cs).
    rewrite firstn_app_exact, skipn_app_length. f_equal. apply IH; [exact F'|simpl in L; lia].
Qed.

Lemma concat_length_const {A} k (cs : list (list A)) :
  Forall (fun c => length c = k) cs -> length (concat cs) = (length cs * k)%nat.
Proof. induction 1 as [|c cs Lc F IH]; [reflexivity|]. cbn [concat length]. rewrite app_length, IH, Lc. lia. Qed.

Lemma sty_size_pos t : (0 < sty_size t)%nat.
Proof. destruct t; simpl; lia. Qed.

Lemma payload_length e lt ws : length (flat_map (enc_word e lt) ws) = (length ws * sty_size lt)%nat.
Proof.
  rewrite flat_map_concat_map, (concat_length_const (sty_size lt)), map_length; [reflexivity|].
  apply Forall_forall. intros c I. apply in_map_iff in I. destruct I as [w [<- _]]. apply enc_word_length.
Qed.

Lemma words_of_enc e lt ws : Forall (word_fits lt) ws -> words_of e lt (flat_map (enc_word e lt) ws) = Ok ws.
Proof.
  intros F. unfold words_of, chunks. rewrite flat_map_concat_map.
  assert (Fl : Forall (fun c => length c = sty_size lt) (map (enc_word e lt) ws)).
  { apply Forall_forall. intros c I. apply in_map_iff in I. destruct I as [w [<- _]]. apply enc_word_length. }
  rewrite (chunks_fuel_concat (sty_size lt) (sty_size_pos lt)); [|exact Fl|].
  - rewrite mapR_map. induction F as [|w ws Hw F IH]; [reflexivity|].
    rewrite mapR_cons, dec_enc_word by exact Hw. cbn [of_opt rbind].
    rewrite IH; [reflexivity|]. inversion Fl; assumption.
  - rewrite (concat_length_const (sty_size lt)) by exact Fl. pose proof (sty_size_pos lt). nia.
Qed.

(* COUNT TYPES.  uchar, int and uint list counts are read back as the number written, in both byte orders *)
Lemma read_count_enc_proof e ct n rest :
  count_ty_ok ct = true -> word_fits ct n -> n < 2 ^ 31 ->
  read_count e ct (enc_word e ct n ++ rest) = Ok (Z.of_N n, rest).
Proof.
  intros C Hf Hn. destruct ct; try discriminate C; unfold read_count.
  - destruct e; reflexivity.
  - rewrite (take_app_exact (enc_word e Int n) rest) by (symmetry; apply enc_word_length).
    cbn [of_opt rbind]. rewrite dec_enc_word by exact Hf. cbn [of_opt rbind].
    unfold signed32. replace (n <? 2 ^ 31) with true by (symmetry; apply N.ltb_lt; exact Hn). reflexivity.
  - change (enc_word e UInt n) with (enc_word e Int n).
    rewrite (take_app_exact (enc_word e Int n) rest) by (symmetry; apply enc_word_length).
    cbn [of_opt rbind]. rewrite dec_enc_word by exact Hf. cbn [of_opt rbind].
    unfold signed32. replace (n <? 2 ^ 31) with true by (symmetry; apply N.ltb_lt; exact Hn). reflexivity.
Qed.

(* one list property: the binary list reader consumes exactly the encoded list and updates the buffers as
   [face_step] says *)
Lemma face_bin_cons_enc e ct lt rs k ip tp ws rest st :
  list_ok (ct, lt) ws ->
  face_bin e ((ct, lt) :: rs) k ip tp (enc_list_bin e ct lt ws ++ rest) st =
  face_bin e rs (S k) ip tp rest (face_step k ip tp lt ws st).
Proof.
  intros [C [Hf [Hn Fw]]]. cbn [fst snd] in *.
  cbn [face_bin]. unfold enc_list_bin. rewrite <- app_assoc.
  rewrite (read_count_enc_proof e ct _ _ C Hf Hn). cbn [rbind].
  rewrite nat_N_Z.
  replace (Z.of_nat (length ws) <? 0)%Z with false by (symmetry; apply Z.ltb_ge; lia).
  rewrite Nat2Z.id.
  rewrite (take_app_exact (flat_map (enc_word e lt) ws) rest) by (symmetry; apply payload_length).
  cbn [of_opt rbind]. unfold face_step.
  destruct (Nat.eqb k ip), (4 <? Z.of_nat (length ws))%Z, (nat_eqb_opt tp k), (8 <? Z.of_nat (length ws))%Z, lt;
    cbn [rbind]; try rewrite (words_of_enc e _ ws Fw); cbn [rbind fs_ibuf fs_tbuf fs_points]; reflexivity.
Qed.

Lemma face_bin_enc e ip tp : forall rs f k st rest,
  Forall2 list_ok rs f ->
  face_bin e rs k ip tp (enc_face_bin e rs f ++ rest) st = Ok (face_fold rs f k ip tp st, rest).
Proof.
  induction rs as [|[ct lt] rs IH]; intros f k st rest F2.
  - inversion F2; subst. reflexivity.
  - inversion F2 as [|? ws ? f' L F2']; subst.
    unfold enc_face_bin. cbn [combine flat_map]. rewrite <- app_assoc.
    rewrite face_bin_cons_enc by exact L. cbn [face_fold]. apply IH, F2'.
Qed.

(* without a texcoord property only the index property changes the state *)
Lemma face_step_other k ip lt ws st : k <> ip -> face_step k ip None lt ws st = st.
Proof. intros Hne. unfold face_step. apply Nat.eqb_neq in Hne. rewrite Hne. reflexivity. Qed.

Lemma face_fold_after ip : forall rs f k st, (ip < k)%nat -> face_fold rs f k ip None st = st.
Proof.
  induction rs as [|[ct lt] rs IH]; intros f k st Hk; [reflexivity|].
  destruct f as [|ws f]; [reflexivity|]. cbn [face_fold].
  rewrite face_step_other by lia. apply IH. lia.
Qed.

Lemma face_fold_index ip : forall rs f k st ct lt,
  (k <= ip)%nat -> length f = length rs ->
  nth_error rs (ip - k) = Some (ct, lt) ->
  face_fold rs f k ip None st = face_step ip ip None lt (nth (ip - k) f []) st.
Proof.
  induction rs as [|[ct0 lt0] rs IH]; intros f k st ct lt Hk L N.
  - destruct (ip - k)%nat; discriminate.
  - destruct f as [|ws f]; [discriminate|]. cbn [face_fold].
    destruct (Nat.eq_dec k ip) as [->|Hne].
    + rewrite Nat.sub_diag in *. cbn [nth_error nth] in *. injection N as -> ->.
      apply face_fold_after. lia.
    + rewrite face_step_other by exact Hne.
      replace (ip - k)%nat with (S (ip - S k)) in * by lia. cbn [nth_error nth] in *.
      apply (IH f (S k) st ct lt); [lia | simpl in L; lia | exact N].
Qed.

(* QUAD FAN at the level of one face: index list of 3 -> that triangle, of 4 -> (0,1,2),(0,2,3) *)
Lemma face_out_fan lt ws st :
  index_ty_ok lt = true -> (length ws = 3%nat \/ length ws = 4%nat) ->
  face_out false (face_step 0 0 None lt ws st) = Ok (fan_tris (map signed32 ws), []).
Proof.
  intros I [L|L].
  - destruct ws as [|a [|b [|c [|? ?]]]]; try discriminate L.
    destruct lt; try discriminate I; reflexivity.
  - destruct ws as [|a [|b [|c [|d [|? ?]]]]]; try discriminate L.
    destruct lt; try discriminate I; reflexivity.
Qed.
Lemma face_step_ip ip lt ws st : face_step ip ip None lt ws st = face_step 0 0 None lt ws st.
Proof. unfold face_step. rewrite !Nat.eqb_refl. reflexivity. Qed.

Lemma Forall2_length' {A B} (R : A -> B -> Prop) l1 l2 : Forall2 R l1 l2 -> length l2 = length l1.
Proof. induction 1; simpl; auto. Qed.

Theorem quad_fan_bin_proof : forall e rs ip ct lt (fs : list (list (list N))) rest st,
  nth_error rs ip = Some (ct, lt) -> index_ty_ok lt = true ->
  Forall (face_ok rs ip) fs ->
  faces_bin e rs ip None (flat_map (enc_face_bin e rs) fs ++ rest) (length fs) st =
  Ok (flat_map (fun f => fan_tris (map signed32 (nth ip f []))) fs, []).
Proof.
  intros e rs ip ct lt fs rest st N I F. revert st.
  induction F as [|f fs [F2 L34] F IH]; intros st; [reflexivity|].
  cbn [length flat_map faces_bin]. rewrite <- app_assoc.
  rewrite (face_bin_enc e ip None rs f 0 st _ F2). cbn [rbind].
  rewrite (face_fold_index ip rs f 0 st ct lt);
    [|lia|eapply Forall2_length'; eauto|rewrite Nat.sub_0_r; exact N].
  rewrite Nat.sub_0_r, face_step_ip.
  rewrite (face_out_fan lt _ st I L34). cbn [rbind].
  rewrite IH. cbn [rbind]. rewrite app_nil_r. reflexivity.
Qed.

(* ================= recognised groups ================= *)
Definition upd_ty (ty : option sty) (t : sty) : option sty := match ty with None => Some t | Some _ => ty end.
Definition scanG (bin : bool) (ps : vprops) (cur : nat) (tyf : option sty) (mo : string * option nat) : option nat :=
  match offsets_from bin ps (fst mo) cur with
  | Some (c, t) => if osty_eqb tyf t then Some c else None
  | None => snd mo
  end.
Definition final_ty (ty : option sty) (ms : list string) (ps : vprops) : option sty :=
  match ty with Some _ => ty | None => first_ty ms ps end.

Lemma scan_members_spec : forall ms offs ty cur t name, length offs = length ms ->
  scan_members ms offs ty cur t name =
  (map (fun mo => if seqb name (fst mo) then (if osty_eqb (upd_ty ty t) t then Some cur else None) else snd mo)
       (combine ms offs),
   if existsb (seqb name) ms then upd_ty ty t else ty).
Proof.
  induction ms as [|m ms IH]; intros [|o offs] ty cur t name L; try discriminate L; [reflexivity|].
  cbn [scan_members combine map existsb fst snd]. injection L as L.
  destruct (seqb name m) eqn:E.
  - rewrite (IH offs _ cur t name L). fold (upd_ty ty t).
    replace (upd_ty (upd_ty ty t) t) with (upd_ty ty t) by (destruct ty; reflexivity).
    cbn [orb]. destruct (existsb (seqb name) ms); reflexivity.
  - rewrite (IH offs ty cur t name L). reflexivity.
Qed.

Lemma map_snd_combine {A B} : forall (a : list A) (b : list B), length b = length a -> map snd (combine a b) = b.
Proof. induction a; intros [|y b] L; try discriminate L; [reflexivity|]. simpl. f_equal. apply IHa. simpl in L. lia. Qed.

Lemma combine_map_combine {A B} (h : A * B -> B) : forall (a : list A) (b : list B),
  combine a (map h (combine a b)) = map (fun mo => (fst mo, h mo)) (combine a b).
Proof. induction a; intros [|y b]; try reflexivity. simpl. f_equal. apply IHa. Qed.

Lemma offsets_from_none bin name : forall (ps : vprops) cur, ~ In name (names ps) -> offsets_from bin ps name cur = None.
Proof.
  induction ps as [|[t n] ps IH]; intros cur NI; [reflexivity|].
  cbn [offsets_from]. destruct (seqb n name) eqn:E.
  - apply String.eqb_eq in E. subst. exfalso. apply NI. left. reflexivity.
  - apply IH. intros I. apply NI. right. exact I.
Qed.

Lemma final_ty_step ty ms t n ps :
  final_ty (if existsb (seqb n) ms then upd_ty ty t else ty) ms ps = final_ty ty ms ((t, n) :: ps).
Proof. destruct ty; cbn [final_ty first_ty upd_ty]; destruct (existsb (seqb n) ms); reflexivity. Qed.

Lemma scan_props_spec bin ms : forall (ps : vprops) cur offs ty,
  NoDup (names ps) -> length offs = length ms ->
  scan_props bin ms (scalars ps) cur offs ty =
  Ok (map (scanG bin ps cur (final_ty ty ms ps)) (combine ms offs), final_ty ty ms ps).
Proof.
  induction ps as [|[t n] ps IH]; intros cur offs ty ND L.
  - cbn [scalars map scan_props]. f_equal. f_equal.
    + unfold scanG. cbn [offsets_from]. symmetry. apply map_snd_combine, L.
    + destruct ty; reflexivity.
  - cbn [scalars map scan_props]. rewrite scan_members_spec by exact L. cbv beta iota zeta.
    inversion ND as [|? ? NI ND']; subst. fold (scalars ps).
    rewrite IH; [|exact ND'|rewrite map_length, combine_length, L; apply Nat.min_id].
    rewrite final_ty_step. f_equal. f_equal.
    rewrite combine_map_combine, map_map. apply map_ext_in. intros [m o] I.
    unfold scanG. cbn [fst snd offsets_from].
    destruct (seqb n m) eqn:E; [|reflexivity].
    apply String.eqb_eq in E. subst m.
    rewrite (offsets_from_none bin n ps _ NI).
    assert (Ex : existsb (seqb n) ms = true).
    { apply existsb_exists. exists n. split; [eapply in_combine_l; exact I|apply String.eqb_refl]. }
    destruct ty; cbn [final_ty first_ty upd_ty]; rewrite ?Ex; reflexivity.
Qed.

(* GROUPS.  Under distinct property names, a vector reader for members ms is built exactly when every member is
   declared with the type t of the first declared member; its offsets are the members' layout offsets, its type t. *)
Theorem groups_become_attributes_proof : forall bin attr ms (ps : vprops),
  NoDup (names ps) ->
  build_vec bin attr ms (scalars ps) =
  Ok (match first_ty ms ps with
      | Some t => option_map (fun os => {| b_attr := attr; b_names := ms; b_offs := os; b_ty := t; b_v1 := false |})
                             (all_some (map (member_off bin ps t) ms))
      | None => None
      end).
Proof.
  intros bin attr ms ps ND. unfold build_vec.
  rewrite (scan_props_spec bin ms ps 0 (map (fun _ : string => @None nat) ms) None ND (map_length _ _)). cbn [rbind final_ty].
  assert (E : map (scanG bin ps 0 (first_ty ms ps)) (combine ms (map (fun _ : string => @None nat) ms)) =
              map (fun m => match offsets bin ps m with
                            | Some (c, t') => if osty_eqb (first_ty ms ps) t' then Some c else None
                            | None => None end) ms).
  { generalize (first_ty ms ps). intros tf. induction ms as [|m ms IHm]; [reflexivity|].
    cbn [map combine]. rewrite IHm. reflexivity. }
  rewrite E. destruct (first_ty ms ps) as [t|]; cbn [osty_eqb].
  - unfold member_off. destruct (all_some _); reflexivity.
  - destruct (all_some _); reflexivity.
Qed.

(* colour groups (IgnorableW): the four-member reader when red, green, blue and alpha share one type, otherwise the
   red-green-blue reader alone, wherever alpha is declared (behaviour after 04b414a and 473a5bb) *)
Theorem colour_fallback_proof : forall bin g r gn b a (ps : vprops),
  g_members g = [r; gn; b; a] -> g_ignorable_w g = true -> NoDup (names ps) ->
  build_group bin g (scalars ps) =
  Ok (match vec_reader bin (g_attr g) [r; gn; b; a] ps with
      | Some x => Some x
      | None => vec_reader bin (g_attr g) [r; gn; b] ps
      end).
Proof.
  intros bin g r gn b a ps M W ND. unfold build_group. rewrite M, W.
  rewrite (groups_become_attributes_proof bin (g_attr g) [r; gn; b; a] ps ND). cbn [rbind].
  fold (vec_reader bin (g_attr g) [r; gn; b; a] ps).
  destruct (vec_reader bin (g_attr g) [r; gn; b; a] ps); [reflexivity|].
  cbn [firstn]. rewrite (groups_become_attributes_proof bin (g_attr g) [r; gn; b] ps ND). reflexivity.
Qed.

(* ================= unclaimed properties ================= *)
Lemma build_v1_scalar_reader bin n (all : vprops) : build_v1 bin n n (scalars all) = Ok (scalar_reader bin all n).
Proof. rewrite build_v1_spec. reflexivity. Qed.

Lemma existsb_app' {A} (f : A -> bool) l1 l2 : existsb f (l1 ++ l2) = existsb f l1 || existsb f l2.
Proof. induction l1; simpl; [reflexivity|]. rewrite IHl1. apply orb_assoc. Qed.

Lemma scalar_reader_claims bin all n x n' : scalar_reader bin all n = Some x -> claims x n' = seqb n' n.
Proof.
  unfold scalar_reader. destruct (offsets bin all n) as [[off t]|]; [|discriminate].
  cbn [option_map]. intros E. injection E as <-. unfold claims. cbn [b_names existsb]. apply orb_false_r.
Qed.

Lemma flat_map_ext_in' {A B} (f g : A -> list B) l : (forall a, In a l -> f a = g a) -> flat_map f l = flat_map g l.
Proof. induction l as [|a l IH]; intros H; [reflexivity|]. simpl. rewrite (H a (or_introl eq_refl)), IH; [reflexivity|]. intros; apply H; right; assumption. Qed.

(* UNCLAIMED.  LoadUnspecifiedProperties appends, in header order, one scalar reader (attribute = the property's own
   name) for exactly the properties that none of the group readers claims *)
Theorem add_unclaimed_spec bin (all : vprops) : forall (todo : vprops) bs,
  NoDup (names todo) ->
  add_unclaimed bin (scalars all) (scalars todo) bs = Ok (bs ++ unclaimed_readers bin all bs todo).
Proof.
  induction todo as [|[t n] todo IH]; intros bs ND.
  - cbn. rewrite app_nil_r. reflexivity.
  - inversion ND as [|? ? NI ND']; subst.
    cbn [scalars map add_unclaimed prop_name]. fold (scalars todo).
    unfold unclaimed_readers. cbn [flat_map snd]. fold (unclaimed_readers bin all bs todo).
    destruct (existsb (fun b => claims b n) bs) eqn:C.
    + rewrite IH by exact ND'. reflexivity.
    + rewrite build_v1_scalar_reader. cbn [rbind].
      destruct (scalar_reader bin all n) as [x|] eqn:S.
      * rewrite IH by exact ND'. rewrite <- app_assoc. f_equal. f_equal. cbn [app]. f_equal.
        unfold unclaimed_readers. apply flat_map_ext_in'. intros [t' n'] I. cbn [snd].
        rewrite existsb_app'. cbn [existsb]. rewrite (scalar_reader_claims bin all n x n' S).
        assert (Hne : seqb n' n = false).
        { apply String.eqb_neq. intros ->. apply NI. unfold names. apply in_map_iff. exists (t', n). split; [reflexivity|exact I]. }
        rewrite Hne. rewrite !orb_false_r. reflexivity.
      * rewrite IH by exact ND'. reflexivity.
Qed.

(* ================= ascii faces ================= *)
Definition istep (k ip : nat) (lt : sty) (ws : list N) (st : fstate) : fstate :=
  if Nat.eqb k ip then
    {| fs_ibuf := overwrite (map (idx_ascii lt) ws) (fs_ibuf st); fs_tbuf := fs_tbuf st; fs_points := Z.of_nat (length ws) |}
  else st.
Fixpoint ifold (rs : list (sty * sty)) (f : list (list N)) (k ip : nat) (st : fstate) : fstate :=
  match rs, f with
  | (_, lt) :: rs', ws :: f' => ifold rs' f' (S k) ip (istep k ip lt ws st)
  | _, _ => st
  end.

Lemma tok_int_index lt w : index_ty_ok lt = true -> tok_int (tok_of_word lt w) = Some (idx_ascii lt w).
Proof. destruct lt; try discriminate; reflexivity. Qed.

Lemma mapR_tok_int lt ws : index_ty_ok lt = true ->
  mapR (fun t => of_opt EDeclared (tok_int t)) (map (tok_of_word lt) ws) = Ok (map (idx_ascii lt) ws).
Proof.
  intros I. induction ws as [|w ws IH]; [reflexivity|].
  cbn [map]. rewrite mapR_cons, (tok_int_index lt w I). cbn [of_opt rbind]. rewrite IH. reflexivity.
Qed.

Lemma face_ascii_cons_enc ct lt rs k ip ws rest st :
  (k = ip -> index_ty_ok lt = true /\ (length ws <= 4)%nat) ->
  face_ascii ((ct, lt) :: rs) k ip None (enc_list_ascii lt ws ++ rest) st =
  face_ascii rs (S k) ip None rest (istep k ip lt ws st).
Proof.
  intros H. unfold enc_list_ascii. cbn [app face_ascii tok_int of_opt rbind].
  replace (Z.of_nat (length ws) <? 0)%Z with false by (symmetry; apply Z.ltb_ge; lia).
  replace (Z.of_nat (length (map (tok_of_word lt) ws ++ rest)) <? Z.of_nat (length ws))%Z with false
    by (symmetry; apply Z.ltb_ge; rewrite app_length, map_length; lia).
  cbn [orb]. rewrite Nat2Z.id.
  assert (F1 : firstn (length ws) (map (tok_of_word lt) ws ++ rest) = map (tok_of_word lt) ws)
    by (rewrite <- (map_length (tok_of_word lt) ws); apply firstn_app_exact).
  assert (F2 : skipn (length ws) (map (tok_of_word lt) ws ++ rest) = rest)
    by (rewrite <- (map_length (tok_of_word lt) ws); apply skipn_app_length).
  rewrite F1, F2.
  unfold istep. cbn [nat_eqb_opt]. destruct (Nat.eqb k ip) eqn:E; cbn [rbind]; [|reflexivity].
  apply Nat.eqb_eq in E. destruct (H E) as [I L].
  replace (4 <? Z.of_nat (length ws))%Z with false by (symmetry; apply Z.ltb_ge; lia).
  rewrite (mapR_tok_int lt ws I). reflexivity.
Qed.

Lemma face_ascii_enc ip : forall rs f k st rest,
  length f = length rs ->
  (forall ct lt, (k <= ip)%nat -> nth_error rs (ip - k) = Some (ct, lt) ->
                 index_ty_ok lt = true /\ (length (nth (ip - k) f []) <= 4)%nat) ->
  face_ascii rs k ip None (enc_face_ascii rs f ++ rest) st = Ok (ifold rs f k ip st).
Proof.
  induction rs as [|[ct lt] rs IH]; intros f k st rest L H.
  - destruct f; [reflexivity|discriminate].
  - destruct f as [|ws f]; [discriminate|].
    unfold enc_face_ascii. cbn [combine flat_map]. rewrite <- app_assoc.
    rewrite face_ascii_cons_enc.
    + cbn [ifold]. apply IH; [simpl in L; lia|].
      intros ct' lt' Hk N. specialize (H ct' lt').
      replace (ip - k)%nat with (S (ip - S k)) in H by lia. cbn [nth_error nth] in H. apply H; [lia|exact N].
    + intros ->. specialize (H ct lt (le_n _)). rewrite Nat.sub_diag in H. cbn [nth_error nth] in H. apply H. reflexivity.
Qed.

Lemma ifold_after ip : forall rs f k st, (ip < k)%nat -> ifold rs f k ip st = st.
Proof.
  induction rs as [|[ct lt] rs IH]; intros f k st Hk; [reflexivity|].
  destruct f as [|ws f]; [reflexivity|]. cbn [ifold]. unfold istep.
  replace (Nat.eqb k ip) with false by (symmetry; apply Nat.eqb_neq; lia). apply IH. lia.
Qed.

Lemma ifold_index ip : forall rs f k st ct lt,
  (k <= ip)%nat -> length f = length rs -> nth_error rs (ip - k) = Some (ct, lt) ->
  ifold rs f k ip st = istep ip ip lt (nth (ip - k) f []) st.
Proof.
  induction rs as [|[ct0 lt0] rs IH]; intros f k st ct lt Hk L N.
  - destruct (ip - k)%nat; discriminate.
  - destruct f as [|ws f]; [discriminate|]. cbn [ifold].
    destruct (Nat.eq_dec k ip) as [->|Hne].
    + rewrite Nat.sub_diag in *. cbn [nth_error nth] in *. injection N as -> ->.
      apply ifold_after. lia.
    + assert (Es : istep k ip lt0 ws st = st)
        by (unfold istep; replace (Nat.eqb k ip) with false by (symmetry; apply Nat.eqb_neq; exact Hne); reflexivity).
      rewrite Es.
      replace (ip - k)%nat with (S (ip - S k)) in * by lia. cbn [nth_error nth] in *.
      apply (IH f (S k) st ct lt); [lia | simpl in L; lia | exact N].
Qed.

Lemma face_out_fan_ascii ip lt ws st :
  (length ws = 3%nat \/ length ws = 4%nat) ->
  face_out false (istep ip ip lt ws st) = Ok (fan_tris (map (idx_ascii lt) ws), []).
Proof.
  unfold istep. rewrite Nat.eqb_refl. intros [L|L].
  - destruct ws as [|a [|b [|c [|? ?]]]]; try discriminate L. reflexivity.
  - destruct ws as [|a [|b [|c [|d [|? ?]]]]]; try discriminate L. reflexivity.
Qed.

(* QUAD FAN, ascii: one face per line *)
Theorem quad_fan_ascii_proof : forall rs ip ct lt (fs : list (list (list N))) st,
  rs <> [] -> nth_error rs ip = Some (ct, lt) -> index_ty_ok lt = true ->
  Forall (fun f => length f = length rs /\ (length (nth ip f []) = 3%nat \/ length (nth ip f []) = 4%nat)) fs ->
  faces_ascii rs ip None (map (enc_face_ascii rs) fs) (length fs) st =
  Ok (flat_map (fun f => fan_tris (map (idx_ascii lt) (nth ip f []))) fs, []).
Proof.
  intros rs ip ct lt fs st NE N I F. revert st.
  induction F as [|f fs [L L34] F IH]; intros st; [reflexivity|].
  cbn [length map faces_ascii].
  assert (Hne : enc_face_ascii rs f <> []).
  { destruct rs as [|[c0 l0] rs]; [congruence|]. destruct f as [|ws f]; [discriminate|].
    unfold enc_face_ascii, enc_list_ascii. cbn [combine flat_map app]. discriminate. }
  destruct (enc_face_ascii rs f) as [|tk l] eqn:E; [congruence|]. rewrite <- E.
  rewrite <- (app_nil_r (enc_face_ascii rs f)).
  rewrite (face_ascii_enc ip rs f 0 st [] L).
  - cbn [rbind]. rewrite (ifold_index ip rs f 0 st ct lt); [|lia|exact L|rewrite Nat.sub_0_r; exact N].
    rewrite Nat.sub_0_r, (face_out_fan_ascii ip lt _ st L34). cbn [rbind].
    rewrite IH. cbn [rbind]. rewrite app_nil_r. reflexivity.
  - intros ct' lt' _ N'. rewrite Nat.sub_0_r in *. rewrite N in N'. injection N' as <- <-.
    split; [exact I|]. destruct L34 as [->| ->]; lia.
Qed.

(* ================= group readers return the members' values ================= *)
Lemma sty_eqb_eq a b : sty_eqb a b = true -> a = b.
Proof. destruct a, b; try discriminate; reflexivity. Qed.

Lemma all_some_map_Forall2 {A B} (f : A -> option B) : forall l os,
  all_some (map f l) = Some os -> Forall2 (fun a o => f a = Some o) l os.
Proof.
  induction l as [|a l IH]; intros os E.
  - injection E as <-. constructor.
  - cbn [map all_some] in E. destruct (f a) as [o|] eqn:Fa; [|discriminate].
    destruct (all_some (map f l)) as [os'|] eqn:El; [|discriminate].
    cbn [option_map] in E. injection E as <-. constructor; [exact Fa|apply IH; reflexivity].
Qed.

Lemma vec_reader_inv bin attr ms ps b : vec_reader bin attr ms ps = Some b ->
  b_v1 b = false /\ b_attr b = attr /\ b_names b = ms /\
  Forall2 (fun m o => member_off bin ps (b_ty b) m = Some o) ms (b_offs b).
Proof.
  unfold vec_reader. destruct (first_ty ms ps) as [t|]; [|discriminate].
  destruct (all_some (map (member_off bin ps t) ms)) as [os|] eqn:E; [|discriminate].
  cbn [option_map]. intros H. injection H as <-. cbn [b_v1 b_attr b_names b_offs b_ty].
  repeat split. apply all_some_map_Forall2, E.
Qed.

Lemma member_off_offsets bin ps t m o : member_off bin ps t m = Some o -> offsets bin ps m = Some (o, t).
Proof.
  unfold member_off. destruct (offsets bin ps m) as [[c t']|]; [|discriminate].
  destruct (sty_eqb t t') eqn:E; [|discriminate]. apply sty_eqb_eq in E. subst. intros H. injection H as <-. reflexivity.
Qed.

(* binary: the group reader returns, for record vals, the float64 images of its members' words, in member order *)
Theorem group_reads_members_bin_proof : forall e attr ms (ps : vprops) vals b,
  vec_reader true attr ms ps = Some b -> record_ok ps vals ->
  read_bin_row e b (enc_record_bin e (map fst ps) vals) =
  (if vertex_ty_ok (b_ty b) then mapR (member_value ps vals (b_ty b)) ms else Err EDeclared).
Proof.
  intros e attr ms ps vals b V R. destruct (vec_reader_inv _ _ _ _ _ V) as [_ [_ [_ F2]]].
  unfold read_bin_row. destruct (vertex_ty_ok (b_ty b)); [|reflexivity]. clear V.
  induction F2 as [|m o ms os Hm F2 IH]; [reflexivity|].
  rewrite !mapR_cons, IH.
  apply member_off_offsets in Hm.
  destruct (layout_bin_aux e m ps vals [] o (b_ty b) R Hm) as [w [Fw G]]. cbn [app] in G.
  rewrite G. cbn [of_opt rbind].
  replace (member_value ps vals (b_ty b) m) with (conv (b_ty b) w) by (unfold member_value, mesh_value; rewrite Fw; reflexivity).
  reflexivity.
Qed.

(* every byte value survives float64 -> integer recognition: the ascii path divides the same byte by 255 *)
Lemma small_nat_all : forallb (fun w => match f64_small_nat (cvI (Z.of_N w)) with Some b => b =? w | None => false end)
                              (map N.of_nat (seq 0 256)) = true.
Proof. vm_compute. reflexivity. Qed.
Lemma f64_small_nat_byte w : w < 256 -> f64_small_nat (cvI (Z.of_N w)) = Some w.
Proof.
  intros H. pose proof small_nat_all as A. rewrite forallb_forall in A.
  specialize (A w). assert (I : In w (map N.of_nat (seq 0 256))).
  { apply in_map_iff. exists (N.to_nat w). split; [apply N2Nat.id|]. apply in_seq. lia. }
  specialize (A I). destruct (f64_small_nat (cvI (Z.of_N w))) as [b|]; [|discriminate].
  apply N.eqb_eq in A. subst. reflexivity.
Qed.
Lemma div255_byte_tok w : w < 256 -> div255 (cvI (Z.of_N w)) = div255_byte w.
Proof. intros H. unfold div255. rewrite (f64_small_nat_byte w H). reflexivity. Qed.

Lemma rbind_ok_id {A} (r : result A) : rbind r (fun x => Ok x) = r.
Proof. destruct r; reflexivity. Qed.

(* ascii: the same values, including colour bytes (divided by 255 exactly as in binary files) *)
Theorem group_reads_members_ascii_proof : forall attr ms (ps : vprops) vals b,
  vec_reader false attr ms ps = Some b -> record_ok ps vals -> vertex_ty_ok (b_ty b) = true ->
  read_ascii_row b (enc_record_ascii (map fst ps) vals) = mapR (member_value ps vals (b_ty b)) ms.
Proof.
  intros attr ms ps vals b V R S. destruct (vec_reader_inv _ _ _ _ _ V) as [V1 [_ [_ F2]]].
  unfold read_ascii_row. rewrite V1. cbn [negb andb]. clear V V1.
  assert (L : length vals = length ps) by (apply record_ok_length, R).
  (* the raw tokens *)
  assert (T : forall m o, member_off false ps (b_ty b) m = Some o ->
            exists w, field_word ps vals m = Some (b_ty b, w) /\ word_fits (b_ty b) w /\
                      nth_error (enc_record_ascii (map fst ps) vals) o = Some (tok_of_word (b_ty b) w)).
  { intros m o Hm. apply member_off_offsets in Hm.
    destruct (layout_ascii_aux m ps vals [] o (b_ty b) L Hm) as [w [Fw G]]. cbn [app] in G.
    exists w. split; [exact Fw|]. split; [|exact G].
    clear - R Fw. induction R as [|[t n] w0 ps ws Hw R IH]; [discriminate|].
    cbn [field_word] in Fw. destruct (seqb n m); [injection Fw as <- <-; exact Hw|apply IH, Fw]. }
  destruct (b_ty b) eqn:Ty; try discriminate S; cbn [sty_eqb].
  - (* uchar: values then division *)
    assert (M : mapR (fun off => dor t <- of_opt ECrash (nth_error (enc_record_ascii (map fst ps) vals) off); of_opt EDeclared (tok_f64 t)) (b_offs b)
                = Ok (map (fun m => match field_word ps vals m with Some (_, w) => cvI (Z.of_N w) | None => 0 end) ms)
                /\ Forall (fun m => exists w, field_word ps vals m = Some (UChar, w) /\ w < 256) ms).
    { induction F2 as [|m o ms os Hm F2 IH]; [split; [reflexivity|constructor]|].
      destruct (T m o Hm) as [w [Fw [Hf G]]]. destruct IH as [IH1 IH2].
      rewrite mapR_cons, G. cbn [of_opt rbind tok_of_word tok_f64]. rewrite IH1. cbn [rbind map]. rewrite Fw.
      split; [reflexivity|]. constructor; [|exact IH2]. exists w. split; [exact Fw|]. eapply fits1; [|exact Hf]. reflexivity. }
    destruct M as [M1 M2]. rewrite M1. cbn [rbind]. rewrite mapR_map.
    clear - M2. induction M2 as [|m ms [w [Fw Hw]] M2 IH]; [reflexivity|].
    rewrite !mapR_cons, IH.
    replace (member_value ps vals UChar m) with (div255_byte w) by (unfold member_value, mesh_value; rewrite Fw; reflexivity).
    rewrite Fw, (div255_byte_tok w Hw). reflexivity.
  - rewrite rbind_ok_id. induction F2 as [|m o ms os Hm F2 IH]; [reflexivity|].
    destruct (T m o Hm) as [w [Fw [_ G]]]. rewrite !mapR_cons, G, IH.
    replace (member_value ps vals Int m) with (mesh_value Int w) by (unfold member_value; rewrite Fw; reflexivity). reflexivity.
  - rewrite rbind_ok_id. induction F2 as [|m o ms os Hm F2 IH]; [reflexivity|].
    destruct (T m o Hm) as [w [Fw [_ G]]]. rewrite !mapR_cons, G, IH.
    replace (member_value ps vals Float m) with (mesh_value Float w) by (unfold member_value; rewrite Fw; reflexivity). reflexivity.
  - rewrite rbind_ok_id. induction F2 as [|m o ms os Hm F2 IH]; [reflexivity|].
    destruct (T m o Hm) as [w [Fw [_ G]]]. rewrite !mapR_cons, G, IH.
    replace (member_value ps vals Double m) with (mesh_value Double w) by (unfold member_value; rewrite Fw; reflexivity). reflexivity.
Qed.

(* ================= faces with per-corner texture coordinates ================= *)
(* each field of the reader state evolves on its own *)
Lemma step_points k ip tp lt ws st :
  fs_points (face_step k ip tp lt ws st) = if Nat.eqb k ip then Z.of_nat (length ws) else fs_points st.
Proof.
  unfold face_step. destruct (Nat.eqb k ip), (4 <? Z.of_nat (length ws))%Z, (nat_eqb_opt tp k), (8 <? Z.of_nat (length ws))%Z, lt; reflexivity.
Qed.
Lemma step_ibuf k ip tp lt ws st :
  fs_ibuf (face_step k ip tp lt ws st) =
  if Nat.eqb k ip && negb (4 <? Z.of_nat (length ws))%Z && index_ty_ok lt
  then overwrite (map signed32 ws) (fs_ibuf st) else fs_ibuf st.
Proof.
  unfold face_step. destruct (Nat.eqb k ip), (4 <? Z.of_nat (length ws))%Z, (nat_eqb_opt tp k), (8 <? Z.of_nat (length ws))%Z, lt; reflexivity.
Qed.
Lemma step_tbuf k ip tp lt ws st :
  fs_tbuf (face_step k ip tp lt ws st) =
  if nat_eqb_opt tp k && negb (8 <? Z.of_nat (length ws))%Z
  then match lt with Float => overwrite (map cvF ws) (fs_tbuf st) | Double => overwrite ws (fs_tbuf st) | _ => fs_tbuf st end
  else fs_tbuf st.
Proof.
  unfold face_step. destruct (Nat.eqb k ip), (4 <? Z.of_nat (length ws))%Z, (nat_eqb_opt tp k), (8 <? Z.of_nat (length ws))%Z, lt; reflexivity.
Qed.

Section Fold.
Variables (ip tk : nat).
Let tp := Some tk.

Lemma fold_points_after : forall rs f k st, (ip < k)%nat -> fs_points (face_fold rs f k ip tp st) = fs_points st.
Proof.
  induction rs as [|[ct lt] rs IH]; intros f k st Hk; [reflexivity|]. destruct f as [|ws f]; [reflexivity|].
  cbn [face_fold]. rewrite IH by lia. rewrite step_points.
  replace (Nat.eqb k ip) with false by (symmetry; apply Nat.eqb_neq; lia). reflexivity.
Qed.
Lemma fold_points : forall rs f k st ct lt, (k <= ip)%nat -> length f = length rs ->
  nth_error rs (ip - k) = Some (ct, lt) ->
  fs_points (face_fold rs f k ip tp st) = Z.of_nat (length (nth (ip - k) f [])).
Proof.
  induction rs as [|[ct0 lt0] rs IH]; intros f k st ct lt Hk L N.
  - destruct (ip - k)%nat; discriminate.
  - destruct f as [|ws f]; [discriminate|]. cbn [face_fold].
    destruct (Nat.eq_dec k ip) as [->|Hne].
    + rewrite Nat.sub_diag. cbn [nth]. rewrite fold_points_after by lia. rewrite step_points, Nat.eqb_refl. reflexivity.
    + replace (ip - k)%nat with (S (ip - S k)) in * by lia. cbn [nth_error nth] in *.
      apply (IH f (S k) _ ct lt); [lia | simpl in L; lia | exact N].
Qed.

Lemma fold_ibuf_after : forall rs f k st, (ip < k)%nat -> fs_ibuf (face_fold rs f k ip tp st) = fs_ibuf st.
Proof.
  induction rs as [|[ct lt] rs IH]; intros f k st Hk; [reflexivity|]. destruct f as [|ws f]; [reflexivity|].
  cbn [face_fold]. rewrite IH by lia. rewrite step_ibuf.
  replace (Nat.eqb k ip) with false by (symmetry; apply Nat.eqb_neq; lia). reflexivity.
Qed.
Lemma fold_ibuf : forall rs f k st ct lt, (k <= ip)%nat -> length f = length rs ->
  nth_error rs (ip - k) = Some (ct, lt) -> index_ty_ok lt = true -> (length (nth (ip - k) f []) <= 4)%nat ->
  fs_ibuf (face_fold rs f k ip tp st) = overwrite (map signed32 (nth (ip - k) f [])) (fs_ibuf st).
Proof.
  induction rs as [|[ct0 lt0] rs IH]; intros f k st ct lt Hk L N I L4.
  - destruct (ip - k)%nat; discriminate.
  - destruct f as [|ws f]; [discriminate|]. cbn [face_fold].
    destruct (Nat.eq_dec k ip) as [->|Hne].
    + rewrite Nat.sub_diag in *. cbn [nth_error nth] in *. injection N as -> ->.
      rewrite fold_ibuf_after by lia. rewrite step_ibuf, Nat.eqb_refl, I.
      replace (4 <? Z.of_nat (length ws))%Z with false by (symmetry; apply Z.ltb_ge; lia). reflexivity.
    + replace (ip - k)%nat with (S (ip - S k)) in * by lia. cbn [nth_error nth] in *.
      rewrite (IH f (S k) _ ct lt); [|lia | simpl in L; lia | exact N | exact I | exact L4].
      rewrite step_ibuf. replace (Nat.eqb k ip) with false by (symmetry; apply Nat.eqb_neq; exact Hne). reflexivity.
Qed.

Lemma fold_tbuf_after : forall rs f k st, (tk < k)%nat -> fs_tbuf (face_fold rs f k ip tp st) = fs_tbuf st.
Proof.
  induction rs as [|[ct lt] rs IH]; intros f k st Hk; [reflexivity|]. destruct f as [|ws f]; [reflexivity|].
  cbn [face_fold]. rewrite IH by lia. rewrite step_tbuf. unfold tp. cbn [nat_eqb_opt].
  replace (Nat.eqb tk k) with false by (symmetry; apply Nat.eqb_neq; lia). reflexivity.
Qed.
Lemma fold_tbuf : forall rs f k st ct lt, (k <= tk)%nat -> length f = length rs ->
  nth_error rs (tk - k) = Some (ct, lt) -> (length (nth (tk - k) f []) <= 8)%nat ->
  fs_tbuf (face_fold rs f k ip tp st) = overwrite (map (tex_value lt) (nth (tk - k) f [])) (fs_tbuf st) \/
  (lt <> Float /\ lt <> Double).
Proof.
  induction rs as [|[ct0 lt0] rs IH]; intros f k st ct lt Hk L N L8.
  - destruct (tk - k)%nat; discriminate.
  - destruct f as [|ws f]; [discriminate|]. cbn [face_fold].
    destruct (Nat.eq_dec k tk) as [->|Hne].
    + rewrite Nat.sub_diag in *. cbn [nth_error nth] in *. injection N as -> ->.
      rewrite fold_tbuf_after by lia. rewrite step_tbuf. unfold tp. cbn [nat_eqb_opt]. rewrite Nat.eqb_refl.
      replace (8 <? Z.of_nat (length ws))%Z with false by (symmetry; apply Z.ltb_ge; lia). cbn [negb andb].
      destruct lt; try (right; split; discriminate); left; try reflexivity.
      unfold tex_value. rewrite map_id. reflexivity.
    + replace (tk - k)%nat with (S (tk - S k)) in * by lia. cbn [nth_error nth] in *.
      destruct (IH f (S k) (face_step k ip tp lt0 ws st) ct lt) as [E|E]; [lia | simpl in L; lia | exact N | exact L8 | |right; exact E].
      left. rewrite E, step_tbuf. unfold tp. cbn [nat_eqb_opt].
      replace (Nat.eqb tk k) with false by (symmetry; apply Nat.eqb_neq; lia). reflexivity.
Qed.
End Fold.

(* what face_out makes of the buffers *)
Lemma face_out_tex ws ts st :
  (length ws = 3%nat /\ length ts = 6%nat) \/ (length ws = 4%nat /\ length ts = 8%nat) ->
  fs_points st = Z.of_nat (length ws) ->
  fs_ibuf st = overwrite ws [0; 0; 0; 0]%Z \/ (exists old, length old = 4%nat /\ fs_ibuf st = overwrite ws old) ->
  (exists oldt, length oldt = 8%nat /\ fs_tbuf st = overwrite ts oldt) ->
  face_out true st = Ok (fan_tris ws, fan (pairs ts) []).
Proof.
  intros H P I [oldt [Lt T]].
  assert (I' : exists old, length old = 4%nat /\ fs_ibuf st = overwrite ws old)
    by (destruct I as [I|I]; [exists [0; 0; 0; 0]%Z; split; [reflexivity|exact I]|exact I]).
  destruct I' as [old [Lo Ib]]. unfold face_out. rewrite P, Ib, T.
  destruct H as [[Lw Lts]|[Lw Lts]].
  - destruct ws as [|a [|b [|c [|? ?]]]]; try discriminate Lw.
    destruct ts as [|t0 [|t1 [|t2 [|t3 [|t4 [|t5 [|? ?]]]]]]]; try discriminate Lts. reflexivity.
  - destruct ws as [|a [|b [|c [|d [|? ?]]]]]; try discriminate Lw.
    destruct ts as [|t0 [|t1 [|t2 [|t3 [|t4 [|t5 [|t6 [|t7 [|? ?]]]]]]]]]; try discriminate Lts. reflexivity.
Qed.

Lemma overwrite_length {A} (new old : list A) : (length new <= length old)%nat -> length (overwrite new old) = length old.
Proof. intros H. unfold overwrite. rewrite app_length, skipn_length. lia. Qed.

Theorem quad_fan_tex_bin_proof : forall e rs ip tk ct lt ctt ltt (fs : list (list (list N))) rest st,
  nth_error rs ip = Some (ct, lt) -> index_ty_ok lt = true ->
  nth_error rs tk = Some (ctt, ltt) -> (ltt = Float \/ ltt = Double) ->
  length (fs_ibuf st) = 4%nat -> length (fs_tbuf st) = 8%nat ->
  Forall (tex_face_ok rs ip tk) fs ->
  faces_bin e rs ip (Some tk) (flat_map (enc_face_bin e rs) fs ++ rest) (length fs) st =
  Ok (flat_map (fun f => fan_tris (map signed32 (nth ip f []))) fs,
      flat_map (fun f => fan (pairs (map (tex_value ltt) (nth tk f []))) []) fs).
Proof.
  intros e rs ip tk ct lt ctt ltt fs rest st N I Nt Ft Li Lt F. revert st Li Lt.
  induction F as [|f fs [F2 L34] F IH]; intros st Li Lt; [reflexivity|].
  cbn [length flat_map faces_bin]. rewrite <- app_assoc.
  rewrite (face_bin_enc e ip (Some tk) rs f 0 st _ F2). cbn [rbind].
  pose proof (Forall2_length' _ _ _ F2) as L.
  set (st' := face_fold rs f 0 ip (Some tk) st).
  assert (P : fs_points st' = Z.of_nat (length (nth ip f []))).
  { unfold st'. rewrite (fold_points ip tk rs f 0 st ct lt); [rewrite Nat.sub_0_r; reflexivity|lia|exact L|rewrite Nat.sub_0_r; exact N]. }
  assert (Ib : fs_ibuf st' = overwrite (map signed32 (nth ip f [])) (fs_ibuf st)).
  { unfold st'. rewrite (fold_ibuf ip tk rs f 0 st ct lt); [rewrite Nat.sub_0_r; reflexivity|lia|exact L|rewrite Nat.sub_0_r; exact N|exact I|].
    rewrite Nat.sub_0_r. destruct L34 as [[-> _]|[-> _]]; lia. }
  assert (Tb : fs_tbuf st' = overwrite (map (tex_value ltt) (nth tk f [])) (fs_tbuf st)).
  { unfold st'. destruct (fold_tbuf ip tk rs f 0 st ctt ltt) as [E|[E1 E2]];
      [lia|exact L|rewrite Nat.sub_0_r; exact Nt| | |].
    - rewrite Nat.sub_0_r. destruct L34 as [[_ ->]|[_ ->]]; lia.
    - rewrite Nat.sub_0_r in E. exact E.
    - destruct Ft; congruence. }
  rewrite (face_out_tex (map signed32 (nth ip f [])) (map (tex_value ltt) (nth tk f [])) st').
  - cbn [rbind]. rewrite IH.
    + cbn [rbind]. reflexivity.
    + fold st'. rewrite Ib, overwrite_length; [exact Li|]. rewrite map_length, Li. destruct L34 as [[-> _]|[-> _]]; lia.
    + fold st'. rewrite Tb, overwrite_length; [exact Lt|]. rewrite map_length, Lt. destruct L34 as [[_ ->]|[_ ->]]; lia.
  - rewrite !map_length. exact L34.
  - rewrite map_length. exact P.
  - right. exists (fs_ibuf st). split; [exact Li|exact Ib].
  - exists (fs_tbuf st). split; [exact Lt|exact Tb].
Qed.

(* ================= ascii faces with per-corner texture coordinates ================= *)
(* under the conditions below the ascii list reader changes the state exactly as the binary one ([face_step]) *)
Definition pos_ok (ip : nat) (tp : option nat) (k : nat) (lt : sty) (ws : list N) : Prop :=
  (k = ip -> index_ty_ok lt = true /\ (length ws <= 4)%nat /\ Forall (fun w => w < 2 ^ 31) ws) /\
  (nat_eqb_opt tp k = true -> (lt = Float \/ lt = Double) /\ (length ws <= 8)%nat).
Fixpoint all_pos_ok (ip : nat) (tp : option nat) (k : nat) (rs : list (sty * sty)) (f : list (list N)) : Prop :=
  match rs, f with
  | (_, lt) :: rs', ws :: f' => pos_ok ip tp k lt ws /\ all_pos_ok ip tp (S k) rs' f'
  | [], [] => True
  | _, _ => False
  end.

Lemma idx_ascii_signed lt ws : Forall (fun w => w < 2 ^ 31) ws -> map (idx_ascii lt) ws = map signed32 ws.
Proof.
  intros F. apply map_ext_in. intros w Iw. rewrite Forall_forall in F. specialize (F w Iw). unfold idx_ascii, signed32.
  replace (w <? 2 ^ 31) with true by (symmetry; apply N.ltb_lt; exact F). destruct lt; reflexivity.
Qed.

Lemma mapR_tok_f64 lt ws : lt = Float \/ lt = Double ->
  mapR (fun t => of_opt EDeclared (tok_f64 t)) (map (tok_of_word lt) ws) = Ok (map (tex_value lt) ws).
Proof.
  intros H. induction ws as [|w ws IH]; [reflexivity|]. cbn [map]. rewrite mapR_cons, IH.
  destruct H as [-> | ->]; reflexivity.
Qed.

Lemma face_ascii_cons_step ct lt rs k ip tp ws rest st :
  pos_ok ip tp k lt ws ->
  face_ascii ((ct, lt) :: rs) k ip tp (enc_list_ascii lt ws ++ rest) st =
  face_ascii rs (S k) ip tp rest (face_step k ip tp lt ws st).
Proof.
  intros [Hi Ht]. unfold enc_list_ascii. cbn [app face_ascii tok_int of_opt rbind].
  replace (Z.of_nat (length ws) <? 0)%Z with false by (symmetry; apply Z.ltb_ge; lia).
  replace (Z.of_nat (length (map (tok_of_word lt) ws ++ rest)) <? Z.of_nat (length ws))%Z with false
    by (symmetry; apply Z.ltb_ge; rewrite app_length, map_length; lia).
  cbn [orb]. rewrite Nat2Z.id.
  assert (F1 : firstn (length ws) (map (tok_of_word lt) ws ++ rest) = map (tok_of_word lt) ws)
    by (rewrite <- (map_length (tok_of_word lt) ws); apply firstn_app_exact).
  assert (F2 : skipn (length ws) (map (tok_of_word lt) ws ++ rest) = rest)
    by (rewrite <- (map_length (tok_of_word lt) ws); apply skipn_app_length).
  rewrite F1, F2. unfold face_step.
  destruct (Nat.eqb k ip) eqn:E.
  - apply Nat.eqb_eq in E. destruct (Hi E) as [I [L4 Sm]].
    replace (4 <? Z.of_nat (length ws))%Z with false by (symmetry; apply Z.ltb_ge; lia).
    rewrite (mapR_tok_int lt ws I), (idx_ascii_signed lt ws Sm). cbn [rbind].
    destruct (nat_eqb_opt tp k) eqn:Et.
    + destruct (Ht eq_refl) as [Fl L8].
      replace (8 <? Z.of_nat (length ws))%Z with false by (symmetry; apply Z.ltb_ge; lia).
      destruct Fl as [-> | ->]; discriminate I.
    + cbn [rbind]. destruct lt; try discriminate I; reflexivity.
  - cbn [rbind]. destruct (nat_eqb_opt tp k) eqn:Et; [|reflexivity].
    destruct (Ht eq_refl) as [Fl L8].
    replace (8 <? Z.of_nat (length ws))%Z with false by (symmetry; apply Z.ltb_ge; lia).
    rewrite (mapR_tok_f64 lt ws Fl). cbn [rbind fs_ibuf fs_tbuf fs_points].
    destruct Fl as [-> | ->]; cbn [tex_value]; [reflexivity|]. rewrite map_id. reflexivity.
Qed.

Lemma face_ascii_fold ip tp : forall rs f k st,
  all_pos_ok ip tp k rs f ->
  face_ascii rs k ip tp (enc_face_ascii rs f) st = Ok (face_fold rs f k ip tp st).
Proof.
  induction rs as [|[ct lt] rs IH]; intros f k st A.
  - destruct f; [reflexivity|contradiction].
  - destruct f as [|ws f]; [contradiction|]. destruct A as [P A].
    unfold enc_face_ascii. cbn [combine flat_map]. rewrite face_ascii_cons_step by exact P.
    cbn [face_fold]. apply IH, A.
Qed.

Lemma all_pos_ok_intro ip tp : forall rs f k, length f = length rs ->
  (forall j ct lt ws, nth_error rs j = Some (ct, lt) -> nth_error f j = Some ws -> pos_ok ip tp (k + j) lt ws) ->
  all_pos_ok ip tp k rs f.
Proof.
  induction rs as [|[ct lt] rs IH]; intros f k L H.
  - destruct f; [exact I|discriminate].
  - destruct f as [|ws f]; [discriminate|]. split.
    + specialize (H 0%nat ct lt ws eq_refl eq_refl). rewrite Nat.add_0_r in H. exact H.
    + apply IH; [simpl in L; lia|]. intros j c l w Hr Hf. specialize (H (S j) c l w Hr Hf).
      replace (S k + j)%nat with (k + S j)%nat by lia. exact H.
Qed.

(* QUAD FAN with texture coordinates, ascii: one face per line *)
Theorem quad_fan_tex_ascii_proof : forall rs ip tk ct lt ctt ltt (fs : list (list (list N))) st,
  rs <> [] -> nth_error rs ip = Some (ct, lt) -> index_ty_ok lt = true ->
  nth_error rs tk = Some (ctt, ltt) -> (ltt = Float \/ ltt = Double) ->
  length (fs_ibuf st) = 4%nat -> length (fs_tbuf st) = 8%nat ->
  Forall (fun f => length f = length rs /\
                   ((length (nth ip f []) = 3%nat /\ length (nth tk f []) = 6%nat) \/
                    (length (nth ip f []) = 4%nat /\ length (nth tk f []) = 8%nat)) /\
                   Forall (fun w => w < 2 ^ 31) (nth ip f [])) fs ->
  faces_ascii rs ip (Some tk) (map (enc_face_ascii rs) fs) (length fs) st =
  Ok (flat_map (fun f => fan_tris (map signed32 (nth ip f []))) fs,
      flat_map (fun f => fan (pairs (map (tex_value ltt) (nth tk f []))) []) fs).
Proof.
  intros rs ip tk ct lt ctt ltt fs st NE N I Nt Ft Li Lt F. revert st Li Lt.
  induction F as [|f fs [L [L34 Sm]] F IH]; intros st Li Lt; [reflexivity|].
  cbn [length map faces_ascii].
  assert (Hne : enc_face_ascii rs f <> []).
  { destruct rs as [|[c0 l0] rs]; [congruence|]. destruct f as [|ws f]; [discriminate|].
    unfold enc_face_ascii, enc_list_ascii. cbn [combine flat_map app]. discriminate. }
  destruct (enc_face_ascii rs f) as [|tk0 l0] eqn:E; [congruence|]. rewrite <- E.
  assert (A : all_pos_ok ip (Some tk) 0 rs f).
  { apply all_pos_ok_intro; [exact L|]. intros j c l w Hr Hf. cbn [Nat.add]. split.
    - intros ->. rewrite N in Hr. injection Hr as <- <-.
      assert (w = nth ip f []) by (symmetry; apply nth_error_nth; exact Hf). subst w.
      split; [exact I|]. split; [destruct L34 as [[-> _]|[-> _]]; lia|exact Sm].
    - cbn [nat_eqb_opt]. intros Ek. apply Nat.eqb_eq in Ek. subst j. rewrite Nt in Hr. injection Hr as <- <-.
      assert (w = nth tk f []) by (symmetry; apply nth_error_nth; exact Hf). subst w.
      split; [exact Ft|]. destruct L34 as [[_ ->]|[_ ->]]; lia. }
  rewrite (face_ascii_fold ip (Some tk) rs f 0 st A). cbn [rbind].
  set (st' := face_fold rs f 0 ip (Some tk) st).
  assert (P : fs_points st' = Z.of_nat (length (nth ip f []))).
  { unfold st'. rewrite (fold_points ip tk rs f 0 st ct lt); [rewrite Nat.sub_0_r; reflexivity|lia|exact L|rewrite Nat.sub_0_r; exact N]. }
  assert (Ib : fs_ibuf st' = overwrite (map signed32 (nth ip f [])) (fs_ibuf st)).
  { unfold st'. rewrite (fold_ibuf ip tk rs f 0 st ct lt); [rewrite Nat.sub_0_r; reflexivity|lia|exact L|rewrite Nat.sub_0_r; exact N|exact I|].
    rewrite Nat.sub_0_r. destruct L34 as [[-> _]|[-> _]]; lia. }
  assert (Tb : fs_tbuf st' = overwrite (map (tex_value ltt) (nth tk f [])) (fs_tbuf st)).
  { unfold st'. destruct (fold_tbuf ip tk rs f 0 st ctt ltt) as [E'|[E1 E2]];
      [lia|exact L|rewrite Nat.sub_0_r; exact Nt| | |].
    - rewrite Nat.sub_0_r. destruct L34 as [[_ ->]|[_ ->]]; lia.
    - rewrite Nat.sub_0_r in E'. exact E'.
    - destruct Ft; congruence. }
  rewrite (face_out_tex (map signed32 (nth ip f [])) (map (tex_value ltt) (nth tk f [])) st').
  - cbn [rbind]. rewrite IH.
    + cbn [rbind]. reflexivity.
    + fold st'. rewrite Ib, overwrite_length; [exact Li|]. rewrite map_length, Li. destruct L34 as [[-> _]|[-> _]]; lia.
    + fold st'. rewrite Tb, overwrite_length; [exact Lt|]. rewrite map_length, Lt. destruct L34 as [[_ ->]|[_ ->]]; lia.
  - rewrite !map_length. exact L34.
  - rewrite map_length. exact P.
  - right. exists (fs_ibuf st). split; [exact Li|exact Ib].
  - exists (fs_tbuf st). split; [exact Lt|exact Tb].
Qed.
