(* C08: proofs about the PLY reader model (Formats/PlyRead.v) against the reference encoder of the
   specification's grammar.  Vocabulary: Formats/PlyReadSpec.v. *)
From PF Require Import Base.Bytes Base.BytesProofs Base.BytesMore Formats.PlyRead Formats.PlyReadSpec.
From Coq Require Import String ZifyN ZifyNat ZifyBool.
Open Scope list_scope.
Open Scope N_scope.
Ltac Zify.zify_post_hook ::= Z.div_mod_to_equations.
Local Notation length := List.length.

(* ================= words ================= *)
Lemma enc_word_length e t w : length (enc_word e t w) = sty_size t.
Proof. destruct e, t; reflexivity. Qed.

Lemma fits1 t w : sty_size t = 1%nat -> word_fits t w -> w < 256.
Proof. unfold word_fits. intros ->. change (2 ^ (8 * N.of_nat 1)) with 256. auto. Qed.
Lemma fits2 t w : sty_size t = 2%nat -> word_fits t w -> word16 w.
Proof. unfold word_fits, word16. intros ->. change (2 ^ (8 * N.of_nat 2)) with 65536. auto. Qed.
Lemma fits4 t w : sty_size t = 4%nat -> word_fits t w -> word32 w.
Proof. unfold word_fits, word32. intros ->. change (2 ^ (8 * N.of_nat 4)) with 4294967296. auto. Qed.
Lemma fits8 t w : sty_size t = 8%nat -> word_fits t w -> word64 w.
Proof. unfold word_fits, word64. intros ->. change (2 ^ (8 * N.of_nat 8)) with 18446744073709551616. auto. Qed.

(* every scalar type, both byte orders: decoding the encoded word gives the word back *)
Lemma dec_enc_word e t w : word_fits t w -> dec_word e t (enc_word e t w) = Some w.
Proof.
  intros H. unfold dec_word, enc_word.
  destruct t; cbn [sty_size]; destruct e; try reflexivity;
    try rewrite rev_involutive;
    first [ apply de_le16_le16; eapply fits2; [|exact H]; reflexivity
          | apply de_le32_le32; eapply fits4; [|exact H]; reflexivity
          | apply de_be32_be32; eapply fits4; [|exact H]; reflexivity
          | apply de_le64_le64; eapply fits8; [|exact H]; reflexivity
          | apply de_be64_be64; eapply fits8; [|exact H]; reflexivity ].
Qed.

Lemma get_word_enc e t w pre post :
  word_fits t w -> get_word e t (length pre) (pre ++ enc_word e t w ++ post) = Some w.
Proof.
  intros H. unfold get_word, slice. rewrite skipn_app_length.
  rewrite (take_app_exact (enc_word e t w) post) by (symmetry; apply enc_word_length).
  cbn [bind]. apply dec_enc_word, H.
Qed.

(* ================= layout ================= *)
Lemma enc_record_bin_cons e t ts w ws :
  enc_record_bin e (t :: ts) (w :: ws) = enc_word e t w ++ enc_record_bin e ts ws.
Proof. reflexivity. Qed.
Lemma enc_record_ascii_cons t ts w ws :
  enc_record_ascii (t :: ts) (w :: ws) = tok_of_word t w :: enc_record_ascii ts ws.
Proof. reflexivity. Qed.

Lemma enc_record_bin_length e (ps : vprops) vals :
  length vals = length ps -> length (enc_record_bin e (map fst ps) vals) = record_size (scalars ps).
Proof.
  revert vals. induction ps as [|[t n] ps IH]; intros [|w ws] L; try discriminate; [reflexivity|].
  cbn [map fst]. rewrite enc_record_bin_cons, app_length, enc_word_length.
  cbn [scalars map record_size fold_right]. f_equal. apply IH. simpl in L. lia.
Qed.
Lemma enc_record_ascii_length (ps : vprops) vals :
  length vals = length ps -> length (enc_record_ascii (map fst ps) vals) = length ps.
Proof.
  intros L. unfold enc_record_ascii. rewrite map_length, combine_length, map_length. lia.
Qed.

Lemma layout_bin_aux e name : forall (ps : vprops) vals pre off t,
  record_ok ps vals ->
  offsets_from true ps name (length pre) = Some (off, t) ->
  exists w, field_word ps vals name = Some (t, w) /\
            get_word e t off (pre ++ enc_record_bin e (map fst ps) vals) = Some w.
Proof.
  induction ps as [|[t0 n0] ps IH]; intros vals pre off t R O; [discriminate|].
  inversion R as [|p w ps' ws Hw R']; subst. cbn [fst] in Hw.
  cbn [offsets_from field_word map fst] in *. rewrite enc_record_bin_cons.
  destruct (seqb n0 name).
  - apply some_inj in O. injection O as <- <-. exists w. split; [reflexivity|].
    apply get_word_enc, Hw.
  - unfold advance in O. rewrite <- (enc_word_length e t0 w), <- app_length in O.
    destruct (IH ws (pre ++ enc_word e t0 w) off t R' O) as [w' [F G]].
    exists w'. split; [exact F|]. rewrite <- app_assoc in G. exact G.
Qed.

Lemma layout_ascii_aux name : forall (ps : vprops) vals (pre : list tok) off t,
  length vals = length ps ->
  offsets_from false ps name (length pre) = Some (off, t) ->
  exists w, field_word ps vals name = Some (t, w) /\
            nth_error (pre ++ enc_record_ascii (map fst ps) vals) off = Some (tok_of_word t w).
Proof.
  induction ps as [|[t0 n0] ps IH]; intros vals pre off t L O; [discriminate|].
  destruct vals as [|w ws]; [discriminate|].
  cbn [offsets_from field_word map fst] in *. rewrite enc_record_ascii_cons.
  destruct (seqb n0 name).
  - apply some_inj in O. injection O as <- <-. exists w. split; [reflexivity|].
    rewrite nth_error_app2 by lia. rewrite Nat.sub_diag. reflexivity.
  - unfold advance in O.
    assert (L' : length ws = length ps) by (simpl in L; lia).
    replace (S (length pre)) with (length (pre ++ [tok_of_word t0 w])) in O by (rewrite app_length; simpl; lia).
    destruct (IH ws (pre ++ [tok_of_word t0 w]) off t L' O) as [w' [F G]].
    exists w'. split; [exact F|]. rewrite <- app_assoc in G. exact G.
Qed.

Lemma record_ok_length ps vals : record_ok ps vals -> length vals = length ps.
Proof. induction 1; simpl; auto. Qed.

Lemma offsets_from_some bin name : forall (ps : vprops) cur,
  In name (names ps) -> exists off t, offsets_from bin ps name cur = Some (off, t).
Proof.
  induction ps as [|[t n] ps IH]; intros cur I; [destruct I|].
  cbn [offsets_from]. destruct (seqb n name) eqn:E; [eauto|].
  destruct I as [I|I]; [cbn in I; subst; unfold seqb in E; rewrite String.eqb_refl in E; discriminate|].
  apply IH, I.
Qed.

(* THE LAYOUT THEOREM.  For every property list, every record whose values fit their declared types, every
   format: the layout function locates every declared property, and reading a field of that type at that
   offset of the encoded record returns the value the record assigns to the property. *)
Theorem layout_reads_record_proof : forall (f : fmt) (ps : vprops) (vals : list N) (name : string),
  record_ok ps vals -> In name (names ps) ->
  exists off t, offsets (is_bin f) ps name = Some (off, t) /\
                value_of f ps vals name <> None /\
                read_field f off t (encode_record f ps vals) = value_of f ps vals name.
Proof.
  intros f ps vals name R I.
  destruct (offsets_from_some (is_bin f) name ps 0 I) as [off [t O]].
  exists off, t. split; [exact O|].
  unfold value_of, read_field, encode_record.
  destruct f; cbn [is_bin] in O.
  - destruct (layout_ascii_aux name ps vals [] off t (record_ok_length _ _ R) O) as [w [F G]].
    rewrite F. cbn [app] in G. rewrite G. split; [discriminate|reflexivity].
  - destruct (layout_bin_aux LEnd name ps vals [] off t R O) as [w [F G]].
    rewrite F. cbn [app endian_of] in *. rewrite G. split; [discriminate|reflexivity].
  - destruct (layout_bin_aux BEnd name ps vals [] off t R O) as [w [F G]].
    rewrite F. cbn [app endian_of] in *. rewrite G. split; [discriminate|reflexivity].
Qed.

(* the layout function is what the Go builders compute: Vector1PropertyReader.build{Ascii,Binary} *)
Lemma find_v1_offsets bin name : forall (ps : vprops) cur,
  find_v1 bin name (scalars ps) cur = Ok (offsets_from bin ps name cur).
Proof.
  induction ps as [|[t n] ps IH]; intros cur; [reflexivity|].
  cbn [scalars map find_v1 offsets_from]. destruct (seqb n name); [reflexivity|]. apply IH.
Qed.
