(* C04: point clouds that carry TexCoord per vertex (float properties s, t).  ply.ReadMesh builds its readers in the
   order of ITS table (Position/Normal/Color, TexCoord, FDC/Opacity/Scale/Rotation, then one scalar reader per
   unclaimed property), not in file order; this file proves that every one of them sits at its real offset
   ([readers_placed]) and derives the whole-file round trip.  Imports PlyWriteProofs read-only. *)
From PF Require Import Base.Bytes Formats.PlyRead Formats.PlyWrite Formats.PlyWriteProofs.
From Coq Require Import String Ascii Permutation Lia.
Open Scope list_scope.
Open Scope N_scope.

(* ================= the reader's table around its TexCoord entry ================= *)
Definition dgA : list group :=
  [ G "Position" ["x"; "y"; "z"]; G "Position" ["px"; "py"; "pz"]; G "Position" ["posx"; "posy"; "posz"];
    G "Normal" ["nx"; "ny"; "nz"]; G "Normal" ["normalx"; "normaly"; "normalz"];
    GW "Color" ["red"; "green"; "blue"; "alpha"]; GW "Color" ["r"; "g"; "b"; "a"];
    GW "Color" ["diffuse_red"; "diffuse_green"; "diffuse_blue"; "diffuse_alpha"] ]%string.
Definition texG : group := G "TexCoord" ["s"; "t"]%string.
Definition dgB : list group :=
  [ G "FDC" ["f_dc_0"; "f_dc_1"; "f_dc_2"]; G "Opacity" ["opacity"];
    G "Scale" ["scale_0"; "scale_1"; "scale_2"]; G "Rotation" ["rot_0"; "rot_1"; "rot_2"; "rot_3"] ]%string.
Lemma default_groups_split : default_groups = dgA ++ texG :: dgB.
Proof. reflexivity. Qed.

(* the writer's table, split the same way *)
Definition dwA : list pw :=
  [ PW 3 "Position" ["x"; "y"; "z"] Float; PW 3 "Normal" ["nx"; "ny"; "nz"] Float;
    PW 3 "Color" ["red"; "green"; "blue"] UChar ]%string.
Definition dwB : list pw :=
  [ PW 3 "FDC" ["f_dc_0"; "f_dc_1"; "f_dc_2"] Float; PW 1 "Opacity" ["opacity"] Float;
    PW 3 "Scale" ["scale_0"; "scale_1"; "scale_2"] Float;
    PW 4 "Rotation" ["rot_0"; "rot_1"; "rot_2"; "rot_3"] Float ]%string.
Lemma default_writers_split : default_writers = dwA ++ dwB.
Proof. reflexivity. Qed.

Lemma build_groups_app bin a : forall b ps,
  build_groups bin (a ++ b) ps = dor x <- build_groups bin a ps; dor y <- build_groups bin b ps; Ok (x ++ y).
Proof.
  induction a as [|g a IH]; intros b ps.
  - cbn [app build_groups rbind]. destruct (build_groups bin b ps); reflexivity.
  - cbn [app build_groups]. rewrite IH. destruct (build_group bin g ps) as [o|]; cbn [rbind]; [|reflexivity].
    destruct (build_groups bin a ps) as [x|]; cbn [rbind]; [|reflexivity].
    destruct (build_groups bin b ps) as [y|]; cbn [rbind]; [|reflexivity].
    destruct o; reflexivity.
Qed.

(* ---------- the two halves of the table on ply.Write's own properties (finite: 2^7 selections) ---------- *)
Lemma groups_split_bare bin (f : pw -> bool) :
  let A1 := map bare (filter f dwA) in let A2 := map bare (filter f dwB) in
  build_groups bin dgA (vertex_props (A1 ++ A2)) = Ok (layout bin A1 0) /\
  build_groups bin dgB (vertex_props (A1 ++ A2)) = Ok (layout bin A2 (gcur bin 0 A1)).
Proof.
  unfold dwA, dwB. cbn [filter].
  destruct (f _), (f _), (f _), (f _), (f _), (f _), (f _), bin; split; vm_compute; reflexivity.
Qed.

Lemma shape_gcur bin gs gs' c : map shape_of gs = map shape_of gs' -> gcur bin c gs = gcur bin c gs'.
Proof. intros S. rewrite <- !adv_props, (shape_props _ _ S). reflexivity. Qed.

Lemma groups_split_default bin m (f : pw -> bool) :
  let A1 := map (group_of m) (filter f dwA) in let A2 := map (group_of m) (filter f dwB) in
  build_groups bin dgA (vertex_props (A1 ++ A2)) = Ok (layout bin A1 0) /\
  build_groups bin dgB (vertex_props (A1 ++ A2)) = Ok (layout bin A2 (gcur bin 0 A1)).
Proof.
  intros A1 A2. destruct (groups_split_bare bin f) as [B1 B2]. cbv zeta in B1, B2.
  assert (S1 : map shape_of A1 = map shape_of (map bare (filter f dwA))) by (unfold A1; rewrite !map_map; reflexivity).
  assert (S2 : map shape_of A2 = map shape_of (map bare (filter f dwB))) by (unfold A2; rewrite !map_map; reflexivity).
  assert (S : map shape_of (A1 ++ A2) = map shape_of (map bare (filter f dwA) ++ map bare (filter f dwB)))
    by (rewrite !map_app, S1, S2; reflexivity).
  rewrite (shape_props _ _ S), (shape_layout bin _ _ 0%nat S1), (shape_gcur bin _ _ 0%nat S1).
  rewrite (shape_layout bin _ _ _ S2). split; assumption.
Qed.

(* ================= the writer side: where the s/t writer stands among the unspecified writers ================= *)
Definition ubody (m : wmesh) (cl : list pw) (d : nat) (x : wattr) : list pw :=
  if Nat.eqb (wa_dim x) d && negb (claimed cl d (wa_name x))
  then if Nat.eqb d 2 && seqb (wa_name x) "TexCoord"
       then match w_topo m with TTriangle => [] | TPoint => [PW 2 "TexCoord" ["s"; "t"]%string Float] end
       else [PW d (wa_name x) (unspec_names d (wa_name x)) Float]
  else [].
Lemma unspec_ubody m cl d : unspec_of_dim m cl d = flat_map (ubody m cl d) (w_attrs m).
Proof. reflexivity. Qed.

Lemma claimed_default_2 a : claimed default_writers 2 a = false.
Proof. reflexivity. Qed.

Lemma ubody_user m d x w : In x (w_attrs m) -> is_attr 2 "TexCoord" x = false -> In w (ubody m (qd m) d x) ->
  is_default_writer w = false.
Proof.
  intros Hin Hx Hw. unfold ubody in Hw.
  destruct (Nat.eqb (wa_dim x) d) eqn:Ed; cbn [andb] in Hw; [|destruct Hw]. apply Nat.eqb_eq in Ed.
  destruct (claimed (qd m) d (wa_name x)) eqn:Ec; cbn [negb] in Hw; [destruct Hw|].
  assert (Hh : has_attr m d (wa_name x) = true) by (rewrite <- Ed; apply has_attr_in, Hin).
  unfold qd in Ec. rewrite (claimed_filter m default_writers d (wa_name x) Hh) in Ec.
  destruct (Nat.eqb d 2 && seqb (wa_name x) "TexCoord") eqn:Et.
  - exfalso. unfold is_attr in Hx. rewrite Ed in Hx. congruence.
  - destruct Hw as [<-|[]].
    change (is_default_writer (PW d (wa_name x) (unspec_names d (wa_name x)) Float))
      with (claimed default_writers d (wa_name x) || (Nat.eqb d 2 && seqb (wa_name x) "TexCoord")).
    rewrite Ec, Et. reflexivity.
Qed.

Lemma ubody_tex m x : w_topo m = TPoint -> has_tex m = true -> is_attr 2 "TexCoord" x = true ->
  ubody m (qd m) 2 x = [tex_pw].
Proof.
  intros Tp Hx Hi. destruct (is_attr_prop _ _ _ Hi) as [Hd Hn]. unfold ubody. rewrite Hd, Hn, Tp.
  unfold qd. rewrite (claimed_filter m default_writers 2 "TexCoord" Hx). reflexivity.
Qed.

Lemma ubody_other m cl d x : is_attr 2 "TexCoord" x = true -> d <> 2%nat -> ubody m cl d x = [].
Proof.
  intros Hi Hd. destruct (is_attr_prop _ _ _ Hi) as [E _]. unfold ubody. rewrite E.
  replace (Nat.eqb 2 d) with false by (symmetry; apply Nat.eqb_neq; congruence). reflexivity.
Qed.

Lemma is_attr_sym x y : is_attr (wa_dim x) (wa_name x) y = is_attr (wa_dim y) (wa_name y) x.
Proof. unfold is_attr. rewrite (Nat.eqb_sym (wa_dim y)). unfold seqb. rewrite (String.eqb_sym (wa_name y)). reflexivity. Qed.

Lemma keys_nodup_split a1 x a2 : keys_nodupb (a1 ++ x :: a2) = true ->
  forall y, In y (a1 ++ a2) -> is_attr (wa_dim x) (wa_name x) y = false.
Proof.
  induction a1 as [|z a1 IH]; intros H y Hy.
  - cbn [app keys_nodupb] in *. apply andb_prop in H. destruct H as [H _]. apply Bool.negb_true_iff in H.
    destruct (is_attr (wa_dim x) (wa_name x) y) eqn:E; [|reflexivity].
    assert (existsb (is_attr (wa_dim x) (wa_name x)) a2 = true) by (apply existsb_exists; exists y; auto). congruence.
  - cbn [app keys_nodupb] in H. apply andb_prop in H. destruct H as [H1 H2]. apply Bool.negb_true_iff in H1.
    cbn [app] in Hy. destruct Hy as [<-|Hy]; [|apply IH; assumption].
    rewrite is_attr_sym. destruct (is_attr (wa_dim z) (wa_name z) x) eqn:E; [|reflexivity].
    assert (existsb (is_attr (wa_dim z) (wa_name z)) (a1 ++ x :: a2) = true)
      by (apply existsb_exists; exists x; split; [apply in_or_app; right; left; reflexivity|exact E]). congruence.
Qed.

(* the unspecified writers of a point cloud with TexCoord: user writers, the s/t writer, user writers *)
Lemma ud_split m : w_topo m = TPoint -> has_tex m = true -> keys_nodupb (w_attrs m) = true ->
  exists L1 L2, ud m = L1 ++ tex_pw :: L2 /\ (forall w, In w (L1 ++ L2) -> is_default_writer w = false).
Proof.
  intros Tp Hx Hk. pose proof Hx as Hx'. unfold has_tex, has_attr in Hx'. apply existsb_exists in Hx'.
  destruct Hx' as (x & Hin & Hi). destruct (in_split _ _ Hin) as (a1 & a2 & Ea).
  destruct (is_attr_prop _ _ _ Hi) as [Hd Hn].
  assert (Hoth : forall y, In y (a1 ++ a2) -> is_attr 2 "TexCoord" y = false)
    by (intros y Hy; rewrite <- Hd, <- Hn; apply (keys_nodup_split a1 x a2); [rewrite <- Ea; exact Hk|exact Hy]).
  assert (Hsub : forall y, In y (a1 ++ a2) -> In y (w_attrs m))
    by (intros y Hy; rewrite Ea; apply in_app_or in Hy; apply in_or_app; destruct Hy; [left|right; right]; assumption).
  assert (Hu : forall d w, d <> 2%nat -> In w (unspec_of_dim m (qd m) d) -> is_default_writer w = false).
  { intros d w Hd2 Hw. rewrite unspec_ubody in Hw. apply in_flat_map in Hw. destruct Hw as (y & Hy & Hw).
    destruct (is_attr 2 "TexCoord" y) eqn:Ey; [rewrite (ubody_other m _ d y Ey Hd2) in Hw; destruct Hw|].
    eapply ubody_user; eassumption. }
  assert (Hu2 : forall a w, (forall y, In y a -> In y (a1 ++ a2)) -> In w (flat_map (ubody m (qd m) 2) a) -> is_default_writer w = false).
  { intros a w Ha Hw. apply in_flat_map in Hw. destruct Hw as (y & Hy & Hw).
    apply (ubody_user m 2%nat y w); [apply Hsub, Ha, Hy|apply Hoth, Ha, Hy|exact Hw]. }
  exists (unspec_of_dim m (qd m) 4 ++ unspec_of_dim m (qd m) 3 ++ flat_map (ubody m (qd m) 2) a1),
         (flat_map (ubody m (qd m) 2) a2 ++ unspec_of_dim m (qd m) 1).
  split.
  - unfold ud. cbn [flat_map]. rewrite app_nil_r. rewrite (unspec_ubody m (qd m) 2), Ea, flat_map_app. cbn [flat_map].
    rewrite (ubody_tex m x Tp Hx Hi). rewrite <- !app_assoc. reflexivity.
  - intros w Hw. rewrite <- !app_assoc in Hw.
    apply in_app_or in Hw. destruct Hw as [Hw|Hw]; [apply (Hu 4%nat); [discriminate|exact Hw]|].
    apply in_app_or in Hw. destruct Hw as [Hw|Hw]; [apply (Hu 3%nat); [discriminate|exact Hw]|].
    apply in_app_or in Hw. destruct Hw as [Hw|Hw]; [apply (Hu2 a1); [intros y Hy; apply in_or_app; left; exact Hy|exact Hw]|].
    apply in_app_or in Hw. destruct Hw as [Hw|Hw]; [apply (Hu2 a2); [intros y Hy; apply in_or_app; right; exact Hy|exact Hw]|].
    apply (Hu 1%nat); [discriminate|exact Hw].
Qed.

Lemma tex_pw_default : is_default_writer tex_pw = true.
Proof. reflexivity. Qed.

Lemma qd_split m : qd m = filter (qualifies m) dwA ++ filter (qualifies m) dwB.
Proof. unfold qd. rewrite default_writers_split. apply filter_app. Qed.

Lemma rview_shape_st o m L1 L2 : o_writers o = default_writers -> o_unspec o = true -> ud m = L1 ++ tex_pw :: L2 ->
  (forall w, In w (L1 ++ L2) -> is_default_writer w = false) ->
  rview o m = map (group_of m) (qd m) ++ tail_of m L1 ++ group_of m tex_pw :: tail_of m L2.
Proof.
  intros Ho Hu Eu Hl. unfold rview, effective_writers. rewrite Ho, Hu. fold (qd m) (ud m). rewrite Eu.
  assert (Eq : flat_map (rview_of m) (qd m) = map (group_of m) (qd m)).
  { apply rview_default. intros w Hw. apply filter_In in Hw. apply default_writers_default, Hw. }
  rewrite !flat_map_app, Eq. cbn [flat_map]. unfold rview_of at 2. rewrite tex_pw_default. cbn [app].
  rewrite (rview_user m L1) by (intros w Hw; apply Hl, in_or_app; left; exact Hw).
  rewrite (rview_user m L2) by (intros w Hw; apply Hl, in_or_app; right; exact Hw). reflexivity.
Qed.

Lemma user_names_st m L1 L2 : ud m = L1 ++ tex_pw :: L2 -> (forall w, In w (L1 ++ L2) -> is_default_writer w = false) ->
  user_names m = flat_map pw_names L1 ++ flat_map pw_names L2.
Proof.
  intros Eu Hl. unfold user_names, user_writers. fold (qd m) (ud m). rewrite Eu, filter_app. cbn [filter].
  rewrite tex_pw_default. cbn [negb].
  rewrite !filter_all, flat_map_app; [reflexivity| |].
  - apply forallb_forall. intros w Hw. rewrite (Hl w) by (apply in_or_app; right; exact Hw). reflexivity.
  - apply forallb_forall. intros w Hw. rewrite (Hl w) by (apply in_or_app; left; exact Hw). reflexivity.
Qed.

(* ================= the reader side ================= *)
Lemma fresh_of_notin_list ms ps : all_scalar ps = true -> (forall n, In n ms -> ~ In n (pnames ps)) -> Forall (pname_fresh ms) ps.
Proof.
  induction ps as [|p ps IH]; intros Hs Hn; [constructor|]. destruct p as [t x|]; [|discriminate]. constructor.
  - cbn. intros Hx. apply (Hn x Hx). left. reflexivity.
  - apply IH; [exact Hs|]. intros n Hm H. apply (Hn n Hm). right. exact H.
Qed.

Lemma fresh_notin ms ps m0 : Forall (pname_fresh ms) ps -> In m0 ms -> ~ In m0 (pnames ps).
Proof.
  intros Hf Hm Hin. unfold pnames in Hin. apply in_map_iff in Hin. destruct Hin as (p & E & Hp).
  rewrite Forall_forall in Hf. specialize (Hf p Hp). destruct p as [t n|]; [|exact Hf]. cbn in E. subst n. apply Hf, Hm.
Qed.

(* a property list that is fresh for a group does not move its scan *)
Lemma scan_props_prefix_fresh bin ms F : Forall (pname_fresh ms) F -> forall R cur offs ty, List.length offs = List.length ms ->
  scan_props bin ms (F ++ R) cur offs ty = scan_props bin ms R (adv bin cur F) offs ty.
Proof.
  induction F as [|p F IH]; intros Hf R cur offs ty Hl; [reflexivity|].
  inversion Hf as [|? ? Hp Hf']; subst. destruct p as [t n|]; [|destruct Hp].
  cbn [app scan_props]. rewrite scan_members_fresh by assumption. rewrite IH by assumption. reflexivity.
Qed.

(* extra properties inserted in the middle of the tail *)
Lemma grp_open_insert ms P T1 X T2 : Forall (pname_fresh ms) X -> grp_open ms P (T1 ++ T2) -> grp_open ms P (T1 ++ X ++ T2).
Proof.
  intros Hx [Hf|(m0 & Hin & Hab)].
  - left. apply Forall_app in Hf. destruct Hf as [F1 F2]. apply Forall_app. split; [exact F1|]. apply Forall_app. split; assumption.
  - right. exists m0. split; [exact Hin|]. unfold pnames in *. rewrite !map_app in *. intros H. apply Hab.
    apply in_app_or in H. destruct H as [H|H]; [apply in_or_app; left; exact H|].
    apply in_app_or in H. destruct H as [H|H]; [apply in_or_app; right; apply in_or_app; left; exact H|].
    apply in_app_or in H. destruct H as [H|H]; [exfalso; exact (fresh_notin ms X m0 Hx Hin H)|].
    apply in_or_app; right; apply in_or_app; right; exact H.
Qed.

Lemma group_open_insert g P T1 X T2 : Forall (pname_fresh (g_members g)) X -> group_open g P (T1 ++ T2) -> group_open g P (T1 ++ X ++ T2).
Proof.
  intros Hx Ho. unfold group_open in *. destruct (g_members g) as [|m0 [|m1 ms]] eqn:E.
  - destruct Ho as [O1 O2]. split; [apply grp_open_insert; assumption|]. intros Hi. apply grp_open_insert; [constructor || exact Hx|apply O2, Hi].
  - apply Forall_app in Ho. destruct Ho as [F1 F2]. apply Forall_app. split; [exact F1|]. apply Forall_app. split; assumption.
  - destruct Ho as [O1 O2]. split; [apply grp_open_insert; assumption|]. intros Hi. apply grp_open_insert; [|apply O2, Hi].
    eapply fresh_sub; [|exact Hx]. intros x Hin. eapply (In_firstn 3). exact Hin.
Qed.

(* no other group of the reader's table has a member s or t *)
Definition stP : list prop := [PScalar Float "s"; PScalar Float "t"]%string.
Lemma st_fresh_others : Forall (fun g => Forall (pname_fresh (g_members g)) stP) (dgA ++ dgB).
Proof.
  assert (A : forallb (fun g => absentb (g_members g) "s" && absentb (g_members g) "t") (dgA ++ dgB) = true) by (vm_compute; reflexivity).
  rewrite forallb_forall in A. apply Forall_forall. intros g Hg. specialize (A g Hg). apply andb_prop in A. destruct A as [A1 A2].
  constructor; [apply absentb_notin, A1|]. constructor; [apply absentb_notin, A2|constructor].
Qed.

(* the TexCoord reader, wherever s and t stand (next to each other, same type) *)
Lemma build_tex bin F T2 : Forall (pname_fresh ["s"; "t"]%string) F -> Forall (pname_fresh ["s"; "t"]%string) T2 ->
  build_group bin texG (F ++ stP ++ T2)
  = Ok (Some {| b_attr := "TexCoord"; b_names := ["s"; "t"]%string; b_offs := offs_from bin (adv bin 0 F) Float 2; b_ty := Float; b_v1 := false |}).
Proof.
  intros HF HT. unfold build_group, texG. cbn [g_members G g_attr g_ignorable_w]. unfold build_vec.
  rewrite scan_props_prefix_fresh by (try assumption; reflexivity).
  unfold stP. cbn [app scan_props map].
  change (scan_members ["s"; "t"]%string [None; None] None (adv bin 0 F) Float "s")
    with ([Some (adv bin 0 F); None], Some Float).
  cbv iota beta.
  change (scan_members ["s"; "t"]%string [Some (adv bin 0 F); None] (Some Float) (advance bin (adv bin 0 F) Float) Float "t")
    with ([Some (adv bin 0 F); Some (advance bin (adv bin 0 F) Float)], Some Float).
  cbv iota beta.
  rewrite scan_props_fresh by (try assumption; reflexivity). reflexivity.
Qed.

(* ---------- add_unclaimed over a run of scalar groups anywhere in the file ---------- *)
Lemma add_unclaimed_run bin all G3 rest : forall todo G0 bs,
  all = vertex_props (G0 ++ todo ++ G3) ->
  Forall scalar_group todo -> NoDup (map rg_attr todo) ->
  (forall g, In g todo -> ~ In (rg_attr g) (flat_map rg_names G0)) ->
  (forall g, In g todo -> existsb (fun b => claims b (rg_attr g)) bs = false) ->
  add_unclaimed bin all (vertex_props todo ++ rest) bs = add_unclaimed bin all rest (bs ++ layout bin todo (gcur bin 0 G0)).
Proof.
  induction todo as [|g todo IH]; intros G0 bs Eall Hs Hnd Hfr Hbs.
  - cbn [vertex_props flat_map app layout]. rewrite app_nil_r. reflexivity.
  - apply Forall_cons_iff in Hs. destruct Hs as [Hg Hs]. cbn [map] in Hnd. apply NoDup_cons_iff in Hnd. destruct Hnd as [Hn Hnd].
    rewrite (vertex_props_scalar g todo Hg). cbn [app add_unclaimed prop_name].
    rewrite (Hbs g (or_introl eq_refl)). unfold build_v1.
    assert (Ea : all = vertex_props G0 ++ PScalar (rg_ty g) (rg_attr g) :: vertex_props (todo ++ G3)).
    { rewrite Eall, vertex_props_app. cbn [app]. rewrite (vertex_props_scalar g _ Hg). reflexivity. }
    rewrite Ea at 1. rewrite find_v1_hit.
    2:{ apply fresh_of_notin; [apply all_scalar_props|]. rewrite pnames_props. apply Hfr. left. reflexivity. }
    cbn [rbind option_map]. rewrite adv_props.
    specialize (IH (G0 ++ [g])
      (bs ++ [{| b_attr := rg_attr g; b_names := [rg_attr g]; b_offs := [gcur bin 0 G0]; b_ty := rg_ty g; b_v1 := true |}])).
    rewrite IH.
    + f_equal. rewrite <- app_assoc. f_equal. cbn [app layout]. rewrite Hg. cbn [List.length offs_from Nat.eqb].
      rewrite gcur_app. f_equal. f_equal. unfold gcur, gstep. cbn [fold_left]. rewrite Hg. reflexivity.
    + rewrite Eall, <- app_assoc. reflexivity.
    + exact Hs.
    + exact Hnd.
    + intros g' Hg'. rewrite flat_map_app. cbn [flat_map]. rewrite Hg, app_nil_r. intros H. apply in_app_or in H.
      destruct H as [H|[H|[]]]; [exact (Hfr g' (or_intror Hg') H)|]. apply Hn. rewrite H. apply in_map, Hg'.
    + intros g' Hg'. rewrite existsb_app, (Hbs g' (or_intror Hg')). cbn [existsb orb]. unfold claims. cbn [b_names existsb].
      rewrite seqb_neq; [reflexivity|]. intros H. apply Hn. rewrite <- H. apply in_map, Hg'.
Qed.

(* ---------- placements ---------- *)
Fixpoint place (bin : bool) (c : nat) (gs : list rgroup) : list (rgroup * nat) :=
  match gs with [] => [] | g :: r => (g, c) :: place bin (gstep bin c g) r end.
Lemma place_fst bin gs : forall c, map fst (place bin c gs) = gs.
Proof. induction gs as [|g gs IH]; intros c; [reflexivity|]. cbn [place map fst]. rewrite IH. reflexivity. Qed.
Lemma place_layout bin gs : forall c, breaders bin (place bin c gs) = layout bin gs c.
Proof. induction gs as [|g gs IH]; intros c; [reflexivity|]. cbn [place layout]. unfold breaders in *. cbn [map fst snd]. rewrite IH. reflexivity. Qed.
Lemma placed_place bin gr : forall gs G0 G3, gr = G0 ++ gs ++ G3 -> Forall (placed bin gr) (place bin (gcur bin 0 G0) gs).
Proof.
  induction gs as [|g gs IH]; intros G0 G3 E; [constructor|]. cbn [place]. constructor.
  - exists G0, (gs ++ G3). split; [exact E|reflexivity].
  - replace (gstep bin (gcur bin 0 G0) g) with (gcur bin 0 (G0 ++ [g])) by (rewrite gcur_app; reflexivity).
    apply (IH (G0 ++ [g]) G3). rewrite E, <- app_assoc. reflexivity.
Qed.
Lemma breaders_app bin a b : breaders bin (a ++ b) = breaders bin a ++ breaders bin b.
Proof. unfold breaders. apply map_app. Qed.

(* ================= the readers ply.ReadMesh builds on  A ++ T1 ++ [s;t] ++ T2 ================= *)
Lemma default_writers_no_st : forall w, In w default_writers -> ~ In "s"%string (pw_names w) /\ ~ In "t"%string (pw_names w).
Proof.
  assert (A : forallb (fun w => absentb (pw_names w) "s" && absentb (pw_names w) "t") default_writers = true) by (vm_compute; reflexivity).
  rewrite forallb_forall in A. intros w Hw. specialize (A w Hw). apply andb_prop in A. destruct A as [A1 A2].
  split; apply absentb_notin; assumption.
Qed.

Lemma pregs_no_st m (sel : pw -> bool) n : In n ["s"; "t"]%string ->
  ~ In n (flat_map rg_names (map (group_of m) (filter sel dwA) ++ map (group_of m) (filter sel dwB))).
Proof.
  intros Hn H. rewrite <- map_app, <- filter_app, <- default_writers_split in H.
  apply in_flat_map in H. destruct H as (g & Hg & Hin). apply in_map_iff in Hg. destruct Hg as (w & <- & Hw).
  apply filter_In in Hw. destruct Hw as [Hw _]. destruct (default_writers_no_st w Hw) as [N1 N2]. cbn [group_of rg_names] in Hin.
  destruct Hn as [<-|[<-|[]]]; contradiction.
Qed.

Lemma NoDup_app_head {A} (a b : list A) : NoDup (a ++ b) -> NoDup a.
Proof.
  induction a as [|x a IH]; intros H; [constructor|]. cbn [app] in H. apply NoDup_cons_iff in H. destruct H as [Hn H].
  constructor; [intros Hin; apply Hn, in_or_app; left; exact Hin|apply IH, H].
Qed.

Lemma breaders_cons bin g c x : breaders bin ((g, c) :: x) = built_at bin g c :: breaders bin x.
Proof. reflexivity. Qed.

Definition st_placement (bin : bool) (A1 A2 T1s : list rgroup) (tg : rgroup) (T2s : list rgroup) : list (rgroup * nat) :=
  place bin 0 A1 ++ (tg, gcur bin 0 ((A1 ++ A2) ++ T1s)) :: place bin (gcur bin 0 A1) A2
  ++ place bin (gcur bin 0 (A1 ++ A2)) T1s ++ place bin (gcur bin 0 ((A1 ++ A2) ++ T1s ++ [tg])) T2s.

Theorem readers_placed_st_open bin m (sel : pw -> bool) T1s T2s :
  let A1 := map (group_of m) (filter sel dwA) in let A2 := map (group_of m) (filter sel dwB) in
  let tg := group_of m tex_pw in
  Forall scalar_group (T1s ++ T2s) -> NoDup (map rg_attr (T1s ++ T2s)) ->
  (forall g, In g (T1s ++ T2s) -> ~ In (rg_attr g) (flat_map rg_names (A1 ++ A2)) /\ ~ In (rg_attr g) ["s"; "t"]%string) ->
  Forall (fun g => group_open g (vertex_props (A1 ++ A2)) (vertex_props (T1s ++ T2s))) (dgA ++ dgB) ->
  readers_placed bin ((A1 ++ A2) ++ T1s ++ tg :: T2s) (st_placement bin A1 A2 T1s tg T2s).
Proof.
  intros A1 A2 tg Hs Hnd Hnm Hopen.
  set (gr := (A1 ++ A2) ++ T1s ++ tg :: T2s).
  set (P := vertex_props (A1 ++ A2)). set (T1 := vertex_props T1s). set (T2 := vertex_props T2s).
  assert (Eprops : vertex_props gr = P ++ T1 ++ stP ++ T2).
  { unfold gr, P, T1, T2. rewrite (vertex_props_app (A1 ++ A2)), (vertex_props_app T1s). reflexivity. }
  destruct (groups_split_default bin m sel) as [B1 B2]. cbv zeta in B1, B2. fold A1 A2 in B1, B2. fold P in B1, B2.
  apply Forall_app in Hs. destruct Hs as [Hs1 Hs2].
  rewrite map_app in Hnd.
  assert (Hnd1 : NoDup (map rg_attr T1s)) by (eapply NoDup_app_head; exact Hnd).
  assert (Hnd2 : NoDup (map rg_attr T2s)) by (eapply NoDup_app_tail; exact Hnd).
  assert (Hn1 : forall g, In g T1s -> ~ In (rg_attr g) (flat_map rg_names (A1 ++ A2)) /\ ~ In (rg_attr g) ["s"; "t"]%string)
    by (intros g Hg; apply Hnm, in_or_app; left; exact Hg).
  assert (Hn2 : forall g, In g T2s -> ~ In (rg_attr g) (flat_map rg_names (A1 ++ A2)) /\ ~ In (rg_attr g) ["s"; "t"]%string)
    by (intros g Hg; apply Hnm, in_or_app; right; exact Hg).
  assert (Hsc : all_scalar (P ++ T1 ++ stP ++ T2) = true) by (rewrite <- Eprops; apply all_scalar_props).
  (* the table's readers *)
  assert (HopenX : Forall (fun g => group_open g P (T1 ++ stP ++ T2)) (dgA ++ dgB)).
  { pose proof st_fresh_others as F. rewrite Forall_forall in F, Hopen |- *. intros g Hg. apply group_open_insert; [apply F, Hg|].
    specialize (Hopen g Hg). rewrite (vertex_props_app T1s T2s) in Hopen. exact Hopen. }
  apply Forall_app in HopenX. destruct HopenX as [HoA HoB].
  assert (EA : build_groups bin dgA (P ++ T1 ++ stP ++ T2) = Ok (layout bin A1 0))
    by (rewrite (build_groups_open bin dgA P _ Hsc HoA); exact B1).
  assert (EB : build_groups bin dgB (P ++ T1 ++ stP ++ T2) = Ok (layout bin A2 (gcur bin 0 A1)))
    by (rewrite (build_groups_open bin dgB P _ Hsc HoB); exact B2).
  assert (Hst_scal : forall gs, Forall scalar_group gs -> (forall g, In g gs -> ~ In (rg_attr g) ["s"; "t"]%string) ->
                                Forall (pname_fresh ["s"; "t"]%string) (vertex_props gs)).
  { intros gs Hsg Hno. apply fresh_of_notin_list; [apply all_scalar_props|]. intros n Hn Hin.
    rewrite pnames_props, (scalar_names gs Hsg) in Hin. apply in_map_iff in Hin. destruct Hin as (g & <- & Hg). exact (proj1 (conj (Hno g Hg) I) Hn). }
  set (c := gcur bin 0 ((A1 ++ A2) ++ T1s)).
  set (tb := built_at bin tg c).
  assert (ET : build_group bin texG (P ++ T1 ++ stP ++ T2) = Ok (Some tb)).
  { rewrite app_assoc. rewrite build_tex.
    - unfold P, T1. rewrite <- vertex_props_app, adv_props. reflexivity.
    - apply Forall_app. split.
      + apply fresh_of_notin_list; [apply all_scalar_props|]. intros n Hn. unfold P. rewrite pnames_props. apply pregs_no_st, Hn.
      + apply Hst_scal; [exact Hs1|]. intros g Hg. apply (Hn1 g Hg).
    - apply Hst_scal; [exact Hs2|]. intros g Hg. apply (Hn2 g Hg). }
  set (bs := layout bin A1 0 ++ tb :: layout bin A2 (gcur bin 0 A1)).
  (* what claims what *)
  assert (Hcl_no : forall n, ~ In n (flat_map rg_names (A1 ++ A2)) -> ~ In n ["s"; "t"]%string -> existsb (fun b => claims b n) bs = false).
  { intros n HnA Hnst. unfold bs. rewrite existsb_app. cbn [existsb].
    rewrite flat_map_app in HnA.
    rewrite claims_layout_notin by (intros H; apply HnA, in_or_app; left; exact H).
    rewrite claims_layout_notin by (intros H; apply HnA, in_or_app; right; exact H).
    unfold claims, tb. cbn [built_at b_names tg group_of tex_pw PW rg_names pw_names existsb].
    rewrite !seqb_neq; [reflexivity| |]; intros E; apply Hnst; rewrite E; cbn; auto. }
  assert (Hcl_P : forallb (fun p => existsb (fun b => claims b (prop_name p)) bs) P = true).
  { pose proof (groups_claimed_default bin m sel) as [_ C2]. rewrite default_writers_split, filter_app, map_app in C2.
    fold A1 A2 in C2. fold P in C2. rewrite layout_app in C2. rewrite forallb_forall in C2 |- *. intros p Hp. specialize (C2 p Hp).
    unfold bs. rewrite existsb_app in C2 |- *. cbn [existsb]. apply orb_prop in C2. destruct C2 as [-> | ->]; [reflexivity|].
    rewrite !orb_true_r. reflexivity. }
  assert (Hcl_st : forall z, forallb (fun p => existsb (fun b => claims b (prop_name p)) (bs ++ z)) stP = true).
  { intros z. assert (Hin : In tb (bs ++ z)) by (apply in_or_app; left; unfold bs; apply in_or_app; right; left; reflexivity).
    unfold stP. cbn [forallb prop_name]. rewrite !andb_true_iff. split; [|split; [|reflexivity]];
      apply existsb_exists; exists tb; (split; [exact Hin|reflexivity]). }
  (* the unclaimed scalars *)
  assert (AU : forall all, all = vertex_props gr ->
            add_unclaimed bin all (P ++ T1 ++ stP ++ T2) bs
            = Ok ((bs ++ layout bin T1s (gcur bin 0 (A1 ++ A2))) ++ layout bin T2s (gcur bin 0 ((A1 ++ A2) ++ T1s ++ [tg])))).
  { intros all Eall. rewrite (add_unclaimed_claimed bin all P _ bs Hcl_P).
    unfold T1. rewrite (add_unclaimed_run bin all (tg :: T2s) (stP ++ T2) T1s (A1 ++ A2) bs); [|exact Eall|exact Hs1|exact Hnd1| |].
    2:{ intros g Hg. apply (Hn1 g Hg). }
    2:{ intros g Hg. apply Hcl_no; apply (Hn1 g Hg). }
    rewrite (add_unclaimed_claimed bin all stP T2 _ (Hcl_st _)).
    rewrite <- (app_nil_r T2). unfold T2.
    rewrite (add_unclaimed_run bin all [] [] T2s ((A1 ++ A2) ++ T1s ++ [tg])); [reflexivity| |exact Hs2|exact Hnd2| |].
    - rewrite Eall. unfold gr. rewrite app_nil_r, <- !app_assoc. reflexivity.
    - intros g Hg. rewrite !flat_map_app. cbn [flat_map]. rewrite app_nil_r, <- flat_map_app. intros H.
      apply in_app_or in H. destruct H as [H|H]; [exact (proj1 (Hn2 g Hg) H)|].
      apply in_app_or in H. destruct H as [H|H]; [|exact (proj2 (Hn2 g Hg) H)].
      rewrite (scalar_names T1s Hs1) in H. apply (NoDup_app_disjoint _ _ Hnd (rg_attr g)); [apply in_map, Hg|exact H].
    - intros g Hg. rewrite existsb_app, (Hcl_no _ (proj1 (Hn2 g Hg)) (proj2 (Hn2 g Hg))). cbn [orb].
      apply claims_layout_notin. rewrite (scalar_names T1s Hs1). intros H.
      apply (NoDup_app_disjoint _ _ Hnd (rg_attr g)); [apply in_map, Hg|exact H]. }
  split.
  - unfold build_readers. rewrite Eprops, default_groups_split, build_groups_app. cbn [build_groups].
    rewrite EA, ET, EB. cbn [rbind]. fold bs. rewrite (AU _ (eq_sym Eprops)). f_equal.
    unfold st_placement. rewrite breaders_app, breaders_cons, !breaders_app, !place_layout.
    unfold bs, tb, c. rewrite <- !app_assoc. reflexivity.
  - unfold st_placement. apply Forall_app. split; [|apply Forall_cons; [|apply Forall_app; split; [|apply Forall_app; split]]].
    + apply (placed_place bin gr A1 [] (A2 ++ T1s ++ tg :: T2s)). unfold gr. rewrite <- app_assoc. reflexivity.
    + exists ((A1 ++ A2) ++ T1s), T2s. split; [unfold gr; cbn [fst]; rewrite <- !app_assoc; reflexivity|reflexivity].
    + apply (placed_place bin gr A2 A1 (T1s ++ tg :: T2s)). unfold gr. rewrite <- app_assoc. reflexivity.
    + apply (placed_place bin gr T1s (A1 ++ A2) (tg :: T2s)). reflexivity.
    + apply (placed_place bin gr T2s ((A1 ++ A2) ++ T1s ++ [tg]) []). unfold gr. rewrite app_nil_r, <- !app_assoc. reflexivity.
Qed.

(* ================= ply.Write's table on a well-formed point cloud with TexCoord ================= *)
(* [wf_mesh] does not see the property names s, t the TexCoord writer uses ([user_names] leaves that writer out): a user
   scalar attribute called "s" or "t" next to TexCoord passes [wf_mesh] and gives a file with two properties of that
   name (see [ply_points_st_dup_refuted]).  The theorems below exclude it explicitly. *)
Definition no_user_st (m : wmesh) : bool :=
  negb (existsb (seqb "s") (user_names m)) && negb (existsb (seqb "t") (user_names m)).

Lemma st_placement_fst bin A1 A2 T1s tg T2s : map fst (st_placement bin A1 A2 T1s tg T2s) = A1 ++ tg :: A2 ++ T1s ++ T2s.
Proof. unfold st_placement. rewrite map_app. cbn [map fst]. rewrite !map_app, !place_fst. reflexivity. Qed.

Lemma keys_ok_pregs_st m (f : pw -> bool) :
  keys_ok [] (map (group_of m) (filter f dwA) ++ group_of m tex_pw :: map (group_of m) (filter f dwB)) = true.
Proof.
  unfold dwA, dwB. cbn [filter].
  destruct (f _), (f _), (f _), (f _), (f _), (f _), (f _); reflexivity.
Qed.

Theorem readers_placed_points_st : forall o bin m,
  o_writers o = default_writers -> wf_mesh m = true -> w_topo m = TPoint -> has_tex m = true -> o_unspec o = true ->
  no_user_st m = true ->
  exists PL, readers_placed bin (rview o m) PL /\ keys_ok [] (map fst PL) = true /\ Permutation (map fst PL) (rview o m).
Proof.
  intros o bin m Ho Hwf Tp Hx Hu Hst. unfold wf_mesh in Hwf.
  apply andb_prop in Hwf. destruct Hwf as [Hwf Htopo]. apply andb_prop in Hwf. destruct Hwf as [Hwf Hop].
  apply andb_prop in Hwf. destruct Hwf as [Hwf Hres]. apply andb_prop in Hwf. destruct Hwf as [Hwf Hnd].
  apply andb_prop in Hwf. destruct Hwf as [Hwf Hemp]. apply andb_prop in Hwf. destruct Hwf as [Hattr Hkn].
  apply nodupb_NoDup in Hnd. apply not_existsb_In in Hop.
  unfold no_user_st in Hst. apply andb_prop in Hst. destruct Hst as [Hs_ Ht_]. apply not_existsb_In in Hs_, Ht_.
  destruct (ud_split m Tp Hx Hkn) as (L1 & L2 & Eu & Hl).
  pose proof (rview_shape_st o m L1 L2 Ho Hu Eu Hl) as Er.
  pose proof (user_names_st m L1 L2 Eu Hl) as En.
  set (A1 := map (group_of m) (filter (qualifies m) dwA)). set (A2 := map (group_of m) (filter (qualifies m) dwB)).
  set (T1s := tail_of m L1). set (T2s := tail_of m L2). set (tg := group_of m tex_pw).
  assert (EA : map (group_of m) (qd m) = A1 ++ A2) by (rewrite qd_split, map_app; reflexivity).
  rewrite EA in Er. fold T1s T2s tg in Er.
  assert (Hsc : Forall scalar_group (T1s ++ T2s)) by (apply Forall_app; split; apply tail_scalar).
  assert (Eattr : map rg_attr (T1s ++ T2s) = user_names m)
    by (rewrite map_app; unfold T1s, T2s; rewrite !tail_attrs; symmetry; exact En).
  assert (Hdis : forall n, In n (user_names m) -> ~ In n (default_prop_names m))
    by (intros n Hn Hd; apply (NoDup_app_disjoint _ _ Hnd n); assumption).
  apply NoDup_app_tail in Hnd.
  assert (Enames : flat_map rg_names (A1 ++ A2) = default_prop_names m) by (rewrite <- EA, <- pnames_props; apply pnames_pregs).
  exists (st_placement bin A1 A2 T1s tg T2s). split; [|split].
  - rewrite Er. apply (readers_placed_st_open bin m (qualifies m) T1s T2s).
    + exact Hsc.
    + rewrite Eattr. exact Hnd.
    + intros g Hg. assert (Hin : In (rg_attr g) (user_names m)) by (rewrite <- Eattr; apply in_map, Hg). split.
      * fold A1 A2. rewrite Enames. apply Hdis, Hin.
      * intros [E|[E|[]]]; [apply Hs_|apply Ht_]; rewrite E; exact Hin.
    + fold A1 A2. apply Forall_forall. intros g Hg. apply group_openb_open; [apply all_scalar_props|].
      rewrite !pnames_props, Enames, (scalar_names _ Hsc), Eattr.
      unfold no_group_completedb in Hres. rewrite forallb_forall in Hres. apply Hres. rewrite default_groups_split.
      apply in_app_or in Hg. apply in_or_app. destruct Hg as [Hg|Hg]; [left; exact Hg|right; right; exact Hg].
  - rewrite st_placement_fst.
    assert (E : A1 ++ tg :: A2 ++ T1s ++ T2s = (A1 ++ tg :: A2) ++ (T1s ++ T2s)) by (rewrite <- app_assoc; reflexivity).
    rewrite E, keys_ok_app. cbn [app]. unfold A1, A2, tg. rewrite keys_ok_pregs_st. cbn [andb]. fold A1 A2 tg.
    apply keys_ok_scalars; [exact Hsc|rewrite Eattr; exact Hnd|].
    intros g s Hg Hs. pose proof Hsc as Hsc'. rewrite Forall_forall in Hsc'. specialize (Hsc' g Hg).
    assert (Hs' : In s (map (group_of m) (qd m)) \/ s = tg).
    { rewrite EA. apply in_app_or in Hs. destruct Hs as [Hs|[Hs|Hs]]; [left; apply in_or_app; left; exact Hs|right; symmetry; exact Hs|left; apply in_or_app; right; exact Hs]. }
    destruct Hs' as [Hs' | ->].
    + apply (pregs_vs_tail m); [exact Hsc'| |exact Hs']. intros E'. apply Hop. rewrite <- E', <- Eattr. apply in_map, Hg.
    + unfold gkey_eqb, gattr, key_eqb. rewrite Hsc'. reflexivity.
  - rewrite st_placement_fst, Er. rewrite <- app_assoc. apply Permutation_app_head.
    rewrite !app_assoc. apply Permutation_middle.
Qed.

(* ---------- the ASCII side conditions ---------- *)
Lemma rview_of_ty m w g : In g (rview_of m w) -> rg_ty g = pw_ty w.
Proof.
  unfold rview_of. destruct (is_default_writer w).
  - intros [<-|[]]. reflexivity.
  - rewrite split_group_cols. intros H. apply in_map_iff in H. destruct H as (p & <- & _). reflexivity.
Qed.

Lemma ascii_ok_rview o m : o_writers o = default_writers -> forallb ascii_ok (rview o m) = true.
Proof.
  intros Ho. unfold rview, effective_writers. rewrite Ho. fold (qd m).
  assert (Eq : flat_map (rview_of m) (qd m) = map (group_of m) (qd m)).
  { apply rview_default. intros w Hw. apply filter_In in Hw. apply default_writers_default, Hw. }
  assert (Aq : forallb ascii_ok (flat_map (rview_of m) (qd m)) = true) by (rewrite Eq; apply ascii_ok_pregs).
  destruct (o_unspec o); [|exact Aq]. fold (ud m). rewrite flat_map_app, forallb_app, Aq. cbn [andb].
  apply forallb_forall. intros g Hg. apply in_flat_map in Hg. destruct Hg as (w & Hw & Hg).
  unfold ascii_ok. rewrite (rview_of_ty m w g Hg), (ud_float m w Hw). cbn [sty_eqb]. rewrite andb_false_r. reflexivity.
Qed.

(* the whole file: ply.Write on a well-formed point cloud with TexCoord, read back by ply.ReadMesh.  The attributes come
   back in the reader's order (TexCoord before the splat groups and the user scalars): the same attributes as
   [expected], as a permutation. *)
Theorem ply_points_st_roundtrip : forall o f m,
  o_writers o = default_writers -> wf_mesh m = true -> w_topo m = TPoint -> has_tex m = true -> o_unspec o = true ->
  no_user_st m = true ->
  exists file r r', write o f m = Ok file /\ expected o m = Ok r /\ read_mesh file = Ok r' /\
     m_topo r' = m_topo r /\ m_idx r' = m_idx r /\ Permutation (m_attrs r') (m_attrs r).
Proof.
  intros o f m Ho Hwf Tp Hx Hu Hst.
  destruct (readers_placed_points_st o (is_bin f) m Ho Hwf Tp Hx Hu Hst) as (PL & Hrp & Hk & Hperm).
  destruct (wf_faces m Hwf) as (_ & _ & Hat).
  pose proof (effective_good o m Ho Hat) as Hg.
  destruct (rview_same (w_n m) m (effective_writers o m) Hg) as (_ & Gd & _). fold (rview o m) in Gd.
  pose proof Hwf as Hwf'. unfold wf_mesh in Hwf'.
  apply andb_prop in Hwf'. destruct Hwf' as [Hwf' _]. apply andb_prop in Hwf'. destruct Hwf' as [Hwf' _].
  apply andb_prop in Hwf'. destruct Hwf' as [Hwf' _]. apply andb_prop in Hwf'. destruct Hwf' as [Hwf' _].
  apply andb_prop in Hwf'. destruct Hwf' as [Hwf' Hemp]. apply andb_prop in Hwf'. destruct Hwf' as [_ Hkn].
  assert (Hn : (0 < w_n m)%nat).
  { unfold has_tex, has_attr in Hx. destruct (w_attrs m); [discriminate Hx|]. destruct (w_n m); [discriminate Hemp|lia]. }
  assert (Hne : vertex_props (rview o m) <> []).
  { destruct (ud_split m Tp Hx Hkn) as (L1 & L2 & Eu & Hl). rewrite (rview_shape_st o m L1 L2 Ho Hu Eu Hl).
    rewrite !vertex_props_app. intros E. apply app_eq_nil in E. destruct E as [_ E]. apply app_eq_nil in E. destruct E as [_ E].
    discriminate E. }
  destruct (ply_points_placed o f m PL Ho Hwf Tp Hn Hrp Hk (fun _ => conj (ascii_ok_rview o m Ho) Hne)) as (file & W & R).
  exists file, {| m_topo := TPoint; m_idx := iota (w_n m); m_attrs := map gattr (rview o m) |},
         {| m_topo := TPoint; m_idx := iota (w_n m); m_attrs := map gattr (map fst PL) |}.
  split; [exact W|]. split; [|split; [exact R|]].
  - unfold expected. rewrite (mapR_ok _ gattr) by (intros g Hin; rewrite Forall_forall in Gd; apply (rgroup_attr_ok (w_n m)), Gd, Hin).
    cbn [rbind]. rewrite Tp. reflexivity.
  - cbn [m_topo m_idx m_attrs]. split; [reflexivity|]. split; [reflexivity|]. apply Permutation_map, Hperm.
Qed.

(* the excluded case is real: [wf_mesh] accepts a point cloud with TexCoord and a user scalar named s; the file then
   has two properties s, the TexCoord reader takes the LAST one and the user attribute is lost *)
Example ply_points_st_dup_refuted :
  let m := {| w_topo := TPoint; w_idx := [0; 1]%nat; w_n := 2%nat;
              w_attrs := [ {| wa_dim := 3; wa_name := "Position"; wa_rows := [[1065353216; 0; 0]; [0; 1065353216; 0]] |};
                           {| wa_dim := 2; wa_name := "TexCoord"; wa_rows := [[0; 1065353216]; [1065353216; 0]] |};
                           {| wa_dim := 1; wa_name := "s"; wa_rows := [[1056964608]; [1048576000]] |} ] |} in
  wf_mesh m = true /\ no_user_st m = false /\
  forallb (fun f => match write default_opts f m, expected default_opts m with
                    | Ok file, Ok r =>
                        match read_mesh file with
                        | Ok r' => negb (Nat.eqb (List.length (m_attrs r')) (List.length (m_attrs r)))
                                   && match get_attr 1 "s" (m_attrs r'), get_attr 1 "s" (m_attrs r) with None, Some _ => true | _, _ => false end
                                   && match get_attr 2 "TexCoord" (m_attrs r'), get_attr 2 "TexCoord" (m_attrs r) with
                                      | Some d', Some d => negb (rows_eqb d' d) | _, _ => false end
                        | Err _ => false end
                    | _, _ => false end) [ASCII; BinLE; BinBE] = true.
Proof. vm_compute. repeat split; reflexivity. Qed.

(* ---------- WriteUnspecifiedProperties off: only the table's own writers, TexCoord is not written ---------- *)
Theorem ply_points_tex_nounspec : forall o f m,
  o_writers o = default_writers -> wf_mesh m = true -> w_topo m = TPoint -> o_unspec o = false ->
  (f = ASCII -> w_n m = 0%nat \/ vertex_props (rview o m) <> []) ->
  exists file r, write o f m = Ok file /\ expected o m = Ok r /\ read_mesh file = Ok r.
Proof.
  intros o f m Ho Hwf Tp Hu Hasc.
  destruct (wf_faces m Hwf) as (_ & Hx & Hat).
  pose proof (effective_good o m Ho Hat) as Hg.
  assert (Er : rview o m = map (group_of m) (qd m)).
  { unfold rview, effective_writers. rewrite Ho, Hu. fold (qd m). apply rview_default.
    intros w Hw. apply filter_In in Hw. apply default_writers_default, Hw. }
  assert (Hr : readers_ok (is_bin f) (rview o m)) by (rewrite Er; apply readers_ok_default).
  assert (Hk : keys_ok [] (rview o m) = true) by (rewrite Er; apply keys_ok_pregs).
  pose proof Hwf as Hwf'. unfold wf_mesh in Hwf'.
  apply andb_prop in Hwf'. destruct Hwf' as [Hwf' _]. apply andb_prop in Hwf'. destruct Hwf' as [Hwf' _].
  apply andb_prop in Hwf'. destruct Hwf' as [Hwf' _]. apply andb_prop in Hwf'. destruct Hwf' as [Hwf' _].
  apply andb_prop in Hwf'. destruct Hwf' as [_ Hemp].
  assert (H0 : w_n m = 0%nat -> effective_writers o m = []).
  { intros E0. apply no_attrs_no_writers; [exact Ho|]. destruct (w_attrs m); [reflexivity|]. rewrite E0 in Hemp. discriminate. }
  assert (Ha : f = ASCII -> forallb ascii_ok (rview o m) = true /\ (w_n m = 0%nat \/ vertex_props (rview o m) <> []))
    by (intros E; split; [apply ascii_ok_rview, Ho|apply Hasc, E]).
  assert (Ht : w_topo m = TTriangle -> (List.length (w_idx m) mod 3 = 0)%nat /\ Forall tri_ok (tris (w_idx m))) by (intros T; congruence).
  destruct (write_read_expected o f m Hg Hr Hk H0 Ha Ht Hx) as (file & Ew & Erd).
  destruct (rview_same (w_n m) m (effective_writers o m) Hg) as (_ & Gd & _). fold (rview o m) in Gd.
  assert (H0' : w_n m = 0%nat -> rview o m = []) by (intros E; unfold rview; rewrite (H0 E); reflexivity).
  assert (Ee : expected o m = result_mesh (is_bin f) (rview o m) m).
  { apply expected_result; try assumption. intros T. congruence. }
  destruct (result_mesh_ok (is_bin f) (rview o m) m Gd Hk H0' ltac:(intros T; congruence)) as (r & Erm).
  exists file, r. rewrite Erd, Ee. auto.
Qed.

Print Assumptions readers_placed_st_open.
Print Assumptions readers_placed_points_st.
Print Assumptions ply_points_st_roundtrip.
Print Assumptions ply_points_st_dup_refuted.
Print Assumptions ply_points_tex_nounspec.

(* ================= the property for point clouds with per-vertex s/t, all three encodings at once ================= *)
(* the reader's group list does not depend on the encoding (only the cursors do) *)
Theorem readers_placed_points_st_uniform : forall o m,
  o_writers o = default_writers -> wf_mesh m = true -> w_topo m = TPoint -> has_tex m = true -> o_unspec o = true ->
  no_user_st m = true ->
  exists L, keys_ok [] L = true /\ Permutation L (rview o m) /\
            forall bin, exists PL, map fst PL = L /\ readers_placed bin (rview o m) PL.
Proof.
  intros o m Ho Hwf Tp Hx Hu Hst. unfold wf_mesh in Hwf.
  apply andb_prop in Hwf. destruct Hwf as [Hwf Htopo]. apply andb_prop in Hwf. destruct Hwf as [Hwf Hop].
  apply andb_prop in Hwf. destruct Hwf as [Hwf Hres]. apply andb_prop in Hwf. destruct Hwf as [Hwf Hnd].
  apply andb_prop in Hwf. destruct Hwf as [Hwf Hemp]. apply andb_prop in Hwf. destruct Hwf as [Hattr Hkn].
  apply nodupb_NoDup in Hnd. apply not_existsb_In in Hop.
  unfold no_user_st in Hst. apply andb_prop in Hst. destruct Hst as [Hs_ Ht_]. apply not_existsb_In in Hs_, Ht_.
  destruct (ud_split m Tp Hx Hkn) as (L1 & L2 & Eu & Hl).
  pose proof (rview_shape_st o m L1 L2 Ho Hu Eu Hl) as Er.
  pose proof (user_names_st m L1 L2 Eu Hl) as En.
  set (A1 := map (group_of m) (filter (qualifies m) dwA)). set (A2 := map (group_of m) (filter (qualifies m) dwB)).
  set (T1s := tail_of m L1). set (T2s := tail_of m L2). set (tg := group_of m tex_pw).
  assert (EA : map (group_of m) (qd m) = A1 ++ A2) by (rewrite qd_split, map_app; reflexivity).
  rewrite EA in Er. fold T1s T2s tg in Er.
  assert (Hsc : Forall scalar_group (T1s ++ T2s)) by (apply Forall_app; split; apply tail_scalar).
  assert (Eattr : map rg_attr (T1s ++ T2s) = user_names m)
    by (rewrite map_app; unfold T1s, T2s; rewrite !tail_attrs; symmetry; exact En).
  assert (Hdis : forall n, In n (user_names m) -> ~ In n (default_prop_names m))
    by (intros n Hn Hd; apply (NoDup_app_disjoint _ _ Hnd n); assumption).
  apply NoDup_app_tail in Hnd.
  assert (Enames : flat_map rg_names (A1 ++ A2) = default_prop_names m) by (rewrite <- EA, <- pnames_props; apply pnames_pregs).
  exists (A1 ++ tg :: A2 ++ T1s ++ T2s). split; [|split].
  - assert (E : A1 ++ tg :: A2 ++ T1s ++ T2s = (A1 ++ tg :: A2) ++ (T1s ++ T2s)) by (rewrite <- app_assoc; reflexivity).
    rewrite E, keys_ok_app. cbn [app]. unfold A1, A2, tg. rewrite keys_ok_pregs_st. cbn [andb]. fold A1 A2 tg.
    apply keys_ok_scalars; [exact Hsc|rewrite Eattr; exact Hnd|].
    intros g s Hg Hs. pose proof Hsc as Hsc'. rewrite Forall_forall in Hsc'. specialize (Hsc' g Hg).
    assert (Hs' : In s (map (group_of m) (qd m)) \/ s = tg).
    { rewrite EA. apply in_app_or in Hs. destruct Hs as [Hs|[Hs|Hs]]; [left; apply in_or_app; left; exact Hs|right; symmetry; exact Hs|left; apply in_or_app; right; exact Hs]. }
    destruct Hs' as [Hs' | ->].
    + apply (pregs_vs_tail m); [exact Hsc'| |exact Hs']. intros E'. apply Hop. rewrite <- E', <- Eattr. apply in_map, Hg.
    + unfold gkey_eqb, gattr, key_eqb. rewrite Hsc'. reflexivity.
  - rewrite Er. rewrite <- app_assoc. apply Permutation_app_head.
    rewrite !app_assoc. apply Permutation_middle.
  - intros bin. exists (st_placement bin A1 A2 T1s tg T2s). split; [apply st_placement_fst|].
    rewrite Er. apply (readers_placed_st_open bin m (qualifies m) T1s T2s).
    + exact Hsc.
    + rewrite Eattr. exact Hnd.
    + intros g Hg. assert (Hin : In (rg_attr g) (user_names m)) by (rewrite <- Eattr; apply in_map, Hg). split.
      * fold A1 A2. rewrite Enames. apply Hdis, Hin.
      * intros [E|[E|[]]]; [apply Hs_|apply Ht_]; rewrite E; exact Hin.
    + fold A1 A2. apply Forall_forall. intros g Hg. apply group_openb_open; [apply all_scalar_props|].
      rewrite !pnames_props, Enames, (scalar_names _ Hsc), Eattr.
      unfold no_group_completedb in Hres. rewrite forallb_forall in Hres. apply Hres. rewrite default_groups_split.
      apply in_app_or in Hg. apply in_or_app. destruct Hg as [Hg|Hg]; [left; exact Hg|right; right; exact Hg].
Qed.

(* THE PROPERTY for this class: the three files exist, ply.ReadMesh's model returns ONE mesh r' from all three, r' has
   the topology and indices of [expected o m] and the same attributes (in the reader's order), and the header of each
   file describes its body *)
Theorem ply_property_points_st : forall o m,
  o_writers o = default_writers -> wf_mesh m = true -> w_topo m = TPoint -> has_tex m = true -> o_unspec o = true ->
  no_user_st m = true ->
  let gs := map (group_of m) (effective_writers o m) in
  exists fa fl fb r r',
    write o ASCII m = Ok fa /\ write o BinLE m = Ok fl /\ write o BinBE m = Ok fb /\
    expected o m = Ok r /\ read_mesh fa = Ok r' /\ read_mesh fl = Ok r' /\ read_mesh fb = Ok r' /\
    m_topo r' = m_topo r /\ m_idx r' = m_idx r /\ Permutation (m_attrs r') (m_attrs r) /\
    described ASCII gs m fa /\ described BinLE gs m fl /\ described BinBE gs m fb.
Proof.
  intros o m Ho Hwf Tp Hx Hu Hst gs.
  destruct (readers_placed_points_st_uniform o m Ho Hwf Tp Hx Hu Hst) as (L & Hk & Hperm & Hpl).
  destruct (wf_faces m Hwf) as (Hm3 & Htx & Hat).
  pose proof (effective_good o m Ho Hat) as Hg.
  destruct (rview_same (w_n m) m (effective_writers o m) Hg) as (P & Gd & _). fold (rview o m) in Gd, P.
  pose proof Hwf as Hwf'. unfold wf_mesh in Hwf'.
  apply andb_prop in Hwf'. destruct Hwf' as [Hwf' _]. apply andb_prop in Hwf'. destruct Hwf' as [Hwf' _].
  apply andb_prop in Hwf'. destruct Hwf' as [Hwf' _]. apply andb_prop in Hwf'. destruct Hwf' as [Hwf' _].
  apply andb_prop in Hwf'. destruct Hwf' as [Hwf' Hemp]. apply andb_prop in Hwf'. destruct Hwf' as [_ Hkn].
  assert (Hn : (0 < w_n m)%nat).
  { unfold has_tex, has_attr in Hx. destruct (w_attrs m); [discriminate Hx|]. destruct (w_n m); [discriminate Hemp|lia]. }
  assert (Hne : vertex_props (rview o m) <> []).
  { destruct (ud_split m Tp Hx Hkn) as (L1 & L2 & Eu & Hl). rewrite (rview_shape_st o m L1 L2 Ho Hu Eu Hl).
    rewrite !vertex_props_app. intros E. apply app_eq_nil in E. destruct E as [_ E]. apply app_eq_nil in E. destruct E as [_ E].
    discriminate E. }
  assert (Hgs : gs <> []).
  { intros Hnil. apply Hne. rewrite P. fold gs. rewrite Hnil. reflexivity. }
  assert (R : forall f, exists file, write o f m = Ok file /\
            read_mesh file = Ok {| m_topo := TPoint; m_idx := iota (w_n m); m_attrs := map gattr L |} /\ described f gs m file).
  { intros f. destruct (Hpl (is_bin f)) as (PL & EL & Hrp). rewrite <- EL in Hk.
    destruct (ply_points_placed o f m PL Ho Hwf Tp Hn Hrp Hk (fun _ => conj (ascii_ok_rview o m Ho) Hne)) as (file & W & Rd).
    destruct (write_header_describes_body o f m Hg (fun _ => or_intror Hgs) Hm3 Htx) as (file' & W' & D1 & D2 & D3 & D4).
    assert (file' = file) by congruence. subst file'. exists file. rewrite EL in Rd.
    split; [exact W|]. split; [exact Rd|]. unfold described. auto. }
  destruct (R ASCII) as (fa & Wa & Ra & Da). destruct (R BinLE) as (fl & Wl & Rl & Dl). destruct (R BinBE) as (fb & Wb & Rb & Db).
  exists fa, fl, fb, {| m_topo := TPoint; m_idx := iota (w_n m); m_attrs := map gattr (rview o m) |},
         {| m_topo := TPoint; m_idx := iota (w_n m); m_attrs := map gattr L |}.
  split; [exact Wa|]. split; [exact Wl|]. split; [exact Wb|]. split.
  { unfold expected. rewrite (mapR_ok _ gattr) by (intros g Hin; rewrite Forall_forall in Gd; apply (rgroup_attr_ok (w_n m)), Gd, Hin).
    cbn [rbind]. rewrite Tp. reflexivity. }
  split; [exact Ra|]. split; [exact Rl|]. split; [exact Rb|].
  cbn [m_topo m_idx m_attrs]. split; [reflexivity|]. split; [reflexivity|]. split; [apply Permutation_map, Hperm|].
  split; [exact Da|]. split; [exact Dl|exact Db].
Qed.
Print Assumptions ply_property_points_st.

(* ================= one statement for every well-formed mesh (ply.Write's table) ================= *)
(* [ply_property_default] (no per-vertex s/t), [ply_property_points_st] (point cloud with TexCoord, unspecified on) and
   [ply_points_tex_nounspec] (point cloud, unspecified off) together: no [no_st] hypothesis is left.  r' = r except in the
   second class, where the attribute list is a permutation. *)
Theorem ply_property_all : forall o m,
  o_writers o = default_writers -> wf_mesh m = true ->
  (w_topo m = TPoint -> has_tex m = true -> o_unspec o = true -> no_user_st m = true) ->
  (w_n m = 0%nat \/ vertex_props (rview o m) <> []) ->
  let gs := map (group_of m) (effective_writers o m) in
  exists fa fl fb r r',
    write o ASCII m = Ok fa /\ write o BinLE m = Ok fl /\ write o BinBE m = Ok fb /\
    expected o m = Ok r /\ read_mesh fa = Ok r' /\ read_mesh fl = Ok r' /\ read_mesh fb = Ok r' /\
    m_topo r' = m_topo r /\ m_idx r' = m_idx r /\ Permutation (m_attrs r') (m_attrs r) /\
    described ASCII gs m fa /\ described BinLE gs m fl /\ described BinBE gs m fb.
Proof.
  intros o m Ho Hwf Hst Hne gs.
  assert (Dflt : no_st m -> exists fa fl fb r r',
    write o ASCII m = Ok fa /\ write o BinLE m = Ok fl /\ write o BinBE m = Ok fb /\
    expected o m = Ok r /\ read_mesh fa = Ok r' /\ read_mesh fl = Ok r' /\ read_mesh fb = Ok r' /\
    m_topo r' = m_topo r /\ m_idx r' = m_idx r /\ Permutation (m_attrs r') (m_attrs r) /\
    described ASCII gs m fa /\ described BinLE gs m fl /\ described BinBE gs m fb).
  { intros C. destruct (ply_property_default o m Ho Hwf C Hne) as (fa & fl & fb & r & Wa & Wl & Wb & Ee & Ra & Rl & Rb & Da & Dl & Db).
    exists fa, fl, fb, r, r. repeat (split; [assumption|]). split; [reflexivity|]. split; [reflexivity|]. split; [apply Permutation_refl|].
    split; [exact Da|]. split; [exact Dl|exact Db]. }
  destruct (w_topo m) eqn:Tp; [|apply Dflt; left; exact Tp].
  destruct (has_tex m) eqn:Hx; [|apply Dflt; right; exact Hx].
  destruct (o_unspec o) eqn:Hu; [exact (ply_property_points_st o m Ho Hwf Tp Hx Hu (Hst eq_refl eq_refl eq_refl))|].
  (* unspecified off *)
  destruct (wf_faces m Hwf) as (Hm3 & Htx & Hat).
  pose proof (effective_good o m Ho Hat) as Hg.
  destruct (rview_same (w_n m) m (effective_writers o m) Hg) as (P & _ & _). fold (rview o m) in P.
  assert (Hgs : w_n m = 0%nat \/ gs <> []).
  { destruct Hne as [E|E]; [left; exact E|right]. intros Hnil. apply E. rewrite P. fold gs. rewrite Hnil. reflexivity. }
  assert (R : forall f, exists file r, write o f m = Ok file /\ expected o m = Ok r /\ read_mesh file = Ok r /\ described f gs m file).
  { intros f. destruct (ply_points_tex_nounspec o f m Ho Hwf Tp Hu (fun _ => Hne)) as (file & r & W & E & Rd).
    destruct (write_header_describes_body o f m Hg (fun _ => Hgs) Hm3 Htx) as (file' & W' & D1 & D2 & D3 & D4).
    assert (file' = file) by congruence. subst file'. exists file, r.
    split; [exact W|]. split; [exact E|]. split; [exact Rd|]. unfold described. auto. }
  destruct (R ASCII) as (fa & r & Wa & Ea & Ra & Da). destruct (R BinLE) as (fl & r1 & Wl & El & Rl & Dl). destruct (R BinBE) as (fb & r2 & Wb & Eb & Rb & Db).
  assert (r1 = r) by congruence. assert (r2 = r) by congruence. subst r1 r2.
  exists fa, fl, fb, r, r. repeat (split; [assumption|]). split; [reflexivity|]. split; [reflexivity|]. split; [apply Permutation_refl|].
  split; [exact Da|]. split; [exact Dl|exact Db].
Qed.
Print Assumptions ply_property_all.
