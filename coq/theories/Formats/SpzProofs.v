(* C15: proofs about the SPZ decoder model and the reference encoder (Formats/Spz.v). *)
From PF Require Import Base.Bytes Base.BytesProofs Formats.Spz.
From Coq Require Import QArith.
From Coq Require Import ZifyN ZifyNat ZifyBool.
Ltac Zify.zify_post_hook ::= Z.div_mod_to_equations.
Open Scope N_scope.

(* ------------------------------------------------------------------ *)
(* 24-bit sign extension                                               *)
(* ------------------------------------------------------------------ *)
Lemma testbit_small u m : u < 2 ^ m -> N.testbit u m = false.
Proof. intros H. rewrite N.testbit_eqb. rewrite N.div_small by assumption. reflexivity. Qed.

Lemma testbit23 u : u < 16777216 -> N.testbit u 23 = negb (u <? 8388608).
Proof.
  intros H. rewrite N.testbit_eqb. change (2 ^ 23) with 8388608.
  destruct (u <? 8388608) eqn:E; cbn [negb]; lia.
Qed.

Lemma land_bit23 u : u < 16777216 -> N.land u 8388608 = if u <? 8388608 then 0 else 8388608.
Proof.
  intros H. apply N.bits_inj. intros m. rewrite N.land_spec.
  change 8388608 with (2 ^ 23) at 1. rewrite N.pow2_bits_eqb.
  destruct (N.eqb_spec 23 m) as [<-|Hne].
  - rewrite testbit23 by assumption. destruct (u <? 8388608); cbn [negb andb].
    + reflexivity.
    + change 8388608 with (2 ^ 23). rewrite N.pow2_bits_true. reflexivity.
  - rewrite andb_false_r. destruct (u <? 8388608).
    + rewrite N.bits_0. reflexivity.
    + change 8388608 with (2 ^ 23). rewrite N.pow2_bits_false by assumption. reflexivity.
Qed.

Lemma land_high u : u < 16777216 -> N.land u 4278190080 = 0.
Proof.
  intros H. apply N.bits_inj. intros m. rewrite N.land_spec, N.bits_0.
  destruct (N.ltb_spec m 24) as [Hm|Hm].
  - change 4278190080 with (N.shiftl 255 24). rewrite N.shiftl_spec_low by assumption. apply andb_false_r.
  - rewrite testbit_small; [reflexivity|].
    apply N.lt_le_trans with (2 ^ 24); [exact H|]. apply N.pow_le_mono_r; lia.
Qed.

Lemma lor_high u : u < 16777216 -> N.lor u 4278190080 = u + 4278190080.
Proof.
  intros H. pose proof (land_high u H) as E.
  rewrite (N.add_nocarry_lxor _ _ E). symmetry. apply N.lxor_lor. exact E.
Qed.

(* the uint32 / int32 dance of header.go:255-260 is two's-complement sign extension *)
Lemma sext24_arith u : u < 16777216 ->
  sext24 u = if u <? 8388608 then Z.of_N u else (Z.of_N u - 16777216)%Z.
Proof.
  intros H. unfold sext24. rewrite land_bit23 by assumption.
  destruct (u <? 8388608) eqn:E.
  - cbn [N.ltb N.compare]. replace (u <? 2147483648) with true by lia. reflexivity.
  - change (0 <? 8388608) with true. cbv iota. rewrite lor_high by assumption.
    replace (u + 4278190080 <? 2147483648) with false by lia. lia.
Qed.

Theorem sext24_of_mod x : (- 8388608 <= x < 8388608)%Z -> sext24 (Z.to_N (x mod 16777216)) = x.
Proof.
  intros H. rewrite sext24_arith by lia.
  destruct (Z.to_N (x mod 16777216) <? 8388608) eqn:E; lia.
Qed.

(* three little-endian bytes of the 24-bit two's-complement pattern decode to the number *)
Theorem fixed24_sext x : (- 8388608 <= x < 8388608)%Z ->
  let u := Z.to_N (x mod 16777216) in
  sext24 (fixed24 (u mod 256) ((u / 256) mod 256) (u / 65536)) = x.
Proof.
  intros H u. replace (fixed24 _ _ _) with u by (unfold fixed24; lia). apply sext24_of_mod. exact H.
Qed.

Lemma sext24_range u : u < 16777216 -> (- 8388608 <= sext24 u < 8388608)%Z.
Proof. intros H. rewrite sext24_arith by assumption. destruct (u <? 8388608) eqn:E; lia. Qed.

(* the decoder is injective on 24-bit patterns: no two patterns give the same coordinate *)
Theorem sext24_injective u v : u < 16777216 -> v < 16777216 -> sext24 u = sext24 v -> u = v.
Proof.
  intros Hu Hv. rewrite !sext24_arith by assumption.
  destruct (u <? 8388608) eqn:E1, (v <? 8388608) eqn:E2; lia.
Qed.

(* ------------------------------------------------------------------ *)
(* half floats: the bit-field extraction of util.go is the IEEE binary16 layout *)
(* ------------------------------------------------------------------ *)
Definition half_spec (neg : bool) (e m : N) : xval :=
  if e =? 0 then XQ (qneg_if neg (Qmake (Z.of_N m) 16777216))
  else if e =? 31 then (if m =? 0 then (if neg then XNInf else XPInf) else XNaN)
  else XQ (qneg_if neg (pow2 (Z.of_N e - 15) * (1 + Qmake (Z.of_N m) 1024))%Q).

Theorem half_decode_fields s e m : s < 2 -> e < 32 -> m < 1024 ->
  half_decode (32768 * s + 1024 * e + m) = half_spec (s =? 1) e m.
Proof.
  intros Hs He Hm. unfold half_decode, half_spec.
  replace ((32768 * s + 1024 * e + m) / 1024 mod 32) with e by lia.
  replace ((32768 * s + 1024 * e + m) mod 1024) with m by lia.
  replace ((32768 * s + 1024 * e + m) / 32768 mod 2) with s by lia.
  reflexivity.
Qed.

(* every 16-bit pattern is of that form *)
Lemma half_pattern h : h < 65536 ->
  h = 32768 * (h / 32768) + 1024 * ((h / 1024) mod 32) + h mod 1024 /\ h / 32768 < 2 /\ (h / 1024) mod 32 < 32 /\ h mod 1024 < 1024.
Proof. intros H. lia. Qed.

(* ------------------------------------------------------------------ *)
(* SH index map                                                        *)
(* ------------------------------------------------------------------ *)
Open Scope nat_scope.

Lemma sh_index_range dim n i d c : i < n -> d < dim -> c < 3 -> sh_index dim d i + c < 3 * dim * n.
Proof.
  intros Hi Hd Hc. unfold sh_index.
  assert (3 * dim * i + 3 * dim <= 3 * dim * n) by nia. lia.
Qed.

Lemma sh_index_injective dim i d c i' d' c' : d < dim -> d' < dim -> c < 3 -> c' < 3 ->
  sh_index dim d i + c = sh_index dim d' i' + c' -> i = i' /\ d = d' /\ c = c'.
Proof.
  intros Hd Hd' Hc Hc' E. unfold sh_index in E.
  assert (i = i').
  { destruct (Nat.lt_trichotomy i i') as [H|[H|H]]; [exfalso|assumption|exfalso].
    - assert (3 * dim * i + 3 * dim <= 3 * dim * i') by nia. lia.
    - assert (3 * dim * i' + 3 * dim <= 3 * dim * i) by nia. lia. }
  subst i'. lia.
Qed.

Lemma sh_index_surjective dim n k : k < 3 * dim * n ->
  exists i d c, i < n /\ d < dim /\ c < 3 /\ k = sh_index dim d i + c.
Proof.
  intros Hk. assert (Hdim : 0 < dim) by (destruct dim; lia).
  exists (k / (3 * dim)), ((k mod (3 * dim)) / 3), (k mod 3).
  pose proof (Nat.div_mod k (3 * dim) ltac:(lia)) as E1.
  pose proof (Nat.mod_upper_bound k (3 * dim) ltac:(lia)) as B1.
  set (q := k / (3 * dim)) in *. set (r := k mod (3 * dim)) in *.
  pose proof (Nat.div_mod r 3 ltac:(lia)) as E2.
  pose proof (Nat.mod_upper_bound r 3 ltac:(lia)) as B2.
  assert (Ek3 : k mod 3 = r mod 3).
  { rewrite E1. rewrite <- Nat.mul_assoc, (Nat.mul_comm 3 (dim * q)), Nat.add_comm.
    rewrite Nat.mod_add by lia. reflexivity. }
  rewrite Ek3. set (d := r / 3) in *. set (c := r mod 3) in *.
  unfold sh_index. repeat split.
  - destruct (Nat.lt_ge_cases q n) as [H|H]; [exact H|]. exfalso.
    assert (3 * dim * n <= 3 * dim * q) by nia. lia.
  - lia.
  - exact B2.
  - lia.
Qed.

(* (i, d, c) |-> 3*shDim*i + 3*d + c is a bijection from [0,n) x [0,shDim) x [0,3) onto [0, 3*shDim*n) *)
Theorem sh_index_bijective dim n :
  (forall i d c, i < n -> d < dim -> c < 3 -> sh_index dim d i + c < 3 * dim * n) /\
  (forall i d c i' d' c', d < dim -> d' < dim -> c < 3 -> c' < 3 ->
     sh_index dim d i + c = sh_index dim d' i' + c' -> i = i' /\ d = d' /\ c = c') /\
  (forall k, k < 3 * dim * n -> exists i d c, i < n /\ d < dim /\ c < 3 /\ k = sh_index dim d i + c).
Proof.
  split; [intros; apply sh_index_range; assumption|].
  split; [intros; eapply sh_index_injective; eassumption|].
  intros; apply sh_index_surjective; assumption.
Qed.

(* ------------------------------------------------------------------ *)
(* planar arrays built from fixed-size records                          *)
(* ------------------------------------------------------------------ *)
Lemma flat_map_fixed_length {A} (f : A -> list N) k ps :
  Forall (fun p => length (f p) = k) ps -> length (flat_map f ps) = k * length ps.
Proof.
  induction 1 as [|p ps Hp Hps IH]; [simpl; lia|].
  cbn [flat_map length]. rewrite app_length, Hp, IH. lia.
Qed.

Lemma at_flat_map {A} (f : A -> list N) k (d : A) ps : Forall (fun p => length (f p) = k) ps ->
  forall i j, i < length ps -> j < k -> at_ (flat_map f ps) (k * i + j) = at_ (f (nth i ps d)) j.
Proof.
  unfold at_. induction 1 as [|p ps Hp Hps IH]; intros i j Hi Hj; [simpl in Hi; lia|].
  cbn [flat_map]. destruct i as [|i].
  - rewrite Nat.mul_0_r. cbn [Nat.add nth]. apply app_nth1. lia.
  - rewrite app_nth2 by lia. cbn [nth]. rewrite <- IH by (simpl in Hi; lia). f_equal. lia.
Qed.

Lemma map_seq_nth {A B} (G : A -> B) d ps : map (fun i => G (nth i ps d)) (seq 0 (length ps)) = map G ps.
Proof.
  induction ps as [|p ps IH]; [reflexivity|].
  cbn [length seq map nth]. f_equal. rewrite <- seq_shift, map_map. exact IH.
Qed.

Lemma map_seq_ext {B} (F G : nat -> B) n : (forall i, i < n -> F i = G i) -> map F (seq 0 n) = map G (seq 0 n).
Proof. intros H. apply map_ext_in. intros i Hi. apply in_seq in Hi. apply H. lia. Qed.

(* the per-point readers only look at their own bytes *)
Lemma pos_of_ext h l l' o o' : (forall j, j < pos_size h -> at_ l (o + j) = at_ l' (o' + j)) ->
  pos_of h l o = pos_of h l' o'.
Proof.
  intros H. unfold pos_of, pos_size in *. destruct (float16_positions h); cbv beta zeta;
  rewrite <- !Nat.add_assoc; rewrite !H by (simpl; lia); reflexivity.
Qed.
Lemma col_of_ext l l' o o' : (forall j, j < 3 -> at_ l (o + j) = at_ l' (o' + j)) -> col_of l o = col_of l' o'.
Proof.
  intros H. unfold col_of. rewrite <- (Nat.add_0_r o) at 1. rewrite <- (Nat.add_0_r o') at 1.
  rewrite !H by lia. reflexivity.
Qed.
Lemma scale_of_ext l l' o o' : (forall j, j < 3 -> at_ l (o + j) = at_ l' (o' + j)) -> scale_of l o = scale_of l' o'.
Proof.
  intros H. unfold scale_of. rewrite <- (Nat.add_0_r o) at 1. rewrite <- (Nat.add_0_r o') at 1.
  rewrite !H by lia. reflexivity.
Qed.
Lemma rot_of_ext l l' o o' : (forall j, j < 3 -> at_ l (o + j) = at_ l' (o' + j)) -> rot_of l o = rot_of l' o'.
Proof.
  intros H. unfold rot_of. pose proof (H 0%nat ltac:(lia)) as H0. rewrite !Nat.add_0_r in H0.
  rewrite H0. rewrite !H by lia. reflexivity.
Qed.
Lemma sh_of_ext l l' o o' : (forall j, j < 3 -> at_ l (o + j) = at_ l' (o' + j)) -> sh_of l o = sh_of l' o'.
Proof.
  intros H. unfold sh_of. rewrite <- (Nat.add_0_r o) at 1. rewrite <- (Nat.add_0_r o') at 1.
  rewrite !H by lia. reflexivity.
Qed.

Close Scope nat_scope.

(* ------------------------------------------------------------------ *)
(* header                                                              *)
(* ------------------------------------------------------------------ *)
Lemma get32_le32 w r : word32 w -> get32 (le32 w ++ r) = Some (w, r).
Proof.
  intros H. unfold get32. change 4%nat with (length (le32 w)). rewrite take_app. cbn [bind].
  rewrite de_le32_le32 by assumption. reflexivity.
Qed.

Lemma get_header_enc h r : header_ok h -> get_header (enc_header h ++ r) = Some (h, r).
Proof.
  intros (Hm & Hv & Hn & _). unfold get_header, enc_header. rewrite <- !app_assoc.
  rewrite get32_le32 by assumption. cbn [bind].
  rewrite get32_le32 by assumption. cbn [bind].
  rewrite get32_le32 by assumption. cbn [bind app]. destruct h; reflexivity.
Qed.

(* ------------------------------------------------------------------ *)
(* decode after the reference encoder                                   *)
(* ------------------------------------------------------------------ *)
(* the expected result: attribute X of point i is the dequantised field X of record i *)
Definition fields_of (h : header) (ps : list prec) : fields :=
  let ds := map (dequantise h) ps in
  {| f_pos := map d_pos ds; f_alpha := map d_alpha ds; f_col := map d_col ds;
     f_scale := map d_scale ds; f_rot := map d_rot ds;
     f_sh := map (fun d => map (fun x => nth d (d_sh x) dflt_q3) ds) (seq 0 (sh_dim (h_shdeg h))) |}.

Lemma nth_map_seq {B} (F : nat -> B) n d dflt : (d < n)%nat -> nth d (map F (seq 0 n)) dflt = F d.
Proof.
  intros H. rewrite (nth_indep _ dflt (F 0%nat)) by (rewrite map_length, seq_length; exact H).
  rewrite map_nth. rewrite seq_nth by exact H. reflexivity.
Qed.

Theorem decode_encode_ref h ps extra :
  header_ok h -> validate h = true -> lengths_match h ps ->
  decode (encode_ref h ps ++ extra) = Some (h, fields_of h ps).
Proof.
  intros Hh Hv [Hn Hps]. unfold decode, encode_ref. rewrite <- !app_assoc.
  rewrite get_header_enc by assumption. cbn [bind]. rewrite Hv. cbn [negb].
  set (n := length ps) in *. set (dim := sh_dim (h_shdeg h)) in *.
  assert (En : N.to_nat (h_npoints h) = n) by lia. rewrite En.
  (* lengths of the six arrays *)
  assert (Fpos : Forall (fun p => length (p_pos p) = pos_size h) ps) by (eapply Forall_impl; [|exact Hps]; intros p Hp; apply Hp).
  assert (Fcol : Forall (fun p => length (p_col p) = 3%nat) ps) by (eapply Forall_impl; [|exact Hps]; intros p Hp; apply Hp).
  assert (Fsc : Forall (fun p => length (p_scale p) = 3%nat) ps) by (eapply Forall_impl; [|exact Hps]; intros p Hp; apply Hp).
  assert (Frot : Forall (fun p => length (p_rot p) = 3%nat) ps) by (eapply Forall_impl; [|exact Hps]; intros p Hp; apply Hp).
  assert (Fsh : Forall (fun p => length (p_sh p) = (3 * dim)%nat) ps) by (eapply Forall_impl; [|exact Hps]; intros p Hp; apply Hp).
  pose proof (flat_map_fixed_length _ _ _ Fpos) as Lpos.
  pose proof (flat_map_fixed_length _ _ _ Fcol) as Lcol.
  pose proof (flat_map_fixed_length _ _ _ Fsc) as Lsc.
  pose proof (flat_map_fixed_length _ _ _ Frot) as Lrot.
  pose proof (flat_map_fixed_length _ _ _ Fsh) as Lsh.
  pose proof (map_length p_alpha ps) as Lal.
  fold n in Lpos, Lcol, Lsc, Lrot, Lsh, Lal.
  (* the size guard *)
  match goal with |- context [N.of_nat (length ?r) <? total_size h] =>
    replace (N.of_nat (length r) <? total_size h) with false end.
  2:{ symmetry. apply N.ltb_ge. unfold total_size. rewrite !app_length, Lpos, Lcol, Lsc, Lrot, Lsh, Lal.
      fold dim. rewrite <- Hn. fold n. set (k := pos_size h) in *. nia. }
  replace (n * pos_size h)%nat with (length (flat_map p_pos ps)) by lia. rewrite take_app. cbn [bind].
  replace n with (length (map p_alpha ps)) at 1 by lia. rewrite take_app. cbn [bind].
  replace (3 * n)%nat with (length (flat_map p_col ps)) at 1 by lia. rewrite take_app. cbn [bind].
  replace (3 * n)%nat with (length (flat_map p_scale ps)) at 1 by lia. rewrite take_app. cbn [bind].
  replace (3 * n)%nat with (length (flat_map p_rot ps)) at 1 by lia. rewrite take_app. cbn [bind].
  replace (3 * dim * n)%nat with (length (flat_map p_sh ps)) by lia. rewrite take_app. cbn [bind].
  f_equal. f_equal. unfold fields_of. fold dim. rewrite !map_map. unfold n.
  f_equal.
  - rewrite <- (map_seq_nth (fun p => d_pos (dequantise h p)) dflt_prec). apply map_seq_ext. intros i Hi.
    cbn [dequantise d_pos]. apply pos_of_ext. intros j Hj. rewrite Nat.add_0_l.
    apply at_flat_map; assumption.
  - rewrite <- (map_seq_nth (fun p => d_alpha (dequantise h p)) dflt_prec). apply map_seq_ext. intros i Hi.
    cbn [dequantise d_alpha]. unfold alpha_of, at_. cbn [nth].
    change 0 with (p_alpha dflt_prec) at 1. rewrite map_nth. reflexivity.
  - rewrite <- (map_seq_nth (fun p => d_col (dequantise h p)) dflt_prec). apply map_seq_ext. intros i Hi.
    cbn [dequantise d_col]. apply col_of_ext. intros j Hj. rewrite Nat.add_0_l.
    apply at_flat_map; assumption.
  - rewrite <- (map_seq_nth (fun p => d_scale (dequantise h p)) dflt_prec). apply map_seq_ext. intros i Hi.
    cbn [dequantise d_scale]. apply scale_of_ext. intros j Hj. rewrite Nat.add_0_l.
    apply at_flat_map; assumption.
  - rewrite <- (map_seq_nth (fun p => d_rot (dequantise h p)) dflt_prec). apply map_seq_ext. intros i Hi.
    cbn [dequantise d_rot]. apply rot_of_ext. intros j Hj. rewrite Nat.add_0_l.
    apply at_flat_map; assumption.
  - apply map_seq_ext. intros d Hd. rewrite map_map.
    rewrite <- (map_seq_nth (fun p => nth d (d_sh (dequantise h p)) dflt_q3) dflt_prec). apply map_seq_ext. intros i Hi.
    cbn [dequantise d_sh]. fold dim. rewrite nth_map_seq by exact Hd.
    apply sh_of_ext. intros j Hj. unfold sh_index.
    replace (3 * d + 3 * dim * i + j)%nat with (3 * dim * i + (3 * d + j))%nat by lia.
    apply at_flat_map; try assumption. lia.
Qed.

Theorem decode_encode_ref_exact h ps :
  header_ok h -> validate h = true -> lengths_match h ps ->
  decode (encode_ref h ps) = Some (h, fields_of h ps).
Proof. intros. rewrite <- (app_nil_r (encode_ref h ps)). apply decode_encode_ref; assumption. Qed.

(* every attribute array has the declared length, element i is the dequantised record i *)
Lemma fields_of_lengths h ps :
  let f := fields_of h ps in let n := length ps in
  length (f_pos f) = n /\ length (f_alpha f) = n /\ length (f_col f) = n /\ length (f_scale f) = n /\
  length (f_rot f) = n /\ length (f_sh f) = sh_dim (h_shdeg h) /\ Forall (fun a => length a = n) (f_sh f).
Proof.
  cbv zeta. unfold fields_of. cbn [f_pos f_alpha f_col f_scale f_rot f_sh].
  rewrite !map_length, seq_length. repeat split.
  apply Forall_forall. intros a Ha. apply in_map_iff in Ha. destruct Ha as (d & <- & _).
  rewrite !map_length. reflexivity.
Qed.

Lemma fields_of_nth h ps i : (i < length ps)%nat ->
  let f := fields_of h ps in let r := dequantise h (nth i ps dflt_prec) in
  nth i (f_pos f) dflt_x3 = d_pos r /\ nth i (f_alpha f) 0%Q = d_alpha r /\
  nth i (f_col f) dflt_q3 = d_col r /\ nth i (f_scale f) dflt_q3 = d_scale r /\
  nth i (f_rot f) dflt_q4 = d_rot r /\
  forall d, (d < sh_dim (h_shdeg h))%nat -> nth i (nth d (f_sh f) []) dflt_q3 = nth d (d_sh r) dflt_q3.
Proof.
  intros Hi. cbv zeta. unfold fields_of. cbn [f_pos f_alpha f_col f_scale f_rot f_sh]. rewrite !map_map.
  assert (G : forall {B} (g : prec -> B) dflt, nth i (map g ps) dflt = g (nth i ps dflt_prec)).
  { intros B g dflt. rewrite (nth_indep _ dflt (g dflt_prec)) by (rewrite map_length; exact Hi). apply map_nth. }
  rewrite !G. repeat split. intros d Hd. rewrite nth_map_seq by exact Hd. rewrite map_map. apply G.
Qed.

(* ------------------------------------------------------------------ *)
(* a strict prefix of a reference stream is rejected                    *)
(* ------------------------------------------------------------------ *)
Definition body_ref (ps : list prec) : list N :=
  flat_map p_pos ps ++ map p_alpha ps ++ flat_map p_col ps ++ flat_map p_scale ps ++ flat_map p_rot ps ++ flat_map p_sh ps.

Lemma encode_ref_body h ps : encode_ref h ps = enc_header h ++ body_ref ps.
Proof. reflexivity. Qed.

Lemma enc_header_length h : length (enc_header h) = 16%nat.
Proof. reflexivity. Qed.

Lemma body_ref_length h ps : lengths_match h ps -> N.of_nat (length (body_ref ps)) = total_size h.
Proof.
  intros [Hn Hps]. unfold body_ref, total_size.
  assert (Fpos : Forall (fun p => length (p_pos p) = pos_size h) ps) by (eapply Forall_impl; [|exact Hps]; intros p Hp; apply Hp).
  assert (Fcol : Forall (fun p => length (p_col p) = 3%nat) ps) by (eapply Forall_impl; [|exact Hps]; intros p Hp; apply Hp).
  assert (Fsc : Forall (fun p => length (p_scale p) = 3%nat) ps) by (eapply Forall_impl; [|exact Hps]; intros p Hp; apply Hp).
  assert (Frot : Forall (fun p => length (p_rot p) = 3%nat) ps) by (eapply Forall_impl; [|exact Hps]; intros p Hp; apply Hp).
  assert (Fsh : Forall (fun p => length (p_sh p) = (3 * sh_dim (h_shdeg h))%nat) ps) by (eapply Forall_impl; [|exact Hps]; intros p Hp; apply Hp).
  rewrite !app_length, map_length.
  rewrite (flat_map_fixed_length _ _ _ Fpos), (flat_map_fixed_length _ _ _ Fcol), (flat_map_fixed_length _ _ _ Fsc),
          (flat_map_fixed_length _ _ _ Frot), (flat_map_fixed_length _ _ _ Fsh).
  rewrite <- Hn. set (n := length ps). set (k := pos_size h). set (dim := sh_dim (h_shdeg h)). nia.
Qed.

Lemma get32_length l w r : get32 l = Some (w, r) -> length l = (4 + length r)%nat.
Proof.
  unfold get32. destruct (take 4 l) as [[a r']|] eqn:E; cbn [bind]; [|discriminate].
  destruct (de_le32 a); cbn [bind]; [|discriminate]. intros H.
  assert (r' = r) as -> by congruence. apply take_spec in E. destruct E as [-> Hl].
  rewrite app_length. lia.
Qed.

Lemma get_header_length l h r : get_header l = Some (h, r) -> length l = (16 + length r)%nat.
Proof.
  unfold get_header.
  destruct (get32 l) as [[m r1]|] eqn:E1; cbn [bind]; [|discriminate].
  destruct (get32 r1) as [[v r2]|] eqn:E2; cbn [bind]; [|discriminate].
  destruct (get32 r2) as [[n r3]|] eqn:E3; cbn [bind]; [|discriminate].
  destruct r3 as [|d [|f [|g [|z r']]]]; try discriminate.
  intros H. assert (r' = r) as -> by congruence.
  apply get32_length in E1, E2, E3. simpl length in *. lia.
Qed.

Theorem decode_prefix_rejected h ps k :
  header_ok h -> validate h = true -> lengths_match h ps ->
  (k < length (encode_ref h ps))%nat -> decode (firstn k (encode_ref h ps)) = None.
Proof.
  intros Hh Hv Hm Hk. rewrite encode_ref_body in *. rewrite app_length, enc_header_length in Hk.
  destruct (Nat.lt_ge_cases k 16) as [Hlt|Hge].
  - unfold decode. destruct (get_header (firstn k (enc_header h ++ body_ref ps))) as [[h' r]|] eqn:E; [|reflexivity].
    apply get_header_length in E. rewrite firstn_length in E. lia.
  - rewrite firstn_app, enc_header_length. rewrite (firstn_all2 (enc_header h)) by (rewrite enc_header_length; lia).
    unfold decode. rewrite get_header_enc by assumption. cbn [bind]. rewrite Hv. cbn [negb].
    replace (N.of_nat (length (firstn (k - 16) (body_ref ps))) <? total_size h) with true; [reflexivity|].
    symmetry. apply N.ltb_lt. rewrite <- (body_ref_length h ps Hm). rewrite firstn_length. lia.
Qed.

Theorem decode_invalid_header h rest : header_ok h -> validate h = false -> decode (enc_header h ++ rest) = None.
Proof. intros Hh Hv. unfold decode. rewrite get_header_enc by assumption. cbn [bind]. rewrite Hv. reflexivity. Qed.

(* ------------------------------------------------------------------ *)
(* the byte dequantisers are injective: comparing the byte a returned value dequantises from (the     *)
(* codes of the large synthetic cases of Check/C15.v) is comparing the dequantised values              *)
(* ------------------------------------------------------------------ *)
From Coq Require Import Lqa.
Lemma bq_inj a b : (bq a == bq b)%Q -> a = b.
Proof. unfold bq. intros H. apply -> inject_Z_injective in H. apply N2Z.inj. exact H. Qed.

Theorem scale1_inj a b : (scale1 a == scale1 b)%Q -> a = b.
Proof.
  unfold scale1. intros H. apply bq_inj. set (x := bq a) in *. set (y := bq b) in *.
  assert (Ex : (x / 16 == x * (1 # 16))%Q) by field. assert (Ey : (y / 16 == y * (1 # 16))%Q) by field.
  rewrite Ex, Ey in H. lra.
Qed.
Theorem sh1_inj a b : (sh1 a == sh1 b)%Q -> a = b.
Proof.
  unfold sh1. intros H. apply bq_inj. set (x := bq a) in *. set (y := bq b) in *.
  assert (Ex : ((x - 128) / 128 == (x - 128) * (1 # 128))%Q) by field.
  assert (Ey : ((y - 128) / 128 == (y - 128) * (1 # 128))%Q) by field.
  rewrite Ex, Ey in H. lra.
Qed.
Theorem rot1_inj a b : (rot1 a == rot1 b)%Q -> a = b.
Proof. unfold rot1. intros H. apply bq_inj. set (x := bq a) in *. set (y := bq b) in *. lra. Qed.
Theorem col1_inj a b : (col1 a == col1 b)%Q -> a = b.
Proof.
  unfold col1. intros H. apply bq_inj. set (x := bq a) in *. set (y := bq b) in *.
  assert (Ex : ((x / 255 - (1 # 2)) / (3 # 20) == x * (4 # 153) - (10 # 3))%Q) by field.
  assert (Ey : ((y / 255 - (1 # 2)) / (3 # 20) == y * (4 # 153) - (10 # 3))%Q) by field.
  rewrite Ex, Ey in H. lra.
Qed.
Theorem alpha_inj a b : (bq a / 255 == bq b / 255)%Q -> a = b.
Proof.
  intros H. apply bq_inj. set (x := bq a) in *. set (y := bq b) in *.
  assert (Ex : (x / 255 == x * (1 # 255))%Q) by field. assert (Ey : (y / 255 == y * (1 # 255))%Q) by field.
  rewrite Ex, Ey in H. lra.
Qed.
