(* C06 proofs, round 4: the checker clauses "unreferenced-entry" ([nothing_extra]) and "dangling-index" of the
   texture slots of materials, in the checker's own boolean form, on the model's document. *)
From PF Require Import Base.Bytes Base.BytesProofs Formats.Gltf Formats.GltfProofs Formats.GltfTexProofs
  Formats.GltfGeomProofs.
From Coq Require Import ZifyN ZifyNat ZifyBool Lia.
From Coq Require String.
Import String.StringSyntax.
Delimit Scope string_scope with string.
Ltac Zify.zify_post_hook ::= Z.div_mod_to_equations.
Open Scope list_scope.
Open Scope N_scope.

(* ------------------------------------------------------------------ [covers] as a proposition *)
Definition cov (n : N) (used : list N) : Prop := forall i, i < n -> In i used.
Lemma covers_cov n used : cov n used -> covers n used = true.
Proof.
  intros H. unfold covers. apply forallb_forall. intros i Hi. apply in_seq in Hi. apply existsb_exists.
  exists (N.of_nat i). split; [apply H; lia|apply N.eqb_refl].
Qed.
Lemma cov_app_l n a b : cov n a -> cov n (a ++ b).
Proof. intros H i Hi. apply in_or_app. left. apply H, Hi. Qed.
Lemma cov_snoc {A} (l : list A) used x : cov (len l) used -> cov (len (l ++ [x])) (used ++ [len l]).
Proof.
  intros H i Hi. rewrite len_snoc in Hi. apply in_or_app.
  destruct (N.eq_dec i (len l)) as [->|Hn]; [right; left; reflexivity|left; apply H; lia].
Qed.

(* ------------------------------------------------------------------ the shape of one AddTexture step *)
Lemma index_of_some {A} (p : A -> bool) l i : index_of p l = Some i -> exists y, In y l /\ p y = true.
Proof.
  revert i. induction l as [|x l IH]; cbn [index_of]; [discriminate|]. intros i. destruct (p x) eqn:E.
  - intros _. exists x. split; [left; reflexivity|exact E].
  - destruct (index_of p l) as [j|]; [|discriminate]. intros _. destruct (IH j eq_refl) as (y & Hy & Ey).
    exists y. split; [right; exact Hy|exact Ey].
Qed.
Lemma index_ofN_some {A} (p : A -> bool) l i : index_ofN p l = Some i -> exists y, In y l /\ p y = true.
Proof. unfold index_ofN. destruct (index_of p l) as [j|] eqn:E; [|discriminate]. intros _. eapply index_of_some, E. Qed.

Lemma valid_idx_len {A} (l : list A) : valid_idx (len l) l = false.
Proof. unfold valid_idx. apply N.ltb_irrefl. Qed.

Lemma hit_absurd_src x nt i : xdedup x -> index_ofN (gtex_eqb nt) (x_texs x) = Some i ->
  gt_source nt = Some (len (x_images x)) -> False.
Proof.
  intros (_ & _ & _ & Hv & _) Hi Hs. apply index_ofN_some in Hi. destruct Hi as (g & Hg & E).
  apply keyed_gtex in E. destruct (Hv g Hg) as (H1 & _).
  assert (Eg : gt_source g = Some (len (x_images x))) by congruence.
  rewrite Eg in H1. cbn [valid_opt] in H1. rewrite valid_idx_len in H1. discriminate.
Qed.
Lemma hit_absurd_smp x nt i : xdedup x -> index_ofN (gtex_eqb nt) (x_texs x) = Some i ->
  gt_sampler nt = Some (len (x_samplers x)) -> False.
Proof.
  intros (_ & _ & _ & Hv & _) Hi Hs. apply index_ofN_some in Hi. destruct Hi as (g & Hg & E).
  apply keyed_gtex in E. destruct (Hv g Hg) as (_ & H1).
  assert (Eg : gt_sampler g = Some (len (x_samplers x))) by congruence.
  rewrite Eg in H1. cbn [valid_opt] in H1. rewrite valid_idx_len in H1. discriminate.
Qed.

Lemma lookupN_In' {B} k (l : list (N * B)) v : lookupN k l = Some v -> In (k, v) l.
Proof.
  induction l as [|[k' v'] l IH]; cbn [lookupN]; [discriminate|].
  destruct (k =? k') eqn:E; [|right; auto]. intros H. apply some_inj in H. subst. left. f_equal. lia.
Qed.

(* either nothing is appended (the texture exists: same pointer, or an equal entry), or a new texture is
   appended whose index is returned; an image / a sampler is appended only together with a new texture that
   refers to it *)
Definition tex_same (x x' : texst) (ti : gtexinfo) : Prop :=
  x_texs x' = x_texs x /\ x_images x' = x_images x /\ x_samplers x' = x_samplers x /\
  valid_idx (ti_index ti) (x_texs x) = true.
Definition tex_new (x x' : texst) (ti : gtexinfo) : Prop :=
  exists nt, x_texs x' = x_texs x ++ [nt] /\ ti_index ti = len (x_texs x) /\
    (x_images x' = x_images x \/ exists u, x_images x' = x_images x ++ [u] /\ gt_source nt = Some (len (x_images x))) /\
    (x_samplers x' = x_samplers x \/ exists sm, x_samplers x' = x_samplers x ++ [sm] /\ gt_sampler nt = Some (len (x_samplers x))).

Lemma add_texture_shape t x : xdedup x ->
  tex_same x (snd (add_texture t x)) (fst (add_texture t x)) \/ tex_new x (snd (add_texture t x)) (fst (add_texture t x)).
Proof.
  intros Hd. pose proof Hd as (_ & _ & _ & _ & Hp). unfold add_texture.
  change (x_tab (use_exts (tx_exts t) x)) with (x_tab x). change (x_images (use_exts (tx_exts t) x)) with (x_images x).
  change (x_samplers (use_exts (tx_exts t) x)) with (x_samplers x). change (x_texs (use_exts (tx_exts t) x)) with (x_texs x).
  destruct (lookupN (tx_ptr t) (x_tab x)) as [i|] eqn:El.
  - left. cbn [fst snd ti_index]. unfold tex_same. repeat split. apply (Hp (tx_ptr t)), lookupN_In', El.
  - destruct (index_ofN (String.eqb (tx_uri t)) (x_images x)) eqn:Ei;
    destruct (tx_samp t) as [sm|]; try destruct (index_ofN (samp_eqb sm) (x_samplers x)) eqn:Es;
    match goal with |- context [index_ofN (gtex_eqb ?nt) ?l] => destruct (index_ofN (gtex_eqb nt) l) eqn:Et end;
    cbn [fst snd ti_index];
    first
      [ exfalso; eapply hit_absurd_src; [exact Hd|exact Et|reflexivity]
      | exfalso; eapply hit_absurd_smp; [exact Hd|exact Et|reflexivity]
      | left; unfold tex_same; cbn [x_texs x_images x_samplers]; repeat split; eapply index_ofN_lt; exact Et
      | right; unfold tex_new; cbn [x_texs x_images x_samplers]; eexists; split; [reflexivity|]; split; [reflexivity|];
        split; [first [left; reflexivity|right; eexists; split; reflexivity]
               |first [left; reflexivity|right; eexists; split; reflexivity]] ].
Qed.

(* ------------------------------------------------------------------ images and samplers are referenced *)
Definition srcs (ts : list gtex) : list N := flat_map (fun t => opt_list (gt_source t)) ts.
Definition smps (ts : list gtex) : list N := flat_map (fun t => opt_list (gt_sampler t)) ts.
Definition xcov (x : texst) : Prop :=
  xdedup x /\ cov (len (x_images x)) (srcs (x_texs x)) /\ cov (len (x_samplers x)) (smps (x_texs x)).

Lemma xcov_tex t x : xcov x -> xcov (snd (add_texture t x)).
Proof.
  intros (Hd & Hi & Hs). split; [apply xdedup_tex, Hd|].
  destruct (add_texture_shape t x Hd) as [(Et & Ei & Es & _)|(nt & Et & _ & Himg & Hsmp)].
  - rewrite Et, Ei, Es. split; assumption.
  - rewrite Et. unfold srcs, smps. rewrite !flat_map_app. cbn [flat_map]. rewrite !app_nil_r. split.
    + destruct Himg as [->|(u & -> & ->)]; [apply cov_app_l, Hi|]. cbn [opt_list]. apply cov_snoc, Hi.
    + destruct Hsmp as [->|(u & -> & ->)]; [apply cov_app_l, Hs|]. cbn [opt_list]. apply cov_snoc, Hs.
Qed.

Lemma xcov_run sc : xcov (st_x (run sc)).
Proof.
  apply (xsteps_inv xcov) with (x := init_x); [intros t x Hx; apply xcov_tex, Hx|intros es x Hx; exact Hx|apply run_xsteps|].
  split; [|split; intros i Hi; unfold len in Hi; cbn in Hi; lia].
  unfold xdedup, init_x. cbn. repeat split; auto; intros ? ? [].
Qed.

(* ------------------------------------------------------------------ the slots of a material being built *)
Definition slot_idx (sl : gslot) : N := ti_index (fst (snd sl)).
(* [n0]: number of textures before AddMaterial started.  Every texture appended since then is referenced by a
   slot collected so far, and every collected slot refers to an existing texture *)
Definition binv (n0 : N) (acc : list gslot * texst) : Prop :=
  xdedup (snd acc) /\ n0 <= len (x_texs (snd acc)) /\
  (forall i, i < len (x_texs (snd acc)) -> i < n0 \/ In i (map slot_idx (fst acc))) /\
  (forall sl, In sl (fst acc) -> slot_idx sl < len (x_texs (snd acc))).

Lemma add_slot_binv n0 name t extra acc : binv n0 acc -> binv n0 (add_slot name t extra acc).
Proof.
  intros (Hd & Hn & Hc & Hv). unfold add_slot. destruct t as [tx|]; [|exact (conj Hd (conj Hn (conj Hc Hv)))].
  pose proof (xdedup_tex tx (snd acc) Hd) as (Hd' & _).
  pose proof (add_texture_shape tx (snd acc) Hd) as Hs.
  destruct (add_texture tx (snd acc)) as [ti x']. cbn [fst snd] in Hd', Hs.
  unfold binv. cbn [fst snd]. rewrite map_app. cbn [map].
  destruct Hs as [(Et & _ & _ & Hvi)|(nt & Et & Eti & _ & _)].
  - rewrite Et. split; [exact Hd'|]. split; [exact Hn|]. split.
    + intros i Hi. destruct (Hc i Hi) as [H|H]; [left; exact H|right; apply in_or_app; left; exact H].
    + intros sl Hin. apply in_app_or in Hin. destruct Hin as [Hin|[<-|[]]]; [apply Hv, Hin|].
      unfold slot_idx. cbn [fst snd]. unfold valid_idx in Hvi. lia.
  - rewrite Et, len_snoc. split; [exact Hd'|]. split; [lia|]. split.
    + intros i Hi. destruct (N.eq_dec i (len (x_texs (snd acc)))) as [->|Hne].
      * right. apply in_or_app. right. left. unfold slot_idx. cbn [fst snd]. exact Eti.
      * assert (Hi' : i < len (x_texs (snd acc))) by lia.
        destruct (Hc i Hi') as [H|H]; [left; exact H|right; apply in_or_app; left; exact H].
    + intros sl Hin. apply in_app_or in Hin. destruct Hin as [Hin|[<-|[]]]; [specialize (Hv sl Hin); lia|].
      unfold slot_idx. cbn [fst snd]. lia.
Qed.

Lemma ext_slots_binv n0 e acc : binv n0 acc -> binv n0 (ext_slots e acc).
Proof.
  intros Ha. unfold ext_slots.
  assert (H : forall l acc0, binv n0 acc0 ->
    binv n0 (fold_left (fun a st => add_slot (String.append (mx_id e) (String.append "/" (fst st))) (Some (snd st)) None a) l acc0)).
  { induction l as [|st l IH]; intros acc0 H0; cbn [fold_left]; [exact H0|]. apply IH, add_slot_binv, H0. }
  specialize (H (mx_texs e) acc Ha). cbv zeta.
  set (r := fold_left _ (mx_texs e) acc) in *. destruct H as (H1 & H2 & H3 & H4).
  unfold binv. cbn [fst snd]. change (x_texs (use_ext (mx_id e) (snd r))) with (x_texs (snd r)).
  split; [exact H1|]. split; [exact H2|]. split; assumption.
Qed.

Lemma build_material_binv m x : xdedup x ->
  binv (len (x_texs x)) (gmt_texs (fst (build_material m x)), snd (build_material m x)).
Proof.
  intros Hx. unfold build_material. set (n0 := len (x_texs x)).
  set (a0 := (@nil gslot, x)).
  assert (H0 : binv n0 a0).
  { unfold binv, a0, n0. cbn [fst snd map]. split; [exact Hx|]. split; [lia|]. split; [intros i Hi; left; exact Hi|intros sl []]. }
  set (a1 := match pm_pbr m with
             | None => a0
             | Some p => add_slot "metallicRoughnessTexture" (pb_mrtex p) None (add_slot "baseColorTexture" (pb_tex p) None a0)
             end).
  assert (H1 : binv n0 a1).
  { unfold a1. destruct (pm_pbr m) as [p|]; [|exact H0]. apply add_slot_binv, add_slot_binv, H0. }
  assert (H2 : forall l acc, binv n0 acc -> binv n0 (fold_left (fun a e => ext_slots e a) l acc)).
  { induction l as [|e l IH]; intros acc Ha; cbn [fold_left]; [exact Ha|]. apply IH, ext_slots_binv, Ha. }
  specialize (H2 (pm_exts m) a1 H1).
  set (a2 := fold_left (fun a e => ext_slots e a) (pm_exts m) a1) in *.
  set (a3 := match pm_normal m with Some (t, s) => add_slot "normalTexture" (Some t) s a2 | None => a2 end).
  assert (H3 : binv n0 a3).
  { unfold a3. destruct (pm_normal m) as [[t s]|]; [apply add_slot_binv, H2|exact H2]. }
  set (a4 := match pm_occ m with Some (t, s) => add_slot "occlusionTexture" (Some t) s a3 | None => a3 end).
  assert (H4 : binv n0 a4).
  { unfold a4. destruct (pm_occ m) as [[t s]|]; [apply add_slot_binv, H3|exact H3]. }
  cbn [fst snd gmt_texs]. destruct H4 as (P1 & P2 & P3 & P4). exact (conj P1 (conj P2 (conj P3 P4))).
Qed.

(* ------------------------------------------------------------------ the reference lists of the checker *)
Definition tex_refs (mats : list gmat) : list N :=
  flat_map (fun m => map (fun sl => ti_index (fst (snd sl))) (gmt_texs m)) mats.
Definition mat_refs (ms : list gmesh) : list N :=
  flat_map (fun m => flat_map (fun p => opt_list (gp_mat p)) (gm_prims m)) ms.
Definition mesh_refs (nds : list gnode) : list N := flat_map (fun nd => opt_list (gn_mesh nd)) nds.
Definition macc_refs (ms : list gmesh) : list N :=
  flat_map (fun m => flat_map (fun p => map snd (gp_attrs p) ++ opt_list (gp_idx p)) (gm_prims m)) ms.
Definition nacc_refs (nds : list gnode) : list N :=
  flat_map (fun nd => match gn_inst nd with Some a => map snd a | None => [] end) nds.

(* the invariant.  [W]: "attribute names are distinct in every mesh" is assumed (only the accessor clause needs
   it); [mati]: a material index handed out by AddMaterial and not yet used by a mesh entry; [pmesh]: a mesh
   index handed out by AddMesh and not yet used by a node *)
Record ginv (W : Prop) (mati pmesh : option N) (s : state) : Prop := {
  g_canon : canon (st_b s);
  g_acc : W -> cov (len (b_chunks (st_b s))) (macc_refs (st_meshes s) ++ nacc_refs (st_nodes s));
  g_mesh : forall i, i < len (st_meshes s) -> In i (mesh_refs (st_nodes s)) \/ pmesh = Some i;
  g_mat : forall j, j < len (st_mats s) ->
          In j (mat_refs (st_meshes s)) \/ (mati = Some j /\ forall p i, ~ In ((p, Some j), i) (st_mesh_tab s));
  g_tex : cov (len (x_texs (st_x s))) (tex_refs (st_mats s));
  g_xd : xdedup (st_x s);
  g_mtab : forall pm i, In (pm, i) (st_mat_tab s) -> i < len (st_mats s);
  g_mkeys : forall p j i, In ((p, Some j), i) (st_mesh_tab s) -> j < len (st_mats s);
  g_slots : forall m sl, In m (st_mats s) -> In sl (gmt_texs m) -> slot_idx sl < len (x_texs (st_x s)) }.

Lemma ginv_init W : ginv W None None init.
Proof.
  constructor; unfold init; cbn [st_b st_x st_meshes st_nodes st_mats st_mat_tab st_mesh_tab init_b init_x b_chunks x_texs].
  - apply canon_init.
  - intros _ i Hi. unfold len in Hi. cbn in Hi. lia.
  - intros i Hi. unfold len in Hi. cbn in Hi. lia.
  - intros i Hi. unfold len in Hi. cbn in Hi. lia.
  - intros i Hi. unfold len in Hi. cbn in Hi. lia.
  - unfold xdedup. cbn. repeat split; auto; intros ? ? [].
  - intros pm i [].
  - intros p j i [].
  - intros m sl [].
Qed.

(* ---- AddMaterial *)
Lemma find_mat_In m tab i : find_mat m tab = Some i -> exists pm, In (pm, i) tab.
Proof.
  unfold find_mat. destruct (find _ tab) as [[pm j]|] eqn:E; [|discriminate]. cbn [option_map snd]. intros H.
  apply some_inj in H. subst j. apply find_some in E. exists pm. apply E.
Qed.

Lemma add_material_ginv W pm s : ginv W None None s ->
  ginv W (Some (fst (add_material pm s))) None (snd (add_material pm s))
  /\ fst (add_material pm s) < len (st_mats (snd (add_material pm s))).
Proof.
  intros G. unfold add_material. destruct (find_mat pm (st_mat_tab s)) as [i|] eqn:Ef.
  - cbn [fst snd]. destruct (find_mat_In _ _ _ Ef) as (pm' & Hin). split; [|apply (g_mtab _ _ _ _ G pm'), Hin].
    destruct G as [G1 G2 G3 G4 G5 G6 G7 G8 G9]. constructor; try assumption.
    intros j Hj. destruct (G4 j Hj) as [H|(H & _)]; [left; exact H|discriminate].
  - pose proof (build_material_binv pm (st_x s) (g_xd _ _ _ _ G)) as B.
    destruct (build_material pm (st_x s)) as [gm x]. cbn [fst snd] in *. destruct B as (B1 & B2 & B3 & B4). cbn [fst snd] in B1, B2, B3, B4.
    destruct G as [G1 G2 G3 G4 G5 G6 G7 G8 G9].
    split; [|cbn [st_mats]; rewrite len_snoc; lia].
    constructor; cbn [st_b st_x st_meshes st_nodes st_mats st_mat_tab st_mesh_tab]; try assumption.
    + intros j Hj. rewrite len_snoc in Hj. destruct (N.eq_dec j (len (st_mats s))) as [->|Hne].
      * right. split; [reflexivity|]. intros p i Hin. apply G8 in Hin. lia.
      * assert (Hj' : j < len (st_mats s)) by lia. destruct (G4 j Hj') as [H|(H & _)]; [left; exact H|discriminate].
    + intros i Hi. unfold tex_refs. rewrite flat_map_app. cbn [flat_map]. rewrite app_nil_r. apply in_or_app.
      destruct (B3 i Hi) as [H|H]; [left; apply G5, H|right; exact H].
    + intros pm' i Hin. rewrite len_snoc. apply in_app_or in Hin. destruct Hin as [Hin|[Hin|[]]].
      * specialize (G7 pm' i Hin). lia.
      * apply (f_equal snd) in Hin. cbn [snd] in Hin. lia.
    + intros p j i Hin. rewrite len_snoc. specialize (G8 p j i Hin). lia.
    + intros m sl Hm Hsl. apply in_app_or in Hm. destruct Hm as [Hm|[<-|[]]].
      * specialize (G9 m sl Hm Hsl). lia.
      * apply B4, Hsl.
Qed.

Lemma resolve_material_ginv W mo s : ginv W None None s ->
  ginv W (fst (resolve_material mo s)) None (snd (resolve_material mo s))
  /\ forall i, fst (resolve_material mo s) = Some i -> i < len (st_mats (snd (resolve_material mo s))).
Proof.
  intros G. unfold resolve_material. destruct (mo_mat mo) as [pm|].
  - pose proof (add_material_ginv W pm s G) as (G1 & Hb). destruct (add_material pm s) as [i s1]. cbn [fst snd] in *.
    split; [exact G1|]. intros j Hj. apply some_inj in Hj. subst j. exact Hb.
  - cbn [fst snd]. split; [exact G|]. intros i Hi. discriminate.
Qed.

(* ---- AddMesh (after the material has been resolved) *)
Lemma optN_eqb_eq a b : optN_eqb a b = true -> a = b.
Proof. destruct a, b; cbn [optN_eqb]; try discriminate; [|reflexivity]. intros H. f_equal. lia. Qed.
Lemma find_mesh_In k tab i : find_mesh k tab = Some i -> In (k, i) tab.
Proof.
  unfold find_mesh. destruct (find _ tab) as [[k' j]|] eqn:E; [|discriminate]. cbn [option_map snd]. intros H.
  apply some_inj in H. subst j. apply find_some in E. destruct E as (Hin & Ek). cbn [fst] in Ek.
  unfold mesh_key_eqb in Ek. apply andb_true_iff in Ek. destruct Ek as (E1 & E2). apply optN_eqb_eq in E2.
  destruct k as [p m], k' as [p' m']. cbn [fst snd] in *. assert (p' = p) by lia. subst. exact Hin.
Qed.

Lemma indexed_cover l : forall n i, n <= i -> i < n + len l -> In i (map snd (indexed n l)).
Proof.
  induction l as [|nv l IH]; intros n i H1 H2; [unfold len in H2; cbn [length] in H2; lia|].
  cbn [indexed map snd]. destruct (N.eq_dec i n) as [->|Hne]; [left; reflexivity|]. right.
  apply IH; [lia|]. unfold len in *. cbn [length] in H2. lia.
Qed.
Lemma len_mesh_chunks m : len (mesh_chunks m) = len (all_attrs m) + 1.
Proof. unfold mesh_chunks, all_attrs. rewrite !len_app', !len_map. unfold len. cbn [length]. lia. Qed.
Lemma mesh_idx_pos_all n m : mesh_idx_pos n m = n + len (all_attrs m).
Proof. unfold mesh_idx_pos, all_attrs. rewrite !len_app'. lia. Qed.

Definition placed_state (mo : pmodel) (mati : option N) (s : state) (ai : list (string * N) * N) (b : bufst)
  (wr : list (N * (list (string * N) * N))) : state :=
  {| st_b := b; st_x := st_x s;
     st_meshes := st_meshes s ++ [{| gm_name := mo_name mo;
                                     gm_prims := [{| gp_attrs := fst ai; gp_idx := Some (snd ai); gp_mat := mati;
                                                     gp_mode := if me_point (mo_mesh mo) then Some 0 else None |}] |}];
     st_nodes := st_nodes s; st_scene := st_scene s; st_mats := st_mats s; st_mat_tab := st_mat_tab s;
     st_mesh_tab := st_mesh_tab s ++ [((me_ptr (mo_mesh mo), mati), len (st_meshes s))]; st_wr_tab := wr;
     st_lights := st_lights s |}.

Lemma placed_ginv W mo mati s ai b wr : ginv W mati None s -> (forall i, mati = Some i -> i < len (st_mats s)) ->
  canon b ->
  (W -> forall i, i < len (b_chunks b) -> i < len (b_chunks (st_b s)) \/ In i (map snd (fst ai)) \/ i = snd ai) ->
  ginv W None (Some (len (st_meshes s))) (placed_state mo mati s ai b wr).
Proof.
  intros [G1 G2 G3 G4 G5 G6 G7 G8 G9] Hm Hc Hnew.
  constructor; unfold placed_state; cbn [st_b st_x st_meshes st_nodes st_mats st_mat_tab st_mesh_tab]; try assumption.
  - intros HW i Hi. unfold macc_refs. rewrite flat_map_app. cbn [flat_map gm_prims gp_attrs gp_idx opt_list].
    rewrite !in_app_iff. cbn [In]. destruct (Hnew HW i Hi) as [H|[H|H]].
    + apply (G2 HW) in H. apply in_app_or in H. tauto.
    + tauto.
    + symmetry in H. tauto.
  - intros i Hi. rewrite len_snoc in Hi. destruct (N.eq_dec i (len (st_meshes s))) as [->|Hne]; [right; reflexivity|].
    assert (Hi' : i < len (st_meshes s)) by lia. destruct (G3 i Hi') as [H|H]; [left; exact H|discriminate].
  - intros j Hj. left. unfold mat_refs. rewrite flat_map_app. apply in_or_app.
    destruct (G4 j Hj) as [H|(H & _)]; [left; exact H|right].
    cbn [flat_map gm_prims gp_mat]. rewrite H. cbn [opt_list app]. left. reflexivity.
  - intros p j i Hin. apply in_app_or in Hin. destruct Hin as [Hin|[Hin|[]]]; [apply (G8 p j i), Hin|].
    apply Hm. congruence.
Qed.

Lemma place_mesh_ginv (W : Prop) mo mati s : (W -> names_ok (mo_mesh mo)) -> ginv W mati None s ->
  (forall i, mati = Some i -> i < len (st_mats s)) ->
  exists mi, fst (place_mesh mo mati s) = Some mi /\ ginv W None (Some mi) (snd (place_mesh mo mati s)).
Proof.
  intros Hn G Hm. unfold place_mesh. destruct (find_mesh _ (st_mesh_tab s)) as [i|] eqn:Ef.
  - exists i. split; [reflexivity|]. cbn [snd]. apply find_mesh_In in Ef.
    destruct G as [G1 G2 G3 G4 G5 G6 G7 G8 G9]. constructor; try assumption.
    + intros j Hj. destruct (G3 j Hj) as [H|H]; [left; exact H|discriminate].
    + intros j Hj. destruct (G4 j Hj) as [H|(H & Hno)]; [left; exact H|]. exfalso. subst mati. eapply Hno, Ef.
  - exists (len (st_meshes s)). destruct (mesh_data_b (mo_mesh mo) s (g_canon _ _ _ _ G)) as [E|(_ & E)].
    + destruct (mesh_data (mo_mesh mo) s) as [[ai b] wr]. cbn [fst snd] in *. subst b. split; [reflexivity|].
      apply (placed_ginv W mo mati s ai (st_b s) wr G Hm (g_canon _ _ _ _ G)). intros _ i Hi. left. exact Hi.
    + rewrite E. cbn [fst snd]. split; [reflexivity|].
      set (n := len (b_chunks (st_b s))) in *.
      apply (placed_ginv W mo mati s (mesh_attrs n (mo_mesh mo), mesh_idx_pos n (mo_mesh mo))
               (of_chunks (b_chunks (st_b s) ++ mesh_chunks (mo_mesh mo))) _ G Hm (of_chunks_canon _)).
      intros HW i Hi. cbn [fst snd b_chunks of_chunks] in *. rewrite len_app', len_mesh_chunks in Hi. fold n in Hi |- *.
      rewrite (mesh_attrs_indexed _ _ (Hn HW)), mesh_idx_pos_all.
      destruct (N.ltb_spec i n) as [H|H]; [left; exact H|right].
      destruct (N.eq_dec i (n + len (all_attrs (mo_mesh mo)))) as [->|Hne]; [right; reflexivity|left].
      apply indexed_cover; lia.
Qed.

(* ---- the node of a model *)
Lemma len_inst_chunks ins : len (inst_chunks ins) = 3.
Proof. reflexivity. Qed.

Lemma add_node_ginv W mo mi s : ginv W None (Some mi) s -> ginv W None None (add_node mo mi s).
Proof.
  intros G. unfold add_node, node_inst. destruct (mo_inst mo) as [|i0 ins].
  - destruct G as [G1 G2 G3 G4 G5 G6 G7 G8 G9].
    constructor; cbn [st_b st_x st_meshes st_nodes st_mats st_mat_tab st_mesh_tab]; try assumption.
    + intros HW i Hi. apply (G2 HW) in Hi. unfold nacc_refs. rewrite flat_map_app. rewrite !in_app_iff in *. tauto.
    + intros i Hi. left. unfold mesh_refs. rewrite flat_map_app. apply in_or_app.
      destruct (G3 i Hi) as [H|H]; [left; exact H|right]. apply some_inj in H. subst i.
      cbn [flat_map gn_mesh opt_list app]. left. reflexivity.
  - pose proof (g_canon _ _ _ _ G) as Hc. rewrite (canon_of_chunks _ Hc). rewrite write_instances_of.
    destruct G as [G1 G2 G3 G4 G5 G6 G7 G8 G9].
    constructor; cbn [st_b st_x st_meshes st_nodes st_mats st_mat_tab st_mesh_tab]; try assumption.
    + apply of_chunks_canon.
    + intros HW i Hi. cbn [b_chunks of_chunks] in Hi. rewrite len_app', len_inst_chunks in Hi.
      unfold nacc_refs. rewrite flat_map_app. cbn [flat_map gn_inst map snd]. rewrite !in_app_iff. cbn [In].
      set (n := len (b_chunks (st_b s))) in *.
      destruct (N.ltb_spec i n) as [H|H].
      * apply (G2 HW) in H. apply in_app_or in H. tauto.
      * right. right. left. assert (Hc3 : n = i \/ n + 1 = i \/ n + 2 = i) by lia. tauto.
    + intros i Hi. left. unfold mesh_refs. rewrite flat_map_app. apply in_or_app.
      destruct (G3 i Hi) as [H|H]; [left; exact H|right]. apply some_inj in H. subst i.
      cbn [flat_map gn_mesh opt_list app]. left. reflexivity.
Qed.

Lemma add_model_ginv (W : Prop) s mo : (W -> names_ok (mo_mesh mo)) -> ginv W None None s -> ginv W None None (add_model s mo).
Proof.
  intros Hn G. unfold add_model, add_mesh. destruct (prim_count (mo_mesh mo) =? 0); [exact G|].
  pose proof (resolve_material_ginv W mo s G) as (G1 & Hb). destruct (resolve_material mo s) as [mati s1]. cbn [fst snd] in *.
  destruct (place_mesh_ginv W mo mati s1 Hn G1 Hb) as (mi & E & G2).
  destruct (place_mesh mo mati s1) as [o s2]. cbn [fst snd] in *. subst o. apply add_node_ginv, G2.
Qed.

Lemma add_light_ginv W s l : ginv W None None s -> ginv W None None (add_light s l).
Proof.
  intros [G1 G2 G3 G4 G5 G6 G7 G8 G9]. unfold add_light.
  constructor; cbn [st_b st_x st_meshes st_nodes st_mats st_mat_tab st_mesh_tab]; try assumption.
  - intros HW i Hi. apply (G2 HW) in Hi. unfold nacc_refs. rewrite flat_map_app. rewrite !in_app_iff in *. tauto.
  - intros i Hi. left. unfold mesh_refs. rewrite flat_map_app. apply in_or_app.
    destruct (G3 i Hi) as [H|H]; [left; exact H|discriminate].
Qed.

Theorem ginv_run (W : Prop) sc : (W -> forall mo, In mo (sc_models sc) -> names_ok (mo_mesh mo)) -> ginv W None None (run sc).
Proof.
  intros Hn. unfold run, add_scene.
  assert (H1 : forall ms s, (forall mo, In mo ms -> W -> names_ok (mo_mesh mo)) -> ginv W None None s ->
                            ginv W None None (fold_left add_model ms s)).
  { induction ms as [|mo r IH]; intros s Hm H; cbn [fold_left]; [exact H|].
    apply IH; [intros mo' Hin; apply Hm; right; exact Hin|]. apply add_model_ginv; [apply Hm; left; reflexivity|exact H]. }
  assert (H2 : forall ls s, ginv W None None s -> ginv W None None (fold_left add_light ls s)).
  { induction ls as [|l r IH]; intros s H; cbn [fold_left]; [exact H|]. apply IH, add_light_ginv, H. }
  apply H2, H1; [intros mo Hin HW; apply (Hn HW mo Hin)|apply ginv_init].
Qed.

(* ------------------------------------------------------------------ views: accessor i uses view i *)
Lemma accs_of_views cks : forall n i, n <= i -> i < n + len cks ->
  In i (flat_map (fun a => opt_list (a_view a)) (accs_of n cks)).
Proof.
  induction cks as [|ck r IH]; intros n i H1 H2; [unfold len in H2; cbn [length] in H2; lia|].
  cbn [accs_of flat_map acc_of a_view opt_list app]. destruct (N.eq_dec i n) as [->|Hne]; [left; reflexivity|right].
  apply IH; [lia|]. unfold len in *. cbn [length] in H2. lia.
Qed.

(* ------------------------------------------------------------------ the two checker clauses *)
(* "unreferenced-entry".  The hypothesis is needed: two attributes of one mesh with the same glTF name (say
   "Color" as a 4- and as a 3-vector) are both written, but the attribute map of the primitive keeps only the
   second ([names_needed] below).  [scene_ok] and [scene_ptr_ok] are not needed. *)
Theorem nothing_extra_run sc : (forall mo, In mo (sc_models sc) -> names_ok (mo_mesh mo)) ->
  nothing_extra (to_summary (run sc)) = true.
Proof.
  intros Hn. pose proof (ginv_run True sc (fun _ => Hn)) as [G1 G2 G3 G4 G5 G6 G7 G8 G9].
  destruct (xcov_run sc) as (_ & Xi & Xs). destruct G1 as (Ev & Ea & _).
  unfold nothing_extra, used_accessors, to_summary.
  cbn [s_accs s_views s_meshes s_nodes s_mats s_texs s_images s_samplers].
  rewrite !andb_true_iff. repeat split; apply covers_cov.
  - rewrite Ea. unfold len at 1. rewrite accs_of_length. exact (G2 I).
  - rewrite Ev, Ea. unfold len at 1. rewrite views_of_length. intros i Hi. apply accs_of_views; unfold len; lia.
  - intros i Hi. destruct (G3 i Hi) as [H|H]; [exact H|discriminate].
  - intros j Hj. destruct (G4 j Hj) as [H|(H & _)]; [exact H|discriminate].
  - exact G5.
  - exact Xi.
  - exact Xs.
Qed.

(* "dangling-index" of the texture slots of materials *)
Theorem mat_slots_valid_run sc :
  let s := to_summary (run sc) in
  forallb (fun m => forallb (fun sl => valid_idx (ti_index (fst (snd sl))) (s_texs s)) (gmt_texs m)) (s_mats s) = true.
Proof.
  cbv zeta. assert (G : ginv False None None (run sc)) by (apply ginv_run; intros []).
  unfold to_summary. cbn [s_texs s_mats]. apply forallb_forall. intros m Hm. apply forallb_forall. intros sl Hsl.
  pose proof (g_slots _ _ _ _ G m sl Hm Hsl) as H. unfold slot_idx in H. unfold valid_idx. lia.
Qed.

(* ------------------------------------------------------------------ the hypothesis of [nothing_extra_run] *)
(* it is needed: a well-formed one-model scene whose mesh has "Color" both as a 4-vector and as a 3-vector
   attribute (both become COLOR_0) leaves accessor 0 unreferenced *)
Definition clash_mesh : pmesh :=
  {| me_ptr := 0; me_point := false;
     me_v4 := [("Color"%string, [(3, [0; 0; 0; 0])])];
     me_v3 := [("Color"%string, [(3, [0; 0; 0])])];
     me_v2 := []; me_idx := [0; 1; 2]; me_v1len := 0 |}.
Definition clash_scene : scene :=
  {| sc_models := [{| mo_name := "m"%string; mo_mesh := clash_mesh; mo_mat := None; mo_t := None; mo_r := None;
                      mo_s := None; mo_inst := [] |}];
     sc_lights := [] |}.
Theorem names_needed :
  exists sc, scene_ok sc /\ GltfNodeProofs.scene_ptr_ok sc /\ nothing_extra (to_summary (run sc)) = false.
Proof.
  exists clash_scene. split; [|split].
  - unfold scene_ok, clash_scene. cbn [sc_models].
    repeat constructor; cbn; try lia; try (vm_compute; reflexivity).
  - intros m1 m2 (mo1 & [<-|[]] & ->) (mo2 & [<-|[]] & ->) _. reflexivity.
  - vm_compute. reflexivity.
Qed.

(* it is satisfiable together with [scene_ok] (the two-triangle scene of GltfProofs.v) *)
Example names_ok_two_triangles :
  scene_ok two_triangles /\ (forall mo, In mo (sc_models two_triangles) -> names_ok (mo_mesh mo))
  /\ nothing_extra (to_summary (run two_triangles)) = true.
Proof.
  split; [|split].
  - unfold scene_ok, two_triangles. cbn [sc_models]. repeat constructor; cbn; try lia; try (vm_compute; reflexivity).
  - intros mo [<-|[<-|[]]]; unfold names_ok, all_attrs; cbn [mo_mesh tri_model tri_mesh me_v4 me_v3 me_v2 app map fst];
      (constructor; [intros []|constructor]).
  - vm_compute. reflexivity.
Qed.
