(* C07: ties the evaluator of the large cases (Check/C07.v: fast encoders, streamed fingerprints, records given
   by functions instead of lists) to the model of Formats/Stl.v. *)
From PF Require Import Base.Bytes Base.BytesProofs Formats.Stl Formats.StlProofs Check.C07.
From Coq Require Import ZifyN ZifyNat ZifyBool.
Open Scope N_scope.
Ltac Zify.zify_post_hook ::= Z.div_mod_to_equations.

(* ---------- shift/mask encoders = division encoders ---------- *)
Lemma land255 w : N.land w 255 = w mod 256.
Proof. change 255 with (N.ones 8). rewrite N.land_ones. reflexivity. Qed.

Lemma le32f_eq w : le32f w = le32 w.
Proof.
  unfold le32f, le32. rewrite !land255, !N.shiftr_div_pow2.
  change (2 ^ 8) with 256. change (2 ^ 16) with 65536. change (2 ^ 24) with 16777216. reflexivity.
Qed.

Lemma le16f_eq w : le16f w = le16 w.
Proof. unfold le16f, le16. rewrite !land255, !N.shiftr_div_pow2. change (2 ^ 8) with 256. reflexivity. Qed.

Lemma vec12f_eq v : vec12f v = vec12 v.
Proof. destruct v as [[x y] z]. unfold vec12f, vec12. rewrite !le32f_eq. reflexivity. Qed.

Lemma rec50f_eq t : rec50f t = rec50 t.
Proof. unfold rec50f, rec50. rewrite !vec12f_eq, le16f_eq. reflexivity. Qed.

Lemma flat_rec50f_eq ts : flat_map rec50f ts = flat_map rec50 ts.
Proof. induction ts as [|t ts IH]; [reflexivity|]. cbn [flat_map]. rewrite rec50f_eq, IH. reflexivity. Qed.

Theorem writef_eq hdr ts : writef hdr ts = write hdr ts.
Proof. unfold writef, write. rewrite le32f_eq, flat_rec50f_eq. reflexivity. Qed.

(* ---------- streamed fingerprint = fingerprint of the written bytes ---------- *)
Lemma fp_list_app h a b : fp_list h (a ++ b) = fp_list (fp_list h a) b.
Proof. unfold fp_list. apply fold_left_app. Qed.

Lemma fp_recs_eq ts : forall h, fp_recs h ts = fp_list h (flat_map rec50 ts).
Proof.
  induction ts as [|t ts IH]; intros h; [reflexivity|].
  unfold fp_recs in *. cbn [fold_left flat_map]. rewrite IH, rec50f_eq, fp_list_app. reflexivity.
Qed.

Theorem fp_file_spec hdr ts extra : fp_file hdr ts extra = fp (write hdr ts ++ extra).
Proof.
  unfold fp_file, fp, write. rewrite fp_recs_eq, le32f_eq, !fp_list_app. reflexivity.
Qed.

(* ---------- the model's answer on a large synthetic file (corr_ok beyond exec_limit) ---------- *)
Lemma vec_okb_ok v : vec_okb v = true -> vec_ok v.
Proof. destruct v as [[x y] z]. unfold vec_okb, vec_ok, word32b', word32. lia. Qed.

Lemma tri_okb_ok t : tri_okb t = true -> tri_ok t.
Proof.
  unfold tri_okb, tri_ok. rewrite !andb_true_iff. intros ((((Hn & Ha) & Hb) & Hc) & Hat).
  repeat (split; [apply vec_okb_ok; assumption|]). unfold word16. lia.
Qed.

Lemma forallb_tri_ok ts : forallb tri_okb ts = true -> Forall tri_ok ts.
Proof. rewrite forallb_forall, Forall_forall. intros H t Ht. apply tri_okb_ok, H, Ht. Qed.

(* every byte string made of a header, the count, well-formed records and ANY trailing bytes is read back as
   exactly those records by the chunked reader *)
Theorem big_file_model hdr ts extra :
  length hdr = 80%nat -> forallb tri_okb ts = true -> N.of_nat (length ts) < 4294967296 ->
  read_chunked stl_chunk (write hdr ts ++ extra) = Some (hdr, ts).
Proof.
  intros Hh Hok Hn. rewrite read_chunked_eq_read by (unfold stl_chunk; lia).
  apply read_write_trailing; [assumption|apply forallb_tri_ok; assumption|assumption].
Qed.

(* ... and cut short anywhere it is rejected *)
Theorem big_file_cut_model hdr ts k :
  length hdr = 80%nat -> bytes_ok hdr -> N.of_nat (length ts) < 4294967296 ->
  (k < length (write hdr ts))%nat -> read_chunked stl_chunk (firstn k (write hdr ts)) = None.
Proof.
  intros Hh Hb Hn Hk. rewrite read_chunked_eq_read by (unfold stl_chunk; lia).
  apply read_prefix_rejected; assumption.
Qed.

(* ---------- large meshes: index and position lists given by functions (corr_ok CBigMesh) ---------- *)
Lemma nth_error_iota k : forall a i, (i < k)%nat -> nth_error (iota k a) i = Some (a + N.of_nat i).
Proof.
  induction k as [|k IH]; intros a i Hi; [lia|]. destruct i as [|i]; cbn [iota nth_error].
  - f_equal. lia.
  - rewrite IH by lia. f_equal. lia.
Qed.

Lemma nth_error_map_iota {A} (f : N -> A) nv v : v < N.of_nat nv ->
  nth_error (map f (iota nv 0)) (N.to_nat v) = Some (f v).
Proof.
  intros Hv. rewrite nth_error_map, nth_error_iota by lia. cbn [option_map]. f_equal. f_equal. lia.
Qed.

Lemma iota_S3 n a : iota (3 * S n) a = a :: (a + 1) :: (a + 2) :: iota (3 * n) (a + 3).
Proof.
  replace (3 * S n)%nat with (S (S (S (3 * n)))) by lia. cbn [iota].
  replace (a + 1 + 1) with (a + 2) by lia. replace (a + 2 + 1) with (a + 3) by lia. reflexivity.
Qed.

Lemma gather_tris_fun_from (g : N -> N) (f fn : N -> vec) nv n : forall t0,
  (forall j, g j < N.of_nat nv) ->
  gather_tris (map (fun j => N.to_nat (g j)) (iota (3 * n) (3 * t0))) (map f (iota nv 0)) (map fn (iota n t0))
  = Some (tris_from n t0 fn (fun j => f (g j))).
Proof.
  induction n as [|n IH]; intros t0 Hg; [reflexivity|].
  rewrite iota_S3. cbn [iota map gather_tris].
  rewrite !nth_error_map_iota by apply Hg. cbn [bind].
  replace (3 * t0 + 3) with (3 * (t0 + 1)) by lia. rewrite IH by assumption. cbn [bind tris_from]. reflexivity.
Qed.

(* stl.WriteMesh on the mesh with nv vertices (vertex v at position f v), index buffer j |-> g j for j < 3 n and
   facet normals fn: the bytes are [write zero_hdr] of the records Check/C07.v builds with [tris_from]
   (further indices after the last whole triangle do not matter: PrimitiveCount rounds down) *)
Theorem big_mesh_model (g : N -> N) (f fn : N -> vec) nv n part :
  (forall j, g j < N.of_nat nv) ->
  write_mesh (map (fun j => N.to_nat (g j)) (iota (3 * n) 0) ++ part) (Some (map f (iota nv 0))) (map fn (iota n 0))
  = Some (write zero_hdr (tris_from n 0 fn (fun j => f (g j)))).
Proof.
  intros Hg. unfold write_mesh.
  assert (E : forall fns idx pos ts, gather_tris idx pos fns = Some ts -> length idx = (3 * length fns)%nat ->
              gather_tris (idx ++ part) pos fns = Some ts).
  { induction fns as [|x fns IH]; intros idx pos ts H Hl.
    - destruct idx; [|discriminate]. cbn [app]. destruct part as [|? [|? [|? ?]]]; exact H.
    - destruct idx as [|i [|j [|k idx]]]; try (simpl in Hl; lia). cbn [app gather_tris] in *.
      destruct (nth_error pos i); cbn [bind] in *; [|discriminate].
      destruct (nth_error pos j); cbn [bind] in *; [|discriminate].
      destruct (nth_error pos k); cbn [bind] in *; [|discriminate].
      destruct (gather_tris idx pos fns) as [ts'|] eqn:E'; cbn [bind] in *; [|discriminate].
      rewrite (IH idx pos ts' E') by (simpl in Hl; lia). exact H. }
  pose proof (gather_tris_fun_from g f fn nv n 0 Hg) as G. change (3 * 0) with 0 in G.
  rewrite (E _ _ _ _ G).
  - reflexivity.
  - rewrite !map_length. clear. generalize 0 at 1. generalize 0.
    assert (L : forall k a, length (iota k a) = k) by (induction k; intros; simpl; auto).
    intros. rewrite !L. reflexivity.
Qed.
