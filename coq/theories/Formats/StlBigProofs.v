(* C07: ties the evaluator of the large cases (Check/C07.v: fast encoders, streamed fingerprints, records given
   by functions instead of lists) to the model of Formats/Stl.v. *)
From PF Require Import Base.Bytes Base.BytesProofs Formats.Stl Formats.StlProofs Check.C07.
From Coq Require Import ZifyN ZifyNat ZifyBool.
Open Scope N_scope.
Ltac Zify.zify_post_hook ::= Z.div_mod_to_equations.

(* ---------- shift/mask encoders = division encoders ---------- *)
Lemma land255 w : N.land w 255 = w mod 256.
Proof. change 255 with (N.ones 8). rewrite N.land_ones. reflexivity. Qed.

Lemma le32f_eq w : le32f w = le32 w.
Proof.
  unfold le32f, le32. rewrite !land255, !N.shiftr_div_pow2.
  change (2 ^ 8) with 256. change (2 ^ 16) with 65536. change (2 ^ 24) with 16777216. reflexivity.
Qed.

Lemma le16f_eq w : le16f w = le16 w.
Proof. unfold le16f, le16. rewrite !land255, !N.shiftr_div_pow2. change (2 ^ 8) with 256. reflexivity. Qed.

Lemma vec12f_eq v : vec12f v = vec12 v.
Proof. destruct v as [[x y] z]. unfold vec12f, vec12. rewrite !le32f_eq. reflexivity. Qed.

Lemma rec50f_eq t : rec50f t = rec50 t.
Proof. unfold rec50f, rec50. rewrite !vec12f_eq, le16f_eq. reflexivity. Qed.

Lemma flat_rec50f_eq ts : flat_map rec50f ts = flat_map rec50 ts.
Proof. induction ts as [|t ts IH]; [reflexivity|]. cbn [flat_map]. rewrite rec50f_eq, IH. reflexivity. Qed.

Theorem writef_eq hdr ts : writef hdr ts = write hdr ts.
Proof. unfold writef, write. rewrite le32f_eq, flat_rec50f_eq. reflexivity. Qed.

(* ---------- streamed fingerprint = fingerprint of the written bytes ---------- *)
Lemma fp_list_app h a b : fp_list h (a ++ b) = fp_list (fp_list h a) b.
Proof. unfold fp_list. apply fold_left_app. Qed.

Lemma fp_recs_eq ts : forall h, fp_recs h ts = fp_list h (flat_map rec50 ts).
Proof.
  induction ts as [|t ts IH]; intros h; [reflexivity|].
  unfold fp_recs in *. cbn [fold_left flat_map]. rewrite IH, rec50f_eq, fp_list_app. reflexivity.
Qed.

Theorem fp_file_spec hdr ts extra : fp_file hdr ts extra = fp (write hdr ts ++ extra).
Proof.
  unfold fp_file, fp, write. rewrite fp_recs_eq, le32f_eq, !fp_list_app. reflexivity.
Qed.

