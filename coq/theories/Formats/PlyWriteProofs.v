(* C04 proofs: the writer model Formats/PlyWrite.v composed with the reader model Formats/PlyRead.v. *)
From PF Require Import Base.Bytes Base.BytesMore Base.BytesProofs Formats.PlyRead Formats.PlyWrite.
From Coq Require Import String Ascii ZifyN ZifyNat ZifyBool.
Open Scope list_scope.
Open Scope N_scope.
Ltac Zify.zify_post_hook ::= Z.div_mod_to_equations.

(* ================= generic helpers ================= *)
Lemma mapR_ok {A B} (f : A -> result B) (g : A -> B) l :
  (forall x, In x l -> f x = Ok (g x)) -> mapR f l = Ok (map g l).
Proof.
  induction l as [|x l IH]; intros H; [reflexivity|].
  cbn [mapR map]. rewrite (H x (or_introl eq_refl)). cbn [rbind].
  rewrite IH by (intros y Hy; apply H; right; exact Hy). reflexivity.
Qed.

Lemma mapR_ext {A B} (f g : A -> result B) l : (forall x, In x l -> f x = g x) -> mapR f l = mapR g l.
Proof.
  induction l as [|x l IH]; intros H; [reflexivity|].
  cbn [mapR]. rewrite (H x (or_introl eq_refl)). destruct (g x); cbn [rbind]; [|reflexivity].
  rewrite IH by (intros y Hy; apply H; right; exact Hy). reflexivity.
Qed.

Lemma enc_word_length e t w : List.length (enc_word e t w) = sty_size t.
Proof. destruct t, e; reflexivity. Qed.

Lemma word_fits_32 t w : sty_size t = 4%nat -> word_fits t w -> word32 w.
Proof. unfold word_fits, word32. intros ->. cbn. lia. Qed.

Lemma dec_enc_word e t w : word_fits t w -> dec_word e t (enc_word e t w) = Some w.
Proof.
  intros H. unfold word_fits in H.
  destruct t, e; cbn [sty_size] in H; unfold dec_word, enc_word; cbn [sty_size];
    try reflexivity;
    try (rewrite rev_involutive);
    try (apply de_le16_le16; unfold word16; cbn in H; lia);
    try (apply de_le32_le32; unfold word32; cbn in H; lia);
    try (apply de_be32_be32; unfold word32; cbn in H; lia);
    try (apply de_le64_le64; unfold word64; cbn in H; lia);
    try (apply de_be64_be64; unfold word64; cbn in H; lia).
Qed.

Lemma get_word_at e t w (A B : list N) off :
  List.length A = off -> word_fits t w -> get_word e t off (A ++ enc_word e t w ++ B) = Some w.
Proof.
  intros <- Hw. unfold get_word, slice. rewrite skipn_app_length.
  rewrite take_app_exact by (symmetry; apply enc_word_length). cbn [bind].
  apply dec_enc_word, Hw.
Qed.

Lemma nth_error_at {A} (P : list A) x S : nth_error (P ++ x :: S) (List.length P) = Some x.
Proof. induction P; [reflexivity|exact IHP]. Qed.

Lemma map_nth_seq {A} (l : list A) d : map (fun i => nth i l d) (seq 0 (List.length l)) = l.
Proof.
  induction l as [|x l IH]; [reflexivity|].
  cbn [List.length seq map nth]. f_equal. rewrite <- seq_shift, map_map. exact IH.
Qed.

(* ================= vertex element ================= *)
(* flattened types of a group list; offset of the next property after a prefix of types *)
Definition g_tys (g : rgroup) : list sty := map (fun _ => rg_ty g) (rg_names g).
Definition tys_of (gs : list rgroup) : list sty := flat_map g_tys gs.
Definition size_of (ts : list sty) : nat := fold_right (fun t acc => (sty_size t + acc)%nat) O ts.
Definition off_of (bin : bool) (ts : list sty) : nat := if bin then size_of ts else List.length ts.
(* offsets of [k] consecutive properties of type [t] starting after the types [pre] *)
Fixpoint offs_from (bin : bool) (cur : nat) (t : sty) (k : nat) : list nat :=
  match k with O => [] | S k' => cur :: offs_from bin (advance bin cur t) t k' end.
(* the readers the PLY reader is expected to build on a group list: one per group, members consecutive *)
Fixpoint layout (bin : bool) (gs : list rgroup) (cur : nat) : list built :=
  match gs with
  | [] => []
  | g :: r =>
      let k := List.length (rg_names g) in
      {| b_attr := rg_attr g; b_names := rg_names g; b_offs := offs_from bin cur (rg_ty g) k; b_ty := rg_ty g;
         b_v1 := Nat.eqb k 1 |}
      :: layout bin r (if bin then cur + k * sty_size (rg_ty g) else cur + k)%nat
  end.

Definition ty_supported (t : sty) : bool := match t with UChar | Float | Double => true | _ => false end.
(* a value the writer can store in type t, with the stored word fitting the type *)
Definition good (t : sty) (w : N) : Prop := exists s, bword t w = Ok s /\ word_fits t s.
Definition sw (t : sty) (w : N) : N := match bword t w with Ok s => s | Err _ => 0 end.   (* stored word *)
Definition vl (t : sty) (w : N) : N := match val t w with Ok v => v | Err _ => 0 end.     (* value read back *)
Definition row_good (g : rgroup) (r : list N) : Prop :=
  List.length r = List.length (rg_names g) /\ Forall (fun w => good (rg_ty g) w /\ exists v, val (rg_ty g) w = Ok v) r.
Definition group_good (n : nat) (g : rgroup) : Prop :=
  ty_supported (rg_ty g) = true /\ List.length (rg_rows g) = n /\ Forall (row_good g) (rg_rows g).
Definition rowi (g : rgroup) (i : nat) : list N := nth i (rg_rows g) [].

Lemma good_sw t w : good t w -> bword t w = Ok (sw t w) /\ word_fits t (sw t w).
Proof. intros (s & E & F). unfold sw. rewrite E. auto. Qed.

Lemma conv_sw t w : ty_supported t = true -> good t w -> (exists v, val t w = Ok v) -> conv t (sw t w) = Ok (vl t w).
Proof.
  intros Ht Hg (v & Ev). unfold vl. rewrite Ev. destruct (good_sw _ _ Hg) as [Eb _]. revert Eb Ev. unfold sw.
  destruct t; try discriminate; cbn [bword val conv].
  - destruct (q255 w) as [b|]; cbn [rbind]; [|discriminate]. intros _ E. exact E.
  - intros _ E. exact E.
  - intros _ E. exact E.
Qed.

Lemma rowi_good n g i : group_good n g -> (i < n)%nat -> grow g i = Ok (rowi g i) /\ row_good g (rowi g i).
Proof.
  intros (_ & Hl & Hr) Hi. unfold grow, rowi.
  destruct (nth_error (rg_rows g) i) as [r|] eqn:E; [|apply nth_error_None in E; lia].
  rewrite (nth_error_nth _ _ _ E). split; [reflexivity|].
  rewrite Forall_forall in Hr. apply Hr. eapply nth_error_In; eassumption.
Qed.

(* the words the model writes for vertex i *)
Definition gwords (g : rgroup) (i : nat) : list (sty * N) := map (fun w => (rg_ty g, sw (rg_ty g) w)) (rowi g i).
Lemma vertex_words_ok n gs i : Forall (group_good n) gs -> (i < n)%nat ->
  vertex_words gs i = Ok (flat_map (fun g => gwords g i) gs).
Proof.
  intros Hg Hi. unfold vertex_words.
  rewrite (mapR_ok _ (fun g => gwords g i)).
  - cbn [rbind]. rewrite <- flat_map_concat_map. reflexivity.
  - intros g Hin. rewrite Forall_forall in Hg. destruct (rowi_good n g i (Hg g Hin) Hi) as [E (Hl & Hr)].
    rewrite E. cbn [rbind]. unfold gwords. apply mapR_ok. intros w Hw.
    rewrite Forall_forall in Hr. destruct (Hr w Hw) as [G _]. destruct (good_sw _ _ G) as [-> _]. reflexivity.
Qed.

Definition genc (e : endian) (g : rgroup) (i : nat) : list N := enc_words e (gwords g i).
Lemma enc_words_app e a b : enc_words e (a ++ b) = enc_words e a ++ enc_words e b.
Proof. unfold enc_words. apply flat_map_app. Qed.
Lemma enc_words_flat e gs i : enc_words e (flat_map (fun g => gwords g i) gs) = flat_map (fun g => genc e g i) gs.
Proof. induction gs as [|g gs IH]; [reflexivity|]. cbn [flat_map]. rewrite enc_words_app, IH. reflexivity. Qed.

Lemma enc_ws_length e t ws : List.length (enc_words e (map (fun w => (t, sw t w)) ws)) = (List.length ws * sty_size t)%nat.
Proof.
  induction ws as [|w ws IH]; [reflexivity|]. cbn [map]. unfold enc_words in *. cbn [flat_map List.length].
  rewrite app_length, enc_word_length, IH. lia.
Qed.

(* reading the members of one group out of a record *)
Lemma read_members_bin e t ws : forall (P S : list N),
  Forall (fun w => good t w /\ exists v, val t w = Ok v) ws -> ty_supported t = true ->
  mapR (fun off => dor w <- of_opt ECrash (get_word e t off (P ++ enc_words e (map (fun w => (t, sw t w)) ws) ++ S)); conv t w)
       (offs_from true (List.length P) t (List.length ws)) = Ok (map (vl t) ws).
Proof.
  induction ws as [|w ws IH]; intros P S Hg Ht; [reflexivity|].
  inversion Hg as [|? ? [G V] Hg']; subst.
  assert (Eb : enc_words e (map (fun w => (t, sw t w)) (w :: ws)) = enc_word e t (sw t w) ++ enc_words e (map (fun w => (t, sw t w)) ws)) by reflexivity.
  rewrite Eb. rewrite <- app_assoc. cbn [List.length offs_from mapR map]. rewrite get_word_at; [|reflexivity|apply good_sw, G]. cbn [of_opt rbind].
  rewrite conv_sw by assumption. cbn [rbind].
  unfold advance.
  specialize (IH (P ++ enc_word e t (sw t w)) S Hg' Ht).
  rewrite app_length, enc_word_length in IH. rewrite <- app_assoc in IH. rewrite IH. reflexivity.
Qed.

Lemma vertex_ty_ok_supported t : ty_supported t = true -> vertex_ty_ok t = true.
Proof. destruct t; try discriminate; reflexivity. Qed.

Lemma read_row_bin e n i : forall gs (P S : list N), Forall (group_good n) gs -> (i < n)%nat ->
  mapR (fun b => read_bin_row e b (P ++ flat_map (fun g => genc e g i) gs ++ S)) (layout true gs (List.length P))
  = Ok (map (fun g => map (vl (rg_ty g)) (rowi g i)) gs).
Proof.
  induction gs as [|g gs IH]; intros P S Hg Hi; [reflexivity|].
  inversion Hg as [|? ? G Hg']; subst. destruct (rowi_good n g i G Hi) as [_ (Hl & Hr)]. destruct G as (Ht & _ & _).
  assert (Eg : genc e g i = enc_words e (map (fun w => (rg_ty g, sw (rg_ty g) w)) (rowi g i))) by reflexivity.
  specialize (IH (P ++ genc e g i) S Hg' Hi).
  assert (El : List.length (P ++ genc e g i) = (List.length P + List.length (rowi g i) * sty_size (rg_ty g))%nat).
  { rewrite app_length, Eg, enc_ws_length. reflexivity. }
  rewrite El in IH. rewrite <- app_assoc in IH. rewrite Eg in IH.
  cbn [layout mapR flat_map map]. rewrite <- app_assoc. rewrite Eg. rewrite <- Hl.
  unfold read_bin_row at 1. cbn [b_ty b_offs]. rewrite vertex_ty_ok_supported by assumption.
  rewrite (read_members_bin e (rg_ty g) (rowi g i) P) by assumption. cbn [rbind].
  rewrite IH. reflexivity.
Qed.

Lemma genc_total_length e n gs i : Forall (group_good n) gs -> (i < n)%nat ->
  List.length (flat_map (fun g => genc e g i) gs) = size_of (tys_of gs).
Proof.
  intros Hg Hi. induction gs as [|g gs IH]; [reflexivity|]. inversion Hg as [|? ? G Hg']; subst.
  cbn [flat_map]. rewrite app_length, IH by assumption. unfold tys_of. cbn [flat_map]. fold (tys_of gs).
  destruct (rowi_good n g i G Hi) as [_ (Hl & _)]. unfold genc, gwords. rewrite enc_ws_length, Hl.
  unfold g_tys. clear. induction (rg_names g) as [|x l IH]; [reflexivity|]. cbn [map app List.length size_of fold_right] in *. fold (size_of (map (fun _ => rg_ty g) l ++ tys_of gs)). lia.
Qed.

Lemma record_size_props gs : record_size (vertex_props gs) = size_of (tys_of gs).
Proof.
  induction gs as [|g gs IH]; [reflexivity|]. unfold vertex_props, tys_of in *. cbn [flat_map].
  unfold group_props, g_tys. induction (rg_names g) as [|x l IHl]; [exact IH|].
  cbn [map app]. unfold record_size, size_of in *. cbn [fold_right]. rewrite IHl. reflexivity.
Qed.

(* the values the readers deliver for vertex i *)
Definition vrow (gs : list rgroup) (i : nat) : list (list N) := map (fun g => map (vl (rg_ty g)) (rowi g i)) gs.

Theorem read_vertices_bin_written e n gs : forall k (rest : list N), Forall (group_good n) gs -> (k <= n)%nat ->
  read_vertices_bin e (layout true gs 0) (size_of (tys_of gs)) k
    (flat_map (fun i => flat_map (fun g => genc e g i) gs) (seq (n - k) k) ++ rest)
  = Ok (map (vrow gs) (seq (n - k) k), rest).
Proof.
  induction k as [|k IH]; intros rest Hg Hk; [reflexivity|].
  cbn [seq flat_map map read_vertices_bin]. rewrite <- app_assoc.
  rewrite take_app_exact by (symmetry; apply (genc_total_length e n); [assumption|lia]). cbn [of_opt rbind].
  pose proof (read_row_bin e n (n - S k) gs [] [] Hg ltac:(lia)) as R. cbn [app List.length] in R. rewrite app_nil_r in R.
  rewrite R. cbn [rbind]. replace (S (n - S k)) with (n - k)%nat by lia.
  rewrite IH by (try assumption; lia). reflexivity.
Qed.
