(* C04 proofs about Formats/PlyWrite.v composed with the reader model Formats/PlyRead.v. *)
From PF Require Import Base.Bytes Base.BytesMore Base.BytesProofs Formats.PlyRead Formats.PlyWrite.
From Coq Require Import String Ascii.
Open Scope list_scope.
Open Scope N_scope.

Lemma enc_word_length e t w : List.length (enc_word e t w) = sty_size t.
Proof. destruct t, e; reflexivity. Qed.
