(* C04 proofs: the writer model Formats/PlyWrite.v composed with the reader model Formats/PlyRead.v. *)
From PF Require Import Base.Bytes Base.BytesMore Base.BytesProofs Formats.PlyRead Formats.PlyWrite.
From Coq Require Import String Ascii ZifyN ZifyNat ZifyBool DecimalString DecimalN.
Open Scope list_scope.
Open Scope N_scope.
Ltac Zify.zify_post_hook ::= Z.div_mod_to_equations.

(* ================= generic helpers ================= *)
Lemma mapR_ok {A B} (f : A -> result B) (g : A -> B) l :
  (forall x, In x l -> f x = Ok (g x)) -> mapR f l = Ok (map g l).
Proof.
  induction l as [|x l IH]; intros H; [reflexivity|].
  cbn [mapR map]. rewrite (H x (or_introl eq_refl)). cbn [rbind].
  rewrite IH by (intros y Hy; apply H; right; exact Hy). reflexivity.
Qed.

Lemma mapR_ext {A B} (f g : A -> result B) l : (forall x, In x l -> f x = g x) -> mapR f l = mapR g l.
Proof.
  induction l as [|x l IH]; intros H; [reflexivity|].
  cbn [mapR]. rewrite (H x (or_introl eq_refl)). destruct (g x); cbn [rbind]; [|reflexivity].
  rewrite IH by (intros y Hy; apply H; right; exact Hy). reflexivity.
Qed.

Lemma enc_word_length e t w : List.length (enc_word e t w) = sty_size t.
Proof. destruct t, e; reflexivity. Qed.

Lemma word_fits_32 t w : sty_size t = 4%nat -> word_fits t w -> word32 w.
Proof. unfold word_fits, word32. intros ->. cbn. lia. Qed.

Lemma dec_enc_word e t w : word_fits t w -> dec_word e t (enc_word e t w) = Some w.
Proof.
  intros H. unfold word_fits in H.
  destruct t, e; cbn [sty_size] in H; unfold dec_word, enc_word; cbn [sty_size];
    try reflexivity;
    try (rewrite rev_involutive);
    try (apply de_le16_le16; unfold word16; cbn in H; lia);
    try (apply de_le32_le32; unfold word32; cbn in H; lia);
    try (apply de_be32_be32; unfold word32; cbn in H; lia);
    try (apply de_le64_le64; unfold word64; cbn in H; lia);
    try (apply de_be64_be64; unfold word64; cbn in H; lia).
Qed.

Lemma get_word_at e t w (A B : list N) off :
  List.length A = off -> word_fits t w -> get_word e t off (A ++ enc_word e t w ++ B) = Some w.
Proof.
  intros <- Hw. unfold get_word, slice. rewrite skipn_app_length.
  rewrite take_app_exact by (symmetry; apply enc_word_length). cbn [bind].
  apply dec_enc_word, Hw.
Qed.

Lemma nth_error_at {A} (P : list A) x S : nth_error (P ++ x :: S) (List.length P) = Some x.
Proof. induction P; [reflexivity|exact IHP]. Qed.

Lemma map_nth_seq {A} (l : list A) d : map (fun i => nth i l d) (seq 0 (List.length l)) = l.
Proof.
  induction l as [|x l IH]; [reflexivity|].
  cbn [List.length seq map nth]. f_equal. rewrite <- seq_shift, map_map. exact IH.
Qed.

(* ================= vertex element ================= *)
(* flattened types of a group list; offset of the next property after a prefix of types *)
Definition g_tys (g : rgroup) : list sty := map (fun _ => rg_ty g) (rg_names g).
Definition tys_of (gs : list rgroup) : list sty := flat_map g_tys gs.
Definition size_of (ts : list sty) : nat := fold_right (fun t acc => (sty_size t + acc)%nat) O ts.
Definition off_of (bin : bool) (ts : list sty) : nat := if bin then size_of ts else List.length ts.
(* offsets of [k] consecutive properties of type [t] starting after the types [pre] *)
Fixpoint offs_from (bin : bool) (cur : nat) (t : sty) (k : nat) : list nat :=
  match k with O => [] | S k' => cur :: offs_from bin (advance bin cur t) t k' end.
(* the readers the PLY reader is expected to build on a group list: one per group, members consecutive *)
Fixpoint layout (bin : bool) (gs : list rgroup) (cur : nat) : list built :=
  match gs with
  | [] => []
  | g :: r =>
      let k := List.length (rg_names g) in
      {| b_attr := rg_attr g; b_names := rg_names g; b_offs := offs_from bin cur (rg_ty g) k; b_ty := rg_ty g;
         b_v1 := Nat.eqb k 1 |}
      :: layout bin r (if bin then cur + k * sty_size (rg_ty g) else cur + k)%nat
  end.

Definition ty_supported (t : sty) : bool := match t with UChar | Float | Double => true | _ => false end.
(* a value the writer can store in type t, with the stored word fitting the type *)
Definition good (t : sty) (w : N) : Prop := exists s, bword t w = Ok s /\ word_fits t s.
Definition sw (t : sty) (w : N) : N := match bword t w with Ok s => s | Err _ => 0 end.   (* stored word *)
Definition vl (t : sty) (w : N) : N := match val t w with Ok v => v | Err _ => 0 end.     (* value read back *)
Definition row_good (g : rgroup) (r : list N) : Prop :=
  List.length r = List.length (rg_names g) /\ Forall (fun w => good (rg_ty g) w /\ exists v, val (rg_ty g) w = Ok v) r.
Definition group_good (n : nat) (g : rgroup) : Prop :=
  ty_supported (rg_ty g) = true /\ List.length (rg_rows g) = n /\ Forall (row_good g) (rg_rows g).
Definition rowi (g : rgroup) (i : nat) : list N := nth i (rg_rows g) [].

Lemma good_sw t w : good t w -> bword t w = Ok (sw t w) /\ word_fits t (sw t w).
Proof. intros (s & E & F). unfold sw. rewrite E. auto. Qed.

Lemma conv_sw t w : ty_supported t = true -> good t w -> (exists v, val t w = Ok v) -> conv t (sw t w) = Ok (vl t w).
Proof.
  intros Ht Hg (v & Ev). unfold vl. rewrite Ev. destruct (good_sw _ _ Hg) as [Eb _]. revert Eb Ev. unfold sw.
  destruct t; try discriminate; cbn [bword val conv].
  - destruct (q255 w) as [b|]; cbn [rbind]; [|discriminate]. intros _ E. exact E.
  - intros _ E. exact E.
  - destruct (as_f64 w) as [f|]; cbn [of_opt]; [|discriminate]. intros _ E. exact E.
Qed.

Lemma rowi_good n g i : group_good n g -> (i < n)%nat -> grow g i = Ok (rowi g i) /\ row_good g (rowi g i).
Proof.
  intros (_ & Hl & Hr) Hi. unfold grow, rowi.
  destruct (nth_error (rg_rows g) i) as [r|] eqn:E; [|apply nth_error_None in E; lia].
  rewrite (nth_error_nth _ _ _ E). split; [reflexivity|].
  rewrite Forall_forall in Hr. apply Hr. eapply nth_error_In; eassumption.
Qed.

(* the words the model writes for vertex i *)
Definition gwords (g : rgroup) (i : nat) : list (sty * N) := map (fun w => (rg_ty g, sw (rg_ty g) w)) (rowi g i).
Lemma vertex_words_ok n gs i : Forall (group_good n) gs -> (i < n)%nat ->
  vertex_words gs i = Ok (flat_map (fun g => gwords g i) gs).
Proof.
  intros Hg Hi. unfold vertex_words.
  rewrite (mapR_ok _ (fun g => gwords g i)).
  - cbn [rbind]. rewrite <- flat_map_concat_map. reflexivity.
  - intros g Hin. rewrite Forall_forall in Hg. destruct (rowi_good n g i (Hg g Hin) Hi) as [E (Hl & Hr)].
    rewrite E. cbn [rbind]. unfold gwords. apply mapR_ok. intros w Hw.
    rewrite Forall_forall in Hr. destruct (Hr w Hw) as [G _]. destruct (good_sw _ _ G) as [-> _]. reflexivity.
Qed.

Definition genc (e : endian) (g : rgroup) (i : nat) : list N := enc_words e (gwords g i).
Lemma enc_words_app e a b : enc_words e (a ++ b) = enc_words e a ++ enc_words e b.
Proof. unfold enc_words. apply flat_map_app. Qed.
Lemma enc_words_flat e gs i : enc_words e (flat_map (fun g => gwords g i) gs) = flat_map (fun g => genc e g i) gs.
Proof. induction gs as [|g gs IH]; [reflexivity|]. cbn [flat_map]. rewrite enc_words_app, IH. reflexivity. Qed.

Lemma enc_ws_length e t ws : List.length (enc_words e (map (fun w => (t, sw t w)) ws)) = (List.length ws * sty_size t)%nat.
Proof.
  induction ws as [|w ws IH]; [reflexivity|]. cbn [map]. unfold enc_words in *. cbn [flat_map List.length].
  rewrite app_length, enc_word_length, IH. lia.
Qed.

(* reading the members of one group out of a record *)
Lemma read_members_bin e t ws : forall (P S : list N),
  Forall (fun w => good t w /\ exists v, val t w = Ok v) ws -> ty_supported t = true ->
  mapR (fun off => dor w <- of_opt ECrash (get_word e t off (P ++ enc_words e (map (fun w => (t, sw t w)) ws) ++ S)); conv t w)
       (offs_from true (List.length P) t (List.length ws)) = Ok (map (vl t) ws).
Proof.
  induction ws as [|w ws IH]; intros P S Hg Ht; [reflexivity|].
  inversion Hg as [|? ? [G V] Hg']; subst.
  assert (Eb : enc_words e (map (fun w => (t, sw t w)) (w :: ws)) = enc_word e t (sw t w) ++ enc_words e (map (fun w => (t, sw t w)) ws)) by reflexivity.
  rewrite Eb. rewrite <- app_assoc. cbn [List.length offs_from mapR map]. rewrite get_word_at; [|reflexivity|apply good_sw, G]. cbn [of_opt rbind].
  rewrite conv_sw by assumption. cbn [rbind].
  unfold advance.
  specialize (IH (P ++ enc_word e t (sw t w)) S Hg' Ht).
  rewrite app_length, enc_word_length in IH. rewrite <- app_assoc in IH. rewrite IH. reflexivity.
Qed.

Lemma vertex_ty_ok_supported t : ty_supported t = true -> vertex_ty_ok t = true.
Proof. destruct t; try discriminate; reflexivity. Qed.

Lemma read_row_bin e n i : forall gs (P S : list N), Forall (group_good n) gs -> (i < n)%nat ->
  mapR (fun b => read_bin_row e b (P ++ flat_map (fun g => genc e g i) gs ++ S)) (layout true gs (List.length P))
  = Ok (map (fun g => map (vl (rg_ty g)) (rowi g i)) gs).
Proof.
  induction gs as [|g gs IH]; intros P S Hg Hi; [reflexivity|].
  inversion Hg as [|? ? G Hg']; subst. destruct (rowi_good n g i G Hi) as [_ (Hl & Hr)]. destruct G as (Ht & _ & _).
  assert (Eg : genc e g i = enc_words e (map (fun w => (rg_ty g, sw (rg_ty g) w)) (rowi g i))) by reflexivity.
  specialize (IH (P ++ genc e g i) S Hg' Hi).
  assert (El : List.length (P ++ genc e g i) = (List.length P + List.length (rowi g i) * sty_size (rg_ty g))%nat).
  { rewrite app_length, Eg, enc_ws_length. reflexivity. }
  rewrite El in IH. rewrite <- app_assoc in IH. rewrite Eg in IH.
  cbn [layout mapR flat_map map]. rewrite <- app_assoc. rewrite Eg. rewrite <- Hl.
  unfold read_bin_row at 1. cbn [b_ty b_offs]. rewrite vertex_ty_ok_supported by assumption.
  rewrite (read_members_bin e (rg_ty g) (rowi g i) P) by assumption. cbn [rbind].
  rewrite IH. reflexivity.
Qed.

Lemma genc_total_length e n gs i : Forall (group_good n) gs -> (i < n)%nat ->
  List.length (flat_map (fun g => genc e g i) gs) = size_of (tys_of gs).
Proof.
  intros Hg Hi. induction gs as [|g gs IH]; [reflexivity|]. inversion Hg as [|? ? G Hg']; subst.
  cbn [flat_map]. rewrite app_length, IH by assumption. unfold tys_of. cbn [flat_map]. fold (tys_of gs).
  destruct (rowi_good n g i G Hi) as [_ (Hl & _)]. unfold genc, gwords. rewrite enc_ws_length, Hl.
  unfold g_tys. clear. induction (rg_names g) as [|x l IH]; [reflexivity|]. cbn [map app List.length size_of fold_right] in *. fold (size_of (map (fun _ => rg_ty g) l ++ tys_of gs)). lia.
Qed.

Lemma record_size_props gs : record_size (vertex_props gs) = size_of (tys_of gs).
Proof.
  induction gs as [|g gs IH]; [reflexivity|]. unfold vertex_props, tys_of in *. cbn [flat_map].
  unfold group_props, g_tys. induction (rg_names g) as [|x l IHl]; [exact IH|].
  cbn [map app]. unfold record_size, size_of in *. cbn [fold_right]. rewrite IHl. reflexivity.
Qed.

(* the values the readers deliver for vertex i *)
Definition vrow (gs : list rgroup) (i : nat) : list (list N) := map (fun g => map (vl (rg_ty g)) (rowi g i)) gs.

Theorem read_vertices_bin_written e n gs : forall k (rest : list N), Forall (group_good n) gs -> (k <= n)%nat ->
  read_vertices_bin e (layout true gs 0) (size_of (tys_of gs)) k
    (flat_map (fun i => flat_map (fun g => genc e g i) gs) (seq (n - k) k) ++ rest)
  = Ok (map (vrow gs) (seq (n - k) k), rest).
Proof.
  induction k as [|k IH]; intros rest Hg Hk; [reflexivity|].
  cbn [seq flat_map map read_vertices_bin]. rewrite <- app_assoc.
  rewrite take_app_exact by (symmetry; apply (genc_total_length e n); [assumption|lia]). cbn [of_opt rbind].
  pose proof (read_row_bin e n (n - S k) gs [] [] Hg ltac:(lia)) as R. cbn [app List.length] in R. rewrite app_nil_r in R.
  rewrite R. cbn [rbind]. replace (S (n - S k)) with (n - k)%nat by lia.
  rewrite IH by (try assumption; lia). reflexivity.
Qed.

(* ---------- ASCII vertex lines ---------- *)
Definition tk (t : sty) (w : N) : tok := match atok t w with Ok x => x | Err _ => TBad end.
Definition gtoks (g : rgroup) (i : nat) : list tok := map (tk (rg_ty g)) (rowi g i).
(* an 8-bit scalar read through Vector1PropertyReader comes back raw in ASCII (known finding): excluded *)
Definition ascii_ok (g : rgroup) : bool := negb (Nat.eqb (List.length (rg_names g)) 1 && sty_eqb (rg_ty g) UChar).

Lemma ok_inj {A} (a b : A) : Ok a = Ok b -> a = b.
Proof. intros H. injection H. auto. Qed.

Lemma q255_le w b : q255 w = Ok b -> b <= 255.
Proof.
  unfold q255. cbv zeta.
  destruct (w mod 2 ^ 31 =? 0); [intros E; apply ok_inj in E; subst b; lia|].
  destruct (negb (w / 2 ^ 31 =? 0)); [discriminate|].
  destruct ((w / 2 ^ 23) mod 256 =? 0); [intros E; apply ok_inj in E; subst b; lia|].
  destruct (_ || _); [discriminate|].
  intros E. apply ok_inj in E. subst b. apply N.le_min_l.
Qed.

Lemma small_nat_cvI_all : forallb (fun b => match f64_small_nat (cvI (Z.of_N b)) with Some b' => b' =? b | None => false end)
                                  (map N.of_nat (seq 0 256)) = true.
Proof. vm_compute. reflexivity. Qed.
Lemma small_nat_cvI b : b <= 255 -> f64_small_nat (cvI (Z.of_N b)) = Some b.
Proof.
  intros H. pose proof small_nat_cvI_all as A. rewrite forallb_forall in A.
  specialize (A b). destruct (f64_small_nat (cvI (Z.of_N b))) as [b'|].
  - f_equal. apply N.eqb_eq, A. replace b with (N.of_nat (N.to_nat b)) by lia. apply in_map, in_seq. lia.
  - discriminate A. replace b with (N.of_nat (N.to_nat b)) by lia. apply in_map, in_seq. lia.
Qed.

Lemma atok_tk t w : ty_supported t = true -> good t w -> atok t w = Ok (tk t w).
Proof.
  intros Ht (s & E & _). unfold tk. destruct t; try discriminate; cbn [atok bword] in *; try reflexivity.
  - rewrite E. reflexivity.
  - unfold dtok. destruct (as_f64 w); [reflexivity|discriminate].
Qed.

(* the float64 the ASCII reader parses out of the token, and what it stores *)
Definition tk_f64 (t : sty) (w : N) : N :=
  match t with UChar => cvI (Z.of_N (sw t w)) | Double => vl t w | _ => cvF w end.
Lemma tok_f64_tk t w : ty_supported t = true -> good t w -> tok_f64 (tk t w) = Some (tk_f64 t w).
Proof.
  intros Ht (s & E & F). unfold tk, tk_f64, sw, vl. destruct t; try discriminate; cbn [atok bword val] in *.
  - rewrite E. reflexivity.
  - unfold ftok. destruct (int_of_f32 w); reflexivity.
  - unfold dtok. destruct (as_f64 w) as [f|]; [|discriminate]. cbn [of_opt rbind]. destruct (as_int w); reflexivity.
Qed.

Lemma read_members_ascii t ws : forall (P Sx : list tok),
  Forall (fun w => good t w /\ exists v, val t w = Ok v) ws -> ty_supported t = true ->
  mapR (fun off => dor x <- of_opt ECrash (nth_error (P ++ map (tk t) ws ++ Sx) off); of_opt EDeclared (tok_f64 x))
       (offs_from false (List.length P) t (List.length ws)) = Ok (map (tk_f64 t) ws).
Proof.
  induction ws as [|w ws IH]; intros P Sx Hg Ht; [reflexivity|].
  inversion Hg as [|? ? [G V] Hg']; subst.
  specialize (IH (P ++ [tk t w]) Sx Hg' Ht). rewrite app_length in IH. cbn [List.length] in IH.
  rewrite <- app_assoc in IH. cbn [app] in IH.
  cbn [List.length offs_from mapR map app]. rewrite nth_error_at. cbn [of_opt rbind].
  rewrite tok_f64_tk by assumption. cbn [of_opt rbind]. unfold advance.
  replace (S (List.length P)) with (List.length P + 1)%nat by lia. rewrite IH. reflexivity.
Qed.

Lemma finish_ascii t ws : ty_supported t = true -> Forall (fun w => good t w /\ exists v, val t w = Ok v) ws ->
  (if sty_eqb t UChar then mapR div255 (map (tk_f64 t) ws) else Ok (map (tk_f64 t) ws)) = Ok (map (vl t) ws).
Proof.
  intros Ht Hg. destruct t; try discriminate; cbn [sty_eqb].
  - induction ws as [|w ws IH]; [reflexivity|]. inversion Hg as [|? ? [G (v & V)] Hg']; subst.
    destruct G as (s & E & _). cbn [bword] in E. cbn [val] in V. rewrite E in V. cbn [rbind] in V.
    assert (Es : sw UChar w = s) by (unfold sw; cbn [bword]; rewrite E; reflexivity).
    assert (Ev : vl UChar w = v) by (unfold vl; cbn [val]; rewrite E; cbn [rbind]; rewrite V; reflexivity).
    cbn [map mapR]. unfold tk_f64 at 1. rewrite Es, Ev. unfold div255 at 1.
    rewrite small_nat_cvI by (apply (q255_le w); exact E). rewrite V. cbn [rbind].
    rewrite IH by assumption. reflexivity.
  - reflexivity.
  - reflexivity.
Qed.

Lemma read_row_ascii n i : forall gs (P S : list tok), Forall (group_good n) gs -> forallb ascii_ok gs = true -> (i < n)%nat ->
  mapR (fun b => read_ascii_row b (P ++ flat_map (fun g => gtoks g i) gs ++ S)) (layout false gs (List.length P))
  = Ok (vrow gs i).
Proof.
  induction gs as [|g gs IH]; intros P S Hg Ha Hi; [reflexivity|].
  inversion Hg as [|? ? G Hg']; subst. destruct (rowi_good n g i G Hi) as [_ (Hl & Hr)]. destruct G as (Ht & _ & _).
  cbn [forallb] in Ha. apply andb_prop in Ha. destruct Ha as [Ha1 Ha].
  specialize (IH (P ++ gtoks g i) S Hg' Ha Hi).
  assert (El : List.length (P ++ gtoks g i) = (List.length P + List.length (rowi g i))%nat)
    by (rewrite app_length; unfold gtoks; rewrite map_length; reflexivity).
  assert (Eg : gtoks g i = map (tk (rg_ty g)) (rowi g i)) by reflexivity.
  rewrite El in IH. rewrite <- app_assoc in IH. rewrite Eg in IH.
  unfold vrow. cbn [layout mapR flat_map map]. rewrite <- app_assoc. rewrite <- Hl. rewrite Eg.
  unfold read_ascii_row at 1. cbn [b_ty b_offs b_v1].
  rewrite (read_members_ascii (rg_ty g) (rowi g i) P) by assumption. cbn [rbind].
  assert (Ef : (if negb (Nat.eqb (List.length (rowi g i)) 1) && sty_eqb (rg_ty g) UChar
                then mapR div255 (map (tk_f64 (rg_ty g)) (rowi g i)) else Ok (map (tk_f64 (rg_ty g)) (rowi g i)))
               = Ok (map (vl (rg_ty g)) (rowi g i))).
  { rewrite <- (finish_ascii (rg_ty g) (rowi g i)) by assumption. unfold ascii_ok in Ha1. rewrite <- Hl in Ha1.
    destruct (Nat.eqb (List.length (rowi g i)) 1), (sty_eqb (rg_ty g) UChar); try reflexivity; discriminate. }
  rewrite Ef. cbn [rbind]. unfold vrow in IH. rewrite IH. reflexivity.
Qed.

Lemma vertex_toks_ok n gs i : Forall (group_good n) gs -> (i < n)%nat ->
  vertex_toks gs i = Ok (flat_map (fun g => gtoks g i) gs).
Proof.
  intros Hg Hi. unfold vertex_toks.
  rewrite (mapR_ok _ (fun g => gtoks g i)).
  - cbn [rbind]. rewrite <- flat_map_concat_map. reflexivity.
  - intros g Hin. rewrite Forall_forall in Hg. destruct (rowi_good n g i (Hg g Hin) Hi) as [E (Hl & Hr)].
    rewrite E. cbn [rbind]. unfold gtoks. apply mapR_ok. intros w Hw.
    rewrite Forall_forall in Hr. destruct (Hr w Hw) as [G _]. apply atok_tk; [apply (Hg g Hin)|exact G].
Qed.

Lemma line_length n gs i : Forall (group_good n) gs -> (i < n)%nat ->
  List.length (flat_map (fun g => gtoks g i) gs) = List.length (vertex_props gs).
Proof.
  intros Hg Hi. induction gs as [|g gs IH]; [reflexivity|]. inversion Hg as [|? ? G Hg']; subst.
  unfold vertex_props in *. cbn [flat_map]. rewrite !app_length, IH by assumption.
  destruct (rowi_good n g i G Hi) as [_ (Hl & _)]. unfold gtoks, group_props. rewrite !map_length, Hl. reflexivity.
Qed.

Theorem read_vertices_ascii_written n gs : forall k (rest : list (list tok)),
  Forall (group_good n) gs -> forallb ascii_ok gs = true -> (n = 0%nat \/ vertex_props gs <> []) -> (k <= n)%nat ->
  read_vertices_ascii (layout false gs 0) (List.length (vertex_props gs))
    (map (fun i => flat_map (fun g => gtoks g i) gs) (seq (n - k) k) ++ rest) k
  = Ok (map (vrow gs) (seq (n - k) k), rest).
Proof.
  induction k as [|k IH]; intros rest Hg Ha Hne Hk.
  - cbn [seq map app read_vertices_ascii]. destruct rest; reflexivity.
  - cbn [seq map app read_vertices_ascii].
    assert (Hne' : vertex_props gs <> []) by (destruct Hne as [Hn0|Hne']; [lia|exact Hne']).
    pose proof (line_length n gs (n - S k) Hg ltac:(lia)) as Ll.
    destruct (flat_map (fun g => gtoks g (n - S k)) gs) as [|t0 l0] eqn:El.
    { exfalso. destruct (vertex_props gs); [congruence|discriminate]. }
    clear Hne'. rewrite Ll. rewrite Nat.ltb_irrefl. rewrite <- El.
    pose proof (read_row_ascii n (n - S k) gs [] [] Hg Ha ltac:(lia)) as R. cbn [app List.length] in R. rewrite app_nil_r in R.
    rewrite R. cbn [rbind]. replace (S (n - S k)) with (n - k)%nat by lia.
    rewrite IH by (try assumption; lia). reflexivity.
Qed.

(* ================= face element ================= *)
Lemma tris_spec : forall n (l : list nat), (List.length l <= n)%nat -> (List.length l mod 3 = 0)%nat ->
  flat_map (fun '(a, b, c) => [a; b; c]) (tris l) = l /\ List.length (tris l) = (List.length l / 3)%nat.
Proof.
  induction n as [|n IH]; intros l Hl Hm.
  - destruct l; [split; reflexivity|cbn in Hl; lia].
  - destruct l as [|a [|b [|c r]]]; try (split; reflexivity); try (cbn in Hm; discriminate).
    cbn [List.length] in Hl, Hm.
    destruct (IH r) as [E1 E2]; [lia|lia|]. cbn [tris flat_map app List.length]. rewrite E1, E2. split; [reflexivity|lia].
Qed.

Definition shape (st : fstate) : Prop := List.length (fs_ibuf st) = 4%nat /\ List.length (fs_tbuf st) = 8%nat.
Definition idx_ok (i : nat) : Prop := N.of_nat i < 2147483648.
Definition tri_ok (t : nat * nat * nat) : Prop := let '(a, b, c) := t in idx_ok a /\ idx_ok b /\ idx_ok c.

Lemma signed32_idx i : idx_ok i -> signed32 (N.of_nat i) = Z.of_nat i.
Proof. unfold idx_ok, signed32. intros H. replace (N.of_nat i <? 2 ^ 31) with true by (symmetry; apply N.ltb_lt; exact H). lia. Qed.
Lemma idx_fits i : idx_ok i -> word_fits Int (N.of_nat i).
Proof. unfold idx_ok, word_fits. cbn. lia. Qed.

Lemma chunks4_3 (a b c : list N) : List.length a = 4%nat -> List.length b = 4%nat -> List.length c = 4%nat ->
  chunks 4 (a ++ b ++ c) = [a; b; c].
Proof.
  intros Ha Hb Hc.
  destruct a as [|a0 [|a1 [|a2 [|a3 [|]]]]]; try discriminate.
  destruct b as [|b0 [|b1 [|b2 [|b3 [|]]]]]; try discriminate.
  destruct c as [|c0 [|c1 [|c2 [|c3 [|]]]]]; try discriminate. reflexivity.
Qed.
Lemma chunks4_6 (a b c d f g : list N) : List.length a = 4%nat -> List.length b = 4%nat -> List.length c = 4%nat ->
  List.length d = 4%nat -> List.length f = 4%nat -> List.length g = 4%nat ->
  chunks 4 (a ++ b ++ c ++ d ++ f ++ g) = [a; b; c; d; f; g].
Proof.
  intros Ha Hb Hc Hd Hf Hg.
  destruct a as [|a0 [|a1 [|a2 [|a3 [|]]]]]; try discriminate.
  destruct b as [|b0 [|b1 [|b2 [|b3 [|]]]]]; try discriminate.
  destruct c as [|c0 [|c1 [|c2 [|c3 [|]]]]]; try discriminate.
  destruct d as [|d0 [|d1 [|d2 [|d3 [|]]]]]; try discriminate.
  destruct f as [|f0 [|f1 [|f2 [|f3 [|]]]]]; try discriminate.
  destruct g as [|g0 [|g1 [|g2 [|g3 [|]]]]]; try discriminate. reflexivity.
Qed.

(* ---------- binary face records ---------- *)
Definition encI e (i : nat) := enc_word e Int (N.of_nat i).
Lemma face_bin_notex e a b c rest st : tri_ok (a, b, c) -> shape st ->
  face_bin e [(UChar, Int)] 0 0 None (([3] ++ encI e a ++ encI e b ++ encI e c) ++ rest) st =
  Ok ({| fs_ibuf := [Z.of_nat a; Z.of_nat b; Z.of_nat c; nth 3 (fs_ibuf st) 0%Z]; fs_tbuf := fs_tbuf st; fs_points := 3 |}, rest).
Proof.
  intros (Ha & Hb & Hc) (Hi & Ht).
  cbn [face_bin read_count app]. cbn [take of_opt rbind].
  replace (dec_word e UChar [3]) with (Some 3) by (destruct e; reflexivity). cbn [of_opt rbind].
  change (Z.of_N 3 <? 0)%Z with false. cbv iota.
  change (Z.to_nat (Z.of_N 3) * sty_size Int)%nat with 12%nat.
  rewrite take_app_exact by (rewrite !app_length; unfold encI; rewrite !enc_word_length; reflexivity).
  cbn [of_opt rbind Nat.eqb nat_eqb_opt]. change (4 <? Z.of_N 3)%Z with false. cbv iota.
  unfold words_of. cbn [sty_size]. rewrite chunks4_3 by apply enc_word_length. cbn [mapR]. unfold encI.
  rewrite !dec_enc_word by (apply idx_fits; assumption). cbn [of_opt rbind map]. rewrite !signed32_idx by assumption.
  destruct st as [ib tb p]. cbn [fs_ibuf fs_tbuf] in *.
  destruct ib as [|i0 [|i1 [|i2 [|i3 [|]]]]]; try discriminate. reflexivity.
Qed.

Definition encF e (w : N) := enc_word e Float w.
Lemma face_bin_tex e a b c u0 u1 u2 u3 u4 u5 rest st : tri_ok (a, b, c) -> Forall word32 [u0; u1; u2; u3; u4; u5] -> shape st ->
  face_bin e [(UChar, Int); (UChar, Float)] 0 0 (Some 1%nat)
    (([3] ++ encI e a ++ encI e b ++ encI e c) ++ [6] ++ flat_map (enc_word e Float) [u0; u1; u2; u3; u4; u5] ++ rest) st =
  Ok ({| fs_ibuf := [Z.of_nat a; Z.of_nat b; Z.of_nat c; nth 3 (fs_ibuf st) 0%Z];
         fs_tbuf := map cvF [u0; u1; u2; u3; u4; u5] ++ skipn 6 (fs_tbuf st); fs_points := 3 |}, rest).
Proof.
  intros (Ha & Hb & Hc) Hu (Hi & Ht).
  cbn [face_bin read_count app]. cbn [take of_opt rbind].
  replace (dec_word e UChar [3]) with (Some 3) by (destruct e; reflexivity). cbn [of_opt rbind].
  change (Z.of_N 3 <? 0)%Z with false. cbv iota.
  change (Z.to_nat (Z.of_N 3) * sty_size Int)%nat with 12%nat.
  rewrite take_app_exact by (rewrite !app_length; unfold encI; rewrite !enc_word_length; reflexivity).
  cbn [of_opt rbind Nat.eqb nat_eqb_opt]. change (4 <? Z.of_N 3)%Z with false. cbv iota.
  unfold words_of at 1. cbn [sty_size]. rewrite chunks4_3 by apply enc_word_length. cbn [mapR]. unfold encI.
  rewrite !dec_enc_word by (apply idx_fits; assumption). cbn [of_opt rbind map]. rewrite !signed32_idx by assumption.
  cbn [app take of_opt rbind].
  replace (dec_word e UChar [6]) with (Some 6) by (destruct e; reflexivity). cbn [of_opt rbind].
  change (Z.of_N 6 <? 0)%Z with false. cbv iota.
  change (Z.to_nat (Z.of_N 6) * sty_size Float)%nat with 24%nat.
  cbn [flat_map]. rewrite app_nil_r. rewrite <- !app_assoc.
  change (Z.to_nat (Z.of_N 6) * 4)%nat with 24%nat.
  repeat rewrite Forall_cons_iff in Hu. destruct Hu as (H0 & H1 & H2 & H3 & H4 & H5 & _).
  assert (Ea : forall X, enc_word e Float u0 ++ enc_word e Float u1 ++ enc_word e Float u2 ++ enc_word e Float u3 ++
                         enc_word e Float u4 ++ enc_word e Float u5 ++ X =
                         (enc_word e Float u0 ++ enc_word e Float u1 ++ enc_word e Float u2 ++ enc_word e Float u3 ++
                          enc_word e Float u4 ++ enc_word e Float u5) ++ X) by (intros X; rewrite <- !app_assoc; reflexivity).
  rewrite Ea. rewrite take_app_exact by (rewrite !app_length, !enc_word_length; reflexivity).
  cbn [of_opt rbind]. change (8 <? Z.of_N 6)%Z with false. cbv iota.
  unfold words_of. cbn [sty_size]. rewrite chunks4_6 by apply enc_word_length. cbn [mapR].
  rewrite !dec_enc_word by (unfold word_fits; cbn; unfold word32 in *; lia). cbn [of_opt rbind map fs_ibuf fs_tbuf fs_points].
  destruct st as [ib tb p]. cbn [fs_ibuf fs_tbuf] in *.
  destruct ib as [|i0 [|i1 [|i2 [|i3 [|]]]]]; try discriminate.
  destruct tb as [|t0 [|t1 [|t2 [|t3 [|t4 [|t5 [|t6 [|t7 [|]]]]]]]]]; try discriminate. reflexivity.
Qed.

Definition tri_z (t : nat * nat * nat) : list Z := let '(a, b, c) := t in [Z.of_nat a; Z.of_nat b; Z.of_nat c].
Definition rec_notex e (t : nat * nat * nat) : list N := let '(a, b, c) := t in [3] ++ encI e a ++ encI e b ++ encI e c.
Definition rec_tex e (tu : nat * nat * nat * list N) : list N := rec_notex e (fst tu) ++ [6] ++ flat_map (enc_word e Float) (snd tu).
Definition ftu_ok (tu : nat * nat * nat * list N) : Prop := tri_ok (fst tu) /\ List.length (snd tu) = 6%nat /\ Forall word32 (snd tu).

Theorem faces_bin_notex e : forall ts rest st, Forall tri_ok ts -> shape st ->
  faces_bin e [(UChar, Int)] 0 None (flat_map (rec_notex e) ts ++ rest) (List.length ts) st = Ok (flat_map tri_z ts, []).
Proof.
  induction ts as [|[[a b] c] ts IH]; intros rest st Ht Hs; [reflexivity|].
  inversion Ht as [|? ? T Ht']; subst.
  cbn [List.length flat_map faces_bin]. rewrite <- app_assoc. unfold rec_notex at 1.
  rewrite face_bin_notex by assumption. cbn [rbind].
  unfold face_out. cbn [fs_points fs_ibuf fs_tbuf]. change ((3 <? 3)%Z || (4 <? 3)%Z) with false. cbv iota.
  change (3 =? 4)%Z with false. cbv iota. cbn [nthZ nth app rbind].
  rewrite IH; [reflexivity|assumption|]. split; [reflexivity|apply Hs].
Qed.

Theorem faces_bin_tex e : forall fts rest st, Forall ftu_ok fts -> shape st ->
  faces_bin e [(UChar, Int); (UChar, Float)] 0 (Some 1%nat) (flat_map (rec_tex e) fts ++ rest) (List.length fts) st
  = Ok (flat_map (fun tu => tri_z (fst tu)) fts, flat_map (fun tu => pairs (map cvF (snd tu))) fts).
Proof.
  induction fts as [|[[[a b] c] u] fts IH]; intros rest st Ht Hs; [reflexivity|].
  inversion Ht as [|? ? (T & L & W) Ht']; subst. cbn [fst snd] in *.
  destruct u as [|u0 [|u1 [|u2 [|u3 [|u4 [|u5 [|]]]]]]]; try discriminate.
  cbn [List.length flat_map faces_bin]. rewrite <- app_assoc. unfold rec_tex at 1, rec_notex at 1. cbn [fst snd].
  rewrite <- app_assoc. rewrite <- (app_assoc [6]).
  rewrite face_bin_tex by assumption. cbn [rbind].
  unfold face_out. cbn [fs_points fs_ibuf fs_tbuf]. change ((3 <? 3)%Z || (4 <? 3)%Z) with false. cbv iota.
  change (3 =? 4)%Z with false. cbv iota. cbn [nthZ nthN nth app rbind map].
  rewrite IH; [reflexivity|assumption|]. split; [reflexivity|].
  cbn [fs_tbuf map app List.length]. destruct Hs as [_ Hs]. rewrite skipn_length, Hs. reflexivity.
Qed.

(* ---------- ASCII face lines ---------- *)
Lemma tok_int_ntok k : tok_int (ntok k) = Some (Z.of_nat k).
Proof. reflexivity. Qed.
Lemma tok_f64_ftok w : tok_f64 (ftok w) = Some (cvF w).
Proof. unfold ftok. destruct (int_of_f32 w); reflexivity. Qed.

Lemma face_ascii_notex a b c st : shape st ->
  face_ascii [(UChar, Int)] 0 0 None [ntok 3; ntok a; ntok b; ntok c] st =
  Ok {| fs_ibuf := [Z.of_nat a; Z.of_nat b; Z.of_nat c; nth 3 (fs_ibuf st) 0%Z]; fs_tbuf := fs_tbuf st; fs_points := 3 |}.
Proof.
  intros (Hi & Ht). cbn [face_ascii]. rewrite tok_int_ntok. cbn [of_opt rbind List.length].
  change (Z.of_nat 3) with 3%Z. change ((3 <? 0)%Z || (3 <? 3)%Z) with false. cbv iota.
  change (Z.to_nat 3) with 3%nat. cbn [firstn skipn Nat.eqb nat_eqb_opt mapR].
  change (4 <? 3)%Z with false. cbv iota. rewrite !tok_int_ntok. cbn [of_opt rbind].
  destruct st as [ib tb p]. cbn [fs_ibuf fs_tbuf] in *.
  destruct ib as [|i0 [|i1 [|i2 [|i3 [|]]]]]; try discriminate. reflexivity.
Qed.

Lemma face_ascii_tex a b c u0 u1 u2 u3 u4 u5 st : shape st ->
  face_ascii [(UChar, Int); (UChar, Float)] 0 0 (Some 1%nat)
    ([ntok 3; ntok a; ntok b; ntok c] ++ [ntok 6] ++ map ftok [u0; u1; u2; u3; u4; u5]) st =
  Ok {| fs_ibuf := [Z.of_nat a; Z.of_nat b; Z.of_nat c; nth 3 (fs_ibuf st) 0%Z];
        fs_tbuf := map cvF [u0; u1; u2; u3; u4; u5] ++ skipn 6 (fs_tbuf st); fs_points := 3 |}.
Proof.
  intros (Hi & Ht). cbn [face_ascii app map]. rewrite tok_int_ntok. cbn [of_opt rbind List.length].
  change (Z.of_nat 3) with 3%Z. change ((3 <? 0)%Z || (Z.of_nat 10 <? 3)%Z) with false. cbv iota.
  change (Z.to_nat 3) with 3%nat. cbn [firstn skipn Nat.eqb nat_eqb_opt mapR].
  change (4 <? 3)%Z with false. cbv iota. rewrite !tok_int_ntok. cbn [of_opt rbind List.length].
  change (Z.of_nat 6) with 6%Z. change ((6 <? 0)%Z || (6 <? 6)%Z) with false. cbv iota.
  change (Z.to_nat 6) with 6%nat. cbn [firstn skipn mapR].
  change (8 <? 6)%Z with false. cbv iota. rewrite !tok_f64_ftok. cbn [of_opt rbind fs_ibuf fs_tbuf fs_points].
  destruct st as [ib tb p]. cbn [fs_ibuf fs_tbuf] in *.
  destruct ib as [|i0 [|i1 [|i2 [|i3 [|]]]]]; try discriminate.
  destruct tb as [|t0 [|t1 [|t2 [|t3 [|t4 [|t5 [|t6 [|t7 [|]]]]]]]]]; try discriminate. reflexivity.
Qed.

Definition line_notex (t : nat * nat * nat) : list tok := let '(a, b, c) := t in [ntok 3; ntok a; ntok b; ntok c].
Definition line_tex (tu : nat * nat * nat * list N) : list tok := line_notex (fst tu) ++ [ntok 6] ++ map ftok (snd tu).

Theorem faces_ascii_notex : forall ts rest st, shape st ->
  faces_ascii [(UChar, Int)] 0 None (map line_notex ts ++ rest) (List.length ts) st = Ok (flat_map tri_z ts, []).
Proof.
  induction ts as [|[[a b] c] ts IH]; intros rest st Hs.
  - cbn [map app List.length faces_ascii]. destruct rest; reflexivity.
  - cbn [map app List.length flat_map]. change (line_notex (a, b, c)) with [ntok 3; ntok a; ntok b; ntok c].
    cbn [faces_ascii]. rewrite face_ascii_notex by assumption. cbn [rbind].
    unfold face_out. cbn [fs_points fs_ibuf fs_tbuf]. change ((3 <? 3)%Z || (4 <? 3)%Z) with false. cbv iota.
    change (3 =? 4)%Z with false. cbv iota. cbn [nthZ nth app rbind].
    rewrite IH; [reflexivity|]. split; [reflexivity|apply Hs].
Qed.

Theorem faces_ascii_tex : forall fts rest st, Forall (fun tu => List.length (snd tu) = 6%nat) fts -> shape st ->
  faces_ascii [(UChar, Int); (UChar, Float)] 0 (Some 1%nat) (map line_tex fts ++ rest) (List.length fts) st
  = Ok (flat_map (fun tu => tri_z (fst tu)) fts, flat_map (fun tu => pairs (map cvF (snd tu))) fts).
Proof.
  induction fts as [|[[[a b] c] u] fts IH]; intros rest st Ht Hs.
  - cbn [map app List.length faces_ascii]. destruct rest; reflexivity.
  - inversion Ht as [|? ? L Ht']; subst. cbn [fst snd] in *.
    destruct u as [|u0 [|u1 [|u2 [|u3 [|u4 [|u5 [|]]]]]]]; try discriminate.
    cbn [map app List.length flat_map].
    change (line_tex (a, b, c, [u0; u1; u2; u3; u4; u5])) with ([ntok 3; ntok a; ntok b; ntok c] ++ [ntok 6] ++ map ftok [u0; u1; u2; u3; u4; u5]).
    pose proof (face_ascii_tex a b c u0 u1 u2 u3 u4 u5 st Hs) as F. cbn [app map] in F |- *.
    cbn [faces_ascii]. rewrite F. cbn [rbind app].
    unfold face_out. cbn [fs_points fs_ibuf fs_tbuf]. change ((3 <? 3)%Z || (4 <? 3)%Z) with false. cbv iota.
    change (3 =? 4)%Z with false. cbv iota. cbn [nthZ nthN nth app rbind map].
    rewrite IH; [reflexivity|assumption|]. split; [reflexivity|].
    cbn [fs_tbuf map app List.length]. destruct Hs as [_ Hs]. rewrite skipn_length, Hs. reflexivity.
Qed.

(* ================= header ================= *)
Lemma parse_udec_show n : parse_udec (show_udec n) = Some n.
Proof.
  unfold parse_udec, show_udec. pose proof (Unsigned.of_to n) as E.
  destruct (N.to_uint n) as [| | | | | | | | | |] eqn:D;
    [rewrite NilZero.usu_nil; cbn [option_map]; f_equal; rewrite <- E; reflexivity
    |rewrite NilZero.usu by discriminate; cbn [option_map]; f_equal; exact E ..].
Qed.

Lemma parse_dec_nosign s : (forall r, s <> String "-" r) -> (forall r, s <> String "+" r) ->
  parse_dec s = option_map Z.of_N (parse_udec s).
Proof.
  intros Hm Hp. destruct s as [|c r]; [reflexivity|].
  destruct c as [[] [] [] [] [] [] [] []]; try reflexivity; exfalso; first [eapply Hm; reflexivity | eapply Hp; reflexivity].
Qed.

Lemma parse_dec_show n : parse_dec (show_udec n) = Some (Z.of_N n).
Proof.
  rewrite parse_dec_nosign; [rewrite parse_udec_show; reflexivity| |];
    intros r; unfold show_udec; destruct (N.to_uint n); discriminate.
Qed.

Lemma parse_sty_name t : parse_sty (sty_name t) = Ok t.
Proof. destruct t; reflexivity. Qed.

Definition prop_hdr_ok (p : prop) : Prop := match p with PScalar _ _ => True | PList _ _ n => lower n = n end.
Definition elem_hdr_ok (e : element) : Prop :=
  lower (e_name e) = e_name e /\ (0 <= e_count e)%Z /\ Forall prop_hdr_ok (e_props e).

Lemma parse_property_line p : prop_hdr_ok p -> parse_property (prop_line p) = Ok p.
Proof.
  destruct p as [t n|ct lt n]; intros H; cbn [prop_line parse_property].
  - replace (seqb (lower (sty_name t)) "list") with false by (destruct t; reflexivity).
    rewrite parse_sty_name. reflexivity.
  - change (seqb (lower "list") "list") with true. cbv iota. rewrite !parse_sty_name. cbn [rbind].
    cbn in H. rewrite H. reflexivity.
Qed.

Lemma hstep_prop p e0 es0 cm : prop_hdr_ok p ->
  hstep (prop_line p) {| hs_elems := e0 :: es0; hs_comments := cm |} =
  Ok {| hs_elems := {| e_name := e_name e0; e_count := e_count e0; e_props := p :: e_props e0 |} :: es0; hs_comments := cm |}.
Proof.
  intros H. pose proof (parse_property_line p H) as E.
  destruct p as [t n|ct lt n]; cbn [prop_line] in *;
    (unfold hstep; change (seqb "property" "comment") with false; change (seqb "property" "element") with false;
     change (seqb "property" "property") with true; cbv iota; rewrite E; reflexivity).
Qed.

Lemma is_end_prop p : is_end (prop_line p) = false.
Proof. destruct p; reflexivity. Qed.

Lemma props_loop : forall ps e0 es0 cm rest, Forall prop_hdr_ok ps ->
  hloop (map prop_line ps ++ rest) {| hs_elems := e0 :: es0; hs_comments := cm |} =
  hloop rest {| hs_elems := {| e_name := e_name e0; e_count := e_count e0; e_props := rev ps ++ e_props e0 |} :: es0;
                hs_comments := cm |}.
Proof.
  induction ps as [|p ps IH]; intros e0 es0 cm rest H.
  - cbn [map app rev]. destruct e0; reflexivity.
  - inversion H as [|? ? Hp Hps]; subst. cbn [map app hloop]. rewrite is_end_prop, hstep_prop by assumption. cbn [rbind].
    rewrite IH by assumption. cbn [e_name e_count e_props rev]. rewrite <- app_assoc. reflexivity.
Qed.

Definition unfinish (e : element) : element := {| e_name := e_name e; e_count := e_count e; e_props := rev (e_props e) |}.

Lemma elems_loop : forall es es0 cm rest, Forall elem_hdr_ok es ->
  hloop (flat_map elem_lines es ++ rest) {| hs_elems := es0; hs_comments := cm |} =
  hloop rest {| hs_elems := rev (map unfinish es) ++ es0; hs_comments := cm |}.
Proof.
  induction es as [|e es IH]; intros es0 cm rest H; [reflexivity|].
  inversion H as [|? ? (Hn & Hc & Hp) Hes]; subst.
  cbn [flat_map]. rewrite <- app_assoc. unfold elem_lines at 1. cbn [app hloop].
  change (is_end ["element"%string; e_name e; show_udec (Z.to_N (e_count e))]) with false. cbv iota.
  unfold hstep. change (seqb "element" "comment") with false. change (seqb "element" "element") with true. cbv iota.
  rewrite parse_dec_show. cbn [of_opt rbind hs_elems hs_comments].
  rewrite props_loop by assumption. rewrite IH by assumption.
  cbn [e_name e_count e_props map rev]. rewrite app_nil_r, <- app_assoc. cbn [app].
  rewrite Hn. replace (Z.of_N (Z.to_N (e_count e))) with (e_count e) by lia. reflexivity.
Qed.

Lemma finish_unfinish e : finish_elem (unfinish e) = e.
Proof. destruct e. unfold finish_elem, unfinish. cbn. rewrite rev_involutive. reflexivity. Qed.

Theorem parse_header_written f es : Forall elem_hdr_ok es ->
  parse_header (header_lines f es) = Ok {| h_fmt := f; h_elems := es; h_comments := [tl comment_line] |}.
Proof.
  intros H. unfold header_lines, parse_header. change (negb (seqb "ply" "ply")) with false. cbv iota.
  cbn [skip_blank]. replace (parse_format ["format"%string; fmt_name f; "1.0"%string]) with (Ok f) by (destruct f; reflexivity).
  cbn [rbind hloop]. change (is_end comment_line) with false. cbv iota.
  change (hstep comment_line {| hs_elems := []; hs_comments := [] |}) with (Ok {| hs_elems := []; hs_comments := [tl comment_line] |}).
  cbn [rbind]. rewrite elems_loop by assumption. cbn [hloop]. change (is_end ["end_header"%string]) with true. cbv iota.
  cbn [rbind hs_elems hs_comments rev app]. rewrite app_nil_r, map_rev, rev_involutive, map_map.
  f_equal. f_equal. rewrite <- (map_id es) at 2. apply map_ext. apply finish_unfinish.
Qed.

Lemma header_elems_ok gs m : Forall elem_hdr_ok (header_elems gs m).
Proof.
  assert (Hv : Forall prop_hdr_ok (vertex_props gs)).
  { unfold vertex_props. induction gs as [|g gs IH]; [constructor|]. cbn [flat_map]. apply Forall_app. split; [|exact IH].
    unfold group_props. induction (rg_names g); constructor; [exact I|assumption]. }
  unfold header_elems. constructor.
  - split; [reflexivity|]. split; [cbn [e_count]; lia|exact Hv].
  - destruct (w_topo m); constructor; [|constructor].
    split; [reflexivity|]. split; [cbn [e_count]; lia|]. unfold face_props. cbn [e_props].
    destruct (has_tex m); repeat constructor.
Qed.

(* ================= what the writer model emits, in closed form ================= *)
Lemma write_vertices_bin_ok n gs : Forall (group_good n) gs ->
  mapR (vertex_words gs) (seq 0 n) = Ok (map (fun i => flat_map (fun g => gwords g i) gs) (seq 0 n)).
Proof. intros H. apply mapR_ok. intros i Hi. apply in_seq in Hi. apply (vertex_words_ok n); [assumption|lia]. Qed.
Lemma write_vertices_ascii_ok n gs : Forall (group_good n) gs ->
  mapR (vertex_toks gs) (seq 0 n) = Ok (map (fun i => flat_map (fun g => gtoks g i) gs) (seq 0 n)).
Proof. intros H. apply mapR_ok. intros i Hi. apply in_seq in Hi. apply (vertex_toks_ok n); [assumption|lia]. Qed.

Lemma face_bin_rec_notex e m t : has_tex m = false -> face_bin_rec e m t = Ok (rec_notex e t).
Proof. intros H. destruct t as [[a b] c]. unfold face_bin_rec. rewrite H. reflexivity. Qed.
Lemma face_bin_rec_tex e m t uv : has_tex m = true -> face_uvs m t = Ok uv -> face_bin_rec e m t = Ok (rec_tex e (t, uv)).
Proof.
  intros H U. destruct t as [[a b] c]. unfold face_bin_rec. rewrite H, U. cbn [rbind]. unfold rec_tex, rec_notex. cbn [fst snd].
  rewrite <- !app_assoc. reflexivity.
Qed.
Lemma face_ascii_line_notex m t : has_tex m = false -> face_ascii_line m t = Ok (line_notex t).
Proof. intros H. destruct t as [[a b] c]. unfold face_ascii_line. rewrite H. reflexivity. Qed.
Lemma face_ascii_line_tex m t uv : has_tex m = true -> face_uvs m t = Ok uv -> face_ascii_line m t = Ok (line_tex (t, uv)).
Proof. intros H U. destruct t as [[a b] c]. unfold face_ascii_line. rewrite H, U. reflexivity. Qed.

(* sizes: the header's property list and element counts determine the body length *)
Lemma vertex_block_length e n gs : Forall (group_good n) gs ->
  List.length (flat_map (fun i => flat_map (fun g => genc e g i) gs) (seq 0 n)) = (n * record_size (vertex_props gs))%nat.
Proof.
  intros H. rewrite record_size_props.
  assert (G : forall k, (k <= n)%nat ->
            List.length (flat_map (fun i => flat_map (fun g => genc e g i) gs) (seq (n - k) k)) = (k * size_of (tys_of gs))%nat).
  { induction k as [|k IH]; intros Hk; [reflexivity|]. cbn [seq flat_map]. rewrite app_length.
    rewrite (genc_total_length e n) by (try assumption; lia). replace (S (n - S k)) with (n - k)%nat by lia. rewrite IH by lia. lia. }
  specialize (G n (le_n n)). rewrite Nat.sub_diag in G. exact G.
Qed.
Lemma rec_notex_length e t : List.length (rec_notex e t) = 13%nat.
Proof. destruct t as [[a b] c]. unfold rec_notex, encI. rewrite !app_length, !enc_word_length. reflexivity. Qed.
Lemma rec_tex_length e tu : List.length (snd tu) = 6%nat -> List.length (rec_tex e tu) = 38%nat.
Proof.
  destruct tu as [t u]. cbn [snd]. intros H. unfold rec_tex. cbn [fst snd]. rewrite !app_length, rec_notex_length.
  destruct u as [|u0 [|u1 [|u2 [|u3 [|u4 [|u5 [|]]]]]]]; try discriminate. cbn [flat_map]. rewrite !app_length, !enc_word_length. reflexivity.
Qed.

(* ================= mesh level: point clouds ================= *)
(* the one step not proved in general: ply.ReadMesh builds, on the written property list, exactly the readers
   laid out on the groups (decidable for any concrete table; evaluated per case by Check/C04.v) *)
Definition readers_ok (bin : bool) (gs : list rgroup) : Prop :=
  build_readers bin default_groups true (vertex_props gs) = Ok (layout bin gs 0).

Lemma all_scalar_props gs : all_scalar (vertex_props gs) = true.
Proof.
  unfold vertex_props. induction gs as [|g gs IH]; [reflexivity|]. cbn [flat_map]. unfold group_props.
  induction (rg_names g) as [|x l IHl]; [exact IH|exact IHl].
Qed.

Theorem read_mesh_pointcloud_bin f gs m : f <> ASCII -> w_topo m = TPoint ->
  Forall (group_good (w_n m)) gs -> readers_ok true gs ->
  read_mesh {| pf_header := header_lines f (header_elems gs m);
               pf_body := BodyBin (flat_map (fun i => flat_map (fun g => genc (enc_of f) g i) gs) (seq 0 (w_n m))) |}
  = Ok {| m_topo := TPoint; m_idx := iota (w_n m);
          m_attrs := update_mesh (layout true gs 0) 0 (map (vrow gs) (seq 0 (w_n m))) [] |}.
Proof.
  intros Hf Ht Hg Hr. unfold read_mesh. cbn [pf_header pf_body].
  rewrite parse_header_written by apply header_elems_ok. cbn [rbind].
  unfold read_body. cbn [h_elems h_fmt]. unfold header_elems. rewrite Ht.
  cbn [find_last_elem e_name]. change (seqb "vertex" "vertex") with true. change (seqb "vertex" "face") with false. cbv iota.
  cbn [of_opt rbind e_props e_count]. rewrite all_scalar_props. cbn [negb].
  replace (Z.of_nat (w_n m) <? 0)%Z with false by lia. cbv iota. rewrite Nat2Z.id.
  pose proof (read_vertices_bin_written (enc_of f) (w_n m) gs (w_n m) [] Hg (le_n _)) as R.
  rewrite Nat.sub_diag, app_nil_r, <- record_size_props in R.
  destruct f; [congruence| |]; cbn [enc_of] in R |- *; rewrite Hr; cbn [rbind]; rewrite R; cbn [rbind]; reflexivity.
Qed.

Theorem read_mesh_pointcloud_ascii gs m : w_topo m = TPoint ->
  Forall (group_good (w_n m)) gs -> forallb ascii_ok gs = true -> (w_n m = 0%nat \/ vertex_props gs <> []) -> readers_ok false gs ->
  read_mesh {| pf_header := header_lines ASCII (header_elems gs m);
               pf_body := BodyAscii (map (fun i => flat_map (fun g => gtoks g i) gs) (seq 0 (w_n m))) |}
  = Ok {| m_topo := TPoint; m_idx := iota (w_n m);
          m_attrs := update_mesh (layout false gs 0) 0 (map (vrow gs) (seq 0 (w_n m))) [] |}.
Proof.
  intros Ht Hg Ha Hne Hr. unfold read_mesh. cbn [pf_header pf_body].
  rewrite parse_header_written by apply header_elems_ok. cbn [rbind].
  unfold read_body. cbn [h_elems h_fmt]. unfold header_elems. rewrite Ht.
  cbn [find_last_elem e_name]. change (seqb "vertex" "vertex") with true. change (seqb "vertex" "face") with false. cbv iota.
  cbn [of_opt rbind e_props e_count]. rewrite all_scalar_props. cbn [negb].
  replace (Z.of_nat (w_n m) <? 0)%Z with false by lia. cbv iota. rewrite Nat2Z.id.
  pose proof (read_vertices_ascii_written (w_n m) gs (w_n m) [] Hg Ha Hne (le_n _)) as R.
  rewrite Nat.sub_diag, app_nil_r in R.
  rewrite Hr; cbn [rbind]; rewrite R; cbn [rbind]; reflexivity.
Qed.

(* ================= mesh level: triangle meshes ================= *)
Definition mesh_of (tp : topo) (idx : list Z) (uvs : list (list N)) (attrs : list attr) : result mesh :=
  if negb (Nat.eqb (List.length uvs) 0) && Nat.eqb (List.length uvs) (List.length idx) then
    dor ua <- unweld_attrs attrs idx;
    Ok {| m_topo := tp; m_idx := iota (List.length idx); m_attrs := set_attr 2 "TexCoord" uvs ua |}
  else Ok {| m_topo := tp; m_idx := idx; m_attrs := attrs |}.

Lemma tri_z_flat l : flat_map tri_z l = zidx (flat_map (fun '(a, b, c) => [a; b; c]) l).
Proof.
  unfold zidx. induction l as [|[[a b] c] l IH]; [reflexivity|].
  cbn [flat_map tri_z app map]. rewrite IH. reflexivity.
Qed.

Lemma shape0 : shape fstate0.
Proof. split; reflexivity. Qed.

Theorem read_mesh_triangles_bin f gs m : f <> ASCII -> w_topo m = TTriangle -> has_tex m = false ->
  (List.length (w_idx m) mod 3 = 0)%nat -> Forall tri_ok (tris (w_idx m)) ->
  Forall (group_good (w_n m)) gs -> readers_ok true gs ->
  read_mesh {| pf_header := header_lines f (header_elems gs m);
               pf_body := BodyBin (flat_map (fun i => flat_map (fun g => genc (enc_of f) g i) gs) (seq 0 (w_n m))
                                   ++ flat_map (rec_notex (enc_of f)) (tris (w_idx m))) |}
  = Ok {| m_topo := TTriangle; m_idx := zidx (w_idx m);
          m_attrs := update_mesh (layout true gs 0) 0 (map (vrow gs) (seq 0 (w_n m))) [] |}.
Proof.
  intros Hf Ht Hx Hm Hi Hg Hr. unfold read_mesh. cbn [pf_header pf_body].
  rewrite parse_header_written by apply header_elems_ok. cbn [rbind].
  unfold read_body. cbn [h_elems h_fmt]. unfold header_elems. rewrite Ht.
  cbn [find_last_elem e_name]. change (seqb "vertex" "vertex") with true. change (seqb "vertex" "face") with false.
  change (seqb "face" "vertex") with false. change (seqb "face" "face") with true. cbv iota.
  cbn [of_opt rbind e_props e_count]. rewrite all_scalar_props. cbn [negb].
  replace (Z.of_nat (w_n m) <? 0)%Z with false by lia. cbv iota. rewrite !Nat2Z.id.
  pose proof (read_vertices_bin_written (enc_of f) (w_n m) gs (w_n m) (flat_map (rec_notex (enc_of f)) (tris (w_idx m))) Hg (le_n _)) as R.
  rewrite Nat.sub_diag, <- record_size_props in R.
  destruct (tris_spec (List.length (w_idx m)) (w_idx m) (le_n _) Hm) as [Ef El].
  assert (Ez : flat_map tri_z (tris (w_idx m)) = zidx (w_idx m)) by (rewrite tri_z_flat, Ef; reflexivity).
  unfold face_setup, face_props. rewrite Hx. cbn [e_props list_props rbind last_index].
  change (is_indices (PList UChar Int "vertex_indices")) with true.
  change (is_texcoord (PList UChar Int "vertex_indices")) with false. cbv iota. cbn [of_opt rbind].
  unfold nprims. rewrite Ht, <- El.
  pose proof (faces_bin_notex (enc_of f) (tris (w_idx m)) [] fstate0 Hi shape0) as F. rewrite app_nil_r in F.
  destruct f; [congruence| |]; cbn [enc_of] in R, F |- *; rewrite Hr; cbn [rbind]; rewrite R; cbn [rbind];
    rewrite F; cbn [rbind List.length Nat.eqb negb andb]; rewrite Ez; reflexivity.
Qed.

Lemma flat_map_fst {A B C} (f : A -> list C) (l : list (A * B)) : flat_map (fun tu => f (fst tu)) l = flat_map f (map fst l).
Proof. induction l as [|x l IH]; [reflexivity|]. cbn [flat_map map]. rewrite IH. reflexivity. Qed.

(* [fts]: every face of the mesh with its six texture-coordinate words (what [face_uvs] gathers through the index) *)
Theorem read_mesh_triangles_tex_bin f gs m fts : f <> ASCII -> w_topo m = TTriangle -> has_tex m = true ->
  (List.length (w_idx m) mod 3 = 0)%nat -> map fst fts = tris (w_idx m) -> Forall ftu_ok fts ->
  Forall (group_good (w_n m)) gs -> readers_ok true gs ->
  read_mesh {| pf_header := header_lines f (header_elems gs m);
               pf_body := BodyBin (flat_map (fun i => flat_map (fun g => genc (enc_of f) g i) gs) (seq 0 (w_n m))
                                   ++ flat_map (rec_tex (enc_of f)) fts) |}
  = mesh_of TTriangle (zidx (w_idx m)) (flat_map (fun tu => pairs (map cvF (snd tu))) fts)
            (update_mesh (layout true gs 0) 0 (map (vrow gs) (seq 0 (w_n m))) []).
Proof.
  intros Hf Ht Hx Hm Hfst Hi Hg Hr. unfold read_mesh. cbn [pf_header pf_body].
  rewrite parse_header_written by apply header_elems_ok. cbn [rbind].
  unfold read_body. cbn [h_elems h_fmt]. unfold header_elems. rewrite Ht.
  cbn [find_last_elem e_name]. change (seqb "vertex" "vertex") with true. change (seqb "vertex" "face") with false.
  change (seqb "face" "vertex") with false. change (seqb "face" "face") with true. cbv iota.
  cbn [of_opt rbind e_props e_count]. rewrite all_scalar_props. cbn [negb].
  replace (Z.of_nat (w_n m) <? 0)%Z with false by lia. cbv iota. rewrite !Nat2Z.id.
  pose proof (read_vertices_bin_written (enc_of f) (w_n m) gs (w_n m) (flat_map (rec_tex (enc_of f)) fts) Hg (le_n _)) as R.
  rewrite Nat.sub_diag, <- record_size_props in R.
  destruct (tris_spec (List.length (w_idx m)) (w_idx m) (le_n _) Hm) as [Ef El].
  assert (Ez : flat_map (fun tu => tri_z (fst tu)) fts = zidx (w_idx m)) by (rewrite flat_map_fst, Hfst, tri_z_flat, Ef; reflexivity).
  assert (Eln : List.length fts = (List.length (w_idx m) / 3)%nat) by (rewrite <- El, <- Hfst, map_length; reflexivity).
  unfold face_setup, face_props. rewrite Hx. cbn [e_props list_props rbind last_index].
  change (is_indices (PList UChar Int "vertex_indices")) with true.
  change (is_texcoord (PList UChar Int "vertex_indices")) with false.
  change (is_indices (PList UChar Float "texcoord")) with false.
  change (is_texcoord (PList UChar Float "texcoord")) with true. cbv iota. cbn [of_opt rbind].
  unfold nprims. rewrite Ht, <- Eln.
  pose proof (faces_bin_tex (enc_of f) fts [] fstate0 Hi shape0) as F. rewrite app_nil_r in F.
  destruct f; [congruence| |]; cbn [enc_of] in R, F |- *; rewrite Hr; cbn [rbind]; rewrite R; cbn [rbind];
    rewrite F; cbn [rbind]; rewrite Ez; reflexivity.
Qed.

Theorem read_mesh_triangles_ascii gs m : w_topo m = TTriangle -> has_tex m = false ->
  (List.length (w_idx m) mod 3 = 0)%nat ->
  Forall (group_good (w_n m)) gs -> forallb ascii_ok gs = true -> (w_n m = 0%nat \/ vertex_props gs <> []) -> readers_ok false gs ->
  read_mesh {| pf_header := header_lines ASCII (header_elems gs m);
               pf_body := BodyAscii (map (fun i => flat_map (fun g => gtoks g i) gs) (seq 0 (w_n m))
                                     ++ map line_notex (tris (w_idx m))) |}
  = Ok {| m_topo := TTriangle; m_idx := zidx (w_idx m);
          m_attrs := update_mesh (layout false gs 0) 0 (map (vrow gs) (seq 0 (w_n m))) [] |}.
Proof.
  intros Ht Hx Hm Hg Ha Hne Hr. unfold read_mesh. cbn [pf_header pf_body].
  rewrite parse_header_written by apply header_elems_ok. cbn [rbind].
  unfold read_body. cbn [h_elems h_fmt]. unfold header_elems. rewrite Ht.
  cbn [find_last_elem e_name]. change (seqb "vertex" "vertex") with true. change (seqb "vertex" "face") with false.
  change (seqb "face" "vertex") with false. change (seqb "face" "face") with true. cbv iota.
  cbn [of_opt rbind e_props e_count]. rewrite all_scalar_props. cbn [negb].
  replace (Z.of_nat (w_n m) <? 0)%Z with false by lia. cbv iota. rewrite !Nat2Z.id.
  pose proof (read_vertices_ascii_written (w_n m) gs (w_n m) (map line_notex (tris (w_idx m))) Hg Ha Hne (le_n _)) as R.
  rewrite Nat.sub_diag in R.
  destruct (tris_spec (List.length (w_idx m)) (w_idx m) (le_n _) Hm) as [Ef El].
  assert (Ez : flat_map tri_z (tris (w_idx m)) = zidx (w_idx m)) by (rewrite tri_z_flat, Ef; reflexivity).
  unfold face_setup, face_props. rewrite Hx. cbn [e_props list_props rbind last_index].
  change (is_indices (PList UChar Int "vertex_indices")) with true.
  change (is_texcoord (PList UChar Int "vertex_indices")) with false. cbv iota. cbn [of_opt rbind].
  unfold nprims. rewrite Ht, <- El.
  pose proof (faces_ascii_notex (tris (w_idx m)) [] fstate0 shape0) as F. rewrite app_nil_r in F.
  rewrite Hr; cbn [rbind]; rewrite R; cbn [rbind]; rewrite F; cbn [rbind List.length Nat.eqb negb andb]; rewrite Ez; reflexivity.
Qed.

Theorem read_mesh_triangles_tex_ascii gs m fts : w_topo m = TTriangle -> has_tex m = true ->
  (List.length (w_idx m) mod 3 = 0)%nat -> map fst fts = tris (w_idx m) -> Forall (fun tu => List.length (snd tu) = 6%nat) fts ->
  Forall (group_good (w_n m)) gs -> forallb ascii_ok gs = true -> (w_n m = 0%nat \/ vertex_props gs <> []) -> readers_ok false gs ->
  read_mesh {| pf_header := header_lines ASCII (header_elems gs m);
               pf_body := BodyAscii (map (fun i => flat_map (fun g => gtoks g i) gs) (seq 0 (w_n m)) ++ map line_tex fts) |}
  = mesh_of TTriangle (zidx (w_idx m)) (flat_map (fun tu => pairs (map cvF (snd tu))) fts)
            (update_mesh (layout false gs 0) 0 (map (vrow gs) (seq 0 (w_n m))) []).
Proof.
  intros Ht Hx Hm Hfst Hi Hg Ha Hne Hr. unfold read_mesh. cbn [pf_header pf_body].
  rewrite parse_header_written by apply header_elems_ok. cbn [rbind].
  unfold read_body. cbn [h_elems h_fmt]. unfold header_elems. rewrite Ht.
  cbn [find_last_elem e_name]. change (seqb "vertex" "vertex") with true. change (seqb "vertex" "face") with false.
  change (seqb "face" "vertex") with false. change (seqb "face" "face") with true. cbv iota.
  cbn [of_opt rbind e_props e_count]. rewrite all_scalar_props. cbn [negb].
  replace (Z.of_nat (w_n m) <? 0)%Z with false by lia. cbv iota. rewrite !Nat2Z.id.
  pose proof (read_vertices_ascii_written (w_n m) gs (w_n m) (map line_tex fts) Hg Ha Hne (le_n _)) as R.
  rewrite Nat.sub_diag in R.
  destruct (tris_spec (List.length (w_idx m)) (w_idx m) (le_n _) Hm) as [Ef El].
  assert (Ez : flat_map (fun tu => tri_z (fst tu)) fts = zidx (w_idx m)) by (rewrite flat_map_fst, Hfst, tri_z_flat, Ef; reflexivity).
  assert (Eln : List.length fts = (List.length (w_idx m) / 3)%nat) by (rewrite <- El, <- Hfst, map_length; reflexivity).
  unfold face_setup, face_props. rewrite Hx. cbn [e_props list_props rbind last_index].
  change (is_indices (PList UChar Int "vertex_indices")) with true.
  change (is_texcoord (PList UChar Int "vertex_indices")) with false.
  change (is_indices (PList UChar Float "texcoord")) with false.
  change (is_texcoord (PList UChar Float "texcoord")) with true. cbv iota. cbn [of_opt rbind].
  unfold nprims. rewrite Ht, <- Eln.
  pose proof (faces_ascii_tex fts [] fstate0 Hi shape0) as F. rewrite app_nil_r in F.
  rewrite Hr; cbn [rbind]; rewrite R; cbn [rbind]; rewrite F; cbn [rbind]; rewrite Ez; reflexivity.
Qed.

(* ---------- the attributes the readers leave in the mesh ---------- *)
Definition gattr (g : rgroup) : attr := (List.length (rg_names g), rg_attr g, map (map (vl (rg_ty g))) (rg_rows g)).
Definition gkey_eqb (g : rgroup) (a : attr) : bool := key_eqb (List.length (rg_names g)) (rg_attr g) a.
Fixpoint keys_ok (seen gs : list rgroup) : bool :=
  match gs with
  | [] => true
  | g :: r => forallb (fun g' => negb (gkey_eqb g (gattr g'))) seen && keys_ok (seen ++ [g]) r
  end.

Lemma filter_all {A} (f : A -> bool) l : forallb f l = true -> filter f l = l.
Proof. induction l as [|x l IH]; [reflexivity|]. cbn [forallb filter]. intros H. apply andb_prop in H. destruct H as [-> H]. rewrite IH by exact H. reflexivity. Qed.

Definition nogroup : rgroup := {| rg_attr := EmptyString; rg_names := []; rg_ty := Float; rg_rows := [] |}.

Lemma column_vrow n gs0 j g : nth_error gs0 j = Some g -> List.length (rg_rows g) = n ->
  column (map (vrow gs0) (seq 0 n)) j = map (map (vl (rg_ty g))) (rg_rows g).
Proof.
  intros E Hl. unfold column, vrow. rewrite map_map.
  transitivity (map (map (vl (rg_ty g))) (map (fun i => nth i (rg_rows g) []) (seq 0 n))).
  - rewrite map_map. apply map_ext. intros i.
    rewrite (nth_error_nth _ _ _ (map_nth_error (fun g => map (vl (rg_ty g)) (rowi g i)) _ _ E)). reflexivity.
  - rewrite <- Hl, map_nth_seq. reflexivity.
Qed.

Lemma update_mesh_layout bin n gs0 : (0 < n)%nat -> forall gs pre cur l,
  gs0 = pre ++ gs -> Forall (fun g => List.length (rg_rows g) = n) gs -> keys_ok pre gs = true ->
  (forall g, In g gs -> forallb (fun a => negb (gkey_eqb g a)) l = true) ->
  update_mesh (layout bin gs cur) (List.length pre) (map (vrow gs0) (seq 0 n)) (l ++ map gattr pre) = l ++ map gattr pre ++ map gattr gs.
Proof.
  intros Hn. induction gs as [|g gs IH]; intros pre cur l E Hl Hk Hlk.
  - cbn [layout update_mesh map]. rewrite app_nil_r. reflexivity.
  - apply Forall_cons_iff in Hl. destruct Hl as [Hg Hl']. cbn [keys_ok] in Hk. apply andb_prop in Hk. destruct Hk as [Hk1 Hk2].
    cbn [layout update_mesh b_offs b_attr].
    assert (Eo : forall t k c, List.length (offs_from bin c t k) = k) by (intros t k; induction k; intros c; cbn [offs_from List.length]; [reflexivity|rewrite IHk; reflexivity]).
    rewrite Eo. rewrite (column_vrow n gs0 (List.length pre) g) by (try assumption; rewrite E; apply nth_error_at).
    unfold set_attr. rewrite filter_all.
    2:{ rewrite forallb_app. apply andb_true_intro. split.
        - apply (Hlk g (or_introl eq_refl)).
        - rewrite forallb_forall in Hk1 |- *. intros a Ha. apply in_map_iff in Ha. destruct Ha as (g' & <- & Hg'). apply Hk1, Hg'. }
    destruct (map (map (vl (rg_ty g))) (rg_rows g)) as [|r0 rs] eqn:Ed.
    { exfalso. destruct (rg_rows g); [cbn in Hg; lia|discriminate]. }
    rewrite <- Ed. fold (gattr g).
    specialize (IH (pre ++ [g]) (if bin then (cur + List.length (rg_names g) * sty_size (rg_ty g))%nat else (cur + List.length (rg_names g))%nat) l).
    rewrite app_length in IH. cbn [List.length] in IH. replace (List.length pre + 1)%nat with (S (List.length pre)) in IH by lia.
    rewrite <- app_assoc in IH. cbn [app] in IH. rewrite map_app in IH. cbn [map] in IH.
    rewrite <- app_assoc.
    etransitivity.
    { apply IH; try assumption. intros g' Hg'. apply Hlk. right. exact Hg'. }
    rewrite <- !app_assoc. reflexivity.
Qed.

Theorem attrs_of_layout bin n gs : (0 < n)%nat -> Forall (fun g => List.length (rg_rows g) = n) gs -> keys_ok [] gs = true ->
  update_mesh (layout bin gs 0) 0 (map (vrow gs) (seq 0 n)) [] = map gattr gs.
Proof.
  intros Hn Hl Hk. pose proof (update_mesh_layout bin n gs Hn gs [] 0%nat [] eq_refl Hl Hk (fun g _ => eq_refl)) as U.
  exact U.
Qed.

(* ---------- which readers ply.ReadMesh builds on ply.Write's own table ---------- *)
Definition shape_of (g : rgroup) := (rg_attr g, rg_names g, rg_ty g).
Lemma shape_props gs gs' : map shape_of gs = map shape_of gs' -> vertex_props gs = vertex_props gs'.
Proof.
  revert gs'. induction gs as [|g gs IH]; intros [|g' gs'] H; try discriminate; [reflexivity|].
  cbn [map] in H. unfold shape_of at 1 3 in H. injection H as Ha Hn Ht H. unfold vertex_props. cbn [flat_map]. fold (vertex_props gs) (vertex_props gs').
  rewrite (IH gs' H). unfold group_props. rewrite Hn, Ht. reflexivity.
Qed.
Lemma shape_layout bin gs : forall gs' c, map shape_of gs = map shape_of gs' -> layout bin gs c = layout bin gs' c.
Proof.
  induction gs as [|g gs IH]; intros [|g' gs'] c H; try discriminate; [reflexivity|].
  cbn [map] in H. unfold shape_of at 1 3 in H. injection H as Ha Hn Ht H.
  cbn [layout]. rewrite Ha, Hn, Ht. rewrite (IH gs' _ H). reflexivity.
Qed.
Definition bare (w : pw) : rgroup := {| rg_attr := pw_attr w; rg_names := pw_names w; rg_ty := pw_ty w; rg_rows := [] |}.
Lemma readers_ok_default_bare bin (f : pw -> bool) : readers_ok bin (map bare (filter f default_writers)).
Proof.
  unfold default_writers. cbn [filter].
  destruct (f _), (f _), (f _), (f _), (f _), (f _), (f _), bin; vm_compute; reflexivity.
Qed.
Theorem readers_ok_default bin m (f : pw -> bool) : readers_ok bin (map (group_of m) (filter f default_writers)).
Proof.
  unfold readers_ok. pose proof (readers_ok_default_bare bin f) as B. unfold readers_ok in B.
  assert (S : map shape_of (map (group_of m) (filter f default_writers)) = map shape_of (map bare (filter f default_writers)))
    by (rewrite !map_map; reflexivity).
  rewrite (shape_props _ _ S), (shape_layout bin _ _ 0%nat S). exact B.
Qed.

(* ================= reader construction with user-named (fresh) scalar properties ================= *)
Definition pname_fresh (ms : list string) (p : prop) : Prop :=
  match p with PScalar _ n => ~ In n ms | PList _ _ _ => False end.

Lemma seqb_neq a b : a <> b -> seqb a b = false.
Proof. intros H. unfold seqb. apply String.eqb_neq. exact H. Qed.
Lemma seqb_refl a : seqb a a = true.
Proof. unfold seqb. apply String.eqb_refl. Qed.

Lemma scan_members_fresh name ms : forall offs ty cur t, ~ In name ms -> List.length offs = List.length ms ->
  scan_members ms offs ty cur t name = (offs, ty).
Proof.
  induction ms as [|m ms IH]; intros offs ty cur t Hn Hl.
  - destruct offs; [reflexivity|discriminate].
  - destruct offs as [|o os]; [discriminate|]. cbn [scan_members].
    rewrite seqb_neq by (intros ->; apply Hn; left; reflexivity).
    rewrite IH; [reflexivity|intros H; apply Hn; right; exact H|cbn in Hl; lia].
Qed.

Lemma scan_members_length name ms : forall offs ty cur t, List.length offs = List.length ms ->
  List.length (fst (scan_members ms offs ty cur t name)) = List.length ms.
Proof.
  induction ms as [|m ms IH]; intros offs ty cur t Hl.
  - destruct offs; reflexivity.
  - destruct offs as [|o os]; [discriminate|]. cbn [scan_members].
    destruct (seqb name m).
    + specialize (IH os (match ty with Some _ => ty | None => Some t end) cur t ltac:(cbn in Hl; lia)).
      destruct (scan_members ms os _ cur t name) as [os' ty'']. cbn [fst List.length] in *. lia.
    + specialize (IH os ty cur t ltac:(cbn in Hl; lia)).
      destruct (scan_members ms os ty cur t name) as [os' ty'']. cbn [fst List.length] in *. lia.
Qed.

Lemma scan_props_fresh bin ms T : forall cur offs ty, Forall (pname_fresh ms) T -> List.length offs = List.length ms ->
  scan_props bin ms T cur offs ty = Ok (offs, ty).
Proof.
  induction T as [|p T IH]; intros cur offs ty Hf Hl; [reflexivity|].
  inversion Hf as [|? ? Hp Hf']; subst. destruct p as [t n|]; [|destruct Hp].
  cbn [scan_props]. rewrite scan_members_fresh by assumption. apply IH; assumption.
Qed.

Lemma scan_props_app_fresh bin ms T P : Forall (pname_fresh ms) T -> forall cur offs ty, List.length offs = List.length ms ->
  scan_props bin ms (P ++ T) cur offs ty = scan_props bin ms P cur offs ty.
Proof.
  intros Hf. induction P as [|p P IH]; intros cur offs ty Hl.
  - cbn [app]. rewrite scan_props_fresh by assumption. reflexivity.
  - destruct p as [t n|]; [|reflexivity]. cbn [app scan_props].
    pose proof (scan_members_length n ms offs ty cur t Hl) as L.
    destruct (scan_members ms offs ty cur t n) as [offs' ty']. apply IH. exact L.
Qed.

Lemma build_vec_app_fresh bin attr ms P T : Forall (pname_fresh ms) T ->
  build_vec bin attr ms (P ++ T) = build_vec bin attr ms P.
Proof. intros H. unfold build_vec. rewrite scan_props_app_fresh by (try assumption; apply map_length). reflexivity. Qed.

Lemma find_v1_fresh bin name T : forall cur, Forall (pname_fresh [name]) T -> find_v1 bin name T cur = Ok None.
Proof.
  induction T as [|p T IH]; intros cur Hf; [reflexivity|]. inversion Hf as [|? ? Hp Hf']; subst.
  destruct p as [t n|]; [|destruct Hp]. cbn [find_v1]. rewrite seqb_neq by (intros ->; apply Hp; left; reflexivity).
  apply IH. exact Hf'.
Qed.
Lemma find_v1_app_fresh bin name T P : Forall (pname_fresh [name]) T -> forall cur,
  find_v1 bin name (P ++ T) cur = find_v1 bin name P cur.
Proof.
  intros Hf. induction P as [|p P IH]; intros cur.
  - cbn [app]. rewrite find_v1_fresh by assumption. reflexivity.
  - destruct p as [t n|]; [|reflexivity]. cbn [app find_v1]. destruct (seqb n name); [reflexivity|apply IH].
Qed.

Lemma fresh_sub ms ms' T : incl ms' ms -> Forall (pname_fresh ms) T -> Forall (pname_fresh ms') T.
Proof.
  intros Hi Hf. induction Hf as [|p T Hp _ IH]; constructor; [|exact IH].
  destruct p; [|exact Hp]. intros H. apply Hp, Hi, H.
Qed.

Lemma In_firstn {A} k (l : list A) x : In x (firstn k l) -> In x l.
Proof. revert l. induction k as [|k IH]; intros [|y l] H; cbn in *; try contradiction. destruct H as [->|H]; [left; reflexivity|right; apply IH, H]. Qed.

Lemma build_group_app_fresh bin g P T : Forall (pname_fresh (g_members g)) T ->
  build_group bin g (P ++ T) = build_group bin g P.
Proof.
  intros Hf. unfold build_group. destruct (g_members g) as [|m0 [|m1 ms]] eqn:E.
  - rewrite build_vec_app_fresh by assumption. destruct (build_vec bin (g_attr g) [] P) as [[b|]|]; cbn [rbind]; try reflexivity.
    destruct (g_ignorable_w g); [|reflexivity]. cbn [firstn]. apply build_vec_app_fresh. constructor || (eapply fresh_sub; [|eassumption]; intros x []).
  - unfold build_v1. rewrite find_v1_app_fresh by assumption. reflexivity.
  - rewrite build_vec_app_fresh by assumption. destruct (build_vec bin (g_attr g) (m0 :: m1 :: ms) P) as [[b|]|]; cbn [rbind]; try reflexivity.
    destruct (g_ignorable_w g); [|reflexivity]. apply build_vec_app_fresh.
    eapply fresh_sub; [|eassumption]. intros x Hx. eapply (In_firstn 3). exact Hx.
Qed.

Lemma build_groups_app_fresh bin gs P T : Forall (fun g => Forall (pname_fresh (g_members g)) T) gs ->
  build_groups bin gs (P ++ T) = build_groups bin gs P.
Proof.
  induction gs as [|g gs IH]; intros H; [reflexivity|]. inversion H as [|? ? Hg Hgs]; subst.
  cbn [build_groups]. rewrite build_group_app_fresh by assumption. rewrite IH by assumption. reflexivity.
Qed.

Lemma default_groups_fresh T : Forall (pname_fresh reserved_names) T ->
  Forall (fun g => Forall (pname_fresh (g_members g)) T) default_groups.
Proof.
  intros H. apply Forall_forall. intros g Hg. eapply fresh_sub; [|exact H].
  intros x Hx. unfold reserved_names. apply in_flat_map. exists g. split; assumption.
Qed.

Lemma add_unclaimed_claimed bin all P : forall rest bs,
  forallb (fun p => existsb (fun b => claims b (prop_name p)) bs) P = true ->
  add_unclaimed bin all (P ++ rest) bs = add_unclaimed bin all rest bs.
Proof.
  induction P as [|p P IH]; intros rest bs H; [reflexivity|].
  cbn [forallb] in H. apply andb_prop in H. destruct H as [H1 H2].
  cbn [app add_unclaimed]. rewrite H1. apply IH. exact H2.
Qed.

(* cursor after a list of properties / groups *)
Definition adv (bin : bool) (cur : nat) (X : list prop) : nat :=
  fold_left (fun c p => match p with PScalar t _ => advance bin c t | PList _ _ _ => c end) X cur.
Definition gstep (bin : bool) (c : nat) (g : rgroup) : nat :=
  if bin then (c + List.length (rg_names g) * sty_size (rg_ty g))%nat else (c + List.length (rg_names g))%nat.
Definition gcur (bin : bool) (cur : nat) (gs : list rgroup) : nat := fold_left (gstep bin) gs cur.

Lemma find_v1_hit bin n t : forall X B cur, Forall (pname_fresh [n]) X ->
  find_v1 bin n (X ++ PScalar t n :: B) cur = Ok (Some (adv bin cur X, t)).
Proof.
  induction X as [|p X IH]; intros B cur Hf.
  - cbn [app find_v1 adv fold_left]. rewrite seqb_refl. reflexivity.
  - inversion Hf as [|? ? Hp Hf']; subst. destruct p as [t' n'|]; [|destruct Hp].
    cbn [app find_v1]. rewrite seqb_neq by (intros ->; apply Hp; left; reflexivity).
    rewrite IH by assumption. reflexivity.
Qed.

Lemma adv_app bin cur X Y : adv bin cur (X ++ Y) = adv bin (adv bin cur X) Y.
Proof. unfold adv. apply fold_left_app. Qed.
Lemma adv_group bin cur g : adv bin cur (group_props g) = gstep bin cur g.
Proof.
  unfold group_props, gstep. revert cur. induction (rg_names g) as [|x l IH]; intros cur.
  - cbn. destruct bin; lia.
  - cbn [map adv fold_left List.length]. fold (adv bin (advance bin cur (rg_ty g)) (map (PScalar (rg_ty g)) l)).
    rewrite IH. unfold advance. destruct bin; lia.
Qed.
Lemma adv_props bin gs : forall cur, adv bin cur (vertex_props gs) = gcur bin cur gs.
Proof.
  induction gs as [|g gs IH]; intros cur; [reflexivity|].
  unfold vertex_props. cbn [flat_map]. fold (vertex_props gs). rewrite adv_app, adv_group, IH. reflexivity.
Qed.
Lemma layout_app bin a : forall b c, layout bin (a ++ b) c = layout bin a c ++ layout bin b (gcur bin c a).
Proof.
  induction a as [|g a IH]; intros b c; [reflexivity|].
  cbn [app layout gcur fold_left]. rewrite IH. reflexivity.
Qed.
Lemma gcur_app bin c a b : gcur bin c (a ++ b) = gcur bin (gcur bin c a) b.
Proof. unfold gcur. apply fold_left_app. Qed.

Definition scalar_group (g : rgroup) : Prop := rg_names g = [rg_attr g].

Lemma vertex_props_app a b : vertex_props (a ++ b) = vertex_props a ++ vertex_props b.
Proof. unfold vertex_props. apply flat_map_app. Qed.
Lemma vertex_props_scalar g gs : scalar_group g -> vertex_props (g :: gs) = PScalar (rg_ty g) (rg_attr g) :: vertex_props gs.
Proof. intros H. unfold vertex_props. cbn [flat_map]. unfold group_props. rewrite H. reflexivity. Qed.

Lemma props_fresh_of_groups n gs : Forall scalar_group gs -> ~ In n (map rg_attr gs) -> Forall (pname_fresh [n]) (vertex_props gs).
Proof.
  induction gs as [|g gs IH]; intros Hs Hn; [constructor|]. inversion Hs as [|? ? Hg Hs']; subst.
  rewrite vertex_props_scalar by assumption. constructor.
  - cbn. intros [H|[]]. apply Hn. left. symmetry. exact H.
  - apply IH; [assumption|]. intros H. apply Hn. right. exact H.
Qed.

Lemma claims_layout_scalars bin n gs : forall c, Forall scalar_group gs -> ~ In n (map rg_attr gs) ->
  existsb (fun b => claims b n) (layout bin gs c) = false.
Proof.
  induction gs as [|g gs IH]; intros c Hs Hn; [reflexivity|]. inversion Hs as [|? ? Hg Hs']; subst.
  cbn [layout existsb]. unfold claims at 1. cbn [b_names]. rewrite Hg. cbn [existsb].
  rewrite seqb_neq by (intros ->; apply Hn; left; reflexivity). cbn [orb].
  apply IH; [assumption|]. intros H. apply Hn. right. exact H.
Qed.

Lemma add_unclaimed_tail bin pregs bs0 : forall todo done,
  Forall scalar_group (done ++ todo) -> NoDup (map rg_attr (done ++ todo)) ->
  (forall g, In g (done ++ todo) -> Forall (pname_fresh [rg_attr g]) (vertex_props pregs)) ->
  (forall g, In g todo -> existsb (fun b => claims b (rg_attr g)) bs0 = false) ->
  add_unclaimed bin (vertex_props pregs ++ vertex_props (done ++ todo)) (vertex_props todo)
                (bs0 ++ layout bin done (gcur bin 0 pregs))
  = Ok (bs0 ++ layout bin (done ++ todo) (gcur bin 0 pregs)).
Proof.
  induction todo as [|g todo IH]; intros done Hs Hnd Hpre Hbs.
  - rewrite app_nil_r. reflexivity.
  - assert (Hg : scalar_group g) by (rewrite Forall_forall in Hs; apply Hs, in_or_app; right; left; reflexivity).
    assert (Hsd : Forall scalar_group done) by (apply Forall_app in Hs; apply Hs).
    rewrite map_app in Hnd. cbn [map] in Hnd. pose proof (NoDup_remove_2 _ _ _ Hnd) as Hnot.
    assert (Hnd_done : ~ In (rg_attr g) (map rg_attr done)) by (intros H; apply Hnot, in_or_app; left; exact H).
    assert (Hnd_todo : ~ In (rg_attr g) (map rg_attr todo)) by (intros H; apply Hnot, in_or_app; right; exact H).
    rewrite (vertex_props_scalar g todo Hg). cbn [add_unclaimed prop_name].
    rewrite existsb_app. rewrite (Hbs g (or_introl eq_refl)). rewrite claims_layout_scalars by assumption. cbn [orb].
    unfold build_v1.
    assert (Eall : vertex_props pregs ++ vertex_props (done ++ g :: todo)
                   = (vertex_props pregs ++ vertex_props done) ++ PScalar (rg_ty g) (rg_attr g) :: vertex_props todo).
    { rewrite vertex_props_app, (vertex_props_scalar g todo Hg), <- app_assoc. reflexivity. }
    rewrite Eall. rewrite find_v1_hit.
    2:{ apply Forall_app. split; [apply Hpre, in_or_app; right; left; reflexivity|apply props_fresh_of_groups; assumption]. }
    cbn [rbind option_map]. rewrite <- Eall.
    replace (done ++ g :: todo) with ((done ++ [g]) ++ todo) by (rewrite <- app_assoc; reflexivity).
    rewrite adv_app, !adv_props.
    assert (El : (bs0 ++ layout bin done (gcur bin 0 pregs)) ++
                 [{| b_attr := rg_attr g; b_names := [rg_attr g]; b_offs := [gcur bin (gcur bin 0 pregs) done]; b_ty := rg_ty g; b_v1 := true |}]
                 = bs0 ++ layout bin (done ++ [g]) (gcur bin 0 pregs)).
    { rewrite layout_app, <- app_assoc. cbn [layout]. rewrite Hg. reflexivity. }
    rewrite El. apply IH.
    + rewrite <- app_assoc. exact Hs.
    + rewrite <- app_assoc, map_app. cbn [map app]. exact Hnd.
    + intros g' Hg'. apply Hpre. rewrite <- app_assoc in Hg'. exact Hg'.
    + intros g' Hg'. apply Hbs. right. exact Hg'.
Qed.

Definition groups_claimed (bin : bool) (gs : list rgroup) : Prop :=
  build_groups bin default_groups (vertex_props gs) = Ok (layout bin gs 0) /\
  forallb (fun p => existsb (fun b => claims b (prop_name p)) (layout bin gs 0)) (vertex_props gs) = true.
Lemma groups_claimed_bare bin (f : pw -> bool) : groups_claimed bin (map bare (filter f default_writers)).
Proof.
  unfold default_writers. cbn [filter].
  destruct (f _), (f _), (f _), (f _), (f _), (f _), (f _), bin; split; vm_compute; reflexivity.
Qed.
Lemma groups_claimed_default bin m (f : pw -> bool) : groups_claimed bin (map (group_of m) (filter f default_writers)).
Proof.
  pose proof (groups_claimed_bare bin f) as [B1 B2]. unfold groups_claimed.
  assert (S : map shape_of (map (group_of m) (filter f default_writers)) = map shape_of (map bare (filter f default_writers)))
    by (rewrite !map_map; reflexivity).
  rewrite (shape_props _ _ S), (shape_layout bin _ _ 0%nat S). split; assumption.
Qed.

Lemma existsb_seqb_In n l : existsb (seqb n) l = true -> In n l.
Proof. intros H. apply existsb_exists in H. destruct H as (x & Hx & E). unfold seqb in E. apply String.eqb_eq in E. subst. exact Hx. Qed.
Lemma not_In_existsb n l : ~ In n l -> existsb (seqb n) l = false.
Proof. intros H. destruct (existsb (seqb n) l) eqn:E; [|reflexivity]. exfalso. apply H, existsb_seqb_In, E. Qed.

Lemma default_names_reserved : forall w, In w default_writers -> incl (pw_names w) reserved_names.
Proof.
  assert (A : forallb (fun w => forallb (fun n => existsb (seqb n) reserved_names) (pw_names w)) default_writers = true)
    by (vm_compute; reflexivity).
  rewrite forallb_forall in A. intros w Hw n Hn. specialize (A w Hw). rewrite forallb_forall in A.
  apply existsb_seqb_In, A, Hn.
Qed.

Lemma pregs_names_reserved m (f : pw -> bool) g : In g (map (group_of m) (filter f default_writers)) -> incl (rg_names g) reserved_names.
Proof.
  intros H. apply in_map_iff in H. destruct H as (w & <- & Hw). apply filter_In in Hw. destruct Hw as [Hw _].
  cbn [group_of rg_names]. apply default_names_reserved, Hw.
Qed.

Lemma props_fresh_reserved n gs : ~ In n reserved_names -> (forall g, In g gs -> incl (rg_names g) reserved_names) ->
  Forall (pname_fresh [n]) (vertex_props gs).
Proof.
  intros Hn Hg. unfold vertex_props. apply Forall_forall. intros p Hp. apply in_flat_map in Hp. destruct Hp as (g & Hin & Hp).
  unfold group_props in Hp. apply in_map_iff in Hp. destruct Hp as (x & <- & Hx). cbn. intros [E|[]]. subst x.
  apply Hn, (Hg g Hin), Hx.
Qed.

Lemma claims_layout_reserved bin n gs : forall c, ~ In n reserved_names -> (forall g, In g gs -> incl (rg_names g) reserved_names) ->
  existsb (fun b => claims b n) (layout bin gs c) = false.
Proof.
  induction gs as [|g gs IH]; intros c Hn Hg; [reflexivity|].
  cbn [layout existsb]. unfold claims at 1. cbn [b_names].
  rewrite not_In_existsb by (intros H; apply Hn, (Hg g (or_introl eq_refl)), H). cbn [orb].
  apply IH; [assumption|]. intros g' H. apply Hg. right. exact H.
Qed.

Lemma tail_props_fresh tail : Forall scalar_group tail -> Forall (fun g => ~ In (rg_attr g) reserved_names) tail ->
  Forall (pname_fresh reserved_names) (vertex_props tail).
Proof.
  induction tail as [|g tail IH]; intros Hs Hr; [constructor|]. inversion Hs; inversion Hr; subst.
  rewrite vertex_props_scalar by assumption. constructor; [assumption|apply IH; assumption].
Qed.

(* ply.ReadMesh builds exactly the laid-out readers on ply.Write's table followed by fresh user-named scalars *)
Theorem readers_ok_default_user bin m (sel : pw -> bool) tail :
  Forall scalar_group tail -> NoDup (map rg_attr tail) -> Forall (fun g => ~ In (rg_attr g) reserved_names) tail ->
  readers_ok bin (map (group_of m) (filter sel default_writers) ++ tail).
Proof.
  intros Hs Hnd Hr. set (pregs := map (group_of m) (filter sel default_writers)).
  destruct (groups_claimed_default bin m sel) as [B1 B2]. fold pregs in B1, B2.
  unfold readers_ok, build_readers. rewrite vertex_props_app.
  rewrite build_groups_app_fresh by (apply default_groups_fresh, tail_props_fresh; assumption).
  rewrite B1. cbn [rbind]. rewrite add_unclaimed_claimed by exact B2.
  pose proof (add_unclaimed_tail bin pregs (layout bin pregs 0) tail [] Hs Hnd) as A. cbn [app layout] in A.
  rewrite app_nil_r in A. rewrite A.
  - rewrite layout_app. reflexivity.
  - intros g Hg. rewrite Forall_forall in Hr. apply props_fresh_reserved; [apply Hr, Hg|]. intros g'. apply pregs_names_reserved.
  - intros g Hg. rewrite Forall_forall in Hr. apply claims_layout_reserved; [apply Hr, Hg|]. intros g'. apply pregs_names_reserved.
Qed.

(* ================= the whole file in closed form ================= *)
Definition uvf (m : wmesh) (t : nat * nat * nat) : list N := match face_uvs m t with Ok u => u | Err _ => [] end.
Definition faces_of (m : wmesh) : list (nat * nat * nat) := match w_topo m with TTriangle => tris (w_idx m) | TPoint => [] end.
Definition fts_of (m : wmesh) : list (nat * nat * nat * list N) := map (fun t => (t, uvf m t)) (faces_of m).
Definition tex_ok (m : wmesh) : Prop :=
  forall t, In t (faces_of m) -> exists u, face_uvs m t = Ok u /\ List.length u = 6%nat /\ Forall word32 u.
Definition closed_body (f : fmt) (gs : list rgroup) (m : wmesh) : body :=
  match f with
  | ASCII => BodyAscii (map (fun i => flat_map (fun g => gtoks g i) gs) (seq 0 (w_n m)) ++
                        (if has_tex m then map line_tex (fts_of m) else map line_notex (faces_of m)))
  | _ => BodyBin (flat_map (fun i => flat_map (fun g => genc (enc_of f) g i) gs) (seq 0 (w_n m)) ++
                  (if has_tex m then flat_map (rec_tex (enc_of f)) (fts_of m) else flat_map (rec_notex (enc_of f)) (faces_of m)))
  end.

Lemma vblock_eq e gs n :
  flat_map (enc_words e) (map (fun i => flat_map (fun g => gwords g i) gs) (seq 0 n))
  = flat_map (fun i => flat_map (fun g => genc e g i) gs) (seq 0 n).
Proof. induction (seq 0 n) as [|i l IH]; [reflexivity|]. cbn [map flat_map]. rewrite IH, enc_words_flat. reflexivity. Qed.

Lemma uvf_ok m t u : face_uvs m t = Ok u -> uvf m t = u.
Proof. intros H. unfold uvf. rewrite H. reflexivity. Qed.

Lemma faces_bin_closed e m : (has_tex m = true -> tex_ok m) ->
  mapR (face_bin_rec e m) (faces_of m)
  = Ok (if has_tex m then map (rec_tex e) (fts_of m) else map (rec_notex e) (faces_of m)).
Proof.
  intros Hx. destruct (has_tex m) eqn:E.
  - unfold fts_of. rewrite map_map. apply mapR_ok. intros t Ht. destruct (Hx eq_refl t Ht) as (u & U & _).
    rewrite (uvf_ok m t u U). apply face_bin_rec_tex; assumption.
  - apply mapR_ok. intros t _. apply face_bin_rec_notex. exact E.
Qed.
Lemma faces_ascii_closed m : (has_tex m = true -> tex_ok m) ->
  mapR (face_ascii_line m) (faces_of m)
  = Ok (if has_tex m then map line_tex (fts_of m) else map line_notex (faces_of m)).
Proof.
  intros Hx. destruct (has_tex m) eqn:E.
  - unfold fts_of. rewrite map_map. apply mapR_ok. intros t Ht. destruct (Hx eq_refl t Ht) as (u & U & _).
    rewrite (uvf_ok m t u U). apply face_ascii_line_tex; assumption.
  - apply mapR_ok. intros t _. apply face_ascii_line_notex. exact E.
Qed.

Theorem write_body_closed f gs m : Forall (group_good (w_n m)) gs -> (f = ASCII -> w_n m = 0%nat \/ gs <> []) ->
  (w_topo m = TTriangle -> (List.length (w_idx m) mod 3 = 0)%nat) -> (has_tex m = true -> tex_ok m) ->
  write_body f gs m = Ok (closed_body f gs m).
Proof.
  intros Hg Hne Hm Hx. unfold write_body. fold (faces_of m).
  destruct f; cbn [closed_body enc_of].
  - rewrite (write_vertices_ascii_ok (w_n m)) by assumption. cbn [rbind].
    rewrite faces_ascii_closed by assumption. cbn [rbind]. f_equal. f_equal. f_equal.
    destruct gs; [|reflexivity]. destruct (Hne eq_refl) as [->|H]; [reflexivity|congruence].
  - rewrite (write_vertices_bin_ok (w_n m)) by assumption. cbn [rbind].
    replace (match w_topo m with TTriangle => negb (Nat.eqb (List.length (w_idx m) mod 3) 0) | TPoint => false end) with false
      by (destruct (w_topo m); [reflexivity|rewrite Hm by reflexivity; reflexivity]).
    rewrite faces_bin_closed by assumption. cbn [rbind]. rewrite vblock_eq.
    destruct (has_tex m); rewrite <- flat_map_concat_map; reflexivity.
  - rewrite (write_vertices_bin_ok (w_n m)) by assumption. cbn [rbind].
    replace (match w_topo m with TTriangle => negb (Nat.eqb (List.length (w_idx m) mod 3) 0) | TPoint => false end) with false
      by (destruct (w_topo m); [reflexivity|rewrite Hm by reflexivity; reflexivity]).
    rewrite faces_bin_closed by assumption. cbn [rbind]. rewrite vblock_eq.
    destruct (has_tex m); rewrite <- flat_map_concat_map; reflexivity.
Qed.

(* ================= reading the closed-form file ================= *)
Definition is_bin (f : fmt) : bool := match f with ASCII => false | _ => true end.
Definition result_mesh (bin : bool) (gs : list rgroup) (m : wmesh) : result mesh :=
  let attrs := update_mesh (layout bin gs 0) 0 (map (vrow gs) (seq 0 (w_n m))) [] in
  match w_topo m with
  | TPoint => Ok {| m_topo := TPoint; m_idx := iota (w_n m); m_attrs := attrs |}
  | TTriangle =>
      if has_tex m then mesh_of TTriangle (zidx (w_idx m)) (flat_map (fun tu => pairs (map cvF (snd tu))) (fts_of m)) attrs
      else Ok {| m_topo := TTriangle; m_idx := zidx (w_idx m); m_attrs := attrs |}
  end.

Lemma fts_fst m : map fst (fts_of m) = faces_of m.
Proof. unfold fts_of. rewrite map_map. cbn [fst]. apply map_id. Qed.

Theorem read_closed f gs m :
  Forall (group_good (w_n m)) gs -> readers_ok (is_bin f) gs ->
  (f = ASCII -> forallb ascii_ok gs = true /\ (w_n m = 0%nat \/ vertex_props gs <> [])) ->
  (w_topo m = TTriangle -> (List.length (w_idx m) mod 3 = 0)%nat /\ Forall tri_ok (tris (w_idx m))) ->
  (has_tex m = true -> tex_ok m) ->
  read_mesh {| pf_header := header_lines f (header_elems gs m); pf_body := closed_body f gs m |} = result_mesh (is_bin f) gs m.
Proof.
  intros Hg Hr Ha Ht Hx. unfold result_mesh, closed_body.
  destruct (w_topo m) eqn:Et.
  - (* point cloud *)
    unfold fts_of, faces_of. rewrite Et. cbn [map flat_map]. 
    destruct f; cbn [is_bin] in *.
    + destruct (Ha eq_refl) as [A1 A2]. destruct (has_tex m); rewrite app_nil_r; apply read_mesh_pointcloud_ascii; assumption.
    + destruct (has_tex m); rewrite app_nil_r; apply (read_mesh_pointcloud_bin BinLE); try assumption; discriminate.
    + destruct (has_tex m); rewrite app_nil_r; apply (read_mesh_pointcloud_bin BinBE); try assumption; discriminate.
  - destruct (Ht eq_refl) as [Hm Hi].
    assert (Ef : faces_of m = tris (w_idx m)) by (unfold faces_of; rewrite Et; reflexivity).
    destruct (has_tex m) eqn:Ex.
    + assert (Hfst : map fst (fts_of m) = tris (w_idx m)) by (rewrite fts_fst; exact Ef).
      assert (Hftu : Forall ftu_ok (fts_of m)).
      { unfold fts_of. apply Forall_forall. intros tu Htu. apply in_map_iff in Htu. destruct Htu as (t & <- & Hin).
        destruct (Hx eq_refl t Hin) as (u & U & L & W). rewrite (uvf_ok m t u U). split; [|split; assumption].
        cbn [fst]. rewrite Forall_forall in Hi. apply Hi. rewrite <- Ef. exact Hin. }
      destruct f; cbn [is_bin] in *.
      * destruct (Ha eq_refl) as [A1 A2]. apply read_mesh_triangles_tex_ascii; try assumption.
        apply Forall_forall. intros tu Htu. rewrite Forall_forall in Hftu. apply (Hftu tu Htu).
      * apply (read_mesh_triangles_tex_bin BinLE); try assumption; discriminate.
      * apply (read_mesh_triangles_tex_bin BinBE); try assumption; discriminate.
    + rewrite Ef. destruct f; cbn [is_bin] in *.
      * destruct (Ha eq_refl) as [A1 A2]. apply read_mesh_triangles_ascii; assumption.
      * apply (read_mesh_triangles_bin BinLE); try assumption; discriminate.
      * apply (read_mesh_triangles_bin BinBE); try assumption; discriminate.
Qed.

(* ================= user vector attributes: the scalar columns carry the same bytes / tokens ================= *)
Lemma flat_map_map_comp {A B C} (f : B -> list C) (g : A -> B) l : flat_map f (map g l) = flat_map (fun x => f (g x)) l.
Proof. induction l as [|x l IH]; [reflexivity|]. cbn [map flat_map]. rewrite IH. reflexivity. Qed.
Lemma flat_map_single {A B} (f : A -> B) l : flat_map (fun x => [f x]) l = map f l.
Proof. induction l as [|x l IH]; [reflexivity|]. cbn [map flat_map app]. rewrite IH. reflexivity. Qed.
Lemma flat_map_ext_in {A B} (f g : A -> list B) l : (forall x, In x l -> f x = g x) -> flat_map f l = flat_map g l.
Proof. induction l as [|x l IH]; intros H; [reflexivity|]. cbn [flat_map]. rewrite (H x (or_introl eq_refl)), IH; [reflexivity|]. intros y Hy. apply H. right. exact Hy. Qed.
Lemma combine_seq_fst {A B} (h : nat -> B) k : forall a (names : list A), List.length names = k ->
  map (fun p => h (fst p)) (combine (seq a k) names) = map h (seq a k).
Proof. induction k as [|k IH]; intros a [|x names] H; try discriminate; [reflexivity|]. cbn [seq combine map fst]. rewrite IH by (cbn in H; lia). reflexivity. Qed.
Lemma combine_seq_snd {A} k : forall a (names : list A), List.length names = k -> map snd (combine (seq a k) names) = names.
Proof. induction k as [|k IH]; intros a [|x names] H; try discriminate; [reflexivity|]. cbn [seq combine map snd]. rewrite IH by (cbn in H; lia). reflexivity. Qed.

Definition col_group (g : rgroup) (p : nat * string) : rgroup :=
  {| rg_attr := snd p; rg_names := [snd p]; rg_ty := rg_ty g; rg_rows := map (fun r => [nth (fst p) r 0]) (rg_rows g) |}.
Lemma split_group_cols g : split_group g = map (col_group g) (combine (seq 0 (List.length (rg_names g))) (rg_names g)).
Proof. unfold split_group. apply map_ext. intros [j n]. reflexivity. Qed.

Lemma split_props g : vertex_props (split_group g) = group_props g.
Proof.
  rewrite split_group_cols. unfold vertex_props. rewrite flat_map_map_comp.
  change (fun x => group_props (col_group g x)) with (fun x : nat * string => [PScalar (rg_ty g) (snd x)]).
  rewrite flat_map_single. rewrite <- (map_map snd (PScalar (rg_ty g))). rewrite combine_seq_snd by reflexivity. reflexivity.
Qed.

Lemma rowi_col n g p i : List.length (rg_rows g) = n -> (i < n)%nat -> rowi (col_group g p) i = [nth (fst p) (rowi g i) 0].
Proof.
  intros Hl Hi. unfold rowi. cbn [col_group rg_rows].
  destruct (nth_error (rg_rows g) i) as [r|] eqn:E; [|apply nth_error_None in E; lia].
  rewrite (nth_error_nth _ _ _ (map_nth_error (fun r => [nth (fst p) r 0]) _ _ E)). rewrite (nth_error_nth _ _ _ E). reflexivity.
Qed.

Lemma split_words n g i : group_good n g -> (i < n)%nat ->
  flat_map (fun g' => gwords g' i) (split_group g) = gwords g i /\ flat_map (fun g' => gtoks g' i) (split_group g) = gtoks g i.
Proof.
  intros G Hi. destruct (rowi_good n g i G Hi) as [_ (Hl & _)]. destruct G as (_ & Hn & _).
  rewrite split_group_cols, !flat_map_map_comp. unfold gwords, gtoks.
  split.
  - rewrite (flat_map_ext_in _ (fun p => [(rg_ty g, sw (rg_ty g) (nth (fst p) (rowi g i) 0))])).
    2:{ intros p _. rewrite (rowi_col n) by assumption. reflexivity. }
    rewrite flat_map_single. rewrite (combine_seq_fst (fun j => (rg_ty g, sw (rg_ty g) (nth j (rowi g i) 0)))) by reflexivity.
    rewrite <- Hl. rewrite <- (map_map (fun j => nth j (rowi g i) 0) (fun w => (rg_ty g, sw (rg_ty g) w))). rewrite map_nth_seq. reflexivity.
  - rewrite (flat_map_ext_in _ (fun p => [tk (rg_ty g) (nth (fst p) (rowi g i) 0)])).
    2:{ intros p _. rewrite (rowi_col n) by assumption. reflexivity. }
    rewrite flat_map_single. rewrite (combine_seq_fst (fun j => tk (rg_ty g) (nth j (rowi g i) 0))) by reflexivity.
    rewrite <- Hl. rewrite <- (map_map (fun j => nth j (rowi g i) 0) (tk (rg_ty g))). rewrite map_nth_seq. reflexivity.
Qed.

Lemma split_good n g : group_good n g -> Forall (group_good n) (split_group g).
Proof.
  intros (Ht & Hn & Hr). rewrite split_group_cols. apply Forall_forall. intros g' Hg'. apply in_map_iff in Hg'.
  destruct Hg' as (p & <- & Hp). split; [exact Ht|]. split; [cbn [col_group rg_rows]; rewrite map_length; exact Hn|].
  cbn [col_group rg_rows]. apply Forall_forall. intros r' Hr'. apply in_map_iff in Hr'. destruct Hr' as (r & <- & Hin).
  rewrite Forall_forall in Hr. destruct (Hr r Hin) as (Hl & Hw).
  split; [reflexivity|]. constructor; [|constructor]. cbn [col_group rg_ty].
  rewrite Forall_forall in Hw. apply Hw. apply nth_In. rewrite Hl.
  destruct p as [j nm]. cbn [fst]. apply in_combine_l in Hp. apply in_seq in Hp. lia.
Qed.

(* lifted to a writer table: [rview_of] keeps recognised groups and splits the others *)
Lemma rview_same n m ws : Forall (group_good n) (map (group_of m) ws) ->
  vertex_props (flat_map (rview_of m) ws) = vertex_props (map (group_of m) ws) /\
  Forall (group_good n) (flat_map (rview_of m) ws) /\
  forall i, (i < n)%nat ->
    flat_map (fun g => gwords g i) (flat_map (rview_of m) ws) = flat_map (fun g => gwords g i) (map (group_of m) ws) /\
    flat_map (fun g => gtoks g i) (flat_map (rview_of m) ws) = flat_map (fun g => gtoks g i) (map (group_of m) ws).
Proof.
  induction ws as [|w ws IH]; intros Hg.
  - split; [reflexivity|]. split; [constructor|]. intros i _. split; reflexivity.
  - cbn [map] in Hg. apply Forall_cons_iff in Hg. destruct Hg as [G Hg]. destruct (IH Hg) as (P & Gd & Wd).
    cbn [map flat_map]. change (rview_of m w) with (if is_default_writer w then [group_of m w] else split_group (group_of m w)).
    destruct (is_default_writer w).
    + cbn [app]. split; [|split].
      * unfold vertex_props in *. cbn [flat_map]. rewrite P. reflexivity.
      * constructor; assumption.
      * intros i Hi. destruct (Wd i Hi) as [W1 W2]. cbn [flat_map]. rewrite W1, W2. split; reflexivity.
    + split; [|split].
      * rewrite vertex_props_app, split_props, P. reflexivity.
      * apply Forall_app. split; [apply split_good; exact G|exact Gd].
      * intros i Hi. destruct (Wd i Hi) as [W1 W2]. destruct (split_words n _ i G Hi) as [S1 S2].
        rewrite !flat_map_app. cbn [flat_map]. rewrite W1, W2, S1, S2. split; reflexivity.
Qed.

Lemma closed_same f m gs gs' : vertex_props gs = vertex_props gs' ->
  (forall i, (i < w_n m)%nat -> flat_map (fun g => gwords g i) gs = flat_map (fun g => gwords g i) gs' /\
                                 flat_map (fun g => gtoks g i) gs = flat_map (fun g => gtoks g i) gs') ->
  header_lines f (header_elems gs m) = header_lines f (header_elems gs' m) /\ closed_body f gs m = closed_body f gs' m.
Proof.
  intros P W. split; [unfold header_elems; rewrite P; reflexivity|].
  assert (Eb : forall e, flat_map (fun i => flat_map (fun g => genc e g i) gs) (seq 0 (w_n m))
                       = flat_map (fun i => flat_map (fun g => genc e g i) gs') (seq 0 (w_n m))).
  { intros e. apply flat_map_ext_in. intros i Hi. apply in_seq in Hi. rewrite <- !enc_words_flat. destruct (W i ltac:(lia)) as [-> _]. reflexivity. }
  assert (Ea : map (fun i => flat_map (fun g => gtoks g i) gs) (seq 0 (w_n m)) = map (fun i => flat_map (fun g => gtoks g i) gs') (seq 0 (w_n m))).
  { apply map_ext_in. intros i Hi. apply in_seq in Hi. destruct (W i ltac:(lia)) as [_ ->]. reflexivity. }
  unfold closed_body. destruct f; rewrite ?Ea, ?Eb; reflexivity.
Qed.

(* ================= [expected] is the mesh the reader model returns ================= *)
Lemma rgroup_attr_ok n g : group_good n g -> rgroup_attr g = Ok (gattr g).
Proof.
  intros (_ & _ & Hr). unfold rgroup_attr, gattr.
  rewrite (mapR_ok _ (map (vl (rg_ty g)))); [reflexivity|].
  intros r Hin. rewrite Forall_forall in Hr. destruct (Hr r Hin) as (_ & Hw). apply mapR_ok. intros w Hw'.
  rewrite Forall_forall in Hw. destruct (Hw w Hw') as (_ & v & V). unfold vl. rewrite V. reflexivity.
Qed.

Lemma pairs_app6 (u rest : list N) : List.length u = 6%nat -> pairs (map cvF (u ++ rest)) = pairs (map cvF u) ++ pairs (map cvF rest).
Proof. intros H. destruct u as [|u0 [|u1 [|u2 [|u3 [|u4 [|u5 [|]]]]]]]; try discriminate. reflexivity. Qed.
Lemma pairs_len6 (u : list N) : List.length u = 6%nat -> List.length (pairs (map cvF u)) = 3%nat.
Proof. intros H. destruct u as [|u0 [|u1 [|u2 [|u3 [|u4 [|u5 [|]]]]]]]; try discriminate. reflexivity. Qed.

Definition uvs_ok (m : wmesh) (ts : list (nat * nat * nat)) : Prop :=
  forall t, In t ts -> exists u, face_uvs m t = Ok u /\ List.length u = 6%nat /\ Forall word32 u.
Lemma uv_len m ts : uvs_ok m ts ->
  List.length (flat_map (fun tu => pairs (map cvF (snd tu))) (map (fun t => (t, uvf m t)) ts)) = (3 * List.length ts)%nat.
Proof.
  induction ts as [|t ts IH]; intros Hx; [reflexivity|]. cbn [map flat_map snd List.length]. rewrite app_length.
  destruct (Hx t (or_introl eq_refl)) as (u & U & L & _). rewrite (uvf_ok m t u U), (pairs_len6 u L).
  rewrite IH by (intros t' Ht'; apply Hx; right; exact Ht'). lia.
Qed.
Lemma uv_concat m ts : uvs_ok m ts ->
  pairs (map cvF (List.concat (map (uvf m) ts))) = flat_map (fun tu => pairs (map cvF (snd tu))) (map (fun t => (t, uvf m t)) ts).
Proof.
  induction ts as [|t ts IH]; intros Hx; [reflexivity|]. cbn [map List.concat flat_map snd].
  destruct (Hx t (or_introl eq_refl)) as (u & U & L & _). rewrite (uvf_ok m t u U). rewrite (pairs_app6 u _ L).
  rewrite IH by (intros t' Ht'; apply Hx; right; exact Ht'). reflexivity.
Qed.
Lemma tri_flat_len (l : list (nat * nat * nat)) : List.length (flat_map (fun '(a, b, c) => [a; b; c]) l) = (3 * List.length l)%nat.
Proof. induction l as [|[[a b] c] l IH]; [reflexivity|]. cbn [flat_map List.length app]. rewrite IH. lia. Qed.

Theorem expected_result o m bin : let gs := rview o m in
  Forall (group_good (w_n m)) gs -> keys_ok [] gs = true -> (w_n m = 0%nat -> gs = []) ->
  (w_topo m = TTriangle -> (List.length (w_idx m) mod 3 = 0)%nat) -> (has_tex m = true -> tex_ok m) ->
  expected o m = result_mesh bin gs m.
Proof.
  intros gs Hg Hk H0 Hm Hx. unfold expected, result_mesh. fold gs.
  rewrite (mapR_ok _ gattr) by (intros g Hin; rewrite Forall_forall in Hg; apply (rgroup_attr_ok (w_n m)), Hg, Hin).
  cbn [rbind].
  assert (Ea : update_mesh (layout bin gs 0) 0 (map (vrow gs) (seq 0 (w_n m))) [] = map gattr gs).
  { destruct (w_n m) as [|n'] eqn:En.
    - rewrite (H0 eq_refl). reflexivity.
    - apply attrs_of_layout; [lia| |exact Hk]. eapply Forall_impl; [|exact Hg]. intros g (_ & L & _). exact L. }
  rewrite Ea. destruct (w_topo m) eqn:Et; [reflexivity|].
  destruct (has_tex m) eqn:Ex; cbn [andb]; [|reflexivity].
  specialize (Hm eq_refl). specialize (Hx eq_refl).
  destruct (tris_spec (List.length (w_idx m)) (w_idx m) (le_n _) Hm) as [Ef El].
  assert (Efa : faces_of m = tris (w_idx m)) by (unfold faces_of; rewrite Et; reflexivity).
  unfold nprims. rewrite Et, <- El.
  assert (Hu : uvs_ok m (tris (w_idx m))) by (intros t Ht; apply Hx; rewrite Efa; exact Ht).
  assert (Lu : List.length (flat_map (fun tu => pairs (map cvF (snd tu))) (fts_of m)) = (3 * List.length (tris (w_idx m)))%nat)
    by (unfold fts_of; rewrite Efa; apply uv_len, Hu).
  assert (Li : List.length (zidx (w_idx m)) = (3 * List.length (tris (w_idx m)))%nat)
    by (unfold zidx; rewrite map_length; rewrite <- Ef at 1; apply tri_flat_len).
  unfold mesh_of. rewrite Lu, Li.
  destruct (List.length (tris (w_idx m))) as [|k] eqn:Ek.
  - cbn [Nat.eqb negb Nat.mul]. reflexivity.
  - replace (negb (Nat.eqb (S k) 0)) with true by reflexivity. replace (negb (Nat.eqb (3 * S k) 0)) with true by (cbn; reflexivity).
    rewrite Nat.eqb_refl. cbn [andb].
    rewrite (mapR_ok _ (uvf m)).
    2:{ intros t Ht. destruct (Hx t ltac:(rewrite Efa; exact Ht)) as (u & U & _). rewrite (uvf_ok m t u U). exact U. }
    cbn [rbind].
    assert (Eu : pairs (map cvF (List.concat (map (uvf m) (tris (w_idx m))))) = flat_map (fun tu => pairs (map cvF (snd tu))) (fts_of m))
      by (unfold fts_of; rewrite Efa; apply uv_concat, Hu).
    rewrite Eu. reflexivity.
Qed.

(* ================= the whole-file statement, for any writer table whose readers are the laid-out ones ================= *)
Theorem write_read_expected o f m :
  let gw := map (group_of m) (effective_writers o m) in
  let gr := rview o m in
  Forall (group_good (w_n m)) gw -> readers_ok (is_bin f) gr -> keys_ok [] gr = true ->
  (w_n m = 0%nat -> effective_writers o m = []) ->
  (f = ASCII -> forallb ascii_ok gr = true /\ (w_n m = 0%nat \/ vertex_props gr <> [])) ->
  (w_topo m = TTriangle -> (List.length (w_idx m) mod 3 = 0)%nat /\ Forall tri_ok (tris (w_idx m))) ->
  (has_tex m = true -> tex_ok m) ->
  exists file, write o f m = Ok file /\ read_mesh file = expected o m.
Proof.
  intros gw gr Hg Hr Hk H0 Ha Ht Hx.
  destruct (rview_same (w_n m) m (effective_writers o m) Hg) as (P & Gd & Wd). fold gw in P, Wd. unfold rview in gr. fold gr in P, Gd, Wd.
  destruct (closed_same f m gr gw P Wd) as [Eh Eb].
  exists {| pf_header := header_lines f (header_elems gw m); pf_body := closed_body f gw m |}. split.
  - unfold write. fold gw. rewrite write_body_closed; [reflexivity|exact Hg| |intros T; apply (Ht T)|exact Hx].
    intros ->. destruct (Ha eq_refl) as [_ [E|E]]; [left; exact E|right]. intros Hnil. apply E. rewrite P, Hnil. reflexivity.
  - rewrite <- Eh, <- Eb. rewrite read_closed; try assumption.
    symmetry. apply (expected_result o m (is_bin f)); try assumption.
    + intros E0. unfold rview. rewrite (H0 E0). reflexivity.
    + intros T. apply (Ht T).
Qed.

(* ================= ply.Write's table on a well-formed mesh: the side conditions hold ================= *)
Lemma seqb_eq a b : seqb a b = true -> a = b.
Proof. unfold seqb. apply String.eqb_eq. Qed.

Lemma is_attr_prop d a x : is_attr d a x = true -> wa_dim x = d /\ wa_name x = a.
Proof. unfold is_attr. intros H. apply andb_prop in H. destruct H as [H1 H2]. split; [apply Nat.eqb_eq, H1|apply seqb_eq, H2]. Qed.
Lemma is_attr_self x : is_attr (wa_dim x) (wa_name x) x = true.
Proof. unfold is_attr. rewrite Nat.eqb_refl, seqb_refl. reflexivity. Qed.

Lemma attr_rows_found m d a : has_attr m d a = true ->
  exists x, In x (w_attrs m) /\ wa_dim x = d /\ wa_name x = a /\ attr_rows m d a = wa_rows x.
Proof.
  unfold has_attr, attr_rows. intros H. destruct (find (is_attr d a) (w_attrs m)) as [x|] eqn:E.
  - apply find_some in E. destruct E as [Hin Hx]. destruct (is_attr_prop _ _ _ Hx) as [Hd Ha]. exists x. auto.
  - apply existsb_exists in H. destruct H as (x & Hin & Hx). rewrite (find_none _ _ E x Hin) in Hx. discriminate.
Qed.

Definition row_ok (d : nat) (r : list N) : Prop := List.length r = d /\ Forall word32 r.
Lemma wf_attr_prop n x : wf_attr n x = true ->
  (1 <= wa_dim x <= 4)%nat /\ List.length (wa_rows x) = n /\ Forall (row_ok (wa_dim x)) (wa_rows x) /\
  (is_attr 3 "Color" x = true -> Forall (Forall (fun w => unit_okb w = true)) (wa_rows x)).
Proof.
  unfold wf_attr. intros H. repeat (apply andb_prop in H; destruct H as [H ?]).
  split; [split; [apply Nat.leb_le, H|apply Nat.leb_le; assumption]|].
  split; [apply Nat.eqb_eq; assumption|]. split.
  - apply Forall_forall. intros r Hr. rewrite forallb_forall in H1. specialize (H1 r Hr). unfold row_okb in H1.
    apply andb_prop in H1. destruct H1 as [L W]. split; [apply Nat.eqb_eq, L|].
    apply Forall_forall. intros w Hw. rewrite forallb_forall in W. specialize (W w Hw). unfold word32b in W. apply N.ltb_lt in W. exact W.
  - intros C. rewrite C in H0. apply Forall_forall. intros r Hr. rewrite forallb_forall in H0. specialize (H0 r Hr).
    apply Forall_forall. intros w Hw. rewrite forallb_forall in H0. apply H0, Hw.
Qed.

Lemma good_float w : word32 w -> good Float w /\ exists v, val Float w = Ok v.
Proof.
  intros H. split; [exists w; split; [reflexivity|unfold word_fits; cbn; unfold word32 in H; lia]|eexists; reflexivity].
Qed.
Lemma div255_byte_ok b : b <= 255 -> exists v, div255_byte b = Ok v.
Proof.
  intros H. unfold div255_byte. destruct (nth_error div255_tab (N.to_nat b)) as [v|] eqn:E; [eexists; reflexivity|].
  apply nth_error_None in E. assert (L : List.length div255_tab = 256%nat) by (vm_compute; reflexivity). lia.
Qed.
Lemma good_uchar w : unit_okb w = true -> good UChar w /\ exists v, val UChar w = Ok v.
Proof.
  unfold unit_okb. destruct (q255 w) as [b|] eqn:E; [|discriminate]. intros _. pose proof (q255_le w b E) as Hb. split.
  - exists b. split; [exact E|unfold word_fits; cbn; lia].
  - cbn [val]. rewrite E. cbn [rbind]. apply div255_byte_ok, Hb.
Qed.

Definition pw_ok (w : pw) : Prop :=
  List.length (pw_names w) = pw_dim w /\ (pw_ty w = Float \/ (pw_ty w = UChar /\ pw_dim w = 3%nat /\ pw_attr w = "Color"%string)).

Lemma group_good_of m w : (forall x, In x (w_attrs m) -> wf_attr (w_n m) x = true) ->
  has_attr m (pw_dim w) (pw_attr w) = true -> pw_ok w -> group_good (w_n m) (group_of m w).
Proof.
  intros Hwf Hh (Hl & Hty). destruct (attr_rows_found m _ _ Hh) as (x & Hin & Hd & Ha & Er).
  destruct (wf_attr_prop _ _ (Hwf x Hin)) as (_ & Hn & Hr & Hc).
  unfold group_good. cbn [group_of rg_ty rg_rows rg_names]. rewrite Er.
  split; [destruct Hty as [->|(-> & _)]; reflexivity|]. split; [exact Hn|].
  apply Forall_forall. intros r Hrin. rewrite Forall_forall in Hr. destruct (Hr r Hrin) as [Lr Wr].
  unfold row_good. cbn [group_of rg_names rg_ty]. split; [rewrite Hl, <- Hd; exact Lr|].
  apply Forall_forall. intros w' Hw'. destruct Hty as [->|(-> & D3 & AC)].
  - apply good_float. rewrite Forall_forall in Wr. apply Wr, Hw'.
  - apply good_uchar. assert (C : is_attr 3 "Color" x = true) by (unfold is_attr; rewrite Hd, D3, Ha, AC; reflexivity).
    specialize (Hc C). rewrite Forall_forall in Hc. specialize (Hc r Hrin). rewrite Forall_forall in Hc. apply Hc, Hw'.
Qed.

Lemma default_writers_ok : Forall pw_ok default_writers.
Proof.
  unfold default_writers, pw_ok.
  repeat (apply Forall_cons; [split; [reflexivity|first [left; reflexivity|right; repeat split; reflexivity]]|]). apply Forall_nil.
Qed.
Lemma default_writers_default : forall w, In w default_writers -> is_default_writer w = true.
Proof.
  assert (A : forallb is_default_writer default_writers = true) by (vm_compute; reflexivity).
  rewrite forallb_forall in A. exact A.
Qed.

Definition tex_pw : pw := PW 2 "TexCoord" ["s"; "t"]%string Float.
Lemma unspec_in m cl d w : In w (unspec_of_dim m cl d) ->
  exists x, In x (w_attrs m) /\ wa_dim x = d /\ claimed cl d (wa_name x) = false /\
    ((w_topo m = TPoint /\ d = 2%nat /\ wa_name x = "TexCoord"%string /\ w = tex_pw) \/
     ((Nat.eqb d 2 && seqb (wa_name x) "TexCoord") = false /\ w = PW d (wa_name x) (unspec_names d (wa_name x)) Float)).
Proof.
  unfold unspec_of_dim. intros H. apply in_flat_map in H. destruct H as (x & Hin & Hw). exists x. split; [exact Hin|].
  destruct (Nat.eqb (wa_dim x) d) eqn:Ed; cbn [andb] in Hw; [|destruct Hw]. apply Nat.eqb_eq in Ed.
  destruct (claimed cl d (wa_name x)) eqn:Ec; cbn [negb] in Hw; [destruct Hw|].
  split; [exact Ed|]. split; [reflexivity|].
  destruct (Nat.eqb d 2 && seqb (wa_name x) "TexCoord") eqn:Et.
  - apply andb_prop in Et. destruct Et as [E2 En]. apply Nat.eqb_eq in E2. apply seqb_eq in En.
    destruct (w_topo m); [|destruct Hw]. destruct Hw as [<-|[]]. left. auto.
  - destruct Hw as [<-|[]]. right. auto.
Qed.

Lemma unspec_names_length d a : (1 <= d <= 4)%nat -> List.length (unspec_names d a) = d.
Proof. intros H. destruct d as [|[|[|[|[|]]]]]; try lia; reflexivity. Qed.

Lemma has_attr_in m x : In x (w_attrs m) -> has_attr m (wa_dim x) (wa_name x) = true.
Proof. intros H. unfold has_attr. apply existsb_exists. exists x. split; [exact H|apply is_attr_self]. Qed.

Lemma unspec_good m cl d w : (forall x, In x (w_attrs m) -> wf_attr (w_n m) x = true) ->
  In w (unspec_of_dim m cl d) -> group_good (w_n m) (group_of m w).
Proof.
  intros Hwf H. destruct (unspec_in m cl d w H) as (x & Hin & Hd & _ & [(Tp & D2 & Nm & ->)|(_ & ->)]).
  - apply group_good_of; [exact Hwf| |split; [reflexivity|left; reflexivity]].
    cbn [tex_pw PW pw_dim pw_attr]. rewrite <- D2, <- Hd, <- Nm. apply has_attr_in, Hin.
  - apply group_good_of; [exact Hwf| |].
    + cbn [PW pw_dim pw_attr]. rewrite <- Hd. apply has_attr_in, Hin.
    + split; [|left; reflexivity]. cbn [PW pw_names pw_dim]. apply unspec_names_length. rewrite <- Hd.
      apply (wf_attr_prop _ _ (Hwf x Hin)).
Qed.

Lemma effective_good o m : o_writers o = default_writers -> (forall x, In x (w_attrs m) -> wf_attr (w_n m) x = true) ->
  Forall (group_good (w_n m)) (map (group_of m) (effective_writers o m)).
Proof.
  intros Ho Hwf. unfold effective_writers. rewrite Ho.
  assert (Hq : Forall (group_good (w_n m)) (map (group_of m) (filter (qualifies m) default_writers))).
  { apply Forall_forall. intros g Hg. apply in_map_iff in Hg. destruct Hg as (w & <- & Hw). apply filter_In in Hw. destruct Hw as [Hw Hq].
    apply group_good_of; [exact Hwf|exact Hq|]. pose proof default_writers_ok as D. rewrite Forall_forall in D. apply D, Hw. }
  destruct (o_unspec o); [|exact Hq]. rewrite map_app. apply Forall_app. split; [exact Hq|].
  apply Forall_forall. intros g Hg. apply in_map_iff in Hg. destruct Hg as (w & <- & Hw). apply in_flat_map in Hw.
  destruct Hw as (d & _ & Hw). eapply unspec_good; eassumption.
Qed.

(* ---------- the reader's view of the effective writers ---------- *)
Lemma claimed_filter m ws d a : has_attr m d a = true -> claimed (filter (qualifies m) ws) d a = claimed ws d a.
Proof.
  intros H. unfold claimed. induction ws as [|w ws IH]; [reflexivity|]. cbn [filter existsb].
  destruct (Nat.eqb (pw_dim w) d && seqb (pw_attr w) a) eqn:E.
  - assert (Hq : qualifies m w = true).
    { pose proof E as E'. apply andb_prop in E'. destruct E' as [E1 E2]. apply Nat.eqb_eq in E1. apply seqb_eq in E2.
      unfold qualifies. rewrite E1, E2. exact H. }
    rewrite Hq. cbn [existsb]. rewrite E. reflexivity.
  - cbn [orb]. destruct (qualifies m w); [cbn [existsb]; rewrite E|]; exact IH.
Qed.

Lemma rview_default m l : (forall w, In w l -> is_default_writer w = true) -> flat_map (rview_of m) l = map (group_of m) l.
Proof.
  induction l as [|w l IH]; intros H; [reflexivity|]. cbn [flat_map map]. unfold rview_of at 1.
  rewrite (H w (or_introl eq_refl)). cbn [app]. rewrite IH by (intros w' Hw'; apply H; right; exact Hw'). reflexivity.
Qed.
Lemma rview_user m l : (forall w, In w l -> is_default_writer w = false) ->
  flat_map (rview_of m) l = flat_map (fun w => split_group (group_of m w)) l.
Proof.
  intros H. apply flat_map_ext_in. intros w Hw. unfold rview_of. rewrite (H w Hw). reflexivity.
Qed.

Definition qd (m : wmesh) : list pw := filter (qualifies m) default_writers.
Definition ud (m : wmesh) : list pw := flat_map (unspec_of_dim m (qd m)) [4; 3; 2; 1]%nat.
(* no per-vertex s/t texture coordinates (the reader would place their reader before the splat groups) *)
Definition no_st (m : wmesh) : Prop := w_topo m = TTriangle \/ has_tex m = false.

Lemma ud_user m : no_st m -> forall w, In w (ud m) -> is_default_writer w = false.
Proof.
  intros C w Hw. unfold ud in Hw. apply in_flat_map in Hw. destruct Hw as (d & _ & Hw).
  destruct (unspec_in m (qd m) d w Hw) as (x & Hin & Hd & Hc & [(Tp & D2 & Nm & _)|(Ht & ->)]).
  - exfalso. destruct C as [C|C]; [congruence|]. unfold has_tex in C.
    pose proof (has_attr_in m x Hin) as Hh. rewrite Hd, D2, Nm in Hh. congruence.
  - assert (Hh : has_attr m d (wa_name x) = true) by (rewrite <- Hd; apply has_attr_in, Hin).
    unfold qd in Hc. rewrite (claimed_filter m default_writers d (wa_name x) Hh) in Hc.
    change (is_default_writer (PW d (wa_name x) (unspec_names d (wa_name x)) Float))
      with (claimed default_writers d (wa_name x) || (Nat.eqb d 2 && seqb (wa_name x) "TexCoord")).
    rewrite Hc, Ht. reflexivity.
Qed.

Definition tail_of (m : wmesh) (l : list pw) : list rgroup := flat_map (fun w => split_group (group_of m w)) l.
Lemma rview_shape o m : o_writers o = default_writers -> no_st m ->
  rview o m = map (group_of m) (qd m) ++ tail_of m (if o_unspec o then ud m else []).
Proof.
  intros Ho C. unfold rview, effective_writers. rewrite Ho. fold (qd m).
  assert (Eq : flat_map (rview_of m) (qd m) = map (group_of m) (qd m)).
  { apply rview_default. intros w Hw. apply filter_In in Hw. apply default_writers_default, Hw. }
  destruct (o_unspec o).
  - fold (ud m). rewrite flat_map_app, Eq. rewrite (rview_user m (ud m) (ud_user m C)). reflexivity.
  - rewrite Eq. unfold tail_of. cbn [flat_map]. rewrite app_nil_r. reflexivity.
Qed.

Lemma split_scalar g : Forall scalar_group (split_group g).
Proof. rewrite split_group_cols. apply Forall_forall. intros g' H. apply in_map_iff in H. destruct H as (p & <- & _). reflexivity. Qed.
Lemma split_attrs g : map rg_attr (split_group g) = rg_names g.
Proof. rewrite split_group_cols, map_map. cbn [col_group rg_attr]. apply combine_seq_snd. reflexivity. Qed.
Lemma tail_scalar m l : Forall scalar_group (tail_of m l).
Proof. unfold tail_of. induction l as [|w l IH]; [constructor|]. cbn [flat_map]. apply Forall_app. split; [apply split_scalar|exact IH]. Qed.
Lemma tail_attrs m l : map rg_attr (tail_of m l) = flat_map pw_names l.
Proof. unfold tail_of. induction l as [|w l IH]; [reflexivity|]. cbn [flat_map]. rewrite map_app, split_attrs, IH. reflexivity. Qed.
Lemma tail_ty m l g : (forall w, In w l -> pw_ty w = Float) -> In g (tail_of m l) -> rg_ty g = Float.
Proof.
  intros H Hg. unfold tail_of in Hg. apply in_flat_map in Hg. destruct Hg as (w & Hw & Hg). rewrite split_group_cols in Hg.
  apply in_map_iff in Hg. destruct Hg as (p & <- & _). cbn [col_group rg_ty group_of]. apply H, Hw.
Qed.

Lemma user_names_ud m : no_st m -> user_names m = flat_map pw_names (ud m).
Proof.
  intros C. unfold user_names, user_writers. fold (qd m) (ud m). rewrite filter_all; [reflexivity|].
  apply forallb_forall. intros w Hw. rewrite (ud_user m C w Hw). reflexivity.
Qed.

Lemma nodupb_NoDup l : nodupb l = true -> NoDup l.
Proof.
  induction l as [|x l IH]; intros H; [constructor|]. cbn [nodupb] in H. apply andb_prop in H. destruct H as [H1 H2].
  constructor; [|apply IH, H2]. intros Hin. apply Bool.negb_true_iff in H1.
  assert (E : existsb (seqb x) l = true) by (apply existsb_exists; exists x; split; [exact Hin|apply seqb_refl]). congruence.
Qed.
Lemma not_existsb_In n l : negb (existsb (seqb n) l) = true -> ~ In n l.
Proof.
  intros H Hin. apply Bool.negb_true_iff in H.
  assert (E : existsb (seqb n) l = true) by (apply existsb_exists; exists n; split; [exact Hin|apply seqb_refl]). congruence.
Qed.

(* ---------- distinct attribute keys ---------- *)
Lemma keys_ok_app a : forall seen b, keys_ok seen (a ++ b) = keys_ok seen a && keys_ok (seen ++ a) b.
Proof.
  induction a as [|g a IH]; intros seen b.
  - cbn [app keys_ok]. rewrite app_nil_r. reflexivity.
  - cbn [app keys_ok]. rewrite IH. rewrite <- app_assoc. cbn [app]. rewrite andb_assoc. reflexivity.
Qed.

Lemma keys_ok_scalars : forall tail seen, Forall scalar_group tail -> NoDup (map rg_attr tail) ->
  (forall g s, In g tail -> In s seen -> gkey_eqb g (gattr s) = false) -> keys_ok seen tail = true.
Proof.
  induction tail as [|g tail IH]; intros seen Hs Hnd Hk; [reflexivity|].
  apply Forall_cons_iff in Hs. destruct Hs as [Hg Hs]. cbn [map] in Hnd. apply NoDup_cons_iff in Hnd. destruct Hnd as [Hn Hnd].
  cbn [keys_ok]. apply andb_true_intro. split.
  - apply forallb_forall. intros s Hin. rewrite (Hk g s (or_introl eq_refl) Hin). reflexivity.
  - apply IH; try assumption. intros g' s Hg' Hin. apply in_app_or in Hin. destruct Hin as [Hin|[<-|[]]].
    + apply Hk; [right; exact Hg'|exact Hin].
    + unfold gkey_eqb, gattr, key_eqb. rewrite (seqb_neq (rg_attr g') (rg_attr g)); [apply andb_false_r|].
      intros E. apply Hn. rewrite <- E. apply in_map, Hg'.
Qed.

Lemma keys_ok_pregs m (f : pw -> bool) : keys_ok [] (map (group_of m) (filter f default_writers)) = true.
Proof.
  unfold default_writers. cbn [filter].
  destruct (f _), (f _), (f _), (f _), (f _), (f _), (f _); reflexivity.
Qed.

Lemma default_vs_scalar : Forall (fun w => forall n : string, n <> "Opacity"%string ->
                                     Nat.eqb 1 (List.length (pw_names w)) && seqb n (pw_attr w) = false) default_writers.
Proof.
  unfold default_writers. repeat (apply Forall_cons; [intros n Hn; first [reflexivity|cbn; apply seqb_neq, Hn]|]). apply Forall_nil.
Qed.

Lemma pregs_vs_tail m g s : scalar_group g -> rg_attr g <> "Opacity"%string -> In s (map (group_of m) (qd m)) ->
  gkey_eqb g (gattr s) = false.
Proof.
  intros Hg Hn Hs. apply in_map_iff in Hs. destruct Hs as (w & <- & Hw). apply filter_In in Hw. destruct Hw as [Hw _].
  pose proof default_vs_scalar as D. rewrite Forall_forall in D. specialize (D w Hw (rg_attr g) Hn).
  unfold gkey_eqb, gattr, key_eqb. cbn [group_of rg_names rg_attr]. rewrite Hg. exact D.
Qed.

Lemma ascii_ok_pregs m (f : pw -> bool) : forallb ascii_ok (map (group_of m) (filter f default_writers)) = true.
Proof.
  unfold default_writers. cbn [filter].
  destruct (f _), (f _), (f _), (f _), (f _), (f _), (f _); reflexivity.
Qed.

(* ---------- faces of a well-formed triangle mesh ---------- *)
Lemma tris_In l a b c : (List.length l mod 3 = 0)%nat -> In (a, b, c) (tris l) -> In a l /\ In b l /\ In c l.
Proof.
  intros Hm Hin. destruct (tris_spec (List.length l) l (le_n _) Hm) as [Ef _].
  assert (H : forall x, In x [a; b; c] -> In x l).
  { intros x Hx. rewrite <- Ef. apply in_flat_map. exists (a, b, c). split; [exact Hin|exact Hx]. }
  repeat split; apply H; cbn; auto.
Qed.

Lemma uv_at_ok m i : (forall x, In x (w_attrs m) -> wf_attr (w_n m) x = true) -> has_tex m = true -> (i < w_n m)%nat ->
  exists r, uv_at m i = Ok r /\ List.length r = 2%nat /\ Forall word32 r.
Proof.
  intros Hwf Hx Hi. unfold has_tex in Hx. destruct (attr_rows_found m _ _ Hx) as (x & Hin & Hd & _ & Er).
  destruct (wf_attr_prop _ _ (Hwf x Hin)) as (_ & Hn & Hr & _). unfold uv_at. rewrite Er.
  destruct (nth_error (wa_rows x) i) as [r|] eqn:E; [|apply nth_error_None in E; lia].
  exists r. split; [reflexivity|]. rewrite Forall_forall in Hr. destruct (Hr r (nth_error_In _ _ E)) as [L W]. rewrite Hd in L. auto.
Qed.

Lemma firstn2 (r : list N) : List.length r = 2%nat -> firstn 2 r = r.
Proof. destruct r as [|a [|b [|]]]; try discriminate. reflexivity. Qed.

Lemma face_uvs_ok m a b c : (forall x, In x (w_attrs m) -> wf_attr (w_n m) x = true) -> has_tex m = true ->
  (a < w_n m)%nat -> (b < w_n m)%nat -> (c < w_n m)%nat ->
  exists u, face_uvs m (a, b, c) = Ok u /\ List.length u = 6%nat /\ Forall word32 u.
Proof.
  intros Hwf Hx Ha Hb Hc.
  destruct (uv_at_ok m a Hwf Hx Ha) as (ra & Ea & La & Wa). destruct (uv_at_ok m b Hwf Hx Hb) as (rb & Eb & Lb & Wb).
  destruct (uv_at_ok m c Hwf Hx Hc) as (rc & Ec & Lc & Wc).
  unfold face_uvs. rewrite Ea, Eb, Ec. cbn [rbind]. rewrite !firstn2 by assumption. eexists. split; [reflexivity|].
  split; [rewrite !app_length, La, Lb, Lc; reflexivity|]. repeat (apply Forall_app; split); assumption.
Qed.

Lemma ud_float m w : In w (ud m) -> pw_ty w = Float.
Proof.
  intros Hw. unfold ud in Hw. apply in_flat_map in Hw. destruct Hw as (d & _ & Hw).
  destruct (unspec_in m (qd m) d w Hw) as (x & _ & _ & _ & [(_ & _ & _ & ->)|(_ & ->)]); reflexivity.
Qed.

Lemma no_attrs_no_writers o m : o_writers o = default_writers -> w_attrs m = [] -> effective_writers o m = [].
Proof.
  intros Ho E. unfold effective_writers. rewrite Ho.
  assert (Eq : filter (qualifies m) default_writers = []).
  { unfold default_writers. cbn [filter]. unfold qualifies, has_attr. rewrite E. reflexivity. }
  rewrite Eq. destruct (o_unspec o); [|reflexivity]. unfold unspec_of_dim. rewrite E. reflexivity.
Qed.

(* ---------- [expected] is a mesh, not an error ---------- *)
Lemma mapR_map {A B C} (f : B -> result C) (g : A -> B) l : mapR f (map g l) = mapR (fun x => f (g x)) l.
Proof. induction l as [|x l IH]; [reflexivity|]. cbn [map mapR]. rewrite IH. reflexivity. Qed.
Lemma gather_ok {A} (data : list A) (d : A) idx : Forall (fun i => (i < List.length data)%nat) idx ->
  gather data (zidx idx) = Ok (map (fun i => nth i data d) idx).
Proof.
  intros H. unfold gather, zidx. rewrite mapR_map. apply mapR_ok. intros i Hi. rewrite Forall_forall in H. specialize (H i Hi).
  replace (Z.of_nat i <? 0)%Z with false by lia. rewrite Nat2Z.id.
  destruct (nth_error data i) as [x|] eqn:E; [|apply nth_error_None in E; lia]. rewrite (nth_error_nth _ _ _ E). reflexivity.
Qed.
Lemma unweld_ok n gs idx : Forall (fun g => List.length (rg_rows g) = n) gs -> Forall (fun i => (i < n)%nat) idx ->
  exists ua, unweld_attrs (map gattr gs) (zidx idx) = Ok ua.
Proof.
  intros Hl Hi. unfold unweld_attrs. rewrite mapR_map. eexists.
  apply (mapR_ok _ (fun g => (List.length (rg_names g), rg_attr g, map (fun i => nth i (map (map (vl (rg_ty g))) (rg_rows g)) []) idx))).
  intros g Hg. unfold gattr. rewrite (gather_ok _ []); [reflexivity|].
  rewrite map_length. rewrite Forall_forall in Hl. rewrite (Hl g Hg). exact Hi.
Qed.

Theorem result_mesh_ok bin gs m : Forall (group_good (w_n m)) gs -> keys_ok [] gs = true -> (w_n m = 0%nat -> gs = []) ->
  (w_topo m = TTriangle -> Forall (fun i => (i < w_n m)%nat) (w_idx m)) -> exists r, result_mesh bin gs m = Ok r.
Proof.
  intros Hg Hk H0 Hi. unfold result_mesh.
  assert (Hl : Forall (fun g => List.length (rg_rows g) = w_n m) gs) by (eapply Forall_impl; [|exact Hg]; intros g (_ & L & _); exact L).
  assert (Ea : update_mesh (layout bin gs 0) 0 (map (vrow gs) (seq 0 (w_n m))) [] = map gattr gs).
  { destruct (w_n m) as [|n'] eqn:En; [rewrite (H0 eq_refl); reflexivity|apply attrs_of_layout; [lia|exact Hl|exact Hk]]. }
  rewrite Ea. destruct (w_topo m); [eexists; reflexivity|]. destruct (has_tex m); [|eexists; reflexivity].
  unfold mesh_of. destruct (_ && _); [|eexists; reflexivity].
  destruct (unweld_ok (w_n m) gs (w_idx m) Hl (Hi eq_refl)) as (ua & ->). cbn [rbind]. eexists. reflexivity.
Qed.

(* ================= reader construction when user names are members of reader groups ================= *)
(* A reader group is built only when ALL its members are in the file (with one type).  A user-named property that is a
   member of a group some member of which is absent from the file is therefore claimed by no group reader. *)
Lemma seqb_eq0 a b : seqb a b = true -> a = b.
Proof. unfold seqb. apply String.eqb_eq. Qed.
Definition pnames (ps : list prop) : list string := map prop_name ps.

Lemma all_some_none {A} (l : list (option A)) k : nth_error l k = Some None -> all_some l = None.
Proof.
  revert k. induction l as [|x l IH]; intros [|k] H; try discriminate.
  - cbn in H. injection H as ->. reflexivity.
  - cbn in H. destruct x; [cbn [all_some]; rewrite (IH k H); reflexivity|reflexivity].
Qed.

Lemma scan_members_keeps_none m0 name : name <> m0 -> forall ms offs ty cur t k,
  nth_error ms k = Some m0 -> nth_error offs k = Some None ->
  nth_error (fst (scan_members ms offs ty cur t name)) k = Some None.
Proof.
  intros Hn. induction ms as [|m ms IH]; intros offs ty cur t k Hm Ho; [destruct k; discriminate|].
  destruct offs as [|o os]; [destruct k; discriminate|]. cbn [scan_members].
  destruct (seqb name m) eqn:E.
  - destruct k as [|k].
    + cbn in Hm. injection Hm as ->. apply seqb_eq0 in E. contradiction.
    + cbn in Hm, Ho. specialize (IH os (match ty with Some _ => ty | None => Some t end) cur t k Hm Ho).
      destruct (scan_members ms os _ cur t name) as [os' ty'']. exact IH.
  - destruct k as [|k].
    + cbn in Ho. destruct (scan_members ms os ty cur t name) as [os' ty'']. exact Ho.
    + cbn in Hm, Ho. specialize (IH os ty cur t k Hm Ho). destruct (scan_members ms os ty cur t name) as [os' ty'']. exact IH.
Qed.

Lemma scan_props_keeps_none bin m0 ms k : nth_error ms k = Some m0 -> forall ps cur offs ty,
  ~ In m0 (pnames ps) -> nth_error offs k = Some None ->
  match scan_props bin ms ps cur offs ty with Ok (offs', _) => nth_error offs' k = Some None | Err _ => True end.
Proof.
  intros Hm. induction ps as [|p ps IH]; intros cur offs ty Hn Ho; [exact Ho|].
  destruct p as [t n|]; [|exact I]. cbn [scan_props].
  pose proof (scan_members_keeps_none m0 n ltac:(intros E; apply Hn; left; exact E) ms offs ty cur t k Hm Ho) as S.
  destruct (scan_members ms offs ty cur t n) as [offs' ty']. apply IH; [|exact S]. intros H. apply Hn. right. exact H.
Qed.

Lemma build_vec_absent bin attr ms ps m0 : all_scalar ps = true -> In m0 ms -> ~ In m0 (pnames ps) ->
  build_vec bin attr ms ps = Ok None.
Proof.
  intros Hs Hin Hn. apply In_nth_error in Hin. destruct Hin as (k & Hk).
  assert (Ho : nth_error (map (fun _ : string => @None nat) ms) k = Some None) by (rewrite nth_error_map, Hk; reflexivity).
  pose proof (scan_props_keeps_none bin m0 ms k Hk ps 0%nat _ None Hn Ho) as S.
  unfold build_vec.
  assert (Hne : forall cur offs ty, exists r, scan_props bin ms ps cur offs ty = Ok r).
  { clear -Hs. induction ps as [|p ps IH]; intros cur offs ty; [eexists; reflexivity|].
    destruct p as [t n|]; [|discriminate]. cbn [scan_props]. destruct (scan_members ms offs ty cur t n). apply IH. exact Hs. }
  destruct (Hne 0%nat (map (fun _ : string => None) ms) None) as ([offs' ty'] & E). rewrite E in S |- *. cbn [rbind].
  rewrite (all_some_none offs' k S). reflexivity.
Qed.

(* the condition under which group g is not touched by the extra properties T *)
Definition grp_open (ms : list string) (P T : list prop) : Prop :=
  Forall (pname_fresh ms) T \/ exists m0, In m0 ms /\ ~ In m0 (pnames (P ++ T)).
Definition group_open (g : group) (P T : list prop) : Prop :=
  match g_members g with
  | [m0] => Forall (pname_fresh [m0]) T
  | ms => grp_open ms P T /\ (g_ignorable_w g = true -> grp_open (firstn 3 ms) P T)
  end.

Lemma all_scalar_app a b : all_scalar (a ++ b) = all_scalar a && all_scalar b.
Proof. induction a as [|p a IH]; [reflexivity|]. destruct p; [exact IH|reflexivity]. Qed.

Lemma build_vec_open bin attr ms P T : all_scalar (P ++ T) = true -> grp_open ms P T ->
  build_vec bin attr ms (P ++ T) = build_vec bin attr ms P.
Proof.
  intros Hs [Hf|(m0 & Hin & Hab)]; [apply build_vec_app_fresh, Hf|].
  rewrite (build_vec_absent bin attr ms (P ++ T) m0 Hs Hin Hab).
  rewrite all_scalar_app in Hs. apply andb_prop in Hs. destruct Hs as [HsP _].
  rewrite (build_vec_absent bin attr ms P m0 HsP Hin); [reflexivity|].
  intros H. apply Hab. unfold pnames. rewrite map_app. apply in_or_app. left. exact H.
Qed.

Lemma build_group_open bin g P T : all_scalar (P ++ T) = true -> group_open g P T ->
  build_group bin g (P ++ T) = build_group bin g P.
Proof.
  intros Hs Ho. unfold group_open in Ho. unfold build_group. destruct (g_members g) as [|m0 [|m1 ms]] eqn:E.
  - destruct Ho as [O1 O2]. rewrite build_vec_open by assumption.
    destruct (build_vec bin (g_attr g) [] P) as [[b|]|]; cbn [rbind]; try reflexivity.
    destruct (g_ignorable_w g); [|reflexivity]. apply build_vec_open; [assumption|apply O2; reflexivity].
  - unfold build_v1. rewrite find_v1_app_fresh by assumption. reflexivity.
  - destruct Ho as [O1 O2]. rewrite build_vec_open by assumption.
    destruct (build_vec bin (g_attr g) (m0 :: m1 :: ms) P) as [[b|]|]; cbn [rbind]; try reflexivity.
    destruct (g_ignorable_w g); [|reflexivity]. apply build_vec_open; [assumption|apply O2; reflexivity].
Qed.

Lemma build_groups_open bin gs P T : all_scalar (P ++ T) = true -> Forall (fun g => group_open g P T) gs ->
  build_groups bin gs (P ++ T) = build_groups bin gs P.
Proof.
  intros Hs. induction gs as [|g gs IH]; intros H; [reflexivity|]. inversion H as [|? ? Hg Hgs]; subst.
  cbn [build_groups]. rewrite build_group_open by assumption. rewrite IH by assumption. reflexivity.
Qed.

Lemma pnames_props gs : pnames (vertex_props gs) = flat_map rg_names gs.
Proof.
  unfold pnames, vertex_props. induction gs as [|g gs IH]; [reflexivity|]. cbn [flat_map]. rewrite map_app, IH. f_equal.
  unfold group_props. rewrite map_map. cbn [prop_name]. apply map_id.
Qed.
Lemma fresh_of_notin n ps : all_scalar ps = true -> ~ In n (pnames ps) -> Forall (pname_fresh [n]) ps.
Proof.
  induction ps as [|p ps IH]; intros Hs Hn; [constructor|]. destruct p as [t x|]; [|discriminate]. constructor.
  - cbn. intros [E|[]]. apply Hn. left. symmetry. exact E.
  - apply IH; [exact Hs|]. intros H. apply Hn. right. exact H.
Qed.
Lemma claims_layout_notin bin n gs : forall c, ~ In n (flat_map rg_names gs) -> existsb (fun b => claims b n) (layout bin gs c) = false.
Proof.
  induction gs as [|g gs IH]; intros c Hn; [reflexivity|]. cbn [layout existsb flat_map] in *. unfold claims at 1. cbn [b_names].
  rewrite not_In_existsb by (intros H; apply Hn, in_or_app; left; exact H). cbn [orb].
  apply IH. intros H. apply Hn, in_or_app. right. exact H.
Qed.

(* ply.ReadMesh builds exactly the laid-out readers on ply.Write's table followed by user-named scalars, as long as
   these complete no reader group (and are distinct from each other and from the table's own property names) *)
Theorem readers_ok_default_open bin m (sel : pw -> bool) tail :
  let pregs := map (group_of m) (filter sel default_writers) in
  Forall scalar_group tail -> NoDup (map rg_attr tail) ->
  (forall g, In g tail -> ~ In (rg_attr g) (pnames (vertex_props pregs))) ->
  Forall (fun g => group_open g (vertex_props pregs) (vertex_props tail)) default_groups ->
  readers_ok bin (pregs ++ tail).
Proof.
  intros pregs Hs Hnd Hnp Hopen.
  destruct (groups_claimed_default bin m sel) as [B1 B2]. fold pregs in B1, B2.
  unfold readers_ok, build_readers. rewrite vertex_props_app.
  rewrite build_groups_open; [|rewrite <- vertex_props_app; apply all_scalar_props|exact Hopen].
  rewrite B1. cbn [rbind]. rewrite add_unclaimed_claimed by exact B2.
  pose proof (add_unclaimed_tail bin pregs (layout bin pregs 0) tail [] Hs Hnd) as A. cbn [app layout] in A.
  rewrite app_nil_r in A. rewrite A.
  - rewrite layout_app. reflexivity.
  - intros g Hg. apply fresh_of_notin; [apply all_scalar_props|apply Hnp, Hg].
  - intros g Hg. apply claims_layout_notin. rewrite <- pnames_props. apply Hnp, Hg.
Qed.

(* the executable test of [wf_mesh] implies the condition *)
Lemma absentb_notin l n : absentb l n = true -> ~ In n l.
Proof. unfold absentb. apply not_existsb_In. Qed.
Lemma fresh_of_absent ms T : all_scalar T = true -> forallb (absentb ms) (pnames T) = true -> Forall (pname_fresh ms) T.
Proof.
  induction T as [|p T IH]; intros Hs H; [constructor|]. destruct p as [t n|]; [|discriminate].
  cbn [pnames map forallb prop_name] in H. apply andb_prop in H. destruct H as [H1 H2]. constructor; [apply absentb_notin, H1|apply IH; assumption].
Qed.
Lemma grp_openb_open ms P T : all_scalar T = true -> grp_openb ms (pnames P ++ pnames T) (pnames T) = true -> grp_open ms P T.
Proof.
  intros Hs H. unfold grp_openb in H. apply orb_prop in H. destruct H as [H|H].
  - left. apply fresh_of_absent; assumption.
  - right. apply existsb_exists in H. destruct H as (m0 & Hin & Hab). exists m0. split; [exact Hin|].
    unfold pnames. rewrite map_app. apply absentb_notin, Hab.
Qed.
Lemma group_openb_open g P T : all_scalar T = true -> group_openb g (pnames P ++ pnames T) (pnames T) = true -> group_open g P T.
Proof.
  intros Hs H. unfold group_openb in H. unfold group_open. destruct (g_members g) as [|m0 [|m1 ms]].
  - apply andb_prop in H. destruct H as [H1 H2]. split; [apply grp_openb_open; assumption|].
    intros Hi. rewrite Hi in H2. cbn [negb orb] in H2. apply grp_openb_open; assumption.
  - apply fresh_of_absent; assumption.
  - apply andb_prop in H. destruct H as [H1 H2]. split; [apply grp_openb_open; assumption|].
    intros Hi. rewrite Hi in H2. cbn [negb orb] in H2. apply grp_openb_open; assumption.
Qed.
Lemma group_open_nil g P : group_open g P [].
Proof.
  unfold group_open. destruct (g_members g) as [|m0 [|m1 ms]]; try (split; [left; constructor|intros _; left; constructor]). constructor.
Qed.


Lemma NoDup_app_disjoint {A} (a b : list A) : NoDup (a ++ b) -> forall x, In x b -> In x a -> False.
Proof.
  induction a as [|y a IH]; intros H x Hb Ha; [destruct Ha|]. cbn [app] in H. apply NoDup_cons_iff in H. destruct H as [Hn H].
  destruct Ha as [->|Ha]; [apply Hn, in_or_app; right; exact Hb|apply (IH H x Hb Ha)].
Qed.
Lemma NoDup_app_tail {A} (a b : list A) : NoDup (a ++ b) -> NoDup b.
Proof. induction a as [|y a IH]; intros H; [exact H|]. cbn [app] in H. apply NoDup_cons_iff in H. apply IH, H. Qed.
Lemma scalar_names gs : Forall scalar_group gs -> flat_map rg_names gs = map rg_attr gs.
Proof. induction gs as [|g gs IH]; intros H; [reflexivity|]. inversion H as [|? ? Hg Hgs]; subst. cbn [flat_map map]. rewrite Hg, IH by assumption. reflexivity. Qed.
Lemma pnames_pregs m : pnames (vertex_props (map (group_of m) (qd m))) = default_prop_names m.
Proof. rewrite pnames_props, flat_map_map_comp. reflexivity. Qed.
Lemma pnames_tail m l : pnames (vertex_props (tail_of m l)) = flat_map pw_names l.
Proof. rewrite pnames_props, (scalar_names _ (tail_scalar m l)). apply tail_attrs. Qed.

(* ================= the whole-file statement for ply.Write's table ================= *)
Lemma default_conditions o f m : o_writers o = default_writers -> wf_mesh m = true -> no_st m ->
  (f = ASCII -> w_n m = 0%nat \/ vertex_props (rview o m) <> []) ->
  Forall (group_good (w_n m)) (map (group_of m) (effective_writers o m)) /\
  readers_ok (is_bin f) (rview o m) /\ keys_ok [] (rview o m) = true /\
  (w_n m = 0%nat -> effective_writers o m = []) /\
  (f = ASCII -> forallb ascii_ok (rview o m) = true /\ (w_n m = 0%nat \/ vertex_props (rview o m) <> [])) /\
  (w_topo m = TTriangle -> (List.length (w_idx m) mod 3 = 0)%nat /\ Forall tri_ok (tris (w_idx m))) /\
  (has_tex m = true -> tex_ok m) /\
  (w_topo m = TTriangle -> Forall (fun i => (i < w_n m)%nat) (w_idx m)).
Proof.
  intros Ho Hwf C Hasc. unfold wf_mesh in Hwf.
  apply andb_prop in Hwf. destruct Hwf as [Hwf Htopo]. apply andb_prop in Hwf. destruct Hwf as [Hwf Hop].
  apply andb_prop in Hwf. destruct Hwf as [Hwf Hres]. apply andb_prop in Hwf. destruct Hwf as [Hwf Hnd].
  apply andb_prop in Hwf. destruct Hwf as [Hwf Hemp]. apply andb_prop in Hwf. destruct Hwf as [Hattr _].
  assert (Ha : forall x, In x (w_attrs m) -> wf_attr (w_n m) x = true) by (rewrite forallb_forall in Hattr; exact Hattr).
  apply nodupb_NoDup in Hnd. apply not_existsb_In in Hop.
  assert (Hdis : forall n, In n (user_names m) -> ~ In n (default_prop_names m))
    by (intros n Hu Hd; apply (NoDup_app_disjoint _ _ Hnd n); assumption).
  apply NoDup_app_tail in Hnd.
  set (l := if o_unspec o then ud m else []).
  assert (Hl : incl (flat_map pw_names l) (user_names m) /\ NoDup (flat_map pw_names l)).
  { unfold l. destruct (o_unspec o); [rewrite <- (user_names_ud m C); split; [apply incl_refl|exact Hnd]|split; [intros x []|constructor]]. }
  destruct Hl as [Hli Hlnd].
  assert (Hlf : forall w, In w l -> pw_ty w = Float) by (unfold l; destruct (o_unspec o); [apply ud_float|intros w []]).
  pose proof (rview_shape o m Ho C) as Er. fold l in Er.
  split; [|split; [|split; [|split; [|split; [|split; [|split]]]]]].
  - apply effective_good; assumption.
  - rewrite Er. unfold qd. apply (readers_ok_default_open (is_bin f) m (qualifies m)); [apply tail_scalar|rewrite tail_attrs; exact Hlnd| |].
    + intros g Hg. fold (qd m). rewrite pnames_pregs. apply Hdis, Hli. rewrite <- (tail_attrs m). apply in_map, Hg.
    + fold (qd m). unfold l. destruct (o_unspec o).
      * apply Forall_forall. intros g Hg. apply group_openb_open; [apply all_scalar_props|].
        rewrite pnames_pregs, pnames_tail, <- (user_names_ud m C).
        unfold no_group_completedb in Hres. rewrite forallb_forall in Hres. apply Hres, Hg.
      * apply Forall_forall. intros g _. apply group_open_nil.
  - rewrite Er, keys_ok_app. cbn [app]. unfold qd. rewrite keys_ok_pregs. cbn [andb].
    apply keys_ok_scalars; [apply tail_scalar|rewrite tail_attrs; exact Hlnd|].
    intros g s Hg Hs. apply (pregs_vs_tail m); [| |exact Hs].
    + pose proof (tail_scalar m l) as T. rewrite Forall_forall in T. apply T, Hg.
    + intros E. apply Hop, Hli. rewrite <- (tail_attrs m), <- E. apply in_map, Hg.
  - intros E0. apply no_attrs_no_writers; [exact Ho|]. destruct (w_attrs m); [reflexivity|].
    rewrite E0 in Hemp. discriminate.
  - intros Ef. split; [|apply Hasc, Ef]. rewrite Er, forallb_app. unfold qd. rewrite ascii_ok_pregs. cbn [andb].
    apply forallb_forall. intros g Hg. unfold ascii_ok. rewrite (tail_ty m l g Hlf Hg). cbn [sty_eqb]. rewrite andb_false_r. reflexivity.
  - intros T. rewrite T in Htopo. apply andb_prop in Htopo. destruct Htopo as [Htopo Hn31]. apply andb_prop in Htopo.
    destruct Htopo as [Hm3 Hidx]. apply Nat.eqb_eq in Hm3. split; [exact Hm3|].
    apply Forall_forall. intros [[a b] c] Ht. destruct (tris_In _ _ _ _ Hm3 Ht) as (Ia & Ib & Ic).
    rewrite forallb_forall in Hidx. pose proof (Hidx a Ia) as Pa. pose proof (Hidx b Ib) as Pb. pose proof (Hidx c Ic) as Pc.
    apply Nat.ltb_lt in Pa, Pb, Pc. apply N.ltb_lt in Hn31. unfold tri_ok, idx_ok. lia.
  - intros Hx t Ht. unfold faces_of in Ht. destruct (w_topo m) eqn:T; [destruct Ht|].
    apply andb_prop in Htopo. destruct Htopo as [Htopo _]. apply andb_prop in Htopo. destruct Htopo as [Hm3 Hidx].
    apply Nat.eqb_eq in Hm3. destruct t as [[a b] c]. destruct (tris_In _ _ _ _ Hm3 Ht) as (Ia & Ib & Ic).
    rewrite forallb_forall in Hidx. pose proof (Hidx a Ia) as Pa. pose proof (Hidx b Ib) as Pb. pose proof (Hidx c Ic) as Pc.
    apply Nat.ltb_lt in Pa, Pb, Pc. apply face_uvs_ok; assumption.
  - intros T. rewrite T in Htopo. apply andb_prop in Htopo. destruct Htopo as [Htopo _]. apply andb_prop in Htopo.
    destruct Htopo as [_ Hidx]. apply Forall_forall. intros i Hi. rewrite forallb_forall in Hidx. apply Nat.ltb_lt, Hidx, Hi.
Qed.

(* for every well-formed point cloud / triangle mesh (no per-vertex s/t, see [no_st]), both settings of
   WriteUnspecifiedProperties, every encoding: the writer model produces a file, and the reader model returns
   from it exactly the mesh [expected o m] *)
Theorem ply_write_read_default o f m : o_writers o = default_writers -> wf_mesh m = true -> no_st m ->
  (f = ASCII -> w_n m = 0%nat \/ vertex_props (rview o m) <> []) ->
  exists file r, write o f m = Ok file /\ expected o m = Ok r /\ read_mesh file = Ok r.
Proof.
  intros Ho Hwf C Hasc. destruct (default_conditions o f m Ho Hwf C Hasc) as (Hg & Hr & Hk & H0 & Ha & Ht & Hx & Hi).
  destruct (write_read_expected o f m Hg Hr Hk H0 Ha Ht Hx) as (file & Ew & Er).
  destruct (rview_same (w_n m) m (effective_writers o m) Hg) as (_ & Gd & _).
  assert (H0' : w_n m = 0%nat -> rview o m = []) by (intros E; unfold rview; rewrite (H0 E); reflexivity).
  assert (Ee : expected o m = result_mesh (is_bin f) (rview o m) m).
  { apply expected_result; try assumption. intros T. apply (Ht T). }
  destruct (result_mesh_ok (is_bin f) (rview o m) m Gd Hk H0' Hi) as (r & Erm).
  exists file, r. rewrite Er, Ee. auto.
Qed.

(* the three encodings of one mesh decode to the same mesh *)
Theorem ply_encodings_agree_default o m : o_writers o = default_writers -> wf_mesh m = true -> no_st m ->
  (w_n m = 0%nat \/ vertex_props (rview o m) <> []) ->
  exists fa fl fb r, write o ASCII m = Ok fa /\ write o BinLE m = Ok fl /\ write o BinBE m = Ok fb /\
                     read_mesh fa = Ok r /\ read_mesh fl = Ok r /\ read_mesh fb = Ok r /\ expected o m = Ok r.
Proof.
  intros Ho Hwf C Hne.
  destruct (ply_write_read_default o ASCII m Ho Hwf C (fun _ => Hne)) as (fa & ra & Wa & Ea & Ra).
  destruct (ply_write_read_default o BinLE m Ho Hwf C (fun _ => Hne)) as (fl & rl & Wl & El & Rl).
  destruct (ply_write_read_default o BinBE m Ho Hwf C (fun _ => Hne)) as (fb & rb & Wb & Eb & Rb).
  assert (rl = ra) by congruence. assert (rb = ra) by congruence. subst rl rb.
  exists fa, fl, fb, ra. auto 10.
Qed.

(* what is left for point clouds that carry TexCoord per vertex (s, t): the file itself is known in closed form *)
Lemma wf_faces m : wf_mesh m = true ->
  (w_topo m = TTriangle -> (List.length (w_idx m) mod 3 = 0)%nat) /\ (has_tex m = true -> tex_ok m) /\
  (forall x, In x (w_attrs m) -> wf_attr (w_n m) x = true).
Proof.
  intros Hwf. unfold wf_mesh in Hwf.
  apply andb_prop in Hwf. destruct Hwf as [Hwf Htopo]. apply andb_prop in Hwf. destruct Hwf as [Hwf _].
  apply andb_prop in Hwf. destruct Hwf as [Hwf _]. apply andb_prop in Hwf. destruct Hwf as [Hwf _].
  apply andb_prop in Hwf. destruct Hwf as [Hwf _]. apply andb_prop in Hwf. destruct Hwf as [Hattr _].
  assert (Ha : forall x, In x (w_attrs m) -> wf_attr (w_n m) x = true) by (rewrite forallb_forall in Hattr; exact Hattr).
  split; [|split; [|exact Ha]].
  - intros T. rewrite T in Htopo. apply andb_prop in Htopo. destruct Htopo as [Htopo _]. apply andb_prop in Htopo.
    destruct Htopo as [Hm3 _]. apply Nat.eqb_eq, Hm3.
  - intros Hx t Ht. unfold faces_of in Ht. destruct (w_topo m) eqn:T; [destruct Ht|].
    apply andb_prop in Htopo. destruct Htopo as [Htopo _]. apply andb_prop in Htopo. destruct Htopo as [Hm3 Hidx].
    apply Nat.eqb_eq in Hm3. destruct t as [[a b] c]. destruct (tris_In _ _ _ _ Hm3 Ht) as (Ia & Ib & Ic).
    rewrite forallb_forall in Hidx. pose proof (Hidx a Ia) as Pa. pose proof (Hidx b Ib) as Pb. pose proof (Hidx c Ic) as Pc.
    apply Nat.ltb_lt in Pa, Pb, Pc. apply face_uvs_ok; assumption.
Qed.

Theorem write_closed_default o f m : o_writers o = default_writers -> wf_mesh m = true ->
  (f = ASCII -> w_n m = 0%nat \/ effective_writers o m <> []) ->
  write o f m = Ok {| pf_header := header_lines f (header_elems (map (group_of m) (effective_writers o m)) m);
                      pf_body := closed_body f (map (group_of m) (effective_writers o m)) m |}.
Proof.
  intros Ho Hwf Hne. destruct (wf_faces m Hwf) as (Hm & Hx & Ha). unfold write.
  rewrite write_body_closed; [reflexivity|apply effective_good; assumption| |exact Hm|exact Hx].
  intros E. destruct (Hne E) as [H|H]; [left; exact H|right]. intros Hn. apply H. destruct (effective_writers o m); [reflexivity|discriminate].
Qed.

(* ================= the header describes the body: whole file, any writer table ================= *)
Definition face_bytes (m : wmesh) : nat := if has_tex m then 38%nat else 13%nat.
Definition face_toks (m : wmesh) : nat := if has_tex m then 11%nat else 4%nat.

Lemma flat_map_const_length {A B} (f : A -> list B) k l : (forall x, In x l -> List.length (f x) = k) ->
  List.length (flat_map f l) = (List.length l * k)%nat.
Proof.
  induction l as [|x l IH]; intros H; [reflexivity|]. cbn [flat_map List.length]. rewrite app_length, (H x (or_introl eq_refl)), IH; [lia|].
  intros y Hy. apply H. right. exact Hy.
Qed.

Lemma fts_uv_length m : (has_tex m = true -> tex_ok m) -> has_tex m = true -> forall tu, In tu (fts_of m) -> List.length (snd tu) = 6%nat.
Proof.
  intros Hx Ht tu Hin. unfold fts_of in Hin. apply in_map_iff in Hin. destruct Hin as (t & <- & Hin').
  destruct (Hx Ht t Hin') as (u & U & L & _). cbn [snd]. rewrite (uvf_ok m t u U). exact L.
Qed.

Theorem closed_body_describes f gs m : Forall (group_good (w_n m)) gs -> (has_tex m = true -> tex_ok m) ->
  match closed_body f gs m with
  | BodyBin bytes =>
      List.length bytes = (w_n m * record_size (vertex_props gs) + List.length (faces_of m) * face_bytes m)%nat
  | BodyAscii lines =>
      List.length lines = (w_n m + List.length (faces_of m))%nat /\
      Forall (fun l => List.length l = List.length (vertex_props gs)) (firstn (w_n m) lines) /\
      Forall (fun l => List.length l = face_toks m) (skipn (w_n m) lines)
  end.
Proof.
  intros Hg Hx. unfold closed_body, face_bytes, face_toks.
  assert (Lv : List.length (map (fun i => flat_map (fun g => gtoks g i) gs) (seq 0 (w_n m))) = w_n m) by (rewrite map_length, seq_length; reflexivity).
  destruct f.
  - set (V := map (fun i => flat_map (fun g => gtoks g i) gs) (seq 0 (w_n m))) in *.
    set (F := if has_tex m then map line_tex (fts_of m) else map line_notex (faces_of m)).
    assert (Ef : firstn (w_n m) (V ++ F) = V)
      by (rewrite firstn_app, Lv, Nat.sub_diag, firstn_O, app_nil_r; apply firstn_all2; rewrite Lv; apply le_n).
    assert (Es : skipn (w_n m) (V ++ F) = F)
      by (rewrite skipn_app, Lv, Nat.sub_diag, skipn_O, skipn_all2 by (rewrite Lv; apply le_n); reflexivity).
    rewrite Ef, Es. split; [|split].
    + rewrite app_length, Lv. unfold F. destruct (has_tex m); [unfold fts_of|]; rewrite !map_length; reflexivity.
    + apply Forall_forall. intros l Hl. unfold V in Hl.
      apply in_map_iff in Hl. destruct Hl as (i & <- & Hi). apply in_seq in Hi. apply (line_length (w_n m)); [exact Hg|lia].
    + unfold F. destruct (has_tex m) eqn:Et.
      * apply Forall_forall. intros l Hl. apply in_map_iff in Hl. destruct Hl as (tu & <- & Hin).
        pose proof (fts_uv_length m (fun _ => Hx eq_refl) Et tu Hin) as L. destruct tu as [[[a b] c] u]. cbn [snd] in L. unfold line_tex, line_notex. cbn [fst snd].
        rewrite !app_length, map_length, L. reflexivity.
      * apply Forall_forall. intros l Hl. apply in_map_iff in Hl. destruct Hl as ([[a b] c] & <- & _). reflexivity.
  - rewrite app_length, (vertex_block_length _ (w_n m)) by exact Hg. f_equal. destruct (has_tex m) eqn:Et.
    + rewrite (flat_map_const_length _ 38%nat); [unfold fts_of; rewrite map_length; reflexivity|].
      intros tu Hin. apply rec_tex_length, (fts_uv_length m (fun _ => Hx eq_refl) Et tu Hin).
    + apply flat_map_const_length. intros t _. apply rec_notex_length.
  - rewrite app_length, (vertex_block_length _ (w_n m)) by exact Hg. f_equal. destruct (has_tex m) eqn:Et.
    + rewrite (flat_map_const_length _ 38%nat); [unfold fts_of; rewrite map_length; reflexivity|].
      intros tu Hin. apply rec_tex_length, (fts_uv_length m (fun _ => Hx eq_refl) Et tu Hin).
    + apply flat_map_const_length. intros t _. apply rec_notex_length.
Qed.

(* stated on what [write] returns: the parsed header gives the element counts and property lists, and these
   determine the size of the body that follows *)
Theorem write_header_describes_body o f m :
  let gs := map (group_of m) (effective_writers o m) in
  Forall (group_good (w_n m)) gs -> (f = ASCII -> w_n m = 0%nat \/ gs <> []) ->
  (w_topo m = TTriangle -> (List.length (w_idx m) mod 3 = 0)%nat) -> (has_tex m = true -> tex_ok m) ->
  exists file, write o f m = Ok file /\
    parse_header (pf_header file) = Ok {| h_fmt := f; h_elems := header_elems gs m; h_comments := [tl comment_line] |} /\
    (exists ve, nth_error (header_elems gs m) 0 = Some ve /\ e_count ve = Z.of_nat (w_n m) /\ e_props ve = vertex_props gs) /\
    (w_topo m = TTriangle -> exists fe, nth_error (header_elems gs m) 1 = Some fe /\ e_count fe = Z.of_nat (List.length (faces_of m))
                                        /\ e_props fe = face_props m) /\
    match pf_body file with
    | BodyBin bytes => List.length bytes = (w_n m * record_size (vertex_props gs) + List.length (faces_of m) * face_bytes m)%nat
    | BodyAscii lines =>
        List.length lines = (w_n m + List.length (faces_of m))%nat /\
        Forall (fun l => List.length l = List.length (vertex_props gs)) (firstn (w_n m) lines) /\
        Forall (fun l => List.length l = face_toks m) (skipn (w_n m) lines)
    end.
Proof.
  intros gs Hg Hne Hm Hx. exists {| pf_header := header_lines f (header_elems gs m); pf_body := closed_body f gs m |}.
  split; [unfold write; fold gs; rewrite write_body_closed by assumption; reflexivity|]. cbn [pf_header pf_body].
  split; [apply parse_header_written, header_elems_ok|]. split; [eexists; split; [reflexivity|auto]|]. split.
  - intros T. unfold header_elems. rewrite T. eexists. split; [reflexivity|]. cbn [e_count e_props]. split; [|reflexivity].
    f_equal. unfold nprims, faces_of. rewrite T. symmetry. apply (tris_spec (List.length (w_idx m))); [apply le_n|apply Hm, T].
  - apply closed_body_describes; assumption.
Qed.

(* ================= readers placed anywhere in the reader list (the reader's order need not be the file's) ================= *)
Definition built_at (bin : bool) (g : rgroup) (cur : nat) : built :=
  {| b_attr := rg_attr g; b_names := rg_names g; b_offs := offs_from bin cur (rg_ty g) (List.length (rg_names g));
     b_ty := rg_ty g; b_v1 := Nat.eqb (List.length (rg_names g)) 1 |}.
Definition placed (bin : bool) (gr : list rgroup) (p : rgroup * nat) : Prop :=
  exists G1 G2, gr = G1 ++ fst p :: G2 /\ snd p = gcur bin 0 G1.

Lemma layout_one bin g c : layout bin [g] c = [built_at bin g c].
Proof. reflexivity. Qed.

Lemma gcur_bin_size gs : forall c, gcur true c gs = (c + size_of (tys_of gs))%nat.
Proof.
  induction gs as [|g gs IH]; intros c; [cbn; lia|]. cbn [gcur fold_left]. fold (gcur true (gstep true c g) gs). rewrite IH.
  unfold tys_of. cbn [flat_map]. fold (tys_of gs). unfold gstep, g_tys.
  assert (E : forall l r, size_of (map (fun _ : string => rg_ty g) l ++ r) = (List.length l * sty_size (rg_ty g) + size_of r)%nat).
  { induction l as [|x l IHl]; intros r; [reflexivity|]. cbn [map app size_of fold_right List.length]. fold (size_of (map (fun _ : string => rg_ty g) l ++ r)). rewrite IHl. lia. }
  rewrite E. lia.
Qed.
Lemma gcur_ascii_len gs : forall c, gcur false c gs = (c + List.length (vertex_props gs))%nat.
Proof.
  induction gs as [|g gs IH]; intros c; [cbn; lia|]. cbn [gcur fold_left]. fold (gcur false (gstep false c g) gs). rewrite IH.
  unfold vertex_props. cbn [flat_map]. rewrite app_length. unfold gstep, group_props. rewrite map_length. lia.
Qed.

Lemma mapR_single {A B} (f : A -> result B) x y : mapR f [x] = Ok [y] -> f x = Ok y.
Proof. cbn [mapR]. destruct (f x); cbn [rbind]; [intros H; injection H as ->; reflexivity|discriminate]. Qed.

Lemma read_placed_bin e n i gr p : Forall (group_good n) gr -> (i < n)%nat -> placed true gr p ->
  read_bin_row e (built_at true (fst p) (snd p)) (flat_map (fun g => genc e g i) gr) = Ok (map (vl (rg_ty (fst p))) (rowi (fst p) i)).
Proof.
  intros Hg Hi (G1 & G2 & E & Ec). destruct p as [g cur]. cbn [fst snd] in *. subst gr cur.
  apply Forall_app in Hg. destruct Hg as [Hg1 Hg2]. apply Forall_cons_iff in Hg2. destruct Hg2 as [Hgg Hg2].
  rewrite flat_map_app. cbn [flat_map].
  pose proof (read_row_bin e n i [g] (flat_map (fun g0 => genc e g0 i) G1) (flat_map (fun g0 => genc e g0 i) G2)
                (Forall_cons _ Hgg (Forall_nil _)) Hi) as R.
  cbn [flat_map] in R. rewrite app_nil_r in R. rewrite (genc_total_length e n G1 i Hg1 Hi) in R.
  rewrite layout_one in R. cbn [map] in R. apply mapR_single in R.
  rewrite gcur_bin_size. cbn [Nat.add]. exact R.
Qed.

Lemma read_placed_ascii n i gr p : Forall (group_good n) gr -> forallb ascii_ok gr = true -> (i < n)%nat -> placed false gr p ->
  read_ascii_row (built_at false (fst p) (snd p)) (flat_map (fun g => gtoks g i) gr) = Ok (map (vl (rg_ty (fst p))) (rowi (fst p) i)).
Proof.
  intros Hg Ha Hi (G1 & G2 & E & Ec). destruct p as [g cur]. cbn [fst snd] in *. subst gr cur.
  apply Forall_app in Hg. destruct Hg as [Hg1 Hg2]. apply Forall_cons_iff in Hg2. destruct Hg2 as [Hgg Hg2].
  rewrite forallb_app in Ha. apply andb_prop in Ha. destruct Ha as [_ Ha]. cbn [forallb] in Ha. apply andb_prop in Ha. destruct Ha as [Hag _].
  rewrite flat_map_app. cbn [flat_map].
  pose proof (read_row_ascii n i [g] (flat_map (fun g0 => gtoks g0 i) G1) (flat_map (fun g0 => gtoks g0 i) G2)
                (Forall_cons _ Hgg (Forall_nil _)) ltac:(cbn [forallb]; rewrite Hag; reflexivity) Hi) as R.
  cbn [flat_map] in R. rewrite app_nil_r in R. rewrite (line_length n G1 i Hg1 Hi) in R.
  rewrite layout_one in R. unfold vrow in R. cbn [map] in R. apply mapR_single in R.
  rewrite gcur_ascii_len. cbn [Nat.add]. exact R.
Qed.

Definition breaders (bin : bool) (PL : list (rgroup * nat)) : list built := map (fun p => built_at bin (fst p) (snd p)) PL.

Lemma read_rows_placed_bin e n i gr PL : Forall (group_good n) gr -> (i < n)%nat -> Forall (placed true gr) PL ->
  mapR (fun b => read_bin_row e b (flat_map (fun g => genc e g i) gr)) (breaders true PL) = Ok (vrow (map fst PL) i).
Proof.
  intros Hg Hi Hp. unfold breaders, vrow. rewrite mapR_map, map_map. apply mapR_ok. intros p Hin.
  rewrite Forall_forall in Hp. apply (read_placed_bin e n); [exact Hg|exact Hi|apply Hp, Hin].
Qed.
Lemma read_rows_placed_ascii n i gr PL : Forall (group_good n) gr -> forallb ascii_ok gr = true -> (i < n)%nat -> Forall (placed false gr) PL ->
  mapR (fun b => read_ascii_row b (flat_map (fun g => gtoks g i) gr)) (breaders false PL) = Ok (vrow (map fst PL) i).
Proof.
  intros Hg Ha Hi Hp. unfold breaders, vrow. rewrite mapR_map, map_map. apply mapR_ok. intros p Hin.
  rewrite Forall_forall in Hp. apply (read_placed_ascii n); [exact Hg|exact Ha|exact Hi|apply Hp, Hin].
Qed.

Theorem read_vertices_bin_placed e n gr PL : forall k (rest : list N), Forall (group_good n) gr -> Forall (placed true gr) PL -> (k <= n)%nat ->
  read_vertices_bin e (breaders true PL) (size_of (tys_of gr)) k
    (flat_map (fun i => flat_map (fun g => genc e g i) gr) (seq (n - k) k) ++ rest)
  = Ok (map (vrow (map fst PL)) (seq (n - k) k), rest).
Proof.
  induction k as [|k IH]; intros rest Hg Hp Hk; [reflexivity|].
  cbn [seq flat_map map read_vertices_bin]. rewrite <- app_assoc.
  rewrite take_app_exact by (symmetry; apply (genc_total_length e n); [assumption|lia]). cbn [of_opt rbind].
  rewrite (read_rows_placed_bin e n) by (try assumption; lia). cbn [rbind]. replace (S (n - S k)) with (n - k)%nat by lia.
  rewrite IH by (try assumption; lia). reflexivity.
Qed.

Theorem read_vertices_ascii_placed n gr PL : forall k (rest : list (list tok)),
  Forall (group_good n) gr -> forallb ascii_ok gr = true -> (n = 0%nat \/ vertex_props gr <> []) -> Forall (placed false gr) PL -> (k <= n)%nat ->
  read_vertices_ascii (breaders false PL) (List.length (vertex_props gr))
    (map (fun i => flat_map (fun g => gtoks g i) gr) (seq (n - k) k) ++ rest) k
  = Ok (map (vrow (map fst PL)) (seq (n - k) k), rest).
Proof.
  induction k as [|k IH]; intros rest Hg Ha Hne Hp Hk.
  - cbn [seq map app read_vertices_ascii]. destruct rest; reflexivity.
  - cbn [seq map app read_vertices_ascii].
    assert (Hne' : vertex_props gr <> []) by (destruct Hne as [Hn0|Hne']; [lia|exact Hne']).
    pose proof (line_length n gr (n - S k) Hg ltac:(lia)) as Ll.
    destruct (flat_map (fun g => gtoks g (n - S k)) gr) as [|t0 l0] eqn:El.
    { exfalso. destruct (vertex_props gr); [congruence|discriminate]. }
    rewrite Ll. rewrite Nat.ltb_irrefl. rewrite <- El.
    rewrite (read_rows_placed_ascii n) by (try assumption; lia). cbn [rbind]. replace (S (n - S k)) with (n - k)%nat by lia.
    rewrite IH by (try assumption; lia). reflexivity.
Qed.

(* update_mesh only looks at the attribute name and the number of members of each reader *)
Lemma offs_from_length bin t k : forall c, List.length (offs_from bin c t k) = k.
Proof. induction k as [|k IH]; intros c; [reflexivity|]. cbn [offs_from List.length]. rewrite IH. reflexivity. Qed.
Lemma update_mesh_shape rows : forall bs bs' j l,
  Forall2 (fun b b' => b_attr b = b_attr b' /\ List.length (b_offs b) = List.length (b_offs b')) bs bs' ->
  update_mesh bs j rows l = update_mesh bs' j rows l.
Proof.
  induction bs as [|b bs IH]; intros bs' j l H; inversion H as [|? b' ? bs'' [Ea El] Hr]; subst; [reflexivity|].
  cbn [update_mesh]. rewrite Ea, El. apply IH, Hr.
Qed.
Lemma breaders_layout_shape bin PL : forall c,
  Forall2 (fun b b' => b_attr b = b_attr b' /\ List.length (b_offs b) = List.length (b_offs b')) (breaders bin PL) (layout bin (map fst PL) c).
Proof.
  induction PL as [|p PL IH]; intros c; [constructor|]. cbn [breaders map layout]. constructor; [|apply IH].
  cbn [built_at b_attr b_offs]. rewrite !offs_from_length. auto.
Qed.
Theorem attrs_of_placed bin n PL : (0 < n)%nat -> Forall (fun g => List.length (rg_rows g) = n) (map fst PL) -> keys_ok [] (map fst PL) = true ->
  update_mesh (breaders bin PL) 0 (map (vrow (map fst PL)) (seq 0 n)) [] = map gattr (map fst PL).
Proof.
  intros Hn Hl Hk. rewrite (update_mesh_shape _ _ _ 0%nat [] (breaders_layout_shape bin PL 0%nat)). apply attrs_of_layout; assumption.
Qed.

(* point clouds read through readers the reader placed in its own order *)
Definition readers_placed (bin : bool) (gr : list rgroup) (PL : list (rgroup * nat)) : Prop :=
  build_readers bin default_groups true (vertex_props gr) = Ok (breaders bin PL) /\ Forall (placed bin gr) PL.

Theorem read_mesh_pointcloud_placed f gr PL m : w_topo m = TPoint ->
  Forall (group_good (w_n m)) gr -> readers_placed (is_bin f) gr PL ->
  (f = ASCII -> forallb ascii_ok gr = true /\ (w_n m = 0%nat \/ vertex_props gr <> [])) ->
  read_mesh {| pf_header := header_lines f (header_elems gr m); pf_body := closed_body f gr m |}
  = Ok {| m_topo := TPoint; m_idx := iota (w_n m);
          m_attrs := update_mesh (breaders (is_bin f) PL) 0 (map (vrow (map fst PL)) (seq 0 (w_n m))) [] |}.
Proof.
  intros Ht Hg [Hr Hp] Ha. unfold read_mesh. cbn [pf_header pf_body].
  rewrite parse_header_written by apply header_elems_ok. cbn [rbind].
  unfold read_body. cbn [h_elems h_fmt]. unfold header_elems. rewrite Ht.
  cbn [find_last_elem e_name]. change (seqb "vertex" "vertex") with true. change (seqb "vertex" "face") with false. cbv iota.
  cbn [of_opt rbind e_props e_count]. rewrite all_scalar_props. cbn [negb].
  replace (Z.of_nat (w_n m) <? 0)%Z with false by lia. cbv iota. rewrite Nat2Z.id.
  unfold closed_body, fts_of, faces_of. rewrite Ht. cbn [map flat_map].
  destruct f; cbn [is_bin] in *.
  - destruct (Ha eq_refl) as [A1 A2].
    pose proof (read_vertices_ascii_placed (w_n m) gr PL (w_n m) [] Hg A1 A2 Hp (le_n _)) as R. rewrite Nat.sub_diag in R.
    destruct (has_tex m); rewrite Hr; cbn [rbind]; rewrite R; cbn [rbind]; reflexivity.
  - pose proof (read_vertices_bin_placed LEnd (w_n m) gr PL (w_n m) [] Hg Hp (le_n _)) as R.
    rewrite Nat.sub_diag, <- record_size_props in R. cbn [enc_of].
    destruct (has_tex m); rewrite Hr; cbn [rbind]; rewrite R; cbn [rbind]; reflexivity.
  - pose proof (read_vertices_bin_placed BEnd (w_n m) gr PL (w_n m) [] Hg Hp (le_n _)) as R.
    rewrite Nat.sub_diag, <- record_size_props in R. cbn [enc_of].
    destruct (has_tex m); rewrite Hr; cbn [rbind]; rewrite R; cbn [rbind]; reflexivity.
Qed.

(* ================= the property, packaged ================= *)
(* what "the header describes the body that follows" means for a written file *)
Definition described (f : fmt) (gs : list rgroup) (m : wmesh) (file : plyfile) : Prop :=
  parse_header (pf_header file) = Ok {| h_fmt := f; h_elems := header_elems gs m; h_comments := [tl comment_line] |} /\
  (exists ve, nth_error (header_elems gs m) 0 = Some ve /\ e_count ve = Z.of_nat (w_n m) /\ e_props ve = vertex_props gs) /\
  (w_topo m = TTriangle -> exists fe, nth_error (header_elems gs m) 1 = Some fe /\ e_count fe = Z.of_nat (List.length (faces_of m))
                                      /\ e_props fe = face_props m) /\
  match pf_body file with
  | BodyBin bytes => List.length bytes = (w_n m * record_size (vertex_props gs) + List.length (faces_of m) * face_bytes m)%nat
  | BodyAscii lines =>
      List.length lines = (w_n m + List.length (faces_of m))%nat /\
      Forall (fun l => List.length l = List.length (vertex_props gs)) (firstn (w_n m) lines) /\
      Forall (fun l => List.length l = face_toks m) (skipn (w_n m) lines)
  end.

Theorem ply_property_default o m : o_writers o = default_writers -> wf_mesh m = true -> no_st m ->
  (w_n m = 0%nat \/ vertex_props (rview o m) <> []) ->
  let gs := map (group_of m) (effective_writers o m) in
  exists fa fl fb r,
    write o ASCII m = Ok fa /\ write o BinLE m = Ok fl /\ write o BinBE m = Ok fb /\
    expected o m = Ok r /\ read_mesh fa = Ok r /\ read_mesh fl = Ok r /\ read_mesh fb = Ok r /\
    described ASCII gs m fa /\ described BinLE gs m fl /\ described BinBE gs m fb.
Proof.
  intros Ho Hwf C Hne gs.
  destruct (ply_encodings_agree_default o m Ho Hwf C Hne) as (fa & fl & fb & r & Wa & Wl & Wb & Ra & Rl & Rb & Ee).
  destruct (default_conditions o ASCII m Ho Hwf C (fun _ => Hne)) as (Hg & _ & _ & _ & _ & Ht & Hx & _).
  destruct (rview_same (w_n m) m (effective_writers o m) Hg) as (P & _ & _).
  assert (Hgs : w_n m = 0%nat \/ gs <> []).
  { destruct Hne as [E|E]; [left; exact E|right]. intros Hnil. apply E. unfold rview. rewrite P. fold gs. rewrite Hnil. reflexivity. }
  assert (D : forall f file, write o f m = Ok file -> described f gs m file).
  { intros f file W. destruct (write_header_describes_body o f m Hg (fun _ => Hgs) (fun T => proj1 (Ht T)) Hx) as (file' & W' & D1 & D2 & D3 & D4).
    assert (file' = file) by congruence. subst file'. unfold described. auto. }
  exists fa, fl, fb, r.
  exact (conj Wa (conj Wl (conj Wb (conj Ee (conj Ra (conj Rl (conj Rb (conj (D _ _ Wa) (conj (D _ _ Wl) (D _ _ Wb)))))))))).
Qed.

(* point clouds whose reader list is in the reader's own order (per-vertex s/t): whole file, given the placement *)
Lemma placed_in bin gr p : placed bin gr p -> In (fst p) gr.
Proof. intros (G1 & G2 & -> & _). apply in_or_app. right. left. reflexivity. Qed.

Theorem ply_points_placed o f m PL : o_writers o = default_writers -> wf_mesh m = true -> w_topo m = TPoint -> (0 < w_n m)%nat ->
  readers_placed (is_bin f) (rview o m) PL -> keys_ok [] (map fst PL) = true ->
  (f = ASCII -> forallb ascii_ok (rview o m) = true /\ vertex_props (rview o m) <> []) ->
  exists file, write o f m = Ok file /\
    read_mesh file = Ok {| m_topo := TPoint; m_idx := iota (w_n m); m_attrs := map gattr (map fst PL) |}.
Proof.
  intros Ho Hwf Ht Hn Hrp Hk Ha. destruct (wf_faces m Hwf) as (_ & _ & Hat).
  pose proof (effective_good o m Ho Hat) as Hg.
  destruct (rview_same (w_n m) m (effective_writers o m) Hg) as (P & Gd & Wd).
  destruct (closed_same f m (rview o m) (map (group_of m) (effective_writers o m)) P Wd) as [Eh Eb].
  exists {| pf_header := header_lines f (header_elems (map (group_of m) (effective_writers o m)) m);
            pf_body := closed_body f (map (group_of m) (effective_writers o m)) m |}. split.
  - apply write_closed_default; [exact Ho|exact Hwf|]. intros E. right. intros Hnil. destruct (Ha E) as [_ Hne]. apply Hne.
    unfold rview. rewrite P, Hnil. reflexivity.
  - rewrite <- Eh, <- Eb. rewrite (read_mesh_pointcloud_placed f (rview o m) PL m Ht Gd Hrp).
    + rewrite attrs_of_placed; [reflexivity|exact Hn| |exact Hk].
      apply Forall_forall. intros g Hg'. apply in_map_iff in Hg'. destruct Hg' as (p & <- & Hp).
      destruct Hrp as [_ Hpl]. rewrite Forall_forall in Hpl, Gd. destruct (Gd _ (placed_in _ _ _ (Hpl p Hp))) as (_ & L & _). exact L.
    + intros E. destruct (Ha E) as [A1 A2]. split; [exact A1|right; exact A2].
Qed.
