(* C14 (PTS part): token-level model of formats/pts/reader.go ReadPointCloud.
   A body line is the list of its numeric tokens (integer-valued in the harness, so Z is exact);
   intensity and colour are kept as the raw token values (the code divides them by 255). *)
From Coq Require Export List ZArith Lia Bool.
Export ListNotations.

Definition line := list Z.
Record pts_result := { p_n : nat; p_pos : list (Z * Z * Z); p_int : option (list Z); p_col : option (list (Z * Z * Z)) }.

Definition pos_of (l : line) : Z * Z * Z := (nth 0 l 0%Z, nth 1 l 0%Z, nth 2 l 0%Z).
Definition int_of (l : line) : Z := nth 3 l 0%Z.
Definition col_of (l : line) : Z * Z * Z := (nth 4 l 0%Z, nth 5 l 0%Z, nth 6 l 0%Z).

(* every data line has at least three fields and as many fields as the first one *)
Definition line_okb (w : nat) (l : line) : bool := (3 <=? length l)%nat && (length l =? w)%nat.

(* [count] = None: the count line is missing or unparsable.  Lines beyond [count] are ignored. *)
Definition pts_read (count : option Z) (ls : list line) : option pts_result :=
  match count with
  | None => None
  | Some c =>
    if (c <? 0)%Z then None else
    let n := Z.to_nat c in
    if (length ls <? n)%nat then None else          (* fewer lines than promised: io.ErrUnexpectedEOF *)
    let used := firstn n ls in
    match used with
    | [] => Some {| p_n := 0; p_pos := []; p_int := None; p_col := None |}
    | l0 :: _ =>
      let w := length l0 in
      if forallb (line_okb w) used then
        Some {| p_n := n; p_pos := map pos_of used;
                p_int := if (3 <? w)%nat then Some (map int_of used) else None;
                p_col := if (6 <? w)%nat then Some (map col_of used) else None |}
      else None
    end
  end.

(* the token-boundary prefix of a file: [j] complete body lines and the first [m] tokens of line j *)
Definition pts_prefix (ls : list line) (j m : nat) : list line :=
  firstn j ls ++ (match m with O => [] | _ => [firstn m (nth j ls [])] end).

(* a byte cut that ends INSIDE a number leaves a shorter spelling of it: [PVal v] = what that spelling reads as (the
   prefix then holds the token v -- it may be a complete valid file of its own), [PBad] = it does not read as a
   number ("-", "1e", "1e-", "+"), [PNone] = the cut is at a token boundary or after a separator (strings.Fields
   drops trailing blanks: the same token prefix) *)
Inductive ptok := PNone | PVal (v : Z) | PBad.
Definition pts_prefix_p (ls : list line) (j m : nat) (p : ptok) : list line :=
  match p with
  | PNone => pts_prefix ls j m
  | PVal v => firstn j ls ++ [firstn m (nth j ls []) ++ [v]]
  | PBad => firstn j ls ++ [firstn m (nth j ls []) ++ [0%Z]]
  end.

(* ---- the property, judged on an implementation result (direct oracle): every value of an Ok result
   is the image of tokens present in the prefix, for exactly the promised number of vertices ---- *)
Fixpoint zlist_eqb (a b : list Z) : bool :=
  match a, b with [], [] => true | x :: a', y :: b' => Z.eqb x y && zlist_eqb a' b' | _, _ => false end.
Definition z3_eqb (a b : Z * Z * Z) : bool :=
  let '(x, y, z) := a in let '(x', y', z') := b in Z.eqb x x' && Z.eqb y y' && Z.eqb z z'.
Fixpoint z3list_eqb (a b : list (Z * Z * Z)) : bool :=
  match a, b with [], [] => true | x :: a', y :: b' => z3_eqb x y && z3list_eqb a' b' | _, _ => false end.

Definition no_placeholderb (count : option Z) (present : list line) (r : pts_result) : bool :=
  match count with
  | None => false
  | Some c =>
    (0 <=? c)%Z && (p_n r =? Z.to_nat c)%nat && (Z.to_nat c <=? length present)%nat &&
    let used := firstn (Z.to_nat c) present in
    (if (p_n r =? 0)%nat then true
     else forallb (fun l => (3 <=? length l)%nat) used && z3list_eqb (p_pos r) (map pos_of used)) &&
    match p_int r with
    | None => true
    | Some xs => forallb (fun l => (4 <=? length l)%nat) used && zlist_eqb xs (map int_of used)
    end &&
    match p_col r with
    | None => true
    | Some xs => forallb (fun l => (7 <=? length l)%nat) used && z3list_eqb xs (map col_of used)
    end
  end.

Definition pts_result_eqb (a b : pts_result) : bool :=
  (p_n a =? p_n b)%nat && z3list_eqb (p_pos a) (p_pos b) &&
  match p_int a, p_int b with Some x, Some y => zlist_eqb x y | None, None => true | _, _ => false end &&
  match p_col a, p_col b with Some x, Some y => z3list_eqb x y | None, None => true | _, _ => false end.
