(* C07: exact specification of the facet-normal VALUE written by stl.WriteMesh.

   write.go:65-85   n := v1.Add(v2).Add(v3).DivByConstant(3).Normalized().ToFloat32()
   i.e. every stored float32 word is the rounding of one component of  s / |s|,  s = v1 + v2 + v3  (the factor
   1/3 of the mean cancels in the normalisation).  Corner normals are handed over as integer triples (every
   finite float64 is an integer times a power of two and the common power cancels as well: StlNormalProofs.
   facet_ok_scale), so  s  is exact; "word w is the float32 nearest to s_k / sqrt (s.s)" is then decided by
   comparing squares of integers — no floating point, no square root.

   Go evaluates the quotient in float64 and rounds a second time to float32, so the word is allowed to sit
   2^-21 ulp outside the round-to-nearest interval (the float64 error is < 2^-25 ulp when the sum is exact).
   StlNormalProofs.fn_word_sound: an accepted word is within (1/2 + 2^-21) ulp of the real number s_k / |s|. *)
From PF Require Import Base.Bytes Formats.Stl.
From Coq Require Import ZArith.
Open Scope Z_scope.

Definition zvec := (Z * Z * Z)%type.
Definition zadd (a b : zvec) : zvec :=
  let '(x, y, z) := a in let '(x', y', z') := b in (x + x', y + y', z + z').
Definition zdot (a b : zvec) : Z :=
  let '(x, y, z) := a in let '(x', y', z') := b in x * x' + y * y' + z * z'.
Definition zscale (c : Z) (a : zvec) : zvec := let '(x, y, z) := a in (c * x, c * y, c * z).
Definition zzero : zvec := (0, 0, 0).

(* IEEE binary32 bit pattern -> (sign, integer significand m, exponent e): value (-1)^sign * m * 2^e;
   None for infinities and NaNs *)
Definition f32_decode (w : N) : option (bool * Z * Z) :=
  let w := Z.of_N w in
  let sg := Z.odd (Z.shiftr w 31) in
  let ex := Z.land (Z.shiftr w 23) 255 in
  let fr := Z.land w 8388607 in
  if ex =? 255 then None
  else if ex =? 0 then Some (sg, fr, -149)
  else Some (sg, fr + 8388608, ex - 150).

(* everything is compared on the grid 2^-fgrid *)
Definition fgrid : Z := 171.
Definition fslack : Z := 21.      (* allowed excess over half an ulp: ulp * 2^-fslack *)

(* half the gap to the next float32 above / below |value| (on the grid), as integers *)
Definition gap_up (m e : Z) : Z := 2 ^ (e + fgrid - 1).
Definition gap_down (m e : Z) : Z :=
  if (m =? 8388608) && (-149 <? e) then 2 ^ (e + fgrid - 2) else 2 ^ (e + fgrid - 1).
Definition slack (e : Z) : Z := 2 ^ (e + fgrid - fslack).

(* word w holds (the float32 nearest to) sk / sqrt S, where S > 0 is the squared length and sk one component *)
Definition fn_word_ok (sk S : Z) (w : N) : bool :=
  match f32_decode w with
  | None => false
  | Some (sg, m, e) =>
      let c := m * 2 ^ (e + fgrid) in
      let X := sk * sk * 2 ^ (2 * fgrid) in
      if m =? 0 then X <=? (gap_up m e + slack e) ^ 2 * S       (* +-0: |sk / sqrt S| below half the least subnormal *)
      else negb (sk =? 0) && Bool.eqb (sk <? 0) sg
           && ((c - gap_down m e - slack e) ^ 2 * S <=? X) && (X <=? (c + gap_up m e + slack e) ^ 2 * S)
  end.

(* the three stored words are the normalised s *)
Definition facet_ok (s : zvec) (v : vec) : bool :=
  let '(x, y, z) := s in let '(wx, wy, wz) := v in
  let S := zdot s s in
  (0 <? S) && fn_word_ok x S wx && fn_word_ok y S wy && fn_word_ok z S wz.

(* sum of the three corner normals of triangle t, gathered through the index buffer (write.go:67-70) *)
Definition corner_sum (idx : list nat) (nrm : list zvec) (t : nat) : zvec :=
  let c k := nth (nth (3 * t + k) idx O) nrm zzero in
  zadd (zadd (c 0%nat) (c 1%nat)) (c 2%nat).

(* every triangle's stored facet normal is the normalised mean of its corner normals *)
Definition mesh_normals_ok (idx : list nat) (nrm : list zvec) (fns : list vec) : bool :=
  forallb (fun t => facet_ok (corner_sum idx nrm t) (nth t fns vzero)) (seq 0 (length fns)).

(* an INDEPENDENT look at a stored normal: its squared length is 1 up to float32 rounding
   (|1 - |n|^2| <= 2^-22 on the integer significands; holds for every correctly rounded unit vector) *)
Definition f32_scaled (w : N) : option Z :=         (* value * 2^149 *)
  match f32_decode w with
  | Some (sg, m, e) => Some ((if sg then -m else m) * 2 ^ (e + 149))
  | None => None
  end.
Definition unit_ok (v : vec) : bool :=
  let '(wx, wy, wz) := v in
  match f32_scaled wx, f32_scaled wy, f32_scaled wz with
  | Some x, Some y, Some z =>
      let q := x * x + y * y + z * z in let one := 2 ^ 298 in
      (one - 2 ^ 276 <=? q) && (q <=? one + 2 ^ 276)
  | _, _, _ => false
  end.
