(* C06 proofs, part D: the equalities used for de-duplication are equivalences (each is equality of a
   key), and the tables of the writer are consistent with them. *)
From PF Require Import Base.Bytes Base.BytesProofs Formats.Gltf.
From Coq Require String.
Import String.StringSyntax.
Delimit Scope string_scope with string.
Open Scope list_scope.
Open Scope N_scope.

(* [eqb] decides equality of [key] *)
Notation keyed eqb key := (forall a b, eqb a b = true <-> key a = key b).

Lemma keyed_N : keyed N.eqb (fun x => x).
Proof. intros a b. apply N.eqb_eq. Qed.
Lemma keyed_string : keyed String.eqb (fun x => x).
Proof. intros a b. apply String.eqb_eq. Qed.
Lemma keyed_list {A K} eqb (key : A -> K) : keyed eqb key -> keyed (list_eqb eqb) (map key).
Proof.
  intros H a. induction a as [|x a IH]; intros [|y b]; cbn [list_eqb map]; try (split; [discriminate|discriminate]).
  - tauto.
  - rewrite andb_true_iff, H, IH. split; [intros (-> & ->); reflexivity|intros E; repeat split; congruence].
Qed.
Lemma keyed_opt {A K} eqb (key : A -> K) : keyed eqb key -> keyed (opt_eqb eqb) (option_map key).
Proof.
  intros H [x|] [y|]; cbn [opt_eqb option_map]; try (split; [discriminate|discriminate]); [|tauto].
  rewrite H. split; [intros ->; reflexivity|intros E; repeat split; congruence].
Qed.
Lemma keyed_optN : keyed optN_eqb (fun x => x).
Proof.
  intros [x|] [y|]; cbn [optN_eqb]; try (split; [discriminate|discriminate]); [|tauto].
  rewrite N.eqb_eq. split; [intros ->; reflexivity|intros E; repeat split; congruence].
Qed.
Lemma keyed_listN : keyed listN_eqb (fun x => x).
Proof. intros a b. unfold listN_eqb. rewrite (keyed_list _ _ keyed_N), !map_id. tauto. Qed.
Lemma keyed_pair {A K1 K2} e1 e2 (k1 : A -> K1) (k2 : A -> K2) :
  keyed e1 k1 -> keyed e2 k2 -> keyed (fun a b => e1 a b && e2 a b) (fun a => (k1 a, k2 a)).
Proof.
  intros H1 H2 a b. rewrite andb_true_iff, H1, H2. split; [intros (-> & ->); reflexivity|intros E; repeat split; congruence].
Qed.
Lemma keyed_ext {A K} (e e' : A -> A -> bool) (k : A -> K) : (forall a b, e a b = e' a b) -> keyed e k -> keyed e' k.
Proof. intros E H a b. rewrite <- E. apply H. Qed.
Lemma keyed_proj {A B K} (e : B -> B -> bool) (k : B -> K) (f : A -> B) : keyed e k -> keyed (fun a b => e (f a) (f b)) (fun a => k (f a)).
Proof. intros H a b. apply H. Qed.

(* an equality decided by a key is an equivalence *)
Lemma keyed_refl {A K} e (k : A -> K) : keyed e k -> forall a, e a a = true.
Proof. intros H a. apply H. reflexivity. Qed.
Lemma keyed_sym {A K} e (k : A -> K) : keyed e k -> forall a b, e a b = e b a.
Proof.
  intros H a b. destruct (e a b) eqn:E1, (e b a) eqn:E2; try reflexivity.
  - apply H in E1. symmetry in E1. apply H in E1. congruence.
  - apply H in E2. symmetry in E2. apply H in E2. congruence.
Qed.
Lemma keyed_trans {A K} e (k : A -> K) : keyed e k -> forall a b c, e a b = true -> e b c = true -> e a c = true.
Proof. intros H a b c H1 H2. apply H. apply H in H1, H2. congruence. Qed.

Definition samp_key (s : gsamp) := (gs_mag s, gs_min s, gs_ws s, gs_wt s).
Lemma keyed_samp_fields : keyed samp_fields_eqb samp_key.
Proof.
  intros a b. unfold samp_fields_eqb, samp_key. rewrite !andb_true_iff, !N.eqb_eq.
  split; [intros (((-> & ->) & ->) & ->); reflexivity|intros E; repeat split; congruence].
Qed.
Lemma keyed_samp : keyed samp_eqb (fun s => (samp_key s, gs_name s)).
Proof.
  intros a b. unfold samp_eqb. rewrite andb_true_iff, keyed_samp_fields, String.eqb_eq.
  split; [intros (-> & ->); reflexivity|intros E; repeat split; congruence].
Qed.

Definition tex_key (t : ptexture) := (tx_uri t, tx_exts t, tx_xcls t, option_map (fun s => (samp_key s, gs_name s)) (tx_samp t)).
Lemma keyed_texext : keyed ext_eqb (fun x => x).
Proof.
  intros [a b] [a' b']. unfold ext_eqb. cbn [fst snd]. rewrite andb_true_iff, String.eqb_eq, Bool.eqb_true_iff.
  split; [intros (-> & ->); reflexivity|intros E; split; congruence].
Qed.
Lemma keyed_ptex : keyed ptex_equal (option_map tex_key).
Proof.
  intros [x|] [y|]; cbn [ptex_equal option_map]; try (split; [discriminate|discriminate]); [|tauto].
  unfold tex_key. rewrite !andb_true_iff, String.eqb_eq, (keyed_opt _ _ keyed_samp), keyed_listN.
  rewrite (keyed_list _ _ keyed_texext), !map_id.
  split; [intros (((-> & ->) & ->) & ->); reflexivity|intros E; repeat split; congruence].
Qed.
(* with the repaired equality, equal textures have the same extension list and the same sampler (name included) *)
Lemma ptex_equal_detail x y : ptex_equal (Some x) (Some y) = true ->
  tx_uri x = tx_uri y /\ tx_exts x = tx_exts y /\ opt_eqb samp_eqb (tx_samp x) (tx_samp y) = true.
Proof.
  cbn [ptex_equal]. rewrite !andb_true_iff, String.eqb_eq, (keyed_list _ _ keyed_texext), !map_id. tauto.
Qed.
Definition texs_key (t : ptexture * option N) := (tex_key (fst t), snd t).
Lemma keyed_ptexs : keyed ptexs_equal (option_map texs_key).
Proof.
  intros [[x sx]|] [[y sy]|]; cbn [ptexs_equal option_map]; try (split; [discriminate|discriminate]); [|tauto].
  unfold texs_key. cbn [fst snd]. rewrite andb_true_iff, (keyed_ptex (Some x) (Some y)), keyed_optN. cbn [option_map].
  split; [intros (E & ->); congruence|intros E; repeat split; congruence].
Qed.
Definition pbr_key (p : ppbr) :=
  (pb_metal p, pb_rough p, pb_color p, option_map tex_key (pb_tex p), option_map tex_key (pb_mrtex p)).
Lemma keyed_pbr : keyed pbr_equal (option_map pbr_key).
Proof.
  intros [x|] [y|]; cbn [pbr_equal option_map]; try (split; [discriminate|discriminate]); [|tauto].
  unfold pbr_key. rewrite !andb_true_iff, !keyed_optN, !keyed_ptex.
  rewrite (keyed_opt _ _ keyed_listN (pb_color x) (pb_color y)).
  destruct (pb_color x), (pb_color y); cbn [option_map];
    (split; [intros ((((-> & ->) & E) & ->) & ->); try discriminate; inversion E; reflexivity
            |intros E; repeat split; congruence]).
Qed.

Definition mat_key (m : pmaterial) :=
  (pm_name m, option_map pbr_key (pm_pbr m), pm_emissive m, option_map texs_key (pm_normal m),
   option_map texs_key (pm_occ m), pm_alpha m, pm_cutoff m, map mx_class (pm_exts m), pm_extras m).
Lemma opt_id {A} (o : option A) : option_map (fun x => x) o = o.
Proof. destruct o; reflexivity. Qed.
Lemma keyed_mat : keyed mat_equal mat_key.
Proof.
  intros a b. unfold mat_equal, mat_key. rewrite !andb_true_iff, String.eqb_eq, keyed_pbr, !keyed_ptexs, keyed_optN, N.eqb_eq.
  rewrite (keyed_opt _ _ keyed_listN), (keyed_opt _ _ keyed_string), (keyed_list _ _ keyed_N), !opt_id, !map_id.
  split; [intros ((((((((-> & ->) & ->) & ->) & ->) & ->) & ->) & ->) & ->); reflexivity|intros E; repeat split; congruence].
Qed.

Theorem mat_equal_refl a : mat_equal a a = true.
Proof. apply (keyed_refl _ _ keyed_mat). Qed.
Theorem mat_equal_sym a b : mat_equal a b = mat_equal b a.
Proof. apply (keyed_sym _ _ keyed_mat). Qed.
Theorem mat_equal_trans a b c : mat_equal a b = true -> mat_equal b c = true -> mat_equal a c = true.
Proof. apply (keyed_trans _ _ keyed_mat). Qed.
