(* C14: the property, packaged.  [cut_ok rejected outs full trailing_only]: for every cut k the decoder rejects, or
   only trailing framing was cut and the result is the one of the complete file. *)
From PF Require Import Base.Bytes Base.BytesProofs.
From PF Require Formats.Stl Formats.StlProofs Formats.Splat Formats.Spz Formats.Pts Formats.PtsProofs.
From PF Require Import Formats.PlyRead Formats.PrefixProofs.
From Coq Require Import ZifyN ZifyNat ZifyBool.
Open Scope list_scope.

Definition cut_ok {K O : Type} (rejected : O -> Prop) (outs : K -> O) (full : O) (trailing_only : K -> Prop) : Prop :=
  forall k, rejected (outs k) \/ (trailing_only k /\ outs k = full).

(* no placeholder, generically: whatever a cut file is NOT rejected with is the complete file's result *)
Lemma cut_ok_accepts {K O} (rejected : O -> Prop) (outs : K -> O) full T :
  cut_ok rejected outs full T -> forall k, ~ rejected (outs k) -> T k /\ outs k = full.
Proof. intros H k Hn. destruct (H k) as [Hr|Ha]; [contradiction|exact Ha]. Qed.

Lemma threshold_cut_ok {O} (rejected : O -> Prop) (outs : nat -> O) full c :
  (forall k, (k < c)%nat -> rejected (outs k)) -> (forall k, (c <= k)%nat -> outs k = full) ->
  cut_ok rejected outs full (fun k => (c <= k)%nat).
Proof. intros Hlt Hge k. destruct (le_lt_dec c k) as [H|H]; [right; split; [exact H|apply Hge; exact H]|left; apply Hlt; exact H]. Qed.

Definition is_none {A} (o : option A) : Prop := o = None.
Definition is_eof {A} (r : result A) : Prop := r = Err EEof.

Lemma stl_cut_ok hdr ts : length hdr = 80%nat -> bytes_ok hdr -> (N.of_nat (length ts) < 4294967296)%N ->
  let f := Stl.write hdr ts in
  cut_ok is_none (fun k => Stl.read_chunked Stl.stl_chunk (firstn k f)) (Stl.read_chunked Stl.stl_chunk f)
         (fun k => (length f <= k)%nat).
Proof.
  intros Hh Hb Hn f. apply threshold_cut_ok.
  - intros k Hk. apply StlProofs.big_file_cut_model; assumption.
  - intros k Hk. rewrite firstn_all2 by exact Hk. reflexivity.
Qed.

Lemma spz_cut_ok (inflate : list N -> list N) :
  (forall z k, exists j, inflate (firstn k z) = firstn j (inflate z)) ->
  forall z h ps, inflate z = Spz.encode_ref h ps -> Spz.header_ok h -> Spz.lengths_match h ps ->
  cut_ok is_none (fun k => spz_read inflate (firstn k z)) (spz_read inflate z)
         (fun k => inflate (firstn k z) = inflate z).
Proof. intros Hi z h ps Hz Hh Hl k. exact (spz_prefix inflate Hi z h ps k Hz Hh Hl). Qed.

Lemma ply_bin_cut_ok hdr bytes m : read_mesh {| pf_header := hdr; pf_body := BodyBin bytes |} = Ok m ->
  exists c, (c <= length bytes)%nat /\
    (forall k, (k < c)%nat -> is_eof (read_mesh {| pf_header := hdr; pf_body := BodyBin (firstn k bytes) |})) /\
    cut_ok is_eof (fun k => read_mesh {| pf_header := hdr; pf_body := BodyBin (firstn k bytes) |}) (Ok m)
           (fun k => (c <= k)%nat).
Proof.
  intros H. destruct (ply_bin_prefix hdr bytes m H) as (c & Hc & Hlt & Hge). exists c.
  split; [exact Hc|]. split; [exact Hlt|]. apply threshold_cut_ok; assumption.
Qed.
Lemma ply_ascii_cut_ok hdr lines m : read_mesh {| pf_header := hdr; pf_body := BodyAscii lines |} = Ok m ->
  exists c, (c <= length lines)%nat /\
    (forall k, (k < c)%nat -> is_eof (read_mesh {| pf_header := hdr; pf_body := BodyAscii (firstn k lines) |})) /\
    cut_ok is_eof (fun k => read_mesh {| pf_header := hdr; pf_body := BodyAscii (firstn k lines) |}) (Ok m)
           (fun k => (c <= k)%nat).
Proof.
  intros H. destruct (ply_ascii_lines_prefix hdr lines m H) as (c & Hc & Hlt & Hge). exists c.
  split; [exact Hc|]. split; [exact Hlt|]. apply threshold_cut_ok; assumption.
Qed.
Lemma ply_header_cut_ok hdr h : parse_header hdr = Ok h ->
  cut_ok is_eof (fun j => parse_header (firstn j hdr)) (Ok h) (fun _ => True).
Proof. intros H j. destruct (ply_header_prefix hdr h j H) as [E|E]; [left; exact E|right; split; [exact I|exact E]]. Qed.

Lemma pts_cut_ok n w (ls : list Pts.line) j m : PtsProofs.pts_valid n w ls -> (j < n)%nat -> (m < w)%nat ->
  Pts.pts_read (Some (Z.of_nat n)) (Pts.pts_prefix ls j m) = None \/
  (n = 1%nat /\ j = 0%nat /\ (3 <= m)%nat /\
   forall r, Pts.pts_read (Some (Z.of_nat n)) (Pts.pts_prefix ls j m) = Some r ->
             Pts.no_placeholderb (Some (Z.of_nat n)) (Pts.pts_prefix ls j m) r = true).
Proof.
  intros Hv Hj Hm. destruct (PtsProofs.pts_prefix_rejected n w ls j m Hv Hj Hm) as [E|(H1 & H2 & H3)]; [left; exact E|].
  right. repeat split; try assumption. intros r Hr. apply PtsProofs.pts_read_no_placeholder. exact Hr.
Qed.

(* ================================================================== the packaged statement *)
Theorem all_formats :
  (* binary STL, the chunked reader as it is now: no trailing framing *)
  (forall hdr ts, length hdr = 80%nat -> bytes_ok hdr -> (N.of_nat (length ts) < 4294967296)%N ->
     let f := Stl.write hdr ts in
     cut_ok is_none (fun k => Stl.read_chunked Stl.stl_chunk (firstn k f)) (Stl.read_chunked Stl.stl_chunk f)
            (fun k => (length f <= k)%nat)) /\
  (* .splat, record streamed: exactly the complete records, error flag iff a record was cut *)
  (forall rs k, Forall Splat.raw_ok rs -> (k <= length (Splat.write_raw rs))%nat ->
     Splat.read (firstn k (Splat.write_raw rs)) = (map Splat.dequantise (firstn (k / 32) rs), (k mod 32 =? 0)%nat)) /\
  (* SPZ behind gzip: trailing framing = the compressed bytes after the last plaintext byte *)
  (forall inflate : list N -> list N, (forall z k, exists j, inflate (firstn k z) = firstn j (inflate z)) ->
     forall z h ps, inflate z = Spz.encode_ref h ps -> Spz.header_ok h -> Spz.lengths_match h ps ->
     cut_ok is_none (fun k => spz_read inflate (firstn k z)) (spz_read inflate z)
            (fun k => inflate (firstn k z) = inflate z)) /\
  (* PLY header, cut after j lines *)
  (forall hdr h, parse_header hdr = Ok h ->
     cut_ok is_eof (fun j => parse_header (firstn j hdr)) (Ok h) (fun _ => True)) /\
  (* PLY binary body: c = end of the data the header promises; below it every cut is end-of-input *)
  (forall hdr bytes m, read_mesh {| pf_header := hdr; pf_body := BodyBin bytes |} = Ok m ->
     exists c, (c <= length bytes)%nat /\
       (forall k, (k < c)%nat -> is_eof (read_mesh {| pf_header := hdr; pf_body := BodyBin (firstn k bytes) |})) /\
       cut_ok is_eof (fun k => read_mesh {| pf_header := hdr; pf_body := BodyBin (firstn k bytes) |}) (Ok m)
              (fun k => (c <= k)%nat)) /\
  (* PLY ASCII body, cut after k lines (token cuts inside a line: prefix_ply_ascii_vertex_token / _face_token /
     _surplus_vertex / _surplus_face) *)
  (forall hdr lines m, read_mesh {| pf_header := hdr; pf_body := BodyAscii lines |} = Ok m ->
     exists c, (c <= length lines)%nat /\
       (forall k, (k < c)%nat -> is_eof (read_mesh {| pf_header := hdr; pf_body := BodyAscii (firstn k lines) |})) /\
       cut_ok is_eof (fun k => read_mesh {| pf_header := hdr; pf_body := BodyAscii (firstn k lines) |}) (Ok m)
              (fun k => (c <= k)%nat)) /\
  (* PTS, token boundary (j lines, m tokens): rejected, or the one-point file cut after >= 3 fields, whose result
     holds only values of tokens present *)
  (forall n w (ls : list Pts.line) j m, PtsProofs.pts_valid n w ls -> (j < n)%nat -> (m < w)%nat ->
     Pts.pts_read (Some (Z.of_nat n)) (Pts.pts_prefix ls j m) = None \/
     (n = 1%nat /\ j = 0%nat /\ (3 <= m)%nat /\
      forall r, Pts.pts_read (Some (Z.of_nat n)) (Pts.pts_prefix ls j m) = Some r ->
                Pts.no_placeholderb (Some (Z.of_nat n)) (Pts.pts_prefix ls j m) r = true)).
Proof.
  split; [exact stl_cut_ok|]. split; [exact splat_prefix|]. split; [exact spz_cut_ok|].
  split; [exact ply_header_cut_ok|]. split; [exact ply_bin_cut_ok|]. split; [exact ply_ascii_cut_ok|exact pts_cut_ok].
Qed.

(* no placeholders, derived from the packaged statement through [cut_ok_accepts]: an accepted cut file has the
   complete file's result *)
Theorem all_formats_no_placeholder :
  (forall hdr ts k x, length hdr = 80%nat -> bytes_ok hdr -> (N.of_nat (length ts) < 4294967296)%N ->
     Stl.read_chunked Stl.stl_chunk (firstn k (Stl.write hdr ts)) = Some x ->
     Some x = Stl.read_chunked Stl.stl_chunk (Stl.write hdr ts)) /\
  (forall inflate : list N -> list N, (forall z k, exists j, inflate (firstn k z) = firstn j (inflate z)) ->
     forall z h ps k x, inflate z = Spz.encode_ref h ps -> Spz.header_ok h -> Spz.lengths_match h ps ->
     spz_read inflate (firstn k z) = Some x -> Some x = spz_read inflate z) /\
  (forall hdr bytes m k m', read_mesh {| pf_header := hdr; pf_body := BodyBin bytes |} = Ok m ->
     read_mesh {| pf_header := hdr; pf_body := BodyBin (firstn k bytes) |} = Ok m' -> m' = m) /\
  (forall hdr lines m k m', read_mesh {| pf_header := hdr; pf_body := BodyAscii lines |} = Ok m ->
     read_mesh {| pf_header := hdr; pf_body := BodyAscii (firstn k lines) |} = Ok m' -> m' = m).
Proof.
  destruct all_formats as (Hstl & _ & Hspz & _ & Hbin & Hascii & _).
  split; [|split; [|split]].
  - intros hdr ts k x Hh Hb Hn Hx.
    destruct (cut_ok_accepts _ _ _ _ (Hstl hdr ts Hh Hb Hn) k) as [_ E]; [unfold is_none; rewrite Hx; discriminate|].
    cbv beta in E. rewrite <- E. symmetry. exact Hx.
  - intros inflate Hi z h ps k x Hz Hh Hl Hx.
    destruct (cut_ok_accepts _ _ _ _ (Hspz inflate Hi z h ps Hz Hh Hl) k) as [_ E]; [unfold is_none; rewrite Hx; discriminate|].
    cbv beta in E. rewrite <- E. symmetry. exact Hx.
  - intros hdr bytes m k m' H H'. destruct (Hbin hdr bytes m H) as (c & _ & _ & Hc).
    destruct (cut_ok_accepts _ _ _ _ Hc k) as [_ E]; [unfold is_eof; rewrite H'; discriminate|].
    cbv beta in E. congruence.
  - intros hdr lines m k m' H H'. destruct (Hascii hdr lines m H) as (c & _ & _ & Hc).
    destruct (cut_ok_accepts _ _ _ _ Hc k) as [_ E]; [unfold is_eof; rewrite H'; discriminate|].
    cbv beta in E. congruence.
Qed.
