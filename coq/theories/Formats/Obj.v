(* C05: Wavefront OBJ at line-record level.  Executable model of formats/obj/writer.go (WriteMeshes),
   formats/obj/reader.go (ReadMesh) and a direct, de-duplication-free semantics of an OBJ line list
   (the specification both are judged against).  Number text is outside the model: a coordinate is
   its float32 word (N), an index is a Z, a name is the list of its whitespace-free tokens.
   No proofs in this file. *)
From PF Require Import Base.Bytes.
From Coq Require Import String.
Open Scope nat_scope.
Notation length := List.length (only parsing).   (* not String.length *)

(* ---------- results: error classes of the Go code ---------- *)
Inductive res (A : Type) := Ok (a : A) | Declared | Crash.
Arguments Ok {A} a. Arguments Declared {A}. Arguments Crash {A}.
Definition rbind {A B} (r : res A) (f : A -> res B) : res B :=
  match r with Ok a => f a | Declared => Declared | Crash => Crash end.
Notation "'dor' x <- o ; k" := (rbind o (fun x => k))
  (at level 200, x name, o at level 100, k at level 200, right associativity).
Notation "'dor' ' p <- o ; k" := (rbind o (fun x => match x with p => k end))
  (at level 200, p pattern, o at level 100, k at level 200, right associativity).

(* ---------- lines ---------- *)
Definition tok := string.              (* non-empty, whitespace-free *)
Definition name := list tok.           (* strings.Fields of the text; [] = no text *)
Definition vec3 := (N * N * N)%type.
Definition vec2 := (N * N)%type.
(* a face-corner token: v, vt, vn as written (1-based) and a spelling tag.  The reader de-duplicates corners by
   the token TEXT (map[string]int), so "1/2" and "01/2" or "1" and "1//" are different keys with equal numbers:
   tag 0 = the canonical decimal spelling v | v/vt | v//vn | v/vt/vn; any other spelling carries a non-zero
   tag that is unique per distinct token text of the file (assigned by the harness tokenizer). *)
Definition corner := (Z * option Z * option Z * N)%type.
Inductive line :=
| V (p : vec3) | VT (p : vec2) | VN (p : vec3)
| G (n : name) | UseMtl (n : name) | F (a b c : corner)
| Fn (cs : list corner)      (* an f line whose corner count is not 3: polygon, or too short *)
| Short                      (* a v / vt / vn line with fewer numbers than the reader indexes *)
| MtlLib (n : name) | O (n : name) | Other.

(* modeling.Mesh as far as OBJ is concerned; [] = attribute absent (SetFloatNAttribute deletes empty data);
   a material is nil (None) or has a Name, given by its space-separated pieces *)
Record mesh := { m_name : name; m_idx : list nat; m_pos : list vec3; m_uv : list vec2;
                 m_nrm : list vec3; m_mats : list (nat * option name) }.

Definition nonnil {A} (l : list A) : bool := match l with [] => false | _ => true end.
Definition opt_list {A} (o : option A) : list A := match o with Some x => [x] | None => [] end.

(* ---------- writer: obj.WriteMeshes ---------- *)
Record offs := { ov : nat; ot : nat; on : nat }.
Definition o0 : offs := {| ov := 0; ot := 0; on := 0 |}.

(* Mesh.AttributeLength: first of v3 (Position, Normal), then v2 *)
Definition attr_len (m : mesh) : nat :=
  match m_pos m, m_nrm m with
  | [], [] => length (m_uv m)
  | [], n => length n
  | p, _ => length p
  end.

Definition zi (k : nat) : Z := Z.of_nat k.
Definition wcorner (o : offs) (m : mesh) (i : nat) : corner :=
  (zi (i + 1 + ov o),
   if nonnil (m_uv m) then Some (zi (i + 1 + ot o)) else None,
   if nonnil (m_nrm m) then Some (zi (i + 1 + on o)) else None, 0%N).

(* shared = true: the pinned writer (one offset for v, vt and vn) *)
Definition advance (shared : bool) (o : offs) (m : mesh) : offs :=
  let a := attr_len m in
  {| ov := ov o + a;
     ot := if shared || nonnil (m_uv m) then ot o + a else ot o;
     on := if shared || nonnil (m_nrm m) then on o + a else on o |}.

Fixpoint tris_of (l : list nat) : option (list (nat * nat * nat)) :=
  match l with
  | [] => Some []
  | a :: b :: c :: r => match tris_of r with Some ts => Some ((a, b, c) :: ts) | None => None end
  | _ => None
  end.
Definition face_line (wc : nat -> corner) (t : nat * nat * nat) : line :=
  let '(a, b, c) := t in F (wc a) (wc b) (wc c).

(* faceWriter(indices, out, start, start+3*cnt, ...): tris.At past the end panics *)
Definition seg_lines (wc : nat -> corner) (idx : list nat) (start cnt : nat) : res (list line) :=
  let seg := firstn (3 * cnt) (skipn start idx) in
  if length seg <? 3 * cnt then Crash else
  match tris_of seg with Some ts => Ok (map (face_line wc) ts) | None => Crash end.

(* writeUsingMaterial: nil -> DefaultDiffuse, else the name with spaces removed *)
Definition mat_written (mt : option name) : name :=
  match mt with
  | None => ["DefaultDiffuse"%string]
  | Some [] => []
  | Some n => [String.concat "" n]
  end.

Fixpoint mat_lines (wc : nat -> corner) (idx : list nat) (start : nat) (mats : list (nat * option name))
  : res (list line) :=
  match mats with
  | [] => Ok []
  | (cnt, mt) :: r =>
      dor fs <- seg_lines wc idx start cnt;
      dor rest <- mat_lines wc idx (start + 3 * cnt) r;
      Ok (UseMtl (mat_written mt) :: fs ++ rest)
  end.

Definition body_lines (wc : nat -> corner) (m : mesh) : res (list line) :=
  match m_mats m with
  | [] => match tris_of (m_idx m) with Some ts => Ok (map (face_line wc) ts) | None => Crash end
  | mats => mat_lines wc (m_idx m) 0 mats
  end.

Definition mesh_lines (multi : bool) (o : offs) (m : mesh) : res (list line) :=
  dor body <- body_lines (wcorner o m) m;
  Ok ((if multi || nonnil (m_name m) then [G (m_name m)] else []) ++ body).

Fixpoint groups_lines (shared multi : bool) (o : offs) (ms : list mesh) : res (list line) :=
  match ms with
  | [] => Ok []
  | m :: r =>
      dor a <- mesh_lines multi o m;
      dor b <- groups_lines shared multi (advance shared o m) r;
      Ok (a ++ b)
  end.

Definition vlines (m : mesh) : list line := map V (m_pos m) ++ map VT (m_uv m) ++ map VN (m_nrm m).
Definition head_lines (mtl : option name) : list line :=
  Other :: match mtl with None => [] | Some f => [MtlLib f; O ["mesh"%string]] end.

Definition write_gen (shared : bool) (mtl : option name) (ms : list mesh) : res (list line) :=
  dor gl <- groups_lines shared (1 <? length ms) o0 ms;
  Ok (head_lines mtl ++ flat_map vlines ms ++ gl).
Definition write := write_gen false.            (* /repo HEAD (fix 74c7928) *)
Definition write_pinned := write_gen true.      (* snapshot ea40ecc *)

(* ---------- reader: obj.ReadMesh ---------- *)
Record wgeom := { w_name : name; w_tbl : list corner; w_tris : list nat; w_pos : list vec3;
                  w_uv : list vec2; w_nrm : list vec3; w_mats : list (nat * option name) }.
Definition wnew (n : name) (mats : list (nat * option name)) : wgeom :=
  {| w_name := n; w_tbl := []; w_tris := []; w_pos := []; w_uv := []; w_nrm := []; w_mats := mats |}.
Record rstate := { r_v : list vec3; r_vt : list vec2; r_vn : list vec3; r_since : nat;
                   r_done : list mesh; r_w : wgeom; r_libs : name }.
Definition rinit : rstate :=
  {| r_v := []; r_vt := []; r_vn := []; r_since := 0; r_done := []; r_w := wnew [] []; r_libs := [] |}.

(* which repairs are in the tree *)
Record rcfg := { close_at_g : bool;      (* f82d47b: close the open material range at g, reset the counter *)
                 bare_g : bool;          (* a g line without a name is the unnamed group *)
                 drop_partial : bool }.  (* attach vn / vt only when every corner of the group has one *)

Definition oz_eqb (a b : option Z) : bool :=
  match a, b with Some x, Some y => Z.eqb x y | None, None => true | _, _ => false end.
Definition corner_eqb (a b : corner) : bool :=
  let '(v, t, n, sp) := a in let '(v', t', n', sp') := b in Z.eqb v v' && oz_eqb t t' && oz_eqb n n' && N.eqb sp sp'.
Fixpoint find_idx {A} (eqb : A -> A -> bool) (x : A) (l : list A) : option nat :=
  match l with
  | [] => None
  | y :: r => if eqb x y then Some 0 else option_map S (find_idx eqb x r)
  end.

(* Go index z-1 into tbl; -1 is the reader's "absent" marker, other out-of-range values panic *)
Definition look {A} (tbl : list A) (z : Z) : res (option A) :=
  let i := (z - 1)%Z in
  if (i =? -1)%Z then Ok None else
  if (i <? 0)%Z then Crash else
  match nth_error tbl (Z.to_nat i) with Some x => Ok (Some x) | None => Crash end.
Definition look_opt {A} (tbl : list A) (o : option Z) : res (option A) :=
  match o with None => Ok None | Some z => look tbl z end.
Definition look_req {A} (tbl : list A) (z : Z) : res A :=
  dor o <- look tbl z; match o with Some x => Ok x | None => Crash end.

Definition corner_step (st : rstate) (g : wgeom) (c : corner) : res (wgeom * nat) :=
  match find_idx corner_eqb c (w_tbl g) with
  | Some p => Ok (g, p)
  | None =>
      let '(v, vt, vn, _) := c in
      dor p <- look_req (r_v st) v;
      dor n <- look_opt (r_vn st) vn;
      dor t <- look_opt (r_vt st) vt;
      Ok ({| w_name := w_name g; w_tbl := w_tbl g ++ [c]; w_tris := w_tris g;
             w_pos := w_pos g ++ [p]; w_uv := w_uv g ++ opt_list t; w_nrm := w_nrm g ++ opt_list n;
             w_mats := w_mats g |}, length (w_tbl g))
  end.

Fixpoint set_last (mats : list (nat * option name)) (c : nat) : list (nat * option name) :=
  match mats with
  | [] => []
  | [(_, a)] => [(c, a)]
  | x :: r => x :: set_last r c
  end.
Definition close_mats (since : nat) (mats : list (nat * option name)) : list (nat * option name) :=
  if (0 <? since) && nonnil mats then set_last mats since else mats.

Definition keep_full {A} (drop : bool) (n : nat) (l : list A) : list A :=
  if drop then (if length l =? n then l else []) else l.
Definition to_mesh (cfg : rcfg) (g : wgeom) (mats : list (nat * option name)) : mesh :=
  {| m_name := w_name g; m_idx := w_tris g; m_pos := w_pos g;
     m_uv := keep_full (drop_partial cfg) (length (w_pos g)) (w_uv g);
     m_nrm := keep_full (drop_partial cfg) (length (w_pos g)) (w_nrm g); m_mats := mats |}.

Definition set_w (st : rstate) (g : wgeom) : rstate :=
  {| r_v := r_v st; r_vt := r_vt st; r_vn := r_vn st; r_since := r_since st; r_done := r_done st;
     r_w := g; r_libs := r_libs st |}.
Definition set_name (g : wgeom) (n : name) : wgeom :=
  {| w_name := n; w_tbl := w_tbl g; w_tris := w_tris g; w_pos := w_pos g; w_uv := w_uv g;
     w_nrm := w_nrm g; w_mats := w_mats g |}.
Definition set_mats (g : wgeom) (mats : list (nat * option name)) : wgeom :=
  {| w_name := w_name g; w_tbl := w_tbl g; w_tris := w_tris g; w_pos := w_pos g; w_uv := w_uv g;
     w_nrm := w_nrm g; w_mats := mats |}.
Definition add_tri (g : wgeom) (a b c : nat) : wgeom :=
  {| w_name := w_name g; w_tbl := w_tbl g; w_tris := w_tris g ++ [a; b; c]; w_pos := w_pos g; w_uv := w_uv g;
     w_nrm := w_nrm g; w_mats := w_mats g |}.

Definition default_name : name := ["Default"%string].

Definition face_step (st : rstate) (a b c : corner) : res rstate :=
  dor '(g1, p1) <- corner_step st (r_w st) a;
  dor '(g2, p2) <- corner_step st g1 b;
  dor '(g3, p3) <- corner_step st g2 c;
  Ok {| r_v := r_v st; r_vt := r_vt st; r_vn := r_vn st; r_since := S (r_since st);
        r_done := r_done st; r_w := add_tri g3 p1 p2 p3; r_libs := r_libs st |}.

Definition step (cfg : rcfg) (st : rstate) (l : line) : res rstate :=
  match l with
  | V p => Ok {| r_v := r_v st ++ [p]; r_vt := r_vt st; r_vn := r_vn st; r_since := r_since st;
                 r_done := r_done st; r_w := r_w st; r_libs := r_libs st |}
  | VT p => Ok {| r_v := r_v st; r_vt := r_vt st ++ [p]; r_vn := r_vn st; r_since := r_since st;
                  r_done := r_done st; r_w := r_w st; r_libs := r_libs st |}
  | VN p => Ok {| r_v := r_v st; r_vt := r_vt st; r_vn := r_vn st ++ [p]; r_since := r_since st;
                  r_done := r_done st; r_w := r_w st; r_libs := r_libs st |}
  | MtlLib n =>
      if nonnil n then Ok {| r_v := r_v st; r_vt := r_vt st; r_vn := r_vn st; r_since := r_since st;
                             r_done := r_done st; r_w := r_w st; r_libs := r_libs st ++ n |}
      else Declared
  | UseMtl n =>
      if nonnil n then
        let g := r_w st in
        let mats := if 0 <? r_since st
                    then (if nonnil (w_mats g) then set_last (w_mats g) (r_since st)
                          else [(r_since st, Some default_name)])
                    else w_mats g in
        Ok {| r_v := r_v st; r_vt := r_vt st; r_vn := r_vn st; r_since := 0; r_done := r_done st;
              r_w := set_mats g (mats ++ [(0, Some n)]); r_libs := r_libs st |}
      else Declared
  | G n =>
      if nonnil n || bare_g cfg then
        let g := r_w st in
        if nonnil (w_tris g) then
          if close_at_g cfg then
            Ok {| r_v := r_v st; r_vt := r_vt st; r_vn := r_vn st; r_since := 0;
                  r_done := r_done st ++ [to_mesh cfg g (close_mats (r_since st) (w_mats g))];
                  r_w := wnew n []; r_libs := r_libs st |}
          else
            Ok {| r_v := r_v st; r_vt := r_vt st; r_vn := r_vn st; r_since := r_since st;
                  r_done := r_done st ++ [to_mesh cfg g (w_mats g)];
                  r_w := wnew n []; r_libs := r_libs st |}
        else Ok (set_w st (set_name g n))
      else Declared
  | F a b c => face_step st a b c
  (* only components[1..3] are looked at: corners past the third are ignored, a missing one is an index panic *)
  | Fn (a :: b :: c :: _) => face_step st a b c
  | Fn _ => Crash
  | Short => Crash
  | O _ | Other => Ok st
  end.

Fixpoint run (cfg : rcfg) (st : rstate) (ls : list line) : res rstate :=
  match ls with
  | [] => Ok st
  | l :: r => dor st' <- step cfg st l; run cfg st' r
  end.

Definition finish (cfg : rcfg) (st : rstate) : list mesh * name :=
  (r_done st ++ [to_mesh cfg (r_w st) (close_mats (r_since st) (w_mats (r_w st)))], r_libs st).

Definition read_gen (cfg : rcfg) (ls : list line) : res (list mesh * name) :=
  dor st <- run cfg rinit ls; Ok (finish cfg st).

Definition cfg_pinned : rcfg := {| close_at_g := false; bare_g := false; drop_partial := false |}.
Definition cfg_f82 : rcfg := {| close_at_g := true; bare_g := false; drop_partial := false |}.
Definition cfg_full : rcfg := {| close_at_g := true; bare_g := true; drop_partial := true |}.

(* ---------- observables ---------- *)
Definition content := (option vec3 * option vec2 * option vec3)%type.
Definition corner_content (m : mesh) (i : nat) : content :=
  (nth_error (m_pos m) i, nth_error (m_uv m) i, nth_error (m_nrm m) i).
Definition corners (m : mesh) : list content := map (corner_content m) (m_idx m).
Definition tri_mats (mats : list (nat * option name)) : list (option name) :=
  flat_map (fun cm => repeat (snd cm) (fst cm)) mats.
Definition gobs := (name * list content * list (option name))%type.
Definition obs (m : mesh) : gobs := (m_name m, corners m, tri_mats (m_mats m)).
(* what a mesh looks like after its material names went through the writer *)
Definition obs_written (m : mesh) : gobs :=
  (m_name m, corners m, map (fun mt => Some (mat_written mt)) (tri_mats (m_mats m))).

(* ---------- direct semantics of an OBJ line list (no de-duplication, no counters) ---------- *)
Record sstate := { s_v : list vec3; s_vt : list vec2; s_vn : list vec3; s_done : list gobs;
                   s_nm : name; s_cs : list content; s_tg : list (option name); s_cur : option name }.
Definition sinit : sstate :=
  {| s_v := []; s_vt := []; s_vn := []; s_done := []; s_nm := []; s_cs := []; s_tg := []; s_cur := None |}.

Definition slook {A} (tbl : list A) (o : option Z) : option A :=
  match o with
  | None => None
  | Some z => if (z <=? 0)%Z then None else nth_error tbl (Z.to_nat (z - 1))
  end.
Definition scontent (st : sstate) (c : corner) : content :=
  let '(v, vt, vn, _) := c in (slook (s_v st) (Some v), slook (s_vt st) vt, slook (s_vn st) vn).

Definition has_uv (c : content) : bool := match c with (_, Some _, _) => true | _ => false end.
Definition has_nrm (c : content) : bool := match c with (_, _, Some _) => true | _ => false end.
(* an attribute belongs to the group only if every corner of the group carries it *)
Definition normalise (cs : list content) : list content :=
  let au := forallb has_uv cs in let an := forallb has_nrm cs in
  map (fun c => let '(p, u, n) := c in (p, if au then u else None, if an then n else None)) cs.
Definition final_tags (cur : option name) (tg : list (option name)) : list (option name) :=
  match cur with
  | None => []
  | Some _ => map (fun t => match t with Some n => Some n | None => Some default_name end) tg
  end.
Definition sclose (st : sstate) : gobs := (s_nm st, normalise (s_cs st), final_tags (s_cur st) (s_tg st)).

(* a polygon is the fan of its corners: (c0, c1, c2), (c0, c2, c3), ... *)
Fixpoint fan {A} (c0 : A) (cs : list A) : list A :=
  match cs with
  | a :: (b :: _) as r => c0 :: a :: b :: fan c0 r
  | _ => []
  end.
Definition poly_corners {A} (cs : list A) : list A := match cs with [] => [] | c0 :: r => fan c0 r end.

Definition sstep (st : sstate) (l : line) : sstate :=
  match l with
  | V p => {| s_v := s_v st ++ [p]; s_vt := s_vt st; s_vn := s_vn st; s_done := s_done st; s_nm := s_nm st;
              s_cs := s_cs st; s_tg := s_tg st; s_cur := s_cur st |}
  | VT p => {| s_v := s_v st; s_vt := s_vt st ++ [p]; s_vn := s_vn st; s_done := s_done st; s_nm := s_nm st;
               s_cs := s_cs st; s_tg := s_tg st; s_cur := s_cur st |}
  | VN p => {| s_v := s_v st; s_vt := s_vt st; s_vn := s_vn st ++ [p]; s_done := s_done st; s_nm := s_nm st;
               s_cs := s_cs st; s_tg := s_tg st; s_cur := s_cur st |}
  | G n =>
      if nonnil (s_cs st)
      then {| s_v := s_v st; s_vt := s_vt st; s_vn := s_vn st; s_done := s_done st ++ [sclose st]; s_nm := n;
              s_cs := []; s_tg := []; s_cur := None |}
      else {| s_v := s_v st; s_vt := s_vt st; s_vn := s_vn st; s_done := s_done st; s_nm := n;
              s_cs := s_cs st; s_tg := s_tg st; s_cur := s_cur st |}
  | UseMtl n => {| s_v := s_v st; s_vt := s_vt st; s_vn := s_vn st; s_done := s_done st; s_nm := s_nm st;
                   s_cs := s_cs st; s_tg := s_tg st; s_cur := Some n |}
  | F a b c => {| s_v := s_v st; s_vt := s_vt st; s_vn := s_vn st; s_done := s_done st; s_nm := s_nm st;
                  s_cs := s_cs st ++ [scontent st a; scontent st b; scontent st c];
                  s_tg := s_tg st ++ [s_cur st]; s_cur := s_cur st |}
  | Fn cs => let tri := map (scontent st) (poly_corners cs) in
             {| s_v := s_v st; s_vt := s_vt st; s_vn := s_vn st; s_done := s_done st; s_nm := s_nm st;
                s_cs := s_cs st ++ tri; s_tg := s_tg st ++ repeat (s_cur st) (length tri / 3); s_cur := s_cur st |}
  | MtlLib _ | O _ | Other | Short => st
  end.
Definition srun (st : sstate) (ls : list line) : sstate := fold_left sstep ls st.
Definition file_groups (ls : list line) : list gobs :=
  let st := srun sinit ls in s_done st ++ [sclose st].

Definition lib_names (ls : list line) : name :=
  flat_map (fun l => match l with MtlLib n => n | _ => [] end) ls.

(* ---------- validity of a file / well-formedness of a mesh (executable) ---------- *)
Definition idx_ok (n : nat) (z : Z) : bool := (1 <=? z)%Z && (z <=? Z.of_nat n)%Z.
Definition oidx_ok (n : nat) (o : option Z) : bool := match o with None => true | Some z => idx_ok n z end.
Definition corner_ok (nv nt nn : nat) (c : corner) : bool :=
  let '(v, t, n, _) := c in idx_ok nv v && oidx_ok nt t && oidx_ok nn n.

(* a triangulated OBJ: every f line has three corners, every index refers to a v / vt / vn line above it; usemtl and mtllib have an argument *)
Fixpoint valid_from (nv nt nn : nat) (ls : list line) : bool :=
  match ls with
  | [] => true
  | V _ :: r => valid_from (S nv) nt nn r
  | VT _ :: r => valid_from nv (S nt) nn r
  | VN _ :: r => valid_from nv nt (S nn) r
  | F a b c :: r => corner_ok nv nt nn a && corner_ok nv nt nn b && corner_ok nv nt nn c && valid_from nv nt nn r
  | UseMtl n :: r => nonnil n && valid_from nv nt nn r
  | MtlLib n :: r => nonnil n && valid_from nv nt nn r
  | Fn _ :: _ | Short :: _ => false            (* not a triangulated / well-formed OBJ *)
  | (G _ | O _ | Other) :: r => valid_from nv nt nn r
  end.
Definition valid (ls : list line) : bool := valid_from 0 0 0 ls.
(* trees without the bare-g repair additionally need named groups *)
Definition named_groups (ls : list line) : bool :=
  forallb (fun l => match l with G n => nonnil n | _ => true end) ls.

Definition sum_counts (mats : list (nat * option name)) : nat := fold_right (fun cm a => fst cm + a) 0 mats.
Definition mat_ok (cm : nat * option name) : bool := match snd cm with Some [] => false | _ => true end.
Definition wf_mesh (m : mesh) : bool :=
  (length (m_idx m) mod 3 =? 0)
  && forallb (fun i => i <? length (m_pos m)) (m_idx m)
  && ((length (m_uv m) =? 0) || (length (m_uv m) =? length (m_pos m)))
  && ((length (m_nrm m) =? 0) || (length (m_nrm m) =? length (m_pos m)))
  && (negb (nonnil (m_mats m)) || (3 * sum_counts (m_mats m) =? length (m_idx m)))
  && forallb mat_ok (m_mats m).
(* every mesh but the last has a triangle (the reader never emits an empty group except the last) *)
Fixpoint nonempty_but_last (ms : list mesh) : bool :=
  match ms with
  | [] => true
  | [_] => true
  | m :: r => nonnil (m_idx m) && nonempty_but_last r
  end.
Definition wf_list (ms : list mesh) : bool := nonnil ms && forallb wf_mesh ms && nonempty_but_last ms.

(* ---------- executable equality (correspondence check) ---------- *)
Fixpoint list_eqb {A} (eqb : A -> A -> bool) (a b : list A) : bool :=
  match a, b with
  | [], [] => true
  | x :: a', y :: b' => eqb x y && list_eqb eqb a' b'
  | _, _ => false
  end.
Definition opt_eqb {A} (eqb : A -> A -> bool) (a b : option A) : bool :=
  match a, b with Some x, Some y => eqb x y | None, None => true | _, _ => false end.
Definition name_eqb : name -> name -> bool := list_eqb String.eqb.
Definition vec3_eqb (a b : vec3) : bool :=
  let '(x, y, z) := a in let '(x', y', z') := b in N.eqb x x' && N.eqb y y' && N.eqb z z'.
Definition vec2_eqb (a b : vec2) : bool := let '(x, y) := a in let '(x', y') := b in N.eqb x x' && N.eqb y y'.
Definition line_eqb (a b : line) : bool :=
  match a, b with
  | V p, V q | VN p, VN q => vec3_eqb p q
  | VT p, VT q => vec2_eqb p q
  | G n, G n' | UseMtl n, UseMtl n' | MtlLib n, MtlLib n' | O n, O n' => name_eqb n n'
  | F a b c, F a' b' c' => corner_eqb a a' && corner_eqb b b' && corner_eqb c c'
  | Fn cs, Fn cs' => list_eqb corner_eqb cs cs'
  | Other, Other | Short, Short => true
  | _, _ => false
  end.
Definition mat_eqb (a b : nat * option name) : bool := Nat.eqb (fst a) (fst b) && opt_eqb name_eqb (snd a) (snd b).
Definition mesh_eqb (a b : mesh) : bool :=
  name_eqb (m_name a) (m_name b) && list_eqb Nat.eqb (m_idx a) (m_idx b)
  && list_eqb vec3_eqb (m_pos a) (m_pos b) && list_eqb vec2_eqb (m_uv a) (m_uv b)
  && list_eqb vec3_eqb (m_nrm a) (m_nrm b) && list_eqb mat_eqb (m_mats a) (m_mats b).
Definition content_eqb (a b : content) : bool :=
  let '(p, u, n) := a in let '(p', u', n') := b in
  opt_eqb vec3_eqb p p' && opt_eqb vec2_eqb u u' && opt_eqb vec3_eqb n n'.
Definition gobs_eqb (a b : gobs) : bool :=
  let '(nm, cs, tg) := a in let '(nm', cs', tg') := b in
  name_eqb nm nm' && list_eqb content_eqb cs cs' && list_eqb (opt_eqb name_eqb) tg tg'.
Definition res_eqb {A} (eqb : A -> A -> bool) (a b : res A) : bool :=
  match a, b with
  | Ok x, Ok y => eqb x y
  | Declared, Declared => true
  | Crash, Crash => true
  | _, _ => false
  end.
