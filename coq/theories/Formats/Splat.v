(* C15: the .splat codec (formats/splat/write.go, read.go) and the SplatPly property table
   (formats/ply/types.go).  Executable model, no proofs.

   Value domains.  Positions and scales are float32 *words* (N < 2^32): the harness applies Go's own
   float32()/math.Float32bits (and math.Exp for the scale) to the input, the model says where the
   words go.  Colour, opacity and rotation are quantised to bytes by exact rational arithmetic:
   every float64 is a dyadic rational [Dy m e] = m * 2^e, the model computes in Q.
   exp/log/sigmoid are not in the model: [sp_scale] is the word of float32(exp(scale)),
   [sp_alpha] is sigmoid(opacity) (Section variables in the theorems, Go-side tolerance checks in
   the binding). *)
From Coq Require Export QArith Qround Qabs.
From PF Require Import Base.Bytes.
Open Scope N_scope.

(* ---- dyadic rationals: the exact value of a float64 ---- *)
Inductive dy := Dy (m e : Z).
Definition dy2q (d : dy) : Q :=
  let '(Dy m e) := d in
  if (0 <=? e)%Z then inject_Z (m * 2 ^ e) else Qmake m (Z.to_pos (2 ^ (- e))).

(* const SH_C0 = 0.28209479177387814, as the float64 it is rounded to *)
Definition SH_C0 : Q := Qmake 5081767996463981 18014398509481984.

(* ---- quantisers (write.go:62-78) ---- *)
Definition qmin (a b : Q) : Q := if Qle_bool a b then a else b.
Definition qmax (a b : Q) : Q := if Qle_bool a b then b else a.
(* modeling.Clamp / vector.Clamp: math.Max(math.Min(v, max), min) *)
Definition clamp (v lo hi : Q) : Q := qmax (qmin v hi) lo.

(* fdc.Scale(SH_C0).Add(Fill(0.5)) — before .Clamp(0,1) *)
Definition col_pre (c : Q) : Q := (c * SH_C0 + (1 # 2))%Q.
(* byte(clamp01(v) * 255): conversion truncates, the operand is in [0,255] *)
Definition qcol_of (v : Q) : Z := Qfloor (clamp v 0 1 * 255)%Q.
Definition qcol (c : Q) : Z := qcol_of (col_pre c).
(* byte(alpha * 255), alpha = 1/(1+exp(-opacity)) in [0,1] *)
Definition qalpha (a : Q) : Z := Qfloor (a * 255)%Q.
(* byte(modeling.Clamp(rot*128 + 128, 0, 255)) — HEAD (after faf011e) *)
Definition rot_pre (r : Q) : Q := (r * 128 + 128)%Q.
Definition qrot_of (v : Q) : Z := Qfloor (clamp v 0 255).
Definition qrot (r : Q) : Z := qrot_of (rot_pre r).
(* byte(rot*128 + 128) — pinned tree ea40ecc: no clamp, the conversion wraps modulo 256 (amd64) *)
Definition qrot_pinned (r : Q) : Z := (Qfloor (rot_pre r) mod 256)%Z.

(* ---- dequantisers (read.go:43-57) ---- *)
Definition deq_col (b : N) : Q := (((Z.of_N b # 1) / 255 - (1 # 2)) / SH_C0)%Q.
Definition deq_alpha (b : N) : Q := ((Z.of_N b # 1) / 255)%Q.        (* opacity = -log(1/a - 1) of this *)
Definition deq_rot (b : N) : Q := (((Z.of_N b # 1) - 128) / 128)%Q.

(* ---- records ---- *)
Definition w3 := (N * N * N)%type.
Definition b4 := (N * N * N * N)%type.
Definition q3 := (Q * Q * Q)%type.
Definition q4 := (Q * Q * Q * Q)%type.

(* a splat as the writer sees it after the float-only steps *)
Record splat := {
  sp_pos : w3;       (* Float32bits(float32(pos)) *)
  sp_scale : w3;     (* Float32bits(float32(exp(scale))) *)
  sp_col : q3;       (* FDC *)
  sp_alpha : Q;      (* sigmoid(opacity) *)
  sp_rot : q4 }.

(* the 32 stored bytes, as fields *)
Record raw := { r_pos : w3; r_scale : w3; r_cb : b4; r_rb : b4 }.

Definition zb (z : Z) : N := Z.to_N z.
Definition quantise_with (qr : Q -> Z) (s : splat) : raw :=
  let '(cr, cg, cb) := sp_col s in
  let '(rx, ry, rz, rw) := sp_rot s in
  {| r_pos := sp_pos s; r_scale := sp_scale s;
     r_cb := (zb (qcol cr), zb (qcol cg), zb (qcol cb), zb (qalpha (sp_alpha s)));
     r_rb := (zb (qr rx), zb (qr ry), zb (qr rz), zb (qr rw)) |}.
Definition quantise := quantise_with qrot.
Definition quantise_pinned := quantise_with qrot_pinned.

Definition enc_w3 (v : w3) : list N := let '(x, y, z) := v in le32 x ++ le32 y ++ le32 z.
Definition enc_b4 (v : b4) : list N := let '(a, b, c, d) := v in [a; b; c; d].
Definition enc_raw (r : raw) : list N :=
  enc_w3 (r_pos r) ++ enc_w3 (r_scale r) ++ enc_b4 (r_cb r) ++ enc_b4 (r_rb r).

(* splat.Write on a point cloud with the five required attributes (an empty cloud writes nothing) *)
Definition write_raw (rs : list raw) : list N := flat_map enc_raw rs.
Definition write (cloud : list splat) : list N := write_raw (map quantise cloud).
Definition write_pinned (cloud : list splat) : list N := write_raw (map quantise_pinned cloud).

(* ---- reader ---- *)
Definition get32 (l : list N) : option (N * list N) :=
  do '(a, r) <- take 4 l; do w <- de_le32 a; Some (w, r).
Definition get_w3 (l : list N) : option (w3 * list N) :=
  do '(x, r) <- get32 l; do '(y, r) <- get32 r; do '(z, r) <- get32 r; Some ((x, y, z), r).
Definition get_b4 (l : list N) : option (b4 * list N) :=
  match l with a :: b :: c :: d :: r => Some ((a, b, c, d), r) | _ => None end.
Definition get_raw (l : list N) : option (raw * list N) :=
  do '(p, r) <- get_w3 l; do '(s, r) <- get_w3 r; do '(c, r) <- get_b4 r; do '(q, r) <- get_b4 r;
  Some ({| r_pos := p; r_scale := s; r_cb := c; r_rb := q |}, r).

(* the io.ReadFull loop of splat.Read: a clean EOF (no byte of a next record) ends the file
   without error; 1..31 left-over bytes are io.ErrUnexpectedEOF, returned *together with* the
   splats read so far.  [true] = no error.  fuel = bytes available (a record consumes 32 >= 1). *)
Fixpoint read_raw (fuel : nat) (l : list N) : list raw * bool :=
  match l with
  | [] => ([], true)
  | _ => match fuel with
         | O => ([], false)
         | S f => match get_raw l with
                  | None => ([], false)
                  | Some (r, rest) => let '(rs, ok) := read_raw f rest in (r :: rs, ok)
                  end
         end
  end.

(* what splat.Read returns per splat, before the float-only steps *)
Record rsplat := {
  o_pos : w3;        (* the float32 whose float64 value is returned *)
  o_scale : w3;      (* the float32 whose log is returned *)
  o_col : q3; o_alpha : Q; o_rot : q4 }.

Definition dequantise (r : raw) : rsplat :=
  let '(cr, cg, cb, ca) := r_cb r in
  let '(rx, ry, rz, rw) := r_rb r in
  {| o_pos := r_pos r; o_scale := r_scale r;
     o_col := (deq_col cr, deq_col cg, deq_col cb); o_alpha := deq_alpha ca;
     o_rot := (deq_rot rx, deq_rot ry, deq_rot rz, deq_rot rw) |}.

Definition read (bytes : list N) : list rsplat * bool :=
  let '(rs, ok) := read_raw (length bytes) bytes in (map dequantise rs, ok).

(* well-formedness *)
Definition w3_ok (v : w3) : Prop := let '(x, y, z) := v in word32 x /\ word32 y /\ word32 z.
Definition b4_ok (v : b4) : Prop := let '(a, b, c, d) := v in is_byte a /\ is_byte b /\ is_byte c /\ is_byte d.
Definition raw_ok (r : raw) : Prop := w3_ok (r_pos r) /\ w3_ok (r_scale r) /\ b4_ok (r_cb r) /\ b4_ok (r_rb r).
Definition splat_ok (s : splat) : Prop :=
  w3_ok (sp_pos s) /\ w3_ok (sp_scale s) /\ (0 <= sp_alpha s <= 1)%Q.

(* ---- float rounding margin used by the correspondence only ----
   Go evaluates c*SH_C0+0.5, alpha*255 and r*128+128 in float64; the result differs from the exact
   value by at most (|x|+2)*2^-53.  [x] is computed exactly by Go when it is a short dyadic. *)
Definition short_dyadic (d : dy) : bool :=
  let '(Dy m e) := d in (-30 <=? e)%Z && (e <=? 8)%Z && (Z.abs m <? 2 ^ 16)%Z.
Definition margin (x : Q) : Q := ((Qabs x + 1) * (1 # 35184372088832))%Q.      (* (|x|+1) * 2^-45 *)

(* ---- the SplatPly writer table (formats/ply/types.go:30-85) and the default reader's table
   (formats/ply/reader.go:224-314 + LoadUnspecifiedProperties) ---- *)
From Coq Require Import String.
Open Scope string_scope.
Inductive akind := K1 | K3 | K4.
(* attribute name, kind, PLY property names in component order *)
Definition wentry := (string * akind * list string)%type.

Definition digit (n : nat) : string :=
  String (Ascii.ascii_of_nat (48 + n)) EmptyString.
Definition nat2s (n : nat) : string :=
  if Nat.ltb n 10 then digit n else digit (Nat.div n 10) ++ digit (Nat.modulo n 10).   (* n < 100 *)

Definition frest (i : nat) : wentry := ("f_rest_" ++ nat2s i, K1, ["f_rest_" ++ nat2s i]).
Definition splatply_table : list wentry :=
  [ ("Position", K3, ["x"; "y"; "z"]);
    ("Normal", K3, ["nx"; "ny"; "nz"]);
    ("FDC", K3, ["f_dc_0"; "f_dc_1"; "f_dc_2"]);
    ("Scale", K3, ["scale_0"; "scale_1"; "scale_2"]);
    ("Rotation", K4, ["rot_0"; "rot_1"; "rot_2"; "rot_3"]);
    ("Opacity", K1, ["opacity"]) ] ++ map frest (seq 0 45).

(* MeshWriter.Write keeps the writers whose attribute the mesh has, in table order *)
Definition has (present : list string) (a : string) : bool := existsb (String.eqb a) present.
Definition splatply_props (present : list string) : list string :=
  flat_map (fun '(a, _, ps) => if has present a then ps else []) splatply_table.

(* the default reader: named vector readers (only the ones whose PLY names the splat table can
   produce), every other scalar property becomes a Float1 attribute of its own name *)
Definition reader_table : list wentry :=
  [ ("Position", K3, ["x"; "y"; "z"]);
    ("Normal", K3, ["nx"; "ny"; "nz"]);
    ("FDC", K3, ["f_dc_0"; "f_dc_1"; "f_dc_2"]);
    ("Opacity", K1, ["opacity"]);
    ("Scale", K3, ["scale_0"; "scale_1"; "scale_2"]);
    ("Rotation", K4, ["rot_0"; "rot_1"; "rot_2"; "rot_3"]) ].
Fixpoint index_of (s : string) (l : list string) (k : nat) : option nat :=
  match l with [] => None | x :: r => if String.eqb s x then Some k else index_of s r (S k) end.
(* PLY property name -> (attribute, component) *)
Definition reader_lookup (p : string) : string * nat :=
  match flat_map (fun '(a, _, ps) => match index_of p ps 0 with Some k => [(a, k)] | None => [] end) reader_table with
  | x :: _ => x
  | [] => (p, 0%nat)
  end.
Close Scope string_scope.

(* body of the binary little-endian vertex element: per vertex, the float32 words in property order *)
Definition ply_body (rows : list (list N)) : list N := flat_map (flat_map le32) rows.
