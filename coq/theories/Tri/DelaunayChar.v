(* C20 — vocabulary of the unconditional correctness theorem (definitions only; proofs:
   Tri/BowyerWatsonComplete.v).

   The run of bowyerWatson is characterised exactly: before insertion k the triangulation holds, up to
   rotation of a triple, precisely the clockwise triangles over the points inserted so far (incl. the
   three super-triangle vertices) whose circumcircle contains none of those points (is_dt).  This needs
   the point array P = input ++ super triangle to be in general position in the strong sense: no three
   points on a line AND no four on a circle — decidable (gp_strongb) and checked per input. *)
From Coq Require Import List ZArith QArith Bool Arith.
From PF Require Import Tri.Delaunay Tri.BowyerWatson.
Import ListNotations.
Open Scope Q_scope.

(* a triangle is a cyclic triple *)
Definition rot (t : tri) : tri := let '(a, b, c) := t in (b, c, a).
Definition rot_eq (t u : tri) : Prop := u = t \/ u = rot t \/ u = rot (rot t).

(* general position of a point array: any three different entries are not collinear, any four
   different entries are not concyclic *)
Definition gp_strong (P : list pt) : Prop :=
  (forall i j k, (i < length P)%nat -> (j < length P)%nat -> (k < length P)%nat ->
     i <> j -> j <> k -> k <> i ->
     ~ orient (nth i P pzero) (nth j P pzero) (nth k P pzero) == 0) /\
  (forall i j k l, (i < length P)%nat -> (j < length P)%nat -> (k < length P)%nat -> (l < length P)%nat ->
     i <> j -> i <> k -> i <> l -> j <> k -> j <> l -> k <> l ->
     ~ incircle (nth i P pzero) (nth j P pzero) (nth k P pzero) (nth l P pzero) == 0).

(* decision procedure: increasing index tuples only (the predicates are alternating) *)
Fixpoint tails {A} (l : list A) : list (A * list A) :=
  match l with
  | [] => []
  | x :: xs => (x, xs) :: tails xs
  end.
Definition gp3b (P : list pt) : bool :=
  forallb (fun '(a, l1) => forallb (fun '(b, l2) => forallb (fun c =>
    negb (Qeq_bool (orient a b c) 0)) l2) (tails l1)) (tails P).
Definition gp4b (P : list pt) : bool :=
  forallb (fun '(a, l1) => forallb (fun '(b, l2) => forallb (fun '(c, l3) => forallb (fun d =>
    negb (Qeq_bool (incircle a b c d) 0)) l3) (tails l2)) (tails l1)) (tails P).
Definition gp_strongb (P : list pt) : bool := gp3b P && gp4b P.

(* t is a Delaunay triangle of the points marked old: corners old, strictly clockwise, no old point
   strictly inside the circumcircle (the algorithm's own determinant test) *)
Definition is_dt (P : list pt) (old : nat -> Prop) (t : tri) : Prop :=
  (forall a, In a (tri_verts t) -> old a) /\
  gorient (resolve P t) < 0 /\
  forall j, old j -> 0 <= gincircle (resolve P t) (nth j P pzero).

(* insertion time: the super vertices n, n+1, n+2 first, then 0, 1, ... *)
Definition rank (n j : nat) : nat := if (j <? n)%nat then (j + 3)%nat else (j - n)%nat.
(* the last corner of a stored triple is the most recently inserted one (fillHole writes
   {edge[0], edge[1], point}); hence no two stored triples are rotations of each other *)
Definition last_newest (n : nat) (T : list tri) : Prop :=
  forall a b c, In (a, b, c) T -> (rank n a < rank n c)%nat /\ (rank n b < rank n c)%nat.

(* the triangulation before insertion k is exactly the Delaunay triangulation of the old points *)
Definition dt_complete (P : list pt) (old : nat -> Prop) (T : list tri) : Prop :=
  forall t, is_dt P old t -> exists t', rot_eq t t' /\ In t' T.
