(* C20 — exact 2-D predicates over Q, the specification of "consistently wound Delaunay
   triangulation" and an executable checker for it (definitions only; proofs: DelaunayProofs.v).

   orient / incircle are literally the expressions of modeling/triangulation/bowyer_watson.go
   (Triangle.CounterClockwise, Triangle.InsideCircumcircle) over exact rationals. *)
From Coq Require Import List ZArith QArith Bool Arith.
Import ListNotations.
Open Scope Q_scope.

Definition pt := (Q * Q)%type.
Definition tri := (nat * nat * nat)%type.     (* vertex indices *)
Definition gtri := (pt * pt * pt)%type.       (* resolved corner coordinates *)

Definition Qltb (x y : Q) : bool := (Qnum x * QDen y <? Qnum y * QDen x)%Z.

(* (b.X-a.X)*(c.Y-a.Y) - (c.X-a.X)*(b.Y-a.Y); > 0 is Go's CounterClockwise *)
Definition orient (a b c : pt) : Q :=
  (fst b - fst a) * (snd c - snd a) - (fst c - fst a) * (snd b - snd a).

(* the determinant of InsideCircumcircle; Go answers det < 0 (triangles are kept clockwise) *)
Definition incircle (a b c p : pt) : Q :=
  let ax := fst a - fst p in let ay := snd a - snd p in
  let bx := fst b - fst p in let by_ := snd b - snd p in
  let cx := fst c - fst p in let cy := snd c - snd p in
  (ax * ax + ay * ay) * (bx * cy - cx * by_)
  - (bx * bx + by_ * by_) * (ax * cy - cx * ay)
  + (cx * cx + cy * cy) * (ax * by_ - bx * ay).

Definition dist2 (p u : pt) : Q :=
  (fst p - fst u) * (fst p - fst u) + (snd p - snd u) * (snd p - snd u).

Definition pzero : pt := (0, 0).
Definition resolve (pts : list pt) (t : tri) : gtri :=
  let '(i, j, k) := t in (nth i pts pzero, nth j pts pzero, nth k pts pzero).
Definition gorient (g : gtri) : Q := let '(a, b, c) := g in orient a b c.

(* ------------------------------------------------------------------ specification *)

Definition idx_ok (n : nat) (t : tri) : Prop :=
  let '(i, j, k) := t in (i < n)%nat /\ (j < n)%nat /\ (k < n)%nat.

(* open interior: strictly on the same side of the three directed edges *)
Definition Inside (g : gtri) (p : pt) : Prop :=
  let '(a, b, c) := g in
  (0 < orient a b p /\ 0 < orient b c p /\ 0 < orient c a p) \/
  (orient a b p < 0 /\ orient b c p < 0 /\ orient c a p < 0).

(* p lies strictly inside a circle through the three corners *)
Definition InCircum (g : gtri) (p : pt) : Prop :=
  let '(a, b, c) := g in
  exists (u : pt) (r2 : Q),
    dist2 a u == r2 /\ dist2 b u == r2 /\ dist2 c u == r2 /\ dist2 p u < r2.

Definition same_winding (pts : list pt) (ts : list tri) : Prop :=
  (forall t, In t ts -> 0 < gorient (resolve pts t)) \/
  (forall t, In t ts -> gorient (resolve pts t) < 0).

Definition no_overlap (pts : list pt) (ts : list tri) : Prop :=
  forall i j t u, i <> j -> nth_error ts i = Some t -> nth_error ts j = Some u ->
    forall p, ~ (Inside (resolve pts t) p /\ Inside (resolve pts u) p).

Definition empty_circles (pts : list pt) (ts : list tri) : Prop :=
  forall t p, In t ts -> In p pts -> ~ InCircum (resolve pts t) p.

Definition delaunay_spec (pts : list pt) (ts : list tri) : Prop :=
  (forall t, In t ts -> idx_ok (length pts) t) /\
  same_winding pts ts /\ no_overlap pts ts /\ empty_circles pts ts.

(* ------------------------------------------------------------------ checker *)

Definition idx_okb (n : nat) (t : tri) : bool :=
  let '(i, j, k) := t in (i <? n)%nat && (j <? n)%nat && (k <? n)%nat.

Definition windb (gs : list gtri) : bool :=
  forallb (fun g => Qltb 0 (gorient g)) gs || forallb (fun g => Qltb (gorient g) 0) gs.

(* Fourier–Motzkin elimination of the leading variable from strict constraints
   0 < a*x + f, the remaining part f living in a type F closed under combinations *)
Section Elim.
  Variable F : Type.
  Variable comb : Q -> F -> Q -> F -> F.      (* comb a f b g  stands for  a*f + b*g *)
  Definition elim (cs : list (Q * F)) : list F :=
    let pos := filter (fun c => Qltb 0 (fst c)) cs in
    let neg := filter (fun c => Qltb (fst c) 0) cs in
    let zer := filter (fun c => Qeq_bool (fst c) 0) cs in
    map snd zer ++
    flat_map (fun l => map (fun u => comb (fst l) (snd u) (- fst u) (snd l)) neg) pos.
End Elim.

Definition form1 := (Q * Q)%type.             (* b*y + c *)
Definition form2 := (Q * form1)%type.         (* a*x + (b*y + c) *)
Definition comb0 (a f b g : Q) : Q := a * f + b * g.
Definition comb1 (a : Q) (f : form1) (b : Q) (g : form1) : form1 :=
  (a * fst f + b * fst g, a * snd f + b * snd g).
Definition ev1 (f : form1) (y : Q) : Q := fst f * y + snd f.
Definition ev2 (f : form2) (x y : Q) : Q := fst f * x + ev1 (snd f) y.

(* is there a rational point (x,y) with 0 < ev2 f x y for every f ? *)
Definition feasible2 (cs : list form2) : bool :=
  forallb (Qltb 0) (elim Q comb0 (elim form1 comb1 cs)).

(* s * orient a b (x,y) as a linear form in x, y *)
Definition edge_form (s : Q) (a b : pt) : form2 :=
  (s * (snd a - snd b), (s * (fst b - fst a), s * (fst a * snd b - snd a * fst b))).
Definition tri_forms (g : gtri) : list form2 :=
  let '(a, b, c) := g in
  let s := orient a b c in [edge_form s a b; edge_form s b c; edge_form s c a].
Definition overlap_fm (g h : gtri) : bool := feasible2 (tri_forms g ++ tri_forms h).

(* fast path: an edge of one triangle has the whole other triangle on its outer side (closed);
   then the open interiors are disjoint and the elimination need not run.  For two triangles with
   disjoint interiors such an edge always exists, so valid outputs never reach overlap_fm; the
   checker stays sound and complete because only the easy direction is used (DelaunayProofs.v) *)
Definition edge_sepb (s : Q) (a b : pt) (h : gtri) : bool :=
  let '(u, v, w) := h in
  negb (Qltb 0 (s * orient a b u)) && negb (Qltb 0 (s * orient a b v)) && negb (Qltb 0 (s * orient a b w)).
Definition tri_sepb (g h : gtri) : bool :=
  let '(a, b, c) := g in
  let s := orient a b c in
  edge_sepb s a b h || edge_sepb s b c h || edge_sepb s c a h.
(* faster still: the bounding boxes are strictly apart in x or in y (comparisons only) *)
Definition qmin (x y : Q) : Q := if Qltb y x then y else x.
Definition qmax (x y : Q) : Q := if Qltb x y then y else x.
Definition lo3 (f : pt -> Q) (g : gtri) : Q := let '(a, b, c) := g in qmin (f a) (qmin (f b) (f c)).
Definition hi3 (f : pt -> Q) (g : gtri) : Q := let '(a, b, c) := g in qmax (f a) (qmax (f b) (f c)).
Definition box_apartb (g h : gtri) : bool :=
  Qltb (hi3 fst g) (lo3 fst h) || Qltb (hi3 fst h) (lo3 fst g) ||
  Qltb (hi3 snd g) (lo3 snd h) || Qltb (hi3 snd h) (lo3 snd g).
Definition overlapb (g h : gtri) : bool :=
  if box_apartb g h then false
  else if tri_sepb g h || tri_sepb h g then false else overlap_fm g h.

Fixpoint pairwiseb {A} (r : A -> A -> bool) (l : list A) : bool :=
  match l with
  | [] => true
  | x :: xs => forallb (r x) xs && pairwiseb r xs
  end.

Definition circ_emptyb (pts : list pt) (g : gtri) : bool :=
  let '(a, b, c) := g in
  let o := orient a b c in
  forallb (fun p => negb (Qltb 0 (o * incircle a b c p))) pts.

Definition delaunayb (pts : list pt) (ts : list tri) : bool :=
  let gs := map (resolve pts) ts in
  forallb (idx_okb (length pts)) ts && windb gs &&
  pairwiseb (fun g h => negb (overlapb g h)) gs &&
  forallb (circ_emptyb pts) gs.

(* ------------------------------------------------------------------ completeness oracle
   (what "a triangulation OF THE INPUT" adds to the four conjuncts: every point is used and,
   with no three points collinear, a triangulation of n points with h hull vertices has
   exactly 2n - 2 - h triangles) *)

Fixpoint allb {A} (f : A -> bool) (l : list A) : bool :=      (* short-circuit under vm_compute *)
  match l with [] => true | x :: xs => if f x then allb f xs else false end.
Fixpoint anyb {A} (f : A -> bool) (l : list A) : bool :=
  match l with [] => false | x :: xs => if f x then true else anyb f xs end.

Definition pt_eqb (p q : pt) : bool := Qeq_bool (fst p) (fst q) && Qeq_bool (snd p) (snd q).

(* p is a hull vertex: some other point q has every remaining point strictly left of p->q *)
Definition hull_vertexb (pts : list pt) (p : pt) : bool :=
  anyb (fun q => negb (pt_eqb p q) &&
                 allb (fun r => pt_eqb r p || pt_eqb r q || Qltb 0 (orient p q r)) pts) pts.
Definition hull_count (pts : list pt) : nat := length (filter (hull_vertexb pts) pts).

Definition usedb (ts : list tri) (i : nat) : bool :=
  anyb (fun t => let '(a, b, c) := t in (a =? i)%nat || (b =? i)%nat || (c =? i)%nat) ts.

Definition completeb (pts : list pt) (ts : list tri) : bool :=
  allb (usedb ts) (seq 0 (length pts)) &&
  (length ts + 2 + hull_count pts =? 2 * length pts)%nat.

(* coverage of the convex hull, by area: with no three points collinear the directed hull edges are
   the pairs p->q with every other point strictly to the left, the shoelace sum over them is twice
   the hull area, and non-overlapping triangles cover the hull iff their areas add up to it *)
Definition cross (p q : pt) : Q := fst p * snd q - fst q * snd p.
Definition hull_edgeb (pts : list pt) (p q : pt) : bool :=
  negb (pt_eqb p q) && allb (fun r => pt_eqb r p || pt_eqb r q || Qltb 0 (orient p q r)) pts.
Definition hull_area2 (pts : list pt) : Q :=
  fold_left (fun acc p =>
    fold_left (fun acc q => if hull_edgeb pts p q then acc + cross p q else acc) pts acc) pts 0.
Definition qabs (x : Q) : Q := if Qltb x 0 then - x else x.
Definition area2 (pts : list pt) (ts : list tri) : Q :=
  fold_left (fun acc t => acc + qabs (gorient (resolve pts t))) ts 0.
Definition coverb (pts : list pt) (ts : list tri) : bool := Qeq_bool (area2 pts ts) (hull_area2 pts).
