(* C20 — proofs about the Bowyer–Watson model of Tri/BowyerWatson.v. *)
From Coq Require Import List ZArith QArith Bool Arith Lia Lqa Qfield Qminmax Permutation.
From PF Require Import Tri.Delaunay Tri.DelaunayProofs Tri.BowyerWatson.
Import ListNotations.
Open Scope Q_scope.

(* ================================================================== 1. membership *)
Lemma bool_ext : forall a b : bool, (a = true <-> b = true) -> a = b.
Proof. intros [] []; intuition congruence. Qed.

Lemma tri_eqb_eq : forall t u, tri_eqb t u = true <-> t = u.
Proof.
  intros [[a b] c] [[d e] f]. unfold tri_eqb. rewrite !andb_true_iff, !Nat.eqb_eq. split.
  - intros [[-> ->] ->]. reflexivity.
  - intros H. injection H as -> -> ->. auto.
Qed.

Lemma tri_inb_in : forall t T, existsb (tri_eqb t) T = true <-> In t T.
Proof.
  intros t T. rewrite existsb_exists. split.
  - intros [x [H E]]. apply tri_eqb_eq in E. subst. exact H.
  - intros H. exists t. split; [exact H|]. apply tri_eqb_eq. reflexivity.
Qed.

Lemma add_tri_in : forall t T x, In x (add_tri t T) <-> x = t \/ In x T.
Proof.
  intros t T x. unfold add_tri. destruct (existsb (tri_eqb t) T) eqn:E.
  - apply tri_inb_in in E. split; [auto|]. intros [->|H]; auto.
  - rewrite in_app_iff. simpl. split.
    + intros [H|[<-|[]]]; auto.
    + intros [->|H]; auto.
Qed.

Lemma add_tri_nodup : forall t T, NoDup T -> NoDup (add_tri t T).
Proof.
  intros t T H. unfold add_tri. destruct (existsb (tri_eqb t) T) eqn:E; [exact H|].
  assert (N : ~ In t T) by (rewrite <- tri_inb_in; congruence).
  apply NoDup_rev in H. rewrite <- (rev_involutive (T ++ [t])). apply NoDup_rev.
  rewrite rev_app_distr. simpl. constructor; [rewrite <- in_rev; exact N|exact H].
Qed.

Lemma fill_hole_in : forall pts poly i T x,
  In x (fill_hole pts poly i T) <->
  In x T \/ exists e, In e poly /\ skip_edge e i = false /\ x = new_tri pts e i.
Proof.
  intros pts poly i. unfold fill_hole. induction poly as [|e poly IH]; intros T x; simpl.
  - split; [auto|]. intros [H|[e [[] _]]]. exact H.
  - rewrite IH. destruct (skip_edge e i) eqn:S.
    + split.
      * intros [H|[f [Hf HH]]]; [auto|]. right. exists f. auto.
      * intros [H|[f [[<-|Hf] [Sf E]]]]; [auto|congruence|]. right. exists f. auto.
    + rewrite add_tri_in. split.
      * intros [[->|H]|[f [Hf HH]]]; [|auto|].
        -- right. exists e. auto.
        -- right. exists f. auto.
      * intros [H|[f [[<-|Hf] [Sf E]]]]; [auto|auto|]. right. exists f. auto.
Qed.

Lemma fill_hole_nodup : forall pts poly i T, NoDup T -> NoDup (fill_hole pts poly i T).
Proof.
  intros pts poly i. unfold fill_hole. induction poly as [|e poly IH]; intros T H; simpl; [exact H|].
  apply IH. destruct (skip_edge e i); [exact H|apply add_tri_nodup; exact H].
Qed.

Lemma polygon_in : forall bad e,
  In e (polygon bad) <-> exists t, In t bad /\ In e (edges t) /\ shared bad t e = false.
Proof.
  intros bad e. unfold polygon. rewrite in_flat_map. split; intros [t [Ht H]]; exists t; (split; [exact Ht|]).
  - apply filter_In in H. destruct H as [H1 H2]. apply negb_true_iff in H2. auto.
  - apply filter_In. destruct H as [H1 H2]. split; [exact H1|]. apply negb_true_iff. exact H2.
Qed.

Lemma shared_true : forall bad t e,
  shared bad t e = true <->
  exists o, In o bad /\ o <> t /\ exists f, In f (edges o) /\ edge_same e f = true.
Proof.
  intros bad t e. unfold shared. rewrite existsb_exists. split.
  - intros [o [Ho H]]. apply andb_true_iff in H. destruct H as [H1 H2].
    exists o. split; [exact Ho|]. split.
    + intros ->. apply negb_true_iff in H1. assert (tri_eqb t t = true) by (apply tri_eqb_eq; reflexivity). congruence.
    + apply existsb_exists in H2. exact H2.
  - intros [o [Ho [Hne H]]]. exists o. split; [exact Ho|]. apply andb_true_iff. split.
    + apply negb_true_iff. destruct (tri_eqb t o) eqn:E; [|reflexivity].
      apply tri_eqb_eq in E. congruence.
    + apply existsb_exists. exact H.
Qed.

Lemma bad_of_in : forall P T i t,
  In t (bad_of P T i) <-> In t T /\ in_circb P t (nth i P pzero) = true.
Proof. intros. unfold bad_of. apply filter_In. Qed.

Lemma insert_in : forall P T i x,
  In x (insert P T i) <->
  (In x T /\ ~ In x (bad_of P T i)) \/
  exists e, In e (polygon (bad_of P T i)) /\ skip_edge e i = false /\ x = new_tri P e i.
Proof.
  intros P T i x. unfold insert. rewrite fill_hole_in, filter_In.
  assert (E : negb (existsb (tri_eqb x) (bad_of P T i)) = true <-> ~ In x (bad_of P T i)).
  { rewrite negb_true_iff, <- tri_inb_in. destruct (existsb (tri_eqb x) (bad_of P T i)); split; congruence. }
  rewrite E. reflexivity.
Qed.

Lemma insert_nodup : forall P T i, NoDup T -> NoDup (insert P T i).
Proof. intros. unfold insert. apply fill_hole_nodup. apply NoDup_filter. assumption. Qed.

(* ================================================================== 2. order independence *)
Lemma same_set_refl : forall A (l : list A), same_set l l.
Proof. intros A l x. reflexivity. Qed.

Lemma bad_of_ext : forall P T U i, same_set T U -> same_set (bad_of P T i) (bad_of P U i).
Proof. intros P T U i H x. rewrite !bad_of_in, (H x). reflexivity. Qed.

Lemma shared_ext : forall b b' t e, same_set b b' -> shared b t e = shared b' t e.
Proof.
  intros b b' t e H. apply bool_ext. rewrite !shared_true.
  split; intros [o [Ho R]]; exists o; (split; [apply H; exact Ho|exact R]).
Qed.

Lemma polygon_ext : forall b b', same_set b b' -> same_set (polygon b) (polygon b').
Proof.
  intros b b' H e. rewrite !polygon_in.
  split; intros [t [Ht [He S]]]; exists t; (split; [apply H; exact Ht|]); (split; [exact He|]).
  - rewrite <- (shared_ext b b' t e H). exact S.
  - rewrite (shared_ext b b' t e H). exact S.
Qed.

Lemma insert_ext : forall P T U i, same_set T U -> same_set (insert P T i) (insert P U i).
Proof.
  intros P T U i H x. rewrite !insert_in.
  pose proof (bad_of_ext P T U i H) as B. pose proof (polygon_ext _ _ B) as Pg.
  rewrite (H x), (B x). split; (intros [K|[e [He R]]]; [left; exact K|right; exists e; split; [apply Pg; exact He|exact R]]).
Qed.

Lemma fold_insert_ext : forall P sched l T U,
  (forall i X, same_set (sched i X) X) -> same_set T U ->
  same_set (fold_left (fun T i => insert P (sched i T) i) l T) (fold_left (insert P) l U).
Proof.
  intros P sched l. induction l as [|i l IH]; intros T U Hs H; simpl; [exact H|].
  apply IH; [exact Hs|]. intros x. rewrite <- (insert_ext P _ _ i H x).
  apply insert_ext. apply Hs.
Qed.

Lemma filter_ext_set : forall A (f : A -> bool) l m, same_set l m -> same_set (filter f l) (filter f m).
Proof. intros A f l m H x. rewrite !filter_In, (H x). reflexivity. Qed.

Theorem bw_sched_same_set : forall sched super pts ts ts',
  (forall i X, same_set (sched i X) X) ->
  bw_with_sched sched super pts = Some ts -> bw_with super pts = Some ts' -> same_set ts ts'.
Proof.
  intros sched super pts ts ts' Hs. unfold bw_with_sched, bw_with.
  destruct (length pts <? 3)%nat; [discriminate|]. intros [= <-] [= <-].
  apply filter_ext_set. intros x. rewrite (Hs _ _ x).
  unfold bw_all_sched, bw_all. apply fold_insert_ext; [exact Hs|apply same_set_refl].
Qed.

Lemma fold_insert_nodup_sched : forall P sched l T,
  (forall i X, Permutation (sched i X) X) -> NoDup T ->
  NoDup (fold_left (fun T i => insert P (sched i T) i) l T).
Proof.
  intros P sched l. induction l as [|i l IH]; intros T Hs H; simpl; [exact H|].
  apply IH; [exact Hs|]. apply insert_nodup.
  eapply Permutation_NoDup; [apply Permutation_sym; apply Hs|exact H].
Qed.

Lemma bw_sched_nodup : forall sched super pts ts,
  (forall i X, Permutation (sched i X) X) -> bw_with_sched sched super pts = Some ts -> NoDup ts.
Proof.
  intros sched super pts ts Hs. unfold bw_with_sched.
  destruct (length pts <? 3)%nat; [discriminate|]. intros [= <-].
  apply NoDup_filter. eapply Permutation_NoDup; [apply Permutation_sym; apply Hs|].
  unfold bw_all_sched. apply fold_insert_nodup_sched; [exact Hs|].
  constructor; [intros []|constructor].
Qed.

(* whatever order each loop over the map uses, the result is the same triangles, each once *)
Theorem bw_order_independent : forall sched super pts ts ts',
  (forall i X, Permutation (sched i X) X) ->
  bw_with_sched sched super pts = Some ts -> bw_with super pts = Some ts' ->
  Permutation ts ts'.
Proof.
  intros sched super pts ts ts' Hs H1 H2.
  assert (Hs' : forall i X, same_set (sched i X) X).
  { intros i X x. split; apply Permutation_in; [apply Hs|apply Permutation_sym; apply Hs]. }
  apply NoDup_Permutation.
  - eapply bw_sched_nodup; eassumption.
  - apply (bw_sched_nodup (fun _ X => X) super pts ts'); [intros; apply Permutation_refl|exact H2].
  - intros x. apply (bw_sched_same_set sched super pts ts ts' Hs' H1 H2).
Qed.

(* ================================================================== 3. predicates *)
Lemma orient_cyc : forall a b c, orient b c a == orient a b c.
Proof. intros. unfold orient. ring. Qed.
Lemma orient_swap : forall a b c, orient a c b == - orient a b c.
Proof. intros. unfold orient. ring. Qed.
Lemma orient_flip : forall a b c, orient b a c == - orient a b c.
Proof. intros. unfold orient. ring. Qed.
Lemma incircle_cyc : forall a b c p, incircle b c a p == incircle a b c p.
Proof. intros. unfold incircle. ring. Qed.
Lemma incircle_flip : forall a b c p, incircle b a c p == - incircle a b c p.
Proof. intros. unfold incircle. ring. Qed.
Lemma incircle_self : forall a b p, incircle a b p p == 0.
Proof. intros. unfold incircle. ring. Qed.

(* circles through a and b form a linear pencil: the three-term relation between the in-circle
   determinants of (a,b,c) and (a,b,p) *)
Lemma circle_pencil : forall a b c p q,
  incircle a b p q * orient a b c == incircle a b c q * orient a b p - incircle a b c p * orient a b q.
Proof. intros. unfold incircle, orient. ring. Qed.

Lemma in_circb_lt : forall P t p, in_circb P t p = true <-> gincircle (resolve P t) p < 0.
Proof.
  intros P [[a b] c] p. unfold in_circb, gincircle, resolve. apply Qltb_lt.
Qed.
Lemma in_circb_ge : forall P t p, in_circb P t p = false <-> 0 <= gincircle (resolve P t) p.
Proof.
  intros P t p. rewrite <- not_true_iff_false, in_circb_lt. split; [apply Qnot_lt_le|apply Qle_not_lt].
Qed.

(* ================================================================== 4. winding and vertex identity *)
Definition cw (P : list pt) (t : tri) : Prop := gorient (resolve P t) <= 0.

Lemma new_tri_cw : forall P e i, cw P (new_tri P e i).
Proof.
  intros P [u v] i. unfold new_tri, cw, ccwb. cbn [fst snd].
  destruct (Qltb 0 (gorient (resolve P (u, v, i)))) eqn:E.
  - apply Qltb_lt in E. unfold gorient, resolve in *. rewrite orient_swap. lra.
  - apply Qltb_nlt in E. apply Qnot_lt_le. exact E.
Qed.

Lemma new_tri_cases : forall P e i,
  new_tri P e i = (fst e, snd e, i) \/ new_tri P e i = (fst e, i, snd e).
Proof. intros. unfold new_tri. destruct (ccwb P (fst e, snd e, i)); auto. Qed.

Lemma edges_distinct : forall t e, distinct3 t -> In e (edges t) -> fst e <> snd e.
Proof.
  intros [[a b] c] e [H1 [H2 H3]] [<-|[<-|[<-|[]]]]; simpl; assumption.
Qed.

Lemma skip_edge_false : forall e i, skip_edge e i = false <-> fst e <> i /\ snd e <> i.
Proof.
  intros e i. unfold skip_edge. rewrite orb_false_iff, !Nat.eqb_neq. reflexivity.
Qed.

Definition tri_inv (P : list pt) (T : list tri) : Prop := forall t, In t T -> cw P t /\ distinct3 t.

Lemma insert_inv : forall P T i, tri_inv P T -> tri_inv P (insert P T i).
Proof.
  intros P T i H x Hx. apply insert_in in Hx. destruct Hx as [[Hx _]|[e [He [Sk ->]]]]; [apply H; exact Hx|].
  split; [apply new_tri_cw|].
  apply polygon_in in He. destruct He as [b [Hb [He _]]]. apply bad_of_in in Hb.
  pose proof (edges_distinct b e (proj2 (H b (proj1 Hb))) He) as D.
  apply skip_edge_false in Sk. destruct Sk as [S1 S2].
  destruct (new_tri_cases P e i) as [-> | ->]; unfold distinct3; repeat split; congruence.
Qed.

Lemma fold_inv : forall (A B : Type) (f : A -> B -> A) (Inv : A -> Prop) l a,
  Inv a -> (forall a b, Inv a -> Inv (f a b)) -> Inv (fold_left f l a).
Proof. intros A B f Inv l. induction l; simpl; intros; auto. Qed.

Lemma resolve_app : forall pts ext t, idx_ok (length pts) t -> resolve (pts ++ ext) t = resolve pts t.
Proof.
  intros pts ext [[a b] c] [Ha [Hb Hc]]. unfold resolve. rewrite !app_nth1 by assumption. reflexivity.
Qed.

Lemma has_super_false : forall n t, has_super n t = false <-> idx_ok n t.
Proof.
  intros n [[a b] c]. unfold has_super, idx_ok. rewrite !orb_false_iff, !Nat.leb_gt. tauto.
Qed.

Lemma gp_distinct : forall pts a b c, general_position pts ->
  (a < length pts)%nat -> (b < length pts)%nat -> (c < length pts)%nat ->
  a <> b -> b <> c -> c <> a ->
  ~ orient (nth a pts pzero) (nth b pts pzero) (nth c pts pzero) == 0.
Proof.
  intros pts a b c GP Ha Hb Hc H1 H2 H3 Hz.
  set (pa := nth a pts pzero) in *. set (pb := nth b pts pzero) in *. set (pc := nth c pts pzero) in *.
  assert (C : (a < b < c \/ a < c < b \/ b < a < c \/ b < c < a \/ c < a < b \/ c < b < a)%nat) by lia.
  destruct C as [C|[C|[C|[C|[C|C]]]]].
  - apply (GP a b c C Hc). exact Hz.
  - apply (GP a c b C Hb). fold pa pb pc. rewrite orient_swap, Hz. reflexivity.
  - apply (GP b a c C Hc). fold pa pb pc. rewrite orient_flip, Hz. reflexivity.
  - apply (GP b c a C Ha). fold pa pb pc. rewrite orient_cyc. exact Hz.
  - apply (GP c a b C Hb). fold pa pb pc. rewrite <- orient_cyc. exact Hz.
  - apply (GP c b a C Ha). fold pa pb pc. rewrite orient_flip, orient_cyc, Hz. reflexivity.
Qed.

(* the super triangle of /repo HEAD is clockwise (degenerate only when all points coincide) *)
Lemma super_fixed_cw : forall pts, gorient (super_gtri super_fixed pts) <= 0.
Proof.
  intros pts. unfold super_gtri, super_fixed. destruct (bbox pts) as [[[x0 y0] x1] y1].
  cbn [nth gorient]. unfold orient. cbn [fst snd].
  set (s := Qmax (x1 - x0) (y1 - y0)). set (xm := (x0 + x1) / 2).
  assert (E : (xm - (xm - s * 20)) * (y0 - s - (y0 - s)) - (xm + s * 20 - (xm - s * 20)) * (y0 - s + s * 20 - (y0 - s))
              == - (800 * (s * s))) by ring.
  rewrite E. assert (0 <= s * s) by nra. lra.
Qed.

Lemma length_super_fixed : forall pts, length (super_fixed pts) = 3%nat.
Proof. intros. unfold super_fixed. destruct (bbox pts) as [[[x0 y0] x1] y1]. reflexivity. Qed.

Lemma bw_all_inv : forall super pts,
  gorient (super_gtri super pts) <= 0 -> tri_inv (pts ++ super pts) (bw_all super pts).
Proof.
  intros super pts H. unfold bw_all. apply fold_inv.
  - intros t [<-|[]]. split.
    + unfold cw, super_tri, resolve.
      rewrite !app_nth2 by lia.
      replace (length pts - length pts)%nat with 0%nat by lia.
      replace (S (length pts) - length pts)%nat with 1%nat by lia.
      replace (S (S (length pts)) - length pts)%nat with 2%nat by lia. exact H.
    + unfold distinct3, super_tri. lia.
  - intros T i. apply insert_inv.
Qed.

(* every triangle of the result: only input indices, three different ones, clockwise *)
Theorem bw_result_inv : forall super pts ts t,
  gorient (super_gtri super pts) <= 0 -> bw_with super pts = Some ts -> In t ts ->
  idx_ok (length pts) t /\ distinct3 t /\ gorient (resolve pts t) <= 0.
Proof.
  intros super pts ts t Hs. unfold bw_with. destruct (length pts <? 3)%nat; [discriminate|].
  intros [= <-] Ht. apply filter_In in Ht. destruct Ht as [Ht Hn].
  apply negb_true_iff, has_super_false in Hn. split; [exact Hn|].
  destruct (bw_all_inv super pts Hs t Ht) as [C D]. split; [exact D|].
  unfold cw in C. rewrite resolve_app in C by exact Hn. exact C.
Qed.

Theorem bw_vertex_identity_proof : forall pts ts,
  bw pts = Some ts ->
  (forall t, In t ts -> idx_ok (length pts) t /\ distinct3 t) /\
  length (positions pts) = length pts /\
  (forall i, (i < length pts)%nat ->
     nth i (positions pts) (0, 0, 0) = (fst (nth i pts pzero), 0, snd (nth i pts pzero))).
Proof.
  intros pts ts H. split; [|split].
  - intros t Ht. destruct (bw_result_inv super_fixed pts ts t (super_fixed_cw pts) H Ht) as [A [B _]]. auto.
  - unfold positions. apply map_length.
  - intros i Hi. unfold positions.
    change (0, 0, 0) with ((fun p : pt => (fst p, 0, snd p)) pzero). rewrite map_nth. reflexivity.
Qed.

Theorem bw_same_winding_proof : forall pts ts,
  general_position pts -> bw pts = Some ts ->
  forall t, In t ts -> gorient (resolve pts t) < 0.
Proof.
  intros pts ts GP H t Ht.
  destruct (bw_result_inv super_fixed pts ts t (super_fixed_cw pts) H Ht) as [A [B C]].
  destruct t as [[a b] c]. destruct A as [Ha [Hb Hc]]. destruct B as [B1 [B2 B3]].
  pose proof (gp_distinct pts a b c GP Ha Hb Hc B1 B2 B3) as NZ.
  unfold gorient, resolve in *. destruct (Qlt_le_dec (orient (nth a pts pzero) (nth b pts pzero) (nth c pts pzero)) 0) as [L|L]; [exact L|].
  exfalso. apply NZ. lra.
Qed.

(* the same for every schedule of the map iteration, via order independence *)
Theorem bw_sched_same_winding : forall sched pts ts,
  (forall i X, Permutation (sched i X) X) -> general_position pts ->
  bw_with_sched sched super_fixed pts = Some ts ->
  forall t, In t ts -> idx_ok (length pts) t /\ distinct3 t /\ gorient (resolve pts t) < 0.
Proof.
  intros sched pts ts Hs GP H t Ht.
  assert (E : exists ts', bw pts = Some ts').
  { unfold bw, bw_with. unfold bw_with_sched in H. destruct (length pts <? 3)%nat; [discriminate|eauto]. }
  destruct E as [ts' E].
  pose proof (bw_order_independent sched super_fixed pts ts ts' Hs H E) as Pm.
  assert (Ht' : In t ts') by (eapply Permutation_in; eassumption).
  destruct (bw_result_inv super_fixed pts ts' t (super_fixed_cw pts) E Ht') as [A [B _]].
  split; [exact A|]. split; [exact B|]. eapply bw_same_winding_proof; eassumption.
Qed.

(* ================================================================== 5. the super triangle *)
Definition bstep (bb : Q * Q * Q * Q) (q : pt) : Q * Q * Q * Q :=
  let '(x0, y0, x1, y1) := bb in
  (Qmin (fst q) x0, Qmin (snd q) y0, Qmax (fst q) x1, Qmax (snd q) y1).
Definition inbb (bb : Q * Q * Q * Q) (p : pt) : Prop :=
  let '(x0, y0, x1, y1) := bb in x0 <= fst p /\ fst p <= x1 /\ y0 <= snd p /\ snd p <= y1.

Lemma bstep_mono : forall bb q p, inbb bb p -> inbb (bstep bb q) p.
Proof.
  intros [[[x0 y0] x1] y1] q p [H1 [H2 [H3 H4]]]. unfold bstep, inbb.
  pose proof (Q.le_min_r (fst q) x0). pose proof (Q.le_min_r (snd q) y0).
  pose proof (Q.le_max_r (fst q) x1). pose proof (Q.le_max_r (snd q) y1).
  repeat split; eapply Qle_trans; eassumption.
Qed.
Lemma bstep_self : forall bb q, inbb (bstep bb q) q.
Proof.
  intros [[[x0 y0] x1] y1] q. unfold bstep, inbb.
  repeat split; [apply Q.le_min_l|apply Q.le_max_l|apply Q.le_min_l|apply Q.le_max_l].
Qed.
Lemma fold_bb : forall tl bb p, inbb bb p \/ In p tl -> inbb (fold_left bstep tl bb) p.
Proof.
  induction tl as [|q tl IH]; intros bb p H; simpl.
  - destruct H as [H|[]]. exact H.
  - apply IH. destruct H as [H|[<-|H]]; [left; apply bstep_mono; exact H|left; apply bstep_self|right; exact H].
Qed.

Lemma bbox_ok : forall pts p, In p pts -> inbb (bbox pts) p.
Proof.
  intros [|q tl] p H; [destruct H|]. unfold bbox.
  change (inbb (fold_left bstep tl (fst q, snd q, fst q, snd q)) p).
  apply fold_bb. destruct H as [<-|H]; [left|right; exact H].
  unfold inbb. repeat split; apply Qle_refl.
Qed.

Definition bbox_size (pts : list pt) : Q :=
  let '(x0, y0, x1, y1) := bbox pts in Qmax (x1 - x0) (y1 - y0).

(* /repo HEAD: strictly inside, for every input whose points do not all coincide *)
Theorem super_fixed_contains : forall pts p,
  0 < bbox_size pts -> In p pts ->
  let '(l, t, r) := super_gtri super_fixed pts in
  orient l t r < 0 /\ orient l t p < 0 /\ orient t r p < 0 /\ orient r l p < 0.
Proof.
  intros pts p Hs Hp. pose proof (bbox_ok pts p Hp) as B.
  unfold bbox_size in Hs. unfold super_gtri, super_fixed.
  destruct (bbox pts) as [[[x0 y0] x1] y1]. cbn [nth]. unfold inbb in B.
  destruct B as [B1 [B2 [B3 B4]]].
  pose proof (Q.le_max_l (x1 - x0) (y1 - y0)) as M1. pose proof (Q.le_max_r (x1 - x0) (y1 - y0)) as M2.
  set (s := Qmax (x1 - x0) (y1 - y0)) in *.
  assert (Em : 2 * ((x0 + x1) / 2) == x0 + x1) by field.
  set (xm := (x0 + x1) / 2) in *. clearbody xm s.
  destruct p as [px py]. unfold orient. cbn [fst snd] in *.
  assert (S20 : 0 < 20 * s) by lra.
  assert (N : forall z, z < 0 -> (20 * s) * z < 0).
  { intros z Hz. assert (0 < (20 * s) * (- z)) by (apply Qmult_lt_0_compat; lra).
    assert ((20 * s) * z == - ((20 * s) * (- z))) by ring. lra. }
  repeat split.
  - assert (E : (xm - (xm - s * 20)) * (y0 - s - (y0 - s)) - (xm + s * 20 - (xm - s * 20)) * (y0 - s + s * 20 - (y0 - s))
                == (20 * s) * (- (40 * s))) by ring.
    rewrite E. apply N. lra.
  - assert (E : (xm - (xm - s * 20)) * (py - (y0 - s)) - (px - (xm - s * 20)) * (y0 - s + s * 20 - (y0 - s))
                == (20 * s) * ((py - (y0 - s)) - (px - xm) - 20 * s)) by ring.
    rewrite E. apply N. lra.
  - assert (E : (xm + s * 20 - xm) * (py - (y0 - s + s * 20)) - (px - xm) * (y0 - s - (y0 - s + s * 20))
                == (20 * s) * ((py - (y0 - s) - 20 * s) + (px - xm))) by ring.
    rewrite E. apply N. lra.
  - assert (E : (xm - s * 20 - (xm + s * 20)) * (py - (y0 - s)) - (px - (xm + s * 20)) * (y0 - s - (y0 - s))
                == (20 * s) * (- (2 * (py - (y0 - s))))) by ring.
    rewrite E. apply N. lra.
Qed.

Lemma bbox_size_pos : forall pts a b, In a pts -> In b pts ->
  (~ fst a == fst b \/ ~ snd a == snd b) -> 0 < bbox_size pts.
Proof.
  intros pts a b Ha Hb D. pose proof (bbox_ok pts a Ha) as A. pose proof (bbox_ok pts b Hb) as B.
  unfold bbox_size. destruct (bbox pts) as [[[x0 y0] x1] y1]. unfold inbb in *.
  pose proof (Q.le_max_l (x1 - x0) (y1 - y0)) as M1. pose proof (Q.le_max_r (x1 - x0) (y1 - y0)) as M2.
  destruct A as [A1 [A2 [A3 A4]]]. destruct B as [B1 [B2 [B3 B4]]].
  destruct D as [D|D].
  - destruct (Q_dec (fst a) (fst b)) as [[L|L]|L]; [lra|lra|contradiction].
  - destruct (Q_dec (snd a) (snd b)) as [[L|L]|L]; [lra|lra|contradiction].
Qed.

Lemma inside_cw : forall l t r p,
  orient l t p < 0 /\ orient t r p < 0 /\ orient r l p < 0 -> Inside (l, t, r) p.
Proof. intros. unfold Inside. right. assumption. Qed.

Theorem super_contains_proof : forall pts,
  (exists a b, In a pts /\ In b pts /\ (~ fst a == fst b \/ ~ snd a == snd b)) ->
  gorient (super_gtri super_fixed pts) < 0 /\
  forall p, In p pts -> Inside (super_gtri super_fixed pts) p.
Proof.
  intros pts [a [b [Ha [Hb D]]]]. pose proof (bbox_size_pos pts a b Ha Hb D) as S.
  split.
  - pose proof (super_fixed_contains pts a S Ha) as H.
    destruct (super_gtri super_fixed pts) as [[l t] r]. apply H.
  - intros p Hp. pose proof (super_fixed_contains pts p S Hp) as H.
    destruct (super_gtri super_fixed pts) as [[l t] r]. apply inside_cw. tauto.
Qed.

(* general position with >= 3 points is enough *)
Lemma gp_two_distinct : forall pts, (3 <= length pts)%nat -> general_position pts ->
  exists a b, In a pts /\ In b pts /\ (~ fst a == fst b \/ ~ snd a == snd b).
Proof.
  intros pts L GP. exists (nth 0 pts pzero), (nth 1 pts pzero).
  split; [apply nth_In; lia|]. split; [apply nth_In; lia|].
  pose proof (GP 0 1 2 ltac:(lia) ltac:(lia))%nat as H.
  set (a := nth 0 pts pzero) in *. set (b := nth 1 pts pzero) in *. set (c := nth 2 pts pzero) in *.
  destruct (Qeq_dec (fst a) (fst b)) as [E1|E1]; [|left; exact E1].
  destruct (Qeq_dec (snd a) (snd b)) as [E2|E2]; [|right; exact E2].
  exfalso. apply H. unfold orient. rewrite E1, E2. ring.
Qed.

Lemma general_positionb_ok : forall pts, general_positionb pts = true -> general_position pts.
Proof.
  intros pts H i j k Hijk Hk. unfold general_positionb in H.
  rewrite forallb_forall in H. specialize (H i ltac:(apply in_seq; lia)).
  rewrite forallb_forall in H. specialize (H j ltac:(apply in_seq; lia)).
  rewrite forallb_forall in H. specialize (H k ltac:(apply in_seq; lia)).
  assert (Ei : (i <? j)%nat = true) by (apply Nat.ltb_lt; lia).
  assert (Ej : (j <? k)%nat = true) by (apply Nat.ltb_lt; lia).
  rewrite Ei, Ej in H. simpl in H. apply negb_true_iff in H.
  intros Hz. apply Qeq_bool_iff in Hz. congruence.
Qed.

(* the pinned construction (fixed offset 2, apex from the height only): the unit square scaled by
   1/100 (one corner moved so that no four points are concyclic) is not contained — with a height
   below 1/10 the apex min.Y - 2 + 20*height lies below every input point — and the triangulation
   comes back empty, while the repaired construction yields the two triangles *)
Definition tiny_square : list pt := [(0, 0); (1 # 100, 0); (1 # 100, 1 # 100); (0, 2 # 100)].

Theorem super_pinned_refuted :
  general_position tiny_square /\ (3 <= length tiny_square)%nat /\
  (forall p, In p tiny_square -> snd (snd (fst (super_gtri super_pinned tiny_square))) < snd p) /\
  (forall p, In p tiny_square -> ~ Inside (super_gtri super_pinned tiny_square) p) /\
  bw_pinned tiny_square = Some [] /\
  (exists ts, bw tiny_square = Some ts /\ length ts = 2%nat).
Proof.
  split; [apply general_positionb_ok; vm_compute; reflexivity|].
  split; [simpl; lia|].
  split.
  { intros p Hp. simpl in Hp. destruct Hp as [<-|[<-|[<-|[<-|[]]]]]; vm_compute; reflexivity. }
  split.
  - intros p Hp. simpl in Hp.
    destruct Hp as [<-|[<-|[<-|[<-|[]]]]]; intros [[H1 [H2 H3]]|[H1 [H2 H3]]]; vm_compute in H1, H2, H3; congruence.
  - split; [vm_compute; reflexivity|]. eexists. split; [vm_compute; reflexivity|reflexivity].
Qed.

(* ================================================================== 6. one insertion keeps the circumcircles empty *)
(* a directed edge of a triangle, its opposite vertex, and the two determinants read from that edge *)
Lemma edge_third : forall P t u v, In (u, v) (edges t) ->
  exists w, gorient (resolve P t) == orient (nth u P pzero) (nth v P pzero) (nth w P pzero) /\
            forall x, gincircle (resolve P t) x == incircle (nth u P pzero) (nth v P pzero) (nth w P pzero) x.
Proof.
  intros P [[a b] c] u v H. simpl in H. destruct H as [E|[E|[E|[]]]]; injection E as <- <-.
  - exists c. split; [reflexivity|intros; reflexivity].
  - exists a. unfold gorient, gincircle, resolve. split; [symmetry; apply orient_cyc|].
    intros x. symmetry. apply incircle_cyc.
  - exists b. unfold gorient, gincircle, resolve. split; [apply orient_cyc|].
    intros x. apply incircle_cyc.
Qed.

(* a non-degenerate triangle does not contain both directions of an edge *)
Lemma no_both_directions : forall P t u v,
  gorient (resolve P t) < 0 -> In (u, v) (edges t) -> In (v, u) (edges t) -> False.
Proof.
  intros P [[a b] c] u v H H1 H2. unfold gorient, resolve in H. simpl in H1, H2.
  destruct H1 as [E|[E|[E|[]]]]; injection E as <- <-;
  destruct H2 as [F|[F|[F|[]]]]; injection F; intros; subst; unfold orient in H; lra.
Qed.

(* the two geometric cases, as sign reasoning on the pencil relation *)
Lemma pencil_same_side : forall a b c p q,
  orient a b c < 0 -> incircle a b c p < 0 -> orient a b p < 0 ->
  orient a b q <= 0 -> 0 <= incircle a b c q -> 0 <= incircle a b p q.
Proof.
  intros a b c p q Oc Ip Op Oq Iq. pose proof (circle_pencil a b c p q) as E.
  set (A := incircle a b p q) in *. set (oc := orient a b c) in *.
  set (iq := incircle a b c q) in *. set (op := orient a b p) in *.
  set (ip := incircle a b c p) in *. set (oq := orient a b q) in *.
  clearbody A oc iq op ip oq.
  destruct (Qlt_le_dec A 0) as [L|L]; [exfalso|exact L]. nra.
Qed.

Lemma pencil_other_side : forall a b z p q,
  orient b a z < 0 -> 0 <= incircle b a z p -> orient a b p < 0 ->
  0 < orient a b q -> 0 <= incircle b a z q -> 0 <= incircle a b p q.
Proof.
  intros a b z p q Oz Ip Op Oq Iq. pose proof (circle_pencil b a z p q) as E.
  rewrite (incircle_flip a b p q), (orient_flip a b p), (orient_flip a b q) in E.
  set (A := incircle a b p q) in *. set (oz := orient b a z) in *.
  set (iq := incircle b a z q) in *. set (op := orient a b p) in *.
  set (ip := incircle b a z p) in *. set (oq := orient a b q) in *.
  clearbody A oz iq op ip oq.
  destruct (Qlt_le_dec A 0) as [L|L]; [exfalso|exact L]. nra.
Qed.

Theorem insert_keeps_empty : forall P T i (old : nat -> Prop),
  (forall t, In t T -> gorient (resolve P t) < 0) ->
  empty_for P T old ->
  star_shaped P T i ->
  continues_behind P T i old ->
  empty_for P (insert P T i) (fun j => old j \/ j = i).
Proof.
  intros P T i old CW Inv Star Cont x j Hx Hj.
  apply insert_in in Hx. destruct Hx as [[Hx Nb]|[e [He [Sk ->]]]].
  - (* a triangle that was kept *)
    destruct Hj as [Hj| ->]; [apply Inv; assumption|].
    destruct (in_circb P x (nth i P pzero)) eqn:E; [|reflexivity].
    exfalso. apply Nb. apply bad_of_in. auto.
  - (* a triangle of the fan *)
    pose proof (Star e He) as St. destruct e as [u v]. cbn [fst snd] in *.
    set (p := nth i P pzero) in *. set (pu := nth u P pzero) in *. set (pv := nth v P pzero) in *.
    assert (NT : new_tri P (u, v) i = (u, v, i)).
    { unfold new_tri, ccwb. cbn [fst snd]. unfold gorient, resolve. fold pu pv p.
      assert (Qltb 0 (orient pu pv p) = false) by (apply Qltb_nlt; lra). rewrite H. reflexivity. }
    rewrite NT. apply in_circb_ge. unfold gincircle, resolve. fold pu pv p.
    destruct Hj as [Hj| ->]; [|fold p; rewrite incircle_self; apply Qle_refl].
    set (q := nth j P pzero).
    pose proof He as He'. apply polygon_in in He'. destruct He' as [b [Hb [Eb Sh]]].
    pose proof Hb as Hb'. apply bad_of_in in Hb'. destruct Hb' as [HbT Bad]. fold p in Bad.
    destruct (edge_third P b u v Eb) as [w [Ow Iw]]. fold pu pv in Ow, Iw.
    set (pw := nth w P pzero) in *.
    pose proof (CW b HbT) as Cb. rewrite Ow in Cb.
    apply in_circb_lt in Bad. rewrite Iw in Bad.
    pose proof (Inv b j HbT Hj) as Eq. fold q in Eq. apply in_circb_ge in Eq. rewrite Iw in Eq.
    destruct (Qlt_le_dec 0 (orient pu pv q)) as [Side|Side].
    + (* q beyond the edge: the neighbour behind it is not bad, so p is outside its circle *)
      destruct (Cont (u, v) j He Hj Side) as [g [Hg Eg]]. cbn [fst snd] in Eg.
      assert (Ng : ~ In g (bad_of P T i)).
      { intros Bg. assert (S : shared (bad_of P T i) b (u, v) = true); [|congruence].
        apply shared_true. exists g. split; [exact Bg|]. split.
        - intros ->. exact (no_both_directions P b u v (CW b HbT) Eb Eg).
        - exists (v, u). split; [exact Eg|]. unfold edge_same. cbn [fst snd].
          rewrite !Nat.eqb_refl. rewrite orb_true_r. reflexivity. }
      destruct (edge_third P g v u Eg) as [z [Oz Iz]]. fold pu pv in Oz, Iz.
      set (pz := nth z P pzero) in *.
      pose proof (CW g Hg) as Cg. rewrite Oz in Cg.
      assert (Gp : 0 <= incircle pv pu pz p).
      { rewrite <- Iz. apply in_circb_ge. destruct (in_circb P g p) eqn:E; [|reflexivity].
        exfalso. apply Ng. apply bad_of_in. auto. }
      pose proof (Inv g j Hg Hj) as Gq. fold q in Gq. apply in_circb_ge in Gq. rewrite Iz in Gq.
      exact (pencil_other_side pu pv pz p q Cg Gp St Side Gq).
    + exact (pencil_same_side pu pv pw p q Cb Bad St Side Eq).
Qed.

(* ================================================================== 7. the whole run, conditionally *)
Lemma incircle_v1 : forall a b c, incircle a b c a == 0.
Proof. intros. unfold incircle. ring. Qed.
Lemma incircle_v2 : forall a b c, incircle a b c b == 0.
Proof. intros. unfold incircle. ring. Qed.

Lemma star_new_tri : forall P u v i,
  orient (nth u P pzero) (nth v P pzero) (nth i P pzero) < 0 -> new_tri P (u, v) i = (u, v, i).
Proof.
  intros P u v i H. unfold new_tri, ccwb. cbn [fst snd]. unfold gorient, resolve.
  assert (E : Qltb 0 (orient (nth u P pzero) (nth v P pzero) (nth i P pzero)) = false) by (apply Qltb_nlt; lra).
  rewrite E. reflexivity.
Qed.

Lemma bw_state_S : forall super pts k,
  bw_state super pts (S k) = insert (pts ++ super pts) (bw_state super pts k) k.
Proof. intros. unfold bw_state. rewrite seq_S, fold_left_app. reflexivity. Qed.

Lemma state_inv : forall super pts,
  gorient (super_gtri super pts) < 0 -> cavities_ok super pts ->
  forall k, (k <= length pts)%nat ->
    (forall t, In t (bw_state super pts k) -> gorient (resolve (pts ++ super pts) t) < 0) /\
    empty_for (pts ++ super pts) (bw_state super pts k) (old_at (length pts) k).
Proof.
  intros super pts Hs Cav. set (n := length pts). set (P := pts ++ super pts).
  assert (R : resolve P (super_tri n) = super_gtri super pts).
  { unfold super_tri, resolve, super_gtri, P, n. rewrite !app_nth2 by lia.
    replace (length pts - length pts)%nat with 0%nat by lia.
    replace (S (length pts) - length pts)%nat with 1%nat by lia.
    replace (S (S (length pts)) - length pts)%nat with 2%nat by lia. reflexivity. }
  induction k as [|k IH]; intros Hk.
  - unfold bw_state. cbn [seq fold_left]. fold n. fold P. split.
    + intros t [<-|[]]. rewrite R. exact Hs.
    + intros t j [<-|[]] [Hj|Hj]; [lia|]. apply in_circb_ge. rewrite R.
      assert (C : j = n \/ j = S n \/ j = S (S n)) by lia.
      unfold super_gtri, gincircle. cbv beta iota. subst P n. destruct C as [->|[->| ->]]; rewrite app_nth2 by lia.
      * replace (length pts - length pts)%nat with 0%nat by lia. rewrite incircle_v1. apply Qle_refl.
      * replace (S (length pts) - length pts)%nat with 1%nat by lia. rewrite incircle_v2. apply Qle_refl.
      * replace (S (S (length pts)) - length pts)%nat with 2%nat by lia. rewrite incircle_self. apply Qle_refl.
  - destruct (IH ltac:(lia)) as [CW Inv]. destruct (Cav k ltac:(lia)) as [Star Cont].
    fold P n in Star, Cont. rewrite bw_state_S. fold P. split.
    + intros x Hx. apply insert_in in Hx. destruct Hx as [[Hx _]|[e [He [_ ->]]]]; [apply CW; exact Hx|].
      pose proof (Star e He) as St. destruct e as [u v]. cbn [fst snd] in St.
      rewrite (star_new_tri P u v k St). exact St.
    + pose proof (insert_keeps_empty P _ k _ CW Inv Star Cont) as E.
      intros t j Ht Hj. apply (E t j Ht). unfold old_at in *. lia.
Qed.

Theorem bw_delaunay_conditional : forall super pts ts,
  gorient (super_gtri super pts) < 0 -> cavities_ok super pts -> bw_with super pts = Some ts ->
  (forall t, In t ts -> idx_ok (length pts) t /\ gorient (resolve pts t) < 0) /\
  empty_circles pts ts.
Proof.
  intros super pts ts Hs Cav H.
  destruct (state_inv super pts Hs Cav (length pts) (le_n _)) as [CW Inv].
  unfold bw_with in H. destruct (length pts <? 3)%nat; [discriminate|]. injection H as <-.
  assert (A : forall t, In t (filter (fun t => negb (has_super (length pts) t)) (bw_all super pts)) ->
              In t (bw_state super pts (length pts)) /\ idx_ok (length pts) t).
  { intros t Ht. apply filter_In in Ht. destruct Ht as [Ht Hn].
    apply negb_true_iff, has_super_false in Hn. split; [exact Ht|exact Hn]. }
  split.
  - intros t Ht. destruct (A t Ht) as [Hin Hi]. split; [exact Hi|].
    rewrite <- (resolve_app pts (super pts) t Hi). apply CW. exact Hin.
  - intros t p Ht Hp. destruct (A t Ht) as [Hin Hi].
    destruct (In_nth pts p pzero Hp) as [j [Hj Ej]].
    pose proof (Inv t j Hin (or_introl Hj)) as E. rewrite app_nth1 in E by exact Hj. rewrite Ej in E.
    apply in_circb_ge in E. pose proof (CW t Hin) as C.
    rewrite (resolve_app pts (super pts) t Hi) in E, C.
    destruct (resolve pts t) as [[a b] c]. unfold gincircle, gorient in *.
    assert (NZ : ~ orient a b c == 0) by lra.
    rewrite (incircum_ok a b c p NZ). nra.
Qed.

(* ================================================================== 8. the cavity hypotheses are decidable *)
Lemma edge_eqb_eq : forall e f, edge_eqb e f = true <-> e = f.
Proof.
  intros [a b] [c d]. unfold edge_eqb. cbn [fst snd]. rewrite andb_true_iff, !Nat.eqb_eq. split.
  - intros [-> ->]. reflexivity.
  - intros H. injection H as -> ->. auto.
Qed.

Lemma star_shapedb_ok : forall P T i, star_shapedb P T i = true -> star_shaped P T i.
Proof.
  intros P T i H e He. unfold star_shapedb in H. rewrite forallb_forall in H.
  apply Qltb_lt. apply H. exact He.
Qed.

Lemma olds_at_in : forall n k j, old_at n k j -> In j (olds_at n k).
Proof.
  intros n k j [H|H]; unfold olds_at; apply in_or_app.
  - left. apply in_seq. lia.
  - right. simpl. lia.
Qed.

Lemma continues_behindb_ok : forall P T i n k,
  continues_behindb P T i (olds_at n k) = true -> continues_behind P T i (old_at n k).
Proof.
  intros P T i n k H e j He Hj Side. unfold continues_behindb in H. rewrite forallb_forall in H.
  specialize (H e He). apply orb_true_iff in H. destruct H as [H|H].
  - apply existsb_exists in H. destruct H as [g [Hg H]]. exists g. split; [exact Hg|].
    apply existsb_exists in H. destruct H as [f [Hf E]]. apply edge_eqb_eq in E. subst f. exact Hf.
  - rewrite forallb_forall in H. specialize (H j (olds_at_in n k j Hj)).
    apply negb_true_iff, Qltb_nlt in H. contradiction.
Qed.

Lemma cav_run_ok : forall P n m a T,
  cav_run P n (seq a m) T = true ->
  forall k, (a <= k < a + m)%nat ->
    star_shaped P (fold_left (insert P) (seq a (k - a)) T) k /\
    continues_behind P (fold_left (insert P) (seq a (k - a)) T) k (old_at n k).
Proof.
  intros P n m. induction m as [|m IH]; intros a T H k Hk; [lia|].
  cbn [seq cav_run] in H. apply andb_true_iff in H. destruct H as [H H3].
  apply andb_true_iff in H. destruct H as [H1 H2].
  destruct (Nat.eq_dec k a) as [->|Ne].
  - replace (a - a)%nat with 0%nat by lia. cbn [seq fold_left].
    split; [apply star_shapedb_ok; exact H1|apply continues_behindb_ok; exact H2].
  - specialize (IH (S a) (insert P T a) H3 k ltac:(lia)).
    replace (k - a)%nat with (S (k - S a)) by lia. cbn [seq fold_left]. exact IH.
Qed.

Theorem cavities_okb_ok : forall super pts, cavities_okb super pts = true -> cavities_ok super pts.
Proof.
  intros super pts H k Hk. unfold cavities_okb in H.
  pose proof (cav_run_ok _ _ _ _ _ H k ltac:(lia)) as R. rewrite Nat.sub_0_r in R. exact R.
Qed.

(* ================================================================== 9. a repeated input point is ignored *)
Lemma incircle_point_ext : forall a b c p q,
  fst p == fst q -> snd p == snd q -> incircle a b c p == incircle a b c q.
Proof. intros a b c p q Hx Hy. unfold incircle. rewrite Hx, Hy. reflexivity. Qed.

Lemma in_circb_point_ext : forall P t p q,
  fst p == fst q -> snd p == snd q -> in_circb P t p = in_circb P t q.
Proof.
  intros P t p q Hx Hy. apply bool_ext. rewrite !in_circb_lt.
  destruct (resolve P t) as [[a b] c]. unfold gincircle.
  rewrite (incircle_point_ext a b c p q Hx Hy). reflexivity.
Qed.

Lemma filter_all : forall A (f : A -> bool) l, (forall x, In x l -> f x = true) -> filter f l = l.
Proof.
  intros A f l. induction l as [|a l IH]; intros H; simpl; [reflexivity|].
  rewrite (H a (or_introl eq_refl)). f_equal. apply IH. intros x Hx. apply H. right. exact Hx.
Qed.
Lemma filter_none : forall A (f : A -> bool) l, (forall x, In x l -> f x = false) -> filter f l = [].
Proof.
  intros A f l. induction l as [|a l IH]; intros H; simpl; [reflexivity|].
  rewrite (H a (or_introl eq_refl)). apply IH. intros x Hx. apply H. right. exact Hx.
Qed.

(* if point i coincides with an already inserted point j, no circumcircle contains it strictly, the
   cavity is empty and the insertion changes nothing: index i is simply never used *)
Theorem duplicate_ignored : forall P T i j (old : nat -> Prop),
  empty_for P T old -> old j ->
  fst (nth i P pzero) == fst (nth j P pzero) -> snd (nth i P pzero) == snd (nth j P pzero) ->
  insert P T i = T.
Proof.
  intros P T i j old Inv Hj Hx Hy.
  assert (B : bad_of P T i = []).
  { unfold bad_of. apply filter_none. intros t Ht.
    rewrite (in_circb_point_ext P t _ _ Hx Hy). apply Inv; assumption. }
  unfold insert. rewrite B. cbn [polygon flat_map fill_hole fold_left].
  apply filter_all. intros. reflexivity.
Qed.

(* ================================================================== 10. the cavity facts from edge closure *)
Lemma edge_third_v : forall P t u v, In (u, v) (edges t) ->
  exists w, In w (tri_verts t) /\ In u (tri_verts t) /\ In v (tri_verts t) /\
            gorient (resolve P t) == orient (nth u P pzero) (nth v P pzero) (nth w P pzero) /\
            forall x, gincircle (resolve P t) x == incircle (nth u P pzero) (nth v P pzero) (nth w P pzero) x.
Proof.
  intros P [[a b] c] u v H. simpl in H. destruct H as [E|[E|[E|[]]]]; injection E as <- <-.
  - exists c. simpl. repeat split; auto; reflexivity.
  - exists a. unfold gorient, gincircle, resolve. simpl. repeat split; auto; [symmetry; apply orient_cyc|].
    intros x. symmetry. apply incircle_cyc.
  - exists b. unfold gorient, gincircle, resolve. simpl. repeat split; auto; [apply orient_cyc|].
    intros x. apply incircle_cyc.
Qed.

(* in-circle monotonicity along the pencil of circles through u and v: if p lies inside the circle of
   the clockwise triangle (u,v,w), on or beyond the edge uv, and the apex z of the neighbour (v,u,z)
   is not inside that circle, then p lies inside the neighbour's circle as well *)
Lemma pencil_neighbour_bad : forall u v w z p,
  orient u v w < 0 -> incircle u v w p < 0 -> orient v u z < 0 -> 0 <= incircle u v w z ->
  0 <= orient u v p -> incircle v u z p < 0.
Proof.
  intros u v w z p Ow Ip Oz Iz Op. pose proof (circle_pencil u v w z p) as E.
  rewrite (orient_flip u v z) in Oz. rewrite (incircle_flip u v z p).
  set (A := incircle u v z p) in *. set (ow := orient u v w) in *. set (ip := incircle u v w p) in *.
  set (oz := orient u v z) in *. set (iz := incircle u v w z) in *. set (op := orient u v p) in *.
  clearbody A ow ip oz iz op.
  destruct (Qlt_le_dec 0 A) as [L|L]; [lra|exfalso]. nra.
Qed.

(* p strictly inside the clockwise super triangle (n, n+1, n+2) of the point array P *)
Definition sup_in (P : list pt) (n : nat) (p : pt) : Prop :=
  orient (nth n P pzero) (nth (S n) P pzero) p < 0 /\
  orient (nth (S n) P pzero) (nth (S (S n)) P pzero) p < 0 /\
  orient (nth (S (S n)) P pzero) (nth n P pzero) p < 0.

(* (c) of the classical argument: every boundary edge of the cavity sees the new point strictly on
   its inner side.  Otherwise the triangle behind the edge would be bad as well. *)
Theorem star_from_closed : forall P n T i (old : nat -> Prop),
  (forall t, In t T -> gorient (resolve P t) < 0) ->
  empty_for P T old ->
  (forall t a, In t T -> In a (tri_verts t) -> old a) ->
  edge_closed n T ->
  sup_in P n (nth i P pzero) ->
  star_shaped P T i.
Proof.
  intros P n T i old CW Inv VO EC [S1 [S2 S3]] e He.
  unfold cavity_boundary in He. pose proof He as He'. apply polygon_in in He'.
  destruct He' as [b [Hb [Eb Sh]]]. pose proof Hb as Hb'. apply bad_of_in in Hb'. destruct Hb' as [HbT Bad].
  destruct e as [u v]. cbn [fst snd].
  destruct (EC b (u, v) HbT Eb) as [Se|[g [Hg Eg]]].
  - simpl in Se. destruct Se as [E|[E|[E|[]]]]; injection E as <- <-; assumption.
  - cbn [fst snd] in Eg.
    set (p := nth i P pzero) in *. set (pu := nth u P pzero). set (pv := nth v P pzero).
    destruct (Qlt_le_dec (orient pu pv p) 0) as [L|L]; [exact L|exfalso].
    destruct (edge_third_v P b u v Eb) as [w [_ [_ [_ [Ow Iw]]]]].
    destruct (edge_third_v P g v u Eg) as [z [Vz [_ [_ [Oz Iz]]]]].
    fold pu pv in Ow, Iw, Oz, Iz. set (pw := nth w P pzero) in *. set (pz := nth z P pzero) in *.
    pose proof (CW b HbT) as Cb. rewrite Ow in Cb.
    pose proof (CW g Hg) as Cg. rewrite Oz in Cg.
    apply in_circb_lt in Bad. rewrite Iw in Bad.
    pose proof (Inv b z HbT (VO g z Hg Vz)) as Ez. fold pz in Ez. apply in_circb_ge in Ez. rewrite Iw in Ez.
    pose proof (pencil_neighbour_bad pu pv pw pz p Cb Bad Cg Ez L) as Gb.
    assert (Bg : In g (bad_of P T i)).
    { apply bad_of_in. split; [exact Hg|]. apply in_circb_lt. rewrite Iz. exact Gb. }
    assert (S : shared (bad_of P T i) b (u, v) = true); [|congruence].
    apply shared_true. exists g. split; [exact Bg|]. split.
    + intros ->. exact (no_both_directions P b u v (CW b HbT) Eb Eg).
    + exists (v, u). split; [exact Eg|]. unfold edge_same. cbn [fst snd].
      rewrite !Nat.eqb_refl. rewrite orb_true_r. reflexivity.
Qed.

(* the triangulation continues behind every boundary edge beyond which an old point lies: behind an
   edge of the super triangle there is no old point *)
Theorem continues_from_closed : forall P n T i (old : nat -> Prop),
  edge_closed n T ->
  gorient (resolve P (super_tri n)) < 0 ->
  (forall j, old j -> (j < n)%nat -> sup_in P n (nth j P pzero)) ->
  (forall j, old j -> (j < n + 3)%nat) ->
  continues_behind P T i old.
Proof.
  intros P n T i old EC Hs In_ Bd e j He Hj Side.
  unfold cavity_boundary in He. apply polygon_in in He. destruct He as [b [Hb [Eb _]]].
  apply bad_of_in in Hb. destruct Hb as [HbT _].
  destruct (EC b e HbT Eb) as [Se|G]; [exfalso|exact G].
  unfold super_tri, gorient, resolve in Hs.
  set (pl := nth n P pzero) in *. set (pt_ := nth (S n) P pzero) in *. set (pr := nth (S (S n)) P pzero) in *.
  destruct (Nat.lt_ge_cases j n) as [Lt|Ge].
  - destruct (In_ j Hj Lt) as [A1 [A2 A3]]. fold pl pt_ pr in A1, A2, A3.
    simpl in Se. destruct Se as [E|[E|[E|[]]]]; subst e; cbn [fst snd] in Side; fold pl pt_ pr in Side; lra.
  - pose proof (Bd j Hj) as B. assert (C : j = n \/ j = S n \/ j = S (S n)) by lia.
    simpl in Se.
    destruct Se as [E|[E|[E|[]]]]; subst e; cbn [fst snd] in Side; fold pl pt_ pr in Side;
      destruct C as [->|[->| ->]]; fold pl pt_ pr in Side; unfold orient in *; lra.
Qed.

(* ---- the run: the invariants, now also "every vertex of the triangulation is an inserted point" *)
Lemma edge_verts : forall t e, In e (edges t) -> In (fst e) (tri_verts t) /\ In (snd e) (tri_verts t).
Proof. intros [[a b] c] e [<-|[<-|[<-|[]]]]; simpl; auto. Qed.

Lemma inside_sup_in : forall super pts j,
  inside_super super pts -> (j < length pts)%nat ->
  sup_in (pts ++ super pts) (length pts) (nth j (pts ++ super pts) pzero).
Proof.
  intros super pts j H Hj. unfold inside_super, super_gtri in H. destruct H as [_ H].
  specialize (H (nth j pts pzero) (nth_In _ _ Hj)). unfold sup_in.
  rewrite (app_nth1 pts (super pts) pzero Hj). rewrite !(app_nth2 pts (super pts)) by lia.
  replace (length pts - length pts)%nat with 0%nat by lia.
  replace (S (length pts) - length pts)%nat with 1%nat by lia.
  replace (S (S (length pts)) - length pts)%nat with 2%nat by lia. exact H.
Qed.

Lemma state_inv_closed : forall super pts,
  inside_super super pts -> closed_run super pts ->
  forall k, (k <= length pts)%nat ->
    (forall t, In t (bw_state super pts k) -> gorient (resolve (pts ++ super pts) t) < 0) /\
    empty_for (pts ++ super pts) (bw_state super pts k) (old_at (length pts) k) /\
    (forall t a, In t (bw_state super pts k) -> In a (tri_verts t) -> old_at (length pts) k a) /\
    (forall j, (j < k)%nat ->
       star_shaped (pts ++ super pts) (bw_state super pts j) j /\
       continues_behind (pts ++ super pts) (bw_state super pts j) j (old_at (length pts) j)).
Proof.
  intros super pts Hin Cl.
  assert (Hs : gorient (super_gtri super pts) < 0).
  { unfold inside_super in Hin. destruct (super_gtri super pts) as [[l t] r]. exact (proj1 Hin). }
  set (n := length pts). set (P := pts ++ super pts).
  assert (R : resolve P (super_tri n) = super_gtri super pts).
  { unfold super_tri, resolve, super_gtri, P, n. rewrite !app_nth2 by lia.
    replace (length pts - length pts)%nat with 0%nat by lia.
    replace (S (length pts) - length pts)%nat with 1%nat by lia.
    replace (S (S (length pts)) - length pts)%nat with 2%nat by lia. reflexivity. }
  induction k as [|k IH]; intros Hk.
  - unfold bw_state. cbn [seq fold_left]. fold n. fold P. split; [|split; [|split]].
    + intros t [<-|[]]. rewrite R. exact Hs.
    + intros t j [<-|[]] [Hj|Hj]; [lia|]. apply in_circb_ge. rewrite R.
      assert (C : j = n \/ j = S n \/ j = S (S n)) by lia.
      unfold super_gtri, gincircle. cbv beta iota. subst P n. destruct C as [->|[->| ->]]; rewrite app_nth2 by lia.
      * replace (length pts - length pts)%nat with 0%nat by lia. rewrite incircle_v1. apply Qle_refl.
      * replace (S (length pts) - length pts)%nat with 1%nat by lia. rewrite incircle_v2. apply Qle_refl.
      * replace (S (S (length pts)) - length pts)%nat with 2%nat by lia. rewrite incircle_self. apply Qle_refl.
    + intros t a [<-|[]] Ha. unfold super_tri in Ha. simpl in Ha. unfold old_at. lia.
    + intros j Hj. lia.
  - destruct (IH ltac:(lia)) as [CW [Inv [VO Prev]]].
    assert (Star : star_shaped P (bw_state super pts k) k).
    { apply (star_from_closed P n _ k (old_at n k) CW Inv VO (Cl k ltac:(unfold n in *; lia))).
      apply inside_sup_in; [exact Hin|lia]. }
    assert (Cont : continues_behind P (bw_state super pts k) k (old_at n k)).
    { apply (continues_from_closed P n _ k (old_at n k) (Cl k ltac:(unfold n in *; lia))).
      - rewrite R. exact Hs.
      - intros j _ Lt. apply inside_sup_in; [exact Hin|exact Lt].
      - intros j [Hj|Hj]; unfold n in *; lia. }
    rewrite bw_state_S. fold P. split; [|split; [|split]].
    + intros x Hx. apply insert_in in Hx. destruct Hx as [[Hx _]|[e [He [_ ->]]]]; [apply CW; exact Hx|].
      pose proof (Star e He) as St. destruct e as [u v]. cbn [fst snd] in St.
      rewrite (star_new_tri P u v k St). exact St.
    + pose proof (insert_keeps_empty P _ k _ CW Inv Star Cont) as E.
      intros t j Ht Hj. apply (E t j Ht). unfold old_at in *. lia.
    + intros x a Hx Ha. apply insert_in in Hx. destruct Hx as [[Hx _]|[e [He [_ ->]]]].
      * specialize (VO x a Hx Ha). unfold old_at in *. lia.
      * apply polygon_in in He. destruct He as [b [Hb [Eb _]]]. apply bad_of_in in Hb. destruct Hb as [HbT _].
        destruct (edge_verts b e Eb) as [V1 V2].
        pose proof (VO b _ HbT V1) as O1. pose proof (VO b _ HbT V2) as O2.
        destruct (new_tri_cases P e k) as [E|E]; rewrite E in Ha; simpl in Ha;
          destruct Ha as [<-|[<-|[<-|[]]]]; unfold old_at in *; lia.
    + intros j Hj. destruct (Nat.eq_dec j k) as [->|Ne]; [split; assumption|apply Prev; lia].
Qed.

Theorem cavities_from_closed : forall super pts,
  inside_super super pts -> closed_run super pts -> cavities_ok super pts.
Proof.
  intros super pts Hin Cl k Hk.
  destruct (state_inv_closed super pts Hin Cl (length pts) (le_n _)) as [_ [_ [_ Prev]]].
  apply Prev. exact Hk.
Qed.

Lemma super_fixed_inside : forall pts,
  (exists a b, In a pts /\ In b pts /\ (~ fst a == fst b \/ ~ snd a == snd b)) ->
  inside_super super_fixed pts.
Proof.
  intros pts [a [b [Ha [Hb D]]]]. pose proof (bbox_size_pos pts a b Ha Hb D) as S.
  unfold inside_super. pose proof (super_fixed_contains pts) as C.
  destruct (super_gtri super_fixed pts) as [[l t] r]. split.
  - exact (proj1 (C a S Ha)).
  - intros p Hp. pose proof (C p S Hp) as H. tauto.
Qed.

(* Delaunay from the combinatorial invariant alone *)
Theorem bw_delaunay_closed : forall pts ts,
  (exists a b, In a pts /\ In b pts /\ (~ fst a == fst b \/ ~ snd a == snd b)) ->
  closed_run super_fixed pts -> bw pts = Some ts ->
  (forall t, In t ts -> idx_ok (length pts) t /\ gorient (resolve pts t) < 0) /\
  empty_circles pts ts.
Proof.
  intros pts ts D Cl H. pose proof (super_fixed_inside pts D) as Hin.
  apply (bw_delaunay_conditional super_fixed pts ts).
  - unfold inside_super in Hin. destruct (super_gtri super_fixed pts) as [[l t] r]. exact (proj1 Hin).
  - apply cavities_from_closed; assumption.
  - exact H.
Qed.

(* decidability of the combinatorial invariant *)
Lemma edge_closedb_ok : forall n T, edge_closedb n T = true -> edge_closed n T.
Proof.
  intros n T H t e Ht He. unfold edge_closedb in H. rewrite forallb_forall in H.
  specialize (H t Ht). rewrite forallb_forall in H. specialize (H e He).
  apply orb_true_iff in H. destruct H as [H|H].
  - left. apply existsb_exists in H. destruct H as [f [Hf E]]. apply edge_eqb_eq in E. subst f. exact Hf.
  - right. apply existsb_exists in H. destruct H as [g [Hg H]]. exists g. split; [exact Hg|].
    apply existsb_exists in H. destruct H as [f [Hf E]]. apply edge_eqb_eq in E. subst f. exact Hf.
Qed.

Lemma closed_runb_from_ok : forall P n m a T,
  closed_runb_from P n (seq a m) T = true ->
  forall k, (a <= k < a + m)%nat -> edge_closed n (fold_left (insert P) (seq a (k - a)) T).
Proof.
  intros P n m. induction m as [|m IH]; intros a T H k Hk; [lia|].
  cbn [seq closed_runb_from] in H. apply andb_true_iff in H. destruct H as [H1 H2].
  destruct (Nat.eq_dec k a) as [->|Ne].
  - replace (a - a)%nat with 0%nat by lia. cbn [seq fold_left]. apply edge_closedb_ok. exact H1.
  - specialize (IH (S a) (insert P T a) H2 k ltac:(lia)).
    replace (k - a)%nat with (S (k - S a)) by lia. cbn [seq fold_left]. exact IH.
Qed.

Theorem closed_runb_ok : forall super pts, closed_runb super pts = true -> closed_run super pts.
Proof.
  intros super pts H k Hk. unfold closed_runb in H.
  pose proof (closed_runb_from_ok _ _ _ _ _ H k ltac:(lia)) as R. rewrite Nat.sub_0_r in R. exact R.
Qed.

(* ================================================================== 11. the cavity contains the triangle around p *)
(* power of p with respect to the circumcircle in (unnormalised) barycentric coordinates *)
Lemma power_barycentric : forall a b c p,
  incircle a b c p * orient a b c ==
  orient c a p * orient a b p * dist2 b c + orient a b p * orient b c p * dist2 c a
  + orient b c p * orient c a p * dist2 a b.
Proof. intros. unfold incircle, orient, dist2. ring. Qed.

Lemma sq_nonneg : forall x : Q, 0 <= x * x.
Proof.
  intros x. destruct (Qlt_le_dec x 0) as [H|H].
  - assert (0 <= (- x) * (- x)) by (apply Qmult_le_0_compat; lra).
    assert (x * x == (- x) * (- x)) by ring. lra.
  - apply Qmult_le_0_compat; assumption.
Qed.

Lemma dist2_nonneg : forall a b, 0 <= dist2 a b.
Proof.
  intros. unfold dist2. pose proof (sq_nonneg (fst a - fst b)). pose proof (sq_nonneg (snd a - snd b)). lra.
Qed.

Lemma dist2_pos : forall a b c, ~ orient a b c == 0 -> 0 < dist2 a b.
Proof.
  intros a b c Ho. pose proof (dist2_nonneg a b) as N.
  destruct (Qlt_le_dec 0 (dist2 a b)) as [L|L]; [exact L|exfalso]. apply Ho.
  unfold dist2 in *. set (dx := fst a - fst b) in *. set (dy := snd a - snd b) in *.
  pose proof (sq_nonneg dx) as X. pose proof (sq_nonneg dy) as Y.
  assert (Zx : dx == 0).
  { destruct (Qeq_dec dx 0) as [E|E]; [exact E|]. pose proof (sq_pos dx E). lra. }
  assert (Zy : dy == 0).
  { destruct (Qeq_dec dy 0) as [E|E]; [exact E|]. pose proof (sq_pos dy E). lra. }
  unfold orient. assert (E1 : fst b - fst a == - dx) by (unfold dx; ring).
  assert (E2 : snd b - snd a == - dy) by (unfold dy; ring).
  rewrite E1, E2, Zx, Zy. ring.
Qed.

Lemma neg_neg_pos : forall x y, x < 0 -> y < 0 -> 0 < x * y.
Proof.
  intros x y Hx Hy. assert (0 < (- x) * (- y)) by (apply Qmult_lt_0_compat; lra).
  assert (x * y == (- x) * (- y)) by ring. lra.
Qed.

(* (a) of the classical argument: a point strictly inside a clockwise triangle lies strictly inside
   its circumcircle, so that triangle is one of the bad ones *)
Theorem containing_triangle_bad : forall P t p,
  gorient (resolve P t) < 0 -> Inside (resolve P t) p -> in_circb P t p = true.
Proof.
  intros P t p CW Hin. apply in_circb_lt. destruct (resolve P t) as [[a b] c].
  unfold gorient, gincircle in *. pose proof (orient_sum a b c p) as S.
  assert (N : orient a b p < 0 /\ orient b c p < 0 /\ orient c a p < 0).
  { destruct Hin as [[H1 [H2 H3]]|H]; [lra|exact H]. }
  destruct N as [N3 [N1 N2]].
  pose proof (power_barycentric a b c p) as E.
  assert (NZ : ~ orient a b c == 0) by lra.
  pose proof (dist2_pos a b c NZ) as Dab. pose proof (dist2_nonneg b c) as Dbc. pose proof (dist2_nonneg c a) as Dca.
  pose proof (neg_neg_pos _ _ N2 N3) as P23. pose proof (neg_neg_pos _ _ N3 N1) as P31.
  pose proof (neg_neg_pos _ _ N1 N2) as P12.
  assert (T1 : 0 <= orient c a p * orient a b p * dist2 b c) by (apply Qmult_le_0_compat; lra).
  assert (T2 : 0 <= orient a b p * orient b c p * dist2 c a) by (apply Qmult_le_0_compat; lra).
  assert (T3 : 0 < orient b c p * orient c a p * dist2 a b) by (apply Qmult_lt_0_compat; lra).
  set (I := incircle a b c p) in *. set (T := orient a b c) in *.
  assert (Pos : 0 < I * T) by lra. clearbody I T.
  destruct (Qlt_le_dec I 0) as [L|L]; [exact L|exfalso].
  assert (0 <= I * (- T)) by (apply Qmult_le_0_compat; lra).
  assert (I * T == - (I * (- T))) by ring. lra.
Qed.

(* hence the cavity of a point strictly inside some triangle of the triangulation is not empty *)
Corollary cavity_nonempty : forall P T i t,
  In t T -> gorient (resolve P t) < 0 -> Inside (resolve P t) (nth i P pzero) -> In t (bad_of P T i).
Proof. intros P T i t Ht CW Hin. apply bad_of_in. split; [exact Ht|apply containing_triangle_bad; assumption]. Qed.

(* ================================================================== 12. preservation of edge closure, reduced *)
Lemma edge_same_cases : forall e f, edge_same e f = true -> f = e \/ f = (snd e, fst e).
Proof.
  intros [a b] [c d] H. unfold edge_same in H. cbn [fst snd] in *.
  apply orb_true_iff in H. destruct H as [H|H]; apply andb_true_iff in H; destruct H as [H1 H2];
    apply Nat.eqb_eq in H1; apply Nat.eqb_eq in H2; subst; auto.
Qed.

Lemma in_insert_new : forall P T i u v,
  In (u, v) (cavity_boundary P T i) -> star_shaped P T i -> u <> i -> v <> i ->
  In (u, v, i) (insert P T i).
Proof.
  intros P T i u v He Star Hu Hv. apply insert_in. right. exists (u, v). split; [exact He|]. split.
  - apply skip_edge_false. cbn [fst snd]. auto.
  - symmetry. apply star_new_tri. exact (Star (u, v) He).
Qed.

Theorem insert_keeps_closed : forall P n T i,
  (forall t, In t T -> gorient (resolve P t) < 0) ->
  edge_closed n T -> edge_unique T ->
  (forall t, In t T -> ~ In i (tri_verts t)) ->
  star_shaped P T i -> boundary_chains P T i ->
  edge_closed n (insert P T i).
Proof.
  intros P n T i CW EC EU Fresh Star Ch x e Hx He.
  assert (PolyV : forall u v, In (u, v) (cavity_boundary P T i) -> u <> i /\ v <> i).
  { intros u v Hp. apply polygon_in in Hp. destruct Hp as [b [Hb [Eb _]]]. apply bad_of_in in Hb.
    destruct Hb as [HbT _]. destruct (edge_verts b (u, v) Eb) as [V1 V2]. cbn [fst snd] in V1, V2.
    split; intros ->; exact (Fresh b HbT ltac:(assumption)). }
  apply insert_in in Hx. destruct Hx as [[HxT Nb]|[e0 [Hp [_ ->]]]].
  - (* a kept triangle *)
    destruct (EC x e HxT He) as [S|[g [Hg Eg]]]; [left; exact S|right].
    assert (Dg : In g (bad_of P T i) \/ ~ In g (bad_of P T i)).
    { destruct (existsb (tri_eqb g) (bad_of P T i)) eqn:Eb; [left; apply tri_inb_in; exact Eb|right].
      rewrite <- tri_inb_in. congruence. }
    destruct Dg as [Bg|Ng].
    + (* the neighbour is removed: its side of the edge is a boundary edge and is re-fanned *)
      assert (Hp : In (snd e, fst e) (cavity_boundary P T i)).
      { apply polygon_in. exists g. split; [exact Bg|]. split; [exact Eg|].
        destruct (shared (bad_of P T i) g (snd e, fst e)) eqn:Sh; [exfalso|reflexivity].
        apply shared_true in Sh. destruct Sh as [o [Bo [Ne [f [Hf Sm]]]]].
        pose proof Bo as Bo'. apply bad_of_in in Bo'. destruct Bo' as [HoT _].
        apply edge_same_cases in Sm. cbn [fst snd] in Sm. destruct Sm as [->| ->].
        - apply Ne. exact (EU o g _ HoT Hg Hf Eg).
        - destruct e as [a b]. cbn [fst snd] in *. assert (o = x) by exact (EU o x _ HoT HxT Hf He).
          subst o. contradiction. }
      destruct (PolyV _ _ Hp) as [V1 V2].
      exists (snd e, fst e, i). split; [apply in_insert_new; assumption|]. simpl. auto.
    + exists g. split; [|exact Eg]. apply insert_in. left. split; assumption.
  - (* a triangle of the fan *)
    destruct e0 as [u v]. unfold cavity_boundary in *. pose proof (Star (u, v) Hp) as St. cbn [fst snd] in St.
    rewrite (star_new_tri P u v i St) in He. simpl in He.
    pose proof Hp as Hp'. apply polygon_in in Hp'. destruct Hp' as [b [Hb [Eb Sh]]].
    pose proof Hb as Hb'. apply bad_of_in in Hb'. destruct Hb' as [HbT _].
    destruct (Ch u v Hp) as [[x0 Hx0] [y0 Hy0]].
    destruct He as [<-|[<-|[<-|[]]]]; cbn [fst snd].
    + destruct (EC b (u, v) HbT Eb) as [S|[g [Hg Eg]]]; [left; exact S|right]. cbn [fst snd] in Eg.
      exists g. split; [|exact Eg]. apply insert_in. left. split; [exact Hg|]. intros Bg.
      assert (S : shared (bad_of P T i) b (u, v) = true); [|congruence].
      apply shared_true. exists g. split; [exact Bg|]. split.
      * intros ->. exact (no_both_directions P b u v (CW b HbT) Eb Eg).
      * exists (v, u). split; [exact Eg|]. unfold edge_same. cbn [fst snd].
        rewrite !Nat.eqb_refl. rewrite orb_true_r. reflexivity.
    + right. destruct (PolyV _ _ Hx0) as [V1 V2]. exists (v, x0, i).
      split; [apply in_insert_new; assumption|]. simpl. auto.
    + right. destruct (PolyV _ _ Hy0) as [V1 V2]. exists (y0, u, i).
      split; [apply in_insert_new; assumption|]. simpl. auto.
Qed.
