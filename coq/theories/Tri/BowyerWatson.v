(* C20 — executable model of modeling/triangulation/bowyer_watson.go (bowyerWatson, fillHole,
   SuperTriangle, containsSuperTriangleVertex, BowyerWatson) over exact rationals.
   Definitions only; proofs live in BowyerWatsonProofs.v.

   The Go map[Triangle]struct{} is a duplicate-free list (add_tri); the order of that list is
   the map iteration order, which the result (as a set) does not depend on
   (bw_order_independent). *)
From Coq Require Import List ZArith QArith Bool Arith Qminmax.
From PF Require Import Tri.Delaunay.
Import ListNotations.
Open Scope Q_scope.

Definition edge := (nat * nat)%type.

Definition tri_eqb (t u : tri) : bool :=
  let '(a, b, c) := t in let '(d, e, f) := u in ((a =? d) && (b =? e) && (c =? f))%nat.

(* Triangle.Edges *)
Definition edges (t : tri) : list edge := let '(a, b, c) := t in [(a, b); (b, c); (c, a)].

(* the two nested ifs of the boundary search: same edge in either direction *)
Definition edge_same (e f : edge) : bool :=
  (((fst e =? fst f) && (snd e =? snd f)) || ((fst e =? snd f) && (snd e =? fst f)))%nat.

(* ---- SuperTriangle ---- *)
Definition bbox (pts : list pt) : Q * Q * Q * Q :=          (* min.X, min.Y, max.X, max.Y *)
  match pts with
  | [] => (0, 0, 0, 0)
  | p :: tl =>
      fold_left (fun bb q => let '(x0, y0, x1, y1) := bb in
                   (Qmin (fst q) x0, Qmin (snd q) y0, Qmax (fst q) x1, Qmax (snd q) y1))
                tl (fst p, snd p, fst p, snd p)
  end.

(* /repo HEAD (after fix cb0a07c): sized from the larger bounding-box side *)
Definition super_fixed (pts : list pt) : list pt :=
  let '(x0, y0, x1, y1) := bbox pts in
  let size := Qmax (x1 - x0) (y1 - y0) in
  let yb := y0 - size in
  let xm := (x0 + x1) / 2 in
  [(xm - size * 20, yb); (xm, yb + size * 20); (xm + size * 20, yb)].   (* left, top, right *)

(* the pinned snapshot ea40ecc: fixed offset 2, height only for the apex *)
Definition super_pinned (pts : list pt) : list pt :=
  let '(x0, y0, x1, y1) := bbox pts in
  let height := y1 - y0 in
  let yb := y0 - 2 in
  let xm := (x0 + x1) / 2 in
  let width := x1 - x0 in
  [(xm - width * 20, yb); (xm, yb + height * 20); (xm + width * 20, yb)].

(* ---- predicates as used by the algorithm ---- *)
Definition in_circb (pts : list pt) (t : tri) (p : pt) : bool :=      (* InsideCircumcircle *)
  let '(a, b, c) := resolve pts t in Qltb (incircle a b c p) 0.
Definition ccwb (pts : list pt) (t : tri) : bool :=                   (* CounterClockwise *)
  Qltb 0 (gorient (resolve pts t)).

(* ---- fillHole ---- *)
Definition add_tri (t : tri) (T : list tri) : list tri :=             (* triangulation[t] = exists *)
  if existsb (tri_eqb t) T then T else T ++ [t].
Definition new_tri (pts : list pt) (e : edge) (i : nat) : tri :=
  let t := (fst e, snd e, i) in if ccwb pts t then (fst e, i, snd e) else t.
Definition skip_edge (e : edge) (i : nat) : bool := ((fst e =? i) || (snd e =? i))%nat.
Definition fill_hole (pts : list pt) (poly : list edge) (i : nat) (T : list tri) : list tri :=
  fold_left (fun T e => if skip_edge e i then T else add_tri (new_tri pts e i) T) poly T.

(* ---- one insertion ---- *)
Definition shared (bad : list tri) (t : tri) (e : edge) : bool :=
  existsb (fun o => negb (tri_eqb t o) && existsb (edge_same e) (edges o)) bad.
Definition polygon (bad : list tri) : list edge :=
  flat_map (fun t => filter (fun e => negb (shared bad t e)) (edges t)) bad.
Definition bad_of (pts : list pt) (T : list tri) (i : nat) : list tri :=
  filter (fun t => in_circb pts t (nth i pts pzero)) T.
Definition insert (pts : list pt) (T : list tri) (i : nat) : list tri :=
  let bad := bad_of pts T i in
  fill_hole pts (polygon bad) i (filter (fun t => negb (existsb (tri_eqb t) bad)) T).

(* ---- bowyerWatson ---- *)
Definition has_super (n : nat) (t : tri) : bool :=                    (* containsSuperTriangleVertex *)
  let '(a, b, c) := t in ((n <=? a) || (n <=? b) || (n <=? c))%nat.
Definition super_tri (n : nat) : tri := (n, S n, S (S n)).
Definition bw_all (super : list pt -> list pt) (pts : list pt) : list tri :=
  let n := length pts in
  fold_left (insert (pts ++ super pts)) (seq 0 n) [super_tri n].
Definition bw_with (super : list pt -> list pt) (pts : list pt) : option (list tri) :=
  let n := length pts in
  if (n <? 3)%nat then None                                           (* panic *)
  else Some (filter (fun t => negb (has_super n t)) (bw_all super pts)).

Definition bw := bw_with super_fixed.
Definition bw_pinned := bw_with super_pinned.

(* BowyerWatson: Position attribute of the returned mesh *)
Definition positions (pts : list pt) : list (Q * Q * Q) := map (fun p => (fst p, 0, snd p)) pts.

(* ---- the Go map's iteration order made explicit ----
   `range triangulation` visits the map in an arbitrary order, different on every loop.  sched k T is
   the order in which the k-th loop over the map sees its content T (k < n: the bad-triangle search
   of insertion k; k = n: the final clean-up / the index buffer of BowyerWatson).  bw_with is the
   instance sched = identity; bw_order_independent (BowyerWatsonProofs.v) shows every other
   schedule yields the same set of triangles. *)
Definition bw_all_sched (sched : nat -> list tri -> list tri) (super : list pt -> list pt)
           (pts : list pt) : list tri :=
  let n := length pts in
  fold_left (fun T i => insert (pts ++ super pts) (sched i T) i) (seq 0 n) [super_tri n].
Definition bw_with_sched (sched : nat -> list tri -> list tri) (super : list pt -> list pt)
           (pts : list pt) : option (list tri) :=
  let n := length pts in
  if (n <? 3)%nat then None
  else Some (filter (fun t => negb (has_super n t)) (sched n (bw_all_sched sched super pts))).

(* BowyerWatson: the index buffer (three entries per triangle, in map order) *)
Definition indices (ts : list tri) : list nat := flat_map (fun t => let '(a, b, c) := t in [a; b; c]) ts.

(* ---- specification vocabulary used by the theorems (Properties/C20.v) ---- *)
Definition same_set {A} (l m : list A) : Prop := forall x, In x l <-> In x m.

(* no three input points on a line (implies pairwise distinct points when there are >= 3) *)
Definition general_position (pts : list pt) : Prop :=
  forall i j k, (i < j < k)%nat -> (k < length pts)%nat ->
    ~ orient (nth i pts pzero) (nth j pts pzero) (nth k pts pzero) == 0.
Definition general_positionb (pts : list pt) : bool :=
  let ix := seq 0 (length pts) in
  forallb (fun i => forallb (fun j => forallb (fun k =>
    negb ((i <? j)%nat && (j <? k)%nat) ||
    negb (Qeq_bool (orient (nth i pts pzero) (nth j pts pzero) (nth k pts pzero)) 0)) ix) ix) ix.

Definition distinct3 (t : tri) : Prop := let '(a, b, c) := t in a <> b /\ b <> c /\ c <> a.

Definition super_gtri (super : list pt -> list pt) (pts : list pt) : gtri :=
  let s := super pts in (nth 0 s pzero, nth 1 s pzero, nth 2 s pzero).

(* the in-circle determinant of a resolved triangle; in_circb P t p = (gincircle (resolve P t) p < 0) *)
Definition gincircle (g : gtri) (p : pt) : Q := let '(a, b, c) := g in incircle a b c p.

(* the invariant of the incremental algorithm: no already inserted point (old j) lies strictly inside
   the circumcircle of a triangle of the current triangulation, in the algorithm's own sense *)
Definition empty_for (P : list pt) (T : list tri) (old : nat -> Prop) : Prop :=
  forall t j, In t T -> old j -> in_circb P t (nth j P pzero) = false.

(* the boundary polygon of the cavity of point i, and the two facts about it the classical
   correctness argument needs *)
Definition cavity_boundary (P : list pt) (T : list tri) (i : nat) : list edge := polygon (bad_of P T i).
(* the cavity is strictly star-shaped from the new point: it sees every boundary edge from the inside
   (triangles are clockwise, so "inside" is the negative side of the directed edge) *)
Definition star_shaped (P : list pt) (T : list tri) (i : nat) : Prop :=
  forall e, In e (cavity_boundary P T i) ->
    orient (nth (fst e) P pzero) (nth (snd e) P pzero) (nth i P pzero) < 0.
(* the triangulation continues behind a boundary edge wherever an old point lies strictly beyond it *)
Definition continues_behind (P : list pt) (T : list tri) (i : nat) (old : nat -> Prop) : Prop :=
  forall e j, In e (cavity_boundary P T i) -> old j ->
    0 < orient (nth (fst e) P pzero) (nth (snd e) P pzero) (nth j P pzero) ->
    exists g, In g T /\ In (snd e, fst e) (edges g).

(* the triangulation before insertion k, the points inserted so far (incl. the super vertices), and
   the hypothesis of the conditional correctness theorem: at every step the cavity is star-shaped
   and the triangulation continues behind its boundary *)
Definition bw_state (super : list pt -> list pt) (pts : list pt) (k : nat) : list tri :=
  fold_left (insert (pts ++ super pts)) (seq 0 k) [super_tri (length pts)].
Definition old_at (n k j : nat) : Prop := (j < k)%nat \/ (n <= j < n + 3)%nat.
Definition cavities_ok (super : list pt -> list pt) (pts : list pt) : Prop :=
  forall k, (k < length pts)%nat ->
    star_shaped (pts ++ super pts) (bw_state super pts k) k /\
    continues_behind (pts ++ super pts) (bw_state super pts k) k (old_at (length pts) k).

(* executable versions of the two cavity hypotheses, evaluated along a run of the model (used by
   Check/C20.v on every model-compared case and by the non-vacuity example) *)
Definition edge_eqb (e f : edge) : bool := ((fst e =? fst f) && (snd e =? snd f))%nat.
Definition star_shapedb (P : list pt) (T : list tri) (i : nat) : bool :=
  forallb (fun e => Qltb (orient (nth (fst e) P pzero) (nth (snd e) P pzero) (nth i P pzero)) 0)
          (cavity_boundary P T i).
Definition continues_behindb (P : list pt) (T : list tri) (i : nat) (olds : list nat) : bool :=
  forallb (fun e =>
    existsb (fun g => existsb (edge_eqb (snd e, fst e)) (edges g)) T ||
    forallb (fun j =>
      negb (Qltb 0 (orient (nth (fst e) P pzero) (nth (snd e) P pzero) (nth j P pzero)))) olds)
    (cavity_boundary P T i).
Definition olds_at (n k : nat) : list nat := seq 0 k ++ [n; S n; S (S n)].
Fixpoint cav_run (P : list pt) (n : nat) (ks : list nat) (T : list tri) : bool :=
  match ks with
  | [] => true
  | k :: ks' => star_shapedb P T k && continues_behindb P T k (olds_at n k) && cav_run P n ks' (insert P T k)
  end.
Definition cavities_okb (super : list pt -> list pt) (pts : list pt) : bool :=
  cav_run (pts ++ super pts) (length pts) (seq 0 (length pts)) [super_tri (length pts)].

(* ---- the combinatorial invariant from which the two cavity facts follow (BowyerWatsonProofs.v §10):
   the triangulation is closed under edge reversal except along the super triangle — every directed
   edge of a triangle is an edge of the super triangle or its reverse is an edge of a triangle *)
Definition tri_verts (t : tri) : list nat := let '(a, b, c) := t in [a; b; c].
Definition edge_closed (n : nat) (T : list tri) : Prop :=
  forall t e, In t T -> In e (edges t) ->
    In e (edges (super_tri n)) \/ exists g, In g T /\ In (snd e, fst e) (edges g).
Definition edge_closedb (n : nat) (T : list tri) : bool :=
  forallb (fun t => forallb (fun e =>
    existsb (edge_eqb e) (edges (super_tri n)) ||
    existsb (fun g => existsb (edge_eqb (snd e, fst e)) (edges g)) T) (edges t)) T.
(* ... at every step of the run *)
Definition closed_run (super : list pt -> list pt) (pts : list pt) : Prop :=
  forall k, (k < length pts)%nat -> edge_closed (length pts) (bw_state super pts k).
Fixpoint closed_runb_from (P : list pt) (n : nat) (ks : list nat) (T : list tri) : bool :=
  match ks with
  | [] => true
  | k :: ks' => edge_closedb n T && closed_runb_from P n ks' (insert P T k)
  end.
Definition closed_runb (super : list pt -> list pt) (pts : list pt) : bool :=
  closed_runb_from (pts ++ super pts) (length pts) (seq 0 (length pts)) [super_tri (length pts)].
(* every input point strictly inside the (clockwise) super triangle *)
Definition inside_super (super : list pt -> list pt) (pts : list pt) : Prop :=
  let '(l, t, r) := super_gtri super pts in
  orient l t r < 0 /\
  forall p, In p pts -> orient l t p < 0 /\ orient t r p < 0 /\ orient r l p < 0.

(* the two facts to which the preservation of edge closure is reduced (BowyerWatsonProofs.v §12) *)
Definition edge_unique (T : list tri) : Prop :=            (* no directed edge belongs to two triangles *)
  forall t g e, In t T -> In g T -> In e (edges t) -> In e (edges g) -> t = g.
Definition boundary_chains (P : list pt) (T : list tri) (i : nat) : Prop :=   (* the boundary edges form closed chains *)
  forall u v, In (u, v) (cavity_boundary P T i) ->
    (exists x, In (v, x) (cavity_boundary P T i)) /\ (exists y, In (y, u) (cavity_boundary P T i)).
