(* C20 — the Delaunay checker of Tri/Delaunay.v decides its specification. *)
From Coq Require Import List ZArith QArith Bool Arith Lia Lqa Qfield.
From PF Require Import Tri.Delaunay.
Import ListNotations.
Open Scope Q_scope.

(* ------------------------------------------------------------------ comparisons *)
Lemma Qltb_lt : forall x y, Qltb x y = true <-> x < y.
Proof. intros x y. unfold Qltb, Qlt. apply Z.ltb_lt. Qed.

Lemma Qltb_nlt : forall x y, Qltb x y = false <-> ~ x < y.
Proof.
  intros x y. rewrite <- Qltb_lt. destruct (Qltb x y); split; congruence.
Qed.

(* ------------------------------------------------------------------ a point between bounds *)
Lemma qmax_exists : forall l : list Q, l <> [] ->
  exists m, In m l /\ forall x, In x l -> x <= m.
Proof.
  induction l as [|a l IH]; [congruence|]. intros _.
  destruct l as [|b l'].
  - exists a. split; [left; reflexivity|]. intros x [<-|[]]. apply Qle_refl.
  - destruct IH as [m [Hin Hm]]; [discriminate|].
    destruct (Qlt_le_dec m a) as [H|H].
    + exists a. split; [left; reflexivity|]. intros x [<-|Hx]; [apply Qle_refl|].
      apply Qle_trans with m; [apply Hm; exact Hx|apply Qlt_le_weak; exact H].
    + exists m. split; [right; exact Hin|]. intros x [<-|Hx]; [exact H|apply Hm; exact Hx].
Qed.

Lemma qmin_exists : forall l : list Q, l <> [] ->
  exists m, In m l /\ forall x, In x l -> m <= x.
Proof.
  induction l as [|a l IH]; [congruence|]. intros _.
  destruct l as [|b l'].
  - exists a. split; [left; reflexivity|]. intros x [<-|[]]. apply Qle_refl.
  - destruct IH as [m [Hin Hm]]; [discriminate|].
    destruct (Qlt_le_dec a m) as [H|H].
    + exists a. split; [left; reflexivity|]. intros x [<-|Hx]; [apply Qle_refl|].
      apply Qle_trans with m; [apply Qlt_le_weak; exact H|apply Hm; exact Hx].
    + exists m. split; [right; exact Hin|]. intros x [<-|Hx]; [exact H|apply Hm; exact Hx].
Qed.

Lemma between : forall ls us : list Q,
  (forall l u, In l ls -> In u us -> l < u) ->
  exists x, (forall l, In l ls -> l < x) /\ (forall u, In u us -> x < u).
Proof.
  intros ls us H.
  destruct ls as [|l0 ls'] eqn:El; destruct us as [|u0 us'] eqn:Eu.
  - exists 0. split; intros ? [].
  - destruct (qmin_exists us) as [m [Hin Hm]]; [subst; discriminate|]. subst us.
    exists (m - 1). split; [intros ? []|]. intros u Hu. specialize (Hm u Hu). lra.
  - destruct (qmax_exists ls) as [m [Hin Hm]]; [subst; discriminate|]. subst ls.
    exists (m + 1). split; [|intros ? []]. intros l Hl. specialize (Hm l Hl). lra.
  - destruct (qmax_exists ls) as [m [Hin Hm]]; [subst; discriminate|].
    destruct (qmin_exists us) as [k [Hik Hk]]; [subst; discriminate|]. subst ls us.
    assert (m < k) by (apply H; assumption).
    exists ((m + k) * (1 # 2)). split.
    + intros l Hl. specialize (Hm l Hl). lra.
    + intros u Hu. specialize (Hk u Hu). lra.
Qed.

(* ------------------------------------------------------------------ one elimination step *)
Section ElimProof.
  Variables (E F : Type) (ev : F -> E -> Q) (comb : Q -> F -> Q -> F -> F).
  Hypothesis comb_ok : forall a f b g e, ev (comb a f b g) e == a * ev f e + b * ev g e.

  Definition sat (e : E) (x : Q) (c : Q * F) : Prop := 0 < fst c * x + ev (snd c) e.

  Lemma elim_sound : forall cs e x,
    (forall c, In c cs -> sat e x c) -> forall f, In f (elim F comb cs) -> 0 < ev f e.
  Proof.
    intros cs e x H f Hf. unfold elim in Hf. apply in_app_or in Hf. destruct Hf as [Hf|Hf].
    - apply in_map_iff in Hf. destruct Hf as [c [<- Hc]]. apply filter_In in Hc.
      destruct Hc as [Hc Hz]. apply Qeq_bool_iff in Hz. specialize (H c Hc). unfold sat in H.
      rewrite Hz in H. lra.
    - apply in_flat_map in Hf. destruct Hf as [l [Hl Hf]]. apply in_map_iff in Hf.
      destruct Hf as [u [<- Hu]]. apply filter_In in Hl. apply filter_In in Hu.
      destruct Hl as [Hl Hlp]. destruct Hu as [Hu Hun]. apply Qltb_lt in Hlp. apply Qltb_lt in Hun.
      rewrite comb_ok. pose proof (H l Hl) as Sl. pose proof (H u Hu) as Su. unfold sat in Sl, Su.
      set (al := fst l) in *. set (au := fst u) in *.
      set (vl := ev (snd l) e) in *. set (vu := ev (snd u) e) in *.
      assert (P1 : 0 < al * (au * x + vu)) by (apply Qmult_lt_0_compat; assumption).
      assert (P2 : 0 < (- au) * (al * x + vl)) by (apply Qmult_lt_0_compat; [lra|assumption]).
      assert (ID : al * vu + - au * vl == al * (au * x + vu) + (- au) * (al * x + vl)) by ring.
      rewrite ID. lra.
  Qed.

  Lemma elim_complete : forall cs e,
    (forall f, In f (elim F comb cs) -> 0 < ev f e) -> exists x, forall c, In c cs -> sat e x c.
  Proof.
    intros cs e H.
    set (pos := filter (fun c : Q * F => Qltb 0 (fst c)) cs).
    set (neg := filter (fun c : Q * F => Qltb (fst c) 0) cs).
    set (bnd := fun c : Q * F => - ev (snd c) e / fst c).
    destruct (between (map bnd pos) (map bnd neg)) as [x [Hlo Hhi]].
    - intros l u Hl Hu. apply in_map_iff in Hl. apply in_map_iff in Hu.
      destruct Hl as [cl [<- Hcl]]. destruct Hu as [cu [<- Hcu]].
      assert (Hf : In (comb (fst cl) (snd cu) (- fst cu) (snd cl)) (elim F comb cs)).
      { unfold elim. apply in_or_app. right. apply in_flat_map. exists cl. split; [exact Hcl|].
        apply in_map_iff. exists cu. split; [reflexivity|exact Hcu]. }
      apply H in Hf. rewrite comb_ok in Hf.
      apply filter_In in Hcl. apply filter_In in Hcu.
      destruct Hcl as [_ Hp]. destruct Hcu as [_ Hn]. apply Qltb_lt in Hp. apply Qltb_lt in Hn.
      unfold bnd.
      set (al := fst cl) in *. set (au := fst cu) in *.
      set (vl := ev (snd cl) e) in *. set (vu := ev (snd cu) e) in *.
      (* -vl/al < -vu/au  <=>  al*vu - au*vl > 0 *)
      assert (Hd : - vu / au - - vl / al == (al * vu + - au * vl) / (al * - au)).
      { field. split; lra. }
      assert (0 < (al * vu + - au * vl) / (al * - au)).
      { apply Qlt_shift_div_l; [apply Qmult_lt_0_compat; lra|lra]. }
      lra.
    - exists x. intros c Hc. unfold sat.
      destruct (Q_dec (fst c) 0) as [[Hn|Hp]|Hz].
      + assert (Hin : In c neg) by (apply filter_In; split; [exact Hc|apply Qltb_lt; exact Hn]).
        specialize (Hhi (bnd c) (in_map bnd _ _ Hin)). unfold bnd in Hhi.
        set (a := fst c) in *. set (v := ev (snd c) e) in *.
        assert (Hm : (- a) * x < (- a) * (- v / a)) by (apply Qmult_lt_l; lra).
        assert (Hq : (- a) * (- v / a) == v) by (field; lra).
        rewrite Hq in Hm. lra.
      + assert (Hin : In c pos) by (apply filter_In; split; [exact Hc|apply Qltb_lt; exact Hp]).
        specialize (Hlo (bnd c) (in_map bnd _ _ Hin)). unfold bnd in Hlo.
        set (a := fst c) in *. set (v := ev (snd c) e) in *.
        assert (Hm : a * (- v / a) < a * x) by (apply Qmult_lt_l; lra).
        assert (Hq : a * (- v / a) == - v) by (field; lra).
        rewrite Hq in Hm. lra.
      + assert (Hin : In (snd c) (elim F comb cs)).
        { unfold elim. apply in_or_app. left. apply in_map. apply filter_In. split; [exact Hc|].
          apply Qeq_bool_iff. exact Hz. }
        apply H in Hin. rewrite Hz. lra.
  Qed.

  Theorem elim_ok : forall cs e,
    (exists x, forall c, In c cs -> sat e x c) <-> (forall f, In f (elim F comb cs) -> 0 < ev f e).
  Proof.
    intros cs e. split.
    - intros [x Hx]. eapply elim_sound; eassumption.
    - apply elim_complete.
  Qed.
End ElimProof.

(* ------------------------------------------------------------------ two variables *)
Lemma comb1_ok : forall a f b g y, ev1 (comb1 a f b g) y == a * ev1 f y + b * ev1 g y.
Proof. intros. unfold ev1, comb1. simpl. ring. Qed.

Theorem feasible2_ok : forall cs,
  feasible2 cs = true <-> exists x y, forall f, In f cs -> 0 < ev2 f x y.
Proof.
  intros cs. unfold feasible2. rewrite forallb_forall.
  pose proof (elim_ok unit Q (fun c _ => c) comb0 (fun a f b g _ => Qeq_refl _)) as E0.
  pose proof (elim_ok Q form1 ev1 comb1 comb1_ok) as E1.
  split.
  - intros H.
    destruct (proj2 (E0 (elim form1 comb1 cs) tt)) as [y Hy].
    { intros f Hf. apply Qltb_lt. apply H. exact Hf. }
    destruct (proj2 (E1 cs y)) as [x Hx].
    { intros f Hf. apply (Hy f Hf). }
    exists x, y. intros f Hf. apply (Hx f Hf).
  - intros [x [y Hxy]] c Hc. apply Qltb_lt.
    apply (proj1 (E0 (elim form1 comb1 cs) tt)); [|exact Hc].
    exists y. intros f Hf. unfold sat.
    apply (proj1 (E1 cs y)); [|exact Hf].
    exists x. intros g Hg. apply (Hxy g Hg).
Qed.

Lemma sq_pos_early : forall o, ~ o == 0 -> 0 < o * o.
Proof.
  intros o Ho. destruct (Q_dec o 0) as [[H|H]|H]; [| |contradiction].
  - assert (0 < (- o) * (- o)) by (apply Qmult_lt_0_compat; lra).
    assert (o * o == (- o) * (- o)) by ring. lra.
  - apply Qmult_lt_0_compat; assumption.
Qed.

(* ------------------------------------------------------------------ interiors *)
Lemma orient_sum : forall a b c p,
  orient a b p + orient b c p + orient c a p == orient a b c.
Proof. intros. unfold orient. ring. Qed.

Lemma edge_form_ev : forall s a b x y, ev2 (edge_form s a b) x y == s * orient a b (x, y).
Proof. intros. unfold ev2, ev1, edge_form, orient. simpl. ring. Qed.

Lemma inside_forms : forall g p,
  Inside g p <-> forall f, In f (tri_forms g) -> 0 < ev2 f (fst p) (snd p).
Proof.
  intros [[a b] c] [x y]. unfold Inside, tri_forms. cbn [fst snd].
  pose proof (orient_sum a b c (x, y)) as S.
  set (o := orient a b c) in *.
  set (o1 := orient a b (x, y)) in *. set (o2 := orient b c (x, y)) in *.
  set (o3 := orient c a (x, y)) in *.
  split.
  - intros H f Hf.
    assert (P : 0 < o * o1 /\ 0 < o * o2 /\ 0 < o * o3).
    { destruct H as [[H1 [H2 H3]]|[H1 [H2 H3]]].
      - assert (0 < o) by lra. repeat split; apply Qmult_lt_0_compat; assumption.
      - assert (o < 0) by lra.
        assert (forall z, z < 0 -> 0 < o * z).
        { intros z Hz. assert (0 < (- o) * (- z)) by (apply Qmult_lt_0_compat; lra).
          assert (o * z == (- o) * (- z)) by ring. lra. }
        auto. }
    destruct P as [P1 [P2 P3]].
    destruct Hf as [<-|[<-|[<-|[]]]]; rewrite edge_form_ev; assumption.
  - intros H.
    assert (P1 : 0 < o * o1).
    { pose proof (H (edge_form o a b) (or_introl eq_refl)) as X. rewrite edge_form_ev in X. exact X. }
    assert (P2 : 0 < o * o2).
    { pose proof (H (edge_form o b c) (or_intror (or_introl eq_refl))) as X.
      rewrite edge_form_ev in X. exact X. }
    assert (P3 : 0 < o * o3).
    { pose proof (H (edge_form o c a) (or_intror (or_intror (or_introl eq_refl)))) as X.
      rewrite edge_form_ev in X. exact X. }
    destruct (Q_dec o 0) as [[Hn|Hp]|Hz].
    + right.
      assert (forall z, 0 < o * z -> z < 0).
      { intros z Hz. destruct (Qlt_le_dec z 0) as [|Hge]; [assumption|exfalso].
        assert (0 <= (- o) * z) by (apply Qmult_le_0_compat; lra).
        assert (o * z == - ((- o) * z)) by ring. lra. }
      auto.
    + left.
      assert (forall z, 0 < o * z -> 0 < z).
      { intros z Hz. destruct (Qlt_le_dec 0 z) as [|Hle]; [assumption|exfalso].
        assert (0 <= o * (- z)) by (apply Qmult_le_0_compat; lra).
        assert (o * z == - (o * (- z))) by ring. lra. }
      auto.
    + exfalso. rewrite Hz in P1. lra.
Qed.

Theorem overlap_fm_ok : forall g h,
  overlap_fm g h = true <-> exists p, Inside g p /\ Inside h p.
Proof.
  intros g h. unfold overlap_fm. rewrite feasible2_ok. split.
  - intros [x [y H]]. exists (x, y). split; apply inside_forms; intros f Hf; apply H;
      apply in_or_app; auto.
  - intros [p [Hg Hh]]. exists (fst p), (snd p). intros f Hf. apply in_app_or in Hf.
    destruct Hf as [Hf|Hf]; [apply (proj1 (inside_forms g p) Hg f Hf)|apply (proj1 (inside_forms h p) Hh f Hf)].
Qed.

(* the fast path: a separating edge excludes a common interior point *)
Lemma inside_pos : forall a b c p, Inside (a, b, c) p ->
  0 < orient a b c * orient a b p /\ 0 < orient a b c * orient b c p /\ 0 < orient a b c * orient c a p.
Proof.
  intros a b c p H. pose proof (proj1 (inside_forms (a, b, c) p) H) as F. unfold tri_forms in F.
  destruct p as [x y]. cbn [fst snd] in F. repeat split.
  - pose proof (F _ (or_introl eq_refl)) as X. rewrite edge_form_ev in X. exact X.
  - pose proof (F _ (or_intror (or_introl eq_refl))) as X. rewrite edge_form_ev in X. exact X.
  - pose proof (F _ (or_intror (or_intror (or_introl eq_refl)))) as X. rewrite edge_form_ev in X. exact X.
Qed.

(* an affine function of p, weighted barycentrically over a triangle *)
Lemma orient_barycentric : forall x y u v w p,
  orient u v w * orient x y p ==
  orient v w p * orient x y u + orient w u p * orient x y v + orient u v p * orient x y w.
Proof. intros. unfold orient. ring. Qed.

Lemma pos_nonpos : forall x y, 0 < x -> ~ 0 < y -> x * y <= 0.
Proof.
  intros x y Hx Hy. apply Qnot_lt_le in Hy.
  assert (0 <= x * (- y)) by (apply Qmult_le_0_compat; lra).
  assert (x * y == - (x * (- y))) by ring. lra.
Qed.

Lemma edge_sep_excl : forall s x y h p,
  edge_sepb s x y h = true -> 0 < s * orient x y p -> Inside h p -> False.
Proof.
  intros s x y [[u v] w] p H Hp Hin. unfold edge_sepb in H.
  apply andb_true_iff in H. destruct H as [H H3]. apply andb_true_iff in H. destruct H as [H1 H2].
  apply negb_true_iff, Qltb_nlt in H1. apply negb_true_iff, Qltb_nlt in H2. apply negb_true_iff, Qltb_nlt in H3.
  destruct (inside_pos u v w p Hin) as [A3 [A1 A2]].
  pose proof (orient_barycentric x y u v w p) as E.
  set (T := orient u v w) in *. set (Lp := orient x y p) in *.
  set (a1 := orient v w p) in *. set (a2 := orient w u p) in *. set (a3 := orient u v p) in *.
  set (l1 := orient x y u) in *. set (l2 := orient x y v) in *. set (l3 := orient x y w) in *.
  clearbody T Lp a1 a2 a3 l1 l2 l3.
  pose proof (pos_nonpos _ _ A1 H1) as P1. pose proof (pos_nonpos _ _ A2 H2) as P2.
  pose proof (pos_nonpos _ _ A3 H3) as P3.
  assert (TZ : ~ T == 0). { intros Z. rewrite Z in A1. lra. }
  pose proof (sq_pos_early T TZ) as TT.
  assert (Pos : 0 < (T * T) * (s * Lp)) by (apply Qmult_lt_0_compat; assumption).
  assert (Id : (T * T) * (s * Lp) == (T * a1) * (s * l1) + (T * a2) * (s * l2) + (T * a3) * (s * l3)).
  { assert (R : (T * T) * (s * Lp) == (T * s) * (T * Lp)) by ring. rewrite R, E. ring. }
  lra.
Qed.

Lemma tri_sep_excl : forall g h p, tri_sepb g h = true -> Inside g p -> Inside h p -> False.
Proof.
  intros [[a b] c] h p H Hg Hh. unfold tri_sepb in H. destruct (inside_pos a b c p Hg) as [P1 [P2 P3]].
  apply orb_true_iff in H. destruct H as [H|H]; [apply orb_true_iff in H; destruct H as [H|H]|].
  - exact (edge_sep_excl _ a b h p H P1 Hh).
  - exact (edge_sep_excl _ b c h p H P2 Hh).
  - exact (edge_sep_excl _ c a h p H P3 Hh).
Qed.

(* the bounding-box path: an interior point lies within the coordinate range of the corners *)
Lemma qmin_le : forall x y, qmin x y <= x /\ qmin x y <= y.
Proof.
  intros x y. unfold qmin. destruct (Qltb y x) eqn:E.
  - apply Qltb_lt in E. split; lra.
  - apply Qltb_nlt in E. apply Qnot_lt_le in E. split; lra.
Qed.
Lemma qmax_ge : forall x y, x <= qmax x y /\ y <= qmax x y.
Proof.
  intros x y. unfold qmax. destruct (Qltb x y) eqn:E.
  - apply Qltb_lt in E. split; lra.
  - apply Qltb_nlt in E. apply Qnot_lt_le in E. split; lra.
Qed.

(* any function of a point that is barycentric over the triangle (both coordinates are) *)
Definition bary (f : pt -> Q) : Prop := forall u v w p,
  orient u v w * f p == orient v w p * f u + orient w u p * f v + orient u v p * f w.
Lemma bary_fst : bary fst.
Proof. intros u v w p. unfold orient. ring. Qed.
Lemma bary_snd : bary snd.
Proof. intros u v w p. unfold orient. ring. Qed.

Lemma inside_range : forall f g p, bary f -> Inside g p -> lo3 f g <= f p /\ f p <= hi3 f g.
Proof.
  intros f [[u v] w] p B H. destruct (inside_pos u v w p H) as [A3 [A1 A2]].
  pose proof (B u v w p) as E. pose proof (orient_sum u v w p) as S.
  unfold lo3, hi3.
  destruct (qmin_le (f u) (qmin (f v) (f w))) as [L1 L23]. destruct (qmin_le (f v) (f w)) as [L2 L3].
  destruct (qmax_ge (f u) (qmax (f v) (f w))) as [M1 M23]. destruct (qmax_ge (f v) (f w)) as [M2 M3].
  set (lo := qmin (f u) (qmin (f v) (f w))) in *. set (hi := qmax (f u) (qmax (f v) (f w))) in *.
  set (T := orient u v w) in *. set (a1 := orient v w p) in *. set (a2 := orient w u p) in *.
  set (a3 := orient u v p) in *. set (x := f p) in *. set (x1 := f u) in *. set (x2 := f v) in *.
  set (x3 := f w) in *.
  clearbody lo hi T a1 a2 a3 x x1 x2 x3.
  assert (TZ : ~ T == 0). { intros Z. rewrite Z in A1. lra. }
  pose proof (sq_pos_early T TZ) as TT.
  assert (Id : (T * T) * x == (T * a1) * x1 + (T * a2) * x2 + (T * a3) * x3).
  { assert (R : (T * T) * x == T * (T * x)) by ring. rewrite R, E. ring. }
  assert (Sm : T * T == T * a1 + T * a2 + T * a3).
  { rewrite <- S. ring. }
  set (w1 := T * a1) in *. set (w2 := T * a2) in *. set (w3 := T * a3) in *. set (tt := T * T) in *.
  clearbody w1 w2 w3 tt.
  assert (G : forall m, (forall k, k == x1 \/ k == x2 \/ k == x3 -> 0 <= k - m) -> 0 <= tt * (x - m)).
  { intros m Hm.
    assert (0 <= w1 * (x1 - m)) by (apply Qmult_le_0_compat; [lra|apply Hm; left; reflexivity]).
    assert (0 <= w2 * (x2 - m)) by (apply Qmult_le_0_compat; [lra|apply Hm; right; left; reflexivity]).
    assert (0 <= w3 * (x3 - m)) by (apply Qmult_le_0_compat; [lra|apply Hm; right; right; reflexivity]).
    assert (R : tt * (x - m) == w1 * (x1 - m) + w2 * (x2 - m) + w3 * (x3 - m)).
    { assert (R0 : tt * (x - m) == tt * x - tt * m) by ring. rewrite R0, Id. rewrite Sm. ring. }
    rewrite R. lra. }
  assert (G' : forall m, (forall k, k == x1 \/ k == x2 \/ k == x3 -> 0 <= m - k) -> 0 <= tt * (m - x)).
  { intros m Hm.
    assert (0 <= w1 * (m - x1)) by (apply Qmult_le_0_compat; [lra|apply Hm; left; reflexivity]).
    assert (0 <= w2 * (m - x2)) by (apply Qmult_le_0_compat; [lra|apply Hm; right; left; reflexivity]).
    assert (0 <= w3 * (m - x3)) by (apply Qmult_le_0_compat; [lra|apply Hm; right; right; reflexivity]).
    assert (R : tt * (m - x) == w1 * (m - x1) + w2 * (m - x2) + w3 * (m - x3)).
    { assert (R0 : tt * (m - x) == tt * m - tt * x) by ring. rewrite R0, Id. rewrite Sm. ring. }
    rewrite R. lra. }
  assert (Dv : forall d, 0 <= tt * d -> 0 <= d).
  { intros d Hd. destruct (Qlt_le_dec d 0) as [N|N]; [exfalso|exact N].
    assert (0 < tt * (- d)) by (apply Qmult_lt_0_compat; lra).
    assert (tt * d == - (tt * (- d))) by ring. lra. }
  split.
  - assert (0 <= x - lo); [|lra]. apply Dv, G. intros k [K|[K|K]]; rewrite K; lra.
  - assert (0 <= hi - x); [|lra]. apply Dv, G'. intros k [K|[K|K]]; rewrite K; lra.
Qed.

Lemma box_apart_excl : forall g h p, box_apartb g h = true -> Inside g p -> Inside h p -> False.
Proof.
  intros g h p H Hg Hh. unfold box_apartb in H.
  destruct (inside_range fst g p bary_fst Hg) as [G1 G2]. destruct (inside_range fst h p bary_fst Hh) as [H1 H2].
  destruct (inside_range snd g p bary_snd Hg) as [G3 G4]. destruct (inside_range snd h p bary_snd Hh) as [H3 H4].
  repeat (apply orb_true_iff in H; destruct H as [H|H]); apply Qltb_lt in H; lra.
Qed.

Theorem overlapb_ok : forall g h,
  overlapb g h = true <-> exists p, Inside g p /\ Inside h p.
Proof.
  intros g h. unfold overlapb. destruct (box_apartb g h) eqn:B.
  { split; [discriminate|]. intros [p [Hg Hh]]. exfalso. exact (box_apart_excl g h p B Hg Hh). }
  destruct (tri_sepb g h || tri_sepb h g) eqn:S; [|apply overlap_fm_ok].
  split; [discriminate|]. intros [p [Hg Hh]]. exfalso.
  apply orb_true_iff in S. destruct S as [S|S]; [exact (tri_sep_excl g h p S Hg Hh)|exact (tri_sep_excl h g p S Hh Hg)].
Qed.

(* ------------------------------------------------------------------ circumcircles *)
Lemma incircle_center : forall a b c p u r2,
  dist2 a u == r2 -> dist2 b u == r2 -> dist2 c u == r2 ->
  incircle a b c p == orient a b c * (r2 - dist2 p u).
Proof.
  intros a b c p u r2 Ha Hb Hc.
  set (ax := fst a - fst p). set (ay := snd a - snd p).
  set (bx := fst b - fst p). set (by_ := snd b - snd p).
  set (cx := fst c - fst p). set (cy := snd c - snd p).
  assert (ID : incircle a b c p ==
               orient a b c * (r2 - dist2 p u)
               + (bx * cy - cx * by_) * (dist2 a u - r2)
               - (ax * cy - cx * ay) * (dist2 b u - r2)
               + (ax * by_ - bx * ay) * (dist2 c u - r2)).
  { unfold incircle, orient, dist2, ax, ay, bx, by_, cx, cy. ring. }
  rewrite ID, Ha, Hb, Hc. ring.
Qed.

Definition circumcenter (a b c : pt) : pt :=
  let o := orient a b c in
  let A := fst a * fst a + snd a * snd a in
  let B := fst b * fst b + snd b * snd b in
  let C := fst c * fst c + snd c * snd c in
  ((A * (snd b - snd c) + B * (snd c - snd a) + C * (snd a - snd b)) / (2 * o),
   (A * (fst c - fst b) + B * (fst a - fst c) + C * (fst b - fst a)) / (2 * o)).

Lemma circumcenter_ok : forall a b c, ~ orient a b c == 0 ->
  dist2 b (circumcenter a b c) == dist2 a (circumcenter a b c) /\
  dist2 c (circumcenter a b c) == dist2 a (circumcenter a b c).
Proof.
  intros a b c Ho. unfold circumcenter, dist2. cbn [fst snd]. unfold orient in *.
  split; field; intro K; apply Ho; lra.
Qed.

Lemma sq_pos : forall o, ~ o == 0 -> 0 < o * o.
Proof.
  intros o Ho. destruct (Q_dec o 0) as [[H|H]|H]; [| |contradiction].
  - assert (0 < (- o) * (- o)) by (apply Qmult_lt_0_compat; lra).
    assert (o * o == (- o) * (- o)) by ring. lra.
  - apply Qmult_lt_0_compat; assumption.
Qed.

Theorem incircum_ok : forall a b c p, ~ orient a b c == 0 ->
  (InCircum (a, b, c) p <-> 0 < orient a b c * incircle a b c p).
Proof.
  intros a b c p Ho. pose proof (sq_pos _ Ho) as Hsq. unfold InCircum. split.
  - intros [u [r2 [Ha [Hb [Hc Hp]]]]].
    rewrite (incircle_center a b c p u r2 Ha Hb Hc).
    assert (0 < (orient a b c * orient a b c) * (r2 - dist2 p u))
      by (apply Qmult_lt_0_compat; lra).
    assert (orient a b c * (orient a b c * (r2 - dist2 p u)) ==
            (orient a b c * orient a b c) * (r2 - dist2 p u)) by ring.
    lra.
  - intros H. destruct (circumcenter_ok a b c Ho) as [Hb Hc].
    set (u := circumcenter a b c) in *. exists u, (dist2 a u).
    split; [reflexivity|]. split; [exact Hb|]. split; [exact Hc|].
    rewrite (incircle_center a b c p u (dist2 a u) (Qeq_refl _) Hb Hc) in H.
    set (d := dist2 a u - dist2 p u) in *. set (o := orient a b c) in *.
    destruct (Qlt_le_dec 0 d) as [Hd|Hd]; [unfold d in Hd; lra|exfalso].
    assert (0 <= (o * o) * (- d)) by (apply Qmult_le_0_compat; lra).
    assert (o * (o * d) == - ((o * o) * (- d))) by ring. lra.
Qed.

(* ------------------------------------------------------------------ list plumbing *)
Lemma pairwiseb_ok : forall A (r : A -> A -> bool) l,
  pairwiseb r l = true <->
  forall i j x y, (i < j)%nat -> nth_error l i = Some x -> nth_error l j = Some y -> r x y = true.
Proof.
  intros A r. induction l as [|a l IH]; simpl.
  - split; [|reflexivity]. intros _ i j x y _ Hi. destruct i; discriminate.
  - rewrite andb_true_iff, forallb_forall, IH. split.
    + intros [H1 H2] i j x y Hij Hi Hj. destruct j as [|j]; [lia|]. destruct i as [|i]; simpl in *.
      * injection Hi as <-. apply H1. eapply nth_error_In; eassumption.
      * apply (H2 i j); [lia|assumption|assumption].
    + intros H. split.
      * intros y Hy. apply In_nth_error in Hy. destruct Hy as [j Hj].
        apply (H 0%nat (S j)); [lia|reflexivity|exact Hj].
      * intros i j x y Hij Hi Hj. apply (H (S i) (S j)); [lia|assumption|assumption].
Qed.

Lemma idx_okb_ok : forall n t, idx_okb n t = true <-> idx_ok n t.
Proof.
  intros n [[i j] k]. unfold idx_okb, idx_ok. rewrite !andb_true_iff, !Nat.ltb_lt. tauto.
Qed.

Lemma windb_ok : forall pts ts, windb (map (resolve pts) ts) = true <-> same_winding pts ts.
Proof.
  intros pts ts. unfold windb, same_winding. rewrite orb_true_iff, !forallb_forall.
  split; (intros [H|H]; [left|right]).
  - intros t Ht. apply Qltb_lt. apply H. apply in_map. exact Ht.
  - intros t Ht. apply Qltb_lt. apply H. apply in_map. exact Ht.
  - intros g Hg. apply in_map_iff in Hg. destruct Hg as [t [<- Ht]]. apply Qltb_lt. auto.
  - intros g Hg. apply in_map_iff in Hg. destruct Hg as [t [<- Ht]]. apply Qltb_lt. auto.
Qed.

Lemma no_overlap_ok : forall pts ts,
  pairwiseb (fun g h => negb (overlapb g h)) (map (resolve pts) ts) = true <-> no_overlap pts ts.
Proof.
  intros pts ts. rewrite pairwiseb_ok. unfold no_overlap. split.
  - intros H i j t u Hij Hi Hj p Hp.
    assert (K : forall i j t u, (i < j)%nat -> nth_error ts i = Some t -> nth_error ts j = Some u ->
                forall p, ~ (Inside (resolve pts t) p /\ Inside (resolve pts u) p)).
    { clear - H. intros i j t u Hij Hi Hj p Hp.
      specialize (H i j (resolve pts t) (resolve pts u) Hij).
      rewrite !nth_error_map, Hi, Hj in H. specialize (H eq_refl eq_refl).
      apply negb_true_iff in H.
      assert (overlapb (resolve pts t) (resolve pts u) = true) by (apply overlapb_ok; eauto).
      congruence. }
    destruct (Nat.lt_ge_cases i j) as [L|L].
    + apply (K i j t u L Hi Hj p Hp).
    + assert (j < i)%nat by lia. apply (K j i u t H0 Hj Hi p). tauto.
  - intros H i j g h Hij Hi Hj. rewrite nth_error_map in Hi, Hj.
    destruct (nth_error ts i) as [t|] eqn:Ei; [|discriminate].
    destruct (nth_error ts j) as [u|] eqn:Ej; [|discriminate].
    injection Hi as <-. injection Hj as <-.
    apply negb_true_iff. destruct (overlapb (resolve pts t) (resolve pts u)) eqn:O; [|reflexivity].
    exfalso. apply overlapb_ok in O. destruct O as [p Hp].
    apply (H i j t u ltac:(lia) Ei Ej p Hp).
Qed.

Lemma circ_emptyb_ok : forall pts g, ~ gorient g == 0 ->
  (circ_emptyb pts g = true <-> forall p, In p pts -> ~ InCircum g p).
Proof.
  intros pts [[a b] c] Ho. unfold circ_emptyb, gorient in *. rewrite forallb_forall.
  split; intros H p Hp.
  - rewrite (incircum_ok a b c p Ho). apply Qltb_nlt. apply negb_true_iff. apply H. exact Hp.
  - apply negb_true_iff. apply Qltb_nlt. rewrite <- (incircum_ok a b c p Ho). apply H. exact Hp.
Qed.

(* ------------------------------------------------------------------ headline *)
Theorem delaunay_checker_sound_complete : forall pts ts,
  delaunayb pts ts = true <-> delaunay_spec pts ts.
Proof.
  intros pts ts. unfold delaunayb, delaunay_spec.
  rewrite !andb_true_iff, windb_ok, no_overlap_ok, forallb_forall.
  assert (I : (forall t, In t ts -> idx_okb (length pts) t = true) <->
              (forall t, In t ts -> idx_ok (length pts) t)).
  { split; intros H t Ht; apply idx_okb_ok; auto. }
  rewrite I. clear I.
  assert (C : same_winding pts ts ->
              (forallb (circ_emptyb pts) (map (resolve pts) ts) = true <-> empty_circles pts ts)).
  { intros W. unfold empty_circles. rewrite forallb_forall.
    assert (NZ : forall t, In t ts -> ~ gorient (resolve pts t) == 0).
    { intros t Ht Hz. destruct W as [W|W]; specialize (W t Ht); lra. }
    split.
    - intros H t p Ht Hp. apply (proj1 (circ_emptyb_ok pts _ (NZ t Ht))); [|exact Hp].
      apply H. apply in_map. exact Ht.
    - intros H g Hg. apply in_map_iff in Hg. destruct Hg as [t [<- Ht]].
      apply (proj2 (circ_emptyb_ok pts _ (NZ t Ht))). intros p Hp. apply (H t p Ht Hp). }
  split.
  - intros [[[H1 H2] H3] H4]. repeat split; try assumption. apply C; assumption.
  - intros [H1 [H2 [H3 H4]]]. repeat split; try assumption. apply C; assumption.
Qed.
