(* C20 — the unconditional correctness proof of the Bowyer–Watson model under strong general position:
   the run is characterised exactly (the state before insertion k is THE Delaunay triangulation of the
   points inserted so far), from which edge closure (the hypothesis of bw_delaunay_partial),
   non-overlap and the exact description of the output follow. *)
From Coq Require Import List ZArith QArith Bool Arith Lia Lqa Qfield Permutation.
From PF Require Import Tri.Delaunay Tri.DelaunayProofs Tri.BowyerWatson Tri.BowyerWatsonProofs Tri.DelaunayChar.
Import ListNotations.
Open Scope Q_scope.

(* ================================================================== 1. algebra *)
Lemma incircle_swap34 : forall a b c d, incircle a b d c == - incircle a b c d.
Proof. intros. unfold incircle. ring. Qed.
Lemma incircle_v3 : forall a b c, incircle a b c c == 0.
Proof. intros. unfold incircle. ring. Qed.
Lemma orient_aab : forall a b, orient a a b == 0.
Proof. intros. unfold orient. ring. Qed.
Lemma orient_aba : forall a b, orient a b a == 0.
Proof. intros. unfold orient. ring. Qed.
Lemma orient_abb : forall a b, orient a b b == 0.
Proof. intros. unfold orient. ring. Qed.

(* p and z on opposite sides of uv: z outside circle(u,v,p) iff p outside circle(v,u,z) *)
Lemma incircle_across : forall u v z p, incircle v u z p == incircle u v p z.
Proof. intros. unfold incircle. ring. Qed.

Lemma neg_mul_nonneg : forall x y, x < 0 -> 0 <= y -> x * y <= 0.
Proof.
  intros x y Hx Hy. assert (0 <= (- x) * y) by (apply Qmult_le_0_compat; lra).
  assert (x * y == - ((- x) * y)) by ring. lra.
Qed.
Lemma neg_mul_zero : forall x y, x < 0 -> x * y == 0 -> y == 0.
Proof.
  intros x y Hx H. destruct (Q_dec y 0) as [[L|L]|L]; [| |exact L]; exfalso.
  - pose proof (neg_neg_pos x y Hx L). lra.
  - assert (0 < (- x) * y) by (apply Qmult_lt_0_compat; lra).
    assert (x * y == - ((- x) * y)) by ring. lra.
Qed.

(* three non-positive products of a negative weight and a non-negative value that add up to zero *)
Lemma three_zero : forall a0 a1 a2 b0 b1 b2,
  a0 < 0 -> a1 < 0 -> a2 < 0 -> 0 <= b0 -> 0 <= b1 -> 0 <= b2 ->
  a0 * b0 + a1 * b1 + a2 * b2 == 0 -> b0 == 0 /\ b1 == 0 /\ b2 == 0.
Proof.
  intros a0 a1 a2 b0 b1 b2 A0 A1 A2 B0 B1 B2 E.
  pose proof (neg_mul_nonneg _ _ A0 B0). pose proof (neg_mul_nonneg _ _ A1 B1).
  pose proof (neg_mul_nonneg _ _ A2 B2).
  split; [apply (neg_mul_zero a0 b0 A0); lra|].
  split; [apply (neg_mul_zero a1 b1 A1); lra|apply (neg_mul_zero a2 b2 A2); lra].
Qed.

(* circles through a and b on the side of c: a point w outside circle(a,b,c) on c's side has a circle
   that is smaller on the far side — what circle(a,b,c) leaves empty there, circle(a,b,w) does too *)
Lemma pencil_shrink : forall a b c w q,
  orient a b c < 0 -> orient a b w < 0 -> 0 <= incircle a b c w ->
  0 < orient a b q -> 0 <= incircle a b c q -> 0 <= incircle a b w q.
Proof.
  intros a b c w q Oc Ow Iw Oq Iq. pose proof (circle_pencil a b c w q) as E.
  set (A := incircle a b w q) in *. set (oc := orient a b c) in *. set (iq := incircle a b c q) in *.
  set (ow := orient a b w) in *. set (iw := incircle a b c w) in *. set (oq := orient a b q) in *.
  clearbody A oc iq ow iw oq.
  destruct (Qlt_le_dec A 0) as [L|L]; [exfalso|exact L]. nra.
Qed.

(* the in-circle function of one triangle expanded barycentrically over another *)
Lemma incircle_bary : forall a b c d e f x,
  orient a b c * incircle d e f x ==
  orient b c x * incircle d e f a + orient c a x * incircle d e f b + orient a b x * incircle d e f c
  + orient d e f * incircle a b c x.
Proof. intros. unfold orient, incircle. ring. Qed.

(* among finitely many points on the negative side of ab one has a circle through a, b that contains
   none of the others *)
Lemma pencil_extremal : forall P u v (l : list nat),
  (forall j, In j l -> orient (nth u P pzero) (nth v P pzero) (nth j P pzero) < 0) -> l <> [] ->
  exists w, In w l /\
    forall j, In j l -> 0 <= incircle (nth u P pzero) (nth v P pzero) (nth w P pzero) (nth j P pzero).
Proof.
  intros P u v l. set (a := nth u P pzero). set (b := nth v P pzero).
  induction l as [|x l IH]; intros Hs Hne; [congruence|].
  destruct l as [|y l'].
  - exists x. split; [left; reflexivity|]. intros j [<-|[]]. rewrite incircle_v3. apply Qle_refl.
  - destruct IH as [w [Hw Hq]]; [intros j Hj; apply Hs; right; exact Hj|discriminate|].
    destruct (Qlt_le_dec (incircle a b (nth w P pzero) (nth x P pzero)) 0) as [L|L].
    + exists x. split; [left; reflexivity|]. intros j [<-|Hj]; [rewrite incircle_v3; apply Qle_refl|].
      apply (pencil_same_side a b (nth w P pzero) (nth x P pzero) (nth j P pzero)).
      * apply Hs. right. exact Hw.
      * exact L.
      * apply Hs. left. reflexivity.
      * apply Qlt_le_weak. apply Hs. right. exact Hj.
      * apply Hq. exact Hj.
    + exists w. split; [right; exact Hw|]. intros j [<-|Hj]; [exact L|apply Hq; exact Hj].
Qed.

(* ================================================================== 2. rotations, edges, insertion time *)
Lemma rot_eq_refl : forall t, rot_eq t t.
Proof. intros t. left. reflexivity. Qed.

Lemma rot3 : forall t, rot (rot (rot t)) = t.
Proof. intros [[a b] c]. reflexivity. Qed.

Lemma rot_eq_sym : forall t u, rot_eq t u -> rot_eq u t.
Proof.
  intros t u [->|[->| ->]]; unfold rot_eq.
  - auto.
  - right. right. rewrite rot3. reflexivity.
  - right. left. rewrite rot3. reflexivity.
Qed.

Lemma edges_rot : forall t e, In e (edges (rot t)) <-> In e (edges t).
Proof. intros [[a b] c] e. simpl. tauto. Qed.

Lemma rot_eq_edges : forall t u e, rot_eq t u -> (In e (edges u) <-> In e (edges t)).
Proof.
  intros t u e [->|[->| ->]]; [reflexivity|apply edges_rot|].
  rewrite edges_rot. apply edges_rot.
Qed.

Lemma verts_rot : forall t a, In a (tri_verts (rot t)) <-> In a (tri_verts t).
Proof. intros [[a b] c] x. simpl. tauto. Qed.

Lemma rot_eq_verts : forall t u a, rot_eq t u -> (In a (tri_verts u) <-> In a (tri_verts t)).
Proof.
  intros t u a [->|[->| ->]]; [reflexivity|apply verts_rot|].
  rewrite verts_rot. apply verts_rot.
Qed.

Lemma gorient_rot : forall P t, gorient (resolve P (rot t)) == gorient (resolve P t).
Proof. intros P [[a b] c]. unfold gorient, resolve, rot. apply orient_cyc. Qed.

Lemma gincircle_rot : forall P t x, gincircle (resolve P (rot t)) x == gincircle (resolve P t) x.
Proof. intros P [[a b] c] x. unfold gincircle, resolve, rot. apply incircle_cyc. Qed.

Lemma rot_eq_gorient : forall P t u, rot_eq t u -> gorient (resolve P u) == gorient (resolve P t).
Proof.
  intros P t u [->|[->| ->]]; [reflexivity|apply gorient_rot|].
  rewrite gorient_rot. apply gorient_rot.
Qed.

Lemma rot_eq_gincircle : forall P t u x, rot_eq t u ->
  gincircle (resolve P u) x == gincircle (resolve P t) x.
Proof.
  intros P t u x [->|[->| ->]]; [reflexivity|apply gincircle_rot|].
  rewrite gincircle_rot. apply gincircle_rot.
Qed.

Lemma is_dt_rot_eq : forall P old t u, rot_eq t u -> is_dt P old t -> is_dt P old u.
Proof.
  intros P old t u R [V [O I]]. split; [|split].
  - intros a Ha. apply V. apply (rot_eq_verts t u a R). exact Ha.
  - rewrite (rot_eq_gorient P t u R). exact O.
  - intros j Hj. rewrite (rot_eq_gincircle P t u _ R). apply I. exact Hj.
Qed.

(* a triangle with the directed edge (u,v) is a rotation of (u,v,w) for its third corner w *)
Lemma edge_cases : forall t u v, In (u, v) (edges t) ->
  exists w, t = (u, v, w) \/ t = (w, u, v) \/ t = (v, w, u).
Proof.
  intros [[a b] c] u v H. simpl in H. destruct H as [E|[E|[E|[]]]]; injection E as <- <-.
  - exists c. auto.
  - exists a. auto.
  - exists b. auto.
Qed.

Lemma edge_rot_eq : forall t u v, In (u, v) (edges t) -> exists w, rot_eq (u, v, w) t.
Proof.
  intros t u v H. destruct (edge_cases t u v H) as [w [->|[->| ->]]]; exists w; unfold rot_eq, rot; auto.
Qed.

Lemma rank_inj : forall n a b, (a < n + 3)%nat -> (b < n + 3)%nat -> rank n a = rank n b -> a = b.
Proof.
  intros n a b Ha Hb. unfold rank.
  destruct (a <? n)%nat eqn:Ea; destruct (b <? n)%nat eqn:Eb;
    try apply Nat.ltb_lt in Ea; try apply Nat.ltb_lt in Eb;
    try apply Nat.ltb_ge in Ea; try apply Nat.ltb_ge in Eb; lia.
Qed.

(* two stored triples that are rotations of one another are the same triple *)
Lemma last_newest_unique : forall n T t u,
  last_newest n T -> In t T -> In u T -> rot_eq t u -> t = u.
Proof.
  intros n T [[a b] c] u L Ht Hu [->|[->| ->]]; [reflexivity| |]; exfalso; unfold rot in Hu.
  - pose proof (L _ _ _ Ht). pose proof (L _ _ _ Hu). lia.
  - pose proof (L _ _ _ Ht). pose proof (L _ _ _ Hu). lia.
Qed.

Lemma old_at_olds : forall n k j, In j (olds_at n k) -> old_at n k j.
Proof.
  intros n k j H. unfold olds_at in H. apply in_app_or in H. destruct H as [H|H].
  - apply in_seq in H. left. lia.
  - right. simpl in H. lia.
Qed.

Lemma cw_distinct : forall P t, gorient (resolve P t) < 0 -> distinct3 t.
Proof.
  intros P [[a b] c] H. unfold gorient, resolve in H. unfold distinct3.
  repeat split; intros ->.
  - rewrite orient_aab in H. lra.
  - rewrite orient_abb in H. lra.
  - rewrite orient_aba in H. lra.
Qed.

Lemma rot_eq_common : forall t a b, rot_eq t a -> rot_eq t b -> rot_eq a b.
Proof.
  intros [[x y] z] a b [->|[->| ->]] [->|[->| ->]]; unfold rot_eq, rot; auto.
Qed.

Lemma old_at_S : forall n k j, old_at n k j -> old_at n (S k) j.
Proof. intros n k j [H|H]; [left; lia|right; exact H]. Qed.
Lemma old_at_S_inv : forall n k j, old_at n (S k) j -> j <> k -> old_at n k j.
Proof. intros n k j [H|H] Hne; [left; lia|right; exact H]. Qed.
Lemma old_at_new : forall n k, old_at n (S k) k.
Proof. intros. left. lia. Qed.
Lemma old_at_lt : forall n k j, (k <= n)%nat -> old_at n k j -> (j < n + 3)%nat.
Proof. intros n k j Hk [H|H]; lia. Qed.
Lemma old_at_ne : forall n k j, (k < n)%nat -> old_at n k j -> j <> k.
Proof. intros n k j Hk [H|H]; lia. Qed.

(* ================================================================== 3. the run *)
Section Run.
Variable P : list pt.
Variable n : nat.
Hypothesis LEN : length P = (n + 3)%nat.
Hypothesis GP : gp_strong P.
Hypothesis SCW : gorient (resolve P (super_tri n)) < 0.
Hypothesis INS : forall j, (j < n)%nat -> sup_in P n (nth j P pzero).

Local Notation pp := (fun j => nth j P pzero).

Lemma gp3 : forall i j k, (i < n + 3)%nat -> (j < n + 3)%nat -> (k < n + 3)%nat ->
  i <> j -> j <> k -> k <> i -> ~ orient (pp i) (pp j) (pp k) == 0.
Proof. intros. apply (proj1 GP); rewrite ?LEN; assumption. Qed.
Lemma gp4 : forall i j k l, (i < n + 3)%nat -> (j < n + 3)%nat -> (k < n + 3)%nat -> (l < n + 3)%nat ->
  i <> j -> i <> k -> i <> l -> j <> k -> j <> l -> k <> l ->
  ~ incircle (pp i) (pp j) (pp k) (pp l) == 0.
Proof. intros. apply (proj2 GP); rewrite ?LEN; assumption. Qed.

(* unless (v,u) is an edge of the super triangle, some super vertex lies strictly on the negative side
   of the directed line uv *)
Lemma side_nonempty : forall u v, (u < n + 3)%nat -> (v < n + 3)%nat -> u <> v ->
  ~ In (v, u) (edges (super_tri n)) ->
  exists s, (n <= s < n + 3)%nat /\ orient (pp u) (pp v) (pp s) < 0.
Proof.
  intros u v Hu Hv Huv Hne. cbv beta.
  unfold gorient, resolve, super_tri in SCW.
  set (s0 := nth n P pzero) in *. set (s1 := nth (S n) P pzero) in *. set (s2 := nth (S (S n)) P pzero) in *.
  set (pu := nth u P pzero). set (pv := nth v P pzero).
  assert (Interior : forall x, sup_in P n x -> orient pu pv x == 0 ->
            exists s, (n <= s < n + 3)%nat /\ orient pu pv (nth s P pzero) < 0).
  { intros x [A2 [A0 A1]] Z. fold s0 s1 s2 in A0, A1, A2.
    pose proof (orient_barycentric pu pv s0 s1 s2 x) as E. rewrite Z in E.
    destruct (Qlt_le_dec (orient pu pv s0) 0) as [L0|L0]; [exists n; split; [lia|exact L0]|].
    destruct (Qlt_le_dec (orient pu pv s1) 0) as [L1|L1]; [exists (S n); split; [lia|exact L1]|].
    destruct (Qlt_le_dec (orient pu pv s2) 0) as [L2|L2]; [exists (S (S n)); split; [lia|exact L2]|].
    exfalso.
    assert (E' : orient s1 s2 x * orient pu pv s0 + orient s2 s0 x * orient pu pv s1
                 + orient s0 s1 x * orient pu pv s2 == 0) by (rewrite <- E; ring).
    destruct (three_zero _ _ _ _ _ _ A0 A1 A2 L0 L1 L2 E') as [Z0 [Z1 Z2]].
    (* a super vertex different from u and v *)
    destruct (Nat.eq_dec u n) as [Eu|Nu]; destruct (Nat.eq_dec v n) as [Ev|Nv].
    - lia.
    - destruct (Nat.eq_dec v (S n)) as [Ev1|Nv1].
      + apply (gp3 u v (S (S n))); try lia. exact Z2.
      + apply (gp3 u v (S n)); try lia. exact Z1.
    - destruct (Nat.eq_dec u (S n)) as [Eu1|Nu1].
      + apply (gp3 u v (S (S n))); try lia. exact Z2.
      + apply (gp3 u v (S n)); try lia. exact Z1.
    - apply (gp3 u v n); try lia. exact Z0. }
  destruct (Nat.lt_ge_cases u n) as [Lu|Gu].
  - apply (Interior pu (INS u Lu)). apply orient_aba.
  - destruct (Nat.lt_ge_cases v n) as [Lv|Gv].
    + apply (Interior pv (INS v Lv)). apply orient_abb.
    + assert (C : (u = n /\ v = S n) \/ (u = S n /\ v = S (S n)) \/ (u = S (S n) /\ v = n) \/
                  (v = n /\ u = S n) \/ (v = S n /\ u = S (S n)) \/ (v = S (S n) /\ u = n)) by lia.
      destruct C as [[-> ->]|[[-> ->]|[[-> ->]|[[-> ->]|[[-> ->]|[-> ->]]]]]].
      * exists (S (S n)). split; [lia|exact SCW].
      * exists n. split; [lia|]. unfold pu, pv. fold s0 s1 s2. rewrite orient_cyc. exact SCW.
      * exists (S n). split; [lia|]. unfold pu, pv. fold s0 s1 s2. rewrite <- orient_cyc. exact SCW.
      * exfalso. apply Hne. simpl. auto.
      * exfalso. apply Hne. simpl. auto.
      * exfalso. apply Hne. simpl. auto.
Qed.

Definition sound (k : nat) (T : list tri) : Prop := forall t, In t T -> is_dt P (old_at n k) t.

(* the candidates on the negative side of uv among the old points *)
Definition side_list (k u v : nat) : list nat :=
  filter (fun j => Qltb (orient (pp u) (pp v) (pp j)) 0) (olds_at n k).

Lemma side_list_in : forall k u v j, In j (side_list k u v) <->
  In j (olds_at n k) /\ orient (pp u) (pp v) (pp j) < 0.
Proof. intros. unfold side_list. rewrite filter_In, Qltb_lt. reflexivity. Qed.

(* ---- A. edge closure of the Delaunay triangulation *)
Theorem closed_from_complete : forall T k, (k <= n)%nat ->
  sound k T -> dt_complete P (old_at n k) T -> edge_closed n T.
Proof.
  intros T k Hk Snd Cmp t e Ht He. destruct e as [u v]. cbn [fst snd].
  destruct (existsb (edge_eqb (u, v)) (edges (super_tri n))) eqn:Sup.
  { left. apply existsb_exists in Sup. destruct Sup as [f [Hf E]]. apply edge_eqb_eq in E. subst f. exact Hf. }
  right.
  assert (NS : ~ In (u, v) (edges (super_tri n))).
  { intros H. assert (existsb (edge_eqb (u, v)) (edges (super_tri n)) = true); [|congruence].
    apply existsb_exists. exists (u, v). split; [exact H|apply edge_eqb_eq; reflexivity]. }
  destruct (edge_rot_eq t u v He) as [w R].
  pose proof (is_dt_rot_eq P _ t (u, v, w) (rot_eq_sym _ _ R) (Snd t Ht)) as [V [O I]].
  unfold gorient, resolve in O. unfold gincircle, resolve in I.
  pose proof (V u ltac:(simpl; auto)) as Ou. pose proof (V v ltac:(simpl; auto)) as Ov.
  pose proof (old_at_lt n k u Hk Ou) as Lu. pose proof (old_at_lt n k v Hk Ov) as Lv.
  destruct (cw_distinct P (u, v, w) O) as [Duv _].
  destruct (side_nonempty v u Lv Lu ltac:(congruence) NS) as [s [Hs Os]]. cbv beta in Os.
  assert (Sl : In s (side_list k v u)).
  { apply side_list_in. split; [apply olds_at_in; right; lia|exact Os]. }
  destruct (pencil_extremal P v u (side_list k v u)) as [z [Hz Ez]].
  { intros j Hj. apply side_list_in in Hj. apply Hj. }
  { intros E. rewrite E in Sl. destruct Sl. }
  apply side_list_in in Hz. destruct Hz as [Hz Oz]. apply old_at_olds in Hz. cbv beta in Oz.
  assert (D : is_dt P (old_at n k) (v, u, z)).
  { split; [|split].
    - intros a Ha. simpl in Ha. destruct Ha as [<-|[<-|[<-|[]]]]; assumption.
    - exact Oz.
    - intros j Hj. unfold gincircle, resolve.
      destruct (Nat.eq_dec j v) as [->|Nv]; [rewrite incircle_v1; apply Qle_refl|].
      destruct (Nat.eq_dec j u) as [->|Nu]; [rewrite incircle_v2; apply Qle_refl|].
      pose proof (old_at_lt n k j Hk Hj) as Lj.
      pose proof (gp3 v u j Lv Lu Lj ltac:(congruence) ltac:(congruence) ltac:(congruence)) as NZ. cbv beta in NZ.
      destruct (Q_dec (orient (nth v P pzero) (nth u P pzero) (nth j P pzero)) 0) as [[L|L]|L]; [| |contradiction].
      + apply Ez. apply side_list_in. split; [apply olds_at_in; exact Hj|exact L].
      + apply (pencil_other_side (nth v P pzero) (nth u P pzero) (nth w P pzero));
          [exact O|apply I; exact Hz|exact Oz|exact L|apply I; exact Hj]. }
  destruct (Cmp _ D) as [g [Rg Hg]]. exists g. split; [exact Hg|].
  apply (rot_eq_edges _ _ (v, u) Rg). simpl. auto.
Qed.

(* ---- B. completeness survives an insertion *)
Lemma fan_complete : forall T k u v, (k < n)%nat ->
  sound k T -> dt_complete P (old_at n k) T -> last_newest n T ->
  is_dt P (old_at n (S k)) (u, v, k) -> In (u, v, k) (insert P T k).
Proof.
  intros T k u v Hk Snd Cmp Lst [V [O I]].
  unfold gorient, resolve in O. unfold gincircle, resolve in I.
  destruct (cw_distinct P (u, v, k) O) as [Duv [Dvk Dku]].
  pose proof (old_at_S_inv n k u (V u ltac:(simpl; auto)) ltac:(congruence)) as Ou.
  pose proof (old_at_S_inv n k v (V v ltac:(simpl; auto)) ltac:(congruence)) as Ov.
  assert (Hk' : (k <= n)%nat) by lia.
  pose proof (old_at_lt n k u Hk' Ou) as Lu. pose proof (old_at_lt n k v Hk' Ov) as Lv.
  set (pu := nth u P pzero) in *. set (pv := nth v P pzero) in *. set (pk := nth k P pzero) in *.
  destruct (INS k Hk) as [K0 [K1 K2]]. fold pk in K0, K1, K2.
  assert (NS : ~ In (v, u) (edges (super_tri n))).
  { intros H. simpl in H. destruct H as [E|[E|[E|[]]]]; injection E; intros; subst u v;
      unfold pu, pv in O; rewrite orient_flip in O; lra. }
  destruct (side_nonempty u v Lu Lv Duv NS) as [s [Hs Os]]. cbv beta in Os. fold pu pv in Os.
  assert (Sl : In s (side_list k u v)).
  { apply side_list_in. split; [apply olds_at_in; right; lia|exact Os]. }
  destruct (pencil_extremal P u v (side_list k u v)) as [w [Hw Ew]].
  { intros j Hj. apply side_list_in in Hj. apply Hj. }
  { intros E. rewrite E in Sl. destruct Sl. }
  apply side_list_in in Hw. destruct Hw as [Hw Ow]. apply old_at_olds in Hw. cbv beta in Ow.
  fold pu pv in Ow, Ew. set (pw := nth w P pzero) in *.
  pose proof (old_at_lt n k w Hk' Hw) as Lw. pose proof (old_at_ne n k w Hk Hw) as Nwk.
  assert (D : is_dt P (old_at n k) (u, v, w)).
  { split; [|split].
    - intros a Ha. simpl in Ha. destruct Ha as [<-|[<-|[<-|[]]]]; assumption.
    - exact Ow.
    - intros j Hj. unfold gincircle, resolve. fold pu pv pw.
      destruct (Nat.eq_dec j u) as [->|Nu]; [fold pu; rewrite incircle_v1; apply Qle_refl|].
      destruct (Nat.eq_dec j v) as [->|Nv]; [fold pv; rewrite incircle_v2; apply Qle_refl|].
      pose proof (old_at_lt n k j Hk' Hj) as Lj.
      pose proof (gp3 u v j Lu Lv Lj ltac:(congruence) ltac:(congruence) ltac:(congruence)) as NZ.
      cbv beta in NZ. fold pu pv in NZ.
      destruct (Q_dec (orient pu pv (nth j P pzero)) 0) as [[L|L]|L]; [| |contradiction].
      + apply Ew. apply side_list_in. split; [apply olds_at_in; exact Hj|exact L].
      + apply (pencil_shrink pu pv pk pw);
          [exact O|exact Ow|apply I; apply old_at_S; exact Hw|exact L|apply I; apply old_at_S; exact Hj]. }
  destruct (cw_distinct P (u, v, w) (proj1 (proj2 D))) as [_ [Dvw Dwu]].
  destruct (Cmp _ D) as [b [Rb Hb]].
  (* b is bad *)
  assert (Bad : In b (bad_of P T k)).
  { apply bad_of_in. split; [exact Hb|]. apply in_circb_lt. rewrite (rot_eq_gincircle P _ _ _ Rb).
    unfold gincircle, resolve. fold pu pv pw pk. rewrite incircle_swap34.
    pose proof (I w (old_at_S _ _ _ Hw)) as Iw. fold pw in Iw.
    pose proof (gp4 u v k w Lu Lv ltac:(lia) Lw) as NZ. cbv beta in NZ. fold pu pv pk pw in NZ.
    destruct (Q_dec (incircle pu pv pk pw) 0) as [[L|L]|L]; [lra|lra|].
    exfalso. apply NZ; congruence. }
  assert (Eb : In (u, v) (edges b)) by (apply (rot_eq_edges _ _ (u, v) Rb); simpl; auto).
  assert (Sh : shared (bad_of P T k) b (u, v) = false).
  { destruct (shared (bad_of P T k) b (u, v)) eqn:Sh; [exfalso|reflexivity].
    apply shared_true in Sh. destruct Sh as [o [Bo [Ne [f [Hf Sm]]]]].
    apply bad_of_in in Bo. destruct Bo as [HoT BadO].
    apply edge_same_cases in Sm. cbn [fst snd] in Sm. destruct Sm as [->| ->].
    - destruct (edge_rot_eq o u v Hf) as [w' R'].
      pose proof (is_dt_rot_eq P _ o (u, v, w') (rot_eq_sym _ _ R') (Snd o HoT)) as [V' [O' I']].
      unfold gorient, resolve in O'. unfold gincircle, resolve in I'. fold pu pv in O', I'.
      pose proof (V' w' ltac:(simpl; auto)) as Hw'.
      pose proof (I' w Hw) as A1. fold pw in A1.
      pose proof (proj2 (proj2 D) w' Hw') as A2. unfold gincircle, resolve in A2. fold pu pv pw in A2.
      rewrite incircle_swap34 in A1.
      destruct (cw_distinct P (u, v, w') O') as [_ [Dvw' Dw'u]].
      destruct (Nat.eq_dec w w') as [<-|Nww].
      + apply Ne. symmetry. apply (last_newest_unique n T b o Lst Hb HoT).
        apply (rot_eq_common (u, v, w)); assumption.
      + pose proof (old_at_lt n k w' Hk' Hw') as Lw'.
        apply (gp4 u v w w' Lu Lv Lw Lw'); try congruence. cbv beta. fold pu pv pw. lra.
    - destruct (edge_rot_eq o v u Hf) as [z R'].
      apply in_circb_lt in BadO. rewrite (rot_eq_gincircle P _ _ _ R') in BadO.
      unfold gincircle, resolve in BadO. fold pu pv pk in BadO. rewrite incircle_across in BadO.
      pose proof (is_dt_rot_eq P _ o (v, u, z) (rot_eq_sym _ _ R') (Snd o HoT)) as [V' _].
      pose proof (I z (old_at_S _ _ _ (V' z ltac:(simpl; auto)))) as Iz. lra. }
  apply insert_in. right. exists (u, v). split; [|split].
  - apply polygon_in. exists b. auto.
  - apply skip_edge_false. cbn [fst snd]. split; congruence.
  - symmetry. apply star_new_tri. exact O.
Qed.

Theorem insert_complete : forall T k, (k < n)%nat ->
  sound k T -> dt_complete P (old_at n k) T -> last_newest n T ->
  dt_complete P (old_at n (S k)) (insert P T k).
Proof.
  intros T k Hk Snd Cmp Lst t D. destruct t as [[a b] c].
  destruct (Nat.eq_dec a k) as [->|Na]; [|destruct (Nat.eq_dec b k) as [->|Nb]; [|destruct (Nat.eq_dec c k) as [->|Nc]]].
  - exists (b, c, k). split; [right; left; reflexivity|].
    apply (fan_complete T k b c Hk Snd Cmp Lst). apply (is_dt_rot_eq P _ (k, b, c)); [right; left; reflexivity|exact D].
  - exists (c, a, k). split; [right; right; reflexivity|].
    apply (fan_complete T k c a Hk Snd Cmp Lst). apply (is_dt_rot_eq P _ (a, k, c)); [right; right; reflexivity|exact D].
  - exists (a, b, k). split; [left; reflexivity|].
    apply (fan_complete T k a b Hk Snd Cmp Lst). exact D.
  - destruct D as [V [O I]].
    assert (D' : is_dt P (old_at n k) (a, b, c)).
    { split; [|split; [exact O|]].
      - intros x Hx. apply old_at_S_inv; [apply V; exact Hx|]. simpl in Hx. destruct Hx as [<-|[<-|[<-|[]]]]; assumption.
      - intros j Hj. apply I. apply old_at_S. exact Hj. }
    destruct (Cmp _ D') as [t' [R Ht']]. exists t'. split; [exact R|].
    apply insert_in. left. split; [exact Ht'|]. intros Bd. apply bad_of_in in Bd. destruct Bd as [_ Bd].
    apply in_circb_lt in Bd. rewrite (rot_eq_gincircle P _ _ _ R) in Bd.
    pose proof (I k (old_at_new n k)). lra.
Qed.

(* ---- C. the invariant of the run *)
Definition run_inv (k : nat) (T : list tri) : Prop :=
  sound k T /\ dt_complete P (old_at n k) T /\ last_newest n T.

Lemma sound_parts : forall k T, sound k T ->
  (forall t, In t T -> gorient (resolve P t) < 0) /\
  empty_for P T (old_at n k) /\
  (forall t a, In t T -> In a (tri_verts t) -> old_at n k a).
Proof.
  intros k T S. split; [|split].
  - intros t Ht. apply (S t Ht).
  - intros t j Ht Hj. apply in_circb_ge. apply (S t Ht). exact Hj.
  - intros t a Ht Ha. apply (S t Ht). exact Ha.
Qed.

Lemma rank_old_new : forall k j, (k < n)%nat -> old_at n k j -> (rank n j < rank n k)%nat.
Proof.
  intros k j Hk [H|H]; unfold rank.
  - assert (E1 : (j <? n)%nat = true) by (apply Nat.ltb_lt; lia).
    assert (E2 : (k <? n)%nat = true) by (apply Nat.ltb_lt; lia). rewrite E1, E2. lia.
  - assert (E1 : (j <? n)%nat = false) by (apply Nat.ltb_ge; lia).
    assert (E2 : (k <? n)%nat = true) by (apply Nat.ltb_lt; lia). rewrite E1, E2. lia.
Qed.

Theorem run_inv_step : forall k T, (k < n)%nat -> run_inv k T ->
  run_inv (S k) (insert P T k) /\ edge_closed n T /\ star_shaped P T k.
Proof.
  intros k T Hk [Snd [Cmp Lst]].
  pose proof (closed_from_complete T k ltac:(lia) Snd Cmp) as EC.
  destruct (sound_parts k T Snd) as [CW [Inv VO]].
  assert (Star : star_shaped P T k).
  { apply (star_from_closed P n T k (old_at n k) CW Inv VO EC). apply INS. exact Hk. }
  assert (Cont : continues_behind P T k (old_at n k)).
  { apply (continues_from_closed P n T k (old_at n k) EC SCW).
    - intros j _ Lt. apply INS. exact Lt.
    - intros j Hj. apply (old_at_lt n k j); [lia|exact Hj]. }
  split; [|split; assumption]. split; [|split].
  - intros x Hx. split; [|split].
    + intros a Ha. apply insert_in in Hx. destruct Hx as [[Hx _]|[e [He [_ ->]]]].
      * apply old_at_S. exact (VO x a Hx Ha).
      * pose proof (Star e He) as St. destruct e as [u v]. cbn [fst snd] in St.
        rewrite (star_new_tri P u v k St) in Ha.
        apply polygon_in in He. destruct He as [b [Hb [Eb _]]]. apply bad_of_in in Hb. destruct Hb as [HbT _].
        destruct (edge_verts b (u, v) Eb) as [V1 V2]. cbn [fst snd] in V1, V2.
        simpl in Ha. destruct Ha as [<-|[<-|[<-|[]]]].
        -- apply old_at_S. exact (VO b _ HbT V1).
        -- apply old_at_S. exact (VO b _ HbT V2).
        -- apply old_at_new.
    + apply insert_in in Hx. destruct Hx as [[Hx _]|[e [He [_ ->]]]]; [apply CW; exact Hx|].
      pose proof (Star e He) as St. destruct e as [u v]. cbn [fst snd] in St.
      rewrite (star_new_tri P u v k St). exact St.
    + intros j Hj. apply in_circb_ge.
      apply (insert_keeps_empty P T k (old_at n k) CW Inv Star Cont x j Hx).
      destruct Hj as [Hj|Hj]; [|left; right; exact Hj].
      destruct (Nat.eq_dec j k) as [->|Ne]; [right; reflexivity|left; left; lia].
  - apply insert_complete; assumption.
  - intros a b c Hx. apply insert_in in Hx. destruct Hx as [[Hx _]|[e [He [_ E]]]]; [apply (Lst a b c Hx)|].
    pose proof (Star e He) as St. destruct e as [u v]. cbn [fst snd] in St.
    rewrite (star_new_tri P u v k St) in E. injection E as -> -> ->.
    apply polygon_in in He. destruct He as [t [Hb [Eb _]]]. apply bad_of_in in Hb. destruct Hb as [HbT _].
    destruct (edge_verts t (u, v) Eb) as [V1 V2]. cbn [fst snd] in V1, V2.
    split; apply rank_old_new; try exact Hk; [exact (VO t _ HbT V1)|exact (VO t _ HbT V2)].
Qed.

Lemma run_inv_base : run_inv 0 [super_tri n].
Proof.
  pose proof SCW as D. unfold gorient, resolve, super_tri in D.
  split; [|split].
  - intros t [<-|[]]. split; [|split].
    + intros a Ha. simpl in Ha. right. lia.
    + exact SCW.
    + intros j [Hj|Hj]; [lia|]. unfold gincircle, resolve, super_tri.
      assert (C : j = n \/ j = S n \/ j = S (S n)) by lia.
      destruct C as [->|[->| ->]]; [rewrite incircle_v1|rewrite incircle_v2|rewrite incircle_v3]; apply Qle_refl.
  - intros [[a b] c] [V [O _]]. exists (super_tri n). split; [|left; reflexivity].
    unfold gorient, resolve in O.
    assert (Ca : a = n \/ a = S n \/ a = S (S n)).
    { destruct (V a ltac:(simpl; auto)) as [H|H]; lia. }
    assert (Cb : b = n \/ b = S n \/ b = S (S n)).
    { destruct (V b ltac:(simpl; auto)) as [H|H]; lia. }
    assert (Cc : c = n \/ c = S n \/ c = S (S n)).
    { destruct (V c ltac:(simpl; auto)) as [H|H]; lia. }
    unfold rot_eq, rot, super_tri.
    destruct Ca as [->|[->| ->]]; destruct Cb as [->|[->| ->]]; destruct Cc as [->|[->| ->]];
      first [left; reflexivity | right; left; reflexivity | right; right; reflexivity
            | exfalso; unfold orient in *; lra].
  - intros a b c [E|[]]. unfold super_tri in E. injection E as <- <- <-. unfold rank.
    assert (E0 : (n <? n)%nat = false) by (apply Nat.ltb_ge; lia).
    assert (E1 : (S n <? n)%nat = false) by (apply Nat.ltb_ge; lia).
    assert (E2 : (S (S n) <? n)%nat = false) by (apply Nat.ltb_ge; lia).
    rewrite E0, E1, E2. lia.
Qed.

Definition state (k : nat) : list tri := fold_left (insert P) (seq 0 k) [super_tri n].

Lemma state_S : forall k, state (S k) = insert P (state k) k.
Proof. intros. unfold state. rewrite seq_S, fold_left_app. reflexivity. Qed.

Theorem run_inv_all : forall k, (k <= n)%nat -> run_inv k (state k).
Proof.
  induction k as [|k IH]; intros Hk; [exact run_inv_base|].
  rewrite state_S. apply run_inv_step; [lia|apply IH; lia].
Qed.

Corollary state_closed : forall k, (k < n)%nat -> edge_closed n (state k).
Proof. intros k Hk. apply (run_inv_step k (state k) Hk). apply run_inv_all. lia. Qed.

(* ---- D. consequences of the characterisation: no directed edge twice, no overlap *)
Lemma sound_edge_unique : forall k T, (k <= n)%nat -> sound k T -> last_newest n T -> edge_unique T.
Proof.
  intros k T Hk Snd Lst t g e Ht Hg Et Eg. destruct e as [u v].
  destruct (edge_rot_eq t u v Et) as [w R]. destruct (edge_rot_eq g u v Eg) as [w' R'].
  pose proof (is_dt_rot_eq P _ t (u, v, w) (rot_eq_sym _ _ R) (Snd t Ht)) as [V [O I]].
  pose proof (is_dt_rot_eq P _ g (u, v, w') (rot_eq_sym _ _ R') (Snd g Hg)) as [V' [O' I']].
  unfold gorient, resolve in O, O'. unfold gincircle, resolve in I, I'.
  pose proof (V u ltac:(simpl; auto)) as Ou. pose proof (V v ltac:(simpl; auto)) as Ov.
  pose proof (V w ltac:(simpl; auto)) as Ow. pose proof (V' w' ltac:(simpl; auto)) as Ow'.
  destruct (cw_distinct P (u, v, w) O) as [D1 [D2 D3]]. destruct (cw_distinct P (u, v, w') O') as [_ [D2' D3']].
  destruct (Nat.eq_dec w w') as [<-|Nww].
  - apply (last_newest_unique n T t g Lst Ht Hg). apply (rot_eq_common (u, v, w)); assumption.
  - exfalso. pose proof (I w' Ow') as A1. pose proof (I' w Ow) as A2. rewrite incircle_swap34 in A2.
    apply (gp4 u v w w'); try (apply (old_at_lt n k); assumption); try congruence. cbv beta. lra.
Qed.

Lemma inside_cw_neg : forall a b c x, orient a b c < 0 -> Inside (a, b, c) x ->
  orient a b x < 0 /\ orient b c x < 0 /\ orient c a x < 0.
Proof.
  intros a b c x O [[H1 [H2 H3]]|H]; [|exact H]. pose proof (orient_sum a b c x). lra.
Qed.

Theorem dt_disjoint : forall k T t u, (k <= n)%nat -> sound k T -> last_newest n T ->
  In t T -> In u T -> t <> u ->
  forall x, ~ (Inside (resolve P t) x /\ Inside (resolve P u) x).
Proof.
  intros k T t u Hk Snd Lst Ht Hu Ne x [It Iu].
  destruct (Snd t Ht) as [Vt [Ot Et]]. destruct (Snd u Hu) as [Vu [Ou Eu]].
  destruct t as [[a b] c]. destruct u as [[d e] f].
  unfold gorient, resolve in *. unfold gincircle in *.
  destruct (inside_cw_neg _ _ _ x Ot It) as [T3 [T1 T2]].
  destruct (inside_cw_neg _ _ _ x Ou Iu) as [U3 [U1 U2]].
  pose proof (Vt a ltac:(simpl; auto)) as Oa. pose proof (Vt b ltac:(simpl; auto)) as Ob.
  pose proof (Vt c ltac:(simpl; auto)) as Oc. pose proof (Vu d ltac:(simpl; auto)) as Od.
  pose proof (Vu e ltac:(simpl; auto)) as Oe. pose proof (Vu f ltac:(simpl; auto)) as Of.
  pose proof (Eu a Oa) as Ha. pose proof (Eu b Ob) as Hb. pose proof (Eu c Oc) as Hc.
  pose proof (Et d Od) as Hd. pose proof (Et e Oe) as He. pose proof (Et f Of) as Hf.
  set (pa := nth a P pzero) in *. set (pb := nth b P pzero) in *. set (pc := nth c P pzero) in *.
  set (pd := nth d P pzero) in *. set (pe := nth e P pzero) in *. set (pf := nth f P pzero) in *.
  pose proof (incircle_bary pa pb pc pd pe pf x) as E1.
  pose proof (incircle_bary pd pe pf pa pb pc x) as E2.
  pose proof (neg_mul_nonneg _ _ T1 Ha) as N1. pose proof (neg_mul_nonneg _ _ T2 Hb) as N2.
  pose proof (neg_mul_nonneg _ _ T3 Hc) as N3. pose proof (neg_mul_nonneg _ _ U1 Hd) as N4.
  pose proof (neg_mul_nonneg _ _ U2 He) as N5. pose proof (neg_mul_nonneg _ _ U3 Hf) as N6.
  assert (Z : orient pb pc x * incircle pd pe pf pa + orient pc pa x * incircle pd pe pf pb
              + orient pa pb x * incircle pd pe pf pc == 0) by lra.
  destruct (three_zero _ _ _ _ _ _ T1 T2 T3 Ha Hb Hc Z) as [Za [Zb Zc]].
  assert (La := old_at_lt n k a Hk Oa). assert (Lb := old_at_lt n k b Hk Ob).
  assert (Lc := old_at_lt n k c Hk Oc). assert (Ld := old_at_lt n k d Hk Od).
  assert (Le := old_at_lt n k e Hk Oe). assert (Lf := old_at_lt n k f Hk Of).
  destruct (cw_distinct P (a, b, c) Ot) as [Dab [Dbc Dca]].
  destruct (cw_distinct P (d, e, f) Ou) as [Dde [Def Dfd]].
  assert (Among : forall y, (y < n + 3)%nat -> incircle pd pe pf (nth y P pzero) == 0 -> y = d \/ y = e \/ y = f).
  { intros y Ly Zy. destruct (Nat.eq_dec y d); [auto|]. destruct (Nat.eq_dec y e); [auto|].
    destruct (Nat.eq_dec y f); [auto|]. exfalso. apply (gp4 d e f y Ld Le Lf Ly); try congruence. exact Zy. }
  pose proof (Among a La Za) as Ca. pose proof (Among b Lb Zb) as Cb. pose proof (Among c Lc Zc) as Cc.
  assert (R : rot_eq (a, b, c) (d, e, f) \/ 0 < orient pd pe pf).
  { unfold rot_eq, rot, pa, pb, pc, pd, pe, pf in *.
    destruct Ca as [->|[->| ->]]; destruct Cb as [->|[->| ->]]; destruct Cc as [->|[->| ->]];
      first [congruence | left; left; reflexivity | left; right; left; reflexivity
            | left; right; right; reflexivity | right; unfold orient in *; lra]. }
  destruct R as [R|R]; [|lra].
  apply Ne. apply (last_newest_unique n T _ _ Lst Ht Hu R).
Qed.

End Run.

(* ================================================================== 4. the theorems about bw *)
Lemma gp_strong_general : forall pts ext, gp_strong (pts ++ ext) -> general_position pts.
Proof.
  intros pts ext [G3 _] i j k Hijk Hk.
  pose proof (G3 i j k) as H. rewrite app_length in H.
  rewrite !app_nth1 in H by lia. apply H; lia.
Qed.

Lemma resolve_super : forall super pts,
  resolve (pts ++ super pts) (super_tri (length pts)) = super_gtri super pts.
Proof.
  intros. unfold super_tri, resolve, super_gtri. rewrite !app_nth2 by lia.
  replace (length pts - length pts)%nat with 0%nat by lia.
  replace (S (length pts) - length pts)%nat with 1%nat by lia.
  replace (S (S (length pts)) - length pts)%nat with 2%nat by lia. reflexivity.
Qed.

Section Instance.
Variable super : list pt -> list pt.
Variable pts : list pt.
Hypothesis L3 : length (super pts) = 3%nat.
Hypothesis Hin : inside_super super pts.
Hypothesis GP : gp_strong (pts ++ super pts).

Let P := pts ++ super pts.
Let n := length pts.

Lemma inst_len : length P = (n + 3)%nat.
Proof. unfold P, n. rewrite app_length, L3. reflexivity. Qed.
Lemma inst_scw : gorient (resolve P (super_tri n)) < 0.
Proof.
  unfold P, n. rewrite resolve_super. unfold inside_super in Hin.
  destruct (super_gtri super pts) as [[l t] r]. exact (proj1 Hin).
Qed.
Lemma inst_ins : forall j, (j < n)%nat -> sup_in P n (nth j P pzero).
Proof. intros j Hj. apply inside_sup_in; assumption. Qed.

Lemma bw_state_is_state : forall k, bw_state super pts k = state P n k.
Proof. reflexivity. Qed.

Theorem run_characterised : forall k, (k <= n)%nat -> run_inv P n k (bw_state super pts k).
Proof. intros k Hk. rewrite bw_state_is_state. apply (run_inv_all P n inst_len GP inst_scw inst_ins k Hk). Qed.

(* M1 closed: edge closure holds at every step *)
Theorem closed_run_gp : closed_run super pts.
Proof.
  intros k Hk. rewrite bw_state_is_state. apply (state_closed P n inst_len GP inst_scw inst_ins k Hk).
Qed.

Theorem edge_unique_gp : forall k, (k <= n)%nat -> edge_unique (bw_state super pts k).
Proof.
  intros k Hk. destruct (run_characterised k Hk) as [S [_ L]].
  apply (sound_edge_unique P n inst_len GP k _ Hk S L).
Qed.

Lemma result_members : forall ts t, bw_with super pts = Some ts ->
  (In t ts <-> In t (bw_state super pts n) /\ idx_ok n t).
Proof.
  intros ts t H. unfold bw_with in H. destruct (length pts <? 3)%nat; [discriminate|]. injection H as <-.
  rewrite filter_In, negb_true_iff, has_super_false. reflexivity.
Qed.

Lemma result_nodup : forall ts, bw_with super pts = Some ts -> NoDup ts.
Proof.
  intros ts H. apply (bw_sched_nodup (fun _ X => X) super pts ts); [intros; apply Permutation_refl|exact H].
Qed.

(* M2 closed: the triangles of the result do not overlap *)
Theorem no_overlap_gp : forall ts, bw_with super pts = Some ts -> no_overlap pts ts.
Proof.
  intros ts H i j t u Hij Hi Hj x Hx.
  pose proof (result_nodup ts H) as ND.
  assert (Ne : t <> u).
  { intros ->. apply Hij. apply (proj1 (NoDup_nth_error ts) ND).
    - apply nth_error_Some. congruence.
    - congruence. }
  apply nth_error_In in Hi. apply nth_error_In in Hj.
  apply (result_members ts t H) in Hi. apply (result_members ts u H) in Hj.
  destruct Hi as [Ht It]. destruct Hj as [Hu Iu].
  destruct (run_characterised n (le_n _)) as [S [_ L]].
  rewrite <- (resolve_app pts (super pts) t It), <- (resolve_app pts (super pts) u Iu) in Hx.
  exact (dt_disjoint P n inst_len GP n _ t u (le_n _) S L Ht Hu Ne x Hx).
Qed.

Lemma idx_ok_verts : forall m t, idx_ok m t <-> forall a, In a (tri_verts t) -> (a < m)%nat.
Proof.
  intros m [[a b] c]. unfold idx_ok. simpl. split.
  - intros [Ha [Hb Hc]] x [<-|[<-|[<-|[]]]]; assumption.
  - intros H. repeat split; apply H; auto.
Qed.

(* the output, exactly: a triangle over input indices is returned (as one of its rotations) iff it is
   strictly clockwise and neither an input point nor a vertex of the super triangle lies strictly
   inside its circumcircle *)
Theorem output_characterised : forall ts t, bw_with super pts = Some ts -> idx_ok n t ->
  ((exists t', rot_eq t t' /\ In t' ts) <->
   gorient (resolve pts t) < 0 /\
   forall j, (j < n + 3)%nat -> 0 <= gincircle (resolve pts t) (nth j P pzero)).
Proof.
  intros ts t H It. destruct (run_characterised n (le_n _)) as [S [C _]].
  rewrite <- (resolve_app pts (super pts) t It). fold P. split.
  - intros [t' [R Ht']]. apply (result_members ts t' H) in Ht'. destruct Ht' as [Ht' _].
    pose proof (is_dt_rot_eq P _ t' t (rot_eq_sym _ _ R) (S t' Ht')) as [_ [O I]].
    split; [exact O|]. intros j Hj. apply I. unfold old_at. lia.
  - intros [O I]. destruct (C t) as [t' [R Ht']].
    { split; [|split; [exact O|]].
      - intros a Ha. left. apply (proj1 (idx_ok_verts n t) It a Ha).
      - intros j Hj. apply I. destruct Hj; lia. }
    exists t'. split; [exact R|]. apply (result_members ts t' H). split; [exact Ht'|].
    apply idx_ok_verts. intros a Ha. apply (proj1 (idx_ok_verts n t) It). apply (rot_eq_verts t t' a R). exact Ha.
Qed.

End Instance.

(* ---- the statement of the property for the model of /repo HEAD *)
Theorem bw_delaunay_proof : forall pts ts,
  (3 <= length pts)%nat -> gp_strong (pts ++ super_fixed pts) -> bw pts = Some ts ->
  delaunay_spec pts ts.
Proof.
  intros pts ts L GP H.
  pose proof (gp_two_distinct pts L (gp_strong_general _ _ GP)) as D.
  pose proof (super_fixed_inside pts D) as Hin.
  pose proof (closed_run_gp super_fixed pts (length_super_fixed pts) Hin GP) as Cl.
  destruct (bw_delaunay_closed pts ts D Cl H) as [A B].
  split; [intros t Ht; apply (A t Ht)|]. split; [right; intros t Ht; apply (A t Ht)|].
  split; [|exact B]. apply (no_overlap_gp super_fixed pts (length_super_fixed pts) Hin GP ts H).
Qed.

(* ... and for every order in which the Go map may be iterated *)
Lemma delaunay_spec_perm : forall pts ts ts',
  NoDup ts -> Permutation ts ts' -> delaunay_spec pts ts' -> delaunay_spec pts ts.
Proof.
  intros pts ts ts' ND Pm [A [B [C D]]].
  assert (I : forall t, In t ts -> In t ts') by (intros t; apply Permutation_in; exact Pm).
  split; [auto|]. split; [destruct B as [B|B]; [left|right]; auto|]. split; [|intros t p Ht; apply D; auto].
  intros i j t u Hij Hi Hj x Hx.
  assert (Ne : t <> u).
  { intros ->. apply Hij. apply (proj1 (NoDup_nth_error ts) ND); [apply nth_error_Some|]; congruence. }
  destruct (In_nth_error ts' t (I t (nth_error_In _ _ Hi))) as [i' Hi'].
  destruct (In_nth_error ts' u (I u (nth_error_In _ _ Hj))) as [j' Hj'].
  apply (C i' j' t u ltac:(intros ->; congruence) Hi' Hj' x Hx).
Qed.

Theorem bw_delaunay_sched_proof : forall sched pts ts,
  (forall k T, Permutation (sched k T) T) ->
  (3 <= length pts)%nat -> gp_strong (pts ++ super_fixed pts) ->
  bw_with_sched sched super_fixed pts = Some ts -> delaunay_spec pts ts.
Proof.
  intros sched pts ts Hs L GP H.
  assert (E : exists ts', bw pts = Some ts').
  { unfold bw, bw_with. unfold bw_with_sched in H. destruct (length pts <? 3)%nat; [discriminate|eauto]. }
  destruct E as [ts' E].
  apply (delaunay_spec_perm pts ts ts').
  - apply (bw_sched_nodup sched super_fixed pts ts Hs H).
  - apply (bw_order_independent sched super_fixed pts ts ts' Hs H E).
  - apply bw_delaunay_proof; assumption.
Qed.

(* ================================================================== 5. strong general position is decidable *)
Lemma tails_pick : forall (A : Type) (l : list A) i d, (i < length l)%nat ->
  In (nth i l d, skipn (S i) l) (tails l).
Proof.
  intros A l. induction l as [|x l IH]; intros i d Hi; [simpl in Hi; lia|].
  destruct i as [|i]; [left; reflexivity|]. right. apply IH. simpl in Hi. lia.
Qed.

Lemma nth_skipn' : forall (A : Type) s (l : list A) m d, nth m (skipn s l) d = nth (s + m) l d.
Proof.
  intros A s. induction s as [|s IH]; intros l m d; [reflexivity|].
  destruct l as [|x l]; [destruct m; reflexivity|]. simpl. apply IH.
Qed.

Lemma gp3b_sorted : forall P, gp3b P = true -> general_position P.
Proof.
  intros P H i j k Hijk Hk. unfold gp3b in H. rewrite forallb_forall in H.
  specialize (H _ (tails_pick _ P i pzero ltac:(lia))). cbv beta iota in H.
  set (l1 := skipn (S i) P) in *.
  assert (L1 : length l1 = (length P - S i)%nat) by apply skipn_length.
  rewrite forallb_forall in H. specialize (H _ (tails_pick _ l1 (j - S i) pzero ltac:(lia))). cbv beta iota in H.
  set (l2 := skipn (S (j - S i)) l1) in *.
  assert (L2 : length l2 = (length l1 - S (j - S i))%nat) by apply skipn_length.
  assert (In3 : In (nth (k - S j) l2 pzero) l2) by (apply nth_In; lia).
  rewrite forallb_forall in H. specialize (H _ In3).
  apply negb_true_iff in H.
  unfold l2 in H. rewrite !nth_skipn' in H. unfold l1 in H. rewrite !nth_skipn' in H.
  replace (S i + (j - S i))%nat with j in H by lia.
  replace (S i + (S (j - S i) + (k - S j)))%nat with k in H by lia.
  intros Z. apply Qeq_bool_iff in Z. congruence.
Qed.

Lemma gp4b_sorted : forall P, gp4b P = true ->
  forall i j k l, (i < j < k)%nat -> (k < l < length P)%nat ->
    ~ incircle (nth i P pzero) (nth j P pzero) (nth k P pzero) (nth l P pzero) == 0.
Proof.
  intros P H i j k l Hijk Hl. unfold gp4b in H. rewrite forallb_forall in H.
  specialize (H _ (tails_pick _ P i pzero ltac:(lia))). cbv beta iota in H.
  set (l1 := skipn (S i) P) in *.
  assert (L1 : length l1 = (length P - S i)%nat) by apply skipn_length.
  rewrite forallb_forall in H. specialize (H _ (tails_pick _ l1 (j - S i) pzero ltac:(lia))). cbv beta iota in H.
  set (l2 := skipn (S (j - S i)) l1) in *.
  assert (L2 : length l2 = (length l1 - S (j - S i))%nat) by apply skipn_length.
  rewrite forallb_forall in H. specialize (H _ (tails_pick _ l2 (k - S j) pzero ltac:(lia))). cbv beta iota in H.
  set (l3 := skipn (S (k - S j)) l2) in *.
  assert (L3 : length l3 = (length l2 - S (k - S j))%nat) by apply skipn_length.
  assert (In4 : In (nth (l - S k) l3 pzero) l3) by (apply nth_In; lia).
  rewrite forallb_forall in H. specialize (H _ In4).
  apply negb_true_iff in H.
  unfold l3 in H. rewrite !nth_skipn' in H. unfold l2 in H. rewrite !nth_skipn' in H.
  unfold l1 in H. rewrite !nth_skipn' in H.
  replace (S i + (j - S i))%nat with j in H by lia.
  replace (S i + (S (j - S i) + (k - S j)))%nat with k in H by lia.
  replace (S i + (S (j - S i) + (S (k - S j) + (l - S k))))%nat with l in H by lia.
  intros Z. apply Qeq_bool_iff in Z. congruence.
Qed.

(* the in-circle determinant is alternating: any arrangement of four points is, up to sign, the
   arrangement in increasing index order *)
Ltac perm_goal Z :=
  first [ exact Z |
  match goal with
  | |- ?X == 0 =>
      match type of Z with
      | ?Y == 0 =>
          let E := fresh "E" in
          first [ assert (E : X == Y) by (unfold incircle; ring)
                | assert (E : X == - Y) by (unfold incircle; ring) ];
          rewrite E, Z; ring
      end
  end ].
Ltac try_perm H Z a b c d := solve [ apply (H a b c d); [lia|lia|perm_goal Z] ].

Lemma gp4_all : forall P,
  (forall i j k l, (i < j < k)%nat -> (k < l < length P)%nat ->
     ~ incircle (nth i P pzero) (nth j P pzero) (nth k P pzero) (nth l P pzero) == 0) ->
  forall i j k l, (i < length P)%nat -> (j < length P)%nat -> (k < length P)%nat -> (l < length P)%nat ->
    i <> j -> i <> k -> i <> l -> j <> k -> j <> l -> k <> l ->
    ~ incircle (nth i P pzero) (nth j P pzero) (nth k P pzero) (nth l P pzero) == 0.
Proof.
  intros P H i j k l Hi Hj Hk Hl D1 D2 D3 D4 D5 D6 Z.
  destruct (Nat.lt_ge_cases i j); destruct (Nat.lt_ge_cases i k); destruct (Nat.lt_ge_cases i l);
  destruct (Nat.lt_ge_cases j k); destruct (Nat.lt_ge_cases j l); destruct (Nat.lt_ge_cases k l);
  first [ try_perm H Z i j k l | try_perm H Z i j l k | try_perm H Z i k j l | try_perm H Z i k l j
        | try_perm H Z i l j k | try_perm H Z i l k j | try_perm H Z j i k l | try_perm H Z j i l k
        | try_perm H Z j k i l | try_perm H Z j k l i | try_perm H Z j l i k | try_perm H Z j l k i
        | try_perm H Z k i j l | try_perm H Z k i l j | try_perm H Z k j i l | try_perm H Z k j l i
        | try_perm H Z k l i j | try_perm H Z k l j i | try_perm H Z l i j k | try_perm H Z l i k j
        | try_perm H Z l j i k | try_perm H Z l j k i | try_perm H Z l k i j | try_perm H Z l k j i
        | exfalso; lia ].
Qed.

Theorem gp_strongb_ok : forall P, gp_strongb P = true -> gp_strong P.
Proof.
  intros P H. unfold gp_strongb in H. apply andb_true_iff in H. destruct H as [H3 H4]. split.
  - intros i j k Hi Hj Hk D1 D2 D3. apply (gp_distinct P i j k (gp3b_sorted P H3)); assumption.
  - apply gp4_all. apply gp4b_sorted. exact H4.
Qed.

(* ================================================================== 6. the forms quoted by Properties/C20.v *)
Lemma gp_inside : forall pts, (3 <= length pts)%nat -> gp_strong (pts ++ super_fixed pts) ->
  inside_super super_fixed pts.
Proof.
  intros pts L GP. apply super_fixed_inside. apply (gp_two_distinct pts L (gp_strong_general _ _ GP)).
Qed.

Theorem bw_closed_run_proof : forall pts,
  (3 <= length pts)%nat -> gp_strong (pts ++ super_fixed pts) -> closed_run super_fixed pts.
Proof.
  intros pts L GP. apply (closed_run_gp super_fixed pts (length_super_fixed pts) (gp_inside pts L GP) GP).
Qed.

Theorem bw_states_exact_proof : forall pts k,
  (3 <= length pts)%nat -> gp_strong (pts ++ super_fixed pts) -> (k <= length pts)%nat ->
  let P := pts ++ super_fixed pts in
  let T := bw_state super_fixed pts k in
  (forall t, In t T -> is_dt P (old_at (length pts) k) t) /\
  (forall t, is_dt P (old_at (length pts) k) t -> exists t', rot_eq t t' /\ In t' T) /\
  edge_unique T /\ NoDup T.
Proof.
  intros pts k L GP Hk P T.
  pose proof (gp_inside pts L GP) as Hin.
  destruct (run_characterised super_fixed pts (length_super_fixed pts) Hin GP k Hk) as [S [C _]].
  split; [exact S|]. split; [exact C|]. split.
  - apply (edge_unique_gp super_fixed pts (length_super_fixed pts) Hin GP k Hk).
  - unfold T, bw_state. apply fold_inv; [constructor; [intros []|constructor]|intros; apply insert_nodup; assumption].
Qed.

Theorem bw_output_exact_proof : forall pts ts t,
  (3 <= length pts)%nat -> gp_strong (pts ++ super_fixed pts) -> bw pts = Some ts ->
  idx_ok (length pts) t ->
  ((exists t', rot_eq t t' /\ In t' ts) <->
   gorient (resolve pts t) < 0 /\
   forall j, (j < length pts + 3)%nat ->
     0 <= gincircle (resolve pts t) (nth j (pts ++ super_fixed pts) pzero)).
Proof.
  intros pts ts t L GP H It.
  apply (output_characterised super_fixed pts (length_super_fixed pts) (gp_inside pts L GP) GP ts t H It).
Qed.

Theorem bw_states_disjoint_proof : forall pts k t u,
  (3 <= length pts)%nat -> gp_strong (pts ++ super_fixed pts) -> (k <= length pts)%nat ->
  In t (bw_state super_fixed pts k) -> In u (bw_state super_fixed pts k) -> t <> u ->
  forall x, ~ (Inside (resolve (pts ++ super_fixed pts) t) x /\ Inside (resolve (pts ++ super_fixed pts) u) x).
Proof.
  intros pts k t u L GP Hk Ht Hu Ne.
  pose proof (gp_inside pts L GP) as Hin.
  destruct (run_characterised super_fixed pts (length_super_fixed pts) Hin GP k Hk) as [S [_ Lst]].
  apply (dt_disjoint (pts ++ super_fixed pts) (length pts)
           (inst_len super_fixed pts (length_super_fixed pts)) GP k _ t u Hk S Lst Ht Hu Ne).
Qed.

(* the model's output passes the very checker that judges the implementation's output *)
Theorem bw_passes_checker_proof : forall pts ts,
  (3 <= length pts)%nat -> gp_strong (pts ++ super_fixed pts) -> bw pts = Some ts ->
  delaunayb pts ts = true.
Proof.
  intros pts ts L GP H. apply delaunay_checker_sound_complete.
  destruct (bw_delaunay_proof pts ts L GP H) as [A [B [C D]]]. repeat split; assumption.
Qed.
