(* C18 — closed forms of the enclosed volumes of the UV sphere and the hemisphere, explicit O(1/n^2) error bounds against
   the analytic volumes (cylinder, sphere, hemisphere) and convergence as the resolution grows.
   Stdlib real analysis only (sin_bound / cos_bound: the first two Taylor terms); monotonicity in the resolution additionally
   uses CylinderMono.nsin_mono (Coquelicot). *)
From PF Require Import Gen.Closed Gen.FamilyProofs Gen.CubeProofs Gen.Cylinder Gen.CylinderVolume Gen.CylinderMono
  Gen.Sphere Gen.SphereVolume Gen.Hemisphere Gen.HemiVolume.
From Coq Require Import Reals Lra Psatz Lia ZifyN List.
Open Scope R_scope.

(* ---------- two Taylor lower bounds ---------- *)
Lemma sin_cubic_lb : forall x, 0 <= x <= PI -> x - x * x * x / 6 <= sin x.
Proof.
  intros x [H0 H1]. destruct (sin_bound x 0 H0 H1) as [L _].
  assert (E : sin_approx x (2 * 0 + 1) = x - x * x * x / 6) by (unfold sin_approx, sin_term; simpl; field).
  rewrite E in L. exact L.
Qed.

Lemma cos_quad_lb : forall x, - (PI / 2) <= x <= PI / 2 -> 1 - x * x / 2 <= cos x.
Proof.
  intros x [H0 H1]. destruct (cos_bound x 0) as [L _]; [lra|lra|].
  assert (E : cos_approx x (2 * 0 + 1) = 1 - x * x / 2) by (unfold cos_approx, cos_term; simpl; field).
  rewrite E in L. exact L.
Qed.

(* ---------- n * sin (2 pi / n): the perimeter factor of the inscribed regular n-gon ---------- *)
Definition nsin (n : R) : R := n * sin (2 * PI / n).

Lemma step_le_PI : forall n, 2 <= n -> 0 < 2 * PI / n <= PI.
Proof.
  intros n Hn. pose proof PI_RGT_0. split; [apply Rdiv_lt_0_compat; lra|].
  apply (Rmult_le_reg_r n); [lra|]. unfold Rdiv. rewrite Rmult_assoc, Rinv_l by lra. nra.
Qed.

Lemma nsin_lt : forall n, 0 < n -> nsin n < 2 * PI.
Proof.
  intros n Hn. pose proof PI_RGT_0. unfold nsin.
  assert (X : 0 < 2 * PI / n) by (apply Rdiv_lt_0_compat; lra).
  pose proof (sin_lt_x _ X) as L. apply (Rmult_lt_compat_l n) in L; [|exact Hn].
  replace (n * (2 * PI / n)) with (2 * PI) in L by (field; lra). exact L.
Qed.

Lemma nsin_nonneg : forall n, 2 <= n -> 0 <= nsin n.
Proof. intros n Hn. destruct (step_le_PI n Hn). unfold nsin. apply Rmult_le_pos; [lra|apply sin_ge_0; lra]. Qed.

Lemma nsin_lb : forall n, 2 <= n -> 2 * PI - 4 * (PI * PI * PI) / (3 * (n * n)) <= nsin n.
Proof.
  intros n Hn. destruct (step_le_PI n Hn) as [X0 X1]. pose proof (sin_cubic_lb (2 * PI / n) ltac:(lra)) as L.
  unfold nsin. apply (Rmult_le_compat_l n) in L; [|lra].
  replace (n * (2 * PI / n - 2 * PI / n * (2 * PI / n) * (2 * PI / n) / 6)) with (2 * PI - 4 * (PI * PI * PI) / (3 * (n * n))) in L by (field; lra).
  exact L.
Qed.

Lemma NR_ge : forall k n, (k <= n)%N -> NR k <= NR n.
Proof. intros. unfold NR. apply IZR_le. lia. Qed.
Lemma NR_ge2 : forall n, (2 <= n)%N -> 2 <= NR n.
Proof. intros n H. exact (NR_ge 2 n H). Qed.

(* ---------- cylinder: explicit error bound ---------- *)
(* the inscribed prism misses at most the fraction 2 pi^2 / (3 n^2) of the cylinder's volume *)
Theorem cyl_volume_error_bound : forall n rad h, (2 <= n)%N -> 0 <= h ->
  PI * rad * rad * h - rvol6 (cyl_trisR n rad h) / 6 <= PI * rad * rad * h * (2 * (PI * PI) / (3 * (NR n * NR n))).
Proof.
  intros n rad h Hn Hh. rewrite cyl_volume by lia.
  assert (N2 : 2 <= NR n) by (apply (NR_ge 2 n Hn)).
  pose proof (nsin_lb (NR n) N2) as L. unfold nsin in L. pose proof PI_RGT_0.
  set (s := sin (2 * PI / NR n)) in *.
  replace (PI * rad * rad * h - NR n * (rad * rad * s / 2) * h) with (rad * rad * h / 2 * (2 * PI - NR n * s)) by field.
  replace (PI * rad * rad * h * (2 * (PI * PI) / (3 * (NR n * NR n)))) with (rad * rad * h / 2 * (4 * (PI * PI * PI) / (3 * (NR n * NR n)))) by (field; lra).
  apply Rmult_le_compat_l; [|lra]. assert (0 <= rad * rad) by nra. unfold Rdiv. apply Rmult_le_pos; [apply Rmult_le_pos; assumption|lra].
Qed.

(* ---------- the telescoping identity behind both closed forms ---------- *)
Lemma step_sum : forall h x, sin h * (sin x + sin (x + h)) = (1 + cos h) * (cos x - cos (x + h)).
Proof.
  intros h x. rewrite sin_plus, cos_plus.
  assert (E : sin h * sin h = 1 - cos h * cos h) by (pose proof (sin2_cos2 h) as Q; unfold Rsqr in Q; lra).
  apply Rminus_diag_uniq.
  replace (sin h * (sin x + (sin x * cos h + cos x * sin h)) - (1 + cos h) * (cos x - (cos x * cos h - sin x * sin h)))
    with (cos x * (sin h * sin h - (1 - cos h * cos h))) by ring.
  rewrite E. ring.
Qed.

Lemma phi_succ : forall r l, (1 <= r)%N -> phi r (l + 1) = phi r l + PI / NR r.
Proof. intros r l Hr. pose proof (NR_pos r Hr). unfold phi. rewrite NR_succ. field. lra. Qed.

Lemma cos_phi_1 : forall r, (1 <= r)%N -> cos (phi r 1) = cos (PI / NR r).
Proof. intros r H. f_equal. unfold phi. change (NR 1) with 1. pose proof (NR_pos r H). field. lra. Qed.
Lemma cos_phi_last : forall r, (1 <= r)%N -> cos (phi r (r - 1)) = - cos (PI / NR r).
Proof.
  intros r H. pose proof (NR_pos r H).
  assert (E : NR (r - 1) = NR r - 1) by (unfold NR; rewrite N2Z.inj_sub by lia; rewrite minus_IZR; reflexivity).
  replace (phi r (r - 1)) with (PI - PI / NR r) by (unfold phi; rewrite E; field; lra).
  rewrite cos_minus, cos_PI, sin_PI. ring.
Qed.

(* ---------- UV sphere: closed form ---------- *)
(* enclosed volume of UVSphere(rad, r, c) = c * sin (2 pi / c) * (1 + cos (pi / r)) / 3 * rad^3
   (c sin (2 pi/c) -> 2 pi, 1 + cos (pi/r) -> 2: the analytic 4/3 pi rad^3) *)
Theorem sphere_volume_closed : forall r c rad, (2 <= r)%N -> (1 <= c)%N ->
  rvol6 (sph_trisR r c rad) / 6 = NR c * sin (2 * PI / NR c) * (1 + cos (PI / NR r)) / 3 * (rad * rad * rad).
Proof.
  intros r c rad Hr Hc. assert (Hr1 : (1 <= r)%N) by lia. rewrite sphere_volume_is_sum by assumption.
  set (h := PI / NR r).
  rewrite <- rsum_scal.
  rewrite (rsum_ext_in _ (fun j => (1 + cos h) * cos (phi r (j + 1)) - (1 + cos h) * cos (phi r (j + 1 + 1)))).
  2:{ intros j _. replace (j + 2)%N with (j + 1 + 1)%N by lia. rewrite (phi_succ r (j + 1)) by exact Hr1. fold h.
      rewrite step_sum. ring. }
  rewrite (rsum_telescope (fun j => (1 + cos h) * cos (phi r (j + 1)))).
  replace (0 + 1)%N with 1%N by lia. replace (r - 2 + 1)%N with (r - 1)%N by lia.
  rewrite sin_phi_1, sin_phi_last, cos_phi_1, cos_phi_last by exact Hr1. fold h.
  assert (E : sin h * sin h = 1 - cos h * cos h) by (pose proof (sin2_cos2 h) as Q; unfold Rsqr in Q; lra).
  replace (sin h * sin h + sin h * sin h + ((1 + cos h) * cos h - (1 + cos h) * - cos h))
    with (2 * (sin h * sin h) + 2 * cos h + 2 * (cos h * cos h)) by ring.
  rewrite E. field.
Qed.

Lemma half_step : forall r, (2 <= r)%N -> 0 < PI / NR r <= PI / 2.
Proof.
  intros r Hr. pose proof PI_RGT_0. assert (N2 : 2 <= NR r) by (apply (NR_ge 2 r Hr)).
  split; [apply Rdiv_lt_0_compat; lra|].
  apply (Rmult_le_reg_r (NR r)); [lra|]. unfold Rdiv at 1. rewrite Rmult_assoc, Rinv_l by lra. nra.
Qed.

(* the rows factor: 2 - pi^2 / (2 r^2) <= 1 + cos (pi / r) <= 2 *)
Lemma rows_factor : forall r, (2 <= r)%N ->
  2 - PI * PI / (2 * (NR r * NR r)) <= 1 + cos (PI / NR r) <= 2.
Proof.
  intros r Hr. destruct (half_step r Hr) as [H0 H1]. assert (N2 : 2 <= NR r) by (apply (NR_ge 2 r Hr)).
  pose proof (cos_quad_lb (PI / NR r) ltac:(lra)) as L. pose proof (COS_bound (PI / NR r)) as [_ U].
  replace (PI / NR r * (PI / NR r) / 2) with (PI * PI / (2 * (NR r * NR r))) in L by (field; lra). lra.
Qed.

(* error against the analytic volume: between 0 and pi^3 rad^3 (8 / (9 c^2) + 1 / (3 r^2)) *)
Theorem sphere_volume_error_bound : forall r c rad, (2 <= r)%N -> (2 <= c)%N -> 0 <= rad ->
  0 <= 4 / 3 * PI * (rad * rad * rad) - rvol6 (sph_trisR r c rad) / 6
    <= PI * PI * PI * (rad * rad * rad) * (8 / (9 * (NR c * NR c)) + 1 / (3 * (NR r * NR r))).
Proof.
  intros r c rad Hr Hc Hrad. rewrite sphere_volume_closed by (try assumption; lia).
  assert (C2 : 2 <= NR c) by (apply (NR_ge 2 c Hc)). assert (R2 : 2 <= NR r) by (apply (NR_ge 2 r Hr)).
  pose proof (nsin_lt (NR c) ltac:(lra)) as A1. pose proof (nsin_lb (NR c) C2) as A2. pose proof (nsin_nonneg (NR c) C2) as A0.
  destruct (rows_factor r Hr) as [B1 B2]. unfold nsin in *. pose proof PI_RGT_0 as Hpi.
  set (A := NR c * sin (2 * PI / NR c)) in *. set (B := 1 + cos (PI / NR r)) in *.
  set (a := 4 * (PI * PI * PI) / (3 * (NR c * NR c))) in *. set (b := PI * PI / (2 * (NR r * NR r))) in *.
  assert (Ha : 0 <= a) by (unfold a; apply Rmult_le_pos; [nra|left; apply Rinv_0_lt_compat; nra]).
  assert (Hb : 0 <= b) by (unfold b; apply Rmult_le_pos; [nra|left; apply Rinv_0_lt_compat; nra]).
  assert (Q : 0 <= rad * rad * rad) by (apply Rmult_le_pos; [nra|exact Hrad]).
  replace (4 / 3 * PI * (rad * rad * rad) - A * B / 3 * (rad * rad * rad)) with ((rad * rad * rad) / 3 * (4 * PI - A * B)) by field.
  replace (PI * PI * PI * (rad * rad * rad) * (8 / (9 * (NR c * NR c)) + 1 / (3 * (NR r * NR r))))
    with ((rad * rad * rad) / 3 * (2 * a + 2 * PI * b)) by (unfold a, b; field; lra).
  assert (K : 0 <= 4 * PI - A * B <= 2 * a + 2 * PI * b) by (split; nra).
  split; [apply Rmult_le_pos; lra|apply Rmult_le_compat_l; lra].
Qed.

Theorem sphere_volume_below_analytic : forall r c rad, (2 <= r)%N -> (3 <= c)%N -> 0 < rad ->
  rvol6 (sph_trisR r c rad) / 6 < 4 / 3 * PI * (rad * rad * rad).
Proof.
  intros r c rad Hr Hc Hrad. rewrite sphere_volume_closed by (try assumption; lia).
  assert (C2 : 2 <= NR c) by (apply (NR_ge 2 c); lia).
  pose proof (nsin_lt (NR c) ltac:(lra)) as A1. pose proof (nsin_nonneg (NR c) C2) as A0.
  destruct (rows_factor r Hr) as [_ B2]. unfold nsin in *.
  set (A := NR c * sin (2 * PI / NR c)) in *. set (B := 1 + cos (PI / NR r)) in *.
  destruct (half_step r Hr) as [H0 H1]. assert (B0 : 0 <= B) by (unfold B; pose proof (COS_bound (PI / NR r)); lra).
  assert (Q : 0 < rad * rad * rad) by (repeat apply Rmult_lt_0_compat; assumption).
  replace (A * B / 3 * (rad * rad * rad)) with ((rad * rad * rad) / 3 * (A * B)) by field.
  replace (4 / 3 * PI * (rad * rad * rad)) with ((rad * rad * rad) / 3 * (4 * PI)) by field.
  apply Rmult_lt_compat_l; [lra|]. nra.
Qed.

(* finer in both directions: not smaller *)
Theorem sphere_volume_monotone : forall r1 c1 r2 c2 rad, (2 <= r1)%N -> (r1 <= r2)%N -> (2 <= c1)%N -> (c1 <= c2)%N -> 0 <= rad ->
  rvol6 (sph_trisR r1 c1 rad) / 6 <= rvol6 (sph_trisR r2 c2 rad) / 6.
Proof.
  intros r1 c1 r2 c2 rad Hr1 Hr Hc1 Hc Hrad. rewrite !sphere_volume_closed by lia.
  assert (C1 : 2 <= NR c1) by (apply (NR_ge 2 c1 Hc1)). assert (C12 : NR c1 <= NR c2) by (apply NR_ge, Hc).
  assert (R1 : 2 <= NR r1) by (apply (NR_ge 2 r1 Hr1)). assert (R12 : NR r1 <= NR r2) by (apply NR_ge, Hr).
  pose proof (nsin_mono (NR c1) (NR c2) C1 C12) as A. pose proof (nsin_nonneg (NR c1) C1) as A0. unfold nsin in A0.
  destruct (half_step r1 Hr1) as [X0 X1]. destruct (half_step r2 ltac:(lia)) as [Y0 Y1]. pose proof PI_RGT_0.
  assert (B : cos (PI / NR r1) <= cos (PI / NR r2)).
  { apply cos_decr_1; try lra. unfold Rdiv. apply Rmult_le_compat_l; [lra|]. apply Rinv_le_contravar; lra. }
  assert (B0 : 0 <= 1 + cos (PI / NR r1)) by (pose proof (COS_bound (PI / NR r1)); lra).
  assert (Q : 0 <= rad * rad * rad) by (apply Rmult_le_pos; [nra|exact Hrad]).
  apply Rmult_le_compat_r; [exact Q|]. apply Rmult_le_compat_r; [lra|].
  apply Rmult_le_compat; lra.
Qed.

(* the volume tends to 4/3 pi rad^3 as rows and columns grow (in any way) *)
Lemma inv_sq_small : forall eps, 0 < eps -> exists n0 : N, (2 <= n0)%N /\ forall n, (n0 <= n)%N -> / (NR n * NR n) < eps.
Proof.
  intros eps He. destruct (archimed_cor1 eps He) as (M & HM & HM0).
  exists (N.of_nat M + 2)%N. split; [lia|]. intros n Hn.
  assert (E : NR (N.of_nat M + 2) = INR M + 2) by (unfold NR; rewrite N2Z.inj_add, plus_IZR, nat_N_Z, <- INR_IZR_INZ; reflexivity).
  pose proof (NR_ge _ _ Hn) as G. rewrite E in G. assert (IM : 0 < INR M) by (apply lt_0_INR; lia).
  assert (G2 : INR M < NR n * NR n) by nra.
  apply Rlt_trans with (/ INR M); [|exact HM]. apply Rinv_lt_contravar; [|exact G2].
  apply Rmult_lt_0_compat; [exact IM|lra].
Qed.

Theorem sphere_volume_converges : forall rad eps, 0 <= rad -> 0 < eps ->
  exists n0 : N, forall r c, (n0 <= r)%N -> (n0 <= c)%N ->
    Rabs (rvol6 (sph_trisR r c rad) / 6 - 4 / 3 * PI * (rad * rad * rad)) < eps.
Proof.
  intros rad eps Hrad He. pose proof PI_RGT_0 as Hpi.
  set (K := PI * PI * PI * (rad * rad * rad)).
  assert (HK : 0 <= K) by (unfold K; apply Rmult_le_pos; [nra|apply Rmult_le_pos; [nra|exact Hrad]]).
  destruct (inv_sq_small (eps / (2 * (K + 1))) ltac:(apply Rdiv_lt_0_compat; lra)) as (n0 & H2 & Hn0).
  exists n0. intros r c Hr Hc.
  destruct (sphere_volume_error_bound r c rad ltac:(lia) ltac:(lia) Hrad) as [E0 E1]. fold K in E1.
  rewrite Rabs_minus_sym, Rabs_right by lra.
  pose proof (Hn0 r Hr) as Ir. pose proof (Hn0 c Hc) as Ic.
  assert (Pr : 0 < / (NR r * NR r)) by (apply Rinv_0_lt_compat; pose proof (NR_ge2 r ltac:(lia)); nra).
  assert (Pc : 0 < / (NR c * NR c)) by (apply Rinv_0_lt_compat; pose proof (NR_ge2 c ltac:(lia)); nra).
  apply Rle_lt_trans with (1 := E1).
  replace (8 / (9 * (NR c * NR c))) with (8 / 9 * / (NR c * NR c)) by (field; pose proof (NR_ge2 c ltac:(lia)); nra).
  replace (1 / (3 * (NR r * NR r))) with (1 / 3 * / (NR r * NR r)) by (field; pose proof (NR_ge2 r ltac:(lia)); nra).
  set (e := eps / (2 * (K + 1))) in *. assert (He' : 0 < e) by (apply Rdiv_lt_0_compat; lra).
  apply Rle_lt_trans with (K * (2 * e)); [apply Rmult_le_compat_l; [exact HK|lra]|].
  replace eps with (e * (2 * (K + 1))) by (unfold e; field; lra). nra.
Qed.

(* ---------- hemisphere: closed form, error bound, convergence ---------- *)
Lemma alpha_succ : forall r j, (1 <= r)%N -> alpha r j = alpha r (j + 1) + PI / (2 * NR r).
Proof. intros r j Hr. pose proof (NR_pos r Hr). unfold alpha. rewrite NR_succ. field. lra. Qed.
Lemma alpha_0 : forall r, alpha r 0 = PI / 2.
Proof. intros. unfold alpha. change (NR 0) with 0. unfold Rdiv. ring. Qed.
Lemma alpha_last : forall r, (2 <= r)%N -> alpha r (r - 2) = 2 * (PI / (2 * NR r)).
Proof.
  intros r H. pose proof (NR_pos r ltac:(lia)).
  assert (E : NR (r - 2) = NR r - 2) by (unfold NR; rewrite N2Z.inj_sub by lia; rewrite minus_IZR; reflexivity).
  unfold alpha. rewrite E. field. lra.
Qed.

(* enclosed volume of Hemisphere{rad}.UV(r, c) with h = pi / (2 r): c sin (2 pi/c) (sin^2 2h + (1 + cos h) cos 2h) / 6 * rad^3 *)
Theorem hemi_volume_closed : forall r c rad, (2 <= r)%N -> (1 <= c)%N ->
  let h := PI / (2 * NR r) in
  rvol6 (hemi_trisR r c rad) / 6 =
    NR c * sin (2 * PI / NR c) * (sin (2 * h) * sin (2 * h) + (1 + cos h) * cos (2 * h)) / 6 * (rad * rad * rad).
Proof.
  intros r c rad Hr Hc h. assert (Hr1 : (1 <= r)%N) by lia. rewrite hemi_volume_is_sum by assumption. fold h.
  rewrite <- rsum_scal.
  rewrite (rsum_ext_in _ (fun j => (1 + cos h) * cos (alpha r (j + 1)) - (1 + cos h) * cos (alpha r j))).
  2:{ intros j _. rewrite (alpha_succ r j Hr1). fold h. rewrite (Rplus_comm (sin (alpha r (j + 1) + h))), step_sum. ring. }
  rewrite (rsum_telescope_up (fun j => (1 + cos h) * cos (alpha r j))).
  rewrite alpha_0, cos_PI2, alpha_last by exact Hr. fold h. field.
Qed.

Lemma hemi_factor : forall r, (2 <= r)%N -> let h := PI / (2 * NR r) in
  2 - 9 * (PI * PI) / (8 * (NR r * NR r)) <= sin (2 * h) * sin (2 * h) + (1 + cos h) * cos (2 * h) <= 2.
Proof.
  intros r Hr h. pose proof PI_RGT_0 as Hpi. assert (R2 : 2 <= NR r) by (apply (NR_ge 2 r Hr)).
  assert (H0 : 0 < h) by (apply Rdiv_lt_0_compat; lra).
  assert (H1 : 2 * h <= PI / 2).
  { unfold h. apply (Rmult_le_reg_r (2 * NR r)); [lra|]. unfold Rdiv at 1. rewrite Rmult_assoc, (Rmult_assoc PI), Rinv_l by lra. nra. }
  pose proof (cos_quad_lb h ltac:(lra)) as L1. pose proof (cos_quad_lb (2 * h) ltac:(lra)) as L2.
  pose proof (COS_bound h) as [_ U1]. pose proof (COS_bound (2 * h)) as [_ U2].
  assert (G2 : 0 <= cos (2 * h)) by (apply cos_ge_0; lra).
  assert (E : sin (2 * h) * sin (2 * h) = 1 - cos (2 * h) * cos (2 * h)) by (pose proof (sin2_cos2 (2 * h)) as Q; unfold Rsqr in Q; lra).
  rewrite E.
  replace (9 * (PI * PI) / (8 * (NR r * NR r))) with (9 / 2 * (h * h)) by (unfold h; field; lra).
  set (x := cos h) in *. set (y := cos (2 * h)) in *. split; nra.
Qed.

Theorem hemi_volume_error_bound : forall r c rad, (2 <= r)%N -> (2 <= c)%N -> 0 <= rad ->
  0 <= 2 / 3 * PI * (rad * rad * rad) - rvol6 (hemi_trisR r c rad) / 6
    <= PI * PI * PI * (rad * rad * rad) * (4 / (9 * (NR c * NR c)) + 3 / (8 * (NR r * NR r))).
Proof.
  intros r c rad Hr Hc Hrad. rewrite hemi_volume_closed by (try assumption; lia). cbv zeta.
  assert (C2 : 2 <= NR c) by (apply (NR_ge 2 c Hc)). assert (R2 : 2 <= NR r) by (apply (NR_ge 2 r Hr)).
  pose proof (nsin_lt (NR c) ltac:(lra)) as A1. pose proof (nsin_lb (NR c) C2) as A2. pose proof (nsin_nonneg (NR c) C2) as A0.
  destruct (hemi_factor r Hr) as [B1 B2]. cbv zeta in B1, B2. unfold nsin in *. pose proof PI_RGT_0 as Hpi.
  set (h := PI / (2 * NR r)) in *.
  set (A := NR c * sin (2 * PI / NR c)) in *. set (B := sin (2 * h) * sin (2 * h) + (1 + cos h) * cos (2 * h)) in *.
  set (a := 4 * (PI * PI * PI) / (3 * (NR c * NR c))) in *. set (b := 9 * (PI * PI) / (8 * (NR r * NR r))) in *.
  assert (Ha : 0 <= a) by (unfold a; apply Rmult_le_pos; [nra|left; apply Rinv_0_lt_compat; nra]).
  assert (Hb : 0 <= b) by (unfold b; apply Rmult_le_pos; [nra|left; apply Rinv_0_lt_compat; nra]).
  assert (Q : 0 <= rad * rad * rad) by (apply Rmult_le_pos; [nra|exact Hrad]).
  replace (2 / 3 * PI * (rad * rad * rad) - A * B / 6 * (rad * rad * rad)) with ((rad * rad * rad) / 6 * (4 * PI - A * B)) by field.
  replace (PI * PI * PI * (rad * rad * rad) * (4 / (9 * (NR c * NR c)) + 3 / (8 * (NR r * NR r))))
    with ((rad * rad * rad) / 6 * (2 * a + 2 * PI * b)) by (unfold a, b; field; lra).
  assert (K : 0 <= 4 * PI - A * B <= 2 * a + 2 * PI * b) by (split; nra).
  split; [apply Rmult_le_pos; lra|apply Rmult_le_compat_l; lra].
Qed.

Theorem hemi_volume_converges : forall rad eps, 0 <= rad -> 0 < eps ->
  exists n0 : N, forall r c, (n0 <= r)%N -> (n0 <= c)%N ->
    Rabs (rvol6 (hemi_trisR r c rad) / 6 - 2 / 3 * PI * (rad * rad * rad)) < eps.
Proof.
  intros rad eps Hrad He. pose proof PI_RGT_0 as Hpi.
  set (K := PI * PI * PI * (rad * rad * rad)).
  assert (HK : 0 <= K) by (unfold K; apply Rmult_le_pos; [nra|apply Rmult_le_pos; [nra|exact Hrad]]).
  destruct (inv_sq_small (eps / (2 * (K + 1))) ltac:(apply Rdiv_lt_0_compat; lra)) as (n0 & H2 & Hn0).
  exists n0. intros r c Hr Hc.
  destruct (hemi_volume_error_bound r c rad ltac:(lia) ltac:(lia) Hrad) as [E0 E1]. fold K in E1.
  rewrite Rabs_minus_sym, Rabs_right by lra.
  pose proof (Hn0 r Hr) as Ir. pose proof (Hn0 c Hc) as Ic.
  assert (Pr : 0 < / (NR r * NR r)) by (apply Rinv_0_lt_compat; pose proof (NR_ge2 r ltac:(lia)); nra).
  assert (Pc : 0 < / (NR c * NR c)) by (apply Rinv_0_lt_compat; pose proof (NR_ge2 c ltac:(lia)); nra).
  apply Rle_lt_trans with (1 := E1).
  replace (4 / (9 * (NR c * NR c))) with (4 / 9 * / (NR c * NR c)) by (field; pose proof (NR_ge2 c ltac:(lia)); nra).
  replace (3 / (8 * (NR r * NR r))) with (3 / 8 * / (NR r * NR r)) by (field; pose proof (NR_ge2 r ltac:(lia)); nra).
  set (e := eps / (2 * (K + 1))) in *. assert (He' : 0 < e) by (apply Rdiv_lt_0_compat; lra).
  apply Rle_lt_trans with (K * (2 * e)); [apply Rmult_le_compat_l; [exact HK|lra]|].
  replace eps with (e * (2 * (K + 1))) by (unfold e; field; lra). nra.
Qed.

(* ---------- instances ---------- *)
Lemma bipyramid_volume : rvol6 (sph_trisR 2 3 1) / 6 = sin (2 * PI / 3).
Proof.
  rewrite sphere_volume_closed by lia. change (NR 3) with 3. change (NR 2) with 2. rewrite cos_PI2. field.
Qed.
Lemma tetra_hemi_volume : rvol6 (hemi_trisR 2 3 1) / 6 = sin (2 * PI / 3) / 2.
Proof.
  rewrite hemi_volume_closed by lia. cbv zeta. change (NR 3) with 3. change (NR 2) with 2.
  replace (2 * (PI / (2 * 2))) with (PI / 2) by field. rewrite sin_PI2, cos_PI2. field.
Qed.
