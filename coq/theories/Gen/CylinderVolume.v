(* C18 — the capped cylinder over the reals, for the WHOLE index list of the generator:
   positions as a real-valued function of the vertex number (copied from Cylinder.ToMesh / Circle.ToMesh / the
   half turn + translations of the caps), then
     cyl_volume            : divergence sum / 6 = n * (rad^2 * sin(2*pi/n) / 2) * h   (the inscribed n-gon prism)
     cyl_all_faces_outward : every triangle of the list faces away from the centre
     cyl_volume_pos, cyl_volume_below_analytic, cyl_volume_converges (-> pi * rad^2 * h as n -> infinity). *)
From PF Require Import Gen.Closed Gen.ClosedProofs Gen.FamilyProofs Gen.Cylinder Gen.CylinderProofs
  Gen.CubeProofs Gen.CylinderGeom.
From Coq Require Import Reals Lra Psatz Lia ZifyN ZifyNat ZifyBool List.
Import ListNotations.
Ltac Zify.zify_post_hook ::= Z.div_mod_to_equations.

(* ---- the shape of the index list, for any vertex attribute f ---- *)
Open Scope N_scope.
Lemma cyl_idx_struct : forall {V} (f : N -> V) n, 1 <= n ->
  tris_of (map f (cyl_idx n)) =
    flat_map (fun k => [(f (2 * k + 1), f (2 * k), f (2 * (k + 1)));
                        (f (2 * k + 1), f (2 * (k + 1)), f (2 * (k + 1) + 1))]) (nseq n)
    ++ map (fun k => (f (k + strip_nverts n), f (n + strip_nverts n), f (sn n k + strip_nverts n))) (nseq n)
    ++ map (fun k => (f (k + (strip_nverts n + circle_nverts n)), f (n + (strip_nverts n + circle_nverts n)),
                      f (sn n k + (strip_nverts n + circle_nverts n)))) (nseq n).
Proof.
  intros V f n Hn. unfold cyl_idx, append_idx, strip_idx. rewrite (circle_idx_eq n Hn).
  rewrite !map_app, !map_map, !map_flat_map, <- !app_assoc.
  rewrite (tris_of_flat_map_k 2) by (intros; reflexivity).
  rewrite (tris_of_flat_map_k 1) by (intros; reflexivity).
  rewrite (tris_of_flat_map_k0 1) by (intros; reflexivity).
  apply (f_equal2 (@app _)); [|apply (f_equal2 (@app _))].
  - apply flat_map_ext_in. intros k Hk. cbv beta zeta. cbn [map tris_of].
    replace ((k + 1 - 1) * 2) with (2 * k) by lia. replace ((k + 1) * 2) with (2 * (k + 1)) by lia. reflexivity.
  - rewrite <- flat_map_single. apply flat_map_ext_in. intros k Hk. reflexivity.
  - rewrite <- flat_map_single. apply flat_map_ext_in. intros k Hk. reflexivity.
Qed.
Close Scope N_scope.

Open Scope R_scope.
Definition NR (k : N) : R := IZR (Z.of_N k).
Lemma NR_succ : forall k, NR (k + 1) = NR k + 1.
Proof. intros. unfold NR. rewrite N2Z.inj_add, plus_IZR. reflexivity. Qed.
Lemma NR_pos : forall n, (1 <= n)%N -> 0 < NR n.
Proof. intros n H. unfold NR. apply IZR_lt. lia. Qed.

(* angle of column k: angleIncrement * float64(sideIndex), angleIncrement = (1.0 / Sides) * 2.0 * Pi *)
Definition ang (n k : N) : R := 1 / NR n * 2 * PI * NR k.

(* ---- positions of the appended mesh: strip (2n+2), top circle (n+1) lifted by h/2, bottom circle (n+1) turned by pi
        about the x axis ((x, y, z) -> (x, -y, -z)) and lowered by h/2 ---- *)
Definition cyl_posR (n : N) (rad h : R) (v : N) : rvec :=
  let t := strip_nverts n in
  let b := (t + circle_nverts n)%N in
  if (v <? t)%N then
    (cos (ang n (v / 2)) * rad, (if (v mod 2 =? 0)%N then h / 2 else - (h / 2)), sin (ang n (v / 2)) * rad)
  else if (v <? t + n)%N then (cos (ang n (v - t)) * rad, h / 2, sin (ang n (v - t)) * rad)
  else if (v <? b)%N then (0, h / 2, 0)
  else if (v <? b + n)%N then (cos (ang n (v - b)) * rad, - (h / 2), - (sin (ang n (v - b)) * rad))
  else (0, - (h / 2), 0).

Lemma pos_top : forall n rad h k, (k <= n)%N ->
  cyl_posR n rad h (2 * k) = (cos (ang n k) * rad, h / 2, sin (ang n k) * rad).
Proof.
  intros n rad h k Hk. unfold cyl_posR, strip_nverts. destruct (N.ltb_spec (2 * k) (2 * n + 2)); [|lia].
  replace (2 * k / 2)%N with k by lia. replace ((2 * k) mod 2)%N with 0%N by lia. reflexivity.
Qed.
Lemma pos_bot : forall n rad h k, (k <= n)%N ->
  cyl_posR n rad h (2 * k + 1) = (cos (ang n k) * rad, - (h / 2), sin (ang n k) * rad).
Proof.
  intros n rad h k Hk. unfold cyl_posR, strip_nverts. destruct (N.ltb_spec (2 * k + 1) (2 * n + 2)); [|lia].
  replace ((2 * k + 1) / 2)%N with k by lia. replace ((2 * k + 1) mod 2)%N with 1%N by lia. reflexivity.
Qed.
Lemma pos_trim : forall n rad h k, (k < n)%N ->
  cyl_posR n rad h (k + strip_nverts n) = (cos (ang n k) * rad, h / 2, sin (ang n k) * rad).
Proof.
  intros n rad h k Hk. unfold cyl_posR, strip_nverts.
  destruct (N.ltb_spec (k + (2 * n + 2)) (2 * n + 2)); [lia|].
  destruct (N.ltb_spec (k + (2 * n + 2)) (2 * n + 2 + n)); [|lia].
  replace (k + (2 * n + 2) - (2 * n + 2))%N with k by lia. reflexivity.
Qed.
Lemma pos_tc : forall n rad h, cyl_posR n rad h (n + strip_nverts n) = (0, h / 2, 0).
Proof.
  intros n rad h. unfold cyl_posR, strip_nverts, circle_nverts.
  destruct (N.ltb_spec (n + (2 * n + 2)) (2 * n + 2)); [lia|].
  destruct (N.ltb_spec (n + (2 * n + 2)) (2 * n + 2 + n)); [lia|].
  destruct (N.ltb_spec (n + (2 * n + 2)) (2 * n + 2 + (n + 1))); [reflexivity|lia].
Qed.
Lemma pos_brim : forall n rad h k, (k < n)%N ->
  cyl_posR n rad h (k + (strip_nverts n + circle_nverts n)) = (cos (ang n k) * rad, - (h / 2), - (sin (ang n k) * rad)).
Proof.
  intros n rad h k Hk. unfold cyl_posR, strip_nverts, circle_nverts.
  destruct (N.ltb_spec (k + (2 * n + 2 + (n + 1))) (2 * n + 2)); [lia|].
  destruct (N.ltb_spec (k + (2 * n + 2 + (n + 1))) (2 * n + 2 + n)); [lia|].
  destruct (N.ltb_spec (k + (2 * n + 2 + (n + 1))) (2 * n + 2 + (n + 1))); [lia|].
  destruct (N.ltb_spec (k + (2 * n + 2 + (n + 1))) (2 * n + 2 + (n + 1) + n)); [|lia].
  replace (k + (2 * n + 2 + (n + 1)) - (2 * n + 2 + (n + 1)))%N with k by lia. reflexivity.
Qed.
Lemma pos_bc : forall n rad h, cyl_posR n rad h (n + (strip_nverts n + circle_nverts n)) = (0, - (h / 2), 0).
Proof.
  intros n rad h. unfold cyl_posR, strip_nverts, circle_nverts.
  destruct (N.ltb_spec (n + (2 * n + 2 + (n + 1))) (2 * n + 2)); [lia|].
  destruct (N.ltb_spec (n + (2 * n + 2 + (n + 1))) (2 * n + 2 + n)); [lia|].
  destruct (N.ltb_spec (n + (2 * n + 2 + (n + 1))) (2 * n + 2 + (n + 1))); [lia|].
  destruct (N.ltb_spec (n + (2 * n + 2 + (n + 1))) (2 * n + 2 + (n + 1) + n)); [lia|reflexivity].
Qed.

(* ---- consecutive columns turn by 2*pi/n, across the seam as well ---- *)
Lemma ang_step : forall n k, (1 <= n)%N -> ang n (k + 1) - ang n k = 2 * PI / NR n.
Proof. intros n k Hn. pose proof (NR_pos n Hn). unfold ang. rewrite NR_succ. field. lra. Qed.
Lemma ang_0 : forall n, ang n 0 = 0.
Proof. intros. unfold ang, NR. simpl. ring. Qed.
Lemma ang_full : forall n, (1 <= n)%N -> ang n n = 2 * PI.
Proof. intros n Hn. pose proof (NR_pos n Hn). unfold ang. field. lra. Qed.

Lemma turn_next : forall n k, (1 <= n)%N ->
  cos (ang n k) * sin (ang n (k + 1)) - sin (ang n k) * cos (ang n (k + 1)) = sin (2 * PI / NR n).
Proof.
  intros n k Hn. rewrite <- (ang_step n k Hn), sin_minus. ring.
Qed.
Lemma turn_wrap : forall n k, (1 <= n)%N -> (k < n)%N ->
  cos (ang n k) * sin (ang n (sn n k)) - sin (ang n k) * cos (ang n (sn n k)) = sin (2 * PI / NR n).
Proof.
  intros n k Hn Hk. destruct (sn_spec n k Hk) as [[E _]|[E E']].
  - rewrite E. apply turn_next, Hn.
  - rewrite E, ang_0, sin_0, cos_0.
    assert (A : ang n k = - (2 * PI / NR n) + 2 * INR 1 * PI).
    { pose proof (ang_step n k Hn) as S. rewrite E', (ang_full n Hn) in S. simpl. lra. }
    rewrite A, sin_period, sin_neg. ring.
Qed.

(* ---- sums ---- *)
Definition rsum (f : N -> R) (l : list N) : R := fold_right (fun k acc => f k + acc) 0 l.
Lemma rsum_const : forall (f : N -> R) (c : R) (l : list N),
  (forall k, In k l -> f k = c) -> rsum f l = INR (length l) * c.
Proof.
  induction l as [|a l IH]; intros H; [simpl; ring|].
  cbn [rsum fold_right]. fold (rsum f l). rewrite IH by (intros; apply H; now right).
  rewrite (H a (or_introl eq_refl)). change (length (a :: l)) with (S (length l)). rewrite S_INR. ring.
Qed.
Lemma INR_NR : forall n, INR (N.to_nat n) = NR n.
Proof. intros. unfold NR. rewrite INR_IZR_INZ. f_equal. lia. Qed.
Lemma rvol6_app : forall a b, rvol6 (a ++ b) = rvol6 a + rvol6 b.
Proof.
  unfold rvol6. induction a as [|[[x y] z] a IH]; intros b; cbn [app fold_right]; [ring|]. rewrite IH. ring.
Qed.
Lemma rvol6_flat_map : forall (g : N -> list (rvec * rvec * rvec)) l, rvol6 (flat_map g l) = rsum (fun k => rvol6 (g k)) l.
Proof. induction l as [|a l IH]; cbn [flat_map rsum fold_right]; [reflexivity|]. rewrite rvol6_app, IH. reflexivity. Qed.
Lemma rvol6_map : forall (g : N -> rvec * rvec * rvec) l, rvol6 (map g l) = rsum (fun k => rvol6 [g k]) l.
Proof. intros. rewrite <- flat_map_single. apply rvol6_flat_map. Qed.

(* ---- one column, abstract directions ---- *)
Lemma strip_det : forall rad h c0 s0 c1 s1 : R,
  rvol6 [((c0 * rad, - (h / 2), s0 * rad), (c0 * rad, h / 2, s0 * rad), (c1 * rad, h / 2, s1 * rad));
         ((c0 * rad, - (h / 2), s0 * rad), (c1 * rad, h / 2, s1 * rad), (c1 * rad, - (h / 2), s1 * rad))]
  = 2 * h * rad * rad * (c0 * s1 - s0 * c1).
Proof. intros. unfold rvol6. cbn [fold_right]. unfold rdet3, rdot, rcross. field. Qed.
Lemma topcap_det : forall rad h c0 s0 c1 s1 : R,
  rvol6 [((c0 * rad, h / 2, s0 * rad), (0, h / 2, 0), (c1 * rad, h / 2, s1 * rad))] = h / 2 * rad * rad * (c0 * s1 - s0 * c1).
Proof. intros. unfold rvol6. cbn [fold_right]. unfold rdet3, rdot, rcross. field. Qed.
Lemma botcap_det : forall rad h c0 s0 c1 s1 : R,
  rvol6 [((c0 * rad, - (h / 2), - (s0 * rad)), (0, - (h / 2), 0), (c1 * rad, - (h / 2), - (s1 * rad)))]
  = h / 2 * rad * rad * (c0 * s1 - s0 * c1).
Proof. intros. unfold rvol6. cbn [fold_right]. unfold rdet3, rdot, rcross. field. Qed.

(* the triangles of the whole mesh, as positions *)
Definition cyl_trisR (n : N) (rad h : R) : list (rvec * rvec * rvec) := tris_of (map (cyl_posR n rad h) (cyl_idx n)).

(* ---- total volume: the inscribed prism ---- *)
Theorem cyl_volume : forall n rad h, (1 <= n)%N ->
  rvol6 (cyl_trisR n rad h) / 6 = NR n * (rad * rad * sin (2 * PI / NR n) / 2) * h.
Proof.
  intros n rad h Hn. unfold cyl_trisR. rewrite (cyl_idx_struct _ n Hn).
  rewrite !rvol6_app, rvol6_flat_map, !rvol6_map.
  rewrite (rsum_const _ (2 * h * rad * rad * sin (2 * PI / NR n))).
  2:{ intros k Hk. apply nseq_in in Hk. rewrite !pos_bot, !pos_top by lia. rewrite strip_det, turn_next by exact Hn. reflexivity. }
  rewrite (rsum_const _ (h / 2 * rad * rad * sin (2 * PI / NR n))).
  2:{ intros k Hk. apply nseq_in in Hk. rewrite pos_tc, !pos_trim by (try apply sn_lt; lia).
      rewrite topcap_det, turn_wrap by assumption. reflexivity. }
  rewrite (rsum_const _ (h / 2 * rad * rad * sin (2 * PI / NR n))).
  2:{ intros k Hk. apply nseq_in in Hk. rewrite pos_bc, !pos_brim by (try apply sn_lt; lia).
      rewrite botcap_det, turn_wrap by assumption. reflexivity. }
  rewrite nseq_length, INR_NR. field.
Qed.

(* ---- every face of the whole list points away from the centre ---- *)
Lemma faces_away_det : forall a b c : rvec, rfaces_away rzero (a, b, c) <-> 0 < rvol6 [(a, b, c)].
Proof.
  intros [[a1 a2] a3] [[b1 b2] b3] [[c1 c2] c3]. unfold rfaces_away, rvol6. cbn [fold_right].
  unfold rdet3, rfnormal, rdot, rcross, rsub, rzero.
  match goal with |- 0 < ?x <-> 0 < ?y => replace y with x by ring end. reflexivity.
Qed.

Lemma sin_step_pos : forall n, (3 <= n)%N -> 0 < sin (2 * PI / NR n).
Proof.
  intros n Hn. assert (3 <= NR n) by (unfold NR; apply IZR_le; lia). pose proof PI_RGT_0.
  apply sin_gt_0.
  - apply Rdiv_lt_0_compat; lra.
  - apply (Rmult_lt_reg_r (NR n)); [lra|]. unfold Rdiv. rewrite Rmult_assoc, Rinv_l by lra. nra.
Qed.

Theorem cyl_all_faces_outward : forall n rad h, (3 <= n)%N -> 0 < rad -> 0 < h ->
  Forall (rfaces_away rzero) (cyl_trisR n rad h).
Proof.
  intros n rad h Hn Hr Hh. assert (Hn1 : (1 <= n)%N) by lia. pose proof (sin_step_pos n Hn) as S.
  assert (P : 0 < h * rad * rad * sin (2 * PI / NR n)) by (repeat apply Rmult_lt_0_compat; assumption).
  unfold cyl_trisR. rewrite (cyl_idx_struct _ n Hn1). rewrite !Forall_app, Forall_flat_map, !Forall_map.
  repeat split; apply Forall_forall; intros k Hk; apply nseq_in in Hk.
  - rewrite !pos_bot, !pos_top by lia.
    destruct (column_faces_outward rad h (cos (ang n k)) (sin (ang n k)) (cos (ang n (k + 1))) (sin (ang n (k + 1))) Hr Hh)
      as (F1 & F2 & _); [rewrite turn_next by exact Hn1; exact S|]. repeat constructor; assumption.
  - rewrite pos_tc, !pos_trim by (try apply sn_lt; lia). apply faces_away_det. rewrite topcap_det, turn_wrap by assumption. lra.
  - rewrite pos_bc, !pos_brim by (try apply sn_lt; lia). apply faces_away_det. rewrite botcap_det, turn_wrap by assumption. lra.
Qed.

Theorem cyl_volume_pos : forall n rad h, (3 <= n)%N -> 0 < rad -> 0 < h -> 0 < rvol6 (cyl_trisR n rad h) / 6.
Proof.
  intros n rad h Hn Hr Hh. rewrite cyl_volume by lia. pose proof (sin_step_pos n Hn). pose proof (NR_pos n ltac:(lia)).
  apply Rmult_lt_0_compat; [|exact Hh]. apply Rmult_lt_0_compat; [assumption|].
  apply Rdiv_lt_0_compat; [|lra]. repeat apply Rmult_lt_0_compat; assumption.
Qed.

(* the inscribed prism is smaller than the cylinder: sin x < x *)
Theorem cyl_volume_below_analytic : forall n rad h, (3 <= n)%N -> 0 < rad -> 0 < h ->
  rvol6 (cyl_trisR n rad h) / 6 < PI * rad * rad * h.
Proof.
  intros n rad h Hn Hr Hh. rewrite cyl_volume by lia. pose proof (NR_pos n ltac:(lia)) as Hp. pose proof PI_RGT_0.
  assert (X : 0 < 2 * PI / NR n) by (apply Rdiv_lt_0_compat; lra).
  pose proof (sin_lt_x _ X) as L.
  assert (E : PI * rad * rad * h = NR n * (rad * rad * (2 * PI / NR n) / 2) * h) by (field; lra). rewrite E.
  apply Rmult_lt_compat_r; [exact Hh|]. apply Rmult_lt_compat_l; [exact Hp|].
  apply Rmult_lt_compat_r; [lra|]. apply Rmult_lt_compat_l; [apply Rmult_lt_0_compat; assumption|exact L].
Qed.

(* ---- convergence: the prisms' volumes tend to the cylinder's, because sin x / x -> 1 ---- *)
Theorem cyl_volume_converges : forall rad h,
  Un_cv (fun m : nat => rvol6 (cyl_trisR (N.of_nat m) rad h) / 6) (PI * rad * rad * h).
Proof.
  intros rad h eps Heps. set (K := PI * rad * rad * h).
  assert (HK : 0 < Rabs K + 1) by (pose proof (Rabs_pos K); lra).
  destruct (derivable_pt_lim_sin_0 (eps / (Rabs K + 1))) as [delta Hd]; [apply Rdiv_lt_0_compat; lra|].
  pose proof PI_RGT_0 as Hpi. pose proof (cond_pos delta) as Hdelta.
  destruct (archimed_cor1 (delta / (2 * PI))) as (M & HM & HM0); [apply Rdiv_lt_0_compat; lra|].
  exists M. intros m Hm. unfold R_dist.
  assert (Hn : (1 <= N.of_nat m)%N) by lia.
  rewrite cyl_volume by exact Hn.
  assert (E : NR (N.of_nat m) = INR m) by (rewrite <- INR_NR; f_equal; lia). rewrite E.
  assert (Im : 0 < INR m) by (apply lt_0_INR; lia).
  assert (IM : 0 < INR M) by (apply lt_0_INR; lia).
  set (x := 2 * PI / INR m).
  assert (Hx : 0 < x) by (apply Rdiv_lt_0_compat; lra).
  assert (Hxd : x < delta).
  { assert (A : 2 * PI * / INR M < delta).
    { apply (Rmult_lt_compat_l (2 * PI)) in HM; [|lra].
      replace (2 * PI * (delta / (2 * PI))) with (pos delta) in HM by (field; lra). exact HM. }
    assert (B : / INR m <= / INR M) by (apply Rinv_le_contravar; [exact IM|apply le_INR; lia]).
    apply (Rmult_le_compat_l (2 * PI)) in B; [|lra]. unfold x, Rdiv. lra. }
  assert (Hd' := Hd x ltac:(lra)). rewrite Rabs_right in Hd' by lra. specialize (Hd' Hxd).
  rewrite Rplus_0_l, sin_0, Rminus_0_r in Hd'.
  replace (INR m * (rad * rad * sin x / 2) * h - K) with (K * (sin x / x - 1)) by (unfold K, x; field; lra).
  rewrite Rabs_mult.
  apply Rle_lt_trans with (Rabs K * (eps / (Rabs K + 1))).
  - apply Rmult_le_compat_l; [apply Rabs_pos|lra].
  - set (y := eps / (Rabs K + 1)). assert (Hy : 0 < y) by (apply Rdiv_lt_0_compat; lra).
    replace eps with (y * (Rabs K + 1)) by (unfold y; field; lra). pose proof (Rabs_pos K). nra.
Qed.

(* ---- vertex normals of the whole mesh: strip (cos, +-0.1, sin) (normalising is a positive scaling), top circle (0, 1, 0),
        bottom circle (0, 1, 0) turned by pi about the x axis = (0, -1, 0) ---- *)
Definition cyl_nrmR (n : N) (v : N) : rvec :=
  let t := strip_nverts n in
  let b := (t + circle_nverts n)%N in
  if (v <? t)%N then (cos (ang n (v / 2)), (if (v mod 2 =? 0)%N then 1 / 10 else - (1 / 10)), sin (ang n (v / 2)))
  else if (v <? b)%N then (0, 1, 0)
  else (0, -1, 0).

Lemma nrm_top : forall n k, (k <= n)%N -> cyl_nrmR n (2 * k) = (cos (ang n k), 1 / 10, sin (ang n k)).
Proof.
  intros n k Hk. unfold cyl_nrmR, strip_nverts. destruct (N.ltb_spec (2 * k) (2 * n + 2)); [|lia].
  replace (2 * k / 2)%N with k by lia. replace ((2 * k) mod 2)%N with 0%N by lia. reflexivity.
Qed.
Lemma nrm_bot : forall n k, (k <= n)%N -> cyl_nrmR n (2 * k + 1) = (cos (ang n k), - (1 / 10), sin (ang n k)).
Proof.
  intros n k Hk. unfold cyl_nrmR, strip_nverts. destruct (N.ltb_spec (2 * k + 1) (2 * n + 2)); [|lia].
  replace ((2 * k + 1) / 2)%N with k by lia. replace ((2 * k + 1) mod 2)%N with 1%N by lia. reflexivity.
Qed.
Lemma nrm_tcap : forall n k, (k <= n)%N -> cyl_nrmR n (k + strip_nverts n) = (0, 1, 0).
Proof.
  intros n k Hk. unfold cyl_nrmR, strip_nverts, circle_nverts.
  destruct (N.ltb_spec (k + (2 * n + 2)) (2 * n + 2)); [lia|].
  destruct (N.ltb_spec (k + (2 * n + 2)) (2 * n + 2 + (n + 1))); [reflexivity|lia].
Qed.
Lemma nrm_bcap : forall n k, cyl_nrmR n (k + (strip_nverts n + circle_nverts n)) = (0, -1, 0).
Proof.
  intros n k. unfold cyl_nrmR, strip_nverts, circle_nverts.
  destruct (N.ltb_spec (k + (2 * n + 2 + (n + 1))) (2 * n + 2)); [lia|].
  destruct (N.ltb_spec (k + (2 * n + 2 + (n + 1))) (2 * n + 2 + (n + 1))); [lia|reflexivity].
Qed.

(* a triangle of (position, normal) corners: every corner's normal on the outer side of the triangle *)
Definition pn_outer (t : (rvec * rvec) * (rvec * rvec) * (rvec * rvec)) : Prop :=
  let '((a, na), (b, nb), (c, nc)) := t in
  let n := rfnormal (a, b, c) in 0 < rdot n na /\ 0 < rdot n nb /\ 0 < rdot n nc.

Lemma topcap_nrm : forall rad h c0 s0 c1 s1 : R,
  rdot (rfnormal ((c0 * rad, h / 2, s0 * rad), (0, h / 2, 0), (c1 * rad, h / 2, s1 * rad))) (0, 1, 0)
  = rad * rad * (c0 * s1 - s0 * c1).
Proof. intros. unfold rfnormal, rdot, rcross, rsub. ring. Qed.
Lemma botcap_nrm : forall rad h c0 s0 c1 s1 : R,
  rdot (rfnormal ((c0 * rad, - (h / 2), - (s0 * rad)), (0, - (h / 2), 0), (c1 * rad, - (h / 2), - (s1 * rad)))) (0, -1, 0)
  = rad * rad * (c0 * s1 - s0 * c1).
Proof. intros. unfold rfnormal, rdot, rcross, rsub. ring. Qed.

Theorem cyl_all_normals_outward : forall n rad h, (3 <= n)%N -> 0 < rad -> 0 < h ->
  Forall pn_outer (tris_of (map (fun v => (cyl_posR n rad h v, cyl_nrmR n v)) (cyl_idx n))).
Proof.
  intros n rad h Hn Hr Hh. assert (Hn1 : (1 <= n)%N) by lia. pose proof (sin_step_pos n Hn) as S.
  assert (P : 0 < rad * rad * sin (2 * PI / NR n)) by (repeat apply Rmult_lt_0_compat; assumption).
  rewrite (cyl_idx_struct _ n Hn1). rewrite !Forall_app, Forall_flat_map, !Forall_map.
  repeat split; apply Forall_forall; intros k Hk; apply nseq_in in Hk.
  - rewrite !pos_bot, !pos_top, !nrm_bot, !nrm_top by lia.
    destruct (column_normals_outward rad h (cos (ang n k)) (sin (ang n k)) (cos (ang n (k + 1))) (sin (ang n (k + 1))) Hr Hh)
      as (F1 & F2 & F3 & F4 & F5 & F6 & _); [rewrite turn_next by exact Hn1; exact S|].
    repeat constructor; assumption.
  - pose proof (sn_lt n k Hk). rewrite pos_tc, !pos_trim, !nrm_tcap by lia. unfold pn_outer.
    rewrite topcap_nrm, turn_wrap by assumption. auto.
  - pose proof (sn_lt n k Hk). rewrite pos_bc, !pos_brim, !nrm_bcap by lia. unfold pn_outer.
    rewrite botcap_nrm, turn_wrap by assumption. auto.
Qed.
