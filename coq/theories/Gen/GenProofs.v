(* C18 — concrete instances evaluated by the verified checker (non-vacuity and sanity of the parametric
   theorems of CylinderProofs / SphereProofs / CubeProofs): a few small counts, and the facts that the
   coincidence classes matter (without merging, the cylinder and the unwelded sphere are NOT closed). *)
From PF Require Import Gen.Closed Gen.ClosedProofs Gen.Sphere Gen.Hemisphere Gen.Cylinder Gen.Cube.
Open Scope N_scope.

Definition small_counts : list (N * N) := [(2, 3); (2, 4); (3, 3); (3, 4); (4, 5); (5, 8); (7, 6)].

Lemma small_instances_closed :
  forallb (fun '(r, c) => closed_idxb sphere_cls (sphere_idx r c) && closed_idxb (sphereU_cls r c) (sphereU_idx r c)
                          && closed_idxb hemi_cls (hemi_idx r c) && closed_idxb (cyl_cls c) (cyl_idx c)) small_counts = true.
Proof. vm_compute. reflexivity. Qed.

(* the smallest sphere the constructor accepts: 2 rows, 3 columns = a triangular bipyramid, 6 faces, 9 edges *)
Example sphere_2_3 : tris_of (sphere_idx 2 3) = [(0, 2, 1); (4, 1, 2); (0, 3, 2); (4, 2, 3); (0, 1, 3); (4, 3, 1)].
Proof. vm_compute. reflexivity. Qed.

(* without merging coincident positions the cylinder and the unwelded sphere are open *)
Lemma cyl_unmerged_open : closed_idxb (fun v => v) (cyl_idx 5) = false.
Proof. vm_compute. reflexivity. Qed.
Lemma sphereU_unmerged_open : closed_idxb (fun v => v) (sphereU_idx 3 4) = false.
Proof. vm_compute. reflexivity. Qed.
(* two columns / one row are rejected by the constructors and indeed would not be closed surfaces *)
Lemma sphere_2cols_not_closed : closed_idxb sphere_cls (sphere_idx 3 2) = false.
Proof. vm_compute. reflexivity. Qed.
Lemma cyl_2sides_not_closed : closed_idxb (cyl_cls 2) (cyl_idx 2) = false.
Proof. vm_compute. reflexivity. Qed.

(* round 4: the hypotheses of the parametric theorems are needed — the constructor Cylinder.ToMesh accepts Sides = 2 (it does not
   validate), and the result is NOT a closed surface: "admissible" for a cylinder has to mean sides >= 3 *)
Theorem cyl_closed_below_3_refuted : exists n, 1 <= n /\ ~ closed_idx (cyl_cls n) (cyl_idx n).
Proof. exists 2. split; [discriminate|]. intro H. apply closed_idxb_iff in H. vm_compute in H. discriminate. Qed.
(* likewise two columns (which UVSphere / Hemisphere.UV reject) *)
Theorem sphere_closed_below_3_refuted : exists r c, 2 <= r /\ 1 <= c /\ ~ closed_idx sphere_cls (sphere_idx r c).
Proof. exists 3, 2. split; [discriminate|]. split; [discriminate|]. intro H. apply closed_idxb_iff in H. vm_compute in H. discriminate. Qed.
