(* C18 — proofs about the index models, part 1: all small counts by the verified checker. *)
From PF Require Import Gen.Closed Gen.ClosedProofs Gen.Sphere Gen.Hemisphere Gen.Cylinder Gen.Cube.
From Coq Require Import Lia ZifyN ZifyNat ZifyBool.
Open Scope N_scope.

Definition range (lo hi : N) : list N := map (fun k => k + lo) (nseq (hi + 1 - lo)).

Lemma nseq_in : forall n x, In x (nseq n) <-> x < n.
Proof.
  intros n x. unfold nseq. rewrite in_map_iff. split.
  - intros (k & <- & Hk). apply in_seq in Hk. lia.
  - intros H. exists (N.to_nat x). split; [lia|]. apply in_seq. lia.
Qed.

Lemma range_in : forall lo hi x, lo <= x <= hi -> In x (range lo hi).
Proof.
  intros lo hi x H. unfold range. apply in_map_iff. exists (x - lo). split; [lia|]. apply nseq_in. lia.
Qed.

Lemma forallb_range : forall P lo hi, forallb P (range lo hi) = true -> forall x, lo <= x <= hi -> P x = true.
Proof. intros P lo hi H x Hx. rewrite forallb_forall in H. apply H, range_in, Hx. Qed.

Lemma forallb_range2 : forall (P : N -> N -> bool) r0 r1 c0 c1,
  forallb (fun r => forallb (P r) (range c0 c1)) (range r0 r1) = true ->
  forall r c, r0 <= r <= r1 -> c0 <= c <= c1 -> P r c = true.
Proof.
  intros P r0 r1 c0 c1 H r c Hr Hc.
  apply (forallb_range (P r) c0 c1); [|exact Hc].
  exact (forallb_range (fun r => forallb (P r) (range c0 c1)) r0 r1 H r Hr).
Qed.

(* ---- every small count: rows <= 24, columns <= 24, sides <= 64 (bounds in the statements) ---- *)
Lemma sphere_closed_small : forall r c, 2 <= r <= 24 -> 3 <= c <= 24 -> closed_idx sphere_cls (sphere_idx r c).
Proof.
  intros r c Hr Hc. apply closed_idxb_iff.
  apply (forallb_range2 (fun r c => closed_idxb sphere_cls (sphere_idx r c)) 2 24 3 24); [|exact Hr|exact Hc].
  vm_compute. reflexivity.
Qed.

Lemma sphereU_closed_small : forall r c, 2 <= r <= 24 -> 3 <= c <= 24 -> closed_idx (sphereU_cls r c) (sphereU_idx r c).
Proof.
  intros r c Hr Hc. apply closed_idxb_iff.
  apply (forallb_range2 (fun r c => closed_idxb (sphereU_cls r c) (sphereU_idx r c)) 2 24 3 24); [|exact Hr|exact Hc].
  vm_compute. reflexivity.
Qed.

Lemma hemi_closed_small : forall r c, 2 <= r <= 24 -> 3 <= c <= 24 -> closed_idx hemi_cls (hemi_idx r c).
Proof.
  intros r c Hr Hc. apply closed_idxb_iff.
  apply (forallb_range2 (fun r c => closed_idxb hemi_cls (hemi_idx r c)) 2 24 3 24); [|exact Hr|exact Hc].
  vm_compute. reflexivity.
Qed.

Lemma cyl_closed_small : forall n, 3 <= n <= 64 -> closed_idx (cyl_cls n) (cyl_idx n).
Proof.
  intros n Hn. apply closed_idxb_iff.
  apply (forallb_range (fun n => closed_idxb (cyl_cls n) (cyl_idx n)) 3 64); [|exact Hn].
  vm_compute. reflexivity.
Qed.

Lemma cubeW_closed : closed_idx cubeW_cls cubeW_idx.
Proof. apply closed_idxb_iff. vm_compute. reflexivity. Qed.

Lemma cubeQ_closed : closed_idx cubeQ_cls cubeQ_idx.
Proof. apply closed_idxb_iff. vm_compute. reflexivity. Qed.

(* without merging, the cylinder and the six-quad box are NOT closed: the classes matter *)
Lemma cyl_unmerged_open : closed_idxb (fun v => v) (cyl_idx 5) = false.
Proof. vm_compute. reflexivity. Qed.
Lemma cubeQ_unmerged_open : closed_idxb (fun v => v) cubeQ_idx = false.
Proof. vm_compute. reflexivity. Qed.
