(* C18 — the hemisphere over the reals, for the WHOLE index list of Hemisphere.UV (hemisphere.go:27-50):
   vertex 0 = centre of the base disc (the origin), ring i (i = 0 … rows-2) at polar angle pi/2 - pi*i/(2*rows)
   (ring 0 = the equator), last vertex = apex (0, rad, 0).
     hemi_volume_is_sum        : divergence sum = closed finite sum over the rings (the base fan contributes 0)
     hemi_dome_faces_outward   : every dome / apex triangle faces away from the sphere centre
     hemi_base_faces_down      : every base triangle faces away from every axis point above the base
     hemi_volume_pos. *)
From PF Require Import Gen.Closed Gen.ClosedProofs Gen.FamilyProofs Gen.Sphere Gen.Hemisphere Gen.SphereProofs
  Gen.CubeProofs Gen.CylinderGeom Gen.SphereGeom Gen.CylinderVolume Gen.SphereVolume.
From Coq Require Import Reals Lra Psatz Lia ZifyN ZifyNat ZifyBool List.
Import ListNotations.
Ltac Zify.zify_post_hook ::= Z.div_mod_to_equations.
Open Scope R_scope.

(* phi := (-math.Pi * float64(i)) / float64(rows); ugh := (phi / 2) + (math.Pi / 2); theta := 2.0 * math.Pi * (float64(j) / float64(columns)) *)
Definition alpha (r i : N) : R := - PI * NR i / NR r / 2 + PI / 2.
Definition htheta (c j : N) : R := 2 * PI * (NR j / NR c).

Definition hemi_posR (r c : N) (rad : R) (v : N) : rvec :=
  if (v =? 0)%N then (0, 0, 0)
  else if (v =? c * (r - 1) + 1)%N then (0, rad, 0)
  else VR rad (alpha r ((v - 1) / c)) (htheta c ((v - 1) mod c)).

Definition Hg (r c : N) (rad : R) (g : gv) : rvec :=
  let '(l, i) := g in
  if (l =? 0)%N then (0, 0, 0) else if (l =? r)%N then (0, rad, 0) else VR rad (alpha r (l - 1)) (htheta c i).

Lemma hpos_enc : forall r c rad l i, (2 <= r)%N -> (1 <= c)%N ->
  ((l = 0 /\ i = 0) \/ (0 < l < r /\ i < c) \/ (l = r /\ i = 0))%N ->
  hemi_posR r c rad (enc c (l, i)) = Hg r c rad (l, i).
Proof.
  intros r c rad l i Hr Hc [[-> ->]|[[Hl Hi]|[-> ->]]].
  - reflexivity.
  - unfold enc, Hg, hemi_posR. destruct (N.eqb_spec l 0); [lia|]. destruct (N.eqb_spec l r); [lia|].
    pose proof (N.le_0_l ((l - 1) * c)) as Z0.
    destruct (N.eqb_spec ((l - 1) * c + 1 + i) 0); [lia|].
    assert (B : ((l - 1 + 1) * c <= (r - 1) * c)%N) by (apply N.mul_le_mono_r; lia).
    destruct (N.eqb_spec ((l - 1) * c + 1 + i) (c * (r - 1) + 1)); [lia|].
    replace ((l - 1) * c + 1 + i - 1)%N with ((l - 1) * c + i)%N by lia.
    replace (((l - 1) * c + i) / c)%N with (l - 1)%N by (apply (N.div_unique _ _ _ i); lia).
    replace (((l - 1) * c + i) mod c)%N with i by (apply (N.mod_unique _ _ (l - 1)); lia).
    reflexivity.
  - unfold enc, Hg, hemi_posR. destruct (N.eqb_spec r 0); [lia|]. rewrite N.eqb_refl.
    pose proof (N.le_0_l ((r - 1) * c)) as Z0.
    destruct (N.eqb_spec ((r - 1) * c + 1 + 0) 0); [lia|].
    destruct (N.eqb_spec ((r - 1) * c + 1 + 0) (c * (r - 1) + 1)); [reflexivity|lia].
Qed.

Lemma Hg_ring : forall r c rad j i, (j + 1 < r)%N -> Hg r c rad ((j + 1)%N, i) = VR rad (alpha r j) (htheta c i).
Proof.
  intros. unfold Hg. destruct (N.eqb_spec (j + 1) 0); [lia|]. destruct (N.eqb_spec (j + 1) r); [lia|].
  replace (j + 1 - 1)%N with j by lia. reflexivity.
Qed.
Lemma Hg_apex : forall r c rad, (1 <= r)%N -> Hg r c rad ((r - 1 + 1)%N, 0%N) = (0, rad, 0).
Proof.
  intros. unfold Hg. destruct (N.eqb_spec (r - 1 + 1) 0); [lia|]. destruct (N.eqb_spec (r - 1 + 1) r); [reflexivity|lia].
Qed.

Definition hemi_trisR (r c : N) (rad : R) : list (rvec * rvec * rvec) := tris_of (map (hemi_posR r c rad) (hemi_idx r c)).

(* every triangle of the sphere family with its last two corners exchanged; ring of level l = l - 1 *)
Definition hemi_triR (r c : N) (rad : R) (p : sp) : rvec * rvec * rvec :=
  match p with
  | TF i => ((0, 0, 0), VR rad (alpha r 0) (htheta c i), VR rad (alpha r 0) (htheta c (sn c i)))
  | BF i => ((0, rad, 0), VR rad (alpha r (r - 2)) (htheta c (sn c i)), VR rad (alpha r (r - 2)) (htheta c i))
  | QA j i => (VR rad (alpha r j) (htheta c i), VR rad (alpha r (j + 1)) (htheta c (sn c i)), VR rad (alpha r j) (htheta c (sn c i)))
  | QB j i => (VR rad (alpha r j) (htheta c i), VR rad (alpha r (j + 1)) (htheta c i), VR rad (alpha r (j + 1)) (htheta c (sn c i)))
  end.

Lemma hemi_trisR_eq : forall r c rad, (2 <= r)%N -> (1 <= c)%N ->
  hemi_trisR r c rad = map (hemi_triR r c rad) (sph_ps r c).
Proof.
  intros r c rad Hr Hc. unfold hemi_trisR. rewrite tris_of_map, (hemi_tris_eq r c Hr), map_map.
  apply map_ext_in. intros p Hp. apply in_sph_ps in Hp. unfold sph_N.
  destruct p as [i|i|j i|j i]; cbn [sp_ok] in Hp; (assert (Hi : (i < c)%N) by lia); pose proof (sn_lt c i Hi) as Hs;
    cbn [sph_T map3 flip hemi_triR]; rewrite !hpos_enc by (try assumption; lia);
    rewrite ?Hg_apex, ?Hg_ring by lia; reflexivity.
Qed.

(* ---- one triangle ---- *)
Lemma base_det : forall a b : rvec, rvol6 [((0, 0, 0), a, b)] = 0.
Proof. intros [[a1 a2] a3] [[b1 b2] b3]. unfold rvol6. cbn [fold_right]. unfold rdet3, rdot, rcross. ring. Qed.
Lemma hqA_det : forall rad spL cpL spU cpU c0 s0 c1 s1 : R,
  rvol6 [((spL * c0 * rad, cpL * rad, spL * s0 * rad), (spU * c1 * rad, cpU * rad, spU * s1 * rad),
          (spL * c1 * rad, cpL * rad, spL * s1 * rad))]
  = rad * rad * rad * spL * (cpU * spL - cpL * spU) * (c0 * s1 - s0 * c1).
Proof. intros. unfold rvol6. cbn [fold_right]. unfold rdet3, rdot, rcross. ring. Qed.
Lemma hqB_det : forall rad spL cpL spU cpU c0 s0 c1 s1 : R,
  rvol6 [((spL * c0 * rad, cpL * rad, spL * s0 * rad), (spU * c0 * rad, cpU * rad, spU * s0 * rad),
          (spU * c1 * rad, cpU * rad, spU * s1 * rad))]
  = rad * rad * rad * spU * (cpU * spL - cpL * spU) * (c0 * s1 - s0 * c1).
Proof. intros. unfold rvol6. cbn [fold_right]. unfold rdet3, rdot, rcross. ring. Qed.

Lemma htheta_ang : forall c i, (1 <= c)%N -> htheta c i = ang c i.
Proof. intros c i Hc. pose proof (NR_pos c Hc). unfold htheta, ang. field. lra. Qed.
Lemma turn_htheta : forall c i, (1 <= c)%N -> (i < c)%N ->
  cos (htheta c i) * sin (htheta c (sn c i)) - sin (htheta c i) * cos (htheta c (sn c i)) = sin (2 * PI / NR c).
Proof. intros c i Hc Hi. rewrite !htheta_ang by exact Hc. apply turn_wrap; assumption. Qed.
(* the next ring is higher by pi / (2 * rows) *)
Lemma turn_alpha : forall r j, (1 <= r)%N ->
  cos (alpha r (j + 1)) * sin (alpha r j) - cos (alpha r j) * sin (alpha r (j + 1)) = sin (PI / (2 * NR r)).
Proof.
  intros r j Hr. pose proof (NR_pos r Hr).
  replace (PI / (2 * NR r)) with (alpha r j - alpha r (j + 1)) by (unfold alpha; rewrite NR_succ; field; lra).
  rewrite sin_minus. ring.
Qed.

Definition hsix (r c : N) (rad : R) (p : sp) : R :=
  let t := sin (2 * PI / NR c) in let d := sin (PI / (2 * NR r)) in
  match p with
  | TF _ => 0
  | BF _ => rad * rad * rad * (sin (alpha r (r - 2)) * sin (alpha r (r - 2))) * t
  | QA j _ => rad * rad * rad * sin (alpha r j) * d * t
  | QB j _ => rad * rad * rad * sin (alpha r (j + 1)) * d * t
  end.

Lemma htri_det : forall r c rad p, (2 <= r)%N -> (1 <= c)%N -> sp_ok r c p -> rvol6 [hemi_triR r c rad p] = hsix r c rad p.
Proof.
  intros r c rad p Hr Hc Hp. destruct p as [i|i|j i|j i]; cbn [sp_ok] in Hp; (assert (Hi : (i < c)%N) by lia);
    unfold hemi_triR, hsix; cbv zeta.
  - apply base_det.
  - unfold VR. rewrite fanT_det, turn_htheta by assumption. reflexivity.
  - unfold VR. rewrite hqA_det, turn_htheta, turn_alpha by (try assumption; lia). reflexivity.
  - unfold VR. rewrite hqB_det, turn_htheta, turn_alpha by (try assumption; lia). reflexivity.
Qed.

Theorem hemi_volume_is_sum : forall r c rad, (2 <= r)%N -> (1 <= c)%N ->
  rvol6 (hemi_trisR r c rad) =
    NR c * (rad * rad * rad * sin (2 * PI / NR c)) *
      (sin (alpha r (r - 2)) * sin (alpha r (r - 2))
       + sin (PI / (2 * NR r)) * rsum (fun j => sin (alpha r j) + sin (alpha r (j + 1))) (nseq (r - 2))).
Proof.
  intros r c rad Hr Hc. rewrite hemi_trisR_eq by assumption. unfold sph_ps.
  rewrite map_app, !map_flat_map, rvol6_app, !rvol6_flat_map.
  rewrite (rsum_const _ (hsix r c rad (TF 0) + hsix r c rad (BF 0))).
  2:{ intros i Hi. apply nseq_in in Hi. cbn [map]. change [?a; ?b] with ([a] ++ [b]).
      rewrite rvol6_app, !htri_det by (try assumption; cbn [sp_ok]; lia). reflexivity. }
  rewrite (rsum_ext_in _ (fun j => NR c * (rad * rad * rad * sin (2 * PI / NR c)) *
                                    (sin (PI / (2 * NR r)) * (sin (alpha r j) + sin (alpha r (j + 1)))))).
  2:{ intros j Hj. apply nseq_in in Hj. rewrite map_flat_map, rvol6_flat_map.
      rewrite (rsum_const _ (hsix r c rad (QA j 0) + hsix r c rad (QB j 0))).
      2:{ intros i Hi. apply nseq_in in Hi. cbn [map]. change [?a; ?b] with ([a] ++ [b]).
          rewrite rvol6_app, !htri_det by (try assumption; cbn [sp_ok]; lia). reflexivity. }
      rewrite nseq_length, INR_NR. unfold hsix. cbv zeta. ring. }
  rewrite rsum_scal, rsum_scal, nseq_length, INR_NR. unfold hsix. cbv zeta. ring.
Qed.

(* ---- positivity and outwardness ---- *)
Lemma sin_alpha_pos : forall r j, (j < r)%N -> 0 < sin (alpha r j).
Proof.
  intros r j H. assert (0 <= NR j) by (unfold NR; apply IZR_le; lia). assert (NR j < NR r) by (unfold NR; apply IZR_lt; lia).
  pose proof PI_RGT_0. unfold alpha.
  assert (Q : 0 <= PI * NR j / NR r < PI).
  { split; [apply Rmult_le_pos; [nra|left; apply Rinv_0_lt_compat; lra]|].
    apply (Rmult_lt_reg_r (NR r)); [lra|]. unfold Rdiv. rewrite Rmult_assoc, Rinv_l by lra. nra. }
  replace (- PI * NR j / NR r / 2 + PI / 2) with (PI / 2 - PI * NR j / NR r / 2) by (field; lra).
  apply sin_gt_0; lra.
Qed.
Lemma sin_half_step_pos : forall r, (1 <= r)%N -> 0 < sin (PI / (2 * NR r)).
Proof.
  intros r H. assert (1 <= NR r) by (unfold NR; apply IZR_le; lia). pose proof PI_RGT_0. apply sin_gt_0.
  - apply Rdiv_lt_0_compat; lra.
  - apply (Rmult_lt_reg_r (2 * NR r)); [lra|]. unfold Rdiv. rewrite Rmult_assoc, Rinv_l by lra. nra.
Qed.

Definition is_base (p : sp) : bool := match p with TF _ => true | _ => false end.

Lemma hsix_pos : forall r c rad p, (2 <= r)%N -> (3 <= c)%N -> 0 < rad -> sp_ok r c p -> is_base p = false -> 0 < hsix r c rad p.
Proof.
  intros r c rad p Hr Hc Hrad Hp Hb. pose proof (sin_step_pos c Hc). pose proof (sin_half_step_pos r ltac:(lia)).
  destruct p as [i|i|j i|j i]; [discriminate| | |]; cbn [sp_ok] in Hp; unfold hsix; cbv zeta;
    repeat apply Rmult_lt_0_compat; try assumption; apply sin_alpha_pos; lia.
Qed.

(* dome and apex fan: away from the centre of the sphere *)
Theorem hemi_dome_faces_outward : forall r c rad, (2 <= r)%N -> (3 <= c)%N -> 0 < rad ->
  forall p, In p (sph_ps r c) -> is_base p = false -> rfaces_away rzero (hemi_triR r c rad p).
Proof.
  intros r c rad Hr Hc Hrad p Hp Hb. apply in_sph_ps in Hp. destruct (hemi_triR r c rad p) as [[a b] d] eqn:E.
  apply faces_away_det. rewrite <- E, htri_det by (try assumption; lia). apply hsix_pos; assumption.
Qed.

(* base disc: away from every point of the axis above the base plane (the equator ring has polar angle pi/2) *)
Theorem hemi_base_faces_down : forall r c rad y, (2 <= r)%N -> (3 <= c)%N -> 0 < rad -> 0 < y ->
  forall i, (i < c)%N -> rfaces_away (0, y, 0) (hemi_triR r c rad (TF i)).
Proof.
  intros r c rad y Hr Hc Hrad Hy i Hi. pose proof (NR_pos r ltac:(lia)).
  assert (A : alpha r 0 = PI / 2) by (unfold alpha; change (NR 0) with 0; field; lra).
  cbn [hemi_triR]. unfold VR. rewrite A, cos_PI2, sin_PI2.
  apply (hemi_base_faces_outward rad 1 (cos (htheta c i)) (sin (htheta c i)) (cos (htheta c (sn c i))) (sin (htheta c (sn c i)))
           Hrad Rlt_0_1); [|exact Hy].
  rewrite turn_htheta by (try assumption; lia). apply sin_step_pos, Hc.
Qed.

Theorem hemi_volume_pos : forall r c rad, (2 <= r)%N -> (3 <= c)%N -> 0 < rad -> 0 < rvol6 (hemi_trisR r c rad) / 6.
Proof.
  intros r c rad Hr Hc Hrad. rewrite hemi_volume_is_sum by (try assumption; lia).
  pose proof (sin_step_pos c Hc). pose proof (sin_half_step_pos r ltac:(lia)). pose proof (NR_pos c ltac:(lia)).
  pose proof (sin_alpha_pos r (r - 2) ltac:(lia)) as S2.
  assert (Q : 0 <= rsum (fun j => sin (alpha r j) + sin (alpha r (j + 1))) (nseq (r - 2))).
  { apply rsum_nonneg. intros j Hj. apply nseq_in in Hj.
    pose proof (sin_alpha_pos r j ltac:(lia)). pose proof (sin_alpha_pos r (j + 1) ltac:(lia)). lra. }
  apply Rdiv_lt_0_compat; [|lra]. apply Rmult_lt_0_compat.
  - repeat apply Rmult_lt_0_compat; assumption.
  - assert (0 < sin (alpha r (r - 2)) * sin (alpha r (r - 2))) by (apply Rmult_lt_0_compat; assumption).
    assert (0 <= sin (PI / (2 * NR r)) * rsum (fun j => sin (alpha r j) + sin (alpha r (j + 1))) (nseq (r - 2)))
      by (apply Rmult_le_pos; lra). lra.
Qed.

Theorem hemi_all_faces_outward : forall r c rad y, (2 <= r)%N -> (3 <= c)%N -> 0 < rad -> 0 < y ->
  hemi_trisR r c rad = map (hemi_triR r c rad) (sph_ps r c) /\
  (forall p, In p (sph_ps r c) -> is_base p = false -> rfaces_away rzero (hemi_triR r c rad p)) /\
  (forall i, (i < c)%N -> rfaces_away (0, y, 0) (hemi_triR r c rad (TF i))).
Proof.
  intros r c rad y Hr Hc Hrad Hy. split; [apply hemi_trisR_eq; lia|].
  split; [apply hemi_dome_faces_outward; assumption|apply hemi_base_faces_down; assumption].
Qed.

(* ---- the same volume as a stack of frusta on the base plane: rows-2 frusta between consecutive rings
        (rho_j = rad * sin (alpha j), y_j = rad * cos (alpha j), y_0 = 0) and the apex pyramid ---- *)
Lemma rsum_telescope_up : forall (g : N -> R) n, rsum (fun l => g (l + 1)%N - g l) (nseq n) = g n - g 0%N.
Proof.
  intros g n. pose proof (rsum_telescope (fun l => - g l) n) as T. cbv beta in T.
  rewrite (rsum_ext_in _ (fun l => - g l - - g (l + 1)%N)) by (intros; ring). rewrite T. ring.
Qed.

Theorem hemi_volume_frusta : forall r c rad, (2 <= r)%N -> (1 <= c)%N ->
  rvol6 (hemi_trisR r c rad) / 6 =
    rsum (fun j => (rad * cos (alpha r (j + 1)) - rad * cos (alpha r j)) / 3 * (NR c / 2 * sin (2 * PI / NR c)) *
                   ((rad * sin (alpha r j)) * (rad * sin (alpha r j)) + (rad * sin (alpha r (j + 1))) * (rad * sin (alpha r (j + 1)))
                    + (rad * sin (alpha r j)) * (rad * sin (alpha r (j + 1))))) (nseq (r - 2))
    + (rad - rad * cos (alpha r (r - 2))) / 3 * (NR c / 2 * sin (2 * PI / NR c))
      * ((rad * sin (alpha r (r - 2))) * (rad * sin (alpha r (r - 2)))).
Proof.
  intros r c rad Hr Hc. assert (Hr1 : (1 <= r)%N) by lia. rewrite hemi_volume_is_sum by assumption.
  set (S := fun l => sin (alpha r l)). set (C := fun l => cos (alpha r l)). set (D := sin (PI / (2 * NR r))).
  set (K := NR c * (rad * rad * rad * sin (2 * PI / NR c))).
  assert (C0 : C 0%N = 0).
  { unfold C, alpha. change (NR 0) with 0. pose proof (NR_pos r Hr1).
    replace (- PI * 0 / NR r / 2 + PI / 2) with (PI / 2) by (field; lra). apply cos_PI2. }
  assert (E : rsum (fun j => (rad * C (j + 1)%N - rad * C j) / 3 * (NR c / 2 * sin (2 * PI / NR c)) *
                   ((rad * S j) * (rad * S j) + (rad * S (j + 1)%N) * (rad * S (j + 1)%N) + (rad * S j) * (rad * S (j + 1)%N)))
                  (nseq (r - 2))
            = K / 6 * (D * rsum (fun j => S j + S (j + 1)%N) (nseq (r - 2)) + (C (r - 2)%N * (S (r - 2)%N * S (r - 2)%N) - 0))).
  { rewrite (rsum_ext_in _ (fun j => K / 6 * (D * (S j + S (j + 1)%N) + (C (j + 1)%N * (S (j + 1)%N * S (j + 1)%N) - C j * (S j * S j))))).
    2:{ intros j _. pose proof (turn_alpha r j Hr1) as T. fold D in T. unfold S, C, K. rewrite <- T. field. }
    rewrite rsum_scal, rsum_plus, rsum_scal, (rsum_telescope_up (fun l => C l * (S l * S l))). rewrite C0. f_equal. ring. }
  unfold S, C in E. rewrite E. fold (S (r - 2)%N) (C (r - 2)%N). unfold K. field.
Qed.
