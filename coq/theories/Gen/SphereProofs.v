(* C18 — UV sphere (welded and unwelded) and hemisphere: closed, consistently oriented surface for
   EVERY rows >= 2, columns >= 3; well-formed indices for every rows >= 2, columns >= 1.

   Vertices are addressed as (level, column): level 0 = first pole, levels 1 … r-1 = rings, level r =
   second pole.  In these coordinates the three conditions of FamilyProofs.good are linear arithmetic;
   [enc] maps (level, column) to the vertex number used by the generator and is injective on the
   vertices in use. *)
From PF Require Import Gen.Closed Gen.ClosedProofs Gen.FamilyProofs Gen.Sphere Gen.Hemisphere.
From Coq Require Import Lia ZifyN ZifyNat ZifyBool.
Ltac Zify.zify_post_hook ::= Z.div_mod_to_equations.
Open Scope N_scope.

Definition gv : Type := N * N.
Definition enc (c : N) (v : gv) : N := let '(l, i) := v in if l =? 0 then 0 else (l - 1) * c + 1 + i.
Definition gvalid (r c : N) (v : gv) : Prop := let '(l, i) := v in (l = 0 /\ i = 0) \/ (0 < l <= r /\ i < c).

Lemma enc_top : forall c i, enc c (0, i) = 0.
Proof. reflexivity. Qed.
Lemma enc_ring : forall c j i, enc c (j + 1, i) = j * c + 1 + i.
Proof. intros. unfold enc. destruct (N.eqb_spec (j + 1) 0); [lia|]. replace (j + 1 - 1) with j by lia. reflexivity. Qed.

Lemma enc_inj : forall r c x y, gvalid r c x -> gvalid r c y -> enc c x = enc c y -> x = y.
Proof.
  intros r c [l i] [l' i'] Vx Vy E. unfold enc, gvalid in *.
  destruct (N.eqb_spec l 0) as [L|L]; destruct (N.eqb_spec l' 0) as [L'|L'].
  - apply pair_eq; lia.
  - exfalso. lia.
  - exfalso. lia.
  - assert (H : c * (l - 1) + i = c * (l' - 1) + i') by lia.
    apply N.div_mod_unique in H; [|lia|lia]. apply pair_eq; lia.
Qed.

(* ---- the triangles of the welded sphere ---- *)
Inductive sp := TF (i : N) | BF (i : N) | QA (j i : N) | QB (j i : N).
Definition sp_ok (r c : N) (p : sp) : Prop :=
  match p with TF i | BF i => i < c | QA j i | QB j i => j < r - 2 /\ i < c end.

Definition sph_ps (r c : N) : list sp :=
  flat_map (fun i => [TF i; BF i]) (nseq c)
  ++ flat_map (fun j => flat_map (fun i => [QA j i; QB j i]) (nseq c)) (nseq (r - 2)).

Definition sph_T (r c : N) (p : sp) : gv * gv * gv :=
  match p with
  | TF i => ((0, 0), (0 + 1, sn c i), (0 + 1, i))
  | BF i => ((r - 1 + 1, 0), (r - 2 + 1, i), (r - 2 + 1, sn c i))
  | QA j i => ((j + 1, i), (j + 1, sn c i), (j + 1 + 1, sn c i))
  | QB j i => ((j + 1, i), (j + 1 + 1, sn c i), (j + 1 + 1, i))
  end.

Lemma in_sph_ps : forall r c p, In p (sph_ps r c) <-> sp_ok r c p.
Proof.
  intros r c p. unfold sph_ps. rewrite in_app_iff, !in_flat_map. split.
  - intros [(i & Hi & Hp)|(j & Hj & Hp)].
    + apply nseq_in in Hi. cbn in Hp. destruct Hp as [<-|[<-|[]]]; exact Hi.
    + apply in_flat_map in Hp. destruct Hp as (i & Hi & Hp). apply nseq_in in Hi, Hj.
      cbn in Hp. destruct Hp as [<-|[<-|[]]]; cbn; auto.
  - intros H. destruct p as [i|i|j i|j i]; cbn [sp_ok] in H.
    + left. exists i. split; [apply nseq_in, H|]. cbn. auto.
    + left. exists i. split; [apply nseq_in, H|]. cbn. auto.
    + right. exists j. split; [apply nseq_in, H|]. apply in_flat_map. exists i. split; [apply nseq_in, H|]. cbn. auto.
    + right. exists j. split; [apply nseq_in, H|]. apply in_flat_map. exists i. split; [apply nseq_in, H|]. cbn. auto.
Qed.

Lemma sph_ps_nodup : forall r c, NoDup (sph_ps r c).
Proof.
  intros r c. unfold sph_ps. apply nodup_app.
  - apply nodup_flat_map; [apply nseq_nodup| |].
    + intros k _. repeat constructor; cbn; intuition congruence.
    + intros x y z _ _ Hx Hy. cbn in Hx, Hy.
      destruct Hx as [<-|[<-|[]]]; destruct Hy as [E|[E|[]]]; congruence.
  - apply nodup_flat_map; [apply nseq_nodup| |].
    + intros j _. apply nodup_flat_map; [apply nseq_nodup| |].
      * intros k _. repeat constructor; cbn; intuition congruence.
      * intros x y z _ _ Hx Hy. cbn in Hx, Hy.
        destruct Hx as [<-|[<-|[]]]; destruct Hy as [E|[E|[]]]; congruence.
    + intros x y z _ _ Hx Hy. apply in_flat_map in Hx, Hy.
      destruct Hx as (i & _ & Hx). destruct Hy as (i' & _ & Hy). cbn in Hx, Hy.
      destruct Hx as [<-|[<-|[]]]; destruct Hy as [E|[E|[]]]; congruence.
  - intros x Hx Hy. apply in_flat_map in Hx, Hy. destruct Hx as (i & _ & Hx). destruct Hy as (j & _ & Hy).
    apply in_flat_map in Hy. destruct Hy as (i' & _ & Hy). cbn in Hx, Hy.
    destruct Hx as [<-|[<-|[]]]; destruct Hy as [E|[E|[]]]; congruence.
Qed.

Ltac split_pairs :=
  repeat match goal with H : (_, _) = (_, _) |- _ => apply pair_equal_spec in H; destruct H end.
Ltac sedge_in :=
  unfold erev; cbn [sph_T tri_edges In fst snd];
  first [ left; repeat apply pair_eq; lia
        | right; left; repeat apply pair_eq; lia
        | right; right; left; repeat apply pair_eq; lia ].
Ltac stw r c q := exists q; split; [apply in_sph_ps; cbn [sp_ok]; lia | sedge_in].

Theorem sph_good : forall r c, 2 <= r -> 3 <= c -> good (sph_T r c) (sph_ps r c).
Proof.
  intros r c Hr Hc. constructor.
  - apply sph_ps_nodup.
  - intros p Hp. apply in_sph_ps in Hp.
    destruct p as [i|i|j i|j i]; cbn [sp_ok] in Hp; pose proof (sn_spec c i); unfold sph_T, nondeg;
      repeat split; intros E; split_pairs; lia.
  - intros p q e Hp Hq H1 H2. apply in_sph_ps in Hp, Hq.
    destruct p as [i|i|j i|j i]; cbn [sp_ok] in Hp; pose proof (sn_spec c i);
      (destruct q as [i'|i'|j' i'|j' i']; cbn [sp_ok] in Hq; pose proof (sn_spec c i'));
      cbn [sph_T tri_edges In] in H1, H2;
      destruct H1 as [<-|[<-|[<-|[]]]]; destruct H2 as [E|[E|[E|[]]]];
      split_pairs; first [ exfalso; lia | f_equal; lia ].
  - intros p e Hp He. apply in_sph_ps in Hp.
    destruct p as [i|i|j i|j i]; cbn [sp_ok] in Hp;
      (assert (Hi : i < c) by lia);
      pose proof (sn_spec c i Hi) as Hsn; pose proof (pn_spec c i Hi) as Hpn;
      pose proof (sn_lt c i Hi) as Hsl; pose proof (pn_lt c i Hi) as Hpl; pose proof (sn_pn c i Hi) as R;
      cbn [sph_T tri_edges In] in He; destruct He as [<-|[<-|[<-|[]]]].
    + (* TF *) stw r c (TF (sn c i)).
    + destruct (N.eq_dec r 2); [stw r c (BF i)|stw r c (QA 0 i)].
    + stw r c (TF (pn c i)).
    + (* BF *) stw r c (BF (pn c i)).
    + destruct (N.eq_dec r 2); [stw r c (TF i)|stw r c (QB (r - 3) i)].
    + stw r c (BF (sn c i)).
    + (* QA *) destruct (N.eq_dec j 0); [stw r c (TF i)|stw r c (QB (j - 1) i)].
    + stw r c (QB j (sn c i)).
    + stw r c (QB j i).
    + (* QB *) stw r c (QA j i).
    + destruct (N.eq_dec (j + 3) r); [stw r c (BF i)|stw r c (QA (j + 1) i)].
    + stw r c (QA j (pn c i)).
Qed.

Lemma sph_valid : forall r c p, 2 <= r -> 1 <= c -> sp_ok r c p -> valid3 (gvalid r c) (sph_T r c p).
Proof.
  intros r c p Hr Hc Hp. destruct p as [i|i|j i|j i]; cbn [sp_ok] in Hp;
    (assert (Hi : i < c) by lia); pose proof (sn_lt c i Hi);
    unfold sph_T, valid3, gvalid; repeat split; lia.
Qed.

Definition sph_N (r c : N) (p : sp) : N * N * N := map3 (enc c) (sph_T r c p).

Theorem sph_good_N : forall r c, 2 <= r -> 3 <= c -> good (sph_N r c) (sph_ps r c).
Proof.
  intros r c Hr Hc. unfold sph_N. apply (good_map (gvalid r c)).
  - intros p Hp. apply sph_valid; [lia|lia|]. apply in_sph_ps, Hp.
  - apply enc_inj.
  - apply sph_good; assumption.
Qed.

(* ---- the generator's index list is that family ---- *)
Lemma tri_eq : forall {A} (a a' b b' c c' : A), a = a' -> b = b' -> c = c' -> (a, b, c) = (a', b', c').
Proof. intros; subst; reflexivity. Qed.
Lemma list2_eq : forall {A} (x x' y y' : A), x = x' -> y = y' -> [x; y] = [x'; y'].
Proof. intros; subst; reflexivity. Qed.

Lemma sphere_tris_eq : forall r c, 2 <= r ->
  tris_of (sphere_idx r c) = map (sph_N r c) (sph_ps r c).
Proof.
  intros r c Hr. unfold sphere_idx, sph_ps. cbv zeta.
  rewrite (tris_of_flat_map_k 2) by (intros; reflexivity).
  rewrite (tris_of_flat_map_k0 (2 * N.to_nat c)) by
    (intros; rewrite (flat_map_length_const _ 6) by reflexivity; rewrite nseq_length; lia).
  rewrite map_app, !map_flat_map. f_equal.
  - apply flat_map_ext_in. intros i Hi. apply nseq_in in Hi.
    cbn [map tris_of]. unfold sph_N, sph_T, map3. rewrite !enc_top, !enc_ring. unfold sn.
    apply list2_eq; apply tri_eq; try reflexivity; try lia.
    all: replace (r - 1) with (r - 2 + 1) by lia; lia.
  - apply flat_map_ext_in. intros j Hj. apply nseq_in in Hj.
    rewrite (tris_of_flat_map_k0 2) by (intros; reflexivity). rewrite map_flat_map.
    apply flat_map_ext_in. intros i Hi. apply nseq_in in Hi.
    cbn [map tris_of]. unfold sph_N, sph_T, map3. rewrite !enc_ring. unfold sn.
    apply list2_eq; apply tri_eq; lia.
Qed.

Lemma sphere_idx_length : forall r c,
  length (sphere_idx r c) = (6 * N.to_nat c + 6 * N.to_nat c * N.to_nat (r - 2))%nat.
Proof.
  intros r c. unfold sphere_idx. cbv zeta. rewrite app_length.
  rewrite (flat_map_length_const _ 6) by reflexivity.
  rewrite (flat_map_length_const _ (6 * N.to_nat c)).
  - rewrite !nseq_length. lia.
  - intros j. rewrite (flat_map_length_const _ 6) by reflexivity. rewrite nseq_length. lia.
Qed.

Lemma mod3_6 : forall a b : nat, N.of_nat (6 * a + 6 * a * b) mod 3 = 0.
Proof.
  intros a b. replace (6 * a + 6 * a * b)%nat with (3 * (2 * a + 2 * a * b))%nat by lia.
  rewrite Nat2N.inj_mul. change (N.of_nat 3) with 3. rewrite N.mul_comm. apply N.mod_mul. lia.
Qed.

(* welded UV sphere: every rows >= 2, columns >= 3 *)
Theorem sphere_closed : forall r c, 2 <= r -> 3 <= c -> closed_idx sphere_cls (sphere_idx r c).
Proof.
  intros r c Hr Hc. split.
  - rewrite sphere_idx_length. apply mod3_6.
  - unfold sphere_cls. rewrite map_id. rewrite sphere_tris_eq by exact Hr.
    apply good_closed, sph_good_N; assumption.
Qed.

(* all indices below the vertex count *)
Lemma ring_bound : forall r c j i, j < r - 1 -> i < c -> j * c + 1 + i < c * (r - 1) + 1.
Proof.
  intros r c j i Hj Hi. assert ((j + 1) * c <= (r - 1) * c) by (apply N.mul_le_mono_r; lia). lia.
Qed.

Theorem sphere_wf : forall r c, 2 <= r -> 1 <= c -> wf_idx (sphere_nverts r c) (sphere_idx r c).
Proof.
  intros r c Hr Hc. split.
  - rewrite sphere_idx_length. apply mod3_6.
  - unfold sphere_idx, sphere_nverts. cbv zeta. rewrite Forall_app, !Forall_flat_map. split.
    + apply Forall_forall. intros i Hi. apply nseq_in in Hi.
      pose proof (sn_lt c i Hi) as Hs. unfold sn in Hs.
      pose proof (ring_bound r c 0 i ltac:(lia) Hi). pose proof (ring_bound r c 0 _ ltac:(lia) Hs).
      pose proof (ring_bound r c (r - 2) i ltac:(lia) Hi). pose proof (ring_bound r c (r - 2) _ ltac:(lia) Hs).
      repeat constructor; lia.
    + apply Forall_forall. intros j Hj. apply nseq_in in Hj. apply Forall_flat_map, Forall_forall.
      intros i Hi. apply nseq_in in Hi. pose proof (sn_lt c i Hi) as Hs. unfold sn in Hs.
      pose proof (ring_bound r c j i ltac:(lia) Hi). pose proof (ring_bound r c j _ ltac:(lia) Hs).
      pose proof (ring_bound r c (j + 1) i ltac:(lia) Hi). pose proof (ring_bound r c (j + 1) _ ltac:(lia) Hs).
      repeat constructor; lia.
Qed.

(* ---- hemisphere: the same triangles wound the other way round ---- *)
Lemma hemi_tris_eq : forall r c, 2 <= r ->
  tris_of (hemi_idx r c) = map (fun p => flip (sph_N r c p)) (sph_ps r c).
Proof.
  intros r c Hr. rewrite <- (map_map (sph_N r c) flip), <- sphere_tris_eq by exact Hr.
  unfold hemi_idx, sphere_idx. cbv zeta.
  rewrite !(tris_of_flat_map_k 2) by (intros; reflexivity).
  rewrite !(tris_of_flat_map_k0 (2 * N.to_nat c)) by
    (intros; rewrite (flat_map_length_const _ 6) by reflexivity; rewrite nseq_length; lia).
  rewrite map_app, !map_flat_map. apply (f_equal2 (@app _)).
  - apply flat_map_ext_in. intros i _. reflexivity.
  - apply flat_map_ext_in. intros j _.
    rewrite !(tris_of_flat_map_k0 2) by (intros; reflexivity). rewrite map_flat_map.
    apply flat_map_ext_in. intros i _. reflexivity.
Qed.

Lemma hemi_idx_length : forall r c, length (hemi_idx r c) = length (sphere_idx r c).
Proof.
  intros r c. rewrite sphere_idx_length. unfold hemi_idx. cbv zeta. rewrite app_length.
  rewrite (flat_map_length_const _ 6) by reflexivity.
  rewrite (flat_map_length_const _ (6 * N.to_nat c)).
  - rewrite !nseq_length. lia.
  - intros j. rewrite (flat_map_length_const _ 6) by reflexivity. rewrite nseq_length. lia.
Qed.

Theorem hemi_closed : forall r c, 2 <= r -> 3 <= c -> closed_idx hemi_cls (hemi_idx r c).
Proof.
  intros r c Hr Hc. split.
  - rewrite hemi_idx_length, sphere_idx_length. apply mod3_6.
  - unfold hemi_cls. rewrite map_id. rewrite hemi_tris_eq by exact Hr.
    apply good_closed, good_flip, sph_good_N; assumption.
Qed.

Theorem hemi_wf : forall r c, 2 <= r -> 1 <= c -> wf_idx (hemi_nverts r c) (hemi_idx r c).
Proof.
  intros r c Hr Hc. split.
  - rewrite hemi_idx_length, sphere_idx_length. apply mod3_6.
  - unfold hemi_idx, hemi_nverts. cbv zeta. rewrite Forall_app, !Forall_flat_map. split.
    + apply Forall_forall. intros i Hi. apply nseq_in in Hi.
      pose proof (sn_lt c i Hi) as Hs. unfold sn in Hs.
      pose proof (ring_bound r c 0 i ltac:(lia) Hi). pose proof (ring_bound r c 0 _ ltac:(lia) Hs).
      pose proof (ring_bound r c (r - 2) i ltac:(lia) Hi). pose proof (ring_bound r c (r - 2) _ ltac:(lia) Hs).
      repeat constructor; lia.
    + apply Forall_forall. intros j Hj. apply nseq_in in Hj. apply Forall_flat_map, Forall_forall.
      intros i Hi. apply nseq_in in Hi. pose proof (sn_lt c i Hi) as Hs. unfold sn in Hs.
      pose proof (ring_bound r c j i ltac:(lia) Hi). pose proof (ring_bound r c j _ ltac:(lia) Hs).
      pose proof (ring_bound r c (j + 1) i ltac:(lia) Hi). pose proof (ring_bound r c (j + 1) _ ltac:(lia) Hs).
      repeat constructor; lia.
Qed.

(* ---- unwelded sphere: its coincidence classes give back the welded index list ---- *)
Lemma U_fan : forall r c i k, i < c -> k < 6 ->
  sphereU_cls r c (6 * i + k) =
    match k with
    | 0 => 0 | 1 => (i + 1) mod c + 1 | 2 => i + 1 | 3 => c * (r - 1) + 1
    | 4 => i + c * (r - 2) + 1 | _ => (i + 1) mod c + c * (r - 2) + 1
    end.
Proof.
  intros r c i k Hi Hk. unfold sphereU_cls. destruct (N.ltb_spec (6 * i + k) (6 * c)); [|lia].
  replace ((6 * i + k) / 6) with i by lia. replace ((6 * i + k) mod 6) with k by lia. reflexivity.
Qed.

Lemma U_quad : forall r c j i k, i < c -> k < 4 ->
  sphereU_cls r c (6 * c + 4 * (j * c + i) + k) =
    match k with
    | 0 => j * c + 1 + i | 1 => j * c + 1 + (i + 1) mod c
    | 2 => (j + 1) * c + 1 + (i + 1) mod c | _ => (j + 1) * c + 1 + i
    end.
Proof.
  intros r c j i k Hi Hk. unfold sphereU_cls.
  destruct (N.ltb_spec (6 * c + 4 * (j * c + i) + k) (6 * c)); [lia|].
  replace (6 * c + 4 * (j * c + i) + k - 6 * c) with (4 * (j * c + i) + k) by lia.
  replace ((4 * (j * c + i) + k) / 4) with (j * c + i) by lia.
  replace ((4 * (j * c + i) + k) mod 4) with k by lia.
  replace ((j * c + i) / c) with j by (apply (N.div_unique _ _ _ i); lia).
  replace ((j * c + i) mod c) with i by (apply (N.mod_unique _ _ j); lia).
  reflexivity.
Qed.

Lemma sphereU_welds : forall r c, map (sphereU_cls r c) (sphereU_idx r c) = sphere_idx r c.
Proof.
  intros r c. unfold sphereU_idx, sphere_idx. cbv zeta. rewrite map_app, !map_flat_map. f_equal.
  - apply flat_map_ext_in. intros i Hi. apply nseq_in in Hi. cbn [map].
    replace (6 * i) with (6 * i + 0) at 1 by lia.
    rewrite !U_fan by lia. reflexivity.
  - apply flat_map_ext_in. intros j _. rewrite map_flat_map.
    apply flat_map_ext_in. intros i Hi. apply nseq_in in Hi. cbn [map].
    replace (6 * c + 4 * (j * c + i)) with (6 * c + 4 * (j * c + i) + 0) at 1 4 by lia.
    rewrite !U_quad by lia. reflexivity.
Qed.

Lemma sphereU_idx_length : forall r c, length (sphereU_idx r c) = length (sphere_idx r c).
Proof. intros. rewrite <- sphereU_welds. now rewrite map_length. Qed.

Theorem sphereU_closed : forall r c, 2 <= r -> 3 <= c -> closed_idx (sphereU_cls r c) (sphereU_idx r c).
Proof.
  intros r c Hr Hc. destruct (sphere_closed r c Hr Hc) as [H1 H2]. split.
  - rewrite sphereU_idx_length. exact H1.
  - rewrite sphereU_welds. unfold sphere_cls in H2. rewrite map_id in H2. exact H2.
Qed.

Theorem sphereU_wf : forall r c, 2 <= r -> 1 <= c -> wf_idx (sphereU_nverts r c) (sphereU_idx r c).
Proof.
  intros r c Hr Hc. split.
  - rewrite sphereU_idx_length, sphere_idx_length. apply mod3_6.
  - unfold sphereU_idx, sphereU_nverts. cbv zeta. rewrite Forall_app, !Forall_flat_map. split.
    + apply Forall_forall. intros i Hi. apply nseq_in in Hi.
      pose proof (N.le_0_l (4 * c * (r - 2))). repeat constructor; lia.
    + apply Forall_forall. intros j Hj. apply nseq_in in Hj. apply Forall_flat_map, Forall_forall.
      intros i Hi. apply nseq_in in Hi.
      assert ((j + 1) * c <= (r - 2) * c) by (apply N.mul_le_mono_r; lia).
      repeat constructor; lia.
Qed.
