(* C18 — the two boxes over the REALS with symbolic half extents: exact volume w*h*d, every face pointing
   away from the centre, every supplied vertex normal on the outer side of each incident face; closedness
   of both index tables (finite: verified checker).  The real-valued position tables are the formulas of
   Gen/Cube.v (which the harness compares with the implementation on integer extents) read over R. *)
From PF Require Import Gen.Closed Gen.ClosedProofs Gen.Cube.
From Coq Require Import Reals Lra Psatz.
Open Scope R_scope.

Definition rvec : Type := R * R * R.
Definition rsub (a b : rvec) : rvec := let '(ax, ay, az) := a in let '(bx, by_, bz) := b in (ax - bx, ay - by_, az - bz).
Definition radd (a b : rvec) : rvec := let '(ax, ay, az) := a in let '(bx, by_, bz) := b in (ax + bx, ay + by_, az + bz).
Definition rdot (a b : rvec) : R := let '(ax, ay, az) := a in let '(bx, by_, bz) := b in ax * bx + ay * by_ + az * bz.
Definition rcross (a b : rvec) : rvec :=
  let '(ax, ay, az) := a in let '(bx, by_, bz) := b in (ay * bz - az * by_, az * bx - ax * bz, ax * by_ - ay * bx).
Definition rdet3 (a b c : rvec) : R := rdot a (rcross b c).
(* six times the signed volume enclosed by an indexed triangle list (divergence theorem) *)
Definition rvol6 (ts : list (rvec * rvec * rvec)) : R :=
  fold_right (fun t acc => let '(a, b, c) := t in rdet3 a b c + acc) 0 ts.
Definition rfnormal (t : rvec * rvec * rvec) : rvec := let '(a, b, c) := t in rcross (rsub b a) (rsub c a).
Definition rzero : rvec := (0, 0, 0).
(* the face points away from the point p *)
Definition rfaces_away (p : rvec) (t : rvec * rvec * rvec) : Prop :=
  let '(a, _, _) := t in 0 < rdot (rfnormal t) (rsub a p).

Definition at_ (pos : list rvec) (i : N) : rvec := nth (N.to_nat i) pos rzero.
Definition tri_pos (pos : list rvec) (idx : list N) : list (rvec * rvec * rvec) := tris_of (map (at_ pos) idx).
(* every corner's normal is on the outer side of the triangle *)
Definition normals_outer (pos nrm : list rvec) (idx : list N) : Prop :=
  Forall (fun t : N * N * N => let '(i, j, k) := t in
            let n := rfnormal (at_ pos i, at_ pos j, at_ pos k) in
            0 < rdot n (at_ nrm i) /\ 0 < rdot n (at_ nrm j) /\ 0 < rdot n (at_ nrm k)) (tris_of idx).

(* ---- positions: Gen/Cube.v's formulas over R ---- *)
Definition cubeW_posR (hw hh hd : R) : list rvec :=
  [ (-hw, -hh, -hd); (-hw, -hh, hd); (-hw, hh, -hd); (-hw, hh, hd);
    ( hw, -hh, -hd); ( hw, -hh, hd); ( hw, hh, -hd); ( hw, hh, hd) ].
Definition quad_posR (a b : R) : list rvec := [(-a, 0, -b); (-a, 0, b); (a, 0, b); (a, 0, -b)].
Definition rrotZ_pi (v : rvec) : rvec := let '(x, y, z) := v in (-x, -y, z).
Definition rrotZ_half (v : rvec) : rvec := let '(x, y, z) := v in (-y, x, z).
Definition rrotZ_3half (v : rvec) : rvec := let '(x, y, z) := v in (y, -x, z).
Definition rrotL_3half (v : rvec) : rvec := let '(x, y, z) := v in (x, -z, y).
Definition rrotL_half (v : rvec) : rvec := let '(x, y, z) := v in (x, z, -y).
Definition cubeQ_posR (hw hh hd : R) : list rvec :=
  map (radd (0, hh, 0)) (quad_posR hw hd)
  ++ map (fun v => radd (0, -hh, 0) (rrotZ_pi v)) (quad_posR hw hd)
  ++ map (fun v => radd (-hw, 0, 0) (rrotZ_half v)) (quad_posR hh hd)
  ++ map (fun v => radd (hw, 0, 0) (rrotZ_3half v)) (quad_posR hh hd)
  ++ map (fun v => radd (0, 0, hd) (rrotL_3half v)) (quad_posR hw hh)
  ++ map (fun v => radd (0, 0, -hd) (rrotL_half v)) (quad_posR hw hh).
(* Quad.ToMesh gives every corner the normal `up`; UnweldedQuads turns it with the face *)
Definition up4 (f : rvec -> rvec) : list rvec := let n := f (0, 1, 0) in [n; n; n; n].
Definition cubeQ_nrmR : list rvec :=
  up4 (fun v => v) ++ up4 rrotZ_pi ++ up4 rrotZ_half ++ up4 rrotZ_3half ++ up4 rrotL_3half ++ up4 rrotL_half.

(* on integer extents these are the tables of Gen/Cube.v, which the harness ties to the implementation *)
Definition rv3 (v : vec) : rvec := let '(x, y, z) := v in (IZR x, IZR y, IZR z).
Lemma cubeW_posR_Z : forall a b c : Z, cubeW_posR (IZR a) (IZR b) (IZR c) = map rv3 (cubeW_pos a b c).
Proof. intros. unfold cubeW_posR, cubeW_pos. cbn [map rv3]. rewrite !opp_IZR. reflexivity. Qed.
Lemma cubeQ_posR_Z : forall a b c : Z, cubeQ_posR (IZR a) (IZR b) (IZR c) = map rv3 (cubeQ_pos a b c).
Proof.
  intros. unfold cubeQ_posR, cubeQ_pos, quad_posR, quad_pos.
  cbn [map app rv3 vadd radd rotZ_pi rotZ_half rotZ_3half rotL_3half rotL_half
       rrotZ_pi rrotZ_half rrotZ_3half rrotL_3half rrotL_half].
  rewrite ?plus_IZR, ?opp_IZR, ?opp_IZR. reflexivity.
Qed.

Ltac eval_cube :=
  cbv -[Rplus Rmult Rminus Ropp Rlt IZR Rdiv Rinv].

(* ---- exact volume ---- *)
Theorem cubeW_volume : forall hw hh hd : R,
  rvol6 (tri_pos (cubeW_posR hw hh hd) cubeW_idx) = 6 * ((2 * hw) * (2 * hh) * (2 * hd)).
Proof. intros. eval_cube. ring. Qed.

Theorem cubeQ_volume : forall hw hh hd : R,
  rvol6 (tri_pos (cubeQ_posR hw hh hd) cubeQ_idx) = 6 * ((2 * hw) * (2 * hh) * (2 * hd)).
Proof. intros. eval_cube. ring. Qed.

(* stated with the constructor's own parameters: volume = width * height * depth *)
Corollary cube_volume : forall w h d : R,
  rvol6 (tri_pos (cubeW_posR (w / 2) (h / 2) (d / 2)) cubeW_idx) / 6 = w * h * d /\
  rvol6 (tri_pos (cubeQ_posR (w / 2) (h / 2) (d / 2)) cubeQ_idx) / 6 = w * h * d.
Proof. intros. rewrite cubeW_volume, cubeQ_volume. split; field. Qed.

(* ---- outward faces ---- *)
Ltac pos3 hw hh hd :=
  assert (0 < hw * hh) by (apply Rmult_lt_0_compat; assumption);
  assert (0 < hw * hd) by (apply Rmult_lt_0_compat; assumption);
  assert (0 < hh * hd) by (apply Rmult_lt_0_compat; assumption);
  assert (0 < hw * hh * hd) by (apply Rmult_lt_0_compat; assumption).

Theorem cubeW_outward : forall hw hh hd : R, 0 < hw -> 0 < hh -> 0 < hd ->
  Forall (rfaces_away rzero) (tri_pos (cubeW_posR hw hh hd) cubeW_idx).
Proof. intros hw hh hd Hw Hh Hd. pos3 hw hh hd. eval_cube. repeat constructor; nra. Qed.

Theorem cubeQ_outward : forall hw hh hd : R, 0 < hw -> 0 < hh -> 0 < hd ->
  Forall (rfaces_away rzero) (tri_pos (cubeQ_posR hw hh hd) cubeQ_idx).
Proof. intros hw hh hd Hw Hh Hd. pos3 hw hh hd. eval_cube. repeat constructor; nra. Qed.

(* ---- vertex normals: Welded() supplies position/|position| (a positive multiple of the position),
        UnweldedQuads the turned `up` vector ---- *)
Theorem cubeW_normals_outward : forall hw hh hd : R, 0 < hw -> 0 < hh -> 0 < hd ->
  normals_outer (cubeW_posR hw hh hd) (cubeW_posR hw hh hd) cubeW_idx.
Proof. intros hw hh hd Hw Hh Hd. pos3 hw hh hd. eval_cube. repeat constructor; nra. Qed.

Theorem cubeQ_normals_outward : forall hw hh hd : R, 0 < hw -> 0 < hh -> 0 < hd ->
  normals_outer (cubeQ_posR hw hh hd) cubeQ_nrmR cubeQ_idx.
Proof. intros hw hh hd Hw Hh Hd. pos3 hw hh hd. eval_cube. repeat constructor; nra. Qed.

(* scaling a normal by a positive factor does not change the side it is on *)
Lemma rdot_scale : forall (n v : rvec) (k : R), 0 < k -> 0 < rdot n v ->
  0 < rdot n (let '(x, y, z) := v in (k * x, k * y, k * z)).
Proof.
  intros [[a b] c] [[x y] z] k Hk H. unfold rdot in *.
  replace (a * (k * x) + b * (k * y) + c * (k * z)) with (k * (a * x + b * y + c * z)) by ring.
  apply Rmult_lt_0_compat; assumption.
Qed.

(* ---- closedness of the two index tables ---- *)
Close Scope R_scope.
Open Scope N_scope.
Theorem cubeW_closed : closed_idx cubeW_cls cubeW_idx.
Proof. apply closed_idxb_iff. vm_compute. reflexivity. Qed.
Theorem cubeQ_closed : closed_idx cubeQ_cls cubeQ_idx.
Proof. apply closed_idxb_iff. vm_compute. reflexivity. Qed.
Theorem cubeW_wf : wf_idx cubeW_nverts cubeW_idx.
Proof. apply wf_idxb_iff. vm_compute. reflexivity. Qed.
Theorem cubeQ_wf : wf_idx cubeQ_nverts cubeQ_idx.
Proof. apply wf_idxb_iff. vm_compute. reflexivity. Qed.
(* the six separate quads are NOT closed before merging coincident corners: the classes matter *)
Lemma cubeQ_unmerged_open : closed_idxb (fun v => v) cubeQ_idx = false.
Proof. vm_compute. reflexivity. Qed.
(* the class table is what equality of positions gives (integer sample with pairwise different extents) *)
Lemma cubeQ_cls_from_positions : pos_classes (cubeQ_pos 1 2 3) = cubeQ_cls_table.
Proof. vm_compute. reflexivity. Qed.
