(* C18 — the coincidence classes of the two boxes DERIVED from their real positions (not compared with floats):
   for all positive extents, two of the 24 corners of the six-quad box are at the same point exactly when
   cubeQ_cls gives them the same representative, and the 8 corners of the welded box are pairwise distinct.
   Device: every corner is (sx*hw, sy*hh, sz*hd) with signs in {-1, 1} (the integer table cubeQ_pos 1 1 1), scaling by
   positive extents is injective, and the sign table is finite. *)
From PF Require Import Gen.Closed Gen.ClosedProofs Gen.FamilyProofs Gen.Cube Gen.CubeProofs.
From Coq Require Import Reals Lra Lia List.
Import ListNotations.
Open Scope R_scope.

Definition scale (hw hh hd : R) (s : vec) : rvec := let '(a, b, c) := s in (IZR a * hw, IZR b * hh, IZR c * hd).

Lemma rtri_eq : forall a a' b b' c c' : R, a = a' -> b = b' -> c = c' -> (a, b, c) = (a', b', c').
Proof. intros; subst; reflexivity. Qed.

Lemma cubeW_posR_signs : forall hw hh hd, cubeW_posR hw hh hd = map (scale hw hh hd) (cubeW_pos 1 1 1).
Proof.
  intros. cbv -[Rplus Rmult Rminus Ropp IZR].
  repeat (apply (f_equal2 (@cons rvec)); [apply rtri_eq; ring|]). reflexivity.
Qed.
Lemma cubeQ_posR_signs : forall hw hh hd, cubeQ_posR hw hh hd = map (scale hw hh hd) (cubeQ_pos 1 1 1).
Proof.
  intros. cbv -[Rplus Rmult Rminus Ropp IZR].
  repeat (apply (f_equal2 (@cons rvec)); [apply rtri_eq; ring|]). reflexivity.
Qed.

Lemma scale_inj : forall hw hh hd s s', 0 < hw -> 0 < hh -> 0 < hd -> scale hw hh hd s = scale hw hh hd s' -> s = s'.
Proof.
  intros hw hh hd [[a b] c] [[a' b'] c'] Hw Hh Hd E. unfold scale in E.
  apply pair_equal_spec in E. destruct E as [E Ec]. apply pair_equal_spec in E. destruct E as [Ea Eb].
  apply Rmult_eq_reg_r in Ea; [|lra]. apply Rmult_eq_reg_r in Eb; [|lra]. apply Rmult_eq_reg_r in Ec; [|lra].
  apply eq_IZR in Ea, Eb, Ec. subst. reflexivity.
Qed.

Lemma vec_eqb_eq : forall a b : vec, vec_eqb a b = true <-> a = b.
Proof.
  intros [[a1 a2] a3] [[b1 b2] b3]. unfold vec_eqb. rewrite !andb_true_iff, !Z.eqb_eq. split.
  - intros [[-> ->] ->]. reflexivity.
  - intros E. apply pair_equal_spec in E. destruct E as [E ->]. apply pair_equal_spec in E. destruct E as [-> ->]. auto.
Qed.

Lemma at_map : forall (l : list vec) (f : vec -> rvec) (i : N), (N.to_nat i < length l)%nat ->
  at_ (map f l) i = f (nth (N.to_nat i) l vzero).
Proof. intros l f i H. unfold at_. rewrite (nth_indep _ rzero (f vzero)) by (rewrite map_length; exact H). apply map_nth. Qed.

(* the finite part: on the sign table, same signs <-> same class *)
Lemma cubeQ_sign_classes :
  forallb (fun i => forallb (fun j =>
     Bool.eqb (vec_eqb (nth (N.to_nat i) (cubeQ_pos 1 1 1) vzero) (nth (N.to_nat j) (cubeQ_pos 1 1 1) vzero))
              (cubeQ_cls i =? cubeQ_cls j)%N) (nseq 24)) (nseq 24) = true.
Proof. vm_compute. reflexivity. Qed.
Lemma cubeW_sign_classes :
  forallb (fun i => forallb (fun j =>
     Bool.eqb (vec_eqb (nth (N.to_nat i) (cubeW_pos 1 1 1) vzero) (nth (N.to_nat j) (cubeW_pos 1 1 1) vzero))
              (i =? j)%N) (nseq 8)) (nseq 8) = true.
Proof. vm_compute. reflexivity. Qed.

Theorem cubeQ_classes_from_positions : forall hw hh hd, 0 < hw -> 0 < hh -> 0 < hd ->
  forall i j, (i < 24)%N -> (j < 24)%N ->
    (at_ (cubeQ_posR hw hh hd) i = at_ (cubeQ_posR hw hh hd) j <-> cubeQ_cls i = cubeQ_cls j).
Proof.
  intros hw hh hd Hw Hh Hd i j Hi Hj. rewrite cubeQ_posR_signs.
  assert (L : length (cubeQ_pos 1 1 1) = 24%nat) by reflexivity.
  rewrite !at_map by (rewrite L; lia).
  pose proof cubeQ_sign_classes as F. rewrite forallb_forall in F. specialize (F i (proj2 (nseq_in 24 i) Hi)).
  rewrite forallb_forall in F. specialize (F j (proj2 (nseq_in 24 j) Hj)). apply eqb_prop in F.
  split.
  - intros E. apply scale_inj in E; [|assumption..]. apply vec_eqb_eq in E. rewrite E in F. symmetry in F. apply N.eqb_eq, F.
  - intros E. apply N.eqb_eq in E. rewrite E in F. apply vec_eqb_eq in F. rewrite F. reflexivity.
Qed.

(* the representative is the first corner at that point *)
Lemma cubeQ_cls_first : pos_classes (cubeQ_pos 1 1 1) = cubeQ_cls_table.
Proof. vm_compute. reflexivity. Qed.

Theorem cubeW_corners_distinct : forall hw hh hd, 0 < hw -> 0 < hh -> 0 < hd ->
  forall i j, (i < 8)%N -> (j < 8)%N -> at_ (cubeW_posR hw hh hd) i = at_ (cubeW_posR hw hh hd) j -> i = j.
Proof.
  intros hw hh hd Hw Hh Hd i j Hi Hj. rewrite cubeW_posR_signs.
  assert (L : length (cubeW_pos 1 1 1) = 8%nat) by reflexivity.
  rewrite !at_map by (rewrite L; lia).
  pose proof cubeW_sign_classes as F. rewrite forallb_forall in F. specialize (F i (proj2 (nseq_in 8 i) Hi)).
  rewrite forallb_forall in F. specialize (F j (proj2 (nseq_in 8 j) Hj)). apply eqb_prop in F.
  intros E. apply scale_inj in E; [|assumption..]. apply vec_eqb_eq in E. rewrite E in F. symmetry in F. apply N.eqb_eq, F.
Qed.
