(* C18 — hemisphere: base centre, rings from the equator (polar angle pi/2) upwards, apex: with the generator's position formula
   over R no two vertices coincide, so the identity class map [hemi_cls] is the coincidence relation. *)
From PF Require Import Gen.Closed Gen.CubeProofs Gen.Sphere Gen.Hemisphere Gen.CylinderVolume Gen.SphereVolume Gen.HemiVolume Gen.SphereDistinct Gen.CylinderClasses.
From Coq Require Import Reals Lra Psatz Lia ZifyN ZifyNat ZifyBool.
Ltac Zify.zify_post_hook ::= Z.div_mod_to_equations.
Open Scope R_scope.

Lemma alpha_range : forall r j, (1 <= r)%N -> (j < r)%N -> 0 < alpha r j <= PI / 2.
Proof.
  intros r j Hr Hj. pose proof PI_RGT_0. pose proof (NR_nonneg j) as A. pose proof (NR_lt _ _ Hj) as B.
  assert (P : 0 < NR r) by lra. unfold alpha.
  replace (- PI * NR j / NR r / 2 + PI / 2) with (PI / 2 * (1 - NR j / NR r)) by (field; lra).
  assert (Q : 0 <= NR j / NR r < 1).
  { split; [apply Rmult_le_pos; [lra|left; apply Rinv_0_lt_compat; lra]|].
    apply (Rmult_lt_reg_r (NR r)); [lra|]. unfold Rdiv. rewrite Rmult_assoc, Rinv_l by lra. lra. }
  split; nra.
Qed.
Lemma alpha_inj : forall r j j', (1 <= r)%N -> alpha r j = alpha r j' -> j = j'.
Proof.
  intros r j j' Hr H. pose proof (NR_pos r Hr) as P. pose proof PI_RGT_0. unfold alpha in H. apply NR_inj.
  assert (E : PI / NR r / 2 * NR j = PI / NR r / 2 * NR j') by (unfold Rdiv in *; lra).
  apply (Rmult_eq_reg_l (PI / NR r / 2)); [exact E|].
  apply Rgt_not_eq. unfold Rdiv. apply Rmult_lt_0_compat; [apply Rmult_lt_0_compat; [lra|apply Rinv_0_lt_compat; lra]|lra].
Qed.
Lemma htheta_theta : forall c i, htheta c i = theta c i.
Proof. intros. unfold htheta, theta, Rdiv. ring. Qed.

Lemma hemi_pos_cases : forall r c rad v, (2 <= r)%N -> (1 <= c)%N -> (v < hemi_nverts r c)%N ->
  (v = 0%N /\ hemi_posR r c rad v = (0, 0, 0)) \/
  (v = (c * (r - 1) + 1)%N /\ hemi_posR r c rad v = (0, rad, 0)) \/
  (exists j i, (j < r - 1)%N /\ (i < c)%N /\ v = (j * c + 1 + i)%N /\ hemi_posR r c rad v = VR rad (alpha r j) (theta c i)).
Proof.
  intros r c rad v Hr Hc Hv. unfold hemi_nverts in Hv. unfold hemi_posR.
  destruct (N.eqb_spec v 0) as [V0|V0]; [left; split; [exact V0|reflexivity]|].
  destruct (N.eqb_spec v (c * (r - 1) + 1)) as [V1|V1]; [right; left; split; [exact V1|reflexivity]|].
  right. right. exists ((v - 1) / c)%N, ((v - 1) mod c)%N.
  assert (Q : ((v - 1) / c < r - 1)%N) by (apply N.div_lt_upper_bound; [lia|rewrite N.mul_comm; lia]).
  assert (M : ((v - 1) mod c < c)%N) by (apply N.mod_lt; lia).
  pose proof (N.div_mod (v - 1) c ltac:(lia)) as DM.
  set (q := ((v - 1) / c)%N) in *. set (m := ((v - 1) mod c)%N) in *.
  split; [exact Q|]. split; [exact M|]. split; [|rewrite htheta_theta; reflexivity].
  rewrite (N.mul_comm q c), <- N.add_assoc, (N.add_comm 1 m), N.add_assoc, <- DM.
  symmetry. apply N.sub_add. destruct v; [contradiction V0; reflexivity|]. destruct p; discriminate.
Qed.

Theorem hemi_vertices_distinct : forall r c rad v w, (2 <= r)%N -> (1 <= c)%N -> 0 < rad ->
  (v < hemi_nverts r c)%N -> (w < hemi_nverts r c)%N -> hemi_posR r c rad v = hemi_posR r c rad w -> v = w.
Proof.
  intros r c rad v w Hr Hc Hrad Hv Hw E. pose proof PI_RGT_0 as Hpi.
  assert (RING : forall (j i : N), (j < r - 1)%N -> 0 < sin (alpha r j) /\ cos (alpha r j) < 1 /\ 0 < alpha r j < PI).
  { intros j i Hj. destruct (alpha_range r j ltac:(lia) ltac:(lia)) as [A0 A1].
    split; [apply sin_gt_0; lra|]. split; [|lra].
    destruct (COS_bound (alpha r j)) as [_ U]. destruct U as [U|U]; [exact U|]. exfalso. rewrite <- cos_0 in U. apply cos_inj in U; lra. }
  destruct (hemi_pos_cases r c rad v Hr Hc Hv) as [[V Pv]|[[V Pv]|(j & i & Hj & Hi & V & Pv)]];
  destruct (hemi_pos_cases r c rad w Hr Hc Hw) as [[W Pw]|[[W Pw]|(j' & i' & Hj' & Hi' & W & Pw)]];
  rewrite Pv, Pw in E; try (subst; reflexivity); unfold VR in E;
  pose proof (f_equal (fun p : rvec => fst (fst p)) E) as Ex; pose proof (f_equal (fun p : rvec => snd (fst p)) E) as Ey;
  pose proof (f_equal (fun p : rvec => snd p) E) as Ez; cbn [fst snd] in Ex, Ey, Ez.
  - exfalso. lra.
  - (* centre = ring vertex: the ring vertex is at distance sin alpha * rad > 0 from the axis *)
    exfalso. destruct (RING j' i' Hj') as (S & _ & _).
    apply (rim_not_centre (theta c i') (sin (alpha r j') * rad)); [nra|lra|lra].
  - exfalso. lra.
  - exfalso. destruct (RING j' i' Hj') as (_ & C & _). nra.
  - exfalso. destruct (RING j i Hj) as (S & _ & _).
    apply (rim_not_centre (theta c i) (sin (alpha r j) * rad)); [nra|lra|lra].
  - exfalso. destruct (RING j i Hj) as (_ & C & _). nra.
  - destruct (RING j i Hj) as (_ & _ & A). destruct (RING j' i' Hj') as (_ & _ & A').
    assert (E' : VR rad (alpha r j) (theta c i) = VR rad (alpha r j') (theta c i')) by exact E.
    apply VR_inj in E'; try assumption; try (apply theta_range; assumption).
    destruct E' as [P T]. apply alpha_inj in P; [|lia]. apply theta_inj in T; [|exact Hc]. subst. reflexivity.
Qed.
