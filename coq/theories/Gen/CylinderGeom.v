(* C18 — the capped cylinder over the reals: every face points away from the axis centre and every supplied
   vertex normal is on the outer side of its faces, for every side count >= 3, radius > 0, height > 0.

   Local statement first: two neighbouring columns with unit directions (c0, s0), (c1, s1) that turn
   counter-clockwise by less than pi (0 < c0*s1 - s0*c1) give outward side and cap triangles; then the
   generator's angles 2*pi*k/n satisfy that for every n >= 3 (sin (2*pi/n) > 0). *)
From PF Require Import Gen.CubeProofs.
From Coq Require Import Reals Lra Psatz List.
Import ListNotations.
Open Scope R_scope.

Section Column.
  Variables (rad h c0 s0 c1 s1 : R).
  Hypothesis Hr : 0 < rad.
  Hypothesis Hh : 0 < h.
  Hypothesis turn : 0 < c0 * s1 - s0 * c1.

  (* Cylinder.ToMesh: vertices[2k] = (cos*R, h/2, sin*R), vertices[2k+1] = (cos*R, -h/2, sin*R) *)
  Let T0 : rvec := (c0 * rad, h / 2, s0 * rad).
  Let B0 : rvec := (c0 * rad, - (h / 2), s0 * rad).
  Let T1 : rvec := (c1 * rad, h / 2, s1 * rad).
  Let B1 : rvec := (c1 * rad, - (h / 2), s1 * rad).
  Let Ct : rvec := (0, h / 2, 0).
  Let Cb : rvec := (0, - (h / 2), 0).

  Lemma pos_hrr : 0 < h * rad * rad * (c0 * s1 - s0 * c1).
  Proof. repeat apply Rmult_lt_0_compat; assumption. Qed.

  (* the two side triangles (bottomLeft, topLeft, topRight), (bottomLeft, topRight, bottomRight), the top cap
     wedge (left, centre, right) and the bottom cap wedge (which, after the half turn, runs right -> left) *)
  Theorem column_faces_outward :
    rfaces_away rzero (B0, T0, T1) /\ rfaces_away rzero (B0, T1, B1) /\
    rfaces_away rzero (T0, Ct, T1) /\ rfaces_away rzero (B1, Cb, B0).
  Proof.
    pose proof pos_hrr as P. unfold rfaces_away, rfnormal, rdot, rcross, rsub, rzero, T0, B0, T1, B1, Ct, Cb.
    repeat split.
    - replace (_ + _ + _) with (h * rad * rad * (c0 * s1 - s0 * c1)) by field. exact P.
    - replace (_ + _ + _) with (h * rad * rad * (c0 * s1 - s0 * c1)) by field. exact P.
    - replace (_ + _ + _) with (h * rad * rad * (c0 * s1 - s0 * c1) / 2) by field. lra.
    - replace (_ + _ + _) with (h * rad * rad * (c0 * s1 - s0 * c1) / 2) by field. lra.
  Qed.

  (* side normals (cos, +-0.1, sin) (normalising is a positive scaling), cap normals (0, 1, 0) and its half turn *)
  Theorem column_normals_outward :
    let n0t : rvec := (c0, 1 / 10, s0) in let n0b : rvec := (c0, - (1 / 10), s0) in
    let n1t : rvec := (c1, 1 / 10, s1) in let n1b : rvec := (c1, - (1 / 10), s1) in
    0 < rdot (rfnormal (B0, T0, T1)) n0b /\ 0 < rdot (rfnormal (B0, T0, T1)) n0t /\ 0 < rdot (rfnormal (B0, T0, T1)) n1t /\
    0 < rdot (rfnormal (B0, T1, B1)) n0b /\ 0 < rdot (rfnormal (B0, T1, B1)) n1t /\ 0 < rdot (rfnormal (B0, T1, B1)) n1b /\
    0 < rdot (rfnormal (T0, Ct, T1)) (0, 1, 0) /\ 0 < rdot (rfnormal (B1, Cb, B0)) (0, -1, 0).
  Proof.
    cbv zeta. assert (P : 0 < h * rad * (c0 * s1 - s0 * c1)) by (repeat apply Rmult_lt_0_compat; assumption).
    assert (Q : 0 < rad * rad * (c0 * s1 - s0 * c1)) by (repeat apply Rmult_lt_0_compat; assumption).
    unfold rfnormal, rdot, rcross, rsub, T0, B0, T1, B1, Ct, Cb.
    repeat split.
    1-6: replace (_ + _ + _) with (h * rad * (c0 * s1 - s0 * c1)) by field; exact P.
    all: replace (_ + _ + _) with (rad * rad * (c0 * s1 - s0 * c1)) by field; exact Q.
  Qed.
End Column.

(* consecutive generator angles turn by 2*pi/n, which is in (0, pi) for n >= 3 *)
Lemma turn_sincos : forall a b, 0 < b - a -> b - a < PI -> 0 < cos a * sin b - sin a * cos b.
Proof.
  intros a b H1 H2. replace (cos a * sin b - sin a * cos b) with (sin (b - a)) by (rewrite sin_minus; ring).
  apply sin_gt_0; assumption.
Qed.

Lemma angle_step : forall (n : nat) (k : R), (3 <= n)%nat ->
  let inc := 1 / INR n * 2 * PI in 0 < inc * (k + 1) - inc * k /\ inc * (k + 1) - inc * k < PI.
Proof.
  intros n k Hn. cbv zeta.
  assert (H3 : 3 <= INR n) by (replace 3 with (INR 3) by (simpl; lra); apply le_INR; exact Hn).
  pose proof PI_RGT_0 as Hpi.
  replace (1 / INR n * 2 * PI * (k + 1) - 1 / INR n * 2 * PI * k) with (2 * PI / INR n) by (field; lra).
  split.
  - apply Rdiv_lt_0_compat; lra.
  - apply (Rmult_lt_reg_r (INR n)); [lra|]. unfold Rdiv. rewrite Rmult_assoc, Rinv_l by lra. nra.
Qed.

(* Cylinder{Sides: n, Radius: rad, Height: h}: column k at angle (1/n * 2*pi) * k.  Every side and cap triangle
   between columns k and k+1 faces outward; every supplied normal is on the outer side. *)
Theorem cyl_faces_outward : forall (n : nat) (rad h k : R), (3 <= n)%nat -> 0 < rad -> 0 < h ->
  let inc := 1 / INR n * 2 * PI in
  let a0 := inc * k in let a1 := inc * (k + 1) in
  let T0 : rvec := (cos a0 * rad, h / 2, sin a0 * rad) in let B0 : rvec := (cos a0 * rad, - (h / 2), sin a0 * rad) in
  let T1 : rvec := (cos a1 * rad, h / 2, sin a1 * rad) in let B1 : rvec := (cos a1 * rad, - (h / 2), sin a1 * rad) in
  rfaces_away rzero (B0, T0, T1) /\ rfaces_away rzero (B0, T1, B1) /\
  rfaces_away rzero (T0, (0, h / 2, 0), T1) /\ rfaces_away rzero (B1, (0, - (h / 2), 0), B0).
Proof.
  intros n rad h k Hn Hr Hh. cbv zeta. destruct (angle_step n k Hn) as [A1 A2].
  apply column_faces_outward; try assumption. apply turn_sincos; assumption.
Qed.

Theorem cyl_normals_outward : forall (n : nat) (rad h k : R), (3 <= n)%nat -> 0 < rad -> 0 < h ->
  let inc := 1 / INR n * 2 * PI in
  let a0 := inc * k in let a1 := inc * (k + 1) in
  let T0 : rvec := (cos a0 * rad, h / 2, sin a0 * rad) in let B0 : rvec := (cos a0 * rad, - (h / 2), sin a0 * rad) in
  let T1 : rvec := (cos a1 * rad, h / 2, sin a1 * rad) in let B1 : rvec := (cos a1 * rad, - (h / 2), sin a1 * rad) in
  let n0t : rvec := (cos a0, 1 / 10, sin a0) in let n0b : rvec := (cos a0, - (1 / 10), sin a0) in
  let n1t : rvec := (cos a1, 1 / 10, sin a1) in let n1b : rvec := (cos a1, - (1 / 10), sin a1) in
  0 < rdot (rfnormal (B0, T0, T1)) n0b /\ 0 < rdot (rfnormal (B0, T0, T1)) n0t /\ 0 < rdot (rfnormal (B0, T0, T1)) n1t /\
  0 < rdot (rfnormal (B0, T1, B1)) n0b /\ 0 < rdot (rfnormal (B0, T1, B1)) n1t /\ 0 < rdot (rfnormal (B0, T1, B1)) n1b /\
  0 < rdot (rfnormal (T0, (0, h / 2, 0), T1)) (0, 1, 0) /\ 0 < rdot (rfnormal (B1, (0, - (h / 2), 0), B0)) (0, -1, 0).
Proof.
  intros n rad h k Hn Hr Hh. cbv zeta. destruct (angle_step n k Hn) as [A1 A2].
  apply (column_normals_outward rad h _ _ _ _ Hr Hh). apply turn_sincos; assumption.
Qed.

(* ---- volume: the four triangles of one column (two side triangles, one wedge of either cap) contribute exactly the
        wedge of the inscribed prism, 6 * (1/2 * rad^2 * sin(2*pi/n) * h), to the divergence sum; the n columns together
        give 6 * (n/2 * rad^2 * sin(2*pi/n) * h) ---- *)
Theorem column_volume : forall rad h c0 s0 c1 s1 : R,
  let T0 : rvec := (c0 * rad, h / 2, s0 * rad) in let B0 : rvec := (c0 * rad, - (h / 2), s0 * rad) in
  let T1 : rvec := (c1 * rad, h / 2, s1 * rad) in let B1 : rvec := (c1 * rad, - (h / 2), s1 * rad) in
  rvol6 [(B0, T0, T1); (B0, T1, B1); (T0, (0, h / 2, 0), T1); (B1, (0, - (h / 2), 0), B0)]
  = 6 * (1 / 2 * rad * rad * (c0 * s1 - s0 * c1) * h).
Proof. intros rad h c0 s0 c1 s1. cbv zeta. unfold rvol6. cbn [fold_right]. unfold rdet3, rdot, rcross. field. Qed.

Theorem cyl_column_volume : forall (n : nat) (rad h k : R), (3 <= n)%nat ->
  let inc := 1 / INR n * 2 * PI in
  let a0 := inc * k in let a1 := inc * (k + 1) in
  let T0 : rvec := (cos a0 * rad, h / 2, sin a0 * rad) in let B0 : rvec := (cos a0 * rad, - (h / 2), sin a0 * rad) in
  let T1 : rvec := (cos a1 * rad, h / 2, sin a1 * rad) in let B1 : rvec := (cos a1 * rad, - (h / 2), sin a1 * rad) in
  rvol6 [(B0, T0, T1); (B0, T1, B1); (T0, (0, h / 2, 0), T1); (B1, (0, - (h / 2), 0), B0)]
  = 6 * (1 / 2 * rad * rad * sin (2 * PI / INR n) * h).
Proof.
  intros n rad h k Hn. cbv zeta. rewrite column_volume.
  assert (H3 : 3 <= INR n) by (replace 3 with (INR 3) by (simpl; lra); apply le_INR; exact Hn).
  replace (cos (1 / INR n * 2 * PI * k) * sin (1 / INR n * 2 * PI * (k + 1)) -
           sin (1 / INR n * 2 * PI * k) * cos (1 / INR n * 2 * PI * (k + 1)))
    with (sin (1 / INR n * 2 * PI * (k + 1) - 1 / INR n * 2 * PI * k)) by (rewrite sin_minus; ring).
  replace (1 / INR n * 2 * PI * (k + 1) - 1 / INR n * 2 * PI * k) with (2 * PI / INR n) by (field; lra).
  reflexivity.
Qed.
