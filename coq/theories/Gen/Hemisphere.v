(* C18 — index pattern of primitives.Hemisphere.UV (modeling/primitives/hemisphere.go).
   Vertex 0 is the centre of the base disc, rings 0 … rows-2 run from the equator upwards, the last
   vertex is the apex.  Same loops as the UV sphere with every triangle wound the other way round
   (the "top" fan is the base disc seen from below).  The Capped flag is ignored by the code. *)
From PF Require Export Gen.Closed.
Open Scope N_scope.

Definition hemi_nverts (r c : N) : N := c * (r - 1) + 2.
Definition hemi_accepts (r c : N) : bool := (2 <=? r) && (3 <=? c).

Definition hemi_idx (r c : N) : list N :=
  let v1i := c * (r - 1) + 1 in
  flat_map (fun i =>
      [ 0;   i + 1;                               (i + 1) mod c + 1;
        v1i; (i + 1) mod c + c * (r - 2) + 1;     i + c * (r - 2) + 1 ]) (nseq c)
  ++ flat_map (fun j =>
       let j0 := j * c + 1 in
       let j1 := (j + 1) * c + 1 in
       flat_map (fun i =>
         let i0 := j0 + i in
         let i1 := j0 + (i + 1) mod c in
         let i2 := j1 + (i + 1) mod c in
         let i3 := j1 + i in
         [i0; i2; i1; i0; i3; i2]) (nseq c)) (nseq (r - 2)).

Definition hemi_cls (k : N) : N := k.
