(* C18 — the proof device for parametric closedness: a triangle list given as a family [map T ps] of
   triangles indexed by distinct parameters is closed as soon as
     - no triangle is degenerate,
     - two different triangles never share a directed edge (the edge map is injective on slots), and
     - the reverse of every directed edge of a triangle is an edge of some triangle of the family (twin).
   Plus transport of that along orientation reversal and along vertex renamings injective on the
   vertices in use, and list lemmas for index lists written as flat_maps of fixed-size chunks. *)
From PF Require Import Gen.Closed Gen.ClosedProofs.
From Coq Require Import Lia FinFun.
Open Scope N_scope.

(* ---- lists ---- *)
Lemma nodup_app : forall {A} (l l' : list A),
  NoDup l -> NoDup l' -> (forall x, In x l -> In x l' -> False) -> NoDup (l ++ l').
Proof.
  induction l as [|a l IH]; intros l' H1 H2 D; cbn; [exact H2|].
  inversion H1 as [|? ? Ha Hl]; subst. constructor.
  - rewrite in_app_iff. intros [H|H]; [exact (Ha H)|]. exact (D a (or_introl eq_refl) H).
  - apply IH; [exact Hl|exact H2|]. intros x Hx. apply D. right. exact Hx.
Qed.

Lemma nodup_flat_map : forall {A B} (f : A -> list B) (l : list A),
  NoDup l -> (forall x, In x l -> NoDup (f x)) ->
  (forall x y z, In x l -> In y l -> In z (f x) -> In z (f y) -> x = y) ->
  NoDup (flat_map f l).
Proof.
  induction l as [|a l IH]; intros ND Hf D; cbn; [constructor|].
  inversion ND as [|? ? Ha Hl]; subst. apply nodup_app.
  - apply Hf. now left.
  - apply IH; [exact Hl| |].
    + intros x Hx. apply Hf. now right.
    + intros x y z Hx Hy. apply D; now right.
  - intros z Hz Hz'. apply in_flat_map in Hz'. destruct Hz' as (y & Hy & Hzy).
    assert (a = y) by (apply (D a y z); [now left|now right|exact Hz|exact Hzy]). subst y. exact (Ha Hy).
Qed.

Lemma nodup_map_in : forall {A B} (f : A -> B) (l : list A),
  NoDup l -> (forall x y, In x l -> In y l -> f x = f y -> x = y) -> NoDup (map f l).
Proof.
  induction l as [|a l IH]; intros ND I; cbn; [constructor|].
  inversion ND as [|? ? Ha Hl]; subst. constructor.
  - intros H. apply in_map_iff in H. destruct H as (y & E & Hy).
    assert (y = a) by (apply I; [now right|now left|exact E]). subst y. exact (Ha Hy).
  - apply IH; [exact Hl|]. intros x y Hx Hy. apply I; now right.
Qed.

Lemma nseq_from_eq : forall k a, nseq_from k a = map N.of_nat (seq (N.to_nat a) k).
Proof.
  induction k as [|k IH]; intros a; cbn [nseq_from seq map]; [reflexivity|].
  rewrite IH. replace (N.to_nat (a + 1)) with (S (N.to_nat a)) by lia. f_equal. lia.
Qed.
Lemma nseq_eq : forall n, nseq n = map N.of_nat (seq 0 (N.to_nat n)).
Proof. intros n. unfold nseq. now rewrite nseq_from_eq. Qed.

Lemma nseq_in : forall n x, In x (nseq n) <-> x < n.
Proof.
  intros n x. rewrite nseq_eq. rewrite in_map_iff. split.
  - intros (k & <- & Hk). apply in_seq in Hk. lia.
  - intros H. exists (N.to_nat x). split; [lia|]. apply in_seq. lia.
Qed.

Lemma nseq_nodup : forall n, NoDup (nseq n).
Proof.
  intros n. rewrite nseq_eq. apply Injective_map_NoDup; [|apply seq_NoDup].
  intros a b H. lia.
Qed.

Lemma nseq_succ : forall n, nseq (n + 1) = nseq n ++ [n].
Proof.
  intros n. rewrite !nseq_eq. replace (N.to_nat (n + 1)) with (N.to_nat n + 1)%nat by lia.
  rewrite seq_app, map_app. cbn. f_equal. f_equal. lia.
Qed.

Lemma nseq_length : forall n, length (nseq n) = N.to_nat n.
Proof. intros. rewrite nseq_eq. now rewrite map_length, seq_length. Qed.

Lemma map_flat_map : forall {A B C} (g : B -> C) (f : A -> list B) (l : list A),
  map g (flat_map f l) = flat_map (fun x => map g (f x)) l.
Proof. induction l as [|a l IH]; cbn; [reflexivity|]. now rewrite map_app, IH. Qed.

Lemma flat_map_ext_in : forall {A B} (f g : A -> list B) (l : list A),
  (forall x, In x l -> f x = g x) -> flat_map f l = flat_map g l.
Proof.
  induction l as [|a l IH]; intros H; cbn; [reflexivity|].
  rewrite (H a (or_introl eq_refl)), IH; [reflexivity|]. intros x Hx. apply H. now right.
Qed.

Lemma flat_map_map_out : forall {A B C} (g : B -> C) (f : A -> list B) (h : A -> list C) (l : list A),
  (forall x, In x l -> h x = map g (f x)) -> flat_map h l = map g (flat_map f l).
Proof. intros. rewrite map_flat_map. apply flat_map_ext_in. assumption. Qed.

Lemma flat_map_single : forall {A B} (f : A -> B) (l : list A), flat_map (fun x => [f x]) l = map f l.
Proof. induction l as [|a l IH]; cbn; [reflexivity|]. now rewrite IH. Qed.

Lemma flat_map_length_const : forall {A B} (f : A -> list B) (k : nat) (l : list A),
  (forall x, length (f x) = k) -> length (flat_map f l) = (k * length l)%nat.
Proof.
  induction l as [|a l IH]; intros H; cbn; [lia|]. rewrite app_length, H, IH by exact H. lia.
Qed.

(* index lists made of chunks that are whole triangles *)
Lemma tris_of_flat_map : forall {A V} (f : A -> list V) (h : A -> list (V * V * V)),
  (forall x l, tris_of (f x ++ l) = h x ++ tris_of l) ->
  forall xs l, tris_of (flat_map f xs ++ l) = flat_map h xs ++ tris_of l.
Proof.
  intros A V f h H. induction xs as [|a xs IH]; intros l; cbn; [reflexivity|].
  now rewrite <- !app_assoc, H, IH.
Qed.

Lemma tris_of_flat_map0 : forall {A V} (f : A -> list V) (h : A -> list (V * V * V)),
  (forall x l, tris_of (f x ++ l) = h x ++ tris_of l) ->
  forall xs, tris_of (flat_map f xs) = flat_map h xs.
Proof.
  intros. rewrite <- (app_nil_r (flat_map f xs)), (tris_of_flat_map f h) by assumption.
  cbn. now rewrite app_nil_r.
Qed.

(* ---- triangles ---- *)
Definition flip {V} (t : V * V * V) : V * V * V := let '(a, b, c) := t in (a, c, b).

Lemma erev_invol : forall {V} (e : V * V), erev (erev e) = e.
Proof. intros V [a b]. reflexivity. Qed.

Lemma flip_edges : forall {V} (t : V * V * V) e, In e (tri_edges (flip t)) <-> In (erev e) (tri_edges t).
Proof.
  intros V [[a b] c] [x y]. unfold erev. cbn. intuition congruence.
Qed.

Lemma flip_nondeg : forall {V} (t : V * V * V), nondeg t -> nondeg (flip t).
Proof. intros V [[a b] c]. unfold flip, nondeg. intuition congruence. Qed.

Lemma map3_edges : forall {V W} (f : V -> W) (t : V * V * V) e,
  In e (tri_edges (map3 f t)) <-> exists e0, In e0 (tri_edges t) /\ e = (f (fst e0), f (snd e0)).
Proof.
  intros V W f [[a b] c] e. unfold map3, tri_edges. cbn [In]. split.
  - intros [<-|[<-|[<-|[]]]]; [exists (a, b)|exists (b, c)|exists (c, a)]; cbn; auto.
  - intros (e0 & [<-|[<-|[<-|[]]]] & ->); cbn; auto.
Qed.

Lemma nondeg_nodup_edges : forall {V} (t : V * V * V), nondeg t -> NoDup (tri_edges t).
Proof.
  intros V [[a b] c] (H1 & H2 & H3). unfold tri_edges.
  repeat constructor; cbn [In]; intuition congruence.
Qed.

Lemma dedges_map : forall {P V} (T : P -> V * V * V) (ps : list P),
  dedges (map T ps) = flat_map (fun p => tri_edges (T p)) ps.
Proof. intros. unfold dedges. induction ps as [|p ps IH]; cbn; [reflexivity|]. now rewrite IH. Qed.

Lemma tris_of_map : forall {V W} (f : V -> W) (l : list V), tris_of (map f l) = map (map3 f) (tris_of l).
Proof.
  intros V W f. fix IH 1. intros [|a [|b [|c l]]]; cbn; try reflexivity. now rewrite IH.
Qed.

(* ---- families ---- *)
Section Family.
  Context {P V : Type}.

  Record good (T : P -> V * V * V) (ps : list P) : Prop := {
    g_nodup : NoDup ps;
    g_nondeg : forall p, In p ps -> nondeg (T p);
    g_disj : forall p q e, In p ps -> In q ps -> In e (tri_edges (T p)) -> In e (tri_edges (T q)) -> p = q;
    g_twin : forall p e, In p ps -> In e (tri_edges (T p)) -> exists q, In q ps /\ In (erev e) (tri_edges (T q)) }.

  Theorem good_closed : forall T ps, good T ps -> closed (map T ps).
  Proof.
    intros T ps [ND Hd Hj Ht]. unfold closed. rewrite dedges_map. split; [|split].
    - apply Forall_forall. intros t Ht'. apply in_map_iff in Ht'. destruct Ht' as (p & <- & Hp). apply Hd, Hp.
    - apply nodup_flat_map; [exact ND| |].
      + intros p Hp. apply nondeg_nodup_edges, Hd, Hp.
      + intros p q e Hp Hq. apply Hj; assumption.
    - intros e He. apply in_flat_map in He. destruct He as (p & Hp & He).
      destruct (Ht p e Hp He) as (q & Hq & Hr). apply in_flat_map. exists q. split; assumption.
  Qed.

  Lemma good_flip : forall T ps, good T ps -> good (fun p => flip (T p)) ps.
  Proof.
    intros T ps [ND Hd Hj Ht]. constructor.
    - exact ND.
    - intros p Hp. apply flip_nondeg, Hd, Hp.
    - intros p q e Hp Hq H1 H2. apply flip_edges in H1, H2. exact (Hj p q _ Hp Hq H1 H2).
    - intros p e Hp He. apply flip_edges in He. destruct (Ht p _ Hp He) as (q & Hq & Hr).
      exists q. split; [exact Hq|]. apply flip_edges. exact Hr.
  Qed.
End Family.

Definition valid3 {V} (valid : V -> Prop) (t : V * V * V) : Prop :=
  let '(a, b, c) := t in valid a /\ valid b /\ valid c.

Lemma valid3_edge : forall {V} (valid : V -> Prop) (t : V * V * V) e,
  valid3 valid t -> In e (tri_edges t) -> valid (fst e) /\ valid (snd e).
Proof.
  intros V valid [[a b] c] e (Ha & Hb & Hc). unfold tri_edges. cbn [In].
  intros [<-|[<-|[<-|[]]]]; cbn; auto.
Qed.

Lemma good_map : forall {P V W} (valid : V -> Prop) (f : V -> W) (T : P -> V * V * V) (ps : list P),
  (forall p, In p ps -> valid3 valid (T p)) ->
  (forall x y, valid x -> valid y -> f x = f y -> x = y) ->
  good T ps -> good (fun p => map3 f (T p)) ps.
Proof.
  intros P V W valid f T ps Hv Hi [ND Hd Hj Ht]. constructor.
  - exact ND.
  - intros p Hp. specialize (Hd p Hp). specialize (Hv p Hp). destruct (T p) as [[a b] c].
    destruct Hv as (Va & Vb & Vc). destruct Hd as (H1 & H2 & H3). unfold map3, nondeg.
    repeat split; intros E; apply Hi in E; auto.
  - intros p q e Hp Hq H1 H2. apply map3_edges in H1, H2.
    destruct H1 as (e1 & H1 & E1). destruct H2 as (e2 & H2 & E2).
    destruct (valid3_edge valid _ _ (Hv p Hp) H1) as (V1a & V1b).
    destruct (valid3_edge valid _ _ (Hv q Hq) H2) as (V2a & V2b).
    rewrite E1 in E2. apply pair_equal_spec in E2. destruct E2 as (Ea & Eb).
    apply Hi in Ea; [|assumption|assumption]. apply Hi in Eb; [|assumption|assumption].
    assert (e1 = e2) by (destruct e1, e2; cbn in *; congruence). subst e2.
    exact (Hj p q e1 Hp Hq H1 H2).
  - intros p e Hp He. apply map3_edges in He. destruct He as (e0 & H0 & ->).
    destruct (Ht p e0 Hp H0) as (q & Hq & Hr). exists q. split; [exact Hq|].
    apply map3_edges. exists (erev e0). split; [exact Hr|]. reflexivity.
Qed.

(* pairs *)
Lemma pair_eq : forall {A B} (a a' : A) (b b' : B), a = a' -> b = b' -> (a, b) = (a', b').
Proof. intros; subst; reflexivity. Qed.

Lemma tris_of_app : forall {V} (k : nat) (a l : list V),
  length a = (3 * k)%nat -> tris_of (a ++ l) = tris_of a ++ tris_of l.
Proof.
  intros V. induction k as [|k IH]; intros a l H.
  - destruct a; [reflexivity|discriminate].
  - destruct a as [|x [|y [|z a]]]; cbn in H; try lia.
    cbn [app tris_of]. rewrite IH by lia. reflexivity.
Qed.

Lemma tris_of_flat_map_k : forall {A V} (k : nat) (f : A -> list V),
  (forall x, length (f x) = (3 * k)%nat) ->
  forall xs l, tris_of (flat_map f xs ++ l) = flat_map (fun x => tris_of (f x)) xs ++ tris_of l.
Proof.
  intros A V k f H. induction xs as [|a xs IH]; intros l; cbn [flat_map app]; [reflexivity|].
  rewrite <- !app_assoc, (tris_of_app k) by apply H. now rewrite IH.
Qed.

(* ---- cyclic successor / predecessor on 0 … n-1 (the seam wrap-around of the generators) ---- *)
Definition sn (n k : N) : N := (k + 1) mod n.
Definition pn (n k : N) : N := (k + n - 1) mod n.

Lemma sn_spec : forall n k, k < n -> (sn n k = k + 1 /\ k + 1 < n) \/ (sn n k = 0 /\ k + 1 = n).
Proof.
  intros n k H. unfold sn. destruct (N.eq_dec (k + 1) n) as [E|E].
  - right. split; [|exact E]. rewrite E. apply N.mod_same. lia.
  - left. split; [|lia]. apply N.mod_small. lia.
Qed.

Lemma pn_spec : forall n k, k < n -> (k = 0 /\ pn n k = n - 1) \/ (0 < k /\ pn n k = k - 1).
Proof.
  intros n k H. unfold pn. destruct (N.eq_dec k 0) as [E|E].
  - left. split; [exact E|]. subst k. apply N.mod_small. lia.
  - right. split; [lia|]. replace (k + n - 1) with (k - 1 + 1 * n) by lia.
    rewrite N.mod_add by lia. apply N.mod_small. lia.
Qed.

Lemma sn_lt : forall n k, k < n -> sn n k < n.
Proof. intros n k H. destruct (sn_spec n k H); lia. Qed.
Lemma pn_lt : forall n k, k < n -> pn n k < n.
Proof. intros n k H. destruct (pn_spec n k H); lia. Qed.
Lemma sn_pn : forall n k, k < n -> sn n (pn n k) = k.
Proof. intros n k H. pose proof (pn_spec n k H). pose proof (sn_spec n (pn n k) (pn_lt n k H)). lia. Qed.
Lemma pn_sn : forall n k, k < n -> pn n (sn n k) = k.
Proof. intros n k H. pose proof (sn_spec n k H). pose proof (pn_spec n (sn n k) (sn_lt n k H)). lia. Qed.

Lemma tris_of_flat_map_k0 : forall {A V} (k : nat) (f : A -> list V),
  (forall x, length (f x) = (3 * k)%nat) ->
  forall xs, tris_of (flat_map f xs) = flat_map (fun x => tris_of (f x)) xs.
Proof.
  intros A V k f H xs. rewrite <- (app_nil_r (flat_map f xs)), (tris_of_flat_map_k k f H).
  cbn [tris_of]. now rewrite app_nil_r.
Qed.
