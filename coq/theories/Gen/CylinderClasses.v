(* C18 — "once coincident positions are merged" for the capped cylinder: the class map [cyl_cls] (seam column = column 0,
   top cap rim k = strip column k, bottom cap rim k = strip column (n-k) mod n after the half turn, the two cap centres on
   their own) is DERIVED from the generator's positions over R: two vertices are at the same point exactly when cyl_cls
   gives them the same representative.  (The harness observes the same classes on the float positions, merged within 1e-9.) *)
From PF Require Import Gen.Closed Gen.CubeProofs Gen.Cylinder Gen.CylinderVolume Gen.Sphere Gen.SphereVolume Gen.SphereDistinct.
From Coq Require Import Reals Lra Psatz Lia ZifyN ZifyNat ZifyBool.
Ltac Zify.zify_post_hook ::= Z.div_mod_to_equations.
Open Scope R_scope.

(* normal form of a vertex: (kind, column) with kind 0 = top rim, 1 = bottom rim, 2 = top centre, 3 = bottom centre *)
Definition cyl_nf (n v : N) : N * N :=
  let t := strip_nverts n in
  let b := (t + circle_nverts n)%N in
  if (v <? t)%N then ((v mod 2)%N, ((v / 2) mod n)%N)
  else if (v <? t + n)%N then (0%N, (v - t)%N)
  else if (v <? b)%N then (2%N, 0%N)
  else if (v <? b + n)%N then (1%N, ((n - (v - b)) mod n)%N)
  else (3%N, 0%N).
Definition nf_ok (n : N) (p : N * N) : Prop :=
  let '(k, c) := p in ((k = 0 \/ k = 1) /\ c < n)%N \/ ((k = 2 \/ k = 3) /\ c = 0)%N.
Definition nf_pos (n : N) (rad h : R) (p : N * N) : rvec :=
  let '(k, c) := p in
  match k with
  | 0%N => (cos (ang n c) * rad, h / 2, sin (ang n c) * rad)
  | 1%N => (cos (ang n c) * rad, - (h / 2), sin (ang n c) * rad)
  | 2%N => (0, h / 2, 0)
  | _ => (0, - (h / 2), 0)
  end.
Definition nf_code (n : N) (p : N * N) : N :=
  let '(k, c) := p in
  match k with
  | 0%N => 2 * c
  | 1%N => 2 * c + 1
  | 2%N => strip_nverts n + n
  | _ => strip_nverts n + circle_nverts n + n
  end.

Lemma cyl_nf_ok : forall n v, (1 <= n)%N -> (v < cyl_nverts n)%N -> nf_ok n (cyl_nf n v).
Proof.
  intros n v Hn Hv. unfold cyl_nverts, strip_nverts, circle_nverts in Hv. unfold cyl_nf, nf_ok, strip_nverts, circle_nverts.
  destruct (N.ltb_spec v (2 * n + 2)).
  - left. split; [pose proof (N.mod_lt v 2); lia|apply N.mod_lt; lia].
  - destruct (N.ltb_spec v (2 * n + 2 + n)); [left; split; lia|].
    destruct (N.ltb_spec v (2 * n + 2 + (n + 1))); [right; split; [left; reflexivity|reflexivity]|].
    destruct (N.ltb_spec v (2 * n + 2 + (n + 1) + n)); [left; split; [right; reflexivity|apply N.mod_lt; lia]|].
    right. split; [right; reflexivity|reflexivity].
Qed.

Lemma cyl_cls_code : forall n v, (1 <= n)%N -> (v < cyl_nverts n)%N -> cyl_cls n v = nf_code n (cyl_nf n v).
Proof.
  intros n v Hn Hv. unfold cyl_nverts, strip_nverts, circle_nverts in Hv. unfold cyl_cls, cyl_nf, nf_code, strip_nverts, circle_nverts.
  destruct (N.ltb_spec v (2 * n + 2)).
  - assert (M : (v mod 2 = 0 \/ v mod 2 = 1)%N) by (pose proof (N.mod_lt v 2); lia).
    destruct M as [M|M]; rewrite M; [rewrite N.add_0_r|]; reflexivity.
  - destruct (N.ltb_spec v (2 * n + 2 + n)); [reflexivity|].
    destruct (N.ltb_spec v (2 * n + 2 + (n + 1))); [lia|].
    destruct (N.ltb_spec v (2 * n + 2 + (n + 1) + n)); [reflexivity|lia].
Qed.

Lemma ang_range : forall n c, (c < n)%N -> 0 <= ang n c < 2 * PI.
Proof.
  intros n c H. pose proof PI_RGT_0. pose proof (NR_nonneg c) as A. pose proof (NR_lt _ _ H) as B.
  assert (P : 0 < NR n) by lra. unfold ang.
  replace (1 / NR n * 2 * PI * NR c) with (2 * PI * (NR c / NR n)) by (field; lra).
  assert (Q : 0 <= NR c / NR n < 1).
  { split; [apply Rmult_le_pos; [lra|left; apply Rinv_0_lt_compat; lra]|].
    apply (Rmult_lt_reg_r (NR n)); [lra|]. unfold Rdiv. rewrite Rmult_assoc, Rinv_l by lra. lra. }
  split; nra.
Qed.
Lemma ang_inj : forall n c c', (1 <= n)%N -> ang n c = ang n c' -> c = c'.
Proof.
  intros n c c' Hn H. pose proof (NR_pos n Hn). pose proof PI_RGT_0. unfold ang in H. apply NR_inj.
  apply (Rmult_eq_reg_l (1 / NR n * 2 * PI)); [exact H|]. apply Rgt_not_eq. unfold Rdiv. rewrite Rmult_1_l.
  apply Rmult_lt_0_compat; [apply Rmult_lt_0_compat; [apply Rinv_0_lt_compat; lra|lra]|lra].
Qed.

(* the angle of column k <= n is that of column k mod n (k = n: a full turn) *)
Lemma ang_mod : forall n k, (1 <= n)%N -> (k <= n)%N ->
  cos (ang n (k mod n)) = cos (ang n k) /\ sin (ang n (k mod n)) = sin (ang n k).
Proof.
  intros n k Hn Hk. destruct (N.eq_dec k n) as [->|Ne].
  - rewrite N.mod_same by lia. rewrite ang_0, (ang_full n Hn), cos_0, sin_0, cos_2PI, sin_2PI. split; reflexivity.
  - rewrite N.mod_small by lia. split; reflexivity.
Qed.
(* the bottom cap's half turn: rim k (at angle -a_k) sits on column (n - k) mod n *)
Lemma ang_flip : forall n k, (1 <= n)%N -> (k < n)%N ->
  cos (ang n ((n - k) mod n)) = cos (ang n k) /\ sin (ang n ((n - k) mod n)) = - sin (ang n k).
Proof.
  intros n k Hn Hk. destruct (N.eq_dec k 0) as [->|Ne].
  - rewrite N.sub_0_r, N.mod_same by lia. rewrite ang_0, sin_0. split; [reflexivity|ring].
  - rewrite N.mod_small by lia.
    assert (E : ang n (n - k) = 2 * PI - ang n k).
    { pose proof (NR_pos n Hn). unfold ang.
      assert (S : NR (n - k) = NR n - NR k) by (unfold NR; rewrite N2Z.inj_sub by lia; apply minus_IZR).
      rewrite S. field. lra. }
    rewrite E. rewrite cos_minus, sin_minus, cos_2PI, sin_2PI. split; ring.
Qed.

Lemma cyl_pos_nf : forall n rad h v, (1 <= n)%N -> (v < cyl_nverts n)%N -> cyl_posR n rad h v = nf_pos n rad h (cyl_nf n v).
Proof.
  intros n rad h v Hn Hv. unfold cyl_nverts, strip_nverts, circle_nverts in Hv.
  unfold cyl_posR, cyl_nf, nf_pos, strip_nverts, circle_nverts.
  destruct (N.ltb_spec v (2 * n + 2)).
  - assert (K : (v / 2 <= n)%N) by lia. destruct (ang_mod n (v / 2)%N Hn K) as [C S]. rewrite C, S.
    assert (M : (v mod 2 = 0 \/ v mod 2 = 1)%N) by (pose proof (N.mod_lt v 2); lia).
    destruct M as [M|M]; rewrite M; reflexivity.
  - destruct (N.ltb_spec v (2 * n + 2 + n)); [reflexivity|].
    destruct (N.ltb_spec v (2 * n + 2 + (n + 1))); [reflexivity|].
    destruct (N.ltb_spec v (2 * n + 2 + (n + 1) + n)); [|reflexivity].
    destruct (ang_flip n (v - (2 * n + 2 + (n + 1)))%N Hn ltac:(lia)) as [C S]. rewrite C, S.
    f_equal. ring.
Qed.

Lemma rim_not_centre : forall a rad, 0 < rad -> cos a * rad = 0 -> sin a * rad = 0 -> False.
Proof.
  intros a rad Hr C S. pose proof (sin2_cos2 a) as Q. unfold Rsqr in Q.
  assert (cos a = 0) by (apply (Rmult_eq_reg_r rad); lra). assert (sin a = 0) by (apply (Rmult_eq_reg_r rad); lra). nra.
Qed.

Lemma nf_pos_inj : forall n rad h p q, (1 <= n)%N -> 0 < rad -> 0 < h -> nf_ok n p -> nf_ok n q ->
  nf_pos n rad h p = nf_pos n rad h q -> p = q.
Proof.
  intros n rad h [k c] [k' c'] Hn Hr Hh Hp Hq E. unfold nf_ok in Hp, Hq.
  assert (RIM : forall a b, (a < n)%N -> (b < n)%N -> cos (ang n a) * rad = cos (ang n b) * rad ->
                 sin (ang n a) * rad = sin (ang n b) * rad -> a = b).
  { intros a b Ha Hb C S. apply (ang_inj n a b Hn). apply circle_inj; try (apply ang_range; assumption).
    - apply (Rmult_eq_reg_r rad); lra.
    - apply (Rmult_eq_reg_r rad); lra. }
  destruct Hp as [[[-> | ->] Hc]|[[-> | ->] ->]]; destruct Hq as [[[-> | ->] Hc']|[[-> | ->] ->]];
    cbn [nf_pos] in E;
    pose proof (f_equal (fun p : rvec => fst (fst p)) E) as Ex; pose proof (f_equal (fun p : rvec => snd (fst p)) E) as Ey;
    pose proof (f_equal (fun p : rvec => snd p) E) as Ez; cbn [fst snd] in Ex, Ey, Ez;
    try (exfalso; lra); try reflexivity;
    try (f_equal; apply RIM; assumption);
    try (exfalso; apply (rim_not_centre (ang n c) rad Hr); lra);
    try (exfalso; apply (rim_not_centre (ang n c') rad Hr); lra).
Qed.

Lemma nf_code_inj : forall n p q, (1 <= n)%N -> nf_ok n p -> nf_ok n q -> nf_code n p = nf_code n q -> p = q.
Proof.
  intros n [k c] [k' c'] Hn Hp Hq E. unfold nf_ok in Hp, Hq.
  destruct Hp as [[[-> | ->] Hc]|[[-> | ->] ->]]; destruct Hq as [[[-> | ->] Hc']|[[-> | ->] ->]];
    cbn [nf_code] in E; unfold strip_nverts, circle_nverts in E;
    try reflexivity; try (exfalso; lia); f_equal; lia.
Qed.

Theorem cyl_classes_from_positions : forall n rad h v w, (1 <= n)%N -> 0 < rad -> 0 < h ->
  (v < cyl_nverts n)%N -> (w < cyl_nverts n)%N ->
  (cyl_posR n rad h v = cyl_posR n rad h w <-> cyl_cls n v = cyl_cls n w).
Proof.
  intros n rad h v w Hn Hr Hh Hv Hw.
  rewrite !cyl_pos_nf, !cyl_cls_code by assumption.
  pose proof (cyl_nf_ok n v Hn Hv) as Ov. pose proof (cyl_nf_ok n w Hn Hw) as Ow.
  split; intro E.
  - apply nf_pos_inj in E; try assumption. rewrite E. reflexivity.
  - apply nf_code_inj in E; try assumption. rewrite E. reflexivity.
Qed.
