(* C18 — primitives.Cube.Welded (table cubeVertIndices) and Cube.UnweldedQuads (six rotated quads
   appended), modeling/primitives/cube.go + quad.go.  Positions are exact: integer half extents. *)
From PF Require Export Gen.Closed.
Open Scope N_scope.

(* var cubeVertIndices *)
Definition cubeW_idx : list N :=
  [ 0; 2; 6;  0; 6; 4;    (* Back *)
    1; 3; 2;  1; 2; 0;    (* Left *)
    4; 6; 7;  4; 7; 5;    (* Right *)
    2; 3; 7;  2; 7; 6;    (* Top *)
    1; 0; 4;  1; 4; 5;    (* Bottom *)
    5; 7; 3;  5; 3; 1 ].  (* Front *)
Definition cubeW_nverts : N := 8.
Definition cubeW_cls (k : N) : N := k.

(* Quad.ToMesh indices; six of them appended: top, bottom, left, right, front, back *)
Definition quad_idx : list N := [0; 1; 2; 2; 3; 0].
Definition cubeQ_idx : list N := flat_map (fun k => map (fun i => i + 4 * k) quad_idx) (nseq 6).
Definition cubeQ_nverts : N := 24.

Open Scope Z_scope.
(* potentialVerts of Welded(), half extents hw hh hd *)
Definition cubeW_pos (hw hh hd : Z) : list vec :=
  [ (-hw, -hh, -hd); (-hw, -hh, hd); (-hw, hh, -hd); (-hw, hh, hd);
    ( hw, -hh, -hd); ( hw, -hh, hd); ( hw, hh, -hd); ( hw, hh, hd) ].

(* Quad{Width: 2a, Depth: 2b}.ToMesh positions *)
Definition quad_pos (a b : Z) : list vec := [(-a, 0, -b); (-a, 0, b); (a, 0, b); (a, 0, -b)].
(* the quaternion rotations used by UnweldedQuads, as the exact maps they stand for
   (FromTheta with multiples of pi/2; the float result differs from these by rounding only) *)
Definition rotZ_pi   (v : vec) : vec := let '(x, y, z) := v in (-x, -y, z).     (* pi about Forward (0,0,1) *)
Definition rotZ_half (v : vec) : vec := let '(x, y, z) := v in (-y, x, z).      (* pi/2 about Forward *)
Definition rotZ_3half (v : vec) : vec := let '(x, y, z) := v in (y, -x, z).     (* 3pi/2 about Forward *)
Definition rotL_3half (v : vec) : vec := let '(x, y, z) := v in (x, -z, y).     (* 3pi/2 about Left (-1,0,0) = pi/2 about +x *)
Definition rotL_half (v : vec) : vec := let '(x, y, z) := v in (x, z, -y).      (* pi/2 about Left *)
Definition cubeQ_pos (hw hh hd : Z) : list vec :=
  map (vadd (0, hh, 0)) (quad_pos hw hd)                               (* top *)
  ++ map (fun v => vadd (0, -hh, 0) (rotZ_pi v)) (quad_pos hw hd)      (* bottom *)
  ++ map (fun v => vadd (-hw, 0, 0) (rotZ_half v)) (quad_pos hh hd)    (* left *)
  ++ map (fun v => vadd (hw, 0, 0) (rotZ_3half v)) (quad_pos hh hd)    (* right *)
  ++ map (fun v => vadd (0, 0, hd) (rotL_3half v)) (quad_pos hw hh)    (* front *)
  ++ map (fun v => vadd (0, 0, -hd) (rotL_half v)) (quad_pos hw hh).   (* back *)
Close Scope Z_scope.

(* coincidence classes of the 24 quad corners (representative = smallest index at that corner) *)
Definition cubeQ_cls_table : list N :=
  [0; 1; 2; 3;  4; 5; 6; 7;  7; 6; 1; 0;  3; 2; 5; 4;  1; 6; 5; 2;  7; 0; 3; 4].
Definition cubeQ_cls (k : N) : N := nth (N.to_nat k) cubeQ_cls_table k.

(* the class of a vertex computed from positions: first index holding the same position *)
Fixpoint first_same (p : vec) (l : list vec) (k : N) : N :=
  match l with
  | [] => k
  | q :: r => if vec_eqb p q then k else first_same p r (k + 1)
  end.
Definition pos_classes (pos : list vec) : list N := map (fun p => first_same p pos 0) pos.
