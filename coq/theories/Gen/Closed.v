(* C18 — closed, consistently oriented triangle surfaces: definitions and the executable checker.
   (Definitions only; the proofs about them are in Gen/ClosedProofs.v.)

   A triangle list (already expressed in coincidence classes of vertices) is [closed] when no triangle is
   degenerate, no directed edge is used twice, and the reverse of every directed edge is used as well:
   every directed edge occurs exactly once and its reverse exactly once — the surface has no boundary,
   no edge shared by more than two faces, and neighbouring faces agree in orientation. *)
From Coq Require Export List NArith ZArith Bool.
From Coq Require Import OrdersEx MSetAVL.
Export ListNotations.
Open Scope N_scope.

Section Defs.
  Context {V : Type}.
  Definition tri : Type := V * V * V.
  Definition edge : Type := V * V.
  Definition tri_edges (t : tri) : list edge := let '(a, b, c) := t in [(a, b); (b, c); (c, a)].
  Definition dedges (ts : list tri) : list edge := flat_map tri_edges ts.
  Definition erev (e : edge) : edge := (snd e, fst e).
  Definition nondeg (t : tri) : Prop := let '(a, b, c) := t in a <> b /\ b <> c /\ c <> a.
  Definition closed (ts : list tri) : Prop :=
    Forall nondeg ts /\ NoDup (dedges ts) /\ forall e, In e (dedges ts) -> In (erev e) (dedges ts).
End Defs.

(* flat index list -> triangles (a trailing partial triangle is dropped, as PrimitiveCount does) *)
Fixpoint tris_of {V} (l : list V) : list (V * V * V) :=
  match l with
  | a :: b :: c :: r => (a, b, c) :: tris_of r
  | _ => []
  end.
Definition map3 {A B} (f : A -> B) (t : A * A * A) : B * B * B := let '(a, b, c) := t in (f a, f b, f c).

(* a flat index list describes a closed surface once its vertices are replaced by their classes *)
Definition closed_idx (cls : N -> N) (idx : list N) : Prop :=
  (N.of_nat (length idx)) mod 3 = 0 /\ closed (tris_of (map cls idx)).

(* every index refers to an existing vertex, whole triangles only (also what C02 asks of a constructor) *)
Definition wf_idx (nverts : N) (idx : list N) : Prop :=
  (N.of_nat (length idx)) mod 3 = 0 /\ Forall (fun i => i < nverts) idx.
Definition wf_idxb (nverts : N) (idx : list N) : bool :=
  ((N.of_nat (length idx)) mod 3 =? 0) && forallb (fun i => i <? nverts) idx.

(* ---- executable checker: balanced-tree set of directed edges ---- *)
Module NN := PairOrderedType N_as_OT N_as_OT.
Module ES := MSetAVL.Make NN.

(* insert the edges one by one; None as soon as one is already present *)
Fixpoint nodup_from (l : list (N * N)) (s : ES.t) : option ES.t :=
  match l with
  | [] => Some s
  | e :: r => if ES.mem e s then None else nodup_from r (ES.add e s)
  end.
Definition nondegb (t : N * N * N) : bool :=
  let '(a, b, c) := t in negb (a =? b) && negb (b =? c) && negb (c =? a).
Definition closedb (ts : list (N * N * N)) : bool :=
  forallb nondegb ts &&
  match nodup_from (dedges ts) ES.empty with
  | Some s => forallb (fun e => ES.mem (erev e) s) (dedges ts)
  | None => false
  end.
Definition closed_idxb (cls : N -> N) (idx : list N) : bool :=
  ((N.of_nat (length idx)) mod 3 =? 0) && closedb (tris_of (map cls idx)).

(* 0, 1, …, n-1, generated in time linear in n (a counter in N; [map N.of_nat (seq 0 n)] would convert every
   element from unary and be quadratic — the generators are also evaluated at 2^16 vertices) *)
Fixpoint nseq_from (k : nat) (a : N) : list N :=
  match k with O => [] | S k' => a :: nseq_from k' (a + 1) end.
Definition nseq (n : N) : list N := nseq_from (N.to_nat n) 0.

(* ---- exact signed volume (six times it) of an indexed triangle list over integer positions:
        the divergence-theorem sum  Σ det(a, b, c) ---- *)
Open Scope Z_scope.
Definition vec : Type := Z * Z * Z.
Definition vsub (a b : vec) : vec := let '(ax, ay, az) := a in let '(bx, by_, bz) := b in (ax - bx, ay - by_, az - bz).
Definition vadd (a b : vec) : vec := let '(ax, ay, az) := a in let '(bx, by_, bz) := b in (ax + bx, ay + by_, az + bz).
Definition vdot (a b : vec) : Z := let '(ax, ay, az) := a in let '(bx, by_, bz) := b in ax * bx + ay * by_ + az * bz.
Definition vcross (a b : vec) : vec :=
  let '(ax, ay, az) := a in let '(bx, by_, bz) := b in (ay * bz - az * by_, az * bx - ax * bz, ax * by_ - ay * bx).
Definition det3 (a b c : vec) : Z := vdot a (vcross b c).
Definition vol6 (ts : list (vec * vec * vec)) : Z := fold_right (fun t acc => let '(a, b, c) := t in det3 a b c + acc) 0 ts.
(* (unnormalised) face normal and the outward test against an interior point p *)
Definition fnormal (t : vec * vec * vec) : vec := let '(a, b, c) := t in vcross (vsub b a) (vsub c a).
Definition faces_away (p : vec) (t : vec * vec * vec) : Prop := let '(a, _, _) := t in 0 < vdot (fnormal t) (vsub a p).
Definition faces_awayb (p : vec) (t : vec * vec * vec) : bool := let '(a, _, _) := t in 0 <? vdot (fnormal t) (vsub a p).
Definition vzero : vec := (0, 0, 0).
Definition vec_eqb (a b : vec) : bool :=
  let '(ax, ay, az) := a in let '(bx, by_, bz) := b in (ax =? bx) && (ay =? by_) && (az =? bz).
Close Scope Z_scope.

Fixpoint leqb {A} (e : A -> A -> bool) (a b : list A) : bool :=
  match a, b with
  | [], [] => true
  | x :: a', y :: b' => e x y && leqb e a' b'
  | _, _ => false
  end.
