(* C18 — proofs about Gen/Closed.v: the checker decides closedness; transport lemmas. *)
From PF Require Import Gen.Closed.
From Coq Require Import Lia OrdersEx MSetAVL RelationPairs Permutation.
Open Scope N_scope.

Lemma NN_eq_iff : forall a b : N * N, NN.eq a b <-> a = b.
Proof.
  intros [a1 a2] [b1 b2]. unfold NN.eq. split.
  - intros [H1 H2]. cbv in H1, H2. congruence.
  - intros [= -> ->]. split; reflexivity.
Qed.

Lemma ES_add_iff : forall s x y, ES.In y (ES.add x s) <-> y = x \/ ES.In y s.
Proof. intros. rewrite ES.add_spec. rewrite <- (NN_eq_iff y x). reflexivity. Qed.

Lemma ES_mem_false : forall s x, ES.mem x s = false <-> ~ ES.In x s.
Proof.
  intros. rewrite <- ES.mem_spec. destruct (ES.mem x s); split; congruence.
Qed.

Lemma nodup_from_spec : forall l s,
  match nodup_from l s with
  | Some s' => NoDup l /\ (forall x, In x l -> ~ ES.In x s) /\ (forall x, ES.In x s' <-> In x l \/ ES.In x s)
  | None => ~ (NoDup l /\ forall x, In x l -> ~ ES.In x s)
  end.
Proof.
  induction l as [|e r IH]; intros s; cbn [nodup_from].
  - repeat split; [constructor | intros x [] | tauto | intros [[]|]; assumption].
  - destruct (ES.mem e s) eqn:M.
    + apply ES.mem_spec in M. intros [_ H]. exact (H e (or_introl eq_refl) M).
    + apply ES_mem_false in M. specialize (IH (ES.add e s)).
      destruct (nodup_from r (ES.add e s)) as [s'|].
      * destruct IH as (ND & Hnot & Hin). repeat split.
        -- constructor; [|exact ND]. intros Hr. apply (Hnot e Hr). apply ES_add_iff. now left.
        -- intros x [<-|Hx]; [exact M|]. intros Hs. apply (Hnot x Hx). apply ES_add_iff. now right.
        -- rewrite Hin, ES_add_iff. cbn [In]. intuition congruence.
        -- rewrite Hin, ES_add_iff. cbn [In]. intuition congruence.
      * intros [ND Hnot]. apply IH. inversion ND as [|? ? Hne ND']; subst. split; [exact ND'|].
        intros x Hx Hs. apply ES_add_iff in Hs. destruct Hs as [->|Hs]; [exact (Hne Hx)|].
        exact (Hnot x (or_intror Hx) Hs).
Qed.

Lemma nondegb_iff : forall t, nondegb t = true <-> nondeg t.
Proof.
  intros [[a b] c]. unfold nondegb, nondeg.
  rewrite !andb_true_iff, !negb_true_iff, !N.eqb_neq. tauto.
Qed.

Theorem closedb_iff : forall ts : list (N * N * N), closedb ts = true <-> closed ts.
Proof.
  intros ts. unfold closedb, closed. rewrite andb_true_iff, forallb_forall, Forall_forall.
  pose proof (nodup_from_spec (dedges ts) ES.empty) as H.
  destruct (nodup_from (dedges ts) ES.empty) as [s|].
  - destruct H as (ND & _ & Hin). rewrite forallb_forall. split.
    + intros [Hd Hr]. split; [intros t Ht; apply nondegb_iff, Hd, Ht|]. split; [exact ND|].
      intros e He. specialize (Hr e He). apply ES.mem_spec, Hin in Hr. destruct Hr as [Hr|Hr]; [exact Hr|].
      exfalso. exact (ES.empty_spec Hr).
    + intros (Hd & _ & Hr). split; [intros t Ht; apply nondegb_iff, Hd, Ht|].
      intros e He. apply ES.mem_spec, Hin. left. apply Hr, He.
  - split; [intros [_ F]; discriminate|]. intros (_ & ND & _). exfalso. apply H. split; [exact ND|].
    intros x _ Hx. exact (ES.empty_spec Hx).
Qed.

Theorem closed_idxb_iff : forall cls idx, closed_idxb cls idx = true <-> closed_idx cls idx.
Proof.
  intros. unfold closed_idxb, closed_idx. rewrite andb_true_iff, N.eqb_eq, closedb_iff. reflexivity.
Qed.

Lemma wf_idxb_iff : forall n idx, wf_idxb n idx = true <-> wf_idx n idx.
Proof.
  intros. unfold wf_idxb, wf_idx. rewrite andb_true_iff, N.eqb_eq, forallb_forall, Forall_forall.
  split; intros [H1 H2]; (split; [exact H1|]); intros x Hx; apply N.ltb_lt; auto.
Qed.

(* "every directed edge occurs exactly once and its reverse exactly once" *)
Section Count.
  Context {V : Type} (eq_dec : forall x y : V * V, {x = y} + {x <> y}).
  Lemma closed_edge_counts : forall ts : list (V * V * V), closed ts ->
    forall e, In e (dedges ts) ->
      count_occ eq_dec (dedges ts) e = 1%nat /\ count_occ eq_dec (dedges ts) (erev e) = 1%nat /\ erev e <> e.
  Proof.
    intros ts (Hd & ND & Hr) e He.
    pose proof (proj1 (NoDup_count_occ' eq_dec (dedges ts)) ND) as C.
    split; [apply C, He|]. split; [apply C, Hr, He|].
    unfold dedges in He. apply in_flat_map in He. destruct He as ([[a b] c] & Ht & He).
    rewrite Forall_forall in Hd. specialize (Hd _ Ht). cbn in Hd, He.
    destruct Hd as (H1 & H2 & H3).
    destruct He as [<-|[<-|[<-|[]]]]; unfold erev; cbn [fst snd]; intros [= ? ?]; congruence.
  Qed.
End Count.
