(* C18 — index pattern of primitives.Cylinder.ToMesh with both caps (modeling/primitives/cylinder.go,
   circle.go, Mesh.Append).  No proofs in this file. *)
From PF Require Export Gen.Closed.
Open Scope N_scope.

(* side strip: columns 0 … sides (column `sides` repeats column 0), vertex 2*col = top, 2*col+1 = bottom *)
Definition strip_nverts (n : N) : N := 2 * n + 2.
Definition strip_idx (n : N) : list N :=
  flat_map (fun s' => let s := s' + 1 in              (* for sideIndex := 1; sideIndex <= Sides *)
    let topLeft := (s - 1) * 2 in
    let topRight := s * 2 in
    let bottomLeft := topLeft + 1 in
    let bottomRight := topRight + 1 in
    [bottomLeft; topLeft; topRight; bottomLeft; topRight; bottomRight]) (nseq n).

(* Circle.ToMesh: rim vertices 0 … sides-1, centre = sides *)
Definition circle_nverts (n : N) : N := n + 1.
Definition circle_idx (n : N) : list N :=
  flat_map (fun s' => let s := s' + 1 in              (* for sideIndex := 1; sideIndex < Sides *)
    [s - 1; n; s]) (nseq (n - 1))
  ++ [n - 1; n; 0].

(* Mesh.Append: second index list shifted by the attribute length of the first mesh *)
Definition append_idx (a : list N) (alen : N) (b : list N) : list N := a ++ map (fun i => i + alen) b.

Definition cyl_idx (n : N) : list N :=
  append_idx (append_idx (strip_idx n) (strip_nverts n) (circle_idx n))
             (strip_nverts n + circle_nverts n) (circle_idx n).
Definition cyl_nverts (n : N) : N := strip_nverts n + circle_nverts n + circle_nverts n.

(* coincidence classes (representative = smallest index of the class):
   - strip column `sides` is column 0 again;
   - top cap rim vertex k sits on strip column k (top row);
   - the bottom cap is the same circle turned by pi about the x axis, (x,y,z) -> (x,-y,-z), so its rim
     vertex k (angle -a_k) sits on strip column (sides - k) mod sides (bottom row);
   - the two cap centres are on their own. *)
Definition cyl_cls (n : N) (v : N) : N :=
  let t := strip_nverts n in
  let b := t + circle_nverts n in
  if v <? t then 2 * ((v / 2) mod n) + v mod 2
  else if v <? t + n then 2 * (v - t)
  else if v <? b then v
  else if v <? b + n then 2 * ((n - (v - b)) mod n) + 1
  else v.

(* sides >= 3 is what makes the cross-section a polygon; the constructor itself does not validate *)
Definition cyl_admissible (n : N) : bool := 3 <=? n.
