(* C18 — the UV sphere over the reals: every pole-fan triangle and both triangles of every quad face away from
   the centre.  Because UVSphere supplies position/|position| as vertex normal and every vertex of a face has the
   same dot product with the face normal (the plane's offset), the same inequalities say that every vertex
   normal is on the outer side of every incident face.

   Ring vertices: (sin phi * cos theta, cos phi, sin phi * sin theta) scaled by the radius (sphere.go:27-36).
   Local statement over abstract unit directions, then the trigonometric instance for polar angles
   0 < phi0 < phi1 < pi and azimuths 0 < theta1 - theta0 < pi (the generator's steps pi/rows and 2*pi/columns,
   columns >= 3). *)
From PF Require Import Gen.CubeProofs Gen.CylinderGeom.
From Coq Require Import Reals Lra Psatz.
Open Scope R_scope.

Section Patch.
  (* sp/cp: sine / cosine of the polar angle of two consecutive rings; (c, s): azimuth direction of two consecutive columns *)
  Variables (rad sp0 cp0 sp1 cp1 c0 s0 c1 s1 : R).
  Hypothesis Hr : 0 < rad.
  Hypothesis Hs0 : 0 < sp0.
  Hypothesis Hs1 : 0 < sp1.
  Hypothesis down : 0 < cp0 * sp1 - cp1 * sp0.     (* sin (phi1 - phi0) *)
  Hypothesis turn : 0 < c0 * s1 - s0 * c1.         (* sin (theta1 - theta0) *)

  Let V (sp cp c s : R) : rvec := (sp * c * rad, cp * rad, sp * s * rad).
  Let top : rvec := (0, rad, 0).
  Let bot : rvec := (0, - rad, 0).

  Lemma det_away : forall a b c : rvec, rdot (rfnormal (a, b, c)) (rsub a rzero) = rdet3 a b c.
  Proof. intros [[a1 a2] a3] [[b1 b2] b3] [[c1' c2] c3]. unfold rdet3, rfnormal, rdot, rcross, rsub, rzero. ring. Qed.

  (* tris = append(tris, 0, i1, i0) and append(tris, v1i, i0, i1): the fans at a ring with sine sp0 *)
  Theorem fan_faces_outward :
    rfaces_away rzero (top, V sp0 cp0 c1 s1, V sp0 cp0 c0 s0) /\
    rfaces_away rzero (bot, V sp0 cp0 c0 s0, V sp0 cp0 c1 s1).
  Proof.
    assert (P : 0 < rad * rad * rad * (sp0 * sp0) * (c0 * s1 - s0 * c1)) by (repeat apply Rmult_lt_0_compat; assumption).
    unfold rfaces_away. rewrite !det_away. unfold rdet3, rdot, rcross, V, top, bot. split.
    - replace (_ + _ + _) with (rad * rad * rad * (sp0 * sp0) * (c0 * s1 - s0 * c1)) by ring. exact P.
    - replace (_ + _ + _) with (rad * rad * rad * (sp0 * sp0) * (c0 * s1 - s0 * c1)) by ring. exact P.
  Qed.

  (* tris = append(tris, i0, i1, i2, i0, i2, i3) between ring 0 (upper) and ring 1 (lower) *)
  Theorem quad_faces_outward :
    rfaces_away rzero (V sp0 cp0 c0 s0, V sp0 cp0 c1 s1, V sp1 cp1 c1 s1) /\
    rfaces_away rzero (V sp0 cp0 c0 s0, V sp1 cp1 c1 s1, V sp1 cp1 c0 s0).
  Proof.
    assert (P0 : 0 < rad * rad * rad * sp0 * (cp0 * sp1 - cp1 * sp0) * (c0 * s1 - s0 * c1))
      by (repeat apply Rmult_lt_0_compat; assumption).
    assert (P1 : 0 < rad * rad * rad * sp1 * (cp0 * sp1 - cp1 * sp0) * (c0 * s1 - s0 * c1))
      by (repeat apply Rmult_lt_0_compat; assumption).
    unfold rfaces_away. rewrite !det_away. unfold rdet3, rdot, rcross, V. split.
    - replace (_ + _ + _) with (rad * rad * rad * sp0 * (cp0 * sp1 - cp1 * sp0) * (c0 * s1 - s0 * c1)) by ring. exact P0.
    - replace (_ + _ + _) with (rad * rad * rad * sp1 * (cp0 * sp1 - cp1 * sp0) * (c0 * s1 - s0 * c1)) by ring. exact P1.
  Qed.
End Patch.

(* the trigonometric instance *)
Theorem sphere_faces_outward : forall rad phi0 phi1 th0 th1 : R,
  0 < rad -> 0 < phi0 -> phi0 < phi1 -> phi1 < PI -> 0 < th1 - th0 -> th1 - th0 < PI ->
  let V (phi th : R) : rvec := (sin phi * cos th * rad, cos phi * rad, sin phi * sin th * rad) in
  (* fans (at either pole; phi0 is the polar angle of the ring next to it) *)
  rfaces_away rzero ((0, rad, 0), V phi0 th1, V phi0 th0) /\
  rfaces_away rzero ((0, - rad, 0), V phi0 th0, V phi0 th1) /\
  (* the two triangles of the quad between the rings at phi0 and phi1 *)
  rfaces_away rzero (V phi0 th0, V phi0 th1, V phi1 th1) /\
  rfaces_away rzero (V phi0 th0, V phi1 th1, V phi1 th0).
Proof.
  intros rad phi0 phi1 th0 th1 Hr H0 H01 H1 Ht0 Ht1. cbv zeta.
  assert (S0 : 0 < sin phi0) by (apply sin_gt_0; lra).
  assert (S1 : 0 < sin phi1) by (apply sin_gt_0; lra).
  assert (D : 0 < cos phi0 * sin phi1 - cos phi1 * sin phi0).
  { replace (cos phi0 * sin phi1 - cos phi1 * sin phi0) with (sin (phi1 - phi0)) by (rewrite sin_minus; ring).
    apply sin_gt_0; lra. }
  assert (T : 0 < cos th0 * sin th1 - sin th0 * cos th1) by (apply turn_sincos; assumption).
  destruct (fan_faces_outward rad (sin phi0) (cos phi0) (cos th0) (sin th0) (cos th1) (sin th1) Hr S0 T) as [F1 F2].
  destruct (quad_faces_outward rad _ (cos phi0) _ (cos phi1) _ _ _ _ Hr S0 S1 D T) as [Q1 Q2].
  repeat split; assumption.
Qed.

(* vertex normal = position / |position|: on the outer side of a face exactly when the face points away from the
   centre (all three corners give the same dot product) *)
Theorem normal_is_position : forall a b c : rvec,
  let n := rfnormal (a, b, c) in rdot n a = rdot n (rsub a rzero) /\ rdot n b = rdot n a /\ rdot n c = rdot n a.
Proof.
  intros [[a1 a2] a3] [[b1 b2] b3] [[c1 c2] c3]. cbv zeta. unfold rdot, rfnormal, rcross, rsub, rzero.
  repeat split; ring.
Qed.

(* ---- hemisphere: rings run from the equator (ring 0, polar angle pi/2) up to the apex; the dome uses the other
        diagonal of every quad and the opposite winding of the sphere, the base disc is a fan around the origin ---- *)
Section HemiPatch.
  (* index 0: the upper ring (smaller polar angle), index 1: the lower ring *)
  Variables (rad sp0 cp0 sp1 cp1 c0 s0 c1 s1 : R).
  Hypothesis Hr : 0 < rad.
  Hypothesis Hs0 : 0 < sp0.
  Hypothesis Hs1 : 0 < sp1.
  Hypothesis down : 0 < cp0 * sp1 - cp1 * sp0.
  Hypothesis turn : 0 < c0 * s1 - s0 * c1.
  Let V (sp cp c s : R) : rvec := (sp * c * rad, cp * rad, sp * s * rad).

  (* hemisphere.go: tris = append(tris, i0, i2, i1, i0, i3, i2) with i0, i1 on the lower ring, i3, i2 on the upper *)
  Theorem hemi_quad_faces_outward :
    rfaces_away rzero (V sp1 cp1 c0 s0, V sp0 cp0 c1 s1, V sp1 cp1 c1 s1) /\
    rfaces_away rzero (V sp1 cp1 c0 s0, V sp0 cp0 c0 s0, V sp0 cp0 c1 s1).
  Proof.
    assert (P0 : 0 < rad * rad * rad * sp0 * (cp0 * sp1 - cp1 * sp0) * (c0 * s1 - s0 * c1))
      by (repeat apply Rmult_lt_0_compat; assumption).
    assert (P1 : 0 < rad * rad * rad * sp1 * (cp0 * sp1 - cp1 * sp0) * (c0 * s1 - s0 * c1))
      by (repeat apply Rmult_lt_0_compat; assumption).
    unfold rfaces_away. rewrite !det_away. unfold rdet3, rdot, rcross, V. split.
    - replace (_ + _ + _) with (rad * rad * rad * sp1 * (cp0 * sp1 - cp1 * sp0) * (c0 * s1 - s0 * c1)) by ring. exact P1.
    - replace (_ + _ + _) with (rad * rad * rad * sp0 * (cp0 * sp1 - cp1 * sp0) * (c0 * s1 - s0 * c1)) by ring. exact P0.
  Qed.

  (* tris = append(tris, 0, i0, i1): the base disc (equator ring, cosine of the polar angle = 0) seen from any point
     (0, y, 0), y > 0, on the axis *)
  Theorem hemi_base_faces_outward : forall y : R, 0 < y ->
    rfaces_away (0, y, 0) (rzero, V sp1 0 c0 s0, V sp1 0 c1 s1).
  Proof.
    intros y Hy.
    assert (P : 0 < rad * rad * (sp1 * sp1) * (c0 * s1 - s0 * c1) * y) by (repeat apply Rmult_lt_0_compat; assumption).
    unfold rfaces_away, rfnormal, rdot, rcross, rsub, rzero, V.
    replace (_ + _ + _) with (rad * rad * (sp1 * sp1) * (c0 * s1 - s0 * c1) * y) by ring. exact P.
  Qed.
End HemiPatch.

Theorem hemi_faces_outward : forall rad phiU phiL th0 th1 y : R,
  0 < rad -> 0 < phiU -> phiU < phiL -> phiL <= PI / 2 -> 0 < th1 - th0 -> th1 - th0 < PI -> 0 < y ->
  let V (phi th : R) : rvec := (sin phi * cos th * rad, cos phi * rad, sin phi * sin th * rad) in
  (* apex fan: tris = append(tris, v1i, i1, i0) at the last ring (polar angle phiU) *)
  rfaces_away rzero ((0, rad, 0), V phiU th1, V phiU th0) /\
  (* dome quad between the lower ring (phiL) and the upper ring (phiU) *)
  rfaces_away rzero (V phiL th0, V phiU th1, V phiL th1) /\
  rfaces_away rzero (V phiL th0, V phiU th0, V phiU th1) /\
  (* base disc wedge (equator ring: sine 1, cosine 0 of the polar angle) *)
  rfaces_away (0, y, 0) (rzero, (1 * cos th0 * rad, 0 * rad, 1 * sin th0 * rad), (1 * cos th1 * rad, 0 * rad, 1 * sin th1 * rad)).
Proof.
  intros rad phiU phiL th0 th1 y Hr H0 H01 H1 Ht0 Ht1 Hy. cbv zeta. pose proof PI_RGT_0 as Hpi.
  assert (S0 : 0 < sin phiU) by (apply sin_gt_0; lra).
  assert (S1 : 0 < sin phiL) by (apply sin_gt_0; lra).
  assert (D : 0 < cos phiU * sin phiL - cos phiL * sin phiU).
  { replace (cos phiU * sin phiL - cos phiL * sin phiU) with (sin (phiL - phiU)) by (rewrite sin_minus; ring).
    apply sin_gt_0; lra. }
  assert (T : 0 < cos th0 * sin th1 - sin th0 * cos th1) by (apply turn_sincos; assumption).
  destruct (fan_faces_outward rad (sin phiU) (cos phiU) (cos th0) (sin th0) (cos th1) (sin th1) Hr S0 T) as [F1 _].
  destruct (hemi_quad_faces_outward rad _ (cos phiU) _ (cos phiL) _ _ _ _ Hr S0 S1 D T) as [Q1 Q2].
  pose proof (hemi_base_faces_outward rad 1 (cos th0) (sin th0) (cos th1) (sin th1) Hr Rlt_0_1 T y Hy) as B.
  repeat split; assumption.
Qed.
