(* C18 — the UV sphere over the reals: every pole-fan triangle and both triangles of every quad face away from
   the centre.  Because UVSphere supplies position/|position| as vertex normal and every vertex of a face has the
   same dot product with the face normal (the plane's offset), the same inequalities say that every vertex
   normal is on the outer side of every incident face.

   Ring vertices: (sin phi * cos theta, cos phi, sin phi * sin theta) scaled by the radius (sphere.go:27-36).
   Local statement over abstract unit directions, then the trigonometric instance for polar angles
   0 < phi0 < phi1 < pi and azimuths 0 < theta1 - theta0 < pi (the generator's steps pi/rows and 2*pi/columns,
   columns >= 3). *)
From PF Require Import Gen.CubeProofs Gen.CylinderGeom.
From Coq Require Import Reals Lra Psatz.
Open Scope R_scope.

Section Patch.
  (* sp/cp: sine / cosine of the polar angle of two consecutive rings; (c, s): azimuth direction of two consecutive columns *)
  Variables (rad sp0 cp0 sp1 cp1 c0 s0 c1 s1 : R).
  Hypothesis Hr : 0 < rad.
  Hypothesis Hs0 : 0 < sp0.
  Hypothesis Hs1 : 0 < sp1.
  Hypothesis down : 0 < cp0 * sp1 - cp1 * sp0.     (* sin (phi1 - phi0) *)
  Hypothesis turn : 0 < c0 * s1 - s0 * c1.         (* sin (theta1 - theta0) *)

  Let V (sp cp c s : R) : rvec := (sp * c * rad, cp * rad, sp * s * rad).
  Let top : rvec := (0, rad, 0).
  Let bot : rvec := (0, - rad, 0).

  Lemma det_away : forall a b c : rvec, rdot (rfnormal (a, b, c)) (rsub a rzero) = rdet3 a b c.
  Proof. intros [[a1 a2] a3] [[b1 b2] b3] [[c1' c2] c3]. unfold rdet3, rfnormal, rdot, rcross, rsub, rzero. ring. Qed.

  (* tris = append(tris, 0, i1, i0) and append(tris, v1i, i0, i1): the fans at a ring with sine sp0 *)
  Theorem fan_faces_outward :
    rfaces_away rzero (top, V sp0 cp0 c1 s1, V sp0 cp0 c0 s0) /\
    rfaces_away rzero (bot, V sp0 cp0 c0 s0, V sp0 cp0 c1 s1).
  Proof.
    assert (P : 0 < rad * rad * rad * (sp0 * sp0) * (c0 * s1 - s0 * c1)) by (repeat apply Rmult_lt_0_compat; assumption).
    unfold rfaces_away. rewrite !det_away. unfold rdet3, rdot, rcross, V, top, bot. split.
    - replace (_ + _ + _) with (rad * rad * rad * (sp0 * sp0) * (c0 * s1 - s0 * c1)) by ring. exact P.
    - replace (_ + _ + _) with (rad * rad * rad * (sp0 * sp0) * (c0 * s1 - s0 * c1)) by ring. exact P.
  Qed.

  (* tris = append(tris, i0, i1, i2, i0, i2, i3) between ring 0 (upper) and ring 1 (lower) *)
  Theorem quad_faces_outward :
    rfaces_away rzero (V sp0 cp0 c0 s0, V sp0 cp0 c1 s1, V sp1 cp1 c1 s1) /\
    rfaces_away rzero (V sp0 cp0 c0 s0, V sp1 cp1 c1 s1, V sp1 cp1 c0 s0).
  Proof.
    assert (P0 : 0 < rad * rad * rad * sp0 * (cp0 * sp1 - cp1 * sp0) * (c0 * s1 - s0 * c1))
      by (repeat apply Rmult_lt_0_compat; assumption).
    assert (P1 : 0 < rad * rad * rad * sp1 * (cp0 * sp1 - cp1 * sp0) * (c0 * s1 - s0 * c1))
      by (repeat apply Rmult_lt_0_compat; assumption).
    unfold rfaces_away. rewrite !det_away. unfold rdet3, rdot, rcross, V. split.
    - replace (_ + _ + _) with (rad * rad * rad * sp0 * (cp0 * sp1 - cp1 * sp0) * (c0 * s1 - s0 * c1)) by ring. exact P0.
    - replace (_ + _ + _) with (rad * rad * rad * sp1 * (cp0 * sp1 - cp1 * sp0) * (c0 * s1 - s0 * c1)) by ring. exact P1.
  Qed.
End Patch.

(* the trigonometric instance *)
Theorem sphere_faces_outward : forall rad phi0 phi1 th0 th1 : R,
  0 < rad -> 0 < phi0 -> phi0 < phi1 -> phi1 < PI -> 0 < th1 - th0 -> th1 - th0 < PI ->
  let V (phi th : R) : rvec := (sin phi * cos th * rad, cos phi * rad, sin phi * sin th * rad) in
  (* fans (at either pole; phi0 is the polar angle of the ring next to it) *)
  rfaces_away rzero ((0, rad, 0), V phi0 th1, V phi0 th0) /\
  rfaces_away rzero ((0, - rad, 0), V phi0 th0, V phi0 th1) /\
  (* the two triangles of the quad between the rings at phi0 and phi1 *)
  rfaces_away rzero (V phi0 th0, V phi0 th1, V phi1 th1) /\
  rfaces_away rzero (V phi0 th0, V phi1 th1, V phi1 th0).
Proof.
  intros rad phi0 phi1 th0 th1 Hr H0 H01 H1 Ht0 Ht1. cbv zeta.
  assert (S0 : 0 < sin phi0) by (apply sin_gt_0; lra).
  assert (S1 : 0 < sin phi1) by (apply sin_gt_0; lra).
  assert (D : 0 < cos phi0 * sin phi1 - cos phi1 * sin phi0).
  { replace (cos phi0 * sin phi1 - cos phi1 * sin phi0) with (sin (phi1 - phi0)) by (rewrite sin_minus; ring).
    apply sin_gt_0; lra. }
  assert (T : 0 < cos th0 * sin th1 - sin th0 * cos th1) by (apply turn_sincos; assumption).
  destruct (fan_faces_outward rad (sin phi0) (cos phi0) (cos th0) (sin th0) (cos th1) (sin th1) Hr S0 T) as [F1 F2].
  destruct (quad_faces_outward rad _ (cos phi0) _ (cos phi1) _ _ _ _ Hr S0 S1 D T) as [Q1 Q2].
  repeat split; assumption.
Qed.

(* vertex normal = position / |position|: on the outer side of a face exactly when the face points away from the
   centre (all three corners give the same dot product) *)
Theorem normal_is_position : forall a b c : rvec,
  let n := rfnormal (a, b, c) in rdot n a = rdot n (rsub a rzero) /\ rdot n b = rdot n a /\ rdot n c = rdot n a.
Proof.
  intros [[a1 a2] a3] [[b1 b2] b3] [[c1 c2] c3]. cbv zeta. unfold rdot, rfnormal, rcross, rsub, rzero.
  repeat split; ring.
Qed.
