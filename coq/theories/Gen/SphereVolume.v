(* C18 — the welded UV sphere over the reals, for the WHOLE index list of the generator:
   positions as a real-valued function of the vertex number (sphere.go:20-42), then
     sphere_volume_is_sum      : the divergence sum is the closed finite sum over the rings (the inscribed polyhedron)
     sphere_all_faces_outward  : every triangle of the list faces away from the centre
     sphere_volume_pos         : the enclosed volume is positive. *)
From PF Require Import Gen.Closed Gen.ClosedProofs Gen.FamilyProofs Gen.Sphere Gen.SphereProofs
  Gen.CubeProofs Gen.CylinderGeom Gen.SphereGeom Gen.CylinderVolume.
From Coq Require Import Reals Lra Psatz Lia ZifyN ZifyNat ZifyBool List.
Import ListNotations.
Ltac Zify.zify_post_hook ::= Z.div_mod_to_equations.
Open Scope R_scope.

(* phi := math.Pi * float64(i+1) / float64(rows) (ring i = level i+1); theta := 2.0 * math.Pi * float64(j) / float64(columns) *)
Definition phi (r l : N) : R := PI * NR l / NR r.
Definition theta (c i : N) : R := 2 * PI * NR i / NR c.
Definition VR (rad ph th : R) : rvec := (sin ph * cos th * rad, cos ph * rad, sin ph * sin th * rad).

Definition sph_posR (r c : N) (rad : R) (v : N) : rvec :=
  if (v =? 0)%N then (0, rad, 0)
  else if (v =? c * (r - 1) + 1)%N then (0, - rad, 0)
  else VR rad (phi r ((v - 1) / c + 1)) (theta c ((v - 1) mod c)).

(* the same in (level, column) coordinates *)
Definition Pg (r c : N) (rad : R) (g : gv) : rvec :=
  let '(l, i) := g in
  if (l =? 0)%N then (0, rad, 0) else if (l =? r)%N then (0, - rad, 0) else VR rad (phi r l) (theta c i).

Lemma pos_enc : forall r c rad l i, (2 <= r)%N -> (1 <= c)%N ->
  ((l = 0 /\ i = 0) \/ (0 < l < r /\ i < c) \/ (l = r /\ i = 0))%N ->
  sph_posR r c rad (enc c (l, i)) = Pg r c rad (l, i).
Proof.
  intros r c rad l i Hr Hc [[-> ->]|[[Hl Hi]|[-> ->]]].
  - reflexivity.
  - unfold enc, Pg, sph_posR. destruct (N.eqb_spec l 0); [lia|]. destruct (N.eqb_spec l r); [lia|].
    pose proof (N.le_0_l ((l - 1) * c)) as Z0.
    destruct (N.eqb_spec ((l - 1) * c + 1 + i) 0); [lia|].
    assert (B : ((l - 1 + 1) * c <= (r - 1) * c)%N) by (apply N.mul_le_mono_r; lia).
    destruct (N.eqb_spec ((l - 1) * c + 1 + i) (c * (r - 1) + 1)); [lia|].
    replace ((l - 1) * c + 1 + i - 1)%N with ((l - 1) * c + i)%N by lia.
    replace (((l - 1) * c + i) / c)%N with (l - 1)%N by (apply (N.div_unique _ _ _ i); lia).
    replace (((l - 1) * c + i) mod c)%N with i by (apply (N.mod_unique _ _ (l - 1)); lia).
    replace (l - 1 + 1)%N with l by lia. reflexivity.
  - unfold enc, Pg, sph_posR. destruct (N.eqb_spec r 0); [lia|]. rewrite N.eqb_refl.
    pose proof (N.le_0_l ((r - 1) * c)) as Z0.
    destruct (N.eqb_spec ((r - 1) * c + 1 + 0) 0); [lia|].
    destruct (N.eqb_spec ((r - 1) * c + 1 + 0) (c * (r - 1) + 1)); [reflexivity|lia].
Qed.

Lemma Pg_ring : forall r c rad l i, (0 < l < r)%N -> Pg r c rad (l, i) = VR rad (phi r l) (theta c i).
Proof. intros. unfold Pg. destruct (N.eqb_spec l 0); [lia|]. destruct (N.eqb_spec l r); [lia|]. reflexivity. Qed.
Lemma Pg_top : forall r c rad, Pg r c rad (0%N, 0%N) = (0, rad, 0).
Proof. reflexivity. Qed.
Lemma Pg_bot : forall r c rad, (1 <= r)%N -> Pg r c rad ((r - 1 + 1)%N, 0%N) = (0, - rad, 0).
Proof.
  intros. unfold Pg. destruct (N.eqb_spec (r - 1 + 1) 0); [lia|]. destruct (N.eqb_spec (r - 1 + 1) r); [reflexivity|lia].
Qed.

(* the triangles of the whole mesh, as positions *)
Definition sph_trisR (r c : N) (rad : R) : list (rvec * rvec * rvec) := tris_of (map (sph_posR r c rad) (sphere_idx r c)).

Definition sph_triR (r c : N) (rad : R) (p : sp) : rvec * rvec * rvec :=
  match p with
  | TF i => ((0, rad, 0), VR rad (phi r (0 + 1)) (theta c (sn c i)), VR rad (phi r (0 + 1)) (theta c i))
  | BF i => ((0, - rad, 0), VR rad (phi r (r - 2 + 1)) (theta c i), VR rad (phi r (r - 2 + 1)) (theta c (sn c i)))
  | QA j i => (VR rad (phi r (j + 1)) (theta c i), VR rad (phi r (j + 1)) (theta c (sn c i)),
               VR rad (phi r (j + 1 + 1)) (theta c (sn c i)))
  | QB j i => (VR rad (phi r (j + 1)) (theta c i), VR rad (phi r (j + 1 + 1)) (theta c (sn c i)),
               VR rad (phi r (j + 1 + 1)) (theta c i))
  end.

Lemma sph_trisR_eq : forall r c rad, (2 <= r)%N -> (1 <= c)%N ->
  sph_trisR r c rad = map (sph_triR r c rad) (sph_ps r c).
Proof.
  intros r c rad Hr Hc. unfold sph_trisR. rewrite tris_of_map, (sphere_tris_eq r c Hr), map_map.
  apply map_ext_in. intros p Hp. apply in_sph_ps in Hp. unfold sph_N.
  destruct p as [i|i|j i|j i]; cbn [sp_ok] in Hp; (assert (Hi : (i < c)%N) by lia); pose proof (sn_lt c i Hi) as Hs;
    cbn [sph_T map3 sph_triR]; rewrite !pos_enc by (try assumption; lia);
    rewrite ?Pg_top, ?Pg_bot, ?Pg_ring by lia; reflexivity.
Qed.

(* ---- one triangle, abstract sines / cosines ---- *)
Lemma fanT_det : forall rad sp cp c0 s0 c1 s1 : R,
  rvol6 [((0, rad, 0), (sp * c1 * rad, cp * rad, sp * s1 * rad), (sp * c0 * rad, cp * rad, sp * s0 * rad))]
  = rad * rad * rad * (sp * sp) * (c0 * s1 - s0 * c1).
Proof. intros. unfold rvol6. cbn [fold_right]. unfold rdet3, rdot, rcross. ring. Qed.
Lemma fanB_det : forall rad sp cp c0 s0 c1 s1 : R,
  rvol6 [((0, - rad, 0), (sp * c0 * rad, cp * rad, sp * s0 * rad), (sp * c1 * rad, cp * rad, sp * s1 * rad))]
  = rad * rad * rad * (sp * sp) * (c0 * s1 - s0 * c1).
Proof. intros. unfold rvol6. cbn [fold_right]. unfold rdet3, rdot, rcross. ring. Qed.
Lemma quadA_det : forall rad sp0 cp0 sp1 cp1 c0 s0 c1 s1 : R,
  rvol6 [((sp0 * c0 * rad, cp0 * rad, sp0 * s0 * rad), (sp0 * c1 * rad, cp0 * rad, sp0 * s1 * rad),
          (sp1 * c1 * rad, cp1 * rad, sp1 * s1 * rad))]
  = rad * rad * rad * sp0 * (cp0 * sp1 - cp1 * sp0) * (c0 * s1 - s0 * c1).
Proof. intros. unfold rvol6. cbn [fold_right]. unfold rdet3, rdot, rcross. ring. Qed.
Lemma quadB_det : forall rad sp0 cp0 sp1 cp1 c0 s0 c1 s1 : R,
  rvol6 [((sp0 * c0 * rad, cp0 * rad, sp0 * s0 * rad), (sp1 * c1 * rad, cp1 * rad, sp1 * s1 * rad),
          (sp1 * c0 * rad, cp1 * rad, sp1 * s0 * rad))]
  = rad * rad * rad * sp1 * (cp0 * sp1 - cp1 * sp0) * (c0 * s1 - s0 * c1).
Proof. intros. unfold rvol6. cbn [fold_right]. unfold rdet3, rdot, rcross. ring. Qed.

(* ---- the two turns ---- *)
Lemma theta_ang : forall c i, (1 <= c)%N -> theta c i = ang c i.
Proof. intros c i Hc. pose proof (NR_pos c Hc). unfold theta, ang. field. lra. Qed.
Lemma turn_theta : forall c i, (1 <= c)%N -> (i < c)%N ->
  cos (theta c i) * sin (theta c (sn c i)) - sin (theta c i) * cos (theta c (sn c i)) = sin (2 * PI / NR c).
Proof. intros c i Hc Hi. rewrite !theta_ang by exact Hc. apply turn_wrap; assumption. Qed.
Lemma turn_phi : forall r l, (1 <= r)%N ->
  cos (phi r l) * sin (phi r (l + 1)) - cos (phi r (l + 1)) * sin (phi r l) = sin (PI / NR r).
Proof.
  intros r l Hr. pose proof (NR_pos r Hr).
  replace (PI / NR r) with (phi r (l + 1) - phi r l) by (unfold phi; rewrite NR_succ; field; lra).
  rewrite sin_minus. ring.
Qed.

Definition dsix (r c : N) (rad : R) (p : sp) : R :=
  let t := sin (2 * PI / NR c) in let d := sin (PI / NR r) in
  match p with
  | TF _ => rad * rad * rad * (sin (phi r (0 + 1)) * sin (phi r (0 + 1))) * t
  | BF _ => rad * rad * rad * (sin (phi r (r - 2 + 1)) * sin (phi r (r - 2 + 1))) * t
  | QA j _ => rad * rad * rad * sin (phi r (j + 1)) * d * t
  | QB j _ => rad * rad * rad * sin (phi r (j + 1 + 1)) * d * t
  end.

Lemma tri_det : forall r c rad p, (2 <= r)%N -> (1 <= c)%N -> sp_ok r c p -> rvol6 [sph_triR r c rad p] = dsix r c rad p.
Proof.
  intros r c rad p Hr Hc Hp. destruct p as [i|i|j i|j i]; cbn [sp_ok] in Hp; (assert (Hi : (i < c)%N) by lia);
    unfold sph_triR, VR, dsix; cbv zeta.
  - rewrite fanT_det, turn_theta by assumption. reflexivity.
  - rewrite fanB_det, turn_theta by assumption. reflexivity.
  - rewrite quadA_det, turn_theta, turn_phi by (try assumption; lia). reflexivity.
  - rewrite quadB_det, turn_theta, turn_phi by (try assumption; lia). reflexivity.
Qed.

(* ---- sums ---- *)
Lemma rsum_ext_in : forall (f g : N -> R) l, (forall k, In k l -> f k = g k) -> rsum f l = rsum g l.
Proof.
  induction l as [|a l IH]; intros H; [reflexivity|]. cbn [rsum fold_right]. fold (rsum f l) (rsum g l).
  rewrite IH by (intros; apply H; now right). rewrite (H a (or_introl eq_refl)). reflexivity.
Qed.
Lemma rsum_scal : forall (f : N -> R) a l, rsum (fun k => a * f k) l = a * rsum f l.
Proof. induction l as [|x l IH]; cbn [rsum fold_right]; [ring|]. fold (rsum (fun k => a * f k) l) (rsum f l). rewrite IH. ring. Qed.
Lemma rsum_nonneg : forall (f : N -> R) l, (forall k, In k l -> 0 <= f k) -> 0 <= rsum f l.
Proof.
  induction l as [|x l IH]; intros H; cbn [rsum fold_right]; [lra|]. fold (rsum f l).
  pose proof (H x (or_introl eq_refl)). pose proof (IH (fun k Hk => H k (or_intror Hk))). lra.
Qed.
Lemma rvol6_map_gen : forall {A} (g : A -> rvec * rvec * rvec) (l : list A),
  rvol6 (map g l) = fold_right (fun x acc => rvol6 [g x] + acc) 0 l.
Proof.
  induction l as [|a l IH]; [reflexivity|]. cbn [map]. change (g a :: map g l) with ([g a] ++ map g l).
  rewrite rvol6_app, IH. reflexivity.
Qed.

(* ---- total volume: a finite sum over the rings ---- *)
Theorem sphere_volume_is_sum : forall r c rad, (2 <= r)%N -> (1 <= c)%N ->
  rvol6 (sph_trisR r c rad) =
    NR c * (rad * rad * rad * sin (2 * PI / NR c)) *
      (sin (phi r 1) * sin (phi r 1) + sin (phi r (r - 1)) * sin (phi r (r - 1))
       + sin (PI / NR r) * rsum (fun j => sin (phi r (j + 1)) + sin (phi r (j + 2))) (nseq (r - 2))).
Proof.
  intros r c rad Hr Hc. rewrite sph_trisR_eq by assumption. unfold sph_ps.
  rewrite map_app, !map_flat_map, rvol6_app, !rvol6_flat_map.
  rewrite (rsum_const _ (dsix r c rad (TF 0) + dsix r c rad (BF 0))).
  2:{ intros i Hi. apply nseq_in in Hi. cbn [map]. change [?a; ?b] with ([a] ++ [b]).
      rewrite rvol6_app, !tri_det by (try assumption; cbn [sp_ok]; lia). reflexivity. }
  rewrite (rsum_ext_in _ (fun j => NR c * (rad * rad * rad * sin (2 * PI / NR c)) *
                                    (sin (PI / NR r) * (sin (phi r (j + 1)) + sin (phi r (j + 2)))))).
  2:{ intros j Hj. apply nseq_in in Hj. rewrite map_flat_map, rvol6_flat_map.
      rewrite (rsum_const _ (dsix r c rad (QA j 0) + dsix r c rad (QB j 0))).
      2:{ intros i Hi. apply nseq_in in Hi. cbn [map]. change [?a; ?b] with ([a] ++ [b]).
          rewrite rvol6_app, !tri_det by (try assumption; cbn [sp_ok]; lia). reflexivity. }
      rewrite nseq_length, INR_NR. unfold dsix. cbv zeta.
      replace (j + 1 + 1)%N with (j + 2)%N by lia. ring. }
  rewrite rsum_scal, rsum_scal, nseq_length, INR_NR. unfold dsix. cbv zeta.
  replace (0 + 1)%N with 1%N by lia. replace (r - 2 + 1)%N with (r - 1)%N by lia. ring.
Qed.

(* ---- positivity and outwardness ---- *)
Lemma sin_phi_pos : forall r l, (0 < l < r)%N -> 0 < sin (phi r l).
Proof.
  intros r l H. assert (0 < NR l) by (apply NR_pos; lia). assert (NR l < NR r) by (unfold NR; apply IZR_lt; lia).
  pose proof PI_RGT_0. unfold phi. apply sin_gt_0.
  - apply Rdiv_lt_0_compat; [apply Rmult_lt_0_compat; lra|lra].
  - apply (Rmult_lt_reg_r (NR r)); [lra|]. unfold Rdiv. rewrite Rmult_assoc, Rinv_l by lra. nra.
Qed.
Lemma sin_pi_r_pos : forall r, (2 <= r)%N -> 0 < sin (PI / NR r).
Proof.
  intros r H. assert (2 <= NR r) by (unfold NR; apply IZR_le; lia). pose proof PI_RGT_0. apply sin_gt_0.
  - apply Rdiv_lt_0_compat; lra.
  - apply (Rmult_lt_reg_r (NR r)); [lra|]. unfold Rdiv. rewrite Rmult_assoc, Rinv_l by lra. nra.
Qed.

Lemma dsix_pos : forall r c rad p, (2 <= r)%N -> (3 <= c)%N -> 0 < rad -> sp_ok r c p -> 0 < dsix r c rad p.
Proof.
  intros r c rad p Hr Hc Hrad Hp. pose proof (sin_step_pos c Hc). pose proof (sin_pi_r_pos r Hr).
  destruct p as [i|i|j i|j i]; cbn [sp_ok] in Hp; unfold dsix; cbv zeta;
    repeat apply Rmult_lt_0_compat; try assumption; apply sin_phi_pos; lia.
Qed.

Theorem sphere_all_faces_outward : forall r c rad, (2 <= r)%N -> (3 <= c)%N -> 0 < rad ->
  Forall (rfaces_away rzero) (sph_trisR r c rad).
Proof.
  intros r c rad Hr Hc Hrad. rewrite sph_trisR_eq by (try assumption; lia). rewrite Forall_map. apply Forall_forall.
  intros p Hp. apply in_sph_ps in Hp. destruct (sph_triR r c rad p) as [[a b] d] eqn:E.
  apply faces_away_det. rewrite <- E, tri_det by (try assumption; lia). apply dsix_pos; assumption.
Qed.

Theorem sphere_volume_pos : forall r c rad, (2 <= r)%N -> (3 <= c)%N -> 0 < rad -> 0 < rvol6 (sph_trisR r c rad) / 6.
Proof.
  intros r c rad Hr Hc Hrad. rewrite sphere_volume_is_sum by (try assumption; lia).
  pose proof (sin_step_pos c Hc). pose proof (sin_pi_r_pos r Hr). pose proof (NR_pos c ltac:(lia)).
  pose proof (sin_phi_pos r 1 ltac:(lia)) as S1. pose proof (sin_phi_pos r (r - 1) ltac:(lia)) as S2.
  assert (Q : 0 <= rsum (fun j => sin (phi r (j + 1)) + sin (phi r (j + 2))) (nseq (r - 2))).
  { apply rsum_nonneg. intros j Hj. apply nseq_in in Hj.
    pose proof (sin_phi_pos r (j + 1) ltac:(lia)). pose proof (sin_phi_pos r (j + 2) ltac:(lia)). lra. }
  apply Rdiv_lt_0_compat; [|lra]. apply Rmult_lt_0_compat.
  - repeat apply Rmult_lt_0_compat; assumption.
  - assert (0 < sin (phi r 1) * sin (phi r 1)) by (apply Rmult_lt_0_compat; assumption).
    assert (0 < sin (phi r (r - 1)) * sin (phi r (r - 1))) by (apply Rmult_lt_0_compat; assumption).
    assert (0 <= sin (PI / NR r) * rsum (fun j => sin (phi r (j + 1)) + sin (phi r (j + 2))) (nseq (r - 2)))
      by (apply Rmult_le_pos; lra). lra.
Qed.

(* ---- unwelded sphere: finalVerts[k] = calculatedPositions[class of k], so it is the same list of triangles ---- *)
Definition sphU_posR (r c : N) (rad : R) (k : N) : rvec := sph_posR r c rad (sphereU_cls r c k).
Theorem sphereU_same_triangles : forall r c rad,
  tris_of (map (sphU_posR r c rad) (sphereU_idx r c)) = sph_trisR r c rad.
Proof.
  intros. unfold sph_trisR, sphU_posR. rewrite <- (sphereU_welds r c), map_map. reflexivity.
Qed.

(* ---- vertex normals: UVSphere supplies position / |position|; on the outer side of every incident face ---- *)
Definition corners_outer (t : rvec * rvec * rvec) : Prop :=
  let '(a, b, c) := t in let n := rfnormal t in 0 < rdot n a /\ 0 < rdot n b /\ 0 < rdot n c.
Lemma away_corners : forall t, rfaces_away rzero t -> corners_outer t.
Proof.
  intros [[a b] c] H. unfold corners_outer. destruct (normal_is_position a b c) as (E1 & E2 & E3).
  cbv zeta in E1, E2, E3. unfold rfaces_away in H. rewrite <- E1 in H. rewrite E2, E3. auto.
Qed.
Theorem sphere_all_normals_outward : forall r c rad, (2 <= r)%N -> (3 <= c)%N -> 0 < rad ->
  Forall corners_outer (sph_trisR r c rad).
Proof. intros. eapply Forall_impl; [apply away_corners|]. apply sphere_all_faces_outward; assumption. Qed.

(* ---- the same sum as a stack of frusta: the polyhedron inscribed for (rows, columns) is, wedge by wedge, the two pole
        pyramids and rows-2 frusta of regular c-gons with circumradius rho_l = rad * sin (phi l) at height y_l = rad * cos (phi l);
        a frustum of height d between polygons of area A0, A1 has volume d/3 * (A0 + A1 + sqrt (A0*A1)),
        A_l = c/2 * sin (2*pi/c) * rho_l^2 ---- *)
Lemma rsum_app : forall f a b, rsum f (a ++ b) = rsum f a + rsum f b.
Proof. unfold rsum. induction a as [|x a IH]; intros b; cbn [app fold_right]; [ring|]. rewrite IH. ring. Qed.
Lemma rsum_map : forall f (g : N -> N) l, rsum f (map g l) = rsum (fun k => f (g k)) l.
Proof. unfold rsum. induction l as [|x l IH]; cbn [map fold_right]; [reflexivity|]. now rewrite IH. Qed.
Lemma rsum_plus : forall f g l, rsum (fun k => f k + g k) l = rsum f l + rsum g l.
Proof. unfold rsum. induction l as [|x l IH]; cbn [fold_right]; [ring|]. rewrite IH. ring. Qed.
Lemma nseq_from_shift : forall k a, nseq_from k (a + 1) = map (fun x => (x + 1)%N) (nseq_from k a).
Proof. induction k as [|k IH]; intros a; cbn [nseq_from map]; [reflexivity|]. now rewrite IH. Qed.
Lemma nseq_first : forall n, nseq (n + 1) = 0%N :: map (fun x => (x + 1)%N) (nseq n).
Proof.
  intros n. unfold nseq. replace (N.to_nat (n + 1)) with (S (N.to_nat n)) by lia. cbn [nseq_from].
  now rewrite (nseq_from_shift _ 0).
Qed.
Lemma rsum_telescope : forall (g : N -> R) n, rsum (fun l => g l - g (l + 1)%N) (nseq n) = g 0%N - g n.
Proof.
  intros g. apply (N.peano_ind (fun n => rsum (fun l => g l - g (l + 1)%N) (nseq n) = g 0%N - g n)).
  - cbn. ring.
  - intros n IH. rewrite <- N.add_1_r, nseq_succ, rsum_app, IH. cbn [rsum fold_right]. ring.
Qed.

Lemma phi_0 : forall r, phi r 0 = 0.
Proof. intros. unfold phi. change (NR 0) with 0. unfold Rdiv. ring. Qed.
Lemma phi_r : forall r, (1 <= r)%N -> phi r r = PI.
Proof. intros r H. pose proof (NR_pos r H). unfold phi. field. lra. Qed.
Lemma sin_phi_1 : forall r, (1 <= r)%N -> sin (phi r 1) = sin (PI / NR r).
Proof. intros r H. f_equal. unfold phi. change (NR 1) with 1. pose proof (NR_pos r H). field. lra. Qed.
Lemma sin_phi_last : forall r, (1 <= r)%N -> sin (phi r (r - 1)) = sin (PI / NR r).
Proof.
  intros r H. pose proof (NR_pos r H). rewrite <- (sin_PI_x (PI / NR r)). f_equal. unfold phi.
  assert (E : NR (r - 1) = NR r - 1) by (unfold NR; rewrite N2Z.inj_sub by lia; rewrite minus_IZR; reflexivity).
  rewrite E. field. lra.
Qed.

Definition frusta (r : N) : R :=
  rsum (fun l => (cos (phi r l) - cos (phi r (l + 1))) *
                 (sin (phi r l) * sin (phi r l) + sin (phi r (l + 1)) * sin (phi r (l + 1)) + sin (phi r l) * sin (phi r (l + 1))))
       (nseq r).

Lemma frusta_eq : forall r, (2 <= r)%N ->
  frusta r = sin (phi r 1) * sin (phi r 1) + sin (phi r (r - 1)) * sin (phi r (r - 1))
             + sin (PI / NR r) * rsum (fun j => sin (phi r (j + 1)) + sin (phi r (j + 2))) (nseq (r - 2)).
Proof.
  intros r Hr. assert (Hr1 : (1 <= r)%N) by lia. unfold frusta.
  set (S := fun l => sin (phi r l)). set (C := fun l => cos (phi r l)). set (D := sin (PI / NR r)).
  rewrite (rsum_ext_in _ (fun l => D * (S l + S (l + 1)%N) + (C l * (S l * S l) - C (l + 1)%N * (S (l + 1)%N * S (l + 1)%N)))).
  2:{ intros l _. pose proof (turn_phi r l Hr1) as T. fold D in T. unfold S, C. rewrite <- T. ring. }
  rewrite rsum_plus, rsum_scal, (rsum_telescope (fun l => C l * (S l * S l))).
  assert (S0 : S 0%N = 0) by (unfold S; rewrite phi_0; apply sin_0).
  assert (Sr : S r = 0) by (unfold S; rewrite phi_r by exact Hr1; apply sin_PI).
  assert (S1 : S 1%N = D) by (unfold S, D; apply sin_phi_1, Hr1).
  assert (Sl : S (r - 1)%N = D) by (unfold S, D; apply sin_phi_last, Hr1).
  replace r with (r - 2 + 1 + 1)%N at 1 by lia.
  rewrite nseq_succ, rsum_app, nseq_first. cbn [rsum fold_right]. fold (rsum (fun l => S l + S (l + 1)%N) (map (fun x => (x + 1)%N) (nseq (r - 2)))).
  rewrite rsum_map.
  replace (r - 2 + 1 + 1)%N with r by lia. replace (r - 2 + 1)%N with (r - 1)%N by lia.
  replace (0 + 1)%N with 1%N by lia.
  rewrite (rsum_ext_in (fun k => S (k + 1)%N + S (k + 1 + 1)%N) (fun j => sin (phi r (j + 1)) + sin (phi r (j + 2)))).
  2:{ intros j _. unfold S. replace (j + 1 + 1)%N with (j + 2)%N by lia. reflexivity. }
  fold (S 1%N) (S (r - 1)%N). rewrite S0, Sr, S1, Sl. ring.
Qed.

(* enclosed volume = c wedges * stack of frusta (pole pyramids = frusta with one radius 0):
   sum over l of (y_l - y_(l+1))/3 * (c/2 * sin(2*pi/c)) * (rho_l^2 + rho_(l+1)^2 + rho_l * rho_(l+1)) *)
Theorem sphere_volume_frusta : forall r c rad, (2 <= r)%N -> (1 <= c)%N ->
  rvol6 (sph_trisR r c rad) / 6 =
    rsum (fun l => (rad * cos (phi r l) - rad * cos (phi r (l + 1))) / 3 * (NR c / 2 * sin (2 * PI / NR c)) *
                   ((rad * sin (phi r l)) * (rad * sin (phi r l)) + (rad * sin (phi r (l + 1))) * (rad * sin (phi r (l + 1)))
                    + (rad * sin (phi r l)) * (rad * sin (phi r (l + 1))))) (nseq r).
Proof.
  intros r c rad Hr Hc. rewrite sphere_volume_is_sum by assumption. rewrite <- frusta_eq by exact Hr. unfold frusta.
  rewrite <- (rsum_scal _ (NR c * (rad * rad * rad * sin (2 * PI / NR c)))).
  unfold Rdiv at 1. rewrite Rmult_comm, <- rsum_scal. apply rsum_ext_in. intros l _. field.
Qed.
