(* C18 — one statement per solid: every clause of the property sentence for that primitive, composed from the layer
   theorems (index pattern: SphereProofs / CylinderProofs / CubeProofs; geometry over R: *Volume.v, VolumeLimits.v). *)
From PF Require Import Gen.Closed Gen.ClosedProofs Gen.Sphere Gen.Hemisphere Gen.Cylinder Gen.Cube
  Gen.SphereProofs Gen.CylinderProofs Gen.CubeProofs Gen.CylinderVolume Gen.SphereVolume Gen.HemiVolume Gen.VolumeLimits.
From Coq Require Import Reals Lra.
Open Scope R_scope.

(* UVSphere(rad, r, c) and UVSphereUnwelded(rad, r, c) *)
Theorem uvsphere_solid : forall r c rad, (2 <= r)%N -> (3 <= c)%N -> 0 < rad ->
  (* closed, consistently oriented (welded: distinct indices are distinct points; unwelded: after merging) *)
  closed_idx sphere_cls (sphere_idx r c) /\ closed_idx (sphereU_cls r c) (sphereU_idx r c) /\
  wf_idx (sphere_nverts r c) (sphere_idx r c) /\ wf_idx (sphereU_nverts r c) (sphereU_idx r c) /\
  (* the unwelded sphere is the same list of position triangles *)
  tris_of (map (sphU_posR r c rad) (sphereU_idx r c)) = sph_trisR r c rad /\
  (* every face outward; the vertex normals (normalised positions) on the outer side of every incident face *)
  Forall (rfaces_away rzero) (sph_trisR r c rad) /\ Forall corners_outer (sph_trisR r c rad) /\
  (* the enclosed volume is that of the inscribed polyhedron, positive and below the ball's, within O(1/c^2 + 1/r^2) of it *)
  rvol6 (sph_trisR r c rad) / 6 = NR c * sin (2 * PI / NR c) * (1 + cos (PI / NR r)) / 3 * (rad * rad * rad) /\
  0 < rvol6 (sph_trisR r c rad) / 6 < 4 / 3 * PI * (rad * rad * rad) /\
  4 / 3 * PI * (rad * rad * rad) - rvol6 (sph_trisR r c rad) / 6
    <= PI * PI * PI * (rad * rad * rad) * (8 / (9 * (NR c * NR c)) + 1 / (3 * (NR r * NR r))).
Proof.
  intros r c rad Hr Hc Hrad.
  assert (Hc1 : (1 <= c)%N) by (apply N.le_trans with 3%N; [discriminate|exact Hc]).
  assert (Hc2 : (2 <= c)%N) by (apply N.le_trans with 3%N; [discriminate|exact Hc]).
  split; [apply sphere_closed; assumption|].
  split; [apply sphereU_closed; assumption|].
  split; [apply sphere_wf; assumption|].
  split; [apply sphereU_wf; assumption|].
  split; [apply sphereU_same_triangles|].
  split; [apply sphere_all_faces_outward; assumption|].
  split; [apply sphere_all_normals_outward; assumption|].
  split; [apply sphere_volume_closed; assumption|].
  split; [split; [apply sphere_volume_pos; assumption|apply sphere_volume_below_analytic; assumption]|].
  apply (proj2 (sphere_volume_error_bound r c rad Hr Hc2 ltac:(lra))).
Qed.

(* Hemisphere{rad}.UV(r, c) (base disc included) *)
Theorem hemisphere_solid : forall r c rad, (2 <= r)%N -> (3 <= c)%N -> 0 < rad ->
  closed_idx hemi_cls (hemi_idx r c) /\ wf_idx (hemi_nverts r c) (hemi_idx r c) /\
  (* dome and apex faces away from the sphere centre, base faces away from every axis point above the base *)
  (forall y, 0 < y ->
     hemi_trisR r c rad = map (hemi_triR r c rad) (sph_ps r c) /\
     (forall p, In p (sph_ps r c) -> is_base p = false -> rfaces_away rzero (hemi_triR r c rad p)) /\
     (forall i, (i < c)%N -> rfaces_away (0, y, 0) (hemi_triR r c rad (TF i)))) /\
  (let h := PI / (2 * NR r) in
   rvol6 (hemi_trisR r c rad) / 6 =
     NR c * sin (2 * PI / NR c) * (sin (2 * h) * sin (2 * h) + (1 + cos h) * cos (2 * h)) / 6 * (rad * rad * rad)) /\
  0 < rvol6 (hemi_trisR r c rad) / 6 <= 2 / 3 * PI * (rad * rad * rad) /\
  2 / 3 * PI * (rad * rad * rad) - rvol6 (hemi_trisR r c rad) / 6
    <= PI * PI * PI * (rad * rad * rad) * (4 / (9 * (NR c * NR c)) + 3 / (8 * (NR r * NR r))).
Proof.
  intros r c rad Hr Hc Hrad.
  assert (Hc1 : (1 <= c)%N) by (apply N.le_trans with 3%N; [discriminate|exact Hc]).
  assert (Hc2 : (2 <= c)%N) by (apply N.le_trans with 3%N; [discriminate|exact Hc]).
  destruct (hemi_volume_error_bound r c rad Hr Hc2 ltac:(lra)) as [E0 E1].
  split; [apply hemi_closed; assumption|]. split; [apply hemi_wf; assumption|].
  split; [intros y Hy; apply hemi_all_faces_outward; assumption|].
  split; [apply hemi_volume_closed; assumption|].
  split; [split; [apply hemi_volume_pos; assumption|lra]|exact E1].
Qed.

(* Cylinder{Sides: n, Radius: rad, Height: h}.ToMesh() with both caps *)
Theorem cylinder_solid : forall n rad h, (3 <= n)%N -> 0 < rad -> 0 < h ->
  closed_idx (cyl_cls n) (cyl_idx n) /\ wf_idx (cyl_nverts n) (cyl_idx n) /\
  Forall (rfaces_away rzero) (cyl_trisR n rad h) /\
  Forall pn_outer (tris_of (map (fun v => (cyl_posR n rad h v, cyl_nrmR n v)) (cyl_idx n))) /\
  rvol6 (cyl_trisR n rad h) / 6 = NR n * (rad * rad * sin (2 * PI / NR n) / 2) * h /\
  0 < rvol6 (cyl_trisR n rad h) / 6 < PI * rad * rad * h /\
  PI * rad * rad * h - rvol6 (cyl_trisR n rad h) / 6 <= PI * rad * rad * h * (2 * (PI * PI) / (3 * (NR n * NR n))).
Proof.
  intros n rad h Hn Hrad Hh.
  assert (Hn1 : (1 <= n)%N) by (apply N.le_trans with 3%N; [discriminate|exact Hn]).
  assert (Hn2 : (2 <= n)%N) by (apply N.le_trans with 3%N; [discriminate|exact Hn]).
  split; [apply cyl_closed; assumption|].
  split; [apply cyl_wf; assumption|].
  split; [apply cyl_all_faces_outward; assumption|].
  split; [apply cyl_all_normals_outward; assumption|].
  split; [apply cyl_volume; assumption|].
  split; [split; [apply cyl_volume_pos; assumption|apply cyl_volume_below_analytic; assumption]|].
  apply cyl_volume_error_bound; [assumption|lra].
Qed.

(* Cube{w, h, d}.Welded() and .UnweldedQuads() *)
Theorem box_solid : forall w h d, 0 < w -> 0 < h -> 0 < d ->
  closed_idx cubeW_cls cubeW_idx /\ closed_idx cubeQ_cls cubeQ_idx /\
  wf_idx cubeW_nverts cubeW_idx /\ wf_idx cubeQ_nverts cubeQ_idx /\
  Forall (rfaces_away rzero) (tri_pos (cubeW_posR (w / 2) (h / 2) (d / 2)) cubeW_idx) /\
  Forall (rfaces_away rzero) (tri_pos (cubeQ_posR (w / 2) (h / 2) (d / 2)) cubeQ_idx) /\
  normals_outer (cubeW_posR (w / 2) (h / 2) (d / 2)) (cubeW_posR (w / 2) (h / 2) (d / 2)) cubeW_idx /\
  normals_outer (cubeQ_posR (w / 2) (h / 2) (d / 2)) cubeQ_nrmR cubeQ_idx /\
  rvol6 (tri_pos (cubeW_posR (w / 2) (h / 2) (d / 2)) cubeW_idx) / 6 = w * h * d /\
  rvol6 (tri_pos (cubeQ_posR (w / 2) (h / 2) (d / 2)) cubeQ_idx) / 6 = w * h * d.
Proof.
  intros w h d Hw Hh Hd. assert (0 < w / 2) by lra. assert (0 < h / 2) by lra. assert (0 < d / 2) by lra.
  destruct (cube_volume w h d) as [V1 V2].
  split; [apply cubeW_closed|]. split; [apply cubeQ_closed|]. split; [apply cubeW_wf|]. split; [apply cubeQ_wf|].
  split; [apply cubeW_outward; assumption|]. split; [apply cubeQ_outward; assumption|].
  split; [apply cubeW_normals_outward; assumption|]. split; [apply cubeQ_normals_outward; assumption|].
  split; assumption.
Qed.
