(* C18 — index pattern of primitives.UVSphere / UVSphereUnwelded (modeling/primitives/sphere.go),
   copied from the loops as functions of (rows, columns).  No proofs in this file. *)
From PF Require Export Gen.Closed.
Open Scope N_scope.

(* positions: [0] top pole, then (rows-1) rings of `columns` vertices, then the bottom pole *)
Definition sphere_nverts (r c : N) : N := c * (r - 1) + 2.

(* UVSphere: constructor accepts rows >= 2, columns >= 3 (panics otherwise) *)
Definition sphere_accepts (r c : N) : bool := (2 <=? r) && (3 <=? c).

Definition sphere_idx (r c : N) : list N :=
  let v1i := c * (r - 1) + 1 in                       (* len(positions) before the bottom vertex *)
  (* add top / bottom triangles *)
  flat_map (fun i =>
      [ 0;   (i + 1) mod c + 1;   i + 1;
        v1i; i + c * (r - 2) + 1; (i + 1) mod c + c * (r - 2) + 1 ]) (nseq c)
  (* add quads per stack / slice *)
  ++ flat_map (fun j =>
       let j0 := j * c + 1 in
       let j1 := (j + 1) * c + 1 in
       flat_map (fun i =>
         let i0 := j0 + i in
         let i1 := j0 + (i + 1) mod c in
         let i2 := j1 + (i + 1) mod c in
         let i3 := j1 + i in
         [i0; i1; i2; i0; i2; i3]) (nseq c)) (nseq (r - 2)).

(* UVSphereUnwelded: every triangle of the fans gets 3 fresh vertices, every quad 4;
   len(finalVerts) is 6*i before fan iteration i and 6*c + 4*(j*c+i) before quad (j,i) *)
Definition sphereU_nverts (r c : N) : N := 6 * c + 4 * c * (r - 2).

Definition sphereU_idx (r c : N) : list N :=
  flat_map (fun i => let b := 6 * i in [b; b + 1; b + 2; b + 3; b + 4; b + 5]) (nseq c)
  ++ flat_map (fun j =>
       flat_map (fun i =>
         let b := 6 * c + 4 * (j * c + i) in
         [b; b + 1; b + 2; b; b + 2; b + 3]) (nseq c)) (nseq (r - 2)).

(* which calculatedPositions entry the fresh vertex k is a copy of: the coincidence class of k *)
Definition sphereU_cls (r c : N) (k : N) : N :=
  if k <? 6 * c then
    let i := k / 6 in
    match k mod 6 with
    | 0 => 0
    | 1 => (i + 1) mod c + 1
    | 2 => i + 1
    | 3 => c * (r - 1) + 1
    | 4 => i + c * (r - 2) + 1
    | _ => (i + 1) mod c + c * (r - 2) + 1
    end
  else
    let q := (k - 6 * c) / 4 in
    let j := q / c in
    let i := q mod c in
    match (k - 6 * c) mod 4 with
    | 0 => j * c + 1 + i
    | 1 => j * c + 1 + (i + 1) mod c
    | 2 => (j + 1) * c + 1 + (i + 1) mod c
    | _ => (j + 1) * c + 1 + i
    end.

(* welded sphere: distinct indices are distinct points *)
Definition sphere_cls (k : N) : N := k.
