(* C18 — the capped cylinder is a closed, consistently oriented surface for EVERY side count >= 3
   (after merging coincident positions: the seam column and the two cap rims), and its indices are
   well formed for every side count >= 1.

   Device: the class-mapped triangle list is written as the family [map (cyl_T n) (cyl_ps n)] of
   triangles indexed by (kind, column); the three conditions of FamilyProofs.good are linear
   arithmetic over column numbers once the wrap-arounds [sn], [pn], [mn] are replaced by their
   case descriptions. *)
From PF Require Import Gen.Closed Gen.ClosedProofs Gen.FamilyProofs Gen.Cylinder.
From Coq Require Import Lia ZifyN ZifyNat ZifyBool.
Ltac Zify.zify_post_hook ::= Z.div_mod_to_equations.
Open Scope N_scope.

(* the bottom cap is the top circle turned by pi: rim vertex k lands on column (n - k) mod n *)
Definition mn (n k : N) : N := (n - k) mod n.

Lemma mn_spec : forall n k, k < n -> (k = 0 /\ mn n k = 0) \/ (0 < k /\ mn n k = n - k).
Proof.
  intros n k H. unfold mn. destruct (N.eq_dec k 0) as [E|E].
  - left. split; [exact E|]. subst k. rewrite N.sub_0_r. apply N.mod_same. lia.
  - right. split; [lia|]. apply N.mod_small. lia.
Qed.
Lemma mn_lt : forall n k, k < n -> mn n k < n.
Proof. intros n k H. destruct (mn_spec n k H); lia. Qed.
Lemma mn_invol : forall n k, k < n -> mn n (mn n k) = k.
Proof. intros n k H. pose proof (mn_spec n k H). pose proof (mn_spec n (mn n k) (mn_lt n k H)). lia. Qed.
Lemma sn_mn_sn : forall n k, k < n -> sn n (mn n (sn n k)) = mn n k.
Proof.
  intros n k H. pose proof (sn_spec n k H). pose proof (mn_spec n k H).
  pose proof (mn_spec n (sn n k) (sn_lt n k H)).
  pose proof (sn_spec n (mn n (sn n k)) (mn_lt n _ (sn_lt n k H))). lia.
Qed.
Lemma mn_sn_pn : forall n k, k < n -> mn n (sn n (pn n k)) = mn n k.
Proof. intros n k H. now rewrite sn_pn. Qed.

(* ---- the triangles, in classes ---- *)
Inductive cp := SA (k : N) | SB (k : N) | CT (k : N) | CB (k : N).
Definition cp_k (p : cp) : N := match p with SA k | SB k | CT k | CB k => k end.

Definition cyl_ps (n : N) : list cp :=
  flat_map (fun k => [SA k; SB k]) (nseq n) ++ map CT (nseq n) ++ map CB (nseq n).

(* top row of column k = 2k, bottom row = 2k+1, top centre = 3n+2, bottom centre = 4n+3 *)
Definition cyl_T (n : N) (p : cp) : N * N * N :=
  match p with
  | SA k => (2 * k + 1, 2 * k, 2 * sn n k)
  | SB k => (2 * k + 1, 2 * sn n k, 2 * sn n k + 1)
  | CT k => (2 * k, 3 * n + 2, 2 * sn n k)
  | CB k => (2 * mn n k + 1, 4 * n + 3, 2 * mn n (sn n k) + 1)
  end.

Lemma in_cyl_ps : forall n p, In p (cyl_ps n) <-> cp_k p < n.
Proof.
  intros n p. unfold cyl_ps. rewrite !in_app_iff, in_flat_map, !in_map_iff. split.
  - intros [(k & Hk & Hp)|[(k & <- & Hk)|(k & <- & Hk)]]; apply nseq_in in Hk.
    + cbn in Hp. destruct Hp as [<-|[<-|[]]]; exact Hk.
    + exact Hk.
    + exact Hk.
  - intros H. destruct p as [k|k|k|k]; cbn [cp_k] in H; apply nseq_in in H.
    + left. exists k. split; [exact H|]. cbn. auto.
    + left. exists k. split; [exact H|]. cbn. auto.
    + right. left. exists k. auto.
    + right. right. exists k. auto.
Qed.

Lemma cyl_ps_nodup : forall n, NoDup (cyl_ps n).
Proof.
  intros n. unfold cyl_ps. apply nodup_app; [|apply nodup_app|].
  - apply nodup_flat_map; [apply nseq_nodup| |].
    + intros k _. repeat constructor; cbn; intuition congruence.
    + intros x y z _ _ Hx Hy. cbn in Hx, Hy.
      destruct Hx as [<-|[<-|[]]]; destruct Hy as [E|[E|[]]]; congruence.
  - apply nodup_map_in; [apply nseq_nodup|]. intros x y _ _ E. congruence.
  - apply nodup_map_in; [apply nseq_nodup|]. intros x y _ _ E. congruence.
  - intros x Hx Hy. apply in_map_iff in Hx, Hy. destruct Hx as (a & <- & _). destruct Hy as (b & E & _). congruence.
  - intros x Hx Hy. apply in_flat_map in Hx. destruct Hx as (k & _ & Hk).
    apply in_app_iff in Hy. rewrite !in_map_iff in Hy. cbn in Hk.
    destruct Hk as [<-|[<-|[]]]; destruct Hy as [(b & E & _)|(b & E & _)]; congruence.
Qed.

(* everything lia needs to know about the wrap-arounds of column k *)
Ltac specs n k :=
  pose proof (sn_spec n k); pose proof (mn_spec n k); pose proof (mn_spec n (sn n k)).
Ltac edge_in :=
  unfold erev; cbn [cyl_T tri_edges In fst snd];
  first [ left; apply pair_eq; lia | right; left; apply pair_eq; lia | right; right; left; apply pair_eq; lia ].
Ltac tw n q := exists q; split; [apply in_cyl_ps; cbn [cp_k]; lia | edge_in].

Theorem cyl_good : forall n, 3 <= n -> good (cyl_T n) (cyl_ps n).
Proof.
  intros n Hn. constructor.
  - apply cyl_ps_nodup.
  - intros p Hp. apply in_cyl_ps in Hp.
    destruct p as [k|k|k|k]; cbn [cp_k] in Hp; specs n k; unfold cyl_T, nondeg; lia.
  - intros p q e Hp Hq H1 H2. apply in_cyl_ps in Hp, Hq.
    destruct p as [k|k|k|k]; cbn [cp_k] in Hp;
      [pose proof (sn_spec n k)|pose proof (sn_spec n k)|pose proof (sn_spec n k)|specs n k];
      (destruct q as [k'|k'|k'|k']; cbn [cp_k] in Hq;
       [pose proof (sn_spec n k')|pose proof (sn_spec n k')|pose proof (sn_spec n k')|specs n k']);
      cbn [cyl_T tri_edges In] in H1, H2;
      destruct H1 as [<-|[<-|[<-|[]]]]; destruct H2 as [E|[E|[E|[]]]];
      apply pair_equal_spec in E; destruct E as [E1 E2];
      first [ exfalso; lia | f_equal; lia ].
  - intros p e Hp He. apply in_cyl_ps in Hp.
    destruct p as [k|k|k|k]; cbn [cp_k] in Hp; specs n k;
      pose proof (pn_spec n k Hp) as Hpn; pose proof (sn_lt n k Hp) as Hsl; pose proof (pn_lt n k Hp) as Hpl;
      cbn [cyl_T tri_edges In] in He; destruct He as [<-|[<-|[<-|[]]]].
    + (* SA: bottom k -> top k *) pose proof (sn_pn n k Hp) as R. tw n (SB (pn n k)).
    + tw n (CT k).
    + tw n (SB k).
    + tw n (SA k).
    + tw n (SA (sn n k)).
    + (* SB: bottom (k+1) -> bottom k; the bottom cap runs the other way round *)
      pose proof (mn_lt n _ Hsl) as Hml. pose proof (sn_mn_sn n k Hp) as R1.
      pose proof (mn_invol n k Hp) as R2. pose proof (mn_invol n _ Hsl) as R3.
      exists (CB (mn n (sn n k))). split; [apply in_cyl_ps; cbn [cp_k]; lia|].
      unfold erev; cbn [cyl_T tri_edges In fst snd]. rewrite R1, R2, R3. right. right. left. reflexivity.
    + pose proof (sn_pn n k Hp) as R. exists (CT (pn n k)). split; [apply in_cyl_ps; cbn [cp_k]; lia|].
      unfold erev; cbn [cyl_T tri_edges In fst snd]. rewrite R. right. left. reflexivity.
    + tw n (CT (sn n k)).
    + tw n (SA k).
    + pose proof (sn_pn n k Hp) as R. exists (CB (pn n k)). split; [apply in_cyl_ps; cbn [cp_k]; lia|].
      unfold erev; cbn [cyl_T tri_edges In fst snd]. rewrite R. right. left. reflexivity.
    + tw n (CB (sn n k)).
    + pose proof (mn_lt n _ Hsl) as Hml. pose proof (sn_mn_sn n k Hp) as R1.
      exists (SB (mn n (sn n k))). split; [apply in_cyl_ps; cbn [cp_k]; lia|].
      unfold erev; cbn [cyl_T tri_edges In fst snd]. rewrite R1. right. right. left. reflexivity.
Qed.

(* ---- the model's index list, mapped to classes, is that family ---- *)
Lemma circle_idx_eq : forall n, 1 <= n -> circle_idx n = flat_map (fun k => [k; n; sn n k]) (nseq n).
Proof.
  intros n Hn. assert (E : nseq n = nseq (n - 1) ++ [n - 1]) by (rewrite <- nseq_succ; f_equal; lia).
  rewrite E, flat_map_app. unfold circle_idx. f_equal.
  - apply flat_map_ext_in. intros k Hk. apply nseq_in in Hk. cbv zeta. unfold sn.
    rewrite (N.mod_small (k + 1) n) by lia. replace (k + 1 - 1) with k by lia. reflexivity.
  - cbn [flat_map app]. unfold sn. replace (n - 1 + 1) with n by lia. rewrite N.mod_same by lia. reflexivity.
Qed.

Lemma cls_top : forall n k, 1 <= n -> k <= n -> cyl_cls n (2 * k) = 2 * (k mod n).
Proof.
  intros n k Hn Hk. unfold cyl_cls, strip_nverts. destruct (N.ltb_spec (2 * k) (2 * n + 2)); [|lia].
  replace (2 * k / 2) with k by lia. replace ((2 * k) mod 2) with 0 by lia. lia.
Qed.
Lemma cls_bot : forall n k, 1 <= n -> k <= n -> cyl_cls n (2 * k + 1) = 2 * (k mod n) + 1.
Proof.
  intros n k Hn Hk. unfold cyl_cls, strip_nverts. destruct (N.ltb_spec (2 * k + 1) (2 * n + 2)); [|lia].
  replace ((2 * k + 1) / 2) with k by lia. replace ((2 * k + 1) mod 2) with 1 by lia. reflexivity.
Qed.
Lemma cls_trim : forall n k, k < n -> cyl_cls n (k + strip_nverts n) = 2 * k.
Proof.
  intros n k Hk. unfold cyl_cls, strip_nverts.
  destruct (N.ltb_spec (k + (2 * n + 2)) (2 * n + 2)); [lia|].
  destruct (N.ltb_spec (k + (2 * n + 2)) (2 * n + 2 + n)); [|lia]. f_equal. lia.
Qed.
Lemma cls_tc : forall n, cyl_cls n (n + strip_nverts n) = 3 * n + 2.
Proof.
  intros n. unfold cyl_cls, strip_nverts, circle_nverts.
  destruct (N.ltb_spec (n + (2 * n + 2)) (2 * n + 2)); [lia|].
  destruct (N.ltb_spec (n + (2 * n + 2)) (2 * n + 2 + n)); [lia|].
  destruct (N.ltb_spec (n + (2 * n + 2)) (2 * n + 2 + (n + 1))); lia.
Qed.
Lemma cls_brim : forall n k, k < n -> cyl_cls n (k + (strip_nverts n + circle_nverts n)) = 2 * mn n k + 1.
Proof.
  intros n k Hk. unfold cyl_cls, strip_nverts, circle_nverts, mn.
  destruct (N.ltb_spec (k + (2 * n + 2 + (n + 1))) (2 * n + 2)); [lia|].
  destruct (N.ltb_spec (k + (2 * n + 2 + (n + 1))) (2 * n + 2 + n)); [lia|].
  destruct (N.ltb_spec (k + (2 * n + 2 + (n + 1))) (2 * n + 2 + (n + 1))); [lia|].
  destruct (N.ltb_spec (k + (2 * n + 2 + (n + 1))) (2 * n + 2 + (n + 1) + n)); [|lia].
  replace (k + (2 * n + 2 + (n + 1)) - (2 * n + 2 + (n + 1))) with k by lia. reflexivity.
Qed.
Lemma cls_bc : forall n, cyl_cls n (n + (strip_nverts n + circle_nverts n)) = 4 * n + 3.
Proof.
  intros n. unfold cyl_cls, strip_nverts, circle_nverts.
  destruct (N.ltb_spec (n + (2 * n + 2 + (n + 1))) (2 * n + 2)); [lia|].
  destruct (N.ltb_spec (n + (2 * n + 2 + (n + 1))) (2 * n + 2 + n)); [lia|].
  destruct (N.ltb_spec (n + (2 * n + 2 + (n + 1))) (2 * n + 2 + (n + 1))); [lia|].
  destruct (N.ltb_spec (n + (2 * n + 2 + (n + 1))) (2 * n + 2 + (n + 1) + n)); lia.
Qed.

Lemma cyl_tris_eq : forall n, 1 <= n ->
  tris_of (map (cyl_cls n) (cyl_idx n)) = map (cyl_T n) (cyl_ps n).
Proof.
  intros n Hn. unfold cyl_idx, append_idx, cyl_ps, strip_idx. rewrite (circle_idx_eq n Hn).
  rewrite !map_app, !map_map, !map_flat_map, <- !app_assoc.
  rewrite (tris_of_flat_map_k 2) by (intros; reflexivity).
  rewrite (tris_of_flat_map_k 1) by (intros; reflexivity).
  rewrite (tris_of_flat_map_k0 1) by (intros; reflexivity).
  f_equal; [|f_equal].
  - apply flat_map_ext_in. intros k Hk. apply nseq_in in Hk. cbv beta zeta. cbn [map tris_of].
    replace ((k + 1 - 1) * 2) with (2 * k) by lia. replace ((k + 1) * 2) with (2 * (k + 1)) by lia.
    rewrite !cls_top, !cls_bot by lia. rewrite (N.mod_small k n) by lia. reflexivity.
  - rewrite <- flat_map_single. apply flat_map_ext_in. intros k Hk. apply nseq_in in Hk. cbv beta. cbn [map tris_of].
    rewrite cls_tc, !cls_trim by (try apply sn_lt; lia). reflexivity.
  - rewrite <- flat_map_single. apply flat_map_ext_in. intros k Hk. apply nseq_in in Hk. cbv beta. cbn [map tris_of].
    rewrite cls_bc, !cls_brim by (try apply sn_lt; lia). reflexivity.
Qed.

Lemma cyl_idx_length : forall n, 1 <= n -> length (cyl_idx n) = (12 * N.to_nat n)%nat.
Proof.
  intros n Hn. unfold cyl_idx, append_idx, strip_idx. rewrite (circle_idx_eq n Hn).
  rewrite !app_length, !map_length.
  rewrite (flat_map_length_const _ 6) by reflexivity. rewrite (flat_map_length_const _ 3) by reflexivity.
  rewrite nseq_length. lia.
Qed.

(* the capped cylinder, every side count >= 3 *)
Theorem cyl_closed : forall n, 3 <= n -> closed_idx (cyl_cls n) (cyl_idx n).
Proof.
  intros n Hn. split.
  - rewrite cyl_idx_length by lia. lia.
  - rewrite cyl_tris_eq by lia. apply good_closed, cyl_good, Hn.
Qed.

(* indices in range, whole triangles: every side count >= 1 *)
Theorem cyl_wf : forall n, 1 <= n -> wf_idx (cyl_nverts n) (cyl_idx n).
Proof.
  intros n Hn. split.
  - rewrite cyl_idx_length by lia. lia.
  - unfold cyl_idx, append_idx, strip_idx, cyl_nverts, strip_nverts, circle_nverts. rewrite (circle_idx_eq n Hn).
    rewrite !Forall_app, !Forall_map, !Forall_flat_map. repeat split; apply Forall_forall; intros k Hk;
      apply nseq_in in Hk; pose proof (sn_lt n k Hk); repeat constructor; lia.
Qed.
