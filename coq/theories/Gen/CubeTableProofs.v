(* C18 — binding T for the welded box: the triangle table `cubeVertIndices` is TRANSLATED from modeling/primitives/cube.go on
   every run (tools/tab2coq -> coq/gen/CubeTable.v, bin/regen-c18.sh) and the box theorems are re-proved about the table as
   the source has it — by evaluation, so the proofs do not depend on the order in which the source lists the twelve
   triangles (a reordering keeps them, a rewound or re-routed triangle breaks them). *)
From PF Require Import Gen.Closed Gen.ClosedProofs Gen.Cube Gen.CubeProofs.
From PFGen Require Import CubeTable.
From Coq Require Import Reals Lra Psatz ZArith List.
Import ListNotations.

Definition cube_table : list N := map Z.to_N cubeVertIndices.

(* no entry of the source table is negative (Z.to_N loses nothing), whole triangles, every index one of the 8 corners *)
Theorem cube_table_wf : forallb (fun z => (0 <=? z)%Z) cubeVertIndices = true /\ wf_idx cubeW_nverts cube_table.
Proof. split; [vm_compute; reflexivity|apply wf_idxb_iff; vm_compute; reflexivity]. Qed.

(* closed and consistently oriented (corners are distinct points: identity classes) *)
Theorem cube_table_closed : closed_idx cubeW_cls cube_table.
Proof. apply closed_idxb_iff. vm_compute. reflexivity. Qed.

Open Scope R_scope.
(* with Welded()'s corner positions: enclosed volume w*h*d for all real extents *)
Theorem cube_table_volume : forall w h d : R,
  rvol6 (tri_pos (cubeW_posR (w / 2) (h / 2) (d / 2)) cube_table) / 6 = w * h * d.
Proof. intros. eval_cube. field. Qed.

(* every face away from the centre, every vertex normal (the corner direction) on the outer side of each incident face *)
Theorem cube_table_outward : forall hw hh hd : R, 0 < hw -> 0 < hh -> 0 < hd ->
  Forall (rfaces_away rzero) (tri_pos (cubeW_posR hw hh hd) cube_table) /\
  normals_outer (cubeW_posR hw hh hd) (cubeW_posR hw hh hd) cube_table.
Proof. intros hw hh hd Hw Hh Hd. pos3 hw hh hd. split; eval_cube; repeat constructor; nra. Qed.
Close Scope R_scope.

(* the translated table and the hand model list the same oriented triangles (each rotated to start at its smallest corner,
   the list sorted): the hand model's theorems and the harness's exact comparison speak about the same surface *)
Definition rot_min (t : N * N * N) : N * N * N :=
  let '(a, b, c) := t in
  if ((a <=? b) && (a <=? c))%N then (a, b, c) else if ((b <=? a) && (b <=? c))%N then (b, c, a) else (c, a, b).
Definition tri_key (t : N * N * N) : N := let '(a, b, c) := t in (a * 64 + b * 8 + c)%N.
Fixpoint ins (x : N) (l : list N) : list N :=
  match l with [] => [x] | y :: r => if (x <=? y)%N then x :: l else y :: ins x r end.
Definition canon_tris (idx : list N) : list N := fold_right ins [] (map (fun t => tri_key (rot_min t)) (tris_of idx)).
Theorem cube_table_same_surface : canon_tris cube_table = canon_tris cubeW_idx.
Proof. vm_compute. reflexivity. Qed.
