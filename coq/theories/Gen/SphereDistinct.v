(* C18 — "once coincident positions are merged" for the welded UV sphere: with the generator's position formula over R no
   two of the (rows-1)*columns+2 vertices coincide, so the identity class map [sphere_cls] IS the coincidence relation
   (the harness observes the same on the float positions: exact equality classes = identity). *)
From PF Require Import Gen.Closed Gen.CubeProofs Gen.Sphere Gen.CylinderVolume Gen.SphereVolume.
From Coq Require Import Reals Lra Psatz Lia ZifyN ZifyNat ZifyBool.
Ltac Zify.zify_post_hook ::= Z.div_mod_to_equations.
Open Scope R_scope.

(* a point of the unit circle determines its angle in [0, 2 pi) *)
Lemma circle_inj : forall a b, 0 <= a < 2 * PI -> 0 <= b < 2 * PI -> cos a = cos b -> sin a = sin b -> a = b.
Proof.
  intros a b Ha Hb Hc Hs. pose proof PI_RGT_0 as Hpi.
  assert (C : cos (a - b) = 1).
  { rewrite cos_minus, Hc, Hs. pose proof (sin2_cos2 b) as Q. unfold Rsqr in Q. lra. }
  set (d := (a - b) / 2). assert (E : a - b = 2 * d) by (unfold d; field).
  rewrite E, cos_2a_sin in C. assert (S0 : sin d * sin d = 0) by lra.
  assert (S : sin d = 0) by (destruct (Rmult_integral _ _ S0); assumption).
  assert (D : - PI < d < PI) by (unfold d; lra).
  destruct (Rtotal_order d 0) as [L|[Z|G]].
  - pose proof (sin_lt_0_var d ltac:(lra) L). lra.
  - lra.
  - pose proof (sin_gt_0 d G ltac:(lra)). lra.
Qed.

Lemma NR_inj : forall a b, NR a = NR b -> a = b.
Proof. intros a b H. unfold NR in H. apply eq_IZR in H. lia. Qed.
Lemma NR_lt : forall a b, (a < b)%N -> NR a < NR b.
Proof. intros. unfold NR. apply IZR_lt. lia. Qed.
Lemma NR_nonneg : forall a, 0 <= NR a.
Proof. intros. unfold NR. apply IZR_le. lia. Qed.

Lemma phi_range : forall r l, (0 < l < r)%N -> 0 < phi r l < PI.
Proof.
  intros r l [H0 H1]. pose proof PI_RGT_0. pose proof (NR_lt _ _ H0) as A. change (NR 0) with 0 in A. pose proof (NR_lt _ _ H1) as B.
  unfold phi. split.
  - apply Rdiv_lt_0_compat; [nra|lra].
  - apply (Rmult_lt_reg_r (NR r)); [lra|]. unfold Rdiv. rewrite Rmult_assoc, Rinv_l by lra. nra.
Qed.
Lemma theta_range : forall c i, (i < c)%N -> 0 <= theta c i < 2 * PI.
Proof.
  intros c i H. pose proof PI_RGT_0. pose proof (NR_nonneg i) as A. pose proof (NR_lt _ _ H) as B.
  unfold theta. split.
  - apply Rmult_le_pos; [nra|left; apply Rinv_0_lt_compat; lra].
  - apply (Rmult_lt_reg_r (NR c)); [lra|]. unfold Rdiv. rewrite Rmult_assoc, Rinv_l by lra. nra.
Qed.
Lemma phi_inj : forall r l l', (1 <= r)%N -> phi r l = phi r l' -> l = l'.
Proof.
  intros r l l' Hr H. pose proof (NR_pos r Hr). pose proof PI_RGT_0. unfold phi in H. apply NR_inj.
  apply (Rmult_eq_reg_l (PI / NR r)); [|apply Rgt_not_eq, Rdiv_lt_0_compat; lra].
  unfold Rdiv in *. lra.
Qed.
Lemma theta_inj : forall c i i', (1 <= c)%N -> theta c i = theta c i' -> i = i'.
Proof.
  intros c i i' Hc H. pose proof (NR_pos c Hc). pose proof PI_RGT_0. unfold theta in H. apply NR_inj.
  apply (Rmult_eq_reg_l (2 * PI / NR c)); [|apply Rgt_not_eq, Rdiv_lt_0_compat; lra].
  unfold Rdiv in *. lra.
Qed.

(* a ring vertex is strictly between the poles *)
Lemma ring_y : forall rad ph th, 0 < rad -> 0 < ph < PI -> - rad < snd (fst (VR rad ph th)) < rad.
Proof.
  intros rad ph th Hr Hp. unfold VR. cbn [fst snd]. pose proof PI_RGT_0.
  assert (cos ph < 1).
  { destruct (COS_bound ph) as [_ U]. destruct U as [U|U]; [exact U|]. exfalso. rewrite <- cos_0 in U.
    apply cos_inj in U; lra. }
  assert (-1 < cos ph).
  { destruct (COS_bound ph) as [L _]. destruct L as [L|L]; [exact L|]. exfalso. rewrite <- cos_PI in L.
    symmetry in L. apply cos_inj in L; lra. }
  split; nra.
Qed.

Lemma VR_inj : forall rad ph ph' th th', 0 < rad -> 0 < ph < PI -> 0 < ph' < PI -> 0 <= th < 2 * PI -> 0 <= th' < 2 * PI ->
  VR rad ph th = VR rad ph' th' -> ph = ph' /\ th = th'.
Proof.
  intros rad ph ph' th th' Hr Hp Hp' Ht Ht' E. unfold VR in E. injection E as Ex Ey Ez.
  assert (Cp : cos ph = cos ph') by (apply (Rmult_eq_reg_r rad); lra).
  assert (P : ph = ph') by (apply cos_inj; lra). subst ph'. split; [reflexivity|].
  pose proof (sin_gt_0 ph ltac:(lra) ltac:(lra)) as Sp.
  apply circle_inj; try assumption.
  - apply (Rmult_eq_reg_l (sin ph * rad)); [nra|apply Rgt_not_eq; nra].
  - apply (Rmult_eq_reg_l (sin ph * rad)); [nra|apply Rgt_not_eq; nra].
Qed.

(* ring decoding of a vertex number *)
Lemma sph_pos_cases : forall r c rad v, (2 <= r)%N -> (1 <= c)%N -> (v < sphere_nverts r c)%N ->
  (v = 0%N /\ sph_posR r c rad v = (0, rad, 0)) \/
  (v = (c * (r - 1) + 1)%N /\ sph_posR r c rad v = (0, - rad, 0)) \/
  (exists l i, (0 < l < r)%N /\ (i < c)%N /\ v = ((l - 1) * c + 1 + i)%N /\ sph_posR r c rad v = VR rad (phi r l) (theta c i)).
Proof.
  intros r c rad v Hr Hc Hv. unfold sphere_nverts in Hv. unfold sph_posR.
  destruct (N.eqb_spec v 0) as [V0|V0]; [left; split; [exact V0|reflexivity]|].
  destruct (N.eqb_spec v (c * (r - 1) + 1)) as [V1|V1]; [right; left; split; [exact V1|reflexivity]|].
  right. right. exists ((v - 1) / c + 1)%N, ((v - 1) mod c)%N.
  assert (Q : ((v - 1) / c < r - 1)%N) by (apply N.div_lt_upper_bound; [lia|rewrite N.mul_comm; lia]).
  assert (M : ((v - 1) mod c < c)%N) by (apply N.mod_lt; lia).
  pose proof (N.div_mod (v - 1) c ltac:(lia)) as DM.
  set (q := ((v - 1) / c)%N) in *. set (m := ((v - 1) mod c)%N) in *.
  split; [split; [apply N.add_pos_r; reflexivity|]|].
  { apply (N.lt_le_trans _ (r - 1 + 1)); [apply N.add_lt_mono_r; exact Q|]. rewrite N.sub_add; [apply N.le_refl|].
    apply N.le_trans with 2%N; [discriminate|exact Hr]. }
  split; [exact M|]. split; [|reflexivity].
  rewrite N.add_sub, (N.mul_comm q c), <- N.add_assoc, (N.add_comm 1 m), N.add_assoc, <- DM.
  symmetry. apply N.sub_add. destruct v; [contradiction V0; reflexivity|]. destruct p; discriminate.
Qed.

Theorem sphere_vertices_distinct : forall r c rad v w, (2 <= r)%N -> (1 <= c)%N -> 0 < rad ->
  (v < sphere_nverts r c)%N -> (w < sphere_nverts r c)%N -> sph_posR r c rad v = sph_posR r c rad w -> v = w.
Proof.
  intros r c rad v w Hr Hc Hrad Hv Hw E.
  destruct (sph_pos_cases r c rad v Hr Hc Hv) as [[V Pv]|[[V Pv]|(l & i & Hl & Hi & V & Pv)]];
  destruct (sph_pos_cases r c rad w Hr Hc Hw) as [[W Pw]|[[W Pw]|(l' & i' & Hl' & Hi' & W & Pw)]];
  rewrite Pv, Pw in E; try (subst; reflexivity).
  - exfalso. pose proof (f_equal (fun p : rvec => snd (fst p)) E) as Y. cbn [fst snd] in Y. lra.
  - exfalso. pose proof (ring_y rad (phi r l') (theta c i') Hrad (phi_range r l' Hl')) as Y. rewrite <- E in Y. cbn [fst snd] in Y. lra.
  - exfalso. pose proof (f_equal (fun p : rvec => snd (fst p)) E) as Y. cbn [fst snd] in Y. lra.
  - exfalso. pose proof (ring_y rad (phi r l') (theta c i') Hrad (phi_range r l' Hl')) as Y. rewrite <- E in Y. cbn [fst snd] in Y. lra.
  - exfalso. pose proof (ring_y rad (phi r l) (theta c i) Hrad (phi_range r l Hl)) as Y. rewrite E in Y. cbn [fst snd] in Y. lra.
  - exfalso. pose proof (ring_y rad (phi r l) (theta c i) Hrad (phi_range r l Hl)) as Y. rewrite E in Y. cbn [fst snd] in Y. lra.
  - apply VR_inj in E; try assumption; try (apply phi_range; assumption); try (apply theta_range; assumption).
    destruct E as [P T]. apply phi_inj in P; [|lia]. apply theta_inj in T; [|exact Hc]. subst. reflexivity.
Qed.

(* ---- the unwelded sphere: fresh vertex k copies calculatedPositions[sphereU_cls k], so two fresh vertices coincide exactly
        when sphereU_cls gives them the same welded vertex ---- *)
Lemma sphereU_cls_lt : forall r c k, (2 <= r)%N -> (1 <= c)%N -> (k < sphereU_nverts r c)%N ->
  (sphereU_cls r c k < sphere_nverts r c)%N.
Proof.
  intros r c k Hr Hc Hk. unfold sphereU_nverts in Hk. unfold sphereU_cls, sphere_nverts.
  assert (R1 : (c * (r - 1) = c * (r - 2) + c)%N) by (replace (r - 1)%N with (r - 2 + 1)%N by lia; lia).
  pose proof (N.le_0_l (c * (r - 2))) as P0. pose proof (N.le_0_l (c * (r - 1))) as P1.
  destruct (N.ltb_spec k (6 * c)) as [L|L].
  - assert (I : (k / 6 < c)%N) by (apply N.div_lt_upper_bound; lia).
    assert (M : ((k / 6 + 1) mod c < c)%N) by (apply N.mod_lt; lia).
    set (i := (k / 6)%N) in *. set (m := ((i + 1) mod c)%N) in *.
    clearbody i m. destruct (k mod 6)%N as [|[[[p|p|]|[p|p|]|]|[[p|p|]|[p|p|]|]|]]; cbv beta iota; lia.
  - set (q := ((k - 6 * c) / 4)%N).
    assert (Q : (q < c * (r - 2))%N) by (apply N.div_lt_upper_bound; lia).
    assert (J : (q / c < r - 2)%N) by (apply N.div_lt_upper_bound; [lia|exact Q]).
    assert (I : (q mod c < c)%N) by (apply N.mod_lt; lia).
    assert (M : ((q mod c + 1) mod c < c)%N) by (apply N.mod_lt; lia).
    assert (B : ((q / c + 1) * c <= (r - 2) * c)%N) by (apply N.mul_le_mono_r; lia).
    assert (B0 : (q / c * c <= (q / c + 1) * c)%N) by (apply N.mul_le_mono_r; lia).
    set (j := (q / c)%N) in *. set (i := (q mod c)%N) in *. set (m := ((i + 1) mod c)%N) in *.
    set (x := (j * c)%N) in *. set (y := ((j + 1) * c)%N) in *. replace ((r - 2) * c)%N with (c * (r - 2))%N in B by lia.
    set (z := (c * (r - 2))%N) in *.
    clearbody j i m x y z. clear Q. clearbody q. destruct ((k - 6 * c) mod 4)%N as [|[[p|p|]|[p|p|]|]]; cbv beta iota; lia.
Qed.

Theorem sphereU_classes_from_positions : forall r c rad k k', (2 <= r)%N -> (1 <= c)%N -> 0 < rad ->
  (k < sphereU_nverts r c)%N -> (k' < sphereU_nverts r c)%N ->
  (sphU_posR r c rad k = sphU_posR r c rad k' <-> sphereU_cls r c k = sphereU_cls r c k').
Proof.
  intros r c rad k k' Hr Hc Hrad Hk Hk'. unfold sphU_posR. split; intro E.
  - apply (sphere_vertices_distinct r c rad); try assumption; apply sphereU_cls_lt; assumption.
  - rewrite E. reflexivity.
Qed.
