(* C18 — the volume of the capped cylinder grows with the side count: n |-> n * sin (2*pi/n) is nondecreasing,
   because sin is concave on [0, pi] (a * sin x <= sin (a * x) for 0 <= a <= 1; mean value theorem, Coquelicot). *)
From PF Require Import Gen.Closed Gen.CubeProofs Gen.CylinderVolume.
From Coq Require Import Reals Lra Psatz Lia.
From Coquelicot Require Import Coquelicot.
Open Scope R_scope.

Lemma sin_concave0 : forall a x, 0 <= a <= 1 -> 0 <= x <= PI -> a * sin x <= sin (a * x).
Proof.
  intros a x Ha Hx.
  destruct (Req_dec x 0) as [->|Hx0]; [rewrite Rmult_0_r, sin_0; lra|].
  destruct (MVT_gen (fun t => sin (a * t) - a * sin t) 0 x (fun t => a * cos (a * t) - a * cos t)) as (c & Hc & E).
  - intros t Ht. auto_derive; [trivial|ring].
  - intros t Ht. apply continuity_pt_minus.
    + apply (continuity_pt_comp (fun t => a * t) sin); [reg|apply continuity_sin].
    + apply continuity_pt_mult; [reg|apply continuity_sin].
  - rewrite Rmin_left, Rmax_right in Hc by lra.
    rewrite Rmult_0_r, sin_0 in E.
    assert (D : 0 <= a * cos (a * c) - a * cos c).
    { assert (cos c <= cos (a * c)) by (apply cos_decr_1; nra). nra. }
    nra.
Qed.

Lemma nsin_mono : forall m n : R, 2 <= m -> m <= n -> m * sin (2 * PI / m) <= n * sin (2 * PI / n).
Proof.
  intros m n Hm Hmn. pose proof PI_RGT_0.
  assert (X : 0 <= 2 * PI / m <= PI).
  { split; [apply Rlt_le, Rdiv_lt_0_compat; lra|].
    apply (Rmult_le_reg_r m); [lra|]. unfold Rdiv. rewrite Rmult_assoc, Rinv_l by lra. nra. }
  assert (A : 0 <= m / n <= 1).
  { split; [apply Rlt_le, Rdiv_lt_0_compat; lra|]. apply (Rmult_le_reg_r n); [lra|]. unfold Rdiv. rewrite Rmult_assoc, Rinv_l by lra. lra. }
  pose proof (sin_concave0 (m / n) (2 * PI / m) A X) as C.
  replace (m / n * (2 * PI / m)) with (2 * PI / n) in C by (field; lra).
  apply (Rmult_le_compat_l n) in C; [|lra].
  replace (n * (m / n * sin (2 * PI / m))) with (m * sin (2 * PI / m)) in C by (field; lra). exact C.
Qed.

Theorem cyl_volume_monotone : forall m n rad h, (2 <= m)%N -> (m <= n)%N -> 0 <= h ->
  rvol6 (cyl_trisR m rad h) / 6 <= rvol6 (cyl_trisR n rad h) / 6.
Proof.
  intros m n rad h Hm Hmn Hh. rewrite !cyl_volume by lia.
  assert (M : 2 <= NR m) by (unfold NR; apply IZR_le; lia).
  assert (MN : NR m <= NR n) by (unfold NR; apply IZR_le; lia).
  pose proof (nsin_mono (NR m) (NR n) M MN) as S.
  assert (Q : 0 <= rad * rad) by nra.
  apply Rmult_le_compat_r; [exact Hh|].
  replace (NR m * (rad * rad * sin (2 * PI / NR m) / 2)) with (rad * rad / 2 * (NR m * sin (2 * PI / NR m))) by field.
  replace (NR n * (rad * rad * sin (2 * PI / NR n) / 2)) with (rad * rad / 2 * (NR n * sin (2 * PI / NR n))) by field.
  apply Rmult_le_compat_l; [lra|exact S].
Qed.
