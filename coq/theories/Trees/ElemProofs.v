(* C16 — the element types meet the one hypothesis the tree proofs make about them: the closest
   point an element reports lies inside the element's own bounding box (so it is at least as far
   away as the box).  Points and segments: immediate.  Triangles: the closest point is the plane
   projection when PointInSide accepts it, else a point of an edge; so the hypothesis is exactly
   "PointInSide accepts only points of the triangle" — true for the repaired three-sign test
   (tri_in_side_in_bbox), false for the pinned two-sign test (tri_point_in_side_refuted).        *)
From PF Require Export Trees.OctreeProofs.
From Coq Require Import Lqa Lia.
Open Scope Z_scope.

(* ---------- points ---------- *)
Lemma point_closest_in_bbox a : inb a (point_box a) = true.
Proof. apply inb_true. unfold point_box, bmin, bmax. cbn [fst snd]. lia. Qed.

Lemma point_box_wf a : wf_box (point_box a).
Proof. unfold wf_box, point_box, bmin, bmax. cbn [fst snd]. lia. Qed.
Lemma seg_box_wf a b : wf_box (seg_box a b).
Proof. unfold wf_box, seg_box, bmin, bmax, pmin, pmax, px, py, pz. cbn [fst snd]. lia. Qed.
Lemma tri_box_wf a b c : wf_box (tri_box a b c).
Proof. unfold wf_box, tri_box, bmin, bmax, pmin, pmax, px, py, pz. cbn [fst snd]. lia. Qed.

(* ---------- segments: one coordinate of Line3D.ClosestPointOnLine, for every parameter t ---------- *)
Lemma seg_at_between (a b t : Q) :
  ((a <= seg_at a b t /\ seg_at a b t <= b) \/ (b <= seg_at a b t /\ seg_at a b t <= a))%Q.
Proof.
  unfold seg_at. destruct (Qle_bool 1 t) eqn:E1; [|destruct (Qle_bool t 0) eqn:E0]; qb.
  - destruct (Qlt_le_dec a b); [left|right]; lra.
  - destruct (Qlt_le_dec a b); [left|right]; lra.
  - destruct (Qlt_le_dec a b) as [L|L]; [left|right]; split; nra.
Qed.

(* ---------- triangles ---------- *)
Lemma tri_identity ax ay az bx by_ bz cx cy cz x y z :
  let a := (ax,ay,az) in let b := (bx,by_,bz) in let c := (cx,cy,cz) in let p := (x,y,z) in
  let a' := vsub a p in let b' := vsub b p in let c' := vsub c p in
  let u := cross b' c' in let v := cross c' a' in let w := cross a' b' in
  let n := cross (vsub b a) (vsub c a) in
  dot n n * x - (dot u n * ax + dot v n * bx + dot w n * cx) = dot n (vsub p a) * px n /\
  dot n n * y - (dot u n * ay + dot v n * by_ + dot w n * cy) = dot n (vsub p a) * py n /\
  dot n n * z - (dot u n * az + dot v n * bz + dot w n * cz) = dot n (vsub p a) * pz n /\
  dot u n + dot v n + dot w n = dot n n /\
  dot u n = dot u u + dot u v + dot u w /\
  dot v n = dot u v + dot v v + dot v w /\
  dot w n = dot u w + dot v w + dot w w.
Proof. cbv zeta. unfold dot, cross, vsub, px, py, pz. cbn [fst snd]. repeat split; ring. Qed.

Lemma dot_self_nonneg u : 0 <= dot u u.
Proof. unfold dot. repeat apply Z.add_nonneg_nonneg; apply Z.square_nonneg. Qed.

Lemma convex_axis N al be ga ax bx cx x :
  0 < N -> 0 <= al -> 0 <= be -> 0 <= ga -> al + be + ga = N ->
  N * x - (al * ax + be * bx + ga * cx) = 0 ->
  Z.min (Z.min ax bx) cx <= x <= Z.max (Z.max ax bx) cx.
Proof.
  intros HN Ha Hb Hc Hs He.
  set (m := Z.min (Z.min ax bx) cx). set (M := Z.max (Z.max ax bx) cx).
  assert (0 <= al * (ax - m)) by (apply Z.mul_nonneg_nonneg; lia).
  assert (0 <= be * (bx - m)) by (apply Z.mul_nonneg_nonneg; lia).
  assert (0 <= ga * (cx - m)) by (apply Z.mul_nonneg_nonneg; lia).
  assert (0 <= al * (M - ax)) by (apply Z.mul_nonneg_nonneg; lia).
  assert (0 <= be * (M - bx)) by (apply Z.mul_nonneg_nonneg; lia).
  assert (0 <= ga * (M - cx)) by (apply Z.mul_nonneg_nonneg; lia).
  assert (0 <= N * (x - m)) by nia. assert (0 <= N * (M - x)) by nia.
  split; nia.
Qed.

(* the repaired PointInSide (26a68bd) accepts only points of the triangle's box: for a proper
   triangle and a point of its plane, three non-negative pairwise products of the sub-triangle
   normals make the point a convex combination of the corners *)
Theorem tri_in_side_in_bbox a b c p :
  0 < dot (cross (vsub b a) (vsub c a)) (cross (vsub b a) (vsub c a)) ->
  coplanar a b c p = true -> tri_in_side a b c p = true -> inb p (tri_box a b c) = true.
Proof.
  destruct a as [[ax ay] az], b as [[bx by_] bz], c as [[cx cy] cz], p as [[x y] z].
  intros HN Hc Hs. unfold coplanar in Hc. apply Z.eqb_eq in Hc.
  unfold tri_in_side in Hs. cbv zeta in Hs. rewrite !andb_true_iff, !negb_true_iff, !Z.ltb_ge, Z.leb_le in Hs.
  destruct Hs as [[H1 H2] H3].
  destruct (tri_identity ax ay az bx by_ bz cx cy cz x y z) as (Ix & Iy & Iz & S & U & V & W).
  cbv zeta in *. rewrite Hc in Ix, Iy, Iz. rewrite Z.mul_0_l in Ix, Iy, Iz.
  set (a := (ax, ay, az)) in *. set (b := (bx, by_, bz)) in *. set (c := (cx, cy, cz)) in *. set (p := (x, y, z)) in *.
  set (n := cross (vsub b a) (vsub c a)) in *.
  set (u := cross (vsub b p) (vsub c p)) in *. set (v := cross (vsub c p) (vsub a p)) in *.
  set (w := cross (vsub a p) (vsub b p)) in *.
  pose proof (dot_self_nonneg u). pose proof (dot_self_nonneg v). pose proof (dot_self_nonneg w).
  assert (Pu : 0 <= dot u n) by lia. assert (Pv : 0 <= dot v n) by lia. assert (Pw : 0 <= dot w n) by lia.
  apply inb_true. unfold tri_box, bmin, bmax, pmin, pmax. cbn [fst snd px py pz].
  pose proof (convex_axis _ _ _ _ ax bx cx x HN Pu Pv Pw S Ix).
  pose proof (convex_axis _ _ _ _ ay by_ cy y HN Pu Pv Pw S Iy).
  pose proof (convex_axis _ _ _ _ az bz cz z HN Pu Pv Pw S Iz).
  subst a b c p. unfold px, py, pz. cbn [fst snd]. lia.
Qed.

(* the pinned PointInSide (two sign tests) accepts a point of the triangle's plane on the extension of
   edge P2-P3, outside the triangle's box: triangle (0,0,0) (2,0,0) (0,2,0), point (3.5,-1.5,0), x4 *)
Theorem tri_point_in_side_refuted :
  exists a b c p,
    0 < dot (cross (vsub b a) (vsub c a)) (cross (vsub b a) (vsub c a)) /\
    coplanar a b c p = true /\ tri_in_side_pinned a b c p = true /\
    inb p (tri_box a b c) = false /\ tri_in_side a b c p = false.
Proof.
  exists (0, 0, 0), (8, 0, 0), (0, 8, 0), (14, -6, 0). vm_compute. repeat split; reflexivity.
Qed.

(* so a triangle's reported closest point (the accepted projection, or a point of an edge) is at least
   as far from the query as the triangle's box: the hypothesis of closest_eq_brute *)
Corollary tri_projection_far a b c p q :
  0 < dot (cross (vsub b a) (vsub c a)) (cross (vsub b a) (vsub c a)) ->
  coplanar a b c p = true -> tri_in_side a b c p = true ->
  boxdist2 (tri_box a b c) q <= dist2 p q.
Proof. intros. apply boxdist2_le_in, tri_in_side_in_bbox; assumption. Qed.
