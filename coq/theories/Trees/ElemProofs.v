(* C16 — the element types meet the one hypothesis the tree proofs make about them: the closest
   point an element reports lies inside the element's own bounding box (so it is at least as far
   away as the box).  Points and segments: immediate.  Triangles: the closest point is the plane
   projection when PointInSide accepts it, else a point of an edge; so the hypothesis is exactly
   "PointInSide accepts only points of the triangle" — true for the repaired three-sign test
   (tri_in_side_in_bbox), false for the pinned two-sign test (tri_point_in_side_refuted).        *)
From PF Require Export Trees.OctreeProofs.
From Coq Require Import Lqa Lia Qfield.
Open Scope Z_scope.

(* ---------- points ---------- *)
Lemma point_closest_in_bbox a : inb a (point_box a) = true.
Proof. apply inb_true. unfold point_box, bmin, bmax. cbn [fst snd]. lia. Qed.

Lemma point_box_wf a : wf_box (point_box a).
Proof. unfold wf_box, point_box, bmin, bmax. cbn [fst snd]. lia. Qed.
Lemma seg_box_wf a b : wf_box (seg_box a b).
Proof. unfold wf_box, seg_box, bmin, bmax, pmin, pmax, px, py, pz. cbn [fst snd]. lia. Qed.
Lemma tri_box_wf a b c : wf_box (tri_box a b c).
Proof. unfold wf_box, tri_box, bmin, bmax, pmin, pmax, px, py, pz. cbn [fst snd]. lia. Qed.

(* ---------- segments: one coordinate of Line3D.ClosestPointOnLine, for every parameter t ---------- *)
Lemma seg_at_between (a b t : Q) :
  ((a <= seg_at a b t /\ seg_at a b t <= b) \/ (b <= seg_at a b t /\ seg_at a b t <= a))%Q.
Proof.
  unfold seg_at. destruct (Qle_bool 1 t) eqn:E1; [|destruct (Qle_bool t 0) eqn:E0]; qb.
  - destruct (Qlt_le_dec a b); [left|right]; lra.
  - destruct (Qlt_le_dec a b); [left|right]; lra.
  - destruct (Qlt_le_dec a b) as [L|L]; [left|right]; split; nra.
Qed.

(* ---------- triangles ---------- *)
Lemma tri_identity ax ay az bx by_ bz cx cy cz x y z :
  let a := (ax,ay,az) in let b := (bx,by_,bz) in let c := (cx,cy,cz) in let p := (x,y,z) in
  let a' := vsub a p in let b' := vsub b p in let c' := vsub c p in
  let u := cross b' c' in let v := cross c' a' in let w := cross a' b' in
  let n := cross (vsub b a) (vsub c a) in
  dot n n * x - (dot u n * ax + dot v n * bx + dot w n * cx) = dot n (vsub p a) * px n /\
  dot n n * y - (dot u n * ay + dot v n * by_ + dot w n * cy) = dot n (vsub p a) * py n /\
  dot n n * z - (dot u n * az + dot v n * bz + dot w n * cz) = dot n (vsub p a) * pz n /\
  dot u n + dot v n + dot w n = dot n n /\
  dot u n = dot u u + dot u v + dot u w /\
  dot v n = dot u v + dot v v + dot v w /\
  dot w n = dot u w + dot v w + dot w w.
Proof. cbv zeta. unfold dot, cross, vsub, px, py, pz. cbn [fst snd]. repeat split; ring. Qed.

Lemma dot_self_nonneg u : 0 <= dot u u.
Proof. unfold dot. repeat apply Z.add_nonneg_nonneg; apply Z.square_nonneg. Qed.

Lemma convex_axis N al be ga ax bx cx x :
  0 < N -> 0 <= al -> 0 <= be -> 0 <= ga -> al + be + ga = N ->
  N * x - (al * ax + be * bx + ga * cx) = 0 ->
  Z.min (Z.min ax bx) cx <= x <= Z.max (Z.max ax bx) cx.
Proof.
  intros HN Ha Hb Hc Hs He.
  set (m := Z.min (Z.min ax bx) cx). set (M := Z.max (Z.max ax bx) cx).
  assert (0 <= al * (ax - m)) by (apply Z.mul_nonneg_nonneg; lia).
  assert (0 <= be * (bx - m)) by (apply Z.mul_nonneg_nonneg; lia).
  assert (0 <= ga * (cx - m)) by (apply Z.mul_nonneg_nonneg; lia).
  assert (0 <= al * (M - ax)) by (apply Z.mul_nonneg_nonneg; lia).
  assert (0 <= be * (M - bx)) by (apply Z.mul_nonneg_nonneg; lia).
  assert (0 <= ga * (M - cx)) by (apply Z.mul_nonneg_nonneg; lia).
  assert (0 <= N * (x - m)) by nia. assert (0 <= N * (M - x)) by nia.
  split; nia.
Qed.

(* the repaired PointInSide (26a68bd) accepts only points of the triangle's box: for a proper
   triangle and a point of its plane, three non-negative pairwise products of the sub-triangle
   normals make the point a convex combination of the corners *)
Theorem tri_in_side_in_bbox a b c p :
  0 < dot (cross (vsub b a) (vsub c a)) (cross (vsub b a) (vsub c a)) ->
  coplanar a b c p = true -> tri_in_side a b c p = true -> inb p (tri_box a b c) = true.
Proof.
  destruct a as [[ax ay] az], b as [[bx by_] bz], c as [[cx cy] cz], p as [[x y] z].
  intros HN Hc Hs. unfold coplanar in Hc. apply Z.eqb_eq in Hc.
  unfold tri_in_side in Hs. cbv zeta in Hs. rewrite !andb_true_iff, !negb_true_iff, !Z.ltb_ge, Z.leb_le in Hs.
  destruct Hs as [[H1 H2] H3].
  destruct (tri_identity ax ay az bx by_ bz cx cy cz x y z) as (Ix & Iy & Iz & S & U & V & W).
  cbv zeta in *. rewrite Hc in Ix, Iy, Iz. rewrite Z.mul_0_l in Ix, Iy, Iz.
  set (a := (ax, ay, az)) in *. set (b := (bx, by_, bz)) in *. set (c := (cx, cy, cz)) in *. set (p := (x, y, z)) in *.
  set (n := cross (vsub b a) (vsub c a)) in *.
  set (u := cross (vsub b p) (vsub c p)) in *. set (v := cross (vsub c p) (vsub a p)) in *.
  set (w := cross (vsub a p) (vsub b p)) in *.
  pose proof (dot_self_nonneg u). pose proof (dot_self_nonneg v). pose proof (dot_self_nonneg w).
  assert (Pu : 0 <= dot u n) by lia. assert (Pv : 0 <= dot v n) by lia. assert (Pw : 0 <= dot w n) by lia.
  apply inb_true. unfold tri_box, bmin, bmax, pmin, pmax. cbn [fst snd px py pz].
  pose proof (convex_axis _ _ _ _ ax bx cx x HN Pu Pv Pw S Ix).
  pose proof (convex_axis _ _ _ _ ay by_ cy y HN Pu Pv Pw S Iy).
  pose proof (convex_axis _ _ _ _ az bz cz z HN Pu Pv Pw S Iz).
  subst a b c p. unfold px, py, pz. cbn [fst snd]. lia.
Qed.

(* the pinned PointInSide (two sign tests) accepts a point of the triangle's plane on the extension of
   edge P2-P3, outside the triangle's box: triangle (0,0,0) (2,0,0) (0,2,0), point (3.5,-1.5,0), x4 *)
Theorem tri_point_in_side_refuted :
  exists a b c p,
    0 < dot (cross (vsub b a) (vsub c a)) (cross (vsub b a) (vsub c a)) /\
    coplanar a b c p = true /\ tri_in_side_pinned a b c p = true /\
    inb p (tri_box a b c) = false /\ tri_in_side a b c p = false.
Proof.
  exists (0, 0, 0), (8, 0, 0), (0, 8, 0), (14, -6, 0). vm_compute. repeat split; reflexivity.
Qed.

(* so a triangle's reported closest point (the accepted projection, or a point of an edge) is at least
   as far from the query as the triangle's box: the hypothesis of closest_eq_brute *)
Corollary tri_projection_far a b c p q :
  0 < dot (cross (vsub b a) (vsub c a)) (cross (vsub b a) (vsub c a)) ->
  coplanar a b c p = true -> tri_in_side a b c p = true ->
  boxdist2 (tri_box a b c) q <= dist2 p q.
Proof. intros. apply boxdist2_le_in, tri_in_side_in_bbox; assumption. Qed.

Open Scope Q_scope.
(* ---------- exact closest point of a segment: no hypothesis left ---------- *)
Lemma inj_minus a b : inject_Z (a - b) == inject_Z a - inject_Z b.
Proof. unfold Z.sub. rewrite inject_Z_plus, inject_Z_opp. reflexivity. Qed.

Lemma qsq_nonneg x : 0 <= x * x.
Proof. destruct (Qlt_le_dec x 0); nra. Qed.

Lemma clamp_closest_q (v lo hi : Z) (c : Q) :
  (lo <= hi)%Z -> zq lo <= c -> c <= zq hi -> qsq (zq (clampz v lo hi) - zq v) <= qsq (c - zq v).
Proof.
  intros W H1 H2. unfold clampz, qsq, zq in *.
  destruct (Z_lt_le_dec v lo) as [L|L]; [|destruct (Z_lt_le_dec hi v) as [G|G]].
  - rewrite (Z.max_r v lo), (Z.min_l lo hi) by lia. rewrite Zlt_Qlt in L. nra.
  - rewrite (Z.max_l v lo), (Z.min_r v hi) by lia. rewrite Zlt_Qlt in G. nra.
  - rewrite (Z.max_l v lo), (Z.min_l v hi) by lia. pose proof (qsq_nonneg (c - inject_Z v)).
    assert (E : (inject_Z v - inject_Z v) * (inject_Z v - inject_Z v) == 0) by ring. rewrite E. assumption.
Qed.

Lemma seg_at_box (a b : Z) t : zq (Z.min a b) <= seg_at (zq a) (zq b) t /\ seg_at (zq a) (zq b) t <= zq (Z.max a b).
Proof.
  destruct (seg_at_between (zq a) (zq b) t) as [[H1 H2]|[H1 H2]];
    unfold zq in *; destruct (Z_le_gt_dec a b) as [L|G].
  - rewrite Z.min_l, Z.max_r by lia. split; assumption.
  - assert (inject_Z b <= inject_Z a) by (rewrite <- Zle_Qle; lia).
    rewrite Z.min_r, Z.max_l by lia. split; lra.
  - assert (inject_Z a <= inject_Z b) by (rewrite <- Zle_Qle; lia).
    rewrite Z.min_l, Z.max_r by lia. split; lra.
  - rewrite Z.min_r, Z.max_l by lia. split; assumption.
Qed.

(* the exact closest point of a segment is at least as far from the query as the segment's box:
   for every segment (also zero-length) and every query *)
Theorem seg_closest_far a b p :
  zq (boxdist2 (seg_box a b) p) <= qdist2 (seg_closest a b p) p.
Proof.
  unfold boxdist2, dist2, bclosest, seg_box, seg_closest, qdist2, bmin, bmax, pmin, pmax.
  cbn [fst snd px py pz].
  set (t := seg_param a b p).
  destruct (seg_at_box (px a) (px b) t) as [X1 X2].
  destruct (seg_at_box (py a) (py b) t) as [Y1 Y2].
  destruct (seg_at_box (pz a) (pz b) t) as [Z1 Z2].
  pose proof (clamp_closest_q (px p) _ _ _ (Z.le_trans _ _ _ (Z.le_min_l _ _) (Z.le_max_l _ _)) X1 X2) as Hx.
  pose proof (clamp_closest_q (py p) _ _ _ (Z.le_trans _ _ _ (Z.le_min_l _ _) (Z.le_max_l _ _)) Y1 Y2) as Hy.
  pose proof (clamp_closest_q (pz p) _ _ _ (Z.le_trans _ _ _ (Z.le_min_l _ _) (Z.le_max_l _ _)) Z1 Z2) as Hz.
  unfold zq, sq, qsq in *. rewrite !inject_Z_plus, !inject_Z_mult.
  rewrite !inj_minus.
  assert (S : forall x y : Q, (x - y) * (x - y) == (y - x) * (y - x)) by (intros; ring).
  rewrite (S (inject_Z (px p))), (S (inject_Z (py p))), (S (inject_Z (pz p))). lra.
Qed.

(* finitely many rational keys have a common positive integer scale *)
Lemma common_scale (kq : nat -> Q) : forall n, exists (K : Z) (f : nat -> Z),
  (0 < K)%Z /\ forall i, (i < n)%nat -> inject_Z (f i) == inject_Z K * kq i.
Proof.
  induction n as [|n (K & f & HK & Hf)].
  - exists 1%Z, (fun _ => 0%Z). split; [lia|]. intros i Hi. lia.
  - destruct (kq n) as [num den] eqn:E.
    exists (Z.pos den * K)%Z, (fun i => if Nat.eqb i n then (num * K)%Z else (Z.pos den * f i)%Z).
    split; [lia|]. intros i Hi. destruct (Nat.eqb i n) eqn:En.
    + apply Nat.eqb_eq in En. subst i. rewrite E. unfold Qeq, Qmult, inject_Z. cbn [Qnum Qden].
      rewrite Pos.mul_1_l. ring.
    + apply Nat.eqb_neq in En. assert (Hi' : (i < n)%nat) by lia. specialize (Hf i Hi').
      rewrite !inject_Z_mult, Hf. ring.
Qed.

(* ClosestPoint for elements whose exact squared distances kq are no smaller than their box distances:
   there is an integer scale at which the search of the model runs, it answers, the returned index is
   the element that produced the returned point, and its exact distance is minimal *)
Theorem closest_eq_brute_exact_thm (P : Type) (cpt : nat -> P) (kq : nat -> Q) q depth boxes t :
  Forall wf_box boxes ->
  (forall i, (i < length boxes)%nat -> zq (boxdist2 (nth i boxes zero_pt_box) q) <= kq i) ->
  new_octree depth boxes = Some t ->
  exists (K : Z) (ekey : nat -> Z),
    (0 < K)%Z /\ (forall i, (i < length boxes)%nat -> inject_Z (ekey i) == inject_Z K * kq i) /\
    (exists r, closest P ekey cpt K q t = Some r) /\
    forall i k p, closest P ekey cpt K q t = Some (i, k, p) ->
      (i < length boxes)%nat /\ p = cpt i /\ forall j, (j < length boxes)%nat -> kq i <= kq j.
Proof.
  intros W H B. destruct (common_scale kq (length boxes)) as (K & ekey & HK & He).
  exists K, ekey. split; [exact HK|]. split; [exact He|].
  assert (KQ : 0 < inject_Z K) by (change 0 with (inject_Z 0); rewrite <- Zlt_Qlt; exact HK).
  destruct (closest_eq_brute_thm P ekey cpt K q depth boxes t) as [S C]; try assumption; [lia| |].
  - intros i Hi. rewrite Zle_Qle, inject_Z_mult, (He i Hi). specialize (H i Hi). unfold zq in H. nra.
  - split; [exact S|]. intros i k p Hc. destruct (C i k p Hc) as (C1 & C2 & C3 & C4).
    split; [exact C1|]. split; [exact C3|]. intros j Hj. specialize (C4 j Hj). subst k.
    rewrite Zle_Qle, (He i C1), (He j Hj) in C4. nra.
Qed.

(* segments: no hypothesis on the elements is left *)
Definition seg_of (segs : list (pt * pt)) (i : nat) : pt * pt := nth i segs ((0, 0, 0)%Z, (0, 0, 0)%Z).

Theorem closest_eq_brute_segments_thm (segs : list (pt * pt)) q depth t :
  let boxes := map (fun s => seg_box (fst s) (snd s)) segs in
  let cpt := fun i => seg_closest (fst (seg_of segs i)) (snd (seg_of segs i)) q in
  let kq := fun i => qdist2 (cpt i) q in
  new_octree depth boxes = Some t ->
  exists (K : Z) (ekey : nat -> Z),
    (0 < K)%Z /\ (forall i, (i < length segs)%nat -> inject_Z (ekey i) == inject_Z K * kq i) /\
    (exists r, closest qpt ekey cpt K q t = Some r) /\
    forall i k p, closest qpt ekey cpt K q t = Some (i, k, p) ->
      (i < length segs)%nat /\ p = cpt i /\ forall j, (j < length segs)%nat -> kq i <= kq j.
Proof.
  intros boxes cpt kq B.
  assert (L : length boxes = length segs) by (unfold boxes; apply map_length).
  rewrite <- L. apply (closest_eq_brute_exact_thm qpt cpt kq q depth boxes t); [| |exact B].
  - unfold boxes. apply Forall_forall. intros b Hb. apply in_map_iff in Hb. destruct Hb as (s & <- & _). apply seg_box_wf.
  - intros i Hi. unfold kq, cpt, seg_of, boxes.
    change zero_pt_box with ((fun s : pt * pt => seg_box (fst s) (snd s)) ((0, 0, 0)%Z, (0, 0, 0)%Z)).
    rewrite map_nth. apply seg_closest_far.
Qed.
Open Scope Z_scope.
