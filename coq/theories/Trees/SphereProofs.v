(* C16 — sphere members of a BVH meet the hypothesis the BVH theorems make about leaves ("a hit lies in the
   leaf's own box"): every point of a sphere whose centre moves linearly from c0 (start of the time window)
   to c1 (end) lies in the box Sphere.BoundingBox(start, end) reports once that box is the diameter wide;
   the pinned box (radius wide) is refuted by a witness. *)
From PF Require Export Trees.TriProofs Trees.BvhProofs.
From Coq Require Import Lqa Lia.
Open Scope Q_scope.

Lemma zq_plus a b : zq (a + b) == zq a + zq b.
Proof. unfold zq. rewrite inject_Z_plus. reflexivity. Qed.
Lemma zq_minus a b : zq (a - b) == zq a - zq b.
Proof. unfold zq. apply ElemProofs.inj_minus. Qed.

Lemma sq_bound (d r : Q) : 0 <= r -> d * d <= r * r -> - r <= d /\ d <= r.
Proof. intros Hr H. split; nra. Qed.

(* one axis: x within r of a centre between c0 and c1 *)
Lemma axis_moving (c0 c1 r : Z) (f x : Q) :
  (0 <= r)%Z -> 0 <= f -> f <= 1 ->
  (x - (zq c0 + (zq c1 - zq c0) * f)) * (x - (zq c0 + (zq c1 - zq c0) * f)) <= zq r * zq r ->
  zq (Z.min (Z.min (c0 - r) (c1 - r)) (c1 + r)) <= x /\ x <= zq (Z.max (Z.max (c0 + r) (c1 - r)) (c1 + r)).
Proof.
  intros Hr F0 F1 H.
  assert (Rq : 0 <= zq r) by (change 0 with (zq 0); apply zq_le; exact Hr).
  destruct (sq_bound _ _ Rq H) as [L U].
  destruct (Z_le_gt_dec c0 c1) as [C|C].
  - assert (Cq : zq c0 <= zq c1) by (apply zq_le; exact C).
    replace (Z.min (Z.min (c0 - r) (c1 - r)) (c1 + r)) with (c0 - r)%Z by lia.
    replace (Z.max (Z.max (c0 + r) (c1 - r)) (c1 + r)) with (c1 + r)%Z by lia.
    rewrite zq_minus, zq_plus. split; nra.
  - assert (Cq : zq c1 <= zq c0) by (apply zq_le; lia).
    replace (Z.min (Z.min (c0 - r) (c1 - r)) (c1 + r)) with (c1 - r)%Z by lia.
    replace (Z.max (Z.max (c0 + r) (c1 - r)) (c1 + r)) with (c0 + r)%Z by lia.
    rewrite zq_minus, zq_plus. split; nra.
Qed.

(* centre of the sphere at the fraction f of the time window *)
Definition centre_at (c0 c1 : pt) (f : Q) : qpt :=
  (zq (px c0) + (zq (px c1) - zq (px c0)) * f, zq (py c0) + (zq (py c1) - zq (py c0)) * f,
   zq (pz c0) + (zq (pz c1) - zq (pz c0)) * f).

Theorem moving_sphere_point_in_box_thm c0 c1 r f (X : qpt) :
  (0 <= r)%Z -> 0 <= f -> f <= 1 ->
  qdist2q X (centre_at c0 c1 f) <= zq r * zq r ->
  in_qbox X (moving_sphere_box c0 c1 r).
Proof.
  destruct X as [[x y] z]. intros Hr F0 F1 H.
  unfold qdist2q, qdot, qvsub, centre_at, qx, qy, qz in H. cbn [fst snd] in H.
  set (dx := x - (zq (px c0) + (zq (px c1) - zq (px c0)) * f)) in *.
  set (dy := y - (zq (py c0) + (zq (py c1) - zq (py c0)) * f)) in *.
  set (dz := z - (zq (pz c0) + (zq (pz c1) - zq (pz c0)) * f)) in *.
  pose proof (qsq_nonneg dx). pose proof (qsq_nonneg dy). pose proof (qsq_nonneg dz).
  assert (Hx : dx * dx <= zq r * zq r) by lra.
  assert (Hy : dy * dy <= zq r * zq r) by lra.
  assert (Hz : dz * dz <= zq r * zq r) by lra.
  unfold in_qbox, moving_sphere_box, enc_box, enc_pt, sphere_box, bmin, bmax, pmin, pmax, qx, qy, qz.
  cbn [fst snd px py pz].
  split; [|split].
  - apply (axis_moving _ _ _ f x Hr F0 F1 Hx).
  - apply (axis_moving _ _ _ f y Hr F0 F1 Hy).
  - apply (axis_moving _ _ _ f z Hr F0 F1 Hz).
Qed.

(* the pinned box (NewAABB given the radius as the box SIZE): a point of the sphere outside its own box *)
Theorem sphere_box_pinned_refuted_thm :
  exists (c : pt) (r : Z) (X : qpt),
    (0 <= r)%Z /\ qdist2q X (centre_at c c 0) == zq r * zq r /\
    ~ in_qbox X (sphere_box_pinned c r) /\ in_qbox X (sphere_box c r).
Proof.
  exists (0, 0, 40)%Z, 8%Z, (- (8 # 1), 0, 40 # 1).
  split; [lia|]. split; [vm_compute; reflexivity|]. split.
  - unfold in_qbox, sphere_box_pinned, qx, qy, qz, bmin, bmax, px, py, pz. cbn [fst snd].
    intros [[H _] _]. vm_compute in H. apply H. reflexivity.
  - unfold in_qbox, sphere_box, qx, qy, qz, bmin, bmax, px, py, pz, zq. cbn [fst snd].
    repeat split; vm_compute; intros E; discriminate E.
Qed.
